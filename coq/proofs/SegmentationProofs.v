(* C04 - the greedy left-to-right segmentation as ONE statement over whole texts.

   Part 1 (specification): [greedy_segment : list Z -> list token * tend], a scanner written from the property text,
   without the helper functions of the implementation model (model/Tokenize.v: skip_ws, special_token, generic_token,
   parse_operators, parse_punct, parse_identifier / ident_loop / ident_stop, varquote_loop, scan_line, scan_block,
   tokens, lex) and without TokSpec.longest_kw. It walks over the text ONCE, structurally (no fuel): inside a token it
   moves on; at a token boundary [start_at] says what starts there, from declarative notions:
     - [longest_at tbl s]   the longest word of a table that is a prefix of s (tables: doc_keywords, symbols);
     - [break_at s]         a name must stop here: end of text, white space, a marker, a documented keyword, // /* /= ;
     - [run s]              the maximal run = everything before the first break;
     - [leading p s]        the longest prefix whose characters satisfy p.
   Part 2 (proof): [lex_is_greedy_segment : forall s, lex_impl s = greedy_segment s] for EVERY list of code points s,
   tokens, positions, literals AND the way the run ends (EOF / invalid character and its position / outside the model).
   No guard is needed; [in_scope] (no string quote, line break, 注, leading indentation) is the guard under which the
   model applies, i.e. the run ends with EOF or an invalid character ([in_scope_proper_end]), and it is satisfiable
   (Examples at the end).

   What the specification had to say beyond the one-line property text for the equation to hold (each is visible in
   a definition below; none is a counterexample to the theorem, all are behaviours of the model):
     - a name also stops before `/=` (the not-equal symbol), not only before comments            [slash_pair]
     - the run of a name is cut at breaks ONLY; a character in it that is not an identifier-body character (a quote, a
       backtick, ...) makes the whole text invalid at that character instead of ending the name   [name_at, SInvalid]
     - a run that ends with '/' is invalid at that '/'                                             [name_at]
     - names start with an identifier character (+ and - included, * / . % not) and numbers are names here
     - + - * / are operators only before white space, punctuation or a quote; the end of the text is NOT a delimiter
     - an unterminated `/*` comment silently extends to the end of the text                        [block_body]
     - the code point -1 (RuneEOF) behaves as the end of the text wherever it occurs               [start_at, in_line] *)
From Coq Require Import List ZArith Bool Lia Arith.
Import ListNotations.
From Zn.gen Require Import GenC04Tokens GenC04IdRange.
From Zn.model Require Import IdRange Tokenize TokSpec TokDoc.
From Zn.proofs Require Import TokenizeProofs.
Open Scope Z_scope.

(* ================================================================== Part 1: the specification *)
(* Reused from the model: the result types [token], [tend]; the character classes [is_ws], [is_id_char], [is_id_body],
   [is_pure_number]; from model/TokSpec.v the manual's table [doc_keywords] and [prefix_of]; the generated rune sets
   g_markPunctuations, g_markQuotes, g_terminateMarkers and the named code points / token types (g_...). *)
Definition text := list Z.
Definition entry := (list Z * Z)%type.                  (* a word and the token type it denotes *)

Definition among (c : Z) (l : list Z) : bool := existsb (Z.eqb c) l.
Definition next (s : text) : Z := hd g_RuneEOF s.       (* the character at the head; RuneEOF (-1) at the end of text *)

(* the longest prefix of s whose characters all satisfy p *)
Fixpoint leading (p : Z -> bool) (s : text) : text :=
  match s with
  | c :: r => if p c then c :: leading p r else []
  | [] => []
  end.

(* ---- "the longest word of a table that starts here" *)
Definition words_at (tbl : list entry) (s : text) : list entry := filter (fun e => prefix_of (fst e) s) tbl.
Definition longer (a b : entry) : entry := if Nat.ltb (length (fst a)) (length (fst b)) then b else a.
Definition longest_at (tbl : list entry) (s : text) : option entry :=
  match words_at tbl s with
  | [] => None
  | e :: l => Some (fold_left longer l e)
  end.

Fixpoint lookup (c : Z) (tbl : list (Z * Z)) : option Z :=
  match tbl with
  | [] => None
  | (k, v) :: r => if c =? k then Some v else lookup c r
  end.

(* ---- the tables of the manual other than the keywords *)
Definition punctuation : list (Z * Z) := [
  (g_Comma, g_TypeCommaSep); (g_Comma_EN, g_TypeCommaSep); (g_PauseComma, g_TypePauseCommaSep);
  (g_Colon, g_TypeFuncCall); (g_Colon_EN, g_TypeFuncCall); (g_Semicolon, g_TypeStmtSep); (g_Semicolon_EN, g_TypeStmtSep);
  (g_QuestionMark, g_TypeFuncDeclare); (g_QuestionMark_EN, g_TypeFuncDeclare);
  (g_BangMark, g_TypeExceptionT); (g_BangMark_EN, g_TypeExceptionT);
  (g_LeftBracket, g_TypeArrayQuoteL); (g_LeftBracket_EN, g_TypeArrayQuoteL);
  (g_RightBracket, g_TypeArrayQuoteR); (g_RightBracket_EN, g_TypeArrayQuoteR);
  (g_LeftParen, g_TypeFuncQuoteL); (g_LeftParen_EN, g_TypeFuncQuoteL);
  (g_RightParen, g_TypeFuncQuoteR); (g_RightParen_EN, g_TypeFuncQuoteR);
  (g_LeftCurlyBracket, g_TypeStmtQuoteL); (g_RightCurlyBracket, g_TypeStmtQuoteR) ].

(* symbols that are tokens wherever they start *)
Definition symbols : list entry := [
  ([g_EqualOp; g_EqualOp], g_TypeEqualMark); ([g_LessThanOp; g_EqualOp], g_TypeLTEMark);
  ([g_GreaterThanOp; g_EqualOp], g_TypeGTEMark); ([g_SlashOp; g_EqualOp], g_TypeNEMark);
  ([g_RefOp], g_TypeObjRef); ([g_AnnotationOp], g_TypeAnnotationT); ([g_HashOp], g_TypeMapHash);
  ([g_EqualOp], g_TypeAssignMark); ([g_LessThanOp], g_TypeLTMark); ([g_GreaterThanOp], g_TypeGTMark);
  ([g_IntDivOp], g_TypeIntDivMark); ([g_RemainderOp], g_TypeModuloMark) ].

(* + - * / are operators only when a delimiter follows *)
Definition arithmetic : list (Z * Z) :=
  [(g_PlusOp, g_TypePlus); (g_MinusOp, g_TypeMinus); (g_MultiplyOp, g_TypeMultiply); (g_SlashOp, g_TypeDivision)].
Definition is_delimiter (c : Z) : bool := is_ws c || among c g_markPunctuations || among c g_markQuotes.

Definition is_line_break (c : Z) : bool := (c =? g_RuneCR) || (c =? g_RuneLF).
Definition in_line (c : Z) : bool := negb ((c =? g_RuneEOF) || is_line_break c).
Definition opens_string (c : Z) : bool :=
  among c [g_LeftLibQuoteI; g_LeftDoubleQuoteI; g_LeftDoubleQuoteII; g_LeftSingleQuoteI; g_LeftSingleQuoteII].

(* ---- where a name must stop: the end of the text, white space, a marker, a documented keyword, or `//` `/*` `/=` *)
Definition keyword_starts (s : text) : bool := existsb (fun e => prefix_of (fst e) s) doc_keywords.
Definition slash_pair (s : text) : bool :=
  match s with
  | a :: b :: _ => (a =? g_SlashOp) && among b [g_SlashOp; g_MultiplyOp; g_EqualOp]
  | _ => false
  end.
Definition break_at (s : text) : bool :=
  match s with
  | [] => true
  | c :: _ => is_ws c || among c g_terminateMarkers || keyword_starts s || slash_pair s
  end.
(* the maximal run: everything before the first break *)
Fixpoint run (s : text) : text :=
  match s with
  | [] => []
  | c :: r => if break_at s then [] else c :: run r
  end.

(* ---- what starts at a token boundary *)
Inductive start :=
  | SToken (ty : Z) (len : nat) (lit : text)    (* a token of [len] characters *)
  | SInvalid (off : nat)                        (* no token: the character [off] places further is invalid *)
  | SOutside                                    (* strings, line breaks, `注…：` comments: outside this model *)
  | SEnd.                                       (* end of the text *)

(* a name: an identifier character, then the maximal run, which must consist of identifier-body characters and
   must not end with '/' *)
Definition name_at (s : text) : start :=
  match s with
  | [] => SEnd
  | c :: r =>
      if is_id_char c then
        let tail := run r in
        let good := leading is_id_body tail in
        if Nat.ltb (length good) (length tail) then SInvalid (1 + length good)
        else if last (c :: tail) 0 =? g_SlashOp then SInvalid (length tail)
        else SToken g_TypeIdentifier (1 + length tail) (c :: tail)
      else SInvalid 0
  end.

(* after a backtick: identifier-body characters up to the closing backtick are ONE identifier *)
Definition quoted_at (r : text) : start :=
  let body := leading is_id_body r in
  if next (skipn (length body) r) =? g_BackTick then SToken g_TypeIdentifier (2 + length body) body
  else SInvalid (1 + length body).

(* after `/*`: the number of characters up to and including the first `*/` (up to the end of the text when there is
   none); None when a line break comes first *)
Fixpoint block_body (r : text) : option nat :=
  match r with
  | [] => Some 0%nat
  | c :: r' =>
      if c =? g_RuneEOF then Some 0%nat
      else if is_line_break c then None
      else if (c =? g_MultiplyOp) && (next r' =? g_SlashOp) then Some 2%nat
      else option_map S (block_body r')
  end.

(* 注, digits, ： *)
Definition note_comment (s : text) : bool :=
  match s with
  | c :: r => (c =? g_CharZHU) && (next (skipn (length (leading is_pure_number r)) r) =? g_Colon)
  | [] => false
  end.

(* the longest documented keyword that starts here, otherwise a name *)
Definition word_at (s : text) : start :=
  match longest_at doc_keywords s with
  | Some (w, ty) => SToken ty (length w) []
  | None => name_at s
  end.

Definition plain_start_at (s : text) : start :=
  match s with
  | [] => SEnd
  | c :: r =>
      match lookup c punctuation with
      | Some ty => SToken ty 1 []
      | None =>
          match longest_at symbols s with
          | Some (w, ty) => SToken ty (length w) []
          | None =>
              match (if is_delimiter (next r) then lookup c arithmetic else None) with
              | Some ty => SToken ty 1 []
              | None => word_at s
              end
          end
      end
  end.

Definition start_at (s : text) : start :=
  match s with
  | [] => SEnd
  | c :: r =>
      if is_line_break c then SOutside
      else if c =? g_RuneEOF then SEnd
      else if note_comment s then SOutside
      else if (c =? g_SlashOp) && (next r =? g_SlashOp) then SToken g_TypeComment (2 + length (leading in_line (tl r))) []
      else if (c =? g_SlashOp) && (next r =? g_MultiplyOp) then
        match block_body (tl r) with
        | Some n => SToken g_TypeComment (2 + n) []
        | None => SOutside
        end
      else if opens_string c then SOutside
      else if c =? g_BackTick then quoted_at r
      else plain_start_at s
  end.

(* one walk over the text; [inside] = number of characters of the current token still to pass *)
Fixpoint scan (s : text) (pos : Z) (inside : nat) : list token * tend :=
  match s with
  | [] => ([(g_TypeEOF, pos, pos, [])], EEof)
  | c :: r =>
      match inside with
      | S k => scan r (pos + 1) k
      | O =>
          if is_ws c then scan r (pos + 1) 0
          else
            match start_at s with
            | SToken ty len lit =>
                let '(l, e) := scan r (pos + 1) (len - 1) in ((ty, pos, pos + Z.of_nat len, lit) :: l, e)
            | SInvalid off => ([], EErr (pos + Z.of_nat off))
            | SOutside => ([], EUnsupported)
            | SEnd => ([(g_TypeEOF, pos, pos, [])], EEof)
            end
      end
  end.

Definition greedy_segment (s : text) : list token * tend :=
  if among (next s) [g_RuneTAB; g_RuneSP] then ([], EUnsupported) else scan s 0 0.

(* ================================================================== Part 2: the model's lexer IS this scanner *)
Local Notation KW := (parse_keyword g_kw_tree).

(* ---- lists *)
Lemma among_mem : forall c l, among c l = mem c l.
Proof. reflexivity. Qed.

Lemma leading_length : forall p s, (length (leading p s) <= length s)%nat.
Proof. induction s as [|c r IH]; cbn [leading length]; [lia|]. destruct (p c); cbn [length]; lia. Qed.

Lemma hd_rev_last : forall (l : list Z) d, hd d (rev l) = last l d.
Proof.
  intros l d. destruct l as [|a l] using rev_ind; [reflexivity|].
  rewrite rev_app_distr, last_last. reflexivity.
Qed.

Lemma skipn_S_cons : forall (n : nat) (c : Z) r, skipn (S n) (c :: r) = skipn n r.
Proof. reflexivity. Qed.

(* ---- the longest word of a table *)
Lemma fold_longer_spec : forall l e, let m := fold_left longer l e in
  In m (e :: l) /\ (length (fst e) <= length (fst m))%nat /\ forall x, In x l -> (length (fst x) <= length (fst m))%nat.
Proof.
  induction l as [|a l IH]; intro e; cbn [fold_left].
  - split; [left; reflexivity|]. split; [lia|]. intros x [].
  - specialize (IH (longer e a)). cbv zeta in IH. destruct IH as [H1 [H2 H3]].
    assert (Hl : (length (fst e) <= length (fst (longer e a)) /\ length (fst a) <= length (fst (longer e a)))%nat).
    { unfold longer. destruct (Nat.ltb_spec (length (fst e)) (length (fst a))); lia. }
    split.
    + destruct H1 as [H1|H1]; [|right; right; exact H1]. rewrite <- H1. unfold longer.
      destruct (Nat.ltb _ _); [right; left; reflexivity | left; reflexivity].
    + split; [lia|]. intros x [Hx|Hx]; [subst x; lia | apply H3; exact Hx].
Qed.

Lemma longest_at_spec : forall tbl s,
  match longest_at tbl s with
  | Some (w, ty) => In (w, ty) tbl /\ prefix_of w s = true /\
                    forall w' ty', In (w', ty') tbl -> prefix_of w' s = true -> (length w' <= length w)%nat
  | None => no_keyword_at tbl s
  end.
Proof.
  intros tbl s. unfold longest_at. destruct (words_at tbl s) as [|e l] eqn:E.
  - intros w' ty' Hin. destruct (prefix_of w' s) eqn:Hp; [|reflexivity].
    assert (In (w', ty') (words_at tbl s)) as Hf by (apply filter_In; split; [exact Hin | exact Hp]).
    rewrite E in Hf. destruct Hf.
  - pose proof (fold_longer_spec l e) as H. cbv zeta in H. destruct H as [H1 [H2 H3]].
    destruct (fold_left longer l e) as [w ty] eqn:Em. cbn [fst] in *.
    assert (Hm : In (w, ty) (words_at tbl s)) by (rewrite E; exact H1).
    apply filter_In in Hm. destruct Hm as [Hm1 Hm2]. cbn [fst] in Hm2.
    split; [exact Hm1|]. split; [exact Hm2|].
    intros w' ty' Hin Hp.
    assert (Hf : In (w', ty') (words_at tbl s)) by (apply filter_In; split; [exact Hin | exact Hp]).
    rewrite E in Hf. destruct Hf as [Hf|Hf]; [subst e; exact H2 | apply (H3 _ Hf)].
Qed.

(* ---- keywords: the tree of the implementation finds the longest documented word *)
Lemma gkw_longest_at : forall s,
  gkw s = match longest_at doc_keywords s with Some (w, ty) => Some (Z.of_nat (length w), ty) | None => None end.
Proof.
  intro s. unfold gkw. rewrite gen_kw_is_longest_kw.
  destruct doc_words_ok as [Hf _].
  pose proof (longest_kw_spec doc_keywords s) as H1. pose proof (longest_at_spec doc_keywords s) as H2.
  destruct (longest_kw doc_keywords s) as [[n ty]|]; destruct (longest_at doc_keywords s) as [[w ty']|].
  - assert (H2' : longest_keyword_at doc_keywords s (Z.of_nat (length w)) ty').
    { destruct H2 as [Ha [Hb Hc]]. exists w. auto. }
    destruct (longest_keyword_unique _ _ _ _ _ _ Hf H1 H2'). subst. reflexivity.
  - destruct H1 as [w [Hw1 [Hw2 _]]]. rewrite (H2 _ _ Hw1) in Hw2. discriminate.
  - destruct H2 as [Hw1 [Hw2 _]]. rewrite (H1 _ _ Hw1) in Hw2. discriminate.
  - reflexivity.
Qed.

Lemma keyword_starts_longest : forall s,
  keyword_starts s = match longest_at doc_keywords s with Some _ => true | None => false end.
Proof.
  intro s. pose proof (longest_at_spec doc_keywords s) as H. unfold keyword_starts.
  destruct (longest_at doc_keywords s) as [[w ty]|].
  - destruct H as [H1 [H2 _]]. apply existsb_exists. exists (w, ty). auto.
  - destruct (existsb _ _) eqn:E; [|reflexivity]. apply existsb_exists in E. destruct E as [[w ty] [E1 E2]].
    cbn [fst] in E2. rewrite (H _ _ E1) in E2. discriminate.
Qed.

(* ---- names *)
Lemma stop_nil : ident_stop gkw [] = true.
Proof. vm_compute. reflexivity. Qed.

Lemma stop_is_break : forall r, ident_stop gkw r = break_at r.
Proof.
  intros [|c r]; [exact stop_nil|].
  unfold ident_stop, break_at, comment_ahead. rewrite keyword_starts_longest, gkw_longest_at.
  assert (Hs : (cur (c :: r) =? g_SlashOp) && mem (peekn 1 (c :: r)) [g_SlashOp; g_MultiplyOp; g_EqualOp] = slash_pair (c :: r)).
  { rewrite peek1. cbn [cur hd slash_pair]. destruct r as [|b r]; [|reflexivity].
    cbn [cur hd]. change (mem g_RuneEOF [g_SlashOp; g_MultiplyOp; g_EqualOp]) with false. apply andb_false_r. }
  cbn [cur hd] in Hs |- *. change (among c g_terminateMarkers) with (mem c g_terminateMarkers).
  destruct ((c =? g_SlashOp) && mem (peekn 1 (c :: r)) [g_SlashOp; g_MultiplyOp; g_EqualOp]); rewrite <- Hs;
  destruct (longest_at doc_keywords (c :: r)) as [[w ty]|]; destruct (is_ws c); destruct (mem c g_terminateMarkers);
    reflexivity.
Qed.

Lemma ident_loop_run : forall r start pos lit,
  ident_loop gkw start r pos lit =
  let w := run r in let good := leading is_id_body w in
  if Nat.ltb (length good) (length w) then TErr (pos + Z.of_nat (length good))
  else if hd 0 (rev w ++ lit) =? g_SlashOp then TErr (pos + Z.of_nat (length w) - 1)
  else TTok g_TypeIdentifier start (pos + Z.of_nat (length w)) (rev lit ++ w) (skipn (length w) r).
Proof.
  induction r as [|c r IH]; intros start pos lit; cbn [ident_loop]; rewrite stop_is_break; cbv zeta.
  - cbn [break_at run leading length rev app skipn]. unfold ident_finish. rewrite app_nil_r.
    change (Nat.ltb 0 0) with false. cbv iota. replace (pos + Z.of_nat 0 - 1) with (pos - 1) by lia.
    replace (pos + Z.of_nat 0) with pos by lia. reflexivity.
  - cbn [run]. destruct (break_at (c :: r)) eqn:Eb.
    + cbn [leading length rev app skipn]. unfold ident_finish. rewrite app_nil_r.
      change (Nat.ltb 0 0) with false. cbv iota. replace (pos + Z.of_nat 0 - 1) with (pos - 1) by lia.
      replace (pos + Z.of_nat 0) with pos by lia. reflexivity.
    + cbn [leading]. destruct (is_id_body c) eqn:Ec.
      * rewrite IH. cbv zeta. cbn [length]. rewrite skipn_S_cons.
        change (Nat.ltb (S ?a) (S ?b)) with (Nat.ltb a b).
        cbn [rev]. rewrite <- !app_assoc. cbn [app].
        replace (pos + 1 + Z.of_nat (length (leading is_id_body (run r)))) with (pos + Z.of_nat (S (length (leading is_id_body (run r))))) by lia.
        replace (pos + 1 + Z.of_nat (length (run r))) with (pos + Z.of_nat (S (length (run r)))) by lia.
        reflexivity.
      * cbn [length]. change (Nat.ltb 0 (S ?b)) with true. cbv iota. f_equal. lia.
Qed.

Lemma parse_identifier_name : forall c r pos,
  parse_identifier gkw (c :: r) pos =
  match name_at (c :: r) with
  | SToken ty len lit => TTok ty pos (pos + Z.of_nat len) lit (skipn len (c :: r))
  | SInvalid off => TErr (pos + Z.of_nat off)
  | SOutside => TUnsupported
  | SEnd => TEof pos
  end.
Proof.
  intros c r pos. unfold parse_identifier, name_at. cbn [cur hd tl].
  destruct (is_id_char c); cbn [negb]; [|f_equal; lia].
  rewrite ident_loop_run. cbv zeta.
  destruct (Nat.ltb _ _); [f_equal; lia|].
  assert (Hl : hd 0 (rev (run r) ++ [c]) = last (c :: run r) 0).
  { change (rev (run r) ++ [c]) with (rev (c :: run r)). apply hd_rev_last. }
  rewrite Hl. destruct (_ =? g_SlashOp); [f_equal; lia|].
  cbn [rev app]. rewrite skipn_S_cons. f_equal. lia.
Qed.

(* ---- how a [start] reads as a result of NextToken at position pos of the text s *)
Definition interp (st : start) (s : text) (pos : Z) : tres :=
  match st with
  | SToken ty len lit => TTok ty pos (pos + Z.of_nat len) lit (skipn len s)
  | SInvalid off => TErr (pos + Z.of_nat off)
  | SOutside => TUnsupported
  | SEnd => TEof pos
  end.

(* ---- backtick names *)
Lemma varquote_quoted : forall r start pos lit,
  varquote_loop start r pos lit =
  let body := leading is_id_body r in
  if next (skipn (length body) r) =? g_BackTick
  then TTok g_TypeIdentifier start (pos + Z.of_nat (length body) + 1) (rev lit ++ body) (skipn (S (length body)) r)
  else TErr (pos + Z.of_nat (length body)).
Proof.
  induction r as [|c r IH]; intros start pos lit; cbn [varquote_loop leading]; cbv zeta.
  - rewrite eof_not_body. cbn [length skipn next hd]. change (g_RuneEOF =? g_BackTick) with false. cbv iota. f_equal. lia.
  - destruct (is_id_body c) eqn:Ec.
    + rewrite IH. cbv zeta. cbn [length]. rewrite !skipn_S_cons.
      destruct (_ =? g_BackTick); [|f_equal; lia].
      f_equal; [lia|]. cbn [rev]. rewrite <- app_assoc. reflexivity.
    + cbn [length skipn next hd]. destruct (c =? g_BackTick); [|f_equal; lia].
      rewrite app_nil_r. f_equal. lia.
Qed.

(* ---- comments *)
Lemma scan_line_leading : forall r pos,
  scan_line r pos = (pos + Z.of_nat (length (leading in_line r)), skipn (length (leading in_line r)) r).
Proof.
  induction r as [|c r IH]; intro pos; cbn [scan_line leading].
  - cbn [length skipn]. f_equal. lia.
  - assert (Hl : in_line c = negb (line_end c)).
    { unfold in_line, line_end, is_line_break. rewrite orb_assoc. reflexivity. }
    rewrite Hl. destruct (line_end c); cbn [negb].
    + cbn [length skipn]. f_equal. lia.
    + rewrite IH. cbn [length]. rewrite skipn_S_cons. f_equal. lia.
Qed.

Lemma scan_block_body : forall r pos,
  scan_block r pos = match block_body r with Some n => Some (pos + Z.of_nat n, skipn n r) | None => None end.
Proof.
  induction r as [|c r IH]; intro pos; cbn [scan_block block_body].
  - cbn [skipn]. replace (pos + Z.of_nat 0) with pos by lia. reflexivity.
  - destruct (c =? g_RuneEOF); [cbn [skipn]; replace (pos + Z.of_nat 0) with pos by lia; reflexivity|].
    unfold is_line_break. destruct ((c =? g_RuneCR) || (c =? g_RuneLF)); [reflexivity|].
    change (cur r) with (next r).
    destruct ((c =? g_MultiplyOp) && (next r =? g_SlashOp)).
    + replace (pos + Z.of_nat 2) with (pos + 2) by lia. destruct r; reflexivity.
    + rewrite IH. destruct (block_body r) as [n|]; cbn [option_map]; [|reflexivity].
      rewrite skipn_S_cons. replace (pos + 1 + Z.of_nat n) with (pos + Z.of_nat (S n)) by lia. reflexivity.
Qed.

Lemma skip_digits_leading : forall r, skip_digits r = skipn (length (leading is_pure_number r)) r.
Proof.
  induction r as [|c r IH]; cbn [skip_digits leading]; [reflexivity|].
  destruct (is_pure_number c); [cbn [length]; rewrite skipn_S_cons; exact IH | reflexivity].
Qed.

(* ---- punctuation *)
Lemma lookup_is_assoc : forall c tbl, lookup c tbl = assoc c tbl.
Proof. induction tbl as [|[k v] tbl IH]; cbn [lookup assoc]; [reflexivity|]. rewrite IH. reflexivity. Qed.

Lemma mem_keys : forall c tbl, mem c (map fst tbl) = match assoc c tbl with Some _ => true | None => false end.
Proof.
  induction tbl as [|[k v] tbl IH]; [reflexivity|]. cbn [map fst assoc]. unfold mem in *. cbn [existsb].
  destruct (c =? k); [reflexivity|]. exact IH.
Qed.

Lemma punctuation_tables : punctuation = g_punctuationTypeMap /\ map fst g_punctuationTypeMap = g_markPunctuations.
Proof. vm_compute. auto. Qed.

Lemma punct_step : forall c,
  lookup c punctuation = assoc c g_punctuationTypeMap /\
  mem c g_markPunctuations = match assoc c g_punctuationTypeMap with Some _ => true | None => false end.
Proof.
  intro c. destruct punctuation_tables as [H1 H2]. split.
  - rewrite H1. apply lookup_is_assoc.
  - rewrite <- H2. apply mem_keys.
Qed.

(* ---- symbols and + - * / *)
Lemma prefix1 : forall a r, a <> g_RuneEOF -> prefix_of [a] r = (cur r =? a).
Proof.
  intros a [|b r] Ha; cbn [prefix_of cur hd].
  - symmetry. apply Z.eqb_neq. congruence.
  - rewrite andb_true_r. apply Z.eqb_sym.
Qed.

Lemma prefix_cons : forall a p b w, prefix_of (a :: p) (b :: w) = (a =? b) && prefix_of p w.
Proof. reflexivity. Qed.

(* every symbol is one character, or one character followed by '=' *)
Definition symbol_shape (e : entry) : bool :=
  match fst e with
  | [_] => true
  | [_; m] => m =? g_EqualOp
  | _ => false
  end.
Lemma symbols_shape : forallb symbol_shape symbols = true.
Proof. vm_compute. reflexivity. Qed.

(* so the symbol at (c :: r) only depends on c and on whether '=' follows *)
Lemma symbols_view : forall c r,
  longest_at symbols (c :: r) = longest_at symbols (c :: (if cur r =? g_EqualOp then [g_EqualOp] else [])).
Proof.
  intros c r. unfold longest_at.
  assert (H : words_at symbols (c :: r) = words_at symbols (c :: (if cur r =? g_EqualOp then [g_EqualOp] else []))).
  { unfold words_at. apply filter_ext_in. intros [w ty] Hin.
    pose proof (proj1 (forallb_forall _ _) symbols_shape _ Hin) as Hs. unfold symbol_shape in Hs. cbn [fst] in Hs |- *.
    destruct w as [|k [|m [|x w]]]; try discriminate.
    - reflexivity.
    - apply Z.eqb_eq in Hs. subst m. rewrite !prefix_cons. rewrite !(prefix1 g_EqualOp) by discriminate.
      destruct (cur r =? g_EqualOp); reflexivity. }
  rewrite H. reflexivity.
Qed.

Definition other_lead (c : Z) (e : entry) : bool := match fst e with k :: _ => negb (k =? c) | [] => false end.
Lemma longest_at_other_lead : forall tbl c r, forallb (other_lead c) tbl = true -> longest_at tbl (c :: r) = None.
Proof.
  intros tbl c r H. unfold longest_at.
  assert (Hw : words_at tbl (c :: r) = []).
  { unfold words_at. induction tbl as [|[w ty] tbl IH]; [reflexivity|]. cbn [forallb] in H.
    apply andb_true_iff in H. destruct H as [H1 H2]. cbn [filter fst]. unfold other_lead in H1. cbn [fst] in H1.
    destruct w as [|k w]; [discriminate|]. rewrite prefix_cons. apply negb_true_iff in H1. rewrite H1. cbn [andb].
    apply IH. exact H2. }
  rewrite Hw. reflexivity.
Qed.

Ltac close_neq := match goal with N : ?a <> ?b |- _ => apply N; reflexivity end.

Lemma operators_step : forall c r pos,
  (if mem c g_markOperators then parse_operators (c :: r) pos else None) =
  match longest_at symbols (c :: r) with
  | Some (w, ty) => Some (TTok ty pos (pos + Z.of_nat (length w)) [] (skipn (length w) (c :: r)))
  | None =>
      match (if is_delimiter (next r) then lookup c arithmetic else None) with
      | Some ty => Some (TTok ty pos (pos + 1) [] r)
      | None => None
      end
  end.
Proof.
  intros c r pos.
  change (is_delimiter (next r)) with (is_delim (cur r)).
  unfold parse_operators. rewrite peek1. cbn [cur hd]. rewrite (symbols_view c r).
  generalize (cur r =? g_EqualOp) (is_delim (cur r)). intros e d.
  destruct (Z.eq_dec c g_RefOp) as [->|N1]; [destruct e, d; cbv -[Z.add]; reflexivity|].
  destruct (Z.eq_dec c g_AnnotationOp) as [->|N2]; [destruct e, d; cbv -[Z.add]; reflexivity|].
  destruct (Z.eq_dec c g_HashOp) as [->|N3]; [destruct e, d; cbv -[Z.add]; reflexivity|].
  destruct (Z.eq_dec c g_EqualOp) as [->|N4]; [destruct e, d; cbv -[Z.add]; reflexivity|].
  destruct (Z.eq_dec c g_LessThanOp) as [->|N5]; [destruct e, d; cbv -[Z.add]; reflexivity|].
  destruct (Z.eq_dec c g_GreaterThanOp) as [->|N6]; [destruct e, d; cbv -[Z.add]; reflexivity|].
  destruct (Z.eq_dec c g_IntDivOp) as [->|N7]; [destruct e, d; cbv -[Z.add]; reflexivity|].
  destruct (Z.eq_dec c g_RemainderOp) as [->|N8]; [destruct e, d; cbv -[Z.add]; reflexivity|].
  destruct (Z.eq_dec c g_PlusOp) as [->|N9]; [destruct e, d; cbv -[Z.add]; reflexivity|].
  destruct (Z.eq_dec c g_MinusOp) as [->|N10]; [destruct e, d; cbv -[Z.add]; reflexivity|].
  destruct (Z.eq_dec c g_MultiplyOp) as [->|N11]; [destruct e, d; cbv -[Z.add]; reflexivity|].
  destruct (Z.eq_dec c g_SlashOp) as [->|N12]; [destruct e, d; cbv -[Z.add]; reflexivity|].
  assert (Hm : mem c g_markOperators = false).
  { destruct (mem c g_markOperators) eqn:E; [|reflexivity]. exfalso.
    unfold mem, g_markOperators in E. cbn [existsb] in E.
    repeat (apply orb_true_iff in E; destruct E as [E|E]; [apply Z.eqb_eq in E; subst c; close_neq|]).
    discriminate. }
  rewrite Hm.
  rewrite longest_at_other_lead.
  - cbn [lookup arithmetic].
    rewrite (proj2 (Z.eqb_neq _ _) N9), (proj2 (Z.eqb_neq _ _) N10), (proj2 (Z.eqb_neq _ _) N11), (proj2 (Z.eqb_neq _ _) N12).
    destruct d; reflexivity.
  - unfold other_lead. cbn [forallb symbols fst].
    rewrite (proj2 (Z.eqb_neq _ _) (not_eq_sym N1)), (proj2 (Z.eqb_neq _ _) (not_eq_sym N2)),
      (proj2 (Z.eqb_neq _ _) (not_eq_sym N3)), (proj2 (Z.eqb_neq _ _) (not_eq_sym N4)),
      (proj2 (Z.eqb_neq _ _) (not_eq_sym N5)), (proj2 (Z.eqb_neq _ _) (not_eq_sym N6)),
      (proj2 (Z.eqb_neq _ _) (not_eq_sym N7)), (proj2 (Z.eqb_neq _ _) (not_eq_sym N8)),
      (proj2 (Z.eqb_neq _ _) (not_eq_sym N12)).
    reflexivity.
Qed.

(* ---- punctuation, symbols, arithmetic, keywords, names *)
Lemma generic_step : forall c r pos,
  generic_token gkw (c :: r) pos = interp (plain_start_at (c :: r)) (c :: r) pos.
Proof.
  intros c r pos. unfold generic_token, plain_start_at. cbn [cur hd].
  destruct (punct_step c) as [Hp1 Hp2]. rewrite Hp1, Hp2. unfold parse_punct. cbn [cur hd tl].
  destruct (assoc c g_punctuationTypeMap) as [ty|]; [reflexivity|].
  rewrite operators_step.
  destruct (longest_at symbols (c :: r)) as [[w ty]|]; [reflexivity|].
  destruct (if is_delimiter (next r) then lookup c arithmetic else None) as [ty|]; [reflexivity|].
  unfold word_at. rewrite gkw_longest_at.
  destruct (longest_at doc_keywords (c :: r)) as [[w ty]|].
  - cbn [interp]. rewrite Nat2Z.id. reflexivity.
  - apply parse_identifier_name.
Qed.

(* ---- one token: NextToken at a character that is not white space *)
Lemma step : forall c r pos, is_ws c = false ->
  next_token gkw (c :: r) pos = interp (start_at (c :: r)) (c :: r) pos.
Proof.
  intros c r pos Hws. unfold next_token. cbn [skip_ws]. rewrite Hws. cbn [cur hd].
  unfold start_at, is_line_break.
  destruct ((c =? g_RuneCR) || (c =? g_RuneLF)); [reflexivity|].
  destruct (c =? g_RuneEOF); [reflexivity|].
  unfold special_token, note_comment. cbn [cur hd tl]. rewrite peek1, skip_digits_leading.
  change (cur (skipn (length (leading is_pure_number r)) r)) with (next (skipn (length (leading is_pure_number r)) r)).
  change (cur r) with (next r).
  destruct (Z.eqb_spec c g_CharZHU) as [->|Nz].
  - cbn [andb]. destruct (_ =? g_Colon); [reflexivity|].
    change (g_CharZHU =? g_SlashOp) with false. cbn [andb].
    change (opens_string g_CharZHU) with false. change (g_CharZHU =? g_BackTick) with false. cbv iota.
    apply generic_step.
  - cbn [andb]. destruct (Z.eqb_spec c g_SlashOp) as [->|Ns].
    + cbn [andb]. destruct (next r =? g_SlashOp) eqn:E1.
      * destruct r as [|b r2]; [discriminate E1|]. cbn [tl]. rewrite scan_line_leading. cbn [interp].
        cbn [Nat.add]. rewrite !skipn_S_cons. f_equal. lia.
      * destruct (next r =? g_MultiplyOp) eqn:E2.
        -- destruct r as [|b r2]; [discriminate E2|]. cbn [tl]. rewrite scan_block_body.
           destruct (block_body r2) as [n|]; [|reflexivity]. cbn [interp]. cbn [Nat.add]. rewrite !skipn_S_cons. f_equal. lia.
        -- change (opens_string g_SlashOp) with false. change (g_SlashOp =? g_BackTick) with false. cbv iota.
           apply generic_step.
    + cbn [andb]. change (opens_string c) with (mem c left_quotes).
      destruct (mem c left_quotes); [reflexivity|].
      destruct (c =? g_BackTick).
      * rewrite varquote_quoted. unfold quoted_at. cbv zeta. rewrite app_nil_l.
        destruct (_ =? g_BackTick); cbn [interp]; [|f_equal; lia].
        cbn [Nat.add]. rewrite !skipn_S_cons. f_equal. lia.
      * apply generic_step.
Qed.

(* ---- a token has at least one character and does not extend beyond the text *)
Definition nonempty_word (e : entry) : bool := negb (Nat.eqb (length (fst e)) 0).
Lemma tables_nonempty : forallb nonempty_word symbols = true /\ forallb nonempty_word doc_keywords = true.
Proof. vm_compute. auto. Qed.

Lemma longest_at_len : forall tbl s w ty, forallb nonempty_word tbl = true ->
  longest_at tbl s = Some (w, ty) -> (1 <= length w <= length s)%nat.
Proof.
  intros tbl s w ty Hn H. pose proof (longest_at_spec tbl s) as Hs. rewrite H in Hs. destruct Hs as [H1 [H2 _]].
  pose proof (proj1 (forallb_forall _ _) Hn _ H1) as Hw. unfold nonempty_word in Hw. cbn [fst] in Hw.
  apply negb_true_iff in Hw. apply Nat.eqb_neq in Hw. apply prefix_of_length in H2. lia.
Qed.

Lemma run_length : forall r, (length (run r) <= length r)%nat.
Proof. induction r as [|c r IH]; cbn [run]; [cbn; lia|]. destruct (break_at (c :: r)); cbn [length]; lia. Qed.

Lemma block_body_len : forall r n, block_body r = Some n -> (n <= length r)%nat.
Proof.
  induction r as [|c r IH]; intros n H; cbn [block_body] in H.
  - inversion H. cbn. lia.
  - destruct (c =? g_RuneEOF); [inversion H; lia|].
    destruct (is_line_break c); [discriminate|].
    destruct ((c =? g_MultiplyOp) && (next r =? g_SlashOp)) eqn:E.
    + inversion H. apply andb_true_iff in E. destruct E as [_ E]. destruct r; [discriminate E|]. cbn [length]. lia.
    + destruct (block_body r) as [m|]; [|discriminate]. cbn [option_map] in H. inversion H.
      specialize (IH m eq_refl). cbn [length]. lia.
Qed.

Definition within (st : start) (n : nat) : Prop :=
  match st with SToken _ len _ => (1 <= len <= n)%nat | _ => True end.

Lemma name_at_len : forall s, within (name_at s) (length s).
Proof.
  intros [|c r]; [exact I|]. unfold name_at.
  destruct (is_id_char c); [|exact I]. cbv zeta.
  destruct (Nat.ltb _ _); [exact I|]. destruct (_ =? g_SlashOp); [exact I|].
  unfold within. pose proof (run_length r). cbn [length]. lia.
Qed.

Lemma quoted_at_len : forall r, within (quoted_at r) (S (length r)).
Proof.
  intro r. unfold quoted_at. cbv zeta.
  destruct (next (skipn (length (leading is_id_body r)) r) =? g_BackTick) eqn:E; [|exact I].
  unfold within.
  destruct (Nat.le_gt_cases (length r) (length (leading is_id_body r))) as [Hl|Hl]; [|lia].
  rewrite (skipn_all2 r Hl) in E. discriminate E.
Qed.

Lemma plain_start_len : forall s, within (plain_start_at s) (length s).
Proof.
  intros [|c r]; [exact I|]. unfold plain_start_at. destruct tables_nonempty as [T1 T2].
  destruct (lookup c punctuation); [unfold within; cbn [length]; lia|].
  destruct (longest_at symbols (c :: r)) as [[w t]|] eqn:Es.
  { unfold within. apply (longest_at_len _ _ _ _ T1 Es). }
  destruct (if is_delimiter (next r) then lookup c arithmetic else None); [unfold within; cbn [length]; lia|].
  unfold word_at. destruct (longest_at doc_keywords (c :: r)) as [[w t]|] eqn:Ek.
  { unfold within. apply (longest_at_len _ _ _ _ T2 Ek). }
  apply name_at_len.
Qed.

Lemma start_len_within : forall s, within (start_at s) (length s).
Proof.
  intros [|c r]; [exact I|]. unfold start_at.
  destruct (is_line_break c); [exact I|]. destruct (c =? g_RuneEOF); [exact I|].
  destruct (note_comment (c :: r)); [exact I|].
  destruct ((c =? g_SlashOp) && (next r =? g_SlashOp)) eqn:E1.
  { apply andb_true_iff in E1. destruct E1 as [_ E1]. destruct r as [|b r2]; [discriminate E1|]. cbn [tl].
    unfold within. pose proof (leading_length in_line r2). cbn [length]. lia. }
  destruct ((c =? g_SlashOp) && (next r =? g_MultiplyOp)) eqn:E2.
  { apply andb_true_iff in E2. destruct E2 as [_ E2]. destruct r as [|b r2]; [discriminate E2|]. cbn [tl].
    destruct (block_body r2) as [n|] eqn:Eb; [|exact I]. unfold within. apply block_body_len in Eb. cbn [length]. lia. }
  destruct (opens_string c); [exact I|].
  destruct (c =? g_BackTick); [apply quoted_at_len|].
  apply plain_start_len.
Qed.

Lemma start_len : forall s ty len lit, start_at s = SToken ty len lit -> (1 <= len <= length s)%nat.
Proof. intros s ty len lit H. pose proof (start_len_within s) as Hw. rewrite H in Hw. exact Hw. Qed.

(* ---- the walk *)
Lemma scan_inside : forall s pos n, (n <= length s)%nat -> scan s pos n = scan (skipn n s) (pos + Z.of_nat n) 0.
Proof.
  induction s as [|c r IH]; intros pos n Hn.
  - cbn [length] in Hn. assert (n = 0%nat) by lia. subst n. cbn [skipn]. replace (pos + Z.of_nat 0) with pos by lia. reflexivity.
  - destruct n as [|k].
    + cbn [skipn]. replace (pos + Z.of_nat 0) with pos by lia. reflexivity.
    + cbn [scan]. rewrite skipn_S_cons. cbn [length] in Hn. rewrite IH by lia.
      replace (pos + 1 + Z.of_nat k) with (pos + Z.of_nat (S k)) by lia. reflexivity.
Qed.

Lemma scan_ws : forall s pos, scan s pos 0 = scan (fst (skip_ws s pos)) (snd (skip_ws s pos)) 0.
Proof.
  induction s as [|c r IH]; intro pos; [reflexivity|]. cbn [skip_ws]. destruct (is_ws c) eqn:E.
  - rewrite <- IH. cbn [scan]. rewrite E. reflexivity.
  - reflexivity.
Qed.

Lemma skip_ws_facts : forall s pos,
  (length (fst (skip_ws s pos)) <= length s)%nat /\
  skip_ws (fst (skip_ws s pos)) (snd (skip_ws s pos)) = skip_ws s pos /\
  match fst (skip_ws s pos) with c :: _ => is_ws c = false | [] => True end.
Proof.
  induction s as [|c r IH]; intro pos; cbn [skip_ws].
  - cbn. auto.
  - destruct (is_ws c) eqn:E.
    + destruct (IH (pos + 1)) as [H1 [H2 H3]]. split; [cbn [length]; lia|]. split; [exact H2 | exact H3].
    + cbn [fst snd length]. split; [lia|]. split; [cbn [skip_ws]; rewrite E; reflexivity | exact E].
Qed.

Lemma next_token_skip : forall s pos,
  next_token gkw s pos = next_token gkw (fst (skip_ws s pos)) (snd (skip_ws s pos)).
Proof.
  intros s pos. unfold next_token. destruct (skip_ws_facts s pos) as [_ [H _]]. rewrite H. reflexivity.
Qed.

Lemma next_token_nil : forall pos, next_token gkw [] pos = TEof pos.
Proof. intro pos. reflexivity. Qed.

Lemma tokens_scan : forall fuel s pos, (length s < fuel)%nat -> tokens gkw fuel s pos = scan s pos 0.
Proof.
  induction fuel as [|f IH]; intros s pos Hf; [lia|].
  cbn [tokens]. rewrite scan_ws, next_token_skip.
  destruct (skip_ws_facts s pos) as [Hl [_ Hw]].
  destruct (skip_ws s pos) as [rest p]. cbn [fst snd] in *.
  destruct rest as [|c r].
  - rewrite next_token_nil. reflexivity.
  - rewrite (step c r p Hw). cbn [scan]. rewrite Hw.
    destruct (start_at (c :: r)) as [ty len lit| off | |] eqn:Est; cbn [interp]; try reflexivity.
    pose proof (start_len _ _ _ _ Est) as Hlen. cbn [length] in Hlen, Hl.
    destruct len as [|k]; [lia|].
    rewrite skipn_S_cons. cbn [Nat.sub]. rewrite Nat.sub_0_r.
    rewrite (scan_inside r (p + 1) k) by lia.
    replace (p + 1 + Z.of_nat k) with (p + Z.of_nat (S k)) by lia.
    rewrite IH; [reflexivity|]. rewrite skipn_length. lia.
Qed.

(* ================================================================== the theorem *)
Theorem lex_is_greedy_segment : forall s, lex_impl s = greedy_segment s.
Proof.
  intro s. unfold lex_impl, lex, greedy_segment.
  change (among (next s) [g_RuneTAB; g_RuneSP]) with (mem (cur s) [g_RuneTAB; g_RuneSP]).
  destruct (mem (cur s) [g_RuneTAB; g_RuneSP]); [reflexivity|].
  apply tokens_scan. lia.
Qed.

(* the documented lexer (keywords by the manual's table) too *)
Corollary lex_doc_is_greedy_segment : forall s, lex_doc s = greedy_segment s.
Proof. intro s. rewrite <- lex_impl_is_lex_doc. apply lex_is_greedy_segment. Qed.

(* ================================================================== declarative reading of the two greedy choices *)
(* the keyword cut by [word_at] is the longest documented keyword that starts there (and [None] means none does) *)
Theorem keyword_choice_is_longest : forall s,
  match longest_at doc_keywords s with
  | Some (w, ty) => longest_keyword_at doc_keywords s (Z.of_nat (length w)) ty
  | None => no_keyword_at doc_keywords s
  end.
Proof.
  intro s. pose proof (longest_at_spec doc_keywords s) as H.
  destruct (longest_at doc_keywords s) as [[w ty]|]; [|exact H].
  destruct H as [H1 [H2 H3]]. exists w. auto.
Qed.

(* [run r] is the maximal break-free prefix: a break starts right after it and none starts inside it *)
Theorem run_is_maximal : forall r,
  r = run r ++ skipn (length (run r)) r /\
  break_at (skipn (length (run r)) r) = true /\
  forall a b, run r = a ++ b -> b <> [] -> break_at (b ++ skipn (length (run r)) r) = false.
Proof.
  induction r as [|c r IH]; cbn [run].
  - cbn [length skipn app]. split; [reflexivity|]. split; [reflexivity|].
    intros a b Hab Hb. destruct a; destruct b; try discriminate; congruence.
  - destruct (break_at (c :: r)) eqn:E.
    + cbn [length skipn app]. split; [reflexivity|]. split; [exact E|].
      intros a b Hab Hb. destruct a; destruct b; try discriminate; congruence.
    + cbn [length]. rewrite skipn_S_cons. destruct IH as [H1 [H2 H3]].
      split; [cbn [app]; f_equal; exact H1|]. split; [exact H2|].
      intros a b Hab Hb. destruct a as [|x a].
      * cbn [app] in Hab. subst b. cbn [app]. rewrite <- H1. exact E.
      * cbn [app] in Hab. inversion Hab. apply (H3 a b); assumption.
Qed.

(* ================================================================== the part of the language inside the model *)
(* String literals, line breaks, `注…：` comments and leading indentation are outside the model ([EUnsupported], on both
   sides of the theorem). A text without those characters is inside it: its stream ends with EOF or with an invalid
   character, never with [EUnsupported] / [EHang] / [EOutOfFuel]. *)
Definition plain_char (c : Z) : bool := negb (is_line_break c) && negb (c =? g_CharZHU) && negb (opens_string c).
Definition in_scope (s : text) : bool := negb (among (next s) [g_RuneTAB; g_RuneSP]) && forallb plain_char s.

Definition proper_end (e : tend) : Prop := match e with EEof | EErr _ => True | _ => False end.

Lemma block_body_plain : forall r, forallb plain_char r = true -> block_body r <> None.
Proof.
  induction r as [|c r IH]; intro H; cbn [block_body]; [discriminate|].
  cbn [forallb] in H. apply andb_true_iff in H. destruct H as [Hc Hr].
  destruct (c =? g_RuneEOF); [discriminate|].
  unfold plain_char in Hc. destruct (is_line_break c); [discriminate Hc|].
  destruct ((c =? g_MultiplyOp) && (next r =? g_SlashOp)); [discriminate|].
  specialize (IH Hr). destruct (block_body r); [discriminate | congruence].
Qed.

Lemma start_in_scope : forall s, forallb plain_char s = true -> start_at s <> SOutside.
Proof.
  intros [|c r] H; [discriminate|]. cbn [forallb] in H. apply andb_true_iff in H. destruct H as [Hc Hr].
  unfold plain_char in Hc. apply andb_true_iff in Hc. destruct Hc as [Hc H3]. apply andb_true_iff in Hc. destruct Hc as [H1 H2].
  apply negb_true_iff in H1, H2, H3.
  unfold start_at, note_comment. rewrite H1, H2, H3. cbn [andb].
  destruct (c =? g_RuneEOF); [discriminate|].
  destruct ((c =? g_SlashOp) && (next r =? g_SlashOp)); [discriminate|].
  destruct ((c =? g_SlashOp) && (next r =? g_MultiplyOp)) eqn:E2.
  { apply andb_true_iff in E2. destruct E2 as [_ E2]. destruct r as [|b r2]; [discriminate E2|]. cbn [tl].
    cbn [forallb] in Hr. apply andb_true_iff in Hr. destruct Hr as [_ Hr].
    pose proof (block_body_plain r2 Hr). destruct (block_body r2); [discriminate | congruence]. }
  destruct (c =? g_BackTick).
  { unfold quoted_at. cbv zeta. destruct (_ =? g_BackTick); discriminate. }
  unfold plain_start_at. destruct (lookup c punctuation); [discriminate|].
  destruct (longest_at symbols (c :: r)) as [[w t]|]; [discriminate|].
  destruct (if is_delimiter (next r) then lookup c arithmetic else None); [discriminate|].
  unfold word_at. destruct (longest_at doc_keywords (c :: r)) as [[w t]|]; [discriminate|].
  unfold name_at. destruct (is_id_char c); [|discriminate]. cbv zeta.
  destruct (Nat.ltb _ _); [discriminate|]. destruct (last (c :: run r) 0 =? g_SlashOp); discriminate.
Qed.

Lemma scan_in_scope : forall s pos k, forallb plain_char s = true -> proper_end (snd (scan s pos k)).
Proof.
  induction s as [|c r IH]; intros pos k H; [exact I|].
  pose proof H as Hall. cbn [forallb] in H. apply andb_true_iff in H. destruct H as [_ Hr].
  cbn [scan]. destruct k as [|k]; [|apply IH; exact Hr].
  destruct (is_ws c); [apply IH; exact Hr|].
  pose proof (start_in_scope (c :: r) Hall) as Hs.
  destruct (start_at (c :: r)) as [ty len lit| off | |]; [| exact I | congruence | exact I].
  specialize (IH (pos + 1) (len - 1)%nat Hr). destruct (scan r (pos + 1) (len - 1)) as [l e]. exact IH.
Qed.

Theorem in_scope_proper_end : forall s, in_scope s = true ->
  proper_end (snd (greedy_segment s)) /\ proper_end (snd (lex_impl s)).
Proof.
  intros s H. rewrite lex_is_greedy_segment. unfold in_scope in H. apply andb_true_iff in H. destruct H as [H1 H2].
  apply negb_true_iff in H1. unfold greedy_segment. rewrite H1. split; apply scan_in_scope; exact H2.
Qed.

(* the guarded form of the main statement: for a text inside the model the two token streams are the same list and
   both runs end properly *)
Corollary lex_is_greedy_segment_in_scope : forall s, in_scope s = true ->
  fst (lex_impl s) = fst (greedy_segment s) /\ snd (lex_impl s) = snd (greedy_segment s) /\ proper_end (snd (lex_impl s)).
Proof.
  intros s H. split; [rewrite lex_is_greedy_segment; reflexivity|]. split; [rewrite lex_is_greedy_segment; reflexivity|].
  apply (in_scope_proper_end s H).
Qed.

(* ================================================================== non-vacuity *)
(* 价格不大于20 = 价格 + 不大于 + 20 *)
Example seg_ex_greedy :
  in_scope [20215;26684;19981;22823;20110;50;48] = true /\
  greedy_segment [20215;26684;19981;22823;20110;50;48] =
    ([(g_TypeIdentifier, 0, 2, [20215;26684]); (g_TypeLogicLteW, 2, 5, []); (g_TypeIdentifier, 5, 7, [50;48]);
      (g_TypeEOF, 7, 7, [])], EEof).
Proof. vm_compute. auto. Qed.
(* 游所为的手机 = 游所 + 为 + 的 + 手机 *)
Example seg_ex_manual_cut :
  in_scope [28216;25152;20026;30340;25163;26426] = true /\
  greedy_segment [28216;25152;20026;30340;25163;26426] =
    ([(g_TypeIdentifier, 0, 2, [28216;25152]); (g_TypeLogicYesW, 2, 3, []); (g_TypeObjDotIIW, 3, 4, []);
      (g_TypeIdentifier, 4, 6, [25163;26426]); (g_TypeEOF, 6, 6, [])], EEof).
Proof. vm_compute. auto. Qed.
(* `游所为的`为 : backticks make one identifier; A/B / C : '/' inside a name, '/' as an operator between delimiters *)
Example seg_ex_backtick_operator :
  encode_lex (greedy_segment [96;28216;25152;20026;30340;96;20026]) = [[0;0]; [5;0;6;28216;25152;20026;30340]; [41;6;7]; [0;7;7]] /\
  encode_lex (greedy_segment [65;47;66;32;47;32;67]) = [[0;0]; [5;0;3;65;47;66]; [39;4;5]; [5;6;7;67]; [0;7;7]] /\
  in_scope [96;28216;25152;20026;30340;96;20026] = true /\ in_scope [65;47;66;32;47;32;67] = true.
Proof. vm_compute. auto. Qed.
(* invalid characters and texts outside the model: 不等于不等 then `*A` (a name cannot start with '*'); a string; a line break *)
Example seg_ex_ends :
  encode_lex (greedy_segment [19981;31561;20110;19981;31561;32;42;65]) = [[1;6]; [51;0;3]; [5;3;5;19981;31561]] /\
  encode_lex (greedy_segment [65;32;12298;66;12299]) = [[2;0]; [5;0;1;65]] /\
  encode_lex (greedy_segment [65;10;66]) = [[2;0]; [5;0;1;65]].
Proof. vm_compute. auto. Qed.

Print Assumptions lex_is_greedy_segment.
Print Assumptions lex_doc_is_greedy_segment.
Print Assumptions in_scope_proper_end.
Print Assumptions lex_is_greedy_segment_in_scope.
Print Assumptions keyword_choice_is_longest.
Print Assumptions run_is_maximal.
