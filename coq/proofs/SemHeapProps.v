(* SemHeapProps.v — consequences of dup_spec (isolation of copies) and locality of the built-in mutators. *)
From Coq Require Import List ZArith Bool Lia.
From Zn.lib Require Import Float64.
From Zn.model Require Import SemDefs Sem.
From Zn.proofs Require Import SemBase SemHeap.
Import ListNotations.
Open Scope Z_scope.

Lemma snapf_scalar v : loc_of v = None -> forall f h h2, snapf f h2 v = snapf f h v.
Proof. intros H f h h2. destruct f; [reflexivity|]. destruct v; cbn in H; try discriminate; reflexivity. Qed.

Lemma inv_start h0 st : closed h0 -> heap st = h0 -> inv h0 st.
Proof.
  intros Hc Hh. constructor.
  - exists []. rewrite Hh, app_nil_r. reflexivity.
  - rewrite Hh. exact Hc.
  - rewrite Hh. intros l c Hl E. exfalso. assert (l < length h0)%nat by (apply nth_error_Some; congruence). lia.
Qed.

Theorem dup_isolated h0 fuel st v v' st' :
  closed h0 -> heap st = h0 -> val_ok h0 v -> dup fuel st v = DOk v' st' ->
  (forall h2, (forall l, (l < length h0)%nat -> nth_error h2 l = nth_error h0 l) -> snapf fuel h2 v = snapf fuel h0 v) /\
  (forall h2, (forall l, (length h0 <= l)%nat -> nth_error h2 l = nth_error (heap st') l) ->
              snapf fuel h2 v' = snapf fuel h0 v).
Proof.
  intros Hc Hh Hv Hd. destruct (dup_spec h0 Hc fuel st v v' st' (inv_start h0 st Hc Hh) Hv Hd) as (I1 & G1 & C).
  split.
  - intros h2 Ha. apply snapf_local; assumption.
  - intros h2 Ha. destruct (loc_of v) as [l0|] eqn:E.
    + rewrite <- (co_snap _ _ _ _ _ C). apply (snapf_from (length h0)); [apply I1|exact Ha|].
      apply (co_from _ _ _ _ _ C). congruence.
    + rewrite (co_scalar _ _ _ _ _ C E). apply snapf_scalar. exact E.
Qed.

Lemma dup_object_shared fuel st l : dup (S fuel) st (VObj l) = DOk (VObj l) st.
Proof. reflexivity. Qed.

(* ---------- mutators write one cell ---------- *)
Definition mods_only (l : nat) (st s1 : state) : Prop :=
  forall l', l' <> l -> (l' < length (heap st))%nat -> hget s1 l' = hget st l'.

Lemma mods_refl l st : mods_only l st st. Proof. intros l' _ _. reflexivity. Qed.

Lemma hget_hset_other st l c l' : l' <> l -> hget (hset st l c) l' = hget st l'.
Proof.
  unfold hget, hset. cbn [heap set_heap]. intros H. revert l l' H.
  induction (heap st) as [|x tl IH]; intros l l' H; destruct l, l'; cbn; try reflexivity; try congruence.
  apply IH. congruence.
Qed.

Lemma mods_hset l st c : mods_only l st (hset st l c).
Proof. intros l' Hn _. apply hget_hset_other. exact Hn. Qed.

Lemma list_set_length {A} (l : list A) n x : length (list_set l n x) = length l.
Proof. revert n. induction l; intros [|n]; cbn; try reflexivity. f_equal. apply IHl. Qed.

Lemma mods_hset_alloc l st c c2 : mods_only l st (snd (alloc (hset st l c) c2)).
Proof.
  intros l' Hn Hl. unfold alloc, hget. cbn [snd heap set_heap hset].
  rewrite nth_error_app1 by (rewrite list_set_length; exact Hl).
  apply (hget_hset_other st l c l' Hn).
Qed.

(* duplication only appends cells *)
Lemma dup_grows fuel : forall st v v' st', dup fuel st v = DOk v' st' -> grows st st'.
Proof.
  induction fuel as [|k IH]; intros st v v' st' H; [discriminate|].
  cbn [dup] in H. destruct v; try (inversion H; subst; apply grows_refl).
  - destruct (hget st l) as [[items|?|? ?]|]; try (inversion H; subst; apply grows_refl).
    destruct (map_state _ st items) as [[items' s1]|] eqn:Hm; [|discriminate].
    unfold alloc in H. inversion H; subst.
    eapply grows_trans; [|exists [CList items']; reflexivity].
    apply (map_state_inv _ grows) in Hm; [exact Hm|apply grows_refl|apply grows_trans|].
    intros s x y sx Hf. destruct (dup k s x) eqn:Hd; [|discriminate]. inversion Hf; subst. eapply IH; eassumption.
  - destruct (hget st l) as [[?|kvs|? ?]|]; try (inversion H; subst; apply grows_refl).
    destruct (map_state _ st kvs) as [[kvs' s1]|] eqn:Hm; [|discriminate].
    unfold alloc in H. inversion H; subst.
    eapply grows_trans; [|exists [CDict kvs']; reflexivity].
    apply (map_state_inv _ grows) in Hm; [exact Hm|apply grows_refl|apply grows_trans|].
    intros s x y sx Hf. destruct (dup k s (snd x)) eqn:Hd; [|discriminate]. inversion Hf; subst. eapply IH; eassumption.
Qed.

Lemma grows_hget a b l : grows a b -> (l < length (heap a))%nat -> hget b l = hget a l.
Proof. intros [more H] Hl. unfold hget. rewrite H. apply nth_error_app1. exact Hl. Qed.

Lemma grows_length a b : grows a b -> (length (heap a) <= length (heap b))%nat.
Proof. intros [more H]. rewrite H, app_length. lia. Qed.

Lemma detach_grows fuel st c v v' s1 : detach fuel st c v = Ok v' s1 -> grows st s1.
Proof.
  unfold detach, dup_res. destruct (reaches fuel (heap st) v c).
  - destruct (dup fuel st v) eqn:E; [|discriminate]. intros H; inversion H; subst. eapply dup_grows; exact E.
  - intros H; inversion H; subst. apply grows_refl.
Qed.

Lemma detach_all_grows fuel c : forall items st r s1, detach_all fuel st c items = Ok r s1 -> grows st s1.
Proof.
  induction items as [|x tl IH]; intros st r s1 H; cbn [detach_all] in H; [inversion H; apply grows_refl|].
  destruct (detach fuel st c x) as [x' sa|e sa| |w] eqn:E; cbn [bind] in H; try discriminate.
  destruct (detach_all fuel sa c tl) as [tl' sb|e sb| |w] eqn:E2; cbn [bind] in H; try discriminate.
  inversion H; subst. eapply grows_trans; [eapply detach_grows; exact E|eapply IH; exact E2].
Qed.

(* old cells other than l are untouched by: growth, then a write at l *)
Lemma mods_grow_hset l st s1 c : grows st s1 -> mods_only l st (hset s1 l c).
Proof.
  intros G l' Hn Hl. rewrite hget_hset_other by exact Hn. apply grows_hget; assumption.
Qed.

Lemma mods_grow_hset_alloc l st s1 c c2 : grows st s1 -> mods_only l st (snd (alloc (hset s1 l c) c2)).
Proof.
  intros G l' Hn Hl. unfold alloc, hget. cbn [snd heap set_heap hset].
  rewrite nth_error_app1 by (rewrite list_set_length; pose proof (grows_length _ _ G); lia).
  change (hget (hset s1 l c) l' = hget st l'). rewrite hget_hset_other by exact Hn. apply grows_hget; assumption.
Qed.

Lemma find_eq_state fuel st : forall items v i r s, find_eq fuel st items v i = Ok r s -> s = st.
Proof.
  induction items as [|x tl IH]; intros v i r s H; cbn in H; [inversion H; reflexivity|].
  destruct (xeq fuel (heap st) x v) as [| |c|]; try discriminate; try (inversion H; reflexivity).
  - eapply IH. exact H.
  - destruct (c =? UNMODELLED); discriminate.
Qed.

Theorem list_method_local fuel st l items m args v s1 l' :
  list_method fuel st l items m args = Ok v s1 -> l' <> l -> (l' < length (heap st))%nat -> hget s1 l' = hget st l'.
Proof.
  intros H. revert l'. change (mods_only l st s1). unfold list_method in H.
  repeat match type of H with
         | (if (m =? ?c) then _ else _) = _ => destruct (m =? c) eqn:?
         | (if ((m =? ?c) || (m =? ?d)) then _ else _) = _ => destruct ((m =? c) || (m =? d)) eqn:?
         end.
  - destruct args as [|a [|b t]]; try discriminate.
    destruct (detach fuel st (VList l) a) as [a' sa|e sa| |w] eqn:E; cbn [bind] in H; try discriminate.
    inversion H; subst. apply mods_grow_hset. eapply detach_grows; exact E.
  - destruct args as [|a [|b t]]; try discriminate.
    destruct (detach fuel st (VList l) a) as [a' sa|e sa| |w] eqn:E; cbn [bind] in H; try discriminate.
    inversion H; subst. apply mods_grow_hset. eapply detach_grows; exact E.
  - destruct args as [|a [|b [|c t]]]; try discriminate. destruct (negb (is_num b)); [discriminate|].
    destruct (detach fuel st (VList l) a) as [a' sa|e sa| |w] eqn:E; cbn [bind] in H; try discriminate.
    destruct (insert_array items (to_int (num_bits b)) a'); [|discriminate]. inversion H; subst.
    apply mods_grow_hset. eapply detach_grows; exact E.
  - destruct items; inversion H; subst; apply mods_hset.
  - destruct (rev items); inversion H; subst; apply mods_hset.
  - destruct (negb (forallb _ args)); [discriminate|].
    match type of H with context [?g args []] => destruct (g args []) as [extra|] end; [|discriminate].
    destruct (detach_all fuel st (VList l) extra) as [extra' s0|e s0| |w] eqn:E; cbn [bind] in H; try discriminate.
    unfold alloc in H. inversion H; subst.
    apply (mods_grow_hset_alloc l st s0 (CList (items ++ extra')) (CList (items ++ extra'))).
    eapply detach_all_grows; exact E.
  - destruct args as [|a [|b [|c t]]]; try discriminate.
    destruct (negb (is_num a) || negb (is_num b)); [discriminate|].
    match type of H with (if ?c then _ else _) = _ => destruct c end; [discriminate|].
    destruct (nth_val items _); [|discriminate]. destruct (nth_val items _); [|discriminate].
    inversion H; subst. apply mods_hset.
  - destruct args as [|a [|b t]]; try discriminate.
    destruct (find_eq fuel st items a 0) as [i s|e s| |w] eqn:E; cbn [bind] in H; try discriminate.
    inversion H; subst. rewrite (find_eq_state _ _ _ _ _ _ _ E). apply mods_refl.
  - destruct args as [|a [|b t]]; try discriminate.
    destruct (find_eq fuel st items a 0) as [i s|e s| |w] eqn:E; cbn [bind] in H; try discriminate.
    inversion H; subst. rewrite (find_eq_state _ _ _ _ _ _ _ E). apply mods_refl.
  - discriminate.
Qed.

Theorem dict_method_local fuel st l kvs m args v s1 l' :
  dict_method fuel st l kvs m args = Ok v s1 -> l' <> l -> (l' < length (heap st))%nat -> hget s1 l' = hget st l'.
Proof.
  intros H. revert l'. change (mods_only l st s1). unfold dict_method in H.
  repeat match type of H with
         | (if (m =? ?c) then _ else _) = _ => destruct (m =? c) eqn:?
         end.
  - destruct args as [|a [|b [|c t]]]; try discriminate; destruct a; try discriminate.
    destruct (detach fuel st (VDict l) b) as [b' sa|e sa| |w] eqn:E; cbn [bind] in H; try discriminate.
    inversion H; subst. apply mods_grow_hset. eapply detach_grows; exact E.
  - destruct args as [|a [|b t]]; try discriminate; destruct a; try discriminate.
    destruct (assoc_str s kvs); inversion H; subst; [apply mods_hset|apply mods_refl].
  - destruct (negb (forallb _ args)); [discriminate|].
    match type of H with ?g args (VDict l) = _ => set (go := g) in * end.
    assert (Hg : forall a cur r s, go a cur = Ok r s -> s = st).
    { induction a as [|x tl IH]; intros cur r s Hr; cbn in Hr; [inversion Hr; reflexivity|].
      destruct x; try discriminate. destruct cur; try (inversion Hr; reflexivity).
      destruct (hget st l0) as [[?|ckvs|? ?]|]; try discriminate.
      destruct (assoc_str s0 ckvs); [eapply IH; exact Hr|inversion Hr; reflexivity]. }
    rewrite (Hg _ _ _ _ H). apply mods_refl.
  - discriminate.
Qed.

Theorem index_set_local st root idx v s1 l' :
  index_set st root idx v = Ok tt s1 -> loc_of root <> Some l' -> hget s1 l' = hget st l'.
Proof.
  unfold index_set. intros H Hn. destruct root; try discriminate.
  - destruct (negb (is_num idx)); [discriminate|]. destruct (hget st l) as [[items|?|? ?]|]; try discriminate.
    match type of H with (if ?c then _ else _) = _ => destruct c end; [discriminate|].
    inversion H; subst. apply hget_hset_other. cbn in Hn. congruence.
  - destruct idx; try discriminate.
    + destruct (num_text bits) as [k0|]; [|destruct (hget st l) as [[?|?|? ?]|]; discriminate].
      destruct (hget st l) as [[?|kvs|? ?]|]; try discriminate.
      inversion H; subst. apply hget_hset_other. cbn in Hn. congruence.
    + destruct (hget st l) as [[?|kvs|? ?]|]; try discriminate.
      inversion H; subst. apply hget_hset_other. cbn in Hn. congruence.
Qed.
