(* C10 — proofs about model/BuiltinsHeap.v: display terminates on acyclic heaps; the repaired list/dictionary
   operations keep the heap acyclic. *)
From Coq Require Import List ZArith Bool Arith Lia Wellfounded.
From Zn.model Require Import BuiltinsHeap.
Import ListNotations.
Open Scope nat_scope.

Definition edge (h: heap) (c p: nat) : Prop := In c (children h p).
(* no container holds itself, directly or indirectly: the "is held by" relation is well founded *)
Definition acyclic (h: heap) : Prop := forall l, Acc (edge h) l.

Inductive reach (h: heap) : nat -> nat -> Prop :=
| reach_refl : forall x, reach h x x
| reach_step : forall x c t, edge h c x -> reach h c t -> reach h x t.

(* ------------------------------------------------------------------ display terminates on acyclic heaps *)
Lemma bound_all : forall (A: Type) (P: nat -> A -> Prop) (xs: list A),
  (forall x, In x xs -> exists N, forall f, N <= f -> P f x) ->
  exists N, forall f, N <= f -> forall x, In x xs -> P f x.
Proof.
  intros A P xs. induction xs as [|a xs IH]; intros H.
  - exists 0. intros f _ x [].
  - destruct (H a (or_introl eq_refl)) as [Na Ha].
    destruct IH as [Nr Hr]. { intros x Hx. apply H. right. exact Hx. }
    exists (Nat.max Na Nr). intros f Hf x [<- | Hx]; [apply Ha; lia | apply Hr; [lia | exact Hx]].
Qed.

Lemma concat_opt_some : forall (A: Type) (g: A -> option (list Z)) xs,
  (forall x, In x xs -> g x <> None) -> concat_opt (map g xs) <> None.
Proof.
  intros A g xs. induction xs as [|a xs IH]; intros H; cbn [map concat_opt]; [discriminate|].
  destruct (g a) eqn:E; [|exfalso; exact (H a (or_introl eq_refl) E)].
  destruct (concat_opt (map g xs)) eqn:E2; [discriminate|]. exfalso. apply IH; auto. intros x Hx. apply H. right. exact Hx.
Qed.

Lemma item_in_cell_refs : forall c l, In (IRef l) (cell_items c) -> In l (cell_refs c).
Proof. intros c l H. unfold cell_refs. apply in_flat_map. exists (IRef l). split; [exact H | left; reflexivity]. Qed.

Lemma display_ref_total : forall h l, Acc (edge h) l -> exists N, forall f, N <= f -> display f h (IRef l) <> None.
Proof.
  intros h l Hacc. induction Hacc as [l _ IH].
  assert (Hitems: forall c, nth_error h l = Some c ->
            exists N, forall f, N <= f -> forall i, In i (cell_items c) -> display f h i <> None).
  { intros c Hc. apply bound_all. intros i Hi. destruct i as [n | r].
    - exists 1. intros f Hf. destruct f; [lia|]. cbn. discriminate.
    - apply IH. unfold edge, children. rewrite Hc. apply item_in_cell_refs. exact Hi. }
  destruct (nth_error h l) as [c|] eqn:Hc.
  - destruct (Hitems c eq_refl) as [N HN]. exists (S N). intros f Hf. destruct f as [|f]; [lia|].
    cbn [display]. rewrite Hc. destruct c as [xs | kvs].
    + destruct (concat_opt (map (display f h) xs)) eqn:E; [discriminate|].
      exfalso. revert E. apply concat_opt_some. intros x Hx. apply HN; [lia | exact Hx].
    + match goal with |- context[concat_opt (map ?g kvs)] => destruct (concat_opt (map g kvs)) eqn:E; [discriminate|];
        exfalso; revert E; apply concat_opt_some end.
      intros kv Hkv. destruct (display f h (snd kv)) eqn:Ed; [discriminate|].
      exfalso. revert Ed. apply HN; [lia|]. cbn [cell_items]. apply in_map. exact Hkv.
  - exists 1. intros f Hf. destruct f; [lia|]. cbn [display]. rewrite Hc. discriminate.
Qed.

Theorem display_total_on_acyclic : forall h, acyclic h -> forall i, exists fuel, display fuel h i <> None.
Proof.
  intros h Hac i. destruct i as [n | l].
  - exists 1. cbn. discriminate.
  - destruct (display_ref_total h l (Hac l)) as [N HN]. exists N. apply HN. lia.
Qed.

(* the converse direction, as a witness that the premise matters: a self-holding list is not displayable *)
Example display_cyclic_diverges : forall fuel, display fuel [CList [IRef 0]] (IRef 0) = None.
Proof. induction fuel as [|f IH]; [reflexivity|]. cbn [display nth_error map concat_opt]. rewrite IH. reflexivity. Qed.

(* ------------------------------------------------------------------ containsElement is sound *)
Lemma any_opt_false : forall rs, any_opt rs = Some false -> forall r, In r rs -> r = Some false.
Proof.
  induction rs as [|a rs IH]; intros H r Hin; [inversion Hin|].
  destruct a as [[|]|]; cbn [any_opt] in H; try discriminate.
  - destruct Hin as [<- | Hin]; [reflexivity | apply IH; auto].
  - destruct (any_opt rs) as [[|]|]; discriminate.
Qed.

Lemma reachb_false_sound : forall fuel h x t, reachb fuel h x t = Some false -> ~ reach h x t.
Proof.
  induction fuel as [|f IH]; intros h x t H Hr; cbn [reachb] in H.
  - destruct (Nat.eqb x t); discriminate.
  - destruct (Nat.eqb x t) eqn:E; [discriminate|]. apply Nat.eqb_neq in E.
    inversion Hr as [|x' c t' Hedge Hrc]; subst; [congruence|].
    pose proof (any_opt_false _ H (reachb f h c t)) as Hc.
    assert (reachb f h c t = Some false) as Hf by (apply Hc; apply (in_map (fun c0 => reachb f h c0 t)); exact Hedge).
    exact (IH _ _ _ Hf Hrc).
Qed.

(* ------------------------------------------------------------------ storing items into a cell *)
Lemma nth_error_set_cell_same : forall h a c, a < length h -> nth_error (set_cell h a c) a = Some c.
Proof. induction h as [|x h IH]; intros a c H; cbn in *; [lia|]. destruct a; cbn; [reflexivity | apply IH; lia]. Qed.

Lemma nth_error_set_cell_other : forall h a c p, p <> a -> nth_error (set_cell h a c) p = nth_error h p.
Proof.
  induction h as [|x h IH]; intros a c p H; cbn; [reflexivity|].
  destruct a; destruct p; cbn; try reflexivity; try congruence. apply IH. congruence.
Qed.

Lemma children_set_cell_other : forall h a c p, p <> a -> children (set_cell h a c) p = children h p.
Proof. intros. unfold children. rewrite nth_error_set_cell_other; auto. Qed.

Lemma children_set_cell_same : forall h a c c0, nth_error h a = Some c0 -> children (set_cell h a c) a = cell_refs c.
Proof.
  intros h a c c0 H. unfold children. rewrite nth_error_set_cell_same; [reflexivity|].
  apply nth_error_Some. congruence.
Qed.

(* the key step: replacing the content of cell a by something that holds only what it held before, or things that
   do not reach a, keeps the heap acyclic *)
Lemma acyclic_set_cell : forall h a c0 c1,
  acyclic h -> nth_error h a = Some c0 ->
  (forall r, In r (cell_refs c1) -> In r (cell_refs c0) \/ ~ reach h r a) ->
  acyclic (set_cell h a c1).
Proof.
  intros h a c0 c1 Hac Ha Hnew.
  assert (Step1: forall y, Acc (edge h) y -> ~ reach h y a -> Acc (edge (set_cell h a c1)) y).
  { intros y Hy. induction Hy as [y _ IH]. intros Hnr. constructor. intros c Hc.
    assert (y <> a) by (intros ->; apply Hnr; constructor).
    unfold edge in Hc. rewrite children_set_cell_other in Hc by assumption.
    apply IH; [exact Hc|]. intros Hrc. apply Hnr. econstructor; [exact Hc | exact Hrc]. }
  intros l. pose proof (Hac l) as Hl. induction Hl as [y _ IH]. constructor. intros c Hc. unfold edge in Hc.
  destruct (Nat.eq_dec y a) as [-> | Hne].
  - rewrite (children_set_cell_same _ _ _ _ Ha) in Hc. destruct (Hnew c Hc) as [Hold | Hnr].
    + apply IH. unfold edge, children. rewrite Ha. exact Hold.
    + apply Step1; [apply Hac | exact Hnr].
  - rewrite children_set_cell_other in Hc by assumption. apply IH. exact Hc.
Qed.

(* ------------------------------------------------------------------ fresh regions (what DuplicateValue allocates) *)
Definition prefix_of (h h': heap) : Prop := exists ext, h' = h ++ ext.
(* every cell at an index >= base holds only cells in [base, its own index) *)
Definition good_ext (base: nat) (h: heap) : Prop :=
  forall p c, base <= p -> nth_error h p = Some c -> forall r, In r (cell_refs c) -> base <= r /\ r < p.
Definition item_ok (base: nat) (h: heap) (i: item) : Prop :=
  match i with INum _ => True | IRef r => base <= r /\ r < length h end.

Lemma prefix_refl : forall h, prefix_of h h.
Proof. intros h. exists []. rewrite app_nil_r. reflexivity. Qed.
Lemma prefix_trans : forall a b c, prefix_of a b -> prefix_of b c -> prefix_of a c.
Proof. intros a b c [e1 ->] [e2 ->]. exists (e1 ++ e2). rewrite app_assoc. reflexivity. Qed.
Lemma prefix_length : forall a b, prefix_of a b -> length a <= length b.
Proof. intros a b [e ->]. rewrite app_length. lia. Qed.
Lemma prefix_nth : forall a b p, prefix_of a b -> p < length a -> nth_error b p = nth_error a p.
Proof. intros a b p [e ->] H. apply nth_error_app1. exact H. Qed.
Lemma item_ok_mono : forall base h h' i, prefix_of h h' -> item_ok base h i -> item_ok base h' i.
Proof. intros base h h' [n|r] Hp H; cbn in *; [exact I|]. apply prefix_length in Hp. lia. Qed.

Lemma good_ext_nil_region : forall h, good_ext (length h) h.
Proof. intros h p c Hp E. assert (p < length h) by (apply nth_error_Some; congruence). lia. Qed.

Lemma good_ext_snoc : forall base h c, base <= length h -> good_ext base h ->
  (forall r, In r (cell_refs c) -> base <= r /\ r < length h) -> good_ext base (h ++ [c]).
Proof.
  intros base h c Hb G Hc p c' Hp E r Hr.
  destruct (lt_dec p (length h)) as [Hlt | Hge].
  - rewrite nth_error_app1 in E by exact Hlt. exact (G p c' Hp E r Hr).
  - rewrite nth_error_app2 in E by lia. destruct (p - length h) as [|k] eqn:Ek; cbn in E.
    + inversion E; subst c'. destruct (Hc r Hr). lia.
    + destruct k; discriminate.
Qed.

Lemma map_thread_ok : forall base (f: heap -> item -> option (heap * item)),
  (forall h i h' i', base <= length h -> good_ext base h -> f h i = Some (h', i') ->
     prefix_of h h' /\ good_ext base h' /\ item_ok base h' i') ->
  forall xs h h' xs', base <= length h -> good_ext base h -> map_thread f h xs = Some (h', xs') ->
    prefix_of h h' /\ good_ext base h' /\ Forall (item_ok base h') xs'.
Proof.
  intros base f Hf. induction xs as [|x xs IH]; intros h h' xs' Hb G E; cbn [map_thread] in E.
  - inversion E; subst. split; [apply prefix_refl | split; [exact G | constructor]].
  - destruct (f h x) as [[h1 x1]|] eqn:Ef; [|discriminate].
    destruct (map_thread f h1 xs) as [[h2 r']|] eqn:Er; [|discriminate]. inversion E; subst.
    destruct (Hf _ _ _ _ Hb G Ef) as [P1 [G1 I1]].
    assert (Hb1: base <= length h1) by (apply prefix_length in P1; lia).
    destruct (IH _ _ _ Hb1 G1 Er) as [P2 [G2 F2]].
    split; [eapply prefix_trans; eauto | split; [exact G2|]]. constructor; [eapply item_ok_mono; eauto | exact F2].
Qed.

Lemma in_snd_combine : forall (ks: list Z) (xs: list item) i, In i (map snd (combine ks xs)) -> In i xs.
Proof.
  induction ks as [|k ks IH]; intros xs i H; cbn in H; [inversion H|].
  destruct xs as [|x xs]; cbn in H; [inversion H|]. destruct H as [<- | H]; [left; reflexivity | right; apply IH; exact H].
Qed.

Lemma refs_of_ok_items : forall base h xs r, Forall (item_ok base h) xs -> In r (flat_map item_refs xs) -> base <= r /\ r < length h.
Proof.
  intros base h xs r F H. apply in_flat_map in H. destruct H as [i [Hi Hr]].
  rewrite Forall_forall in F. specialize (F i Hi). destruct i; cbn in *; [inversion Hr|]. destruct Hr as [<- | []]. exact F.
Qed.

Lemma dup_ok : forall base fuel h i h' i', base <= length h -> good_ext base h -> dup fuel h i = Some (h', i') ->
  prefix_of h h' /\ good_ext base h' /\ item_ok base h' i'.
Proof.
  intros base. induction fuel as [|f IH]; intros h i h' i' Hb G E; cbn [dup] in E; [discriminate|].
  destruct i as [n | l].
  - inversion E; subst. split; [apply prefix_refl | split; [exact G | exact I]].
  - destruct (nth_error h l) as [[xs | kvs]|] eqn:El; [| |discriminate].
    + destruct (map_thread (dup f) h xs) as [[h1 xs1]|] eqn:Em; [|discriminate]. inversion E; subst.
      destruct (map_thread_ok base (dup f) IH _ _ _ _ Hb G Em) as [P1 [G1 F1]].
      assert (Hb1: base <= length h1) by (apply prefix_length in P1; lia).
      split; [eapply prefix_trans; [exact P1 | exists [CList xs1]; reflexivity]|].
      split; [apply good_ext_snoc; auto; intros r Hr; eapply refs_of_ok_items; eauto|].
      cbn. rewrite app_length. cbn. lia.
    + destruct (map_thread (dup f) h (map snd kvs)) as [[h1 xs1]|] eqn:Em; [|discriminate]. inversion E; subst.
      destruct (map_thread_ok base (dup f) IH _ _ _ _ Hb G Em) as [P1 [G1 F1]].
      assert (Hb1: base <= length h1) by (apply prefix_length in P1; lia).
      split; [eapply prefix_trans; [exact P1 | eexists; reflexivity]|].
      split; [apply good_ext_snoc; auto|].
      * intros r Hr. unfold cell_refs in Hr. cbn [cell_items] in Hr. apply in_flat_map in Hr. destruct Hr as [i [Hi Hr]].
        apply in_snd_combine in Hi. eapply refs_of_ok_items; eauto. apply in_flat_map. eauto.
      * cbn. rewrite app_length. cbn. lia.
Qed.

Lemma children_app_old : forall (h ext: heap) p, p < length h -> children (h ++ ext) p = children h p.
Proof. intros. unfold children. rewrite nth_error_app1; auto. Qed.

Lemma fresh_acc : forall base h, good_ext base h -> forall p, base <= p -> Acc (edge h) p.
Proof.
  intros base h G p. induction p as [p IH] using lt_wf_ind. intros Hp. constructor. intros c Hc.
  unfold edge, children in Hc. destruct (nth_error h p) as [c0|] eqn:E; [|inversion Hc].
  destruct (G p c0 Hp E c Hc). apply IH; lia.
Qed.

Lemma fresh_stays : forall base h, good_ext base h -> forall y t, reach h y t -> base <= y -> base <= t.
Proof.
  intros base h G y t R. induction R as [x | x c t He Hr IH]; intros Hy; [exact Hy|].
  apply IH. unfold edge, children in He. destruct (nth_error h x) as [c0|] eqn:E; [|inversion He].
  destruct (G x c0 Hy E c He). lia.
Qed.

Lemma acyclic_extend : forall h ext, acyclic h -> good_ext (length h) (h ++ ext) -> acyclic (h ++ ext).
Proof.
  intros h ext Hac G l. destruct (le_lt_dec (length h) l) as [Hge | Hlt]; [eapply fresh_acc; eauto|].
  pose proof (Hac l) as Hl. revert Hlt. induction Hl as [y _ IH]. intros Hy. constructor. intros c Hc.
  unfold edge in Hc. rewrite children_app_old in Hc by exact Hy.
  destruct (le_lt_dec (length h) c); [eapply fresh_acc; eauto | apply IH; auto].
Qed.

Lemma reach_extend_back : forall h ext, good_ext (length h) (h ++ ext) ->
  forall y a, reach (h ++ ext) y a -> a < length h -> reach h y a.
Proof.
  intros h ext G y a R. induction R as [x | x c t He Hr IH]; intros Ha; [constructor|].
  destruct (le_lt_dec (length h) x) as [Hge | Hlt].
  - exfalso. pose proof (fresh_stays _ _ G x t (reach_step _ _ _ _ He Hr) Hge). lia.
  - unfold edge in He. rewrite children_app_old in He by exact Hlt. econstructor; [exact He | apply IH; exact Ha].
Qed.

Lemma good_ext_trans : forall h h1 h2, prefix_of h h1 -> prefix_of h1 h2 ->
  good_ext (length h) h1 -> good_ext (length h1) h2 -> good_ext (length h) h2.
Proof.
  intros h h1 h2 P1 P2 G1 G2 p c Hp E r Hr. pose proof (prefix_length _ _ P1).
  destruct (lt_dec p (length h1)) as [Hlt | Hge].
  - rewrite (prefix_nth _ _ _ P2 Hlt) in E. exact (G1 p c Hp E r Hr).
  - destruct (G2 p c ltac:(lia) E r Hr). lia.
Qed.

(* detachFrom: the stored item never reaches the container, and the heap stays acyclic *)
Lemma detach_ok : forall fuel a h x h1 x', a < length h -> detach fuel a h x = Some (h1, x') ->
  prefix_of h h1 /\ good_ext (length h) h1 /\ (forall r, In r (item_refs x') -> ~ reach h1 r a).
Proof.
  intros fuel a h x h1 x' Ha E. unfold detach in E. destruct (item_reachb fuel h x a) as [[|]|] eqn:Er; [| |discriminate].
  - destruct (dup_ok (length h) fuel h x h1 x' (le_n _) (good_ext_nil_region h) E) as [P [G I]].
    split; [exact P | split; [exact G|]]. intros r Hr Hreach. destruct x' as [n | r']; cbn in Hr; [inversion Hr|].
    destruct Hr as [<- | []]. cbn in I. pose proof (fresh_stays _ _ G _ _ Hreach (proj1 I)). lia.
  - inversion E; subst. split; [apply prefix_refl | split; [apply good_ext_nil_region|]].
    intros r Hr. destruct x' as [n | l]; cbn in Hr; [inversion Hr|]. destruct Hr as [<- | []].
    cbn in Er. eapply reachb_false_sound; eauto.
Qed.

Lemma detach_thread_ok : forall fuel a items h h1 items', acyclic h -> a < length h ->
  map_thread (detach fuel a) h items = Some (h1, items') ->
  prefix_of h h1 /\ good_ext (length h) h1 /\ (forall i r, In i items' -> In r (item_refs i) -> ~ reach h1 r a).
Proof.
  intros fuel a. induction items as [|x xs IH]; intros h h1 items' Hac Ha E; cbn [map_thread] in E.
  - inversion E; subst. split; [apply prefix_refl | split; [apply good_ext_nil_region|]]. intros i r [].
  - destruct (detach fuel a h x) as [[h' x']|] eqn:Ed; [|discriminate].
    destruct (map_thread (detach fuel a) h' xs) as [[h2 r']|] eqn:Er; [|discriminate]. inversion E; subst.
    destruct (detach_ok _ _ _ _ _ _ Ha Ed) as [P1 [G1 N1]].
    assert (Hac': acyclic h') by (destruct P1 as [e ->]; apply acyclic_extend; auto).
    assert (Ha': a < length h') by (apply prefix_length in P1; lia).
    destruct (IH _ _ _ Hac' Ha' Er) as [P2 [G2 N2]].
    split; [eapply prefix_trans; eauto | split; [eapply good_ext_trans; eauto|]].
    intros i r [<- | Hi] Hr; [|eapply N2; eauto].
    intros Hreach. destruct P2 as [e2 ->]. apply (N1 r Hr). eapply reach_extend_back; eauto.
Qed.

(* ------------------------------------------------------------------ what the new cell holds *)
Lemma refs_app : forall xs ys, flat_map item_refs (xs ++ ys) = flat_map item_refs xs ++ flat_map item_refs ys.
Proof. intros. apply flat_map_app. Qed.

Lemma refs_firstn : forall n xs r, In r (flat_map item_refs (firstn n xs)) -> In r (flat_map item_refs xs).
Proof.
  intros n xs r H. apply in_flat_map in H. destruct H as [i [Hi Hr]]. apply in_flat_map. exists i. split; [|exact Hr].
  rewrite <- (firstn_skipn n xs). apply in_or_app. left. exact Hi.
Qed.
Lemma refs_skipn : forall n xs r, In r (flat_map item_refs (skipn n xs)) -> In r (flat_map item_refs xs).
Proof.
  intros n xs r H. apply in_flat_map in H. destruct H as [i [Hi Hr]]. apply in_flat_map. exists i. split; [|exact Hr].
  rewrite <- (firstn_skipn n xs). apply in_or_app. right. exact Hi.
Qed.

Lemma refs_insert_pos : forall xs pos x r, In r (flat_map item_refs (insert_pos xs pos x)) ->
  In r (flat_map item_refs xs) \/ In r (item_refs x).
Proof.
  intros xs pos x r H. unfold insert_pos in H.
  destruct (Z.leb _ _).
  - rewrite refs_app in H. apply in_app_or in H. destruct H as [H | H]; [left; exact H|]. cbn in H. rewrite app_nil_r in H. right. exact H.
  - rewrite refs_app in H. apply in_app_or in H. destruct H as [H | H]; [left; eapply refs_firstn; eauto|].
    cbn [flat_map] in H. apply in_app_or in H. destruct H as [H | H]; [right; exact H | left; eapply refs_skipn; eauto].
Qed.

Lemma refs_dict_put : forall kvs k x r, In r (flat_map item_refs (map snd (dict_put kvs k x))) ->
  In r (flat_map item_refs (map snd kvs)) \/ In r (item_refs x).
Proof.
  induction kvs as [|[k' x'] kvs IH]; intros k x r H; cbn [dict_put] in H.
  - cbn in H. rewrite app_nil_r in H. right. exact H.
  - destruct (Z.eqb k k'); cbn [map snd flat_map] in *; apply in_app_or in H; destruct H as [H | H].
    + right. exact H.
    + left. apply in_or_app. right. exact H.
    + left. apply in_or_app. left. exact H.
    + destruct (IH _ _ _ H) as [H' | H']; [left; apply in_or_app; right; exact H' | right; exact H'].
Qed.

(* ------------------------------------------------------------------ the invariant *)
Lemma store_acyclic : forall h a h1 c0 c1, acyclic h -> a < length h -> prefix_of h h1 -> good_ext (length h) h1 ->
  nth_error h1 a = Some c0 ->
  (forall r, In r (cell_refs c1) -> In r (cell_refs c0) \/ ~ reach h1 r a) ->
  acyclic (set_cell h1 a c1).
Proof.
  intros h a h1 c0 c1 Hac Ha [e ->] G E Hn. eapply acyclic_set_cell; eauto. apply acyclic_extend; auto.
Qed.

Theorem acyclic_invariant : forall fuel h op h', acyclic h -> apply_op fuel h op = Some h' -> acyclic h'.
Proof.
  intros fuel h op h' Hac E. destruct op as [a x | a x | a x pos | a items | d k x]; cbn [apply_op] in E.
  - destruct (nth_error h a) as [[xs0|]|] eqn:Ea; try (inversion E; subst; exact Hac).
    assert (Ha: a < length h) by (apply nth_error_Some; congruence).
    destruct (detach fuel a h x) as [[h1 x']|] eqn:Ed; [|discriminate].
    destruct (detach_ok _ _ _ _ _ _ Ha Ed) as [P [G N]].
    assert (Hac1: acyclic h1) by (destruct P as [e ->]; apply acyclic_extend; auto).
    destruct (nth_error h1 a) as [[xs|]|] eqn:Ea1; inversion E; subst; try exact Hac1.
    apply (store_acyclic h _ h1 _ _ Hac Ha P G Ea1). intros r Hr. unfold cell_refs in Hr. cbn [cell_items] in Hr. rewrite refs_app in Hr.
    apply in_app_or in Hr. destruct Hr as [Hr | Hr]; [left; exact Hr|]. cbn in Hr. rewrite app_nil_r in Hr. right. apply N. exact Hr.
  - destruct (nth_error h a) as [[xs0|]|] eqn:Ea; try (inversion E; subst; exact Hac).
    assert (Ha: a < length h) by (apply nth_error_Some; congruence).
    destruct (detach fuel a h x) as [[h1 x']|] eqn:Ed; [|discriminate].
    destruct (detach_ok _ _ _ _ _ _ Ha Ed) as [P [G N]].
    assert (Hac1: acyclic h1) by (destruct P as [e ->]; apply acyclic_extend; auto).
    destruct (nth_error h1 a) as [[xs|]|] eqn:Ea1; inversion E; subst; try exact Hac1.
    apply (store_acyclic h _ h1 _ _ Hac Ha P G Ea1). intros r Hr. unfold cell_refs in Hr. cbn [cell_items flat_map] in Hr.
    apply in_app_or in Hr. destruct Hr as [Hr | Hr]; [right; apply N; exact Hr | left; exact Hr].
  - destruct (nth_error h a) as [[xs0|]|] eqn:Ea; try (inversion E; subst; exact Hac).
    assert (Ha: a < length h) by (apply nth_error_Some; congruence).
    destruct (detach fuel a h x) as [[h1 x']|] eqn:Ed; [|discriminate].
    destruct (detach_ok _ _ _ _ _ _ Ha Ed) as [P [G N]].
    assert (Hac1: acyclic h1) by (destruct P as [e ->]; apply acyclic_extend; auto).
    destruct (nth_error h1 a) as [[xs|]|] eqn:Ea1; inversion E; subst; try exact Hac1.
    apply (store_acyclic h _ h1 _ _ Hac Ha P G Ea1). intros r Hr. unfold cell_refs in Hr. cbn [cell_items] in Hr.
    apply refs_insert_pos in Hr. destruct Hr as [Hr | Hr]; [left; exact Hr | right; apply N; exact Hr].
  - destruct (nth_error h a) as [[xs0|]|] eqn:Ea; try (inversion E; subst; exact Hac).
    assert (Ha: a < length h) by (apply nth_error_Some; congruence).
    destruct (map_thread (detach fuel a) h items) as [[h1 items']|] eqn:Ed; [|discriminate].
    destruct (detach_thread_ok _ _ _ _ _ _ Hac Ha Ed) as [P [G N]].
    assert (Hac1: acyclic h1) by (destruct P as [e ->]; apply acyclic_extend; auto).
    destruct (nth_error h1 a) as [[xs|]|] eqn:Ea1; inversion E; subst; try exact Hac1.
    apply (store_acyclic h _ h1 _ _ Hac Ha P G Ea1). intros r Hr. unfold cell_refs in Hr. cbn [cell_items] in Hr. rewrite refs_app in Hr.
    apply in_app_or in Hr. destruct Hr as [Hr | Hr]; [left; exact Hr|]. right.
    apply in_flat_map in Hr. destruct Hr as [i [Hi Hr]]. eapply N; eauto.
  - destruct (nth_error h d) as [[|kvs0]|] eqn:Ea; try (inversion E; subst; exact Hac).
    assert (Ha: d < length h) by (apply nth_error_Some; congruence).
    destruct (detach fuel d h x) as [[h1 x']|] eqn:Ed; [|discriminate].
    destruct (detach_ok _ _ _ _ _ _ Ha Ed) as [P [G N]].
    assert (Hac1: acyclic h1) by (destruct P as [e ->]; apply acyclic_extend; auto).
    destruct (nth_error h1 d) as [[|kvs]|] eqn:Ea1; inversion E; subst; try exact Hac1.
    apply (store_acyclic h _ h1 _ _ Hac Ha P G Ea1). intros r Hr. unfold cell_refs in Hr. cbn [cell_items] in Hr.
    apply refs_dict_put in Hr. destruct Hr as [Hr | Hr]; [left; exact Hr | right; apply N; exact Hr].
Qed.

Corollary acyclic_invariant_script : forall fuel ops h h', acyclic h -> apply_ops fuel h ops = Some h' -> acyclic h'.
Proof.
  intros fuel. induction ops as [|op ops IH]; intros h h' Hac E; cbn [apply_ops] in E; [inversion E; subst; exact Hac|].
  destruct (apply_op fuel h op) as [h1|] eqn:E1; [|discriminate]. eapply IH; [|exact E]. eapply acyclic_invariant; eauto.
Qed.

(* heaps of empty containers (where every script starts) are acyclic *)
Lemma empty_cells_acyclic : forall cells, (forall c, In c cells -> cell_items c = []) -> acyclic cells.
Proof.
  intros cells H l. constructor. intros c Hc. unfold edge, children in Hc.
  destruct (nth_error cells l) as [c0|] eqn:E; [|inversion Hc].
  unfold cell_refs in Hc. rewrite (H c0 (nth_error_In _ _ E)) in Hc. inversion Hc.
Qed.

(* the pinned code stores the item as it is: appending a list to itself gives a heap that is not acyclic *)
Example pinned_append_self_cyclic : ~ acyclic [CList [IRef 0]].
Proof.
  intros H. pose proof (H 0) as A.
  assert (forall x, Acc (edge [CList [IRef 0]]) x -> x <> 0) as K.
  { intros x Hx. induction Hx as [x _ IH]. intros ->. apply (IH 0); [|reflexivity]. unfold edge, children. cbn. left. reflexivity. }
  exact (K 0 A eq_refl).
Qed.
