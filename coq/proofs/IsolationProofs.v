(* IsolationProofs.v — property C16 on the process-level model. *)
From Coq Require Import List ZArith Bool Lia.
From Zn.model Require Import Isolation.
Import ListNotations.
Open Scope Z_scope.

(* an execution never depends on, and never changes, what it was handed over by the process *)
Lemma execute_ignores_globals g g' prog : snd (execute g prog) = snd (execute g' prog).
Proof. reflexivity. Qed.

Lemma execute_keeps_globals g prog : fst (execute g prog) = g.
Proof. reflexivity. Qed.

(* Q's observations after ANY sequence of earlier programs equal Q's observations when run alone in a fresh process *)
Theorem sequence_isolated : forall ps q g,
  last (run_sequence execute g (ps ++ [q])) [] = snd (execute g0 q).
Proof.
  induction ps as [|p tl IH]; intros q g.
  - reflexivity.
  - cbn [app run_sequence]. cbn [execute].
    destruct (tl ++ [q]) as [|x xs] eqn:E; [destruct tl; discriminate|].
    specialize (IH q g). rewrite E in IH. cbn [last] in *.
    destruct (run_sequence execute g (x :: xs)) as [|y ys] eqn:R.
    + cbn in R. destruct (execute g x). discriminate.
    + exact IH.
Qed.

(* every single execution of a sequence: the k-th result is that of the k-th program alone *)
Theorem sequence_pointwise : forall ps g,
  run_sequence execute g ps = map (fun p => snd (execute g0 p)) ps.
Proof. induction ps as [|p tl IH]; intros g; [reflexivity|]. cbn [run_sequence map execute]. f_equal. apply IH. Qed.

(* the pinned process is not isolated: one mutating call on 数值 changes what the next program reads *)
Theorem pinned_sequence_refuted :
  exists ps q, last (run_sequence execute_pinned g0 (ps ++ [q])) [] <> snd (execute_pinned g0 q).
Proof. exists [[ONumSelfAdd 5]], [ONumRead]. vm_compute. discriminate. Qed.

Theorem pinned_constructor_refuted :
  exists ps q, last (run_sequence execute_pinned g0 (ps ++ [q])) [] <> snd (execute_pinned g0 q).
Proof. exists [[OExcRedefine 7]], [OExcThrowCatch]. vm_compute. discriminate. Qed.

(* leftovers of a failed run (frames, names) die with its VM: they are part of [local], which every execution starts afresh *)
Theorem error_leftovers_harmless g p q :
  snd (execute (fst (execute g (p ++ [OFail]))) q) = snd (execute g0 q).
Proof. reflexivity. Qed.

(* ---------- the shared interpreter ---------- *)

Lemma held_cons i j f l : held i ((j, f) :: l) = if Nat.eqb i j then f else held i l.
Proof. reflexivity. Qed.

(* invariant of the repaired handlers: a handler that has loaded holds an interpreter configured with its own source *)
Definition held_ok (s : shared) : Prop := forall i f, held i (sh_held s) = Some f -> f = i.
Definition seen_held (seen : list nat) (s : shared) : Prop := forall i, In i seen -> held i (sh_held s) = Some i.
Definition ran_own (s : shared) : Prop := Forall (fun p => snd p = Some (fst p)) (sh_ran s).

Lemma fixed_invariant : forall sched seen s,
  loaded_before seen sched = true -> seen_held seen s -> ran_own s ->
  ran_own (fold_left hstep_fixed sched s).
Proof.
  induction sched as [|h tl IH]; intros seen s Hv Hs Hr; [exact Hr|].
  cbn [fold_left]. destruct h as [i|i]; cbn [loaded_before] in Hv.
  - apply (IH (i :: seen)); [exact Hv| |exact Hr].
    intros j Hj. cbn [hstep_fixed sh_held]. rewrite held_cons.
    destruct (Nat.eqb j i) eqn:E; [apply Nat.eqb_eq in E; subst; reflexivity|].
    apply Hs. destruct Hj as [->|Hj]; [rewrite Nat.eqb_refl in E; discriminate|exact Hj].
  - apply andb_true_iff in Hv. destruct Hv as [Hin Hv].
    apply (IH seen); [exact Hv|exact Hs|].
    unfold ran_own in *. cbn [hstep_fixed sh_ran]. apply Forall_app. split; [exact Hr|].
    constructor; [|constructor]. cbn [fst snd]. apply Hs.
    apply existsb_exists in Hin. destruct Hin as [x [Hx E]]. apply Nat.eqb_eq in E. subst. exact Hx.
Qed.

(* For EVERY interleaving of any number of handlers over one shared interpreter, every request executes its own source *)
Theorem interleavings_own_source : forall sched,
  valid_schedule sched = true -> ran_own (run_schedule hstep_fixed sched).
Proof.
  intros sched Hv. unfold run_schedule. apply (fixed_invariant sched [] sh0 Hv).
  - intros i [].
  - constructor.
Qed.

(* the pinned handlers: two requests interleaved as Load 0; Load 1; Exec 0 make request 0 execute request 1's source *)
Theorem pinned_interleaving_refuted :
  exists sched, valid_schedule sched = true /\ ~ ran_own (run_schedule hstep_pinned sched).
Proof.
  exists [HLoad 0%nat; HLoad 1%nat; HExec 0%nat; HExec 1%nat]. split; [reflexivity|].
  intros H. vm_compute in H. inversion H as [|? ? H1 _]. discriminate.
Qed.
