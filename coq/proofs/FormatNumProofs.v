(* FormatNumProofs.v — the arithmetic core of the restated Go renderings: rounding is to nearest, ties to even;
   the decimal digit strings denote the number they are computed from. *)
From Coq Require Import List ZArith Bool Lia.
Import ListNotations.
From Zn.model Require Import FormatNum.
Open Scope Z_scope.

(* rne_div a b is an integer nearest to a/b, and on a tie it is the even one *)
Lemma rne_div_nearest a b : 0 <= a -> 0 < b ->
  Z.abs (2 * rne_div a b * b - 2 * a) <= b /\
  (Z.abs (2 * rne_div a b * b - 2 * a) = b -> Z.even (rne_div a b) = true).
Proof.
  intros Ha Hb. unfold rne_div.
  pose proof (Z.div_mod a b ltac:(lia)) as Hdm. pose proof (Z.mod_pos_bound a b Hb) as Hm.
  set (q := a / b) in *. set (r := a mod b) in *.
  destruct (2 * r <? b) eqn:E1; [split; [lia|intros; lia]|].
  destruct (2 * r >? b) eqn:E2; [split; [lia|intros; lia]|].
  destruct (Z.even q) eqn:E3.
  - split; [lia|intros; exact E3].
  - split; [lia|]. intros _. rewrite Z.even_add, E3. reflexivity.
Qed.

(* value of a little-endian digit list *)
Fixpoint val_le (ds : list Z) : Z := match ds with [] => 0 | d :: tl => d + 10 * val_le tl end.
Definition digits_ok (ds : list Z) : Prop := Forall (fun d => 0 <= d <= 9) ds.

Lemma dbl_spec : forall ds c, digits_ok ds -> 0 <= c <= 1 ->
  val_le (dbl ds c) = 2 * val_le ds + c /\ digits_ok (dbl ds c).
Proof.
  induction ds as [|d tl IH]; intros c Hd Hc.
  - cbn [dbl]. destruct (c =? 0) eqn:E; cbn [val_le].
    + apply Z.eqb_eq in E. split; [lia | constructor].
    + split; [lia | constructor; [lia | constructor]].
  - inversion Hd as [|? ? H0 Hd']; subst. cbn [dbl val_le].
    assert (Hc' : 0 <= (2 * d + c) / 10 <= 1) by (Z.div_mod_to_equations; lia).
    destruct (IH ((2 * d + c) / 10) Hd' Hc') as [IHv IHd]. rewrite IHv.
    pose proof (Z.div_mod (2 * d + c) 10 ltac:(lia)). pose proof (Z.mod_pos_bound (2 * d + c) 10 ltac:(lia)).
    split; [lia|]. constructor; [lia | exact IHd].
Qed.

Lemma pos_dec_le_spec p : val_le (pos_dec_le p) = Zpos p /\ digits_ok (pos_dec_le p).
Proof.
  induction p as [q [IHv IHd]|q [IHv IHd]|]; cbn [pos_dec_le].
  - destruct (dbl_spec (pos_dec_le q) 1 IHd ltac:(lia)) as [Hv Hd]. rewrite Hv, IHv. split; [lia | exact Hd].
  - destruct (dbl_spec (pos_dec_le q) 0 IHd ltac:(lia)) as [Hv Hd]. rewrite Hv, IHv. split; [lia | exact Hd].
  - cbn. split; [reflexivity | repeat constructor; lia].
Qed.

(* value of a most-significant-first string of digit characters *)
Definition val_chars (cs : list Z) : Z := fold_left (fun acc c => acc * 10 + (c - 48)) cs 0.

Lemma val_chars_rev_le : forall ds acc,
  fold_left (fun a c => a * 10 + (c - 48)) (map (fun d => 48 + d) (rev ds)) acc = acc * 10 ^ Z.of_nat (length ds) + val_le ds.
Proof.
  induction ds as [|d tl IH]; intros acc.
  - cbn. lia.
  - cbn [rev]. rewrite map_app, fold_left_app, IH. cbn [map fold_left val_le length].
    rewrite Nat2Z.inj_succ, Z.pow_succ_r by lia. lia.
Qed.

(* dec_digits n is the decimal numeral of n: digit characters only, denoting n *)
Theorem dec_digits_value n : 0 <= n ->
  val_chars (dec_digits n) = n /\ Forall (fun c => 48 <= c <= 57) (dec_digits n).
Proof.
  intros Hn. destruct n as [|p|p]; [cbn; split; [reflexivity | repeat constructor; lia] | | lia].
  unfold dec_digits, val_chars. destruct (pos_dec_le_spec p) as [Hv Hd]. rewrite val_chars_rev_le, Hv. split; [lia|].
  apply Forall_forall. intros c Hc. apply in_map_iff in Hc. destruct Hc as (d & <- & Hin). apply in_rev in Hin.
  unfold digits_ok in Hd. rewrite Forall_forall in Hd. specialize (Hd d Hin). lia.
Qed.

(* the number printed by %.Nf: digits of the integer nearest (ties to even) to |x| * 10^N *)
Theorem fixed_rounding m e prec : 0 <= m -> 0 <= prec ->
  let '(num, den) := ratio m e in
  let q := rne_div (num * 10 ^ prec) den in
  0 < den /\
  Z.abs (2 * q * den - 2 * (num * 10 ^ prec)) <= den /\
  (Z.abs (2 * q * den - 2 * (num * 10 ^ prec)) = den -> Z.even q = true).
Proof.
  intros Hm Hp. unfold ratio. destruct (0 <=? e) eqn:E.
  - split; [lia|]. apply rne_div_nearest; [|lia]. apply Z.mul_nonneg_nonneg; [apply Z.mul_nonneg_nonneg; [lia | apply Z.pow_nonneg; lia] | apply Z.pow_nonneg; lia].
  - assert (0 < 2 ^ (- e)) by (apply Z.pow_pos_nonneg; lia). split; [lia|].
    apply rne_div_nearest; [|lia]. apply Z.mul_nonneg_nonneg; [lia | apply Z.pow_nonneg; lia].
Qed.
