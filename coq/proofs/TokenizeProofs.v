(* C04 - proofs about the lexer model (model/Tokenize.v) against the specification (model/TokSpec.v). *)
From Coq Require Import List ZArith Bool Lia.
Import ListNotations.
From Zn.gen Require Import GenC04Tokens GenC04IdRange.
From Zn.model Require Import IdRange Tokenize TokSpec.
Open Scope Z_scope.
Local Notation KW := (parse_keyword g_kw_tree).

(* ================================================================== A. parseKeyword returns the longest documented keyword *)

(* -- the checkable shape of a decision tree -- *)
(* conditions [(k, g_k); (k+1, g_k+1); ...] with non-zero glyphs spell the word g_k g_k+1 ... *)
Fixpoint conds_word (k : Z) (conds : list (Z * Z)) : option (list Z) :=
  match conds with
  | [] => Some []
  | (i, g) :: r => if (i =? k) && negb (g =? g_RuneEOF) then option_map (cons g) (conds_word (k + 1) r) else None
  end.

(* the (word, type) entries of one `case`, in source order; None when the shape is not canonical *)
Fixpoint chain_entries (lead : Z) (brs : list (list (Z * Z) * Z * Z)) : option (list (list Z * Z)) :=
  match brs with
  | [] => Some []
  | (conds, wl, ty) :: r =>
      match conds_word 1 conds, chain_entries lead r with
      | Some gs, Some es => if (wl =? 1 + Z.of_nat (length gs)) && negb (ty =? 0) then Some ((lead :: gs, ty) :: es) else None
      | _, _ => None
      end
  end.

Definition else_entries (lead : Z) (els : option (Z * Z)) : option (list (list Z * Z)) :=
  match els with
  | None => Some []
  | Some (wl, ty) => if ty =? 0 then Some [] else if wl =? 1 then Some [([lead], ty)] else None
  end.

Fixpoint tree_entries (tree : kwtree) : option (list (list Z * Z)) :=
  match tree with
  | [] => Some []
  | (lead, brs, els) :: r =>
      match chain_entries lead brs, else_entries lead els, tree_entries r with
      | Some a, Some b, Some c => if negb (lead =? 0) && negb (existsb (fun t => fst (fst t) =? lead) r) then Some (a ++ b ++ c) else None
      | _, _, _ => None
      end
  end.

(* first entry whose word is a prefix of s *)
Fixpoint first_match (es : list (list Z * Z)) (s : list Z) : option (Z * Z) :=
  match es with
  | [] => None
  | (w, ty) :: r => if prefix_of w s then Some (Z.of_nat (length w), ty) else first_match r s
  end.

Lemma nth_skipn_hd : forall (d : Z) (n : nat) (s : list Z), nth n s d = hd d (skipn n s).
Proof. induction n; destruct s; simpl; auto. Qed.

Lemma conds_hold_word : forall conds k gs s, 0 <= k -> conds_word k conds = Some gs ->
  conds_hold conds s = prefix_of gs (skipn (Z.to_nat k) s).
Proof.
  induction conds as [|[i g] conds IH]; intros k gs s Hk H; cbn [conds_word] in H.
  - inversion H; subst. reflexivity.
  - destruct ((i =? k) && negb (g =? g_RuneEOF)) eqn:E; [|discriminate].
    apply andb_true_iff in E. destruct E as [E1 E2]. apply Z.eqb_eq in E1. subst i.
    apply negb_true_iff in E2. apply Z.eqb_neq in E2.
    destruct (conds_word (k + 1) conds) as [gs'|] eqn:E3; [|discriminate]. cbn [option_map] in H. inversion H; subst gs.
    cbn [conds_hold forallb fst snd]. fold (conds_hold conds s).
    rewrite (IH (k + 1) gs' s ltac:(lia) E3).
    unfold peekn. rewrite nth_skipn_hd.
    replace (Z.to_nat (k + 1)) with (S (Z.to_nat k)) by lia.
    destruct (skipn (Z.to_nat k) s) as [|b t] eqn:Es.
    + cbn [hd prefix_of]. destruct (Z.eqb_spec g_RuneEOF g); [congruence|reflexivity].
    + assert (skipn (S (Z.to_nat k)) s = t) as ->.
      { clear -Es. revert s Es. generalize (Z.to_nat k). induction n; intros s Es; destruct s; simpl in *; try discriminate.
        - inversion Es; reflexivity. - apply IHn. exact Es. }
      cbn [hd prefix_of]. rewrite (Z.eqb_sym b g). reflexivity.
Qed.

Lemma eval_chain_first_match : forall lead brs els es c r, chain_entries lead brs = Some es -> c = lead ->
  match eval_chain brs els (c :: r) with
  | Some (wl, ty) =>
      (first_match es (c :: r) = Some (wl, ty) /\ ty <> 0) \/ (first_match es (c :: r) = None /\ els = Some (wl, ty))
  | None => first_match es (c :: r) = None /\ els = None
  end.
Proof.
  induction brs as [|[[conds wl] ty] brs IH]; intros els es c r H Hc; cbn [chain_entries] in H.
  - inversion H; subst. simpl. destruct els as [[wl ty]|]; auto.
  - destruct (conds_word 1 conds) as [gs|] eqn:E1; [|discriminate].
    destruct (chain_entries lead brs) as [es'|] eqn:E2; [|discriminate].
    destruct ((wl =? 1 + Z.of_nat (length gs)) && negb (ty =? 0)) eqn:E3; [|discriminate].
    inversion H; subst es. apply andb_true_iff in E3. destruct E3 as [E3 E4]. apply Z.eqb_eq in E3.
    apply negb_true_iff in E4. apply Z.eqb_neq in E4.
    cbn [eval_chain first_match prefix_of].
    rewrite (conds_hold_word conds 1 gs (c :: r) ltac:(lia) E1). change (skipn (Z.to_nat 1) (c :: r)) with r.
    subst c. rewrite Z.eqb_refl. cbn [andb].
    destruct (prefix_of gs r).
    + left. split; [|exact E4]. f_equal. f_equal. cbn [length]. lia.
    + apply (IH els es' lead r eq_refl eq_refl).
Qed.

Lemma first_match_app_none : forall a b s, first_match a s = None -> first_match (a ++ b) s = first_match b s.
Proof. induction a as [|[w ty] a IH]; intros b s H; simpl in *; [reflexivity|]. destruct (prefix_of w s); [discriminate | auto]. Qed.

Lemma first_match_app_some : forall a b s x, first_match a s = Some x -> first_match (a ++ b) s = Some x.
Proof. induction a as [|[w ty] a IH]; intros b s x H; simpl in *; [discriminate|]. destruct (prefix_of w s); auto. Qed.

Lemma first_match_other_lead : forall es c r, (forall w ty, In (w, ty) es -> hd 0 w <> c /\ w <> []) -> first_match es (c :: r) = None.
Proof.
  induction es as [|[w ty] es IH]; intros c r H; [reflexivity|]. simpl.
  destruct (H w ty (or_introl eq_refl)) as [H1 H2].
  destruct w as [|a w]; [congruence|]. cbn [prefix_of hd] in *. destruct (Z.eqb_spec a c); [congruence|]. cbn [andb].
  apply IH. intros w' ty' Hin. apply (H w' ty'). right. exact Hin.
Qed.

Lemma chain_entries_lead : forall lead brs es, chain_entries lead brs = Some es -> forall w ty, In (w, ty) es -> hd 0 w = lead /\ w <> [].
Proof.
  induction brs as [|[[conds wl] ty0] brs IH]; intros es H w ty Hin; cbn [chain_entries] in H.
  - inversion H; subst. destruct Hin.
  - destruct (conds_word 1 conds); [|discriminate]. destruct (chain_entries lead brs) eqn:E; [|discriminate].
    destruct (_ && _); [|discriminate]. inversion H; subst. destruct Hin as [Hin|Hin].
    + inversion Hin; subst. split; [reflexivity|discriminate].
    + eapply IH; eauto.
Qed.

Lemma tree_entries_leads : forall tree es, tree_entries tree = Some es ->
  forall w ty, In (w, ty) es -> w <> [] /\ existsb (fun t => fst (fst t) =? hd 0 w) tree = true.
Proof.
  induction tree as [|[[lead brs] els] tree IH]; intros es H w ty Hin; simpl in H.
  - inversion H; subst. destruct Hin.
  - destruct (chain_entries lead brs) as [a|] eqn:Ea; [|discriminate].
    destruct (else_entries lead els) as [b|] eqn:Eb; [|discriminate].
    destruct (tree_entries tree) as [c|] eqn:Ec; [|discriminate].
    destruct (_ && _); [|discriminate]. inversion H; subst es.
    apply in_app_or in Hin. destruct Hin as [Hin|Hin].
    + destruct (chain_entries_lead _ _ _ Ea _ _ Hin) as [H1 H2]. split; [exact H2|]. simpl. rewrite H1, Z.eqb_refl. reflexivity.
    + apply in_app_or in Hin. destruct Hin as [Hin|Hin].
      * unfold else_entries in Eb. destruct els as [[wl ty1]|]; [|inversion Eb; subst; destruct Hin].
        destruct (ty1 =? 0); [inversion Eb; subst; destruct Hin|]. destruct (wl =? 1); [|discriminate].
        inversion Eb; subst. destruct Hin as [Hin|[]]. inversion Hin; subst. split; [discriminate|]. simpl. rewrite Z.eqb_refl. reflexivity.
      * destruct (IH c eq_refl w ty Hin) as [H1 H2]. split; [exact H1|]. simpl. rewrite H2. apply orb_true_r.
Qed.

(* parseKeyword over a canonical tree is first-match over its entries *)
Lemma parse_keyword_first_match : forall tree es, tree_entries tree = Some es ->
  forall s, hd 0 s <> 0 -> parse_keyword tree s = first_match es s.
Proof.
  induction tree as [|[[lead brs] els] tree IH]; intros es H s Hs; simpl in H.
  - inversion H; subst. reflexivity.
  - destruct (chain_entries lead brs) as [a|] eqn:Ea; [|discriminate].
    destruct (else_entries lead els) as [b|] eqn:Eb; [|discriminate].
    destruct (tree_entries tree) as [c|] eqn:Ec; [|discriminate].
    destruct (negb (lead =? 0) && negb (existsb (fun t => fst (fst t) =? lead) tree)) eqn:Ed; [|discriminate].
    inversion H; subst es. apply andb_true_iff in Ed. destruct Ed as [Ed1 Ed2].
    apply negb_true_iff in Ed2.
    destruct s as [|ch r]; [simpl in Hs; congruence|].
    unfold parse_keyword. cbn [cur hd find_lead].
    destruct (Z.eqb_spec ch lead) as [->|Hne].
    + (* this case *)
      pose proof (eval_chain_first_match lead brs els a lead r Ea eq_refl) as Hc.
      assert (Hcnone : first_match c (lead :: r) = None).
      { apply first_match_other_lead. intros w ty Hin. destruct (tree_entries_leads _ _ Ec _ _ Hin) as [H1 H2]. split; [|exact H1].
        intro Heq. rewrite Heq in H2. rewrite H2 in Ed2. discriminate. }
      destruct (eval_chain brs els (lead :: r)) as [[wl ty]|].
      * destruct Hc as [[Hc1 Hc2]|[Hc1 Hc2]].
        -- destruct (Z.eqb_spec ty 0); [congruence|]. symmetry. apply first_match_app_some. exact Hc1.
        -- rewrite (first_match_app_none _ _ _ Hc1). subst els. unfold else_entries in Eb.
           destruct (ty =? 0).
           ++ inversion Eb; subst b. simpl. symmetry. exact Hcnone.
           ++ destruct (Z.eqb_spec wl 1); [|discriminate]. inversion Eb; subst b wl. simpl. rewrite Z.eqb_refl. reflexivity.
      * destruct Hc as [Hc1 Hc2]. rewrite (first_match_app_none _ _ _ Hc1). subst els. inversion Eb; subst b. simpl. symmetry. exact Hcnone.
    + (* another case *)
      assert (Ha : first_match a (ch :: r) = None).
      { apply first_match_other_lead. intros w ty Hin. destruct (chain_entries_lead _ _ _ Ea _ _ Hin) as [H1 H2]. split; congruence. }
      assert (Hb : first_match b (ch :: r) = None).
      { unfold else_entries in Eb. destruct els as [[wl ty]|]; [|inversion Eb; reflexivity].
        destruct (ty =? 0); [inversion Eb; reflexivity|]. destruct (wl =? 1); [|discriminate]. inversion Eb; subst. simpl.
        destruct (Z.eqb_spec lead ch); [congruence|reflexivity]. }
      rewrite (first_match_app_none _ _ _ Ha), (first_match_app_none _ _ _ Hb).
      specialize (IH c eq_refl (ch :: r) Hs). unfold parse_keyword in IH. cbn [cur hd] in IH. exact IH.
Qed.

(* -- first match = longest match when no earlier word is a prefix of a later one -- *)
Fixpoint no_earlier_prefix (es : list (list Z * Z)) : bool :=
  match es with
  | [] => true
  | (w, _) :: r => forallb (fun e => negb (prefix_of w (fst e))) r && no_earlier_prefix r
  end.

Lemma prefix_of_length : forall a b, prefix_of a b = true -> (length a <= length b)%nat.
Proof. induction a as [|x a IH]; intros [|y b] H; simpl in *; try lia; try discriminate. apply andb_true_iff in H. destruct H as [_ H]. apply IH in H. lia. Qed.

Lemma prefix_of_comparable : forall a b s, prefix_of a s = true -> prefix_of b s = true -> prefix_of a b = true \/ prefix_of b a = true.
Proof.
  induction a as [|x a IH]; intros b s Ha Hb; [left; reflexivity|].
  destruct b as [|y b]; [right; reflexivity|].
  destruct s as [|z s]; simpl in *; [discriminate|].
  apply andb_true_iff in Ha. destruct Ha as [Ha1 Ha2]. apply andb_true_iff in Hb. destruct Hb as [Hb1 Hb2].
  apply Z.eqb_eq in Ha1. apply Z.eqb_eq in Hb1. subst. rewrite Z.eqb_refl. simpl. eapply IH; eauto.
Qed.

Lemma first_match_longest : forall es s, no_earlier_prefix es = true ->
  match first_match es s with
  | Some (n, ty) => longest_keyword_at es s n ty
  | None => no_keyword_at es s
  end.
Proof.
  induction es as [|[w ty] es IH]; intros s Hn; simpl.
  - intros w' ty' [].
  - simpl in Hn. apply andb_true_iff in Hn. destruct Hn as [Hn1 Hn2]. rewrite forallb_forall in Hn1.
    destruct (prefix_of w s) eqn:E.
    + exists w. split; [left; reflexivity|]. split; [exact E|]. split; [reflexivity|].
      intros w' ty' [Hin|Hin] Hp; [inversion Hin; subst; lia|].
      specialize (Hn1 _ Hin). simpl in Hn1. apply negb_true_iff in Hn1.
      destruct (prefix_of_comparable w w' s E Hp) as [H|H]; [congruence|]. apply prefix_of_length. exact H.
    + specialize (IH s Hn2). destruct (first_match es s) as [[n ty1]|].
      * destruct IH as [w1 [H1 [H2 [H3 H4]]]]. exists w1. split; [right; exact H1|]. split; [exact H2|]. split; [exact H3|].
        intros w' ty' [Hin|Hin] Hp; [inversion Hin; subst; congruence|]. eapply H4; eauto.
      * intros w' ty' [Hin|Hin]; [inversion Hin; subst; exact E|]. eapply IH; eauto.
Qed.

(* -- same entries as the documented table -- *)
Definition entry_eqb (a b : list Z * Z) : bool :=
  (snd a =? snd b) && prefix_of (fst a) (fst b) && prefix_of (fst b) (fst a).
Definition subset_entries (a b : list (list Z * Z)) : bool := forallb (fun x => existsb (entry_eqb x) b) a.

Lemma prefix_of_antisym : forall a b, prefix_of a b = true -> prefix_of b a = true -> a = b.
Proof.
  induction a as [|x a IH]; intros [|y b] H1 H2; simpl in *; try reflexivity; try discriminate.
  apply andb_true_iff in H1. destruct H1 as [E H1]. apply andb_true_iff in H2. destruct H2 as [_ H2].
  apply Z.eqb_eq in E. subst. f_equal. apply IH; assumption.
Qed.

Lemma subset_entries_In : forall a b, subset_entries a b = true -> forall x, In x a -> In x b.
Proof.
  intros a b H x Hin. unfold subset_entries in H. rewrite forallb_forall in H. specialize (H x Hin).
  apply existsb_exists in H. destruct H as [y [Hy He]]. unfold entry_eqb in He.
  apply andb_true_iff in He. destruct He as [He H3]. apply andb_true_iff in He. destruct He as [H1 H2].
  apply Z.eqb_eq in H1. pose proof (prefix_of_antisym _ _ H2 H3). destruct x, y; simpl in *; subst. exact Hy.
Qed.

(* the whole check on a tree against a keyword table *)
Definition kw_tree_check (tree : kwtree) (doc : list (list Z * Z)) : bool :=
  match tree_entries tree with
  | Some es => no_earlier_prefix es && subset_entries es doc && subset_entries doc es
  | None => false
  end.

Theorem checked_tree_longest : forall tree doc, kw_tree_check tree doc = true ->
  forall s, hd 0 s <> 0 ->
  match parse_keyword tree s with
  | Some (n, ty) => longest_keyword_at doc s n ty
  | None => no_keyword_at doc s
  end.
Proof.
  intros tree doc H s Hs. unfold kw_tree_check in H.
  destruct (tree_entries tree) as [es|] eqn:E; [|discriminate].
  apply andb_true_iff in H. destruct H as [H H3]. apply andb_true_iff in H. destruct H as [H1 H2].
  rewrite (parse_keyword_first_match tree es E s Hs).
  pose proof (first_match_longest es s H1) as Hf.
  pose proof (subset_entries_In _ _ H2) as S1. pose proof (subset_entries_In _ _ H3) as S2.
  destruct (first_match es s) as [[n ty]|].
  - destruct Hf as [w [Hw1 [Hw2 [Hw3 Hw4]]]]. exists w. split; [apply S1; exact Hw1|]. split; [exact Hw2|]. split; [exact Hw3|].
    intros w' ty' Hin Hp. apply (Hw4 w' ty' (S2 _ Hin) Hp).
  - intros w' ty' Hin. apply (Hf w' ty' (S2 _ Hin)).
Qed.

(* the obligations re-opened by every change of parseKeyword / the token tables *)
Lemma gen_tokens_translated : gen_tok_ok = true.
Proof. vm_compute. reflexivity. Qed.

Lemma gen_kw_tree_check : kw_tree_check g_kw_tree doc_keywords = true.
Proof. vm_compute. reflexivity. Qed.

Theorem gen_kw_match_longest : forall s, hd 0 s <> 0 ->
  match parse_keyword g_kw_tree s with
  | Some (n, ty) => longest_keyword_at doc_keywords s n ty
  | None => no_keyword_at doc_keywords s
  end.
Proof. exact (checked_tree_longest _ _ gen_kw_tree_check). Qed.

(* ================================================================== B. closed facts about the regenerated tables *)
Lemma eof_not_body : is_id_body g_RuneEOF = false.
Proof. vm_compute. reflexivity. Qed.
Lemma backtick_not_body : is_id_body g_BackTick = false.
Proof. vm_compute. reflexivity. Qed.
Lemma zero_not_body : is_id_body 0 = false.
Proof. vm_compute. reflexivity. Qed.

(* a character that starts neither white space, a line break, EOF, a comment, a string, a backtick name, a punctuation
   mark nor an operator: NextToken tries parseKeyword, then parseIdentifier *)
Definition plain_start (c : Z) : bool :=
  negb (is_ws c) && negb (c =? g_RuneCR) && negb (c =? g_RuneLF) && negb (c =? g_RuneEOF)
  && negb (c =? g_CharZHU) && negb (c =? g_SlashOp) && negb (mem c left_quotes) && negb (c =? g_BackTick)
  && negb (mem c g_markPunctuations) && negb (mem c g_markOperators).

Lemma next_token_plain : forall c r pos, plain_start c = true ->
  next_token KW (c :: r) pos =
  match parse_keyword g_kw_tree (c :: r) with
  | Some (wl, ty) => TTok ty pos (pos + wl) [] (skipn (Z.to_nat wl) (c :: r))
  | None => parse_identifier KW (c :: r) pos
  end.
Proof.
  intros c r pos H. unfold plain_start in H.
  repeat (apply andb_true_iff in H; let H' := fresh "P" in destruct H as [H H']).
  repeat match goal with P : negb _ = true |- _ => apply negb_true_iff in P end.
  unfold next_token. cbn [skip_ws]. rewrite H. cbn [cur hd]. rewrite P7, P6, P5. cbn [orb].
  unfold special_token. cbn [cur hd]. rewrite P4, P3, P2, P1.
  unfold generic_token. cbn [cur hd]. rewrite P0, P. reflexivity.
Qed.

(* ================================================================== C. identifiers *)
Lemma ident_loop_spec : forall r start pos lit ty s e lit' r',
  ident_loop KW start r pos lit = TTok ty s e lit' r' ->
  exists taken, r = taken ++ r' /\ lit' = rev lit ++ taken /\ ty = g_TypeIdentifier /\ s = start
    /\ e = pos + Z.of_nat (length taken)
    /\ forallb is_id_body taken = true
    /\ ident_stop KW r' = true
    /\ (forall a b, taken = a ++ b -> b <> [] -> ident_stop KW (b ++ r') = false).
Proof.
  induction r as [|c r IH]; intros start pos lit ty s e lit' r' H.
  - cbn [ident_loop] in H. destruct (ident_stop KW []) eqn:Es.
    + unfold ident_finish in H. destruct (hd 0 lit =? g_SlashOp); [discriminate|]. inversion H; subst.
      exists []. split; [reflexivity|]. split; [symmetry; apply app_nil_r|]. split; [reflexivity|]. split; [reflexivity|].
      split; [simpl; lia|]. split; [reflexivity|]. split; [exact Es|].
      intros a b Hab Hb. destruct a; destruct b; try discriminate; congruence.
    + destruct (is_id_body g_RuneEOF); discriminate.
  - cbn [ident_loop] in H. destruct (ident_stop KW (c :: r)) eqn:Es.
    + unfold ident_finish in H. destruct (hd 0 lit =? g_SlashOp); [discriminate|]. inversion H; subst.
      exists []. split; [reflexivity|]. split; [symmetry; apply app_nil_r|]. split; [reflexivity|]. split; [reflexivity|].
      split; [simpl; lia|]. split; [reflexivity|]. split; [exact Es|].
      intros a b Hab Hb. destruct a; destruct b; try discriminate; congruence.
    + destruct (is_id_body c) eqn:Ec; [|discriminate].
      destruct (IH _ _ _ _ _ _ _ _ H) as [taken [H1 [H2 [H3 [H4 [H5 [H6 [H7 H8]]]]]]]].
      exists (c :: taken). subst r. split; [reflexivity|]. split; [rewrite H2; simpl; rewrite <- app_assoc; reflexivity|].
      split; [exact H3|]. split; [exact H4|]. split; [cbn [length]; lia|]. split; [cbn [forallb]; rewrite Ec; exact H6|].
      split; [exact H7|].
      intros a b Hab Hb. destruct a as [|x a].
      * simpl in Hab. subst b. exact Es.
      * inversion Hab; subst. apply (H8 a b eq_refl Hb).
Qed.

Lemma ident_loop_kinds : forall r start pos lit, match ident_loop KW start r pos lit with TTok _ _ _ _ _ | TErr _ => True | _ => False end.
Proof.
  induction r as [|c r IH]; intros start pos lit; cbn [ident_loop].
  - destruct (ident_stop KW []); [unfold ident_finish; destruct (_ =? _); exact I|]. rewrite eof_not_body. exact I.
  - destruct (ident_stop KW (c :: r)); [unfold ident_finish; destruct (_ =? _); exact I|]. destruct (is_id_body c); [apply IH | exact I].
Qed.

(* an identifier token produced by parseIdentifier: maximal run that contains no keyword occurrence *)
Theorem identifier_token_spec : forall c r pos ty s e lit r',
  parse_identifier KW (c :: r) pos = TTok ty s e lit r' ->
  exists taken, r = taken ++ r' /\ lit = c :: taken /\ ty = g_TypeIdentifier /\ s = pos /\ e = pos + 1 + Z.of_nat (length taken)
    /\ is_id_char c = true /\ forallb is_id_body taken = true
    /\ (forall a b, taken = a ++ b -> b <> [] -> no_keyword_at doc_keywords (b ++ r'))
    /\ ident_stop KW r' = true
    /\ last lit 0 <> g_SlashOp.
Proof.
  intros c r pos ty s e lit r' H. unfold parse_identifier in H. cbn [cur hd tl] in H.
  destruct (is_id_char c) eqn:Ec; [|discriminate]. cbn [negb] in H.
  pose proof H as H0.
  apply ident_loop_spec in H. destruct H as [taken [H1 [H2 [H3 [H4 [H5 [H6 [H7 H8]]]]]]]].
  exists taken. simpl in H2. repeat split; auto; try lia.
  - intros a b Hab Hb. specialize (H8 a b Hab Hb).
    unfold ident_stop in H8. apply orb_false_iff in H8. destruct H8 as [H8 _]. apply orb_false_iff in H8. destruct H8 as [H8 _].
    apply orb_false_iff in H8. destruct H8 as [_ H8].
    assert (Hhd : hd 0 (b ++ r') <> 0).
    { destruct b as [|x b]; [congruence|]. simpl. intro Hx. subst x.
      assert (In 0 taken) by (rewrite Hab; apply in_or_app; right; left; reflexivity).
      rewrite forallb_forall in H6. specialize (H6 0 H). rewrite zero_not_body in H6. discriminate. }
    pose proof (gen_kw_match_longest (b ++ r') Hhd) as Hk.
    destruct (parse_keyword g_kw_tree (b ++ r')) as [[n t]|]; [discriminate | exact Hk].
  - (* the literal does not end with '/' *)
    clear H8. revert H0. generalize (pos + 1). intros p H0.
    assert (forall r start p lit0 ty s e lit' r', ident_loop KW start r p lit0 = TTok ty s e lit' r' -> lit0 <> [] -> last lit' 0 <> g_SlashOp) as Hgen.
    { clear. induction r as [|x r IH]; intros start p lit0 ty s e lit' r' H Hne; cbn [ident_loop] in H.
      - destruct (ident_stop KW []).
        + unfold ident_finish in H. destruct (Z.eqb_spec (hd 0 lit0) g_SlashOp); [discriminate|]. inversion H; subst.
          destruct lit0 as [|y l]; [congruence|]. simpl rev. rewrite last_last. exact n.
        + destruct (is_id_body g_RuneEOF); discriminate.
      - destruct (ident_stop KW (x :: r)).
        + unfold ident_finish in H. destruct (Z.eqb_spec (hd 0 lit0) g_SlashOp); [discriminate|]. inversion H; subst.
          destruct lit0 as [|y l]; [congruence|]. simpl rev. rewrite last_last. exact n.
        + destruct (is_id_body x); [|discriminate]. eapply IH; [exact H | discriminate]. }
    subst lit. eapply Hgen; [exact H0 | discriminate].
Qed.

(* ================================================================== D. backtick names *)
Lemma varquote_loop_body : forall body start r pos lit, forallb is_id_body body = true ->
  varquote_loop start (body ++ g_BackTick :: r) pos lit =
  TTok g_TypeIdentifier start (pos + Z.of_nat (length body) + 1) (rev lit ++ body) r.
Proof.
  induction body as [|c body IH]; intros start r pos lit H.
  - cbn [app varquote_loop]. rewrite backtick_not_body, Z.eqb_refl. rewrite app_nil_r. f_equal. simpl. lia.
  - cbn [forallb] in H. apply andb_true_iff in H. destruct H as [Hc Hb].
    cbn [app varquote_loop]. rewrite Hc. rewrite (IH start r (pos + 1) (c :: lit) Hb).
    f_equal; [cbn [length]; lia | simpl; rewrite <- app_assoc; reflexivity].
Qed.

Lemma next_token_backtick : forall r pos, next_token KW (g_BackTick :: r) pos = varquote_loop pos r (pos + 1) [].
Proof. intros r pos. reflexivity. Qed.

(* text between backticks is a single identifier, whatever keywords it contains *)
Theorem backtick_single_identifier : forall body r pos, forallb is_id_body body = true ->
  next_token KW (g_BackTick :: body ++ g_BackTick :: r) pos =
  TTok g_TypeIdentifier pos (pos + Z.of_nat (length body) + 2) body r.
Proof.
  intros body r pos H. rewrite next_token_backtick. rewrite (varquote_loop_body body pos r (pos + 1) [] H).
  f_equal. lia.
Qed.

(* ================================================================== E. + - * / *)
Definition op_type (c : Z) : Z :=
  if c =? g_PlusOp then g_TypePlus else if c =? g_MinusOp then g_TypeMinus
  else if c =? g_MultiplyOp then g_TypeMultiply else g_TypeDivision.

Lemma next_token_arith : forall c r pos, In c [g_PlusOp; g_MinusOp; g_MultiplyOp] ->
  next_token KW (c :: r) pos =
  if is_delim (cur r) then TTok (op_type c) pos (pos + 1) [] r
  else parse_identifier KW (c :: r) pos.
Proof.
  intros c r pos H. simpl in H.
  destruct H as [<-|[<-|[<-|[]]]]; unfold next_token, special_token, generic_token, parse_operators; cbn [skip_ws];
    match goal with |- context [is_ws ?x] => let v := eval vm_compute in (is_ws x) in change (is_ws x) with v end;
    cbv iota; cbn [cur hd tl peekn Z.to_nat Pos.to_nat Pos.iter_op Nat.add nth];
    destruct r as [|n r]; cbn [hd nth]; destruct (is_delim _); reflexivity.
Qed.

Lemma peek1 : forall c r, peekn 1 (c :: r) = cur r.
Proof. intros c [|n r]; reflexivity. Qed.

Lemma next_token_slash : forall r pos, mem (cur r) [g_SlashOp; g_MultiplyOp; g_EqualOp] = false ->
  next_token KW (g_SlashOp :: r) pos =
  if is_delim (cur r) then TTok g_TypeDivision pos (pos + 1) [] r
  else TErr pos.
Proof.
  intros r pos H. unfold mem in H. cbn [existsb] in H.
  apply orb_false_iff in H. destruct H as [H1 H]. apply orb_false_iff in H. destruct H as [H2 H]. apply orb_false_iff in H. destruct H as [H3 _].
  unfold next_token, special_token, generic_token, parse_operators; cbn [skip_ws].
  change (is_ws g_SlashOp) with false. cbv iota. cbn [cur hd tl]. rewrite !peek1. fold (cur r).
  rewrite H1, H2, H3.
  destruct (is_delim (cur r)); reflexivity.
Qed.

(* + - * / are operators only when followed by a space, punctuation or quote; otherwise + and - start an identifier
   and * / cannot start anything *)
Theorem operator_needs_delimiter : forall c r pos ty s e lit r',
  In c [g_PlusOp; g_MinusOp; g_MultiplyOp] ->
  next_token KW (c :: r) pos = TTok ty s e lit r' ->
  (is_delim (cur r) = true /\ ty = op_type c /\ s = pos /\ e = pos + 1 /\ lit = [] /\ r' = r)
  \/ (is_delim (cur r) = false /\ ty = g_TypeIdentifier).
Proof.
  intros c r pos ty s e lit r' Hc H. rewrite (next_token_arith c r pos Hc) in H.
  destruct (is_delim (cur r)).
  - left. inversion H; subst. auto 10.
  - right. split; [reflexivity|]. apply identifier_token_spec in H. destruct H as [taken H]. tauto.
Qed.

(* ================================================================== F. the implementation lexer is the documented lexer *)
Lemma longest_kw_spec : forall kws s,
  match longest_kw kws s with
  | Some (n, ty) => longest_keyword_at kws s n ty
  | None => no_keyword_at kws s
  end.
Proof.
  induction kws as [|[w ty] kws IH]; intro s; cbn [longest_kw].
  - intros w' ty' [].
  - specialize (IH s). destruct (prefix_of w s) eqn:E.
    + destruct (longest_kw kws s) as [[l t1]|].
      * destruct IH as [w1 [H1 [H2 [H3 H4]]]].
        destruct (Z.ltb_spec l (Z.of_nat (length w))).
        -- exists w. split; [left; reflexivity|]. split; [exact E|]. split; [reflexivity|].
           intros w' ty' [Hin|Hin] Hp; [inversion Hin; subst; lia|]. specialize (H4 _ _ Hin Hp). lia.
        -- exists w1. split; [right; exact H1|]. split; [exact H2|]. split; [exact H3|].
           intros w' ty' [Hin|Hin] Hp; [inversion Hin; subst; lia|]. eapply H4; eauto.
      * exists w. split; [left; reflexivity|]. split; [exact E|]. split; [reflexivity|].
        intros w' ty' [Hin|Hin] Hp; [inversion Hin; subst; lia|]. rewrite (IH _ _ Hin) in Hp. discriminate.
    + destruct (longest_kw kws s) as [[l t1]|].
      * destruct IH as [w1 [H1 [H2 [H3 H4]]]]. exists w1. split; [right; exact H1|]. split; [exact H2|]. split; [exact H3|].
        intros w' ty' [Hin|Hin] Hp; [inversion Hin; subst; congruence|]. eapply H4; eauto.
      * intros w' ty' [Hin|Hin]; [inversion Hin; subst; exact E|]. eapply IH; eauto.
Qed.

Lemma prefix_same_length : forall a b s, prefix_of a s = true -> prefix_of b s = true -> length a = length b -> a = b.
Proof.
  induction a as [|x a IH]; intros [|y b] s Ha Hb Hl; simpl in *; try reflexivity; try discriminate.
  destruct s as [|z s]; [discriminate|].
  apply andb_true_iff in Ha. destruct Ha as [Ha1 Ha2]. apply andb_true_iff in Hb. destruct Hb as [Hb1 Hb2].
  apply Z.eqb_eq in Ha1. apply Z.eqb_eq in Hb1. subst. f_equal. eapply IH; eauto.
Qed.

(* one token type per word *)
Fixpoint words_functional (doc : list (list Z * Z)) : bool :=
  match doc with
  | [] => true
  | (w, ty) :: r => forallb (fun e => negb (prefix_of w (fst e) && prefix_of (fst e) w) || (snd e =? ty)) r && words_functional r
  end.

Lemma words_functional_spec : forall doc, words_functional doc = true ->
  forall w t1 t2, In (w, t1) doc -> In (w, t2) doc -> t1 = t2.
Proof.
  induction doc as [|[w0 t0] doc IH]; intros H w t1 t2 H1 H2; [destruct H1|].
  simpl in H. apply andb_true_iff in H. destruct H as [Ha Hb]. rewrite forallb_forall in Ha.
  assert (Hrefl : forall l, prefix_of l l = true) by (induction l; simpl; [reflexivity | rewrite Z.eqb_refl; exact IHl]).
  destruct H1 as [H1|H1]; destruct H2 as [H2|H2].
  - congruence.
  - inversion H1; subst. specialize (Ha _ H2). simpl in Ha. rewrite Hrefl in Ha. simpl in Ha. apply Z.eqb_eq in Ha. congruence.
  - inversion H2; subst. specialize (Ha _ H1). simpl in Ha. rewrite Hrefl in Ha. simpl in Ha. apply Z.eqb_eq in Ha. congruence.
  - eapply IH; eauto.
Qed.

Lemma longest_keyword_unique : forall doc s n ty n' ty', words_functional doc = true ->
  longest_keyword_at doc s n ty -> longest_keyword_at doc s n' ty' -> n = n' /\ ty = ty'.
Proof.
  intros doc s n ty n' ty' Hf [w [H1 [H2 [H3 H4]]]] [w' [H1' [H2' [H3' H4']]]].
  pose proof (H4 _ _ H1' H2'). pose proof (H4' _ _ H1 H2).
  assert (w = w') by (eapply prefix_same_length; eauto; lia). subst w'.
  split; [lia|]. eapply words_functional_spec; eauto.
Qed.

Lemma doc_words_ok : words_functional doc_keywords = true /\ forallb (fun e => negb (hd 0 (fst e) =? 0)) doc_keywords = true
  /\ find_lead 0 g_kw_tree = None /\ find_lead g_RuneEOF g_kw_tree = None.
Proof. vm_compute. auto. Qed.

Lemma longest_kw_zero_head : forall doc s, forallb (fun e => negb (hd 0 (fst e) =? 0)) doc = true -> hd 0 s = 0 -> longest_kw doc s = None.
Proof.
  induction doc as [|[w ty] doc IH]; intros s H Hs; [reflexivity|]. cbn [forallb fst] in H.
  apply andb_true_iff in H. destruct H as [H1 H2]. cbn [longest_kw]. rewrite (IH s H2 Hs).
  apply negb_true_iff in H1. apply Z.eqb_neq in H1.
  destruct w as [|a w]; [simpl in H1; congruence|]. destruct s as [|b s]; [reflexivity|]. simpl in *. subst b.
  destruct (Z.eqb_spec a 0); [congruence | reflexivity].
Qed.

Theorem gen_kw_is_longest_kw : forall s, parse_keyword g_kw_tree s = longest_kw doc_keywords s.
Proof.
  intro s. destruct doc_words_ok as [Hf [Hz [Hl Hl']]].
  destruct s as [|c r].
  - rewrite (longest_kw_zero_head _ [] Hz eq_refl). unfold parse_keyword. cbn [cur hd]. rewrite Hl'. reflexivity.
  - destruct (Z.eq_dec c 0) as [H0|H0].
    + subst c. rewrite (longest_kw_zero_head _ (0 :: r) Hz eq_refl). unfold parse_keyword. cbn [cur hd]. rewrite Hl. reflexivity.
    + pose proof (gen_kw_match_longest (c :: r) H0) as H1. pose proof (longest_kw_spec doc_keywords (c :: r)) as H2.
      destruct (parse_keyword g_kw_tree (c :: r)) as [[n ty]|]; destruct (longest_kw doc_keywords (c :: r)) as [[n' ty']|].
      * destruct (longest_keyword_unique _ _ _ _ _ _ Hf H1 H2). subst. reflexivity.
      * destruct H1 as [w [Hw1 [Hw2 _]]]. rewrite (H2 _ _ Hw1) in Hw2. discriminate.
      * destruct H2 as [w [Hw1 [Hw2 _]]]. rewrite (H1 _ _ Hw1) in Hw2. discriminate.
      * reflexivity.
Qed.

(* the lexer only depends on the keyword recogniser through its values *)
Section Ext.
  Variables k1 k2 : list Z -> option (Z * Z).
  Hypothesis Hk : forall s, k1 s = k2 s.

  Lemma ident_stop_ext : forall r, ident_stop k1 r = ident_stop k2 r.
  Proof. intro r. unfold ident_stop. rewrite Hk. reflexivity. Qed.

  Lemma ident_loop_ext : forall r start pos lit, ident_loop k1 start r pos lit = ident_loop k2 start r pos lit.
  Proof.
    induction r as [|c r IH]; intros; cbn [ident_loop]; rewrite ident_stop_ext; [reflexivity|].
    destruct (ident_stop k2 (c :: r)); [reflexivity|]. destruct (is_id_body c); [apply IH | reflexivity].
  Qed.

  Lemma next_token_ext : forall r pos, next_token k1 r pos = next_token k2 r pos.
  Proof.
    intros r pos. unfold next_token. destruct (skip_ws r pos) as [rest p].
    destruct (_ || _); [reflexivity|]. destruct (_ =? _); [reflexivity|]. destruct (special_token rest p); [reflexivity|].
    unfold generic_token. destruct (mem (cur rest) g_markPunctuations); [reflexivity|].
    destruct (if mem (cur rest) g_markOperators then parse_operators rest p else None); [reflexivity|].
    rewrite Hk. destruct (k2 rest) as [[wl ty]|]; [reflexivity|].
    unfold parse_identifier. destruct (negb _); [reflexivity|]. apply ident_loop_ext.
  Qed.

  Lemma tokens_ext : forall fuel r pos, tokens k1 fuel r pos = tokens k2 fuel r pos.
  Proof.
    induction fuel as [|f IH]; intros r pos; [reflexivity|]. cbn [tokens]. rewrite next_token_ext.
    destruct (next_token k2 r pos); try reflexivity. rewrite IH. reflexivity.
  Qed.

  Lemma lex_ext : forall s, lex k1 s = lex k2 s.
  Proof. intro s. unfold lex. destruct (mem _ _); [reflexivity|]. apply tokens_ext. Qed.
End Ext.

From Zn.model Require Import TokDoc.

(* whole-stream statement: the lexer with the regenerated parseKeyword tree IS the lexer that cuts, at every position,
   the longest keyword of the manual's table *)
Theorem lex_impl_is_lex_doc : forall s, lex_impl s = lex_doc s.
Proof. intro s. unfold lex_impl, lex_doc, gkw. apply lex_ext. exact gen_kw_is_longest_kw. Qed.
