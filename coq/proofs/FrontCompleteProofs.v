(* C03 - every tree the parser model returns is complete (induction over the fuel of [parse], one case per production). *)
From Coq Require Import List ZArith Bool Lia.
Import ListNotations.
From Zn.gen Require Import GenFrontTokens.
From Zn.model Require Import LexerTok Lexer Ast Parser.
Open Scope Z_scope.

(* ------------------------------------------------------------------ inversion of the monad *)
Lemma bind_ok : forall A B (m : M A) (f : A -> M B) st b st',
  bind m f st = Ok b st' -> exists a st1, m st = Ok a st1 /\ f a st1 = Ok b st'.
Proof. intros A B m f st b st' H. unfold bind in H. destruct (m st) eqn:E; try discriminate. eauto. Qed.

Lemma ret_ok : forall A (a b : A) st st', ret a st = Ok b st' -> b = a /\ st' = st.
Proof. intros. unfold ret in H. inversion H. auto. Qed.

Lemma fail_peek_ok : forall A c st (b : A) st', fail_peek c st = Ok b st' -> False.
Proof. intros. discriminate. Qed.
Lemma fail_curr_ok : forall A c st (b : A) st', fail_curr c st = Ok b st' -> False.
Proof. intros. discriminate. Qed.

Ltac bd H := let a := fresh "a" in let s := fresh "s" in let H1 := fresh "B" in
             apply bind_ok in H; destruct H as (a & s & H1 & H).
Ltac rt H := apply ret_ok in H; destruct H as [? ?]; subst.

(* ------------------------------------------------------------------ the invariant *)
Definition cexprs (l : list expr) : Prop := forallb complete_expr l = true.
Definition cstmts (l : list stmt) : Prop := forallb complete_stmt l = true.
Definition ccalls (l : list call) : Prop := forallb complete_call l = true.
Definition ckv (l : list (expr * expr)) : Prop := forallb (fun p => complete_expr (fst p) && complete_expr (snd p)) l = true.
Definition cpairs (l : list vdpair) : Prop := forallb (fun p : vdpair => complete_expr (snd p)) l = true.
Definition ccatches (l : list (lit * list stmt)) : Prop := forallb (fun c : lit * list stmt => forallb complete_stmt (snd c)) l = true.
Definition cprops (l : list (lit * expr)) : Prop := forallb (fun p : lit * expr => complete_expr (snd p)) l = true.
Definition cfuncs (l : list (lit * Z * execblock)) : Prop := forallb (fun m : lit * Z * execblock => complete_exec (snd m)) l = true.

Definition pre (n : nt) : Prop :=
  match n with
  | NLv1Tail _ el | NLv2Tail _ el | NLv3Tail _ el | NArithTail el | NMulDivTail el | NMemberTail el => complete_expr el = true
  | NArrayItems acc | NExprList acc => cexprs acc
  | NMapItems acc => ckv acc
  | NChain acc => ccalls acc
  | NVDBlock _ acc => cpairs acc
  | NBranch _ hs ifE ifB oE oB =>
      (hs = 0 \/ exists e b, ifE = Some e /\ ifB = Some b /\ complete_expr e = true /\ cstmts b)
      /\ cexprs oE /\ forallb (forallb complete_stmt) oB = true /\ length oE = length oB
  | NBlock _ acc => cstmts acc
  | NExec _ _ _ ss cs => cstmts ss /\ ccatches cs
  | NClassItems _ ps ms gs => cprops ps /\ cfuncs ms /\ cfuncs gs
  | NProgram _ _ _ x => match x with Some e => complete_exec e = true | None => True end
  | _ => True
  end.

Definition post (n : nt) : ty n -> Prop :=
  match n as n0 return ty n0 -> Prop with
  | NExpr _ | NLv1Tail _ _ | NLv2 _ | NLv2Tail _ _ | NLv3 _ | NLv3Tail _ _ | NLv4 _ | NArith | NArithTail _ | NMulDiv | NMulDivTail _
  | NMember | NMemberTail _ | NBasic | NArray | NArrayItems _ | NMapItems _ | NMethodCall | NObjNew =>
      fun e => complete_expr e = true
  | NFuncCall _ => fun c => complete_call c = true
  | NExprList _ => fun l => cexprs l
  | NChain acc => fun l => ccalls l /\ (length acc <= length l)%nat
  | NStmt | NVarDecl | NBranch _ _ _ _ _ _ | NWhile | NVarOne | NIterRest _ | NThrow | NClass => fun s => complete_stmt s = true
  | NVDPair => fun p => complete_expr (snd p) = true
  | NIdList _ => fun _ => True
  | NVDBlock _ _ => fun l => cpairs l
  | NBlock _ _ => fun l => cstmts l
  | NFuncBlock => fun r => complete_exec (snd r) = true
  | NExec _ _ _ _ _ => fun x => complete_exec x = true
  | NCatch => fun r => cstmts (snd r)
  | NImport => fun _ => True
  | NClassItems _ _ _ _ => fun r => cprops (fst (fst r)) /\ cfuncs (snd (fst r)) /\ cfuncs (snd r)
  | NProgram _ _ _ _ => fun p => complete p = true
  end.

Lemma forallb_snoc : forall A (f : A -> bool) l x, forallb f l = true -> f x = true -> forallb f (l ++ [x]) = true.
Proof. intros. rewrite forallb_app. cbn. rewrite H, H0. reflexivity. Qed.

Ltac tt_ := repeat match goal with
                   | H : ?a && ?b = true |- _ => apply andb_true_iff in H; destruct H
                   | |- ?a && ?b = true => apply andb_true_iff; split
                   end.

Section Main.
Variable f : nat.
Hypothesis IH : forall n st x st', pre n -> parse f n st = Ok x st' -> post n x.

Ltac done_ := cbn [complete_expr complete_call complete_stmt complete_exec]; unfold cexprs, ccalls, ckv, cpairs, cstmts, ccatches, cprops, cfuncs in *;
              cbn [forallb fst snd] in *;
              repeat match goal with H : _ = true |- _ => rewrite H end; try reflexivity; auto.
Ltac fin := try solve [auto | done_ | apply forallb_snoc; auto; done_ | split; auto; done_].
Ltac ih H := match type of H with
             | parse _ ?n ?s = Ok ?x ?s' => apply (IH n s x s') in H; [cbn [post] in H | cbn [pre]; fin]
             end.

Lemma step_case : forall n st x st', pre n -> parse (S f) n st = Ok x st' -> post n x.
Proof.
  intros n st x st' P H. destruct n; cbn [parse] in H; cbn [pre] in P; cbn [post].
  - (* NExpr *) bd H. ih B. ih H; fin.
  - (* NLv1Tail *) bd H. destruct a as [tk|]; [|rt H; auto]. bd H. ih B0. ih H; fin.
  - (* NLv2 *) bd H. ih B. ih H; fin.
  - (* NLv2Tail *) bd H. destruct a as [tk|]; [|rt H; auto]. bd H. ih B0. ih H; fin.
  - (* NLv3 *) bd H. ih B. ih H; fin.
  - (* NLv3Tail *) bd H. destruct a as [tk|]; [|rt H; auto]. bd H. ih B0. ih H; fin.
  - (* NLv4 *) bd H. ih B. bd H. destruct a0 as [tk|]; [|rt H; auto].
    destruct (assignable a); [|discriminate]. bd H. rt H. ih B1; fin.
  - (* NArith *) bd H. ih B. ih H; fin.
  - (* NArithTail *) bd H. destruct a as [tk|]; [|rt H; auto]. bd H. ih B0. ih H; fin.
  - (* NMulDiv *) bd H. ih B. ih H; fin.
  - (* NMulDivTail *) bd H. destruct a as [tk|]; [|rt H; auto]. bd H. ih B0. ih H; fin.
  - (* NMember *) bd H. destruct a as [tk|].
    + bd H. destruct a as [tk2|]; [|discriminate]. ih H; fin.
    + bd H. ih B0. ih H; fin.
  - (* NMemberTail *) bd H. destruct a as [tk|]; [|rt H; auto].
    destruct (t_ty tk =? g_TypeMapHash).
    + bd H. destruct a as [tk2|]; [|discriminate].
      destruct (t_ty tk2 =? g_TypeIdentifier); [ih H; fin|].
      destruct (t_ty tk2 =? g_TypeString); [ih H; fin|].
      bd H. ih B1. bd H. ih H; fin.
    + bd H. destruct a as [tk2|]; [|discriminate]. ih H; fin.
  - (* NBasic *) bd H. destruct a as [tk|]; [|discriminate].
    cbv zeta in H.
    destruct (t_ty tk =? g_TypeIdentifier); [rt H; reflexivity|].
    destruct (t_ty tk =? g_TypeString); [rt H; reflexivity|].
    destruct (t_ty tk =? g_TypeArrayQuoteL); [ih H; fin|].
    destruct (t_ty tk =? g_TypeStmtQuoteL).
    { bd H. ih B0. bd H. rt H. auto. }
    destruct (t_ty tk =? g_TypeFuncQuoteL).
    { bd H. destruct a as [tk2|]; [ih H; fin|]. bd H. rt H. ih B1; fin. }
    ih H; fin.
  - (* NArray *) bd H. destruct a as [tk|].
    + destruct (t_ty tk =? g_TypeArrayQuoteR); [rt H; reflexivity|]. bd H. rt H. reflexivity.
    + bd H. ih B0. bd H. destruct a0 as [tk|].
      * destruct (t_ty tk =? g_TypeArrayQuoteR); [rt H; done_|].
        bd H. ih B2. bd H. ih H; fin.
      * ih H; fin.
  - (* NArrayItems *) bd H. ih B. bd H. destruct a0 as [tk|].
    + rt H. cbn. apply forallb_snoc; auto.
    + ih H; fin.
  - (* NMapItems *) bd H. destruct a as [tk|].
    + rt H. cbn. exact P.
    + bd H. ih B0. bd H. bd H. ih B2. bd H. ih H; fin.
  - (* NFuncCall *) bd H. bd H. bd H.
    assert (Hps : cexprs a1).
    { destruct a0 as [tk|]; [ih B1; auto|]. rt B1. reflexivity. }
    bd H. destruct y.
    + bd H. destruct a3 as [tk|].
      * bd H. rt H. cbn. exact Hps.
      * rt H. cbn. exact Hps.
    + rt H. cbn. exact Hps.
  - (* NExprList *) bd H. ih B. bd H. destruct a0 as [tk|].
    + ih H; fin.
    + rt H. apply forallb_snoc; auto.
  - (* NMethodCall *) bd H. ih B. bd H. bd H. ih B1. bd H. ih B2.
    destruct B2 as [C1 C2]. unfold ccalls in C1.
    assert (G : forall y, complete_expr (EMethod a a2 y) = true).
    { intro y0. destruct a2; [cbn in C2; lia|]. cbn. rewrite B. cbn in C1. rewrite C1. reflexivity. }
    bd H. destruct a3 as [tk|].
    + bd H. rt H. apply G.
    + rt H. apply G.
  - (* NChain *) bd H. destruct a as [tk|].
    + bd H. bd H. ih B1. ih H.
      destruct H as [H1 H2]. split; auto. rewrite app_length in H2. cbn in H2. lia.
    + rt H. split; auto.
  - (* NObjNew *) bd H. bd H. destruct a0 as [tk|].
    + bd H. ih B1. bd H. rt H. cbn. exact B1.
    + bd H. rt H. reflexivity.
  - (* NStmt *) bd H. bd H. destruct a0 as [tk|].
    + cbv zeta in H. destruct (t_ty tk =? g_TypeStmtSep); [rt H; reflexivity|].
      bd H. bd H. rt H.
      destruct (t_ty tk =? g_TypeDeclareW); [ih B1; fin|].
      destruct (t_ty tk =? g_TypeCondW).
      { bd B1. ih B1; auto. all: cbn; repeat split; auto. }
      destruct (t_ty tk =? g_TypeFuncW).
      { bd B1. bd B1. rt B1. ih B4. cbn. exact B4. }
      destruct (t_ty tk =? g_TypeReturnW).
      { bd B1. rt B1. ih B3. cbn. exact B3. }
      destruct (t_ty tk =? g_TypeWhileLoopW); [ih B1; fin|].
      destruct (t_ty tk =? g_TypeVarOneW); [ih B1; fin|].
      destruct (t_ty tk =? g_TypeIteratorW); [ih B1; fin|].
      destruct (t_ty tk =? g_TypeObjDefineW); [ih B1; fin|].
      destruct (t_ty tk =? g_TypeThrowErrorW); [ih B1; fin|].
      destruct (t_ty tk =? g_TypeBreakW); [rt B1; reflexivity|].
      rt B1; reflexivity.
    + bd H. ih B1. bd H. rt H. cbn. exact B1.
  - (* NVarDecl *) bd H. destruct a as [tk|].
    + bd H. bd H. destruct a0 as [ind|]; [|discriminate]. bd H. rt H. ih B2. cbn. exact B2.
    + bd H. rt H. ih B0. cbn. rewrite B0. reflexivity.
  - (* NVDPair *) bd H. bd H. destruct a0 as [tk|]; [|discriminate]. bd H. rt H. ih B1. cbn. exact B1.
  - (* NIdList *) exact I.
  - (* NVDBlock *) destruct (block_goes_on ind st).
    + bd H. bd H. bd H. destruct a1 as [tk|]; [ih H; fin|].
      bd H. ih B2. bd H. ih H; fin.
    + injection H as Hx Hs. rewrite <- Hx. exact P.
  - (* NBranch *)
    destruct P as (P1 & P2 & P3 & P4).
    assert (Done : hs <> 0 -> forall eb hasE, (match eb with Some b => cstmts b | None => hasE = false end) ->
                   complete_stmt (SBranch ifE ifB eb otherE otherB hasE) = true).
    { intros Hn eb hasE Heb. destruct P1 as [P1|(e & b & E1 & E2 & E3 & E4)]; [contradiction|]. subst ifE ifB.
      cbn. rewrite E3. unfold cstmts in E4. rewrite E4. unfold cexprs in P2. rewrite P2, P3, P4, Nat.eqb_refl.
      destruct eb as [b0|]; [unfold cstmts in Heb; rewrite Heb; reflexivity|]. subst hasE. reflexivity. }
    destruct (hs =? 0) eqn:E0.
    + apply Z.eqb_eq in E0. subst hs. cbn [orb] in H.
      change (1 =? 2) with false in H. change (1 =? 1) with true in H. cbv iota in H.
      bd H. bd B. rt B. ih B0. bd H. bd H. destruct a1 as [ind|]; [|discriminate]. bd H. ih B2.
      ih H; auto. cbn. split; [right; exists a0, a1; auto|auto].
    + apply Z.eqb_neq in E0. cbn [orb] in H.
      destruct (negb (peek_ty st =? g_TypeEOF)); [|rt H; apply Done; auto].
      destruct (negb (peek_indent st =? main)); [rt H; apply Done; auto|].
      bd H. bd H. destruct a0 as [tk|]; [|bd H; rt H; apply Done; auto].
      destruct (t_ty tk =? g_TypeCondOtherW).
      * change (3 =? 2) with false in H. change (3 =? 1) with false in H. change (3 =? 3) with true in H. cbv iota in H.
        bd H. bd B1. rt B1. ih B2. bd H. bd H. destruct a2 as [ind|]; [|discriminate]. bd H. ih B4.
        ih H; auto. cbn. split; [right|split; [apply forallb_snoc; auto|split; [apply forallb_snoc; auto|]]].
        -- destruct P1 as [P1|P1]; [contradiction|exact P1].
        -- rewrite !app_length. cbn. lia.
      * change (2 =? 2) with true in H. change (2 =? 1) with false in H. change (2 =? 3) with false in H. cbv iota in H.
        bd H. rt B1. bd H. bd H. destruct a1 as [ind|]; [|discriminate]. bd H. ih B3. rt H.
        apply Done; auto.
  - (* NWhile *) bd H. ih B. bd H. bd H. bd H. destruct a2 as [ind|]; [|discriminate]. bd H. rt H. ih B3.
    cbn. rewrite B. exact B3.
  - (* NBlock *) destruct (block_goes_on ind st).
    + bd H. bd H. ih B0. ih H; fin.
    + injection H as Hx Hs. rewrite <- Hx. exact P.
  - (* NFuncBlock *) bd H. bd H. bd H. bd H. destruct a2 as [ind|]; [|discriminate]. bd H. rt H. ih B3.
    cbn. exact B3.
  - (* NExec *) destruct P as [P1 P2]. destruct (block_goes_on ind st).
    + bd H. destruct (hs =? 1).
      * bd H. destruct a0 as [tk|]; [bd H; ih H; fin|ih H; fin].
      * destruct (hs =? 2).
        -- bd H. bd H. destruct a1 as [tk|].
           ++ bd H. ih B2. ih H; fin. split; auto. apply forallb_snoc; auto.
           ++ bd H. ih B2. ih H; fin. split; auto. apply forallb_snoc; auto.
        -- bd H. bd H. destruct a1 as [tk|]; [|discriminate].
           bd H. ih B2. ih H; fin. split; auto. apply forallb_snoc; auto.
    + destruct ((hs =? 2) || (hs =? 3)); [|discriminate].
      injection H as Hx Hs. rewrite <- Hx. cbn. unfold cstmts in P1. unfold ccatches in P2. rewrite P1, P2. reflexivity.
  - (* NCatch *) bd H. bd H. bd H. bd H. destruct a2 as [ind|]; [|discriminate]. bd H. rt H. ih B3. cbn. exact B3.
  - (* NVarOne *) bd H. ih B. bd H. destruct a0 as [tk|].
    + destruct (t_ty tk =? g_TypeIteratorW).
      * destruct a; try discriminate. ih H; fin.
      * bd H. ih B1. bd H. ih B2.
        destruct B2 as [C1 C2]. unfold ccalls in C1.
        assert (G : forall y, complete_stmt (SExpr (EMethod a a1 y)) = true).
        { intro y0. destruct a1; [cbn in C2; lia|]. cbn. rewrite B. cbn in C1. rewrite C1. reflexivity. }
        bd H. destruct a2 as [tk2|].
        -- bd H. rt H. apply G.
        -- rt H. apply G.
    + bd H. bd H. bd H. destruct a2 as [tk|]; [|discriminate].
      destruct a; try discriminate. destruct a1; try discriminate. ih H; fin.
  - (* NIterRest *) bd H. ih B. bd H. bd H. bd H. destruct a2 as [ind|]; [|discriminate]. bd H. rt H. ih B3.
    cbn. rewrite B. exact B3.
  - (* NThrow *) bd H. bd H. bd H. ih B1. bd H. rt H. cbn. exact B1.
  - (* NImport *) exact I.
  - (* NClass *) bd H. bd H. bd H. bd H. destruct a2 as [ind|]; [|discriminate]. bd H. rt H. ih B3.
    destruct B3 as (C1 & C2 & C3). cbn. unfold cprops in C1. unfold cfuncs in C2, C3. rewrite C1, C2, C3. reflexivity.
  - (* NClassItems *) destruct P as (P1 & P2 & P3). destruct (block_goes_on ind st).
    + bd H. bd H. bd H. destruct a1 as [tk|]; [|discriminate].
      destruct (t_ty tk =? g_TypeFuncW).
      * bd H. ih B2. ih H; fin. split; [auto|split; [apply forallb_snoc; auto|auto]].
      * destruct (t_ty tk =? g_TypeGetterW).
        -- bd H. ih B2. ih H; fin. split; [auto|split; [auto|apply forallb_snoc; auto]].
        -- bd H. bd H. bd H. ih B4. ih H; fin. split; [apply forallb_snoc; auto|split; auto].
    + injection H as Hx Hs. rewrite <- Hx. cbn. auto.
  - (* NProgram *) destruct (block_goes_on ind st).
    + bd H. bd H. destruct (hs =? 1).
      * bd H. destruct a1 as [tk|]; [bd H; ih H; fin|ih H; fin].
      * bd H. ih B1. ih H; fin.
    + injection H as Hx Hs. rewrite <- Hx. unfold complete. cbn. destruct x0; auto.
Qed.
End Main.

Theorem parse_complete : forall fuel n st x st', pre n -> parse fuel n st = Ok x st' -> post n x.
Proof.
  induction fuel as [|f IH]; intros n st x st' P H; [discriminate|].
  eapply step_case; eauto.
Qed.

Theorem compile_complete : forall fuel src p ls it, compile fuel src = OTree p ls it -> complete p = true.
Proof.
  intros fuel src p ls it H. unfold compile in H.
  destruct (lex_init src) as [u l0| | |]; try discriminate.
  match type of H with context [match ?m with Ok _ _ => _ | _ => _ end] => destruct m as [pg st| | |] eqn:E end; try discriminate.
  destruct (negb (peek_ty st =? g_TypeEOF)); [discriminate|]. inversion H; subst.
  bd E. apply (parse_complete fuel (NProgram (peek_indent s) 1 [] None) s p st) in E; [exact E|exact I].
Qed.
