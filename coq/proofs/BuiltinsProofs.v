(* C10 — proofs about model/Builtins.v (the Repaired variant never reaches OCrash; the Pinned variant does). *)
From Coq Require Import List ZArith Bool String Ascii Lia.
From Flocq Require Import IEEE754.BinarySingleNaN IEEE754.Binary IEEE754.Bits.
From Zn.gen Require Import GenC10Members.
From Zn.model Require Import Builtins.
Import ListNotations.
Open Scope Z_scope.
Open Scope list_scope.

Opaque fadd fsub fmul fdiv fsqrt ffloor fceil num_of_Z go_int feq0 fle0 fis_finite fone fzero.

(* ------------------------------------------------------------------ inventory *)
Lemma inventory_covered_ok : inventory_covered = true.
Proof. vm_compute. reflexivity. Qed.

(* ------------------------------------------------------------------ validators never panic (repaired) *)
Lemma validate_one_no_crash : forall v t w, validate_one Repaired v t <> VCrash w.
Proof.
  intros v t w. unfold validate_one.
  destruct (String.prefix golang_prefix t).
  - destruct v; try discriminate;
      repeat match goal with |- context[if ?c then _ else _] => destruct c end; discriminate.
  - destruct (ty_ok t v); discriminate.
Qed.

Lemma validate_all_no_crash : forall vs t w, validate_all Repaired vs t <> VCrash w.
Proof.
  induction vs as [|v vs IH]; intros t w; cbn [validate_all]; [discriminate|].
  destruct (validate_one Repaired v t) eqn:E; [apply IH | discriminate | exfalso; exact (validate_one_no_crash _ _ _ E)].
Qed.

Lemma validate_each_no_crash : forall vs ts w, validate_each Repaired vs ts <> VCrash w.
Proof.
  induction vs as [|v vs IH]; intros ts w; destruct ts as [|t ts]; cbn [validate_each]; try discriminate.
  destruct (validate_one Repaired v t) eqn:E; [apply IH | discriminate | exfalso; exact (validate_one_no_crash _ _ _ E)].
Qed.

Lemma validate_exact_no_crash : forall vs ts w, validate_exact Repaired vs ts <> VCrash w.
Proof.
  intros vs ts w. unfold validate_exact. destruct (Nat.eqb _ _); [apply validate_each_no_crash | discriminate].
Qed.

Lemma validate_least_from_no_crash : forall ts idx vs w, validate_least_from Repaired idx vs ts <> VCrash w.
Proof.
  induction ts as [|t ts IH]; intros idx vs w; cbn [validate_least_from]; [discriminate|].
  destruct (split_wildcard t) as [name wc]. destruct wc.
  - destruct (nth_error vs idx) eqn:En; [|discriminate].
    destruct (validate_one Repaired v t) eqn:E; [apply IH | discriminate | exfalso; exact (validate_one_no_crash _ _ _ E)].
  - apply validate_all_no_crash.
  - destruct (Nat.ltb _ _); [discriminate | apply validate_all_no_crash].
  - destruct (Nat.eqb idx (List.length vs)); [discriminate|].
    destruct (Nat.eqb (S idx) (List.length vs)) eqn:El; [|discriminate].
    apply Nat.eqb_eq in El.
    destruct (nth_error vs idx) eqn:En.
    + destruct (validate_one Repaired v name) eqn:E; [apply IH | discriminate | exfalso; exact (validate_one_no_crash _ _ _ E)].
    + apply nth_error_None in En. lia.
Qed.

Lemma run_validators_no_crash : forall sg ri args w, run_validators Repaired ri args sg <> VCrash w.
Proof.
  induction sg as [|e sg IH]; intros ri args w; cbn [run_validators]; [discriminate|].
  destruct (run_validator Repaired ri args e) eqn:E; [apply IH | discriminate |].
  exfalso. destruct e as [[k onr] ts]. unfold run_validator in E. destruct k.
  - exact (validate_exact_no_crash _ _ _ E).
  - exact (validate_least_from_no_crash _ _ _ _ E).
  - exact (validate_all_no_crash _ _ _ E).
Qed.

(* ------------------------------------------------------------------ index arithmetic, for ALL integers *)
Lemma zlen_nonneg : forall A (l: list A), 0 <= zlen l.
Proof. intros. unfold zlen. lia. Qed.

Lemma go_slice_some : forall A (l: list A) lo hi, 0 <= lo -> lo <= hi -> hi <= zlen l -> exists r, go_slice l lo hi = Some r.
Proof.
  intros A l lo hi H1 H2 H3. unfold go_slice.
  destruct (Z.leb_spec 0 lo); [|lia]. destruct (Z.leb_spec lo hi); [|lia]. destruct (Z.leb_spec hi (zlen l)); [|lia].
  cbn. eauto.
Qed.

Lemma go_index_some : forall A (l: list A) i, 0 <= i -> i < zlen l -> exists x, go_index l i = Some x /\ In x l.
Proof.
  intros A l i H1 H2. unfold go_index.
  destruct (Z.leb_spec 0 i); [|lia]. destruct (Z.ltb_spec i (zlen l)); [|lia]. cbn.
  destruct (nth_error l (Z.to_nat i)) eqn:E.
  - eexists; split; eauto. eapply nth_error_In; eauto.
  - apply nth_error_None in E. unfold zlen in *. lia.
Qed.

(* insertArrayValue never slices out of range, whatever the position *)
Theorem insert_total : forall target idx item, exists r, insert_array_value Repaired target idx item = Some r.
Proof.
  intros target idx item. unfold insert_array_value.
  destruct (Z.leb_spec (zlen target) idx); [eauto|].
  pose proof (zlen_nonneg _ target) as Hl.
  set (idx1 := if idx <? 0 then zlen target + idx else idx).
  set (idx2 := if (idx <? 0) && (idx1 <? 0) then 0 else idx1).
  assert (Hb: 0 <= idx2 <= zlen target).
  { unfold idx2, idx1. destruct (Z.ltb_spec idx 0); cbn [andb].
    - destruct (Z.ltb_spec (zlen target + idx) 0); lia.
    - lia. }
  destruct (go_slice_some _ target 0 idx2) as [a Ha]; try lia.
  destruct (go_slice_some _ target idx2 (zlen target)) as [b Hb']; try lia.
  rewrite Ha, Hb'. eauto.
Qed.

Theorem array_swap_no_crash : forall xs f0 f1 w, fst (array_swap xs f0 f1) <> OCrash w.
Proof.
  intros xs f0 f1 w. unfold array_swap.
  set (c0 := swap_cursor f0). set (c1 := swap_cursor f1).
  destruct (Z.ltb_spec c0 0); cbn [orb]; [discriminate|].
  destruct (Z.leb_spec (zlen xs) c0); [discriminate|].
  destruct (Z.ltb_spec c1 0); cbn [orb]; [discriminate|].
  destruct (Z.leb_spec (zlen xs) c1); [discriminate|].
  destruct (go_index_some _ xs c0) as [a [Ha _]]; try lia.
  destruct (go_index_some _ xs c1) as [b [Hb _]]; try lia.
  rewrite Ha, Hb. discriminate.
Qed.

Theorem str_slice_no_crash : forall ss f0 f1 w, str_slice ss f0 f1 <> OCrash w.
Proof.
  intros sb f0 f1 w. unfold str_slice. set (ss := go_runes sb).
  set (n := zlen ss). set (s0 := go_int f0). set (e0 := go_int f1).
  set (s1 := if s0 <? 0 then n + s0 + 1 else s0).
  destruct (Z.ltb_spec s1 1); [discriminate|].
  destruct (Z.ltb_spec n e0); [discriminate|].
  set (e1 := if e0 <? 0 then n + e0 + 1 else e0).
  destruct (Z.ltb_spec e1 s1); [discriminate|].
  assert (He: e1 <= n). { unfold e1. destruct (Z.ltb_spec e0 0); lia. }
  destruct (go_slice_some _ ss (s1 - 1) e1) as [r Hr]; try lia.
  fold n in Hr. unfold n in *. rewrite Hr. discriminate.
Qed.

Lemma wrap64_range : forall z, - 2 ^ 63 <= wrap64 z < 2 ^ 63.
Proof. intros z. unfold wrap64. pose proof (Z.mod_pos_bound (z + 2 ^ 63) (2 ^ 64)). lia. Qed.

Theorem iv_array_get_no_crash : forall xs i w, iv_array_get xs i <> OCrash w.
Proof.
  intros xs i w. unfold iv_array_get. set (r := wrap64 (i - 1)).
  destruct (Z.ltb_spec r 0); cbn [orb]; [discriminate|].
  destruct (Z.leb_spec (zlen xs) r); [discriminate|].
  destruct (go_index_some _ xs r) as [a [Ha _]]; try lia. rewrite Ha. discriminate.
Qed.

Theorem iv_array_set_no_crash : forall xs i v w, fst (iv_array_set xs i v) <> OCrash w.
Proof.
  intros xs i v w. unfold iv_array_set. set (r := wrap64 (i - 1)).
  destruct (Z.ltb_spec r 0); cbn [orb]; [discriminate|].
  destruct (Z.leb_spec (zlen xs) r); [discriminate|].
  destruct (go_index_some _ xs r) as [a [Ha _]]; try lia. rewrite Ha. discriminate.
Qed.

Theorem iv_dict_get_no_crash : forall d k w, iv_dict_get d k <> OCrash w.
Proof. intros d k w. unfold iv_dict_get. destruct (dict_get d k); discriminate. Qed.

(* ------------------------------------------------------------------ nil-freedom is preserved *)
Definition wf (v: val) : Prop := no_nil v = true.
Definition wfs (vs: list val) : Prop := forallb no_nil vs = true.

Lemma wfs_In : forall vs v, wfs vs -> In v vs -> wf v.
Proof. intros vs v H Hin. unfold wfs in H. rewrite forallb_forall in H. apply H; auto. Qed.

Lemma wfs_of_In : forall vs, (forall v, In v vs -> wf v) -> wfs vs.
Proof. intros vs H. unfold wfs. rewrite forallb_forall. exact H. Qed.

Lemma wfs_app : forall a b, wfs a -> wfs b -> wfs (a ++ b).
Proof. intros a b Ha Hb. unfold wfs in *. rewrite forallb_app, Ha, Hb. reflexivity. Qed.

Lemma wfs_cons : forall a b, wf a -> wfs b -> wfs (a :: b).
Proof. intros a b Ha Hb. unfold wfs, wf in *. cbn. rewrite Ha, Hb. reflexivity. Qed.

Lemma wfs_inv : forall a b, wfs (a :: b) -> wf a /\ wfs b.
Proof. intros a b H. unfold wfs, wf in *. cbn in H. apply andb_true_iff in H. exact H. Qed.

Lemma wf_list : forall xs, wf (VList xs) <-> wfs xs.
Proof. intros xs. unfold wf, wfs. cbn. tauto. Qed.

Lemma In_firstn' : forall A n (l: list A) x, In x (firstn n l) -> In x l.
Proof. intros A n l x H. rewrite <- (firstn_skipn n l). apply in_or_app. left. exact H. Qed.

Lemma wfs_firstn : forall n xs, wfs xs -> wfs (firstn n xs).
Proof. intros n xs H. apply wfs_of_In. intros v Hin. eapply wfs_In; eauto. eapply In_firstn'; eauto. Qed.

Lemma In_skipn : forall A n (l: list A) x, In x (skipn n l) -> In x l.
Proof. intros A n l x H. rewrite <- (firstn_skipn n l). apply in_or_app. right. exact H. Qed.

Lemma wfs_skipn : forall n xs, wfs xs -> wfs (skipn n xs).
Proof. intros n xs H. apply wfs_of_In. intros v Hin. eapply wfs_In; eauto. eapply In_skipn; eauto. Qed.

Lemma go_slice_wfs : forall xs lo hi r, wfs xs -> go_slice xs lo hi = Some r -> wfs r.
Proof.
  intros xs lo hi r H E. unfold go_slice in E. destruct (_ && _); [|discriminate]. inversion E; subst.
  apply wfs_firstn. apply wfs_skipn. exact H.
Qed.

Lemma insert_wfs : forall vr xs idx x r, wfs xs -> wf x -> insert_array_value vr xs idx x = Some r -> wfs r.
Proof.
  intros vr xs idx x r Hxs Hx E. unfold insert_array_value in E.
  destruct (zlen xs <=? idx).
  - inversion E; subst. apply wfs_app; auto. apply wfs_cons; auto. reflexivity.
  - match type of E with match ?a with _ => _ end = _ => destruct a eqn:Ea; [|discriminate] end.
    match type of E with match ?a with _ => _ end = _ => destruct a eqn:Eb; [|discriminate] end.
    inversion E; subst. apply wfs_app; [eapply go_slice_wfs; eauto|]. apply wfs_cons; auto. eapply go_slice_wfs; eauto.
Qed.

Lemma wf_hd : forall xs, wfs xs -> wf (hd VNull xs).
Proof. intros [|x xs] H; [reflexivity|]. apply wfs_inv in H. tauto. Qed.

Lemma wf_last : forall xs, wfs xs -> wf (last xs VNull).
Proof.
  intros xs H. destruct xs as [|x xs]; [reflexivity|].
  eapply wfs_In; eauto. destruct (exists_last (l := x :: xs) ltac:(discriminate)) as [l' [a Ea]]. rewrite Ea. rewrite last_last. apply in_or_app. right. left. reflexivity.
Qed.

Lemma wfs_removelast : forall xs, wfs xs -> wfs (removelast xs).
Proof.
  intros xs H. apply wfs_of_In. intros v Hin. eapply wfs_In; eauto.
  destruct xs as [|x xs]; [inversion Hin|].
  destruct (exists_last (l := x :: xs) ltac:(discriminate)) as [l' [a Ea]].
  rewrite Ea in *. rewrite removelast_last in Hin. apply in_or_app. left. exact Hin.
Qed.

Lemma wfs_rev : forall xs, wfs xs -> wfs (rev xs).
Proof. intros xs H. apply wfs_of_In. intros v Hin. eapply wfs_In; eauto. apply in_rev. exact Hin. Qed.

Lemma wfs_set_nth : forall xs n x, wfs xs -> wf x -> wfs (set_nth xs n x).
Proof.
  induction xs as [|a xs IH]; intros n x H Hx; cbn [set_nth]; [reflexivity|].
  apply wfs_inv in H. destruct H as [Ha Hxs]. destruct n; apply wfs_cons; auto.
Qed.

Lemma go_index_wf : forall xs i v, wfs xs -> go_index xs i = Some v -> wf v.
Proof.
  intros xs i v H E. unfold go_index in E. destruct (_ && _); [|discriminate].
  eapply wfs_In; eauto. eapply nth_error_In; eauto.
Qed.

Lemma all_lists_concat_wfs : forall args ls, wfs args -> all_lists args = Some ls -> wfs (List.concat ls).
Proof.
  induction args as [|a args IH]; intros ls H E; cbn [all_lists] in E.
  - inversion E; subst. reflexivity.
  - destruct a; try discriminate. destruct (all_lists args) eqn:Ea; [|discriminate]. inversion E; subst.
    apply wfs_inv in H. destruct H as [Ha Hargs]. cbn [List.concat]. apply wfs_app; [apply wf_list; exact Ha | apply IH; auto].
Qed.

Definition wfd (d: list (bytes * val)) : Prop := forallb (fun kv => no_nil (snd kv)) d = true.

Lemma wf_dict : forall d, wf (VDict d) <-> wfd d.
Proof. intros d. unfold wf, wfd. cbn. tauto. Qed.

Lemma dict_get_wf : forall d k v, wfd d -> dict_get d k = Some v -> wf v.
Proof.
  induction d as [|[k' v'] d IH]; intros k v H E; cbn [dict_get] in E; [discriminate|].
  unfold wfd in H. cbn in H. apply andb_true_iff in H. destruct H as [Hv Hd].
  destruct (bytes_eqb k k'); [inversion E; subst; exact Hv | eapply IH; eauto].
Qed.

Lemma dict_set_wfd : forall d k v, wfd d -> wf v -> wfd (dict_set d k v).
Proof.
  induction d as [|[k' v'] d IH]; intros k v H Hv; cbn [dict_set].
  - unfold wfd. cbn. rewrite Hv. reflexivity.
  - unfold wfd in H. cbn in H. apply andb_true_iff in H. destruct H as [Hv' Hd].
    destruct (bytes_eqb k k'); unfold wfd; cbn.
    + rewrite Hv. exact Hd.
    + rewrite Hv'. apply IH; auto.
Qed.

Lemma dict_remove_wfd : forall d k, wfd d -> wfd (dict_remove d k).
Proof.
  induction d as [|[k' v'] d IH]; intros k H; cbn [dict_remove]; [reflexivity|].
  unfold wfd in H. cbn in H. apply andb_true_iff in H. destruct H as [Hv' Hd].
  destruct (bytes_eqb k k'); [exact Hd|]. unfold wfd. cbn. rewrite Hv'. apply IH; auto.
Qed.

Lemma hm_get_chain_wf : forall ks cur, wf cur -> wf (hm_get_chain cur ks).
Proof.
  induction ks as [|k ks IH]; intros cur H; cbn [hm_get_chain]; [exact H|].
  destruct cur; try reflexivity. destruct (dict_get kvs k) eqn:E; [|reflexivity].
  apply IH. eapply dict_get_wf; [apply wf_dict; exact H | exact E].
Qed.

Lemma wfs_map_snd : forall d, wfd d -> wfs (map snd d).
Proof.
  induction d as [|[k v] d IH]; intros H; [reflexivity|].
  unfold wfd in H. cbn in H. apply andb_true_iff in H. destruct H as [Hv Hd].
  cbn [map snd]. apply wfs_cons; [exact Hv | apply IH; exact Hd].
Qed.

Lemma wfs_map_keys : forall (d: list (bytes * val)), wfs (map (fun kv => VStr (fst kv)) d).
Proof. induction d as [|kv d IH]; [reflexivity|]. cbn [map]. apply wfs_cons; [reflexivity | exact IH]. Qed.

(* ------------------------------------------------------------------ validated arguments have the validated shape *)
Lemma validate_one_number : forall v, validate_one Repaired v "number" = VOk -> exists f, v = VNum f.
Proof. intros v H. destruct v; vm_compute in H; try discriminate. eauto. Qed.
Lemma validate_one_string : forall v, validate_one Repaired v "string" = VOk -> exists s, v = VStr s.
Proof. intros v H. destruct v; vm_compute in H; try discriminate. eauto. Qed.
Lemma validate_one_array : forall v, validate_one Repaired v "array" = VOk -> exists s, v = VList s.
Proof. intros v H. destruct v; vm_compute in H; try discriminate. eauto. Qed.
Lemma validate_one_hashmap : forall v, validate_one Repaired v "hashmap" = VOk -> exists s, v = VDict s.
Proof. intros v H. destruct v; vm_compute in H; try discriminate. eauto. Qed.

Lemma validate_all_strs : forall vs, validate_all Repaired vs "string" = VOk -> exists l, all_strs vs = Some l.
Proof.
  induction vs as [|v vs IH]; intros H; cbn [validate_all all_strs] in *; [eauto|].
  destruct (validate_one Repaired v "string") eqn:E; try discriminate.
  apply validate_one_string in E. destruct E as [s ->]. destruct (IH H) as [l ->]. eauto.
Qed.
Lemma validate_all_nums : forall vs, validate_all Repaired vs "number" = VOk -> exists l, all_nums vs = Some l.
Proof.
  induction vs as [|v vs IH]; intros H; cbn [validate_all all_nums] in *; [eauto|].
  destruct (validate_one Repaired v "number") eqn:E; try discriminate.
  apply validate_one_number in E. destruct E as [s ->]. destruct (IH H) as [l ->]. eauto.
Qed.
Lemma validate_all_lists : forall vs, validate_all Repaired vs "array" = VOk -> exists l, all_lists vs = Some l.
Proof.
  induction vs as [|v vs IH]; intros H; cbn [validate_all all_lists] in *; [eauto|].
  destruct (validate_one Repaired v "array") eqn:E; try discriminate.
  apply validate_one_array in E. destruct E as [s ->]. destruct (IH H) as [l ->]. eauto.
Qed.

Lemma validate_exact_1 : forall args t, validate_exact Repaired args [t] = VOk ->
  exists a, args = [a] /\ validate_one Repaired a t = VOk.
Proof.
  intros args t H. unfold validate_exact in H. destruct args as [|a [|b r]]; cbn in H; try discriminate.
  exists a. split; auto. destruct (validate_one Repaired a t); auto; discriminate.
Qed.
Lemma validate_exact_2 : forall args t0 t1, validate_exact Repaired args [t0; t1] = VOk ->
  exists a b, args = [a; b] /\ validate_one Repaired a t0 = VOk /\ validate_one Repaired b t1 = VOk.
Proof.
  intros args t0 t1 H. unfold validate_exact in H. destruct args as [|a [|b [|c r]]]; cbn in H; try discriminate.
  exists a, b. split; auto.
  destruct (validate_one Repaired a t0); try discriminate. destruct (validate_one Repaired b t1); try discriminate. auto.
Qed.

(* ------------------------------------------------------------------ every clause is crash-free after validation *)
Definition good (r: result) : Prop :=
  (forall w, fst r <> OCrash w) /\ (forall v, fst r = OVal v -> wf v) /\ (forall rv, snd r = Some rv -> wf rv).

Lemma good_keep : forall o recv, (forall w, o <> OCrash w) -> (forall v, o = OVal v -> wf v) -> wf recv -> good (keep o recv).
Proof. intros o recv H1 H2 H3. unfold good, keep. cbn. repeat split; auto. intros rv E. inversion E; subst; auto. Qed.

Definition value_receiver (rname: string) : bool :=
  existsb (String.eqb rname) ["Array"; "HashMap"; "String"; "Number"; "Bool"; "Null"; "Object"; "Function"; "ClassModel"; "Exception"; "GoValue"; "nil"]%string.

Definition recv_matches (rname: string) (recv: val) : Prop :=
  if value_receiver rname then recv_name recv = rname else True.

Definition sig_of (k: key3) : list sig_entry :=
  match lookup_sig k GenC10Members.signatures with Some s => s | None => [] end.

Definition clause_ok (c: key3 * body) : Prop :=
  forall recv args, recv_matches (fst (fst (fst c))) recv -> wf recv -> wfs args ->
    run_validators Repaired (recv_items recv) args (sig_of (fst c)) = VOk -> good (snd c Repaired recv args).

Ltac sig_compute H :=
  match type of H with
  | run_validators _ _ _ (sig_of ?k) = _ => let sg := eval vm_compute in (sig_of k) in change (sig_of k) with sg in H
  end.

Ltac inv_validators H :=
  cbn [run_validators run_validator] in H;
  repeat match type of H with
  | match ?e with _ => _ end = VOk => let E := fresh "Ev" in destruct e eqn:E; try discriminate H
  end.

Ltac use_exact :=
  repeat match goal with
  | E: validate_exact Repaired _ [_] = VOk |- _ => apply validate_exact_1 in E; destruct E as [? [? E]]; subst
  | E: validate_exact Repaired _ [_; _] = VOk |- _ => apply validate_exact_2 in E; destruct E as [? [? [? [E ?]]]]; subst
  | E: validate_one Repaired _ "number" = VOk |- _ => apply validate_one_number in E; destruct E as [? ?]; subst
  | E: validate_one Repaired _ "string" = VOk |- _ => apply validate_one_string in E; destruct E as [? ?]; subst
  | E: validate_one Repaired _ "array" = VOk |- _ => apply validate_one_array in E; destruct E as [? ?]; subst
  | E: validate_one Repaired _ "hashmap" = VOk |- _ => apply validate_one_hashmap in E; destruct E as [? ?]; subst
  end.

Ltac recv_is H :=
  match type of H with
  | recv_matches _ ?recv => vm_compute in H;
      match type of H with
      | _ = _ => destruct recv; try discriminate H
      | _ => idtac
      end
  end.

Ltac split_good := unfold good, keep; cbn [fst snd]; repeat split; intros; try discriminate.

Ltac wf_tac0 :=
  repeat match goal with
  | H: wf (VList ?l) |- _ => change (wfs l) in H
  | H: wf (VDict ?l) |- _ => change (wfd l) in H
  | H: wfs (_ :: _) |- _ => apply wfs_inv in H; destruct H
  | H: Some _ = Some _ |- _ => inversion H; subst; clear H
  | H: OVal _ = OVal _ |- _ => inversion H; subst; clear H
  end.

Ltac to_wfs := match goal with |- wf (VList ?l) => change (wfs l) | |- wf (VDict ?l) => change (wfd l) end.
Ltac wf_tac := wf_tac0; auto; try reflexivity; try (to_wfs; auto; fail).

Ltac G := split_good; wf_tac.
Ltac kill_ev Ev := try discriminate Ev; repeat (match type of Ev with context[match ?x with _ => _ end] => is_var x; destruct x end; try discriminate Ev).

Lemma shift_wf : forall xs b, wfs xs -> wf (fst (shift_array_value xs b)) /\ wfs (snd (shift_array_value xs b)).
Proof.
  intros xs b H. unfold shift_array_value. destruct xs as [|a xs']; [split; reflexivity|].
  destruct b; cbn [fst snd].
  - apply wfs_inv in H. exact H.
  - split; [apply wf_last; exact H | apply wfs_removelast; exact H].
Qed.

Lemma swap_good : forall xs f0 f1, wfs xs -> good (let (o, xs') := array_swap xs f0 f1 in (o, Some (VList xs'))).
Proof.
  intros xs f0 f1 Hwf. pose proof (array_swap_no_crash xs f0 f1) as Hc. unfold array_swap in *.
  repeat match goal with |- context[if ?c then _ else _] => destruct c end; cbn [fst snd] in *; try (G; fail).
  destruct (go_index xs (swap_cursor f0)) eqn:E0; destruct (go_index xs (swap_cursor f1)) eqn:E1; cbn [fst snd] in *;
    try (exfalso; eapply Hc; reflexivity).
  assert (wfs (set_nth (set_nth xs (Z.to_nat (swap_cursor f0)) v0) (Z.to_nat (swap_cursor f1)) v)).
  { apply wfs_set_nth; [apply wfs_set_nth|]; auto; eapply go_index_wf; eauto. }
  G.
Qed.

Lemma slice_good : forall s f0 f1, good (keep (str_slice s f0 f1) (VStr s)).
Proof.
  intros s f0 f1. pose proof (str_slice_no_crash s f0 f1) as Hc. G; try (eapply Hc; eauto; fail).
  match goal with H1: str_slice _ _ _ = OVal _ |- _ => unfold str_slice in H1;
      repeat match type of H1 with context[if ?c then _ else _] => destruct c end; try discriminate;
      try (inversion H1; reflexivity); destruct (go_slice _ _ _); inversion H1; reflexivity end.
Qed.

Lemma clause_insert : forall vr xs idx x, vr = Repaired -> wfs xs -> wf x -> good (list_result (insert_array_value vr xs idx x)).
Proof.
  intros vr xs idx x -> Hxs Hx. destruct (insert_total xs idx x) as [r Hr]. rewrite Hr. unfold list_result.
  pose proof (insert_wfs _ _ _ _ _ Hxs Hx Hr) as Hw. split_good; wf_tac.
Qed.

Lemma good_opaque : forall ty vr recv args, wf recv -> good (opaque ty vr recv args).
Proof. intros. unfold opaque. split_good. wf_tac. Qed.

Lemma clauses_ok : Forall clause_ok clauses.
Proof.
  unfold clauses.
  repeat (apply Forall_cons; [
    intros recv args Hm Hwf Hargs Hval; cbn [fst snd] in *; sig_compute Hval; inv_validators Hval; use_exact;
    try (recv_is Hm); cbn [recv_items] in *;
    try (apply good_opaque; assumption);
    cbn [b_array b_dict b_str b_num with_present with_num with_str with_dict nth_error arg nth keep];
    wf_tac0 | ]); try apply Forall_nil.
  (* Array *)
  - unfold display_of. cbn [no_nil]. unfold wfs in Hwf. rewrite Hwf. G.
  - G. apply wf_hd; auto.
  - G. apply wf_last; auto.
  - G.
  - G.
  - G. to_wfs; auto using wfs_rev.
  - assert (wf (hd VNull args)) by (apply wf_hd; auto).
    G. to_wfs. destruct xs; wf_tac0; apply wfs_cons; auto; reflexivity.
  - assert (wf (hd VNull args)) by (apply wf_hd; auto).
    G. to_wfs. destruct xs; [apply wfs_cons; auto; reflexivity|].
    apply wfs_app; [apply wfs_removelast; auto | apply wfs_cons; auto; reflexivity].
  - apply clause_insert; auto.
  - apply clause_insert; auto.
  - apply clause_insert; auto.
  - apply clause_insert; auto.
  - pose proof (shift_wf xs true Hwf) as [Hs1 Hs2]. destruct (shift_array_value xs true) as [v r]. cbn [fst snd] in *. G.
  - pose proof (shift_wf xs false Hwf) as [Hs1 Hs2]. destruct (shift_array_value xs false) as [v r]. cbn [fst snd] in *. G.
  - apply validate_all_strs in Ev. destruct Ev as [l ->]. G.
  - apply validate_all_lists in Ev. destruct Ev as [l El]. rewrite El.
    assert (wfs (xs ++ List.concat l)) by (apply wfs_app; auto; eapply all_lists_concat_wfs; eauto).
    G.
  - apply swap_good; auto.
  (* HashMap *)
  - G.
  - G.
  - G. to_wfs; apply wfs_map_keys.
  - G. to_wfs; apply wfs_map_snd; auto.
  - unfold validate_least in Ev. cbn in Ev.
    apply validate_all_strs in Ev. destruct Ev as [l ->].
    G. apply hm_get_chain_wf; change (wfd kvs); auto.
  - G. to_wfs. apply dict_set_wfd; auto.
  - match goal with |- context[dict_get ?d ?k] => destruct (dict_get d k) eqn:Eg end; G.
    + eapply dict_get_wf; eauto.
    + to_wfs. apply dict_remove_wfd; auto.
  (* String *)
  - G.
  - G.
  - G.
  - G.
  - G.
  - G.
  - apply slice_good.
  - apply validate_all_strs in Ev. destruct Ev as [l ->]. G.
  - apply validate_all_strs in Ev. destruct Ev as [l ->]. G.
  - G.
  (* Number *)
  - G.
  - G.
  - destruct (fle0 f); G.
  - apply validate_all_nums in Ev. destruct Ev as [l ->]. G.
  - apply validate_all_nums in Ev. destruct Ev as [l ->]. G.
  - apply validate_all_nums in Ev. destruct Ev as [l ->]. G.
  - apply validate_all_nums in Ev. destruct Ev as [l ->].
    assert (Hd: forall acc, (forall w, num_div_all acc l <> OCrash w) /\ (forall v, num_div_all acc l = OVal v -> wf v)).
    { induction l as [|d l IH]; intros acc; cbn [num_div_all].
      - split; [discriminate|]. intros v E. inversion E. reflexivity.
      - destruct (feq0 d); [split; discriminate | apply IH]. }
    destruct (Hd f) as [H1 H2]. G; eauto.
  - G.
  - G.
  - G.
  - G.
  - G.
  (* Bool, Exception, Object *)
  - G.
  - G.
  - G.
  (* class:异常 *)
  - G.
  (* class:HTTP请求 *)
  - unfold validate_least in Ev. cbn in Ev.
    destruct args as [|a0 [|a1 [|a2 [|a3 r]]]]; cbn in Ev; kill_ev Ev; cbn [with_present nth_error List.length Nat.eqb keep].
    + G.
    + match goal with |- context[json_ok ?a] => destruct a; try (destruct (json_ok _)) end; G.
  (* class:HTTP响应 *)
  - unfold validate_least in Ev. cbn in Ev.
    destruct args as [|a0 [|a1 [|a2 [|a3 r]]]]; cbn in Ev; kill_ev Ev; cbn [with_present nth_error keep];
    match goal with |- context[json_ok ?a] => destruct a; try (destruct (json_ok _)) end; G.
  (* libraries *)
  - destruct (json_ok _); G.
  - G.
  - G.
  - G.
  - G.
  (* globals *)
  - G.
  - G.
  - G.
  - G.
  - G.
  - unfold wfs in Hargs. rewrite Hargs. G.
Qed.

(* ------------------------------------------------------------------ the member table as a whole *)
Lemma key3_eqb_eq : forall a b, key3_eqb a b = true -> a = b.
Proof.
  intros [[a1 a2] a3] [[b1 b2] b3] H. unfold key3_eqb in H.
  apply andb_true_iff in H. destruct H as [H H3]. apply andb_true_iff in H. destruct H as [H1 H2].
  apply String.eqb_eq in H1, H2, H3. subst. reflexivity.
Qed.

Lemma lookup_clause_In : forall k tbl b, lookup_clause k tbl = Some b -> In (k, b) tbl.
Proof.
  induction tbl as [|[k' b'] tbl IH]; intros b H; cbn [lookup_clause] in H; [discriminate|].
  destruct (key3_eqb k k') eqn:E.
  - apply key3_eqb_eq in E. inversion H; subst. left. reflexivity.
  - right. apply IH. exact H.
Qed.

(* Whatever member (modelled name or not), receiver, arity and argument values: the repaired built-ins return a
   value or a Zn error — never a Go panic, never a nil value, and the receiver stays nil-free. *)
Theorem builtins_never_crash :
  forall rname recv kind name args r,
    recv_matches rname recv -> wf recv -> wfs args ->
    exec Repaired rname recv kind name args = Some r -> good r.
Proof.
  intros rname recv kind name args r Hm Hwf Hargs H. unfold exec in H.
  destruct (lookup_clause (rname, kind, name) clauses) as [b|] eqn:El.
  - apply lookup_clause_In in El.
    pose proof (proj1 (Forall_forall clause_ok clauses) clauses_ok _ El) as Hok.
    unfold clause_ok in Hok. cbn [fst snd] in Hok. specialize (Hok recv args Hm Hwf Hargs). unfold sig_of in Hok.
    destruct (run_validators Repaired (recv_items recv) args
               match lookup_sig (rname, kind, name) signatures with Some s => s | None => [] end) eqn:Ev.
    + inversion H; subst. apply Hok. reflexivity.
    + inversion H; subst. split_good. inversion H0; subst; auto.
    + exfalso. exact (run_validators_no_crash _ _ _ _ Ev).
  - destruct (in_keys _ differential_only); [discriminate|].
    destruct (in_keys _ members); [discriminate|].
    inversion H; subst. unfold not_found. destruct (String.eqb kind "method"); split_good; inversion H0; subst; auto.
Qed.

(* ------------------------------------------------------------------ VM accessors *)
Lemma vm_step_total : forall s op, exists c s', vm_step Repaired s op = Some (c, s') /\ 0 <= c.
Proof.
  intros s op. destruct op; cbn [vm_step]; destruct (frames s) as [|b fr] eqn:Ef; try destruct b; destruct (native_scope s);
    try (eexists; eexists; split; [reflexivity | try lia; apply zlen_nonneg]).
Qed.

Theorem vm_never_crash : forall ops s, ~ In (-1) (vm_run Repaired s ops).
Proof.
  induction ops as [|op ops IH]; intros s Hin; cbn [vm_run] in Hin; [exact Hin|].
  destruct (vm_step_total s op) as [c [s' [E Hc]]]. rewrite E in Hin. destruct Hin as [Hc' | Hin]; [lia | exact (IH _ Hin)].
Qed.

(* ------------------------------------------------------------------ the pinned code does crash (witnesses) *)
Definition l123 : val := VList [N 4607182418800017408; N 4611686018427387904; N 4613937818241073152].   (* 【1，2，3】 *)
Definition n9 : val := N 4621256167635550208.          (* 9 *)
Definition nm10 : val := N 13845191100492316672.       (* -10 *)

(* results are compared through their integer encodings: a normal form of a Flocq value carries proof terms *)
Example pinned_insert_refuted :
  enc_result (exec Pinned "Array" l123 "method" "新增" [n9; nm10]) = [[9]; [-1]].
Proof. vm_compute. reflexivity. Qed.

Example repaired_insert_witness :
  run_case "Array" l123 "method" "新增" [n9; nm10]
  = [[3; 4; 4; 2; 4621256167635550208; 2; 4607182418800017408; 2; 4611686018427387904; 2; 4613937818241073152];
     [4; 4; 2; 4621256167635550208; 2; 4607182418800017408; 2; 4611686018427387904; 2; 4613937818241073152]].
Proof. vm_compute. reflexivity. Qed.

Example pinned_least_params_refuted :
  exists w, validate_least Pinned [] ["string"; "string"; "any?"]%string = VCrash w.
Proof. eexists. vm_compute. reflexivity. Qed.

Example pinned_golang_cast_refuted :
  exists w, validate_exact Pinned [VNull] ["golang:x"]%string = VCrash w.
Proof. eexists. vm_compute. reflexivity. Qed.

Example pinned_write_file_nil :
  exec Pinned "lib:@文件" VFunc "libfn" "写入文件" [VStr [97]; VStr [98]] = Some (OVal VNil, Some VFunc).
Proof. vm_compute. reflexivity. Qed.

Example pinned_vm_no_frame_refuted : vm_run Pinned vm_init [VThis] = [-1] /\ vm_run Pinned vm_init [VFind] = [-1].
Proof. split; reflexivity. Qed.
