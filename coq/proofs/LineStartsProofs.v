(* C05 / C18 - the table of line starts recorded by the lexer model against the physical lines of the text
   (Lines.phys_starts: CR, LF, CRLF and LFCR each end one line).
   Invariant of the lexer state:  phys_starts src = starts recorded so far ++ starts_from None cursor (text not yet read)
   and every recorded start is <= cursor, i.e. the lexer never cuts a CRLF / LFCR pair in two and records every break.
   (Since repair 7640347 the backtick escape machine of string literals stops before a line break -
   StringLitProofs.unescape_no_break - so no hypothesis on the text is needed any more.) *)
From Coq Require Import List ZArith Bool Lia.
Import ListNotations.
From Zn.gen Require Import GenFrontTokens.
From Zn.model Require Import LexerTok Lexer Ast Parser.
From Zn.model Require StringLit Lines.
From Zn.proofs Require StringLitProofs LinesProofs.
From Zn.proofs Require Import FrontLexProofs.
From Zn.proofs Require Import CursorBoundProofs.
Open Scope Z_scope.

Notation sf := Lines.starts_from.

(* ------------------------------------------------------------------ steps of starts_from *)
Lemma brk_eq : forall c, Lines.is_break c = is_break c.
Proof. intro c. unfold Lines.is_break, is_break, g_RuneCR, g_RuneLF. apply orb_comm. Qed.

Lemma sf_nb : forall c p r, is_break c = false -> sf None p (c :: r) = sf None (p + 1) r.
Proof. intros c p r H. cbn [Lines.starts_from]. rewrite brk_eq, H. reflexivity. Qed.

Lemma sf_pending : forall c p r, is_break c = true -> is_pair c (curc r) = false ->
  sf (Some c) p r = p :: sf None p r.
Proof.
  intros c p r Hc Hp. destruct r as [|c2 r]; [reflexivity|].
  cbn [Lines.starts_from]. rewrite brk_eq. cbn [curc hd] in Hp.
  destruct (is_break c2) eqn:B2; [|reflexivity].
  destruct (c2 =? c) eqn:E; [reflexivity|]. exfalso.
  unfold is_pair, is_break, g_RuneCR, g_RuneLF in *.
  destruct (Z.eqb_spec c 13), (Z.eqb_spec c 10), (Z.eqb_spec c2 13), (Z.eqb_spec c2 10); subst;
    cbn in *; try discriminate; try lia.
Qed.

Lemma sf_b1 : forall c p r, is_break c = true -> is_pair c (curc r) = false ->
  sf None p (c :: r) = (p + 1) :: sf None (p + 1) r.
Proof. intros c p r Hc Hp. cbn [Lines.starts_from]. rewrite brk_eq, Hc. apply sf_pending; assumption. Qed.

Lemma sf_b2 : forall c c2 p r, is_pair c c2 = true -> sf None p (c :: c2 :: r) = (p + 2) :: sf None (p + 2) r.
Proof.
  intros c c2 p r Hp. cbn [Lines.starts_from]. rewrite !brk_eq.
  replace (p + 2) with (p + 1 + 1) by lia.
  unfold is_pair, is_break, g_RuneCR, g_RuneLF in *.
  destruct (Z.eqb_spec c 13), (Z.eqb_spec c 10), (Z.eqb_spec c2 13), (Z.eqb_spec c2 10); subst;
    cbn in *; try discriminate; try lia; reflexivity.
Qed.

(* ------------------------------------------------------------------ advancing over the text *)
(* from (p, r) to (p', r'): r' is what is left of r, p' the cursor there, [new] the line starts crossed *)
Definition adv (p : Z) (r : list Z) (p' : Z) (r' : list Z) (new : list Z) : Prop :=
  (exists used, r = used ++ r' /\ p' = p + zlen used) /\ sf None p r = new ++ sf None p' r' /\
  Forall (fun x => x <= p') new.

Lemma adv_refl : forall p r, adv p r p r [].
Proof. intros p r. split; [exists []; cbn; split; [reflexivity|lia]|split; [reflexivity|constructor]]. Qed.

Lemma adv_trans : forall p r p1 r1 n1 p2 r2 n2, adv p r p1 r1 n1 -> adv p1 r1 p2 r2 n2 -> adv p r p2 r2 (n1 ++ n2).
Proof.
  intros p r p1 r1 n1 p2 r2 n2 [(u1 & A1 & B1) [C1 D1]] [(u2 & A2 & B2) [C2 D2]]. split; [|split].
  - exists (u1 ++ u2). rewrite <- app_assoc, <- A2, <- A1. split; [reflexivity|]. rewrite app_length. lia.
  - rewrite C1, C2, app_assoc. reflexivity.
  - apply Forall_app. split; [|exact D2]. eapply Forall_impl; [|exact D1]. cbn beta. intros x Hx. lia.
Qed.

Lemma adv_trans0 : forall p r p1 r1 p2 r2 n2, adv p r p1 r1 [] -> adv p1 r1 p2 r2 n2 -> adv p r p2 r2 n2.
Proof. intros. change n2 with ([] ++ n2). eapply adv_trans; eauto. Qed.

Lemma adv_trans1 : forall p r p1 r1 n1 p2 r2, adv p r p1 r1 n1 -> adv p1 r1 p2 r2 [] -> adv p r p2 r2 n1.
Proof. intros. rewrite <- (app_nil_r n1). eapply adv_trans; eauto. Qed.

Lemma adv_eq : forall p r p' r' n p'' n'', adv p r p' r' n -> p' = p'' -> n = n'' -> adv p r p'' r' n''.
Proof. intros. subst. assumption. Qed.

Lemma adv_nb1 : forall c p r, is_break c = false -> adv p (c :: r) (p + 1) r [].
Proof.
  intros c p r H. split; [exists [c]; cbn; split; [reflexivity|lia]|]. split; [|constructor]. cbn [app]. apply sf_nb. exact H.
Qed.

Lemma adv_b1 : forall c p r, is_break c = true -> is_pair c (curc r) = false -> adv p (c :: r) (p + 1) r [p + 1].
Proof.
  intros c p r H1 H2. split; [exists [c]; cbn; split; [reflexivity|lia]|].
  split; [|constructor; [lia|constructor]]. cbn [app]. apply sf_b1; assumption.
Qed.

Lemma adv_b2 : forall c c2 p r, is_pair c c2 = true -> adv p (c :: c2 :: r) (p + 2) r [p + 2].
Proof.
  intros c c2 p r H. split; [exists [c; c2]; cbn; split; [reflexivity|lia]|].
  split; [|constructor; [lia|constructor]]. cbn [app]. apply sf_b2. exact H.
Qed.

Lemma adv_nb : forall used p r, Forall (fun c => is_break c = false) used -> adv p (used ++ r) (p + zlen used) r [].
Proof.
  induction used as [|c used IH]; intros p r H.
  - cbn [app length]. eapply adv_eq; [apply adv_refl|cbn; lia|reflexivity].
  - inversion H; subst. cbn [app]. eapply adv_trans0; [apply adv_nb1; assumption|].
    eapply adv_eq; [apply IH; assumption|cbn [length]; lia|reflexivity].
Qed.

Lemma adv_suffix : forall p r p' r' n, adv p r p' r' n -> exists used, r = used ++ r'.
Proof. intros p r p' r' n [(u & A & B) _]. exists u. exact A. Qed.

Lemma adv_pos : forall p r p' r' n, adv p r p' r' n -> p' + zlen r' = p + zlen r.
Proof. intros p r p' r' n [(u & A & B) _]. subst. rewrite app_length. lia. Qed.

Lemma adv_le : forall p r p' r' n, adv p r p' r' n -> p <= p'.
Proof. intros p r p' r' n [(u & A & B) _]. lia. Qed.

(* characters that are not line breaks *)
Lemma ws_nb : forall c, is_ws c = true -> is_break c = false.
Proof.
  intros c H. unfold is_break, g_RuneCR, g_RuneLF.
  destruct (Z.eqb_spec c 13); [subst; vm_compute in H; discriminate|].
  destruct (Z.eqb_spec c 10); [subst; vm_compute in H; discriminate|]. reflexivity.
Qed.
Lemma indent_nb : forall c, is_indent_char c = true -> is_break c = false.
Proof.
  intros c H. unfold is_break, g_RuneCR, g_RuneLF.
  destruct (Z.eqb_spec c 13); [subst; vm_compute in H; discriminate|].
  destruct (Z.eqb_spec c 10); [subst; vm_compute in H; discriminate|]. reflexivity.
Qed.
Lemma idbody_nb : forall c, is_id_body c = true -> is_break c = false.
Proof.
  intros c H. unfold is_break, g_RuneCR, g_RuneLF.
  destruct (Z.eqb_spec c 13); [subst; vm_compute in H; discriminate|].
  destruct (Z.eqb_spec c 10); [subst; vm_compute in H; discriminate|]. reflexivity.
Qed.
Lemma idchar_nb : forall c, is_id_char c = true -> is_break c = false.
Proof. intros c H. apply idbody_nb. unfold is_id_body. rewrite H. reflexivity. Qed.
Lemma digit_nb : forall c, is_pure_number c = true -> is_break c = false.
Proof.
  intros c H. unfold is_break, g_RuneCR, g_RuneLF.
  destruct (Z.eqb_spec c 13); [subst; vm_compute in H; discriminate|].
  destruct (Z.eqb_spec c 10); [subst; vm_compute in H; discriminate|]. reflexivity.
Qed.
Lemma mem_nb : forall c l, mem c l = true -> mem g_RuneCR l = false -> mem g_RuneLF l = false -> is_break c = false.
Proof.
  intros c l H A B. unfold is_break.
  destruct (Z.eqb_spec c g_RuneCR); [subst; congruence|].
  destruct (Z.eqb_spec c g_RuneLF); [subst; congruence|]. reflexivity.
Qed.
Lemma eqb_nb : forall c k, (c =? k) = true -> is_break k = false -> is_break c = false.
Proof. intros c k H B. apply Z.eqb_eq in H. subst. exact B. Qed.

(* ------------------------------------------------------------------ white space, indentation, lines *)
Lemma skip_ws_adv : forall r p r' p', skip_ws r p = (r', p') -> adv p r p' r' [].
Proof.
  induction r as [|c r IH]; intros p r' p' H; cbn [skip_ws] in H.
  - inversion H; subst. apply adv_refl.
  - destruct (is_ws c) eqn:W.
    + eapply adv_trans0; [apply adv_nb1; apply ws_nb; exact W|]. apply IH. exact H.
    + inversion H; subst. apply adv_refl.
Qed.

Lemma run_same_adv : forall ch r p c r' p' c', is_break ch = false -> run_same ch r p c = (r', p', c') ->
  adv (p + 1) r p' r' [].
Proof.
  intros ch. induction r as [|x r IH]; intros p c r' p' c' B H; cbn [run_same] in H.
  - inversion H; subst. apply adv_refl.
  - destruct (x =? ch) eqn:E.
    + eapply adv_trans0; [apply adv_nb1; eapply eqb_nb; eauto|]. eapply IH; eauto.
    + inversion H; subst. apply adv_refl.
Qed.

Definition starts (st : lstate) : list Z := map l_start (lines st).
Definition sadv (st st' : lstate) : Prop :=
  exists new, adv (pos st) (rest st) (pos st') (rest st') new /\ starts st' = starts st ++ new.

Lemma sadv_refl : forall st, sadv st st.
Proof. intro st. exists []. split; [apply adv_refl|rewrite app_nil_r; reflexivity]. Qed.
Lemma sadv_trans : forall a b c, sadv a b -> sadv b c -> sadv a c.
Proof.
  intros a b c (n1 & A1 & B1) (n2 & A2 & B2). exists (n1 ++ n2). split; [eapply adv_trans; eauto|].
  rewrite B2, B1, app_assoc. reflexivity.
Qed.
Lemma sadv_same : forall st st', pos st' = pos st -> rest st' = rest st -> starts st' = starts st -> sadv st st'.
Proof.
  intros st st' A B C. exists []. rewrite A, B, C, app_nil_r. split; [apply adv_refl|reflexivity].
Qed.
Lemma sadv_adv0 : forall st p' r', adv (pos st) (rest st) p' r' [] -> sadv st (set_pos_rest st p' r').
Proof. intros st p' r' H. exists []. cbn [set_pos_rest pos rest]. split; [exact H|]. unfold starts. cbn. rewrite app_nil_r. reflexivity. Qed.

Lemma count_indent_sadv : forall st st' c, count_indent st = (st', c) -> sadv st st'.
Proof.
  intros st st' c H. unfold count_indent in H. destruct (rest st) as [|x r] eqn:E.
  - inversion H; subst. apply sadv_refl.
  - destruct (is_indent_char (curc (x :: r))) eqn:IC.
    + destruct (run_same (curc (x :: r)) r (pos st) 1) as [[r' p'] c'] eqn:R.
      inversion H; subst. apply sadv_adv0. rewrite E. cbn [curc hd] in *.
      eapply adv_trans0; [apply adv_nb1; apply indent_nb; exact IC|].
      eapply run_same_adv; [apply indent_nb; exact IC|exact R].
    + inversion H; subst. apply sadv_refl.
Qed.

Lemma set_indent_type_same : forall count ch st n st', set_indent_type count ch st = LOk n st' ->
  pos st' = pos st /\ rest st' = rest st /\ lines st' = lines st.
Proof.
  intros count ch st n st' H. unfold set_indent_type in H.
  repeat match type of H with (if ?b then _ else _) = _ => destruct b end; inversion H; subst; auto.
Qed.

Lemma starts_set_last_indent : forall n ls, map l_start (set_last_indent n ls) = map l_start ls.
Proof.
  intros n. induction ls as [|l ls IH]; [reflexivity|].
  destruct ls as [|l2 ls]; [reflexivity|].
  change (set_last_indent n (l :: l2 :: ls)) with (l :: set_last_indent n (l2 :: ls)).
  cbn [map] in *. rewrite IH. reflexivity.
Qed.

Lemma is_pair_eof : forall c, is_pair c EOFc = false.
Proof.
  intro c. unfold is_pair. change (EOFc =? g_RuneLF) with false. change (EOFc =? g_RuneCR) with false.
  rewrite !andb_false_r. reflexivity.
Qed.

Lemma parse_line_sadv : forall fuel st u st', is_break (curc (rest st)) = true ->
  parse_line fuel st = LOk u st' -> sadv st st'.
Proof.
  induction fuel as [|f IH]; intros st u st' Hb H; [discriminate|].
  cbn [parse_line] in H.
  pose proof (break_nonempty _ Hb) as Hne.
  set (st1 := nextc st) in *.
  set (st2 := if is_pair (curc (rest st)) (curc (rest st1)) then nextc st1 else st1) in *.
  destruct (negb (line_text_ok st (pos st))); [discriminate|].
  set (st3 := set_lines st2 (lines st2 ++ [mkLine 0 (pos st2)])) in *.
  assert (A3 : sadv st st3).
  { exists [pos st2]. split.
    - subst st3. cbn [set_lines pos rest]. subst st2 st1.
      destruct (rest st) as [|x r] eqn:E; [congruence|]. cbn [curc hd] in *.
      destruct (is_pair x (curc (rest (nextc st)))) eqn:PR.
      + unfold nextc in *. cbn [set_pos_rest pos rest] in *. rewrite E in *. cbn [tl] in *.
        destruct r as [|c2 r2]; [rewrite is_pair_eof in PR; discriminate|]. cbn [curc hd tl] in *.
        eapply adv_eq; [apply adv_b2; exact PR|lia|f_equal; lia].
      + unfold nextc in *. cbn [set_pos_rest pos rest] in *. rewrite E in *. cbn [tl] in *.
        apply adv_b1; assumption.
    - subst st3. unfold starts. cbn [set_lines lines]. rewrite map_app. cbn [map l_start].
      subst st2 st1. destruct (is_pair _ _); reflexivity. }
  destruct (count_indent st3) as [st4 count] eqn:CI. apply count_indent_sadv in CI.
  destruct (set_indent_type count (curc (rest st2)) st4) as [n st5| | |] eqn:SI; try discriminate.
  apply set_indent_type_same in SI. destruct SI as (S1 & S2 & S3).
  set (st6 := set_lines st5 (set_last_indent n (lines st5))) in *.
  assert (A6 : sadv st st6).
  { eapply sadv_trans; [exact A3|]. eapply sadv_trans; [exact CI|].
    apply sadv_same; subst st6; cbn [set_lines pos rest]; auto.
    unfold starts. cbn [set_lines lines]. rewrite starts_set_last_indent, S3. reflexivity. }
  destruct (is_break (curc (rest st6))) eqn:B6.
  - eapply sadv_trans; [exact A6|]. eapply IH; eauto.
  - inversion H; subst. exact A6.
Qed.

Lemma pre_next_token_sadv : forall fuel st u st', pre_next_token fuel st = LOk u st' -> sadv st st'.
Proof.
  induction fuel as [|f IH]; intros st u st' H; [discriminate|].
  cbn [pre_next_token] in H. destruct (rest st) as [|x r] eqn:E.
  - inversion H; subst. apply sadv_refl.
  - rewrite <- E in H. destruct (is_ws (curc (rest st))).
    + destruct (skip_ws (rest st) (pos st)) as [r' p'] eqn:S. apply skip_ws_adv in S.
      eapply sadv_trans; [apply sadv_adv0; exact S|]. eapply IH; eauto.
    + destruct (is_break (curc (rest st))) eqn:B.
      * destruct (parse_line (S (len st)) st) as [u1 st1| | |] eqn:PL; try discriminate.
        apply parse_line_sadv in PL; [|exact B]. eapply sadv_trans; [exact PL|]. eapply IH; eauto.
      * inversion H; subst. apply sadv_refl.
Qed.

(* ------------------------------------------------------------------ comments *)
Lemma scan_comment_adv_aux : forall n r p cty q ls e r' ls', (length r <= n)%nat ->
  scan_comment r p cty q ls = (e, r', ls') ->
  exists new, adv p r e r' new /\ map l_start ls' = map l_start ls ++ new.
Proof.
  assert (R0 : forall p r ls, exists new, adv p r p r new /\ map l_start ls = map l_start ls ++ new).
  { intros. exists []. split; [apply adv_refl|rewrite app_nil_r; reflexivity]. }
  assert (ST : forall c p r e r' (ls ls' : list line), is_break c = false ->
            (exists new, adv (p + 1) r e r' new /\ map l_start ls' = map l_start ls ++ new) ->
            exists new, adv p (c :: r) e r' new /\ map l_start ls' = map l_start ls ++ new).
  { intros c p r e r' ls ls' B (new & A1 & A2). exists new. split; [|exact A2].
    eapply adv_trans0; [apply adv_nb1; exact B|exact A1]. }
  induction n as [|n IH]; intros r p cty q ls e r' ls' Hn H.
  - destruct r; [|cbn in Hn; lia]. cbn in H. inversion H; subst. apply R0.
  - destruct r as [|c r]; cbn [scan_comment] in H; [inversion H; subst; apply R0|].
    cbn [length] in Hn.
    destruct (c =? EOFc); [inversion H; subst; apply R0|].
    destruct (is_break c) eqn:B.
    { destruct (cty =? g_commentTypeSingle); [inversion H; subst; apply R0|].
      assert (ONE : is_pair c (curc r) = false ->
                    scan_comment r (p + 1) cty q (ls ++ [mkLine 0 (p + 1)]) = (e, r', ls') ->
                    exists new, adv p (c :: r) e r' new /\ map l_start ls' = map l_start ls ++ new).
      { intros NP H1. apply IH in H1; [|lia]. destruct H1 as (new & A1 & A2).
        exists ((p + 1) :: new). split.
        - change ((p + 1) :: new) with ([p + 1] ++ new). eapply adv_trans; [apply adv_b1; assumption|exact A1].
        - rewrite A2, map_app, <- app_assoc. reflexivity. }
      destruct r as [|c2 r2].
      - apply ONE; [apply is_pair_eof|exact H].
      - destruct (is_pair c c2) eqn:PR.
        + apply IH in H; [|cbn [length] in Hn; lia]. destruct H as (new & A1 & A2).
          exists ((p + 2) :: new). split.
          * change ((p + 2) :: new) with ([p + 2] ++ new). eapply adv_trans; [apply adv_b2; assumption|exact A1].
          * rewrite A2, map_app, <- app_assoc. reflexivity.
        + apply ONE; [exact PR|exact H]. }
    destruct (c =? g_LeftDoubleQuoteI); [apply ST; [exact B|]; eapply IH; [|exact H]; lia|].
    destruct (c =? g_LeftDoubleQuoteII); [apply ST; [exact B|]; eapply IH; [|exact H]; lia|].
    destruct ((c =? g_RightDoubleQuoteI) && (cty =? g_commentTypeQuoteI)).
    { destruct (q - 1 =? 0); [inversion H; subst; apply ST; [exact B|apply R0]|].
      apply ST; [exact B|]; eapply IH; [|exact H]; lia. }
    destruct ((c =? g_RightDoubleQuoteII) && (cty =? g_commentTypeQuoteII)).
    { destruct (q - 1 =? 0); [inversion H; subst; apply ST; [exact B|apply R0]|].
      apply ST; [exact B|]; eapply IH; [|exact H]; lia. }
    destruct ((c =? g_MultiplyOp) && (cty =? g_commentTypeSlash) && (curc r =? g_SlashOp)) eqn:SL.
    { inversion H; subst. apply andb_true_iff in SL. destruct SL as [_ SL].
      pose proof (eqb_curc_nonempty _ _ SL ltac:(discriminate)) as Hne.
      destruct r as [|y r]; [congruence|]. cbn [curc hd tl] in *.
      apply ST; [exact B|]. replace (p + 2) with (p + 1 + 1) by lia.
      apply ST; [eapply eqb_nb; [exact SL|reflexivity]|apply R0]. }
    apply ST; [exact B|]; eapply IH; [|exact H]; lia.
Qed.

Lemma scan_comment_adv : forall r p cty q e r' ls',
  scan_comment r p cty q [] = (e, r', ls') -> adv p r e r' (map l_start ls').
Proof.
  intros r p cty q e r' ls' H. eapply scan_comment_adv_aux in H; [|apply Nat.le_refl].
  destruct H as (new & A & B). cbn [map app] in B. rewrite B. exact A.
Qed.

Lemma skip_digits_p_adv : forall r p r' p', skip_digits_p r p = (r', p') -> adv p r p' r' [].
Proof.
  induction r as [|c r IH]; intros p r' p' H; cbn [skip_digits_p] in H.
  - inversion H; subst. apply adv_refl.
  - destruct (is_pure_number c) eqn:D.
    + eapply adv_trans0; [apply adv_nb1; apply digit_nb; exact D|]. apply IH. exact H.
    + inversion H; subst. apply adv_refl.
Qed.

Lemma fin_sadv : forall st p0 r0 cty q e r' ls, adv (pos st) (rest st) p0 r0 [] ->
  scan_comment r0 p0 cty q [] = (e, r', ls) -> sadv st (mkL e r' (itype st) (lines st ++ ls) (slen st)).
Proof.
  intros st p0 r0 cty q e r' ls A H. apply scan_comment_adv in H. exists (map l_start ls). cbn [pos rest]. split.
  - eapply adv_trans0; eauto.
  - unfold starts. cbn [lines]. apply map_app.
Qed.

Lemma peekc1_hd : forall x r c, (peekc 1 (x :: r) =? c) = true -> c <> EOFc -> exists y r2, r = y :: r2 /\ (y =? c) = true.
Proof.
  intros x r c H N. destruct r as [|y r2].
  - apply Z.eqb_eq in H. cbn in H. congruence.
  - exists y, r2. split; [reflexivity|exact H].
Qed.

Lemma parse_comment_sadv : forall st tk st', parse_comment st = Some (tk, st') -> sadv st st'.
Proof.
  intros st tk st' H. unfold parse_comment in H.
  destruct (curc (rest st) =? g_CharZHU) eqn:Z.
  - pose proof (eqb_curc_nonempty _ _ Z ltac:(discriminate)) as Hne.
    destruct (rest st) as [|x r] eqn:E; [congruence|]. cbn [tl curc hd] in *.
    destruct (skip_digits_p r (pos st + 1)) as [r1 p1] eqn:SD. apply skip_digits_p_adv in SD.
    destruct (curc r1 =? g_Colon) eqn:C; [|discriminate].
    pose proof (eqb_curc_nonempty _ _ C ltac:(discriminate)) as Hne1.
    destruct r1 as [|y r1']; [congruence|]. cbn [tl curc hd] in *.
    assert (A1 : adv (pos st) (rest st) (p1 + 1) r1' []).
    { rewrite E. eapply adv_trans0; [apply adv_nb1; eapply eqb_nb; [exact Z|reflexivity]|].
      eapply adv_trans0; [exact SD|]. apply adv_nb1. eapply eqb_nb; [exact C|reflexivity]. }
    destruct (peekc 1 (y :: r1') =? g_LeftDoubleQuoteI) eqn:Q1.
    { destruct (peekc1_hd _ _ _ Q1 ltac:(discriminate)) as (z & r2 & E2 & Z2). subst r1'. cbn [tl] in H.
      destruct (scan_comment r2 (p1 + 2) g_commentTypeQuoteI 1 []) as [[e0 r0] l0] eqn:SC.
      inversion H; subst. eapply fin_sadv; [|exact SC].
      eapply adv_trans0; [exact A1|]. eapply adv_eq; [apply adv_nb1; eapply eqb_nb; [exact Z2|reflexivity]|lia|reflexivity]. }
    destruct (peekc 1 (y :: r1') =? g_LeftDoubleQuoteII) eqn:Q2.
    { destruct (peekc1_hd _ _ _ Q2 ltac:(discriminate)) as (z & r2 & E2 & Z2). subst r1'. cbn [tl] in H.
      destruct (scan_comment r2 (p1 + 2) g_commentTypeQuoteII 1 []) as [[e0 r0] l0] eqn:SC.
      inversion H; subst. eapply fin_sadv; [|exact SC].
      eapply adv_trans0; [exact A1|]. eapply adv_eq; [apply adv_nb1; eapply eqb_nb; [exact Z2|reflexivity]|lia|reflexivity]. }
    destruct (scan_comment r1' (p1 + 1) g_commentTypeSingle 0 []) as [[e0 r0] l0] eqn:SC.
    inversion H; subst. eapply fin_sadv; [exact A1|exact SC].
  - destruct (curc (rest st) =? g_SlashOp) eqn:S; [|discriminate].
    pose proof (eqb_curc_nonempty _ _ S ltac:(discriminate)) as Hne.
    destruct (rest st) as [|x r] eqn:E; [congruence|]. cbn [tl curc hd] in *.
    assert (TWO : forall c, (peekc 1 (x :: r) =? c) = true -> c <> EOFc -> is_break c = false ->
                  adv (pos st) (rest st) (pos st + 2) (tl r) []).
    { intros c Q NE NB. destruct (peekc1_hd _ _ _ Q NE) as (z & r2 & E2 & Z2). subst r. cbn [tl]. rewrite E.
      eapply adv_trans0; [apply adv_nb1; eapply eqb_nb; [exact S|reflexivity]|].
      eapply adv_eq; [apply adv_nb1; eapply eqb_nb; [exact Z2|exact NB]|lia|reflexivity]. }
    destruct (peekc 1 (x :: r) =? g_SlashOp) eqn:Q1.
    { destruct (scan_comment (tl r) (pos st + 2) g_commentTypeSingle 0 []) as [[e0 r0] l0] eqn:SC.
      inversion H; subst. eapply fin_sadv; [|exact SC]. eapply TWO; [exact Q1|discriminate|reflexivity]. }
    destruct (peekc 1 (x :: r) =? g_MultiplyOp) eqn:Q2; [|discriminate].
    destruct (scan_comment (tl r) (pos st + 2) g_commentTypeSlash 0 []) as [[e0 r0] l0] eqn:SC.
    inversion H; subst. eapply fin_sadv; [|exact SC]. eapply TWO; [exact Q2|discriminate|reflexivity].
Qed.

(* ------------------------------------------------------------------ the C04 recognisers *)
Definition tres_adv (p : Z) (r : list Z) (t : tres) : Prop :=
  match t with TTok _ _ e _ r' => adv p r e r' [] | _ => True end.

(* keywords: every glyph of the word recognised was compared with a character that is no line break *)
Definition glyph_ok (c : Z) : bool := negb (is_break c) && negb (c =? g_RuneEOF).
Definition br_cover (b : list (Z * Z) * Z * Z) : bool :=
  forallb (fun i : nat => existsb (fun kc : Z * Z => (fst kc =? Z.of_nat i) && glyph_ok (snd kc)) (fst (fst b)))
          (seq 1 (Z.to_nat (snd (fst b)) - 1)).
Definition tree_cover (tree : kwtree) : bool :=
  forallb (fun e : Z * list (list (Z * Z) * Z * Z) * option (Z * Z) =>
             glyph_ok (fst (fst e)) && forallb br_cover (snd (fst e))) tree.

Lemma gkw_tree_cover : tree_cover g_kw_tree = true. Proof. vm_compute. reflexivity. Qed.

Definition word_ok (n : nat) (r : list Z) : Prop := forall i, (i < n)%nat -> glyph_ok (nth i r g_RuneEOF) = true.

Lemma br_cover_spec : forall conds wl ty r, br_cover (conds, wl, ty) = true -> conds_hold conds r = true ->
  glyph_ok (cur r) = true -> word_ok (Z.to_nat wl) r.
Proof.
  intros conds wl ty r F CH L i Hi. destruct i as [|i].
  - destruct r; exact L.
  - unfold br_cover in F. cbn [fst snd] in F. rewrite forallb_forall in F.
    specialize (F (S i) ltac:(apply in_seq; lia)). apply existsb_exists in F. destruct F as [[k c] [IN F]].
    cbn [fst snd] in F. apply andb_true_iff in F. destruct F as [K C]. apply Z.eqb_eq in K.
    unfold conds_hold in CH. rewrite forallb_forall in CH. specialize (CH _ IN). cbn [fst snd] in CH.
    apply Z.eqb_eq in CH. unfold peekn in CH. subst k. rewrite Nat2Z.id in CH. rewrite CH. exact C.
Qed.

Lemma eval_chain_cover : forall brs els r wl ty, forallb br_cover brs = true -> els_fit els = true ->
  glyph_ok (cur r) = true -> eval_chain brs els r = Some (wl, ty) -> word_ok (Z.to_nat wl) r.
Proof.
  induction brs as [|[[conds w] t] brs IH]; intros els r wl ty Hb He L H; cbn [eval_chain] in H.
  - subst els. cbn in He. apply Z.eqb_eq in He. subst wl. intros i Hi. assert (i = 0)%nat by lia. subst i.
    destruct r; exact L.
  - cbn [forallb] in Hb. apply andb_true_iff in Hb. destruct Hb as [Hb1 Hb2].
    destruct (conds_hold conds r) eqn:CH.
    + inversion H; subst. eapply br_cover_spec; eauto.
    + eapply IH; eauto.
Qed.

Lemma find_lead_cover : forall tree ch brs els, tree_cover tree = true -> find_lead ch tree = Some (brs, els) ->
  forallb br_cover brs = true /\ glyph_ok ch = true.
Proof.
  induction tree as [|[[lead b] e] tree IH]; intros ch brs els Ht H; cbn [find_lead] in H; [discriminate|].
  cbn [tree_cover forallb fst snd] in Ht. apply andb_true_iff in Ht. destruct Ht as [Ht1 Ht2].
  destruct (ch =? lead) eqn:L.
  - inversion H; subst. apply andb_true_iff in Ht1. destruct Ht1 as [Ht0 Ht1].
    apply Z.eqb_eq in L. subst ch. auto.
  - eapply IH; eauto.
Qed.

Lemma gkw_cover : forall r wl ty, gkw r = Some (wl, ty) -> word_ok (Z.to_nat wl) r.
Proof.
  intros r wl ty H. unfold gkw, parse_keyword in H.
  destruct (find_lead (cur r) g_kw_tree) as [[brs els]|] eqn:F; [|discriminate].
  destruct (find_lead_cover _ _ _ _ gkw_tree_cover F) as (A & C).
  destruct (find_lead_fit _ _ _ _ gkw_tree_fit F) as (_ & B & _).
  destruct (eval_chain brs els r) as [[w t]|] eqn:EC; [|discriminate].
  destruct (t =? 0); [discriminate|]. inversion H; subst. eapply eval_chain_cover; eauto.
Qed.

Lemma word_ok_firstn : forall n r, (n <= length r)%nat -> word_ok n r ->
  Forall (fun c => is_break c = false) (firstn n r).
Proof.
  induction n as [|n IH]; intros r L W; [constructor|].
  destruct r as [|x r]; [cbn in L; lia|]. cbn [firstn]. constructor.
  - specialize (W 0%nat ltac:(lia)). cbn [nth] in W. unfold glyph_ok in W. apply andb_true_iff in W.
    destruct W as [W _]. apply negb_true_iff in W. exact W.
  - apply IH; [cbn in L; lia|]. intros i Hi. apply (W (S i)). lia.
Qed.

Lemma adv_skipn : forall n r p, (n <= length r)%nat -> Forall (fun c => is_break c = false) (firstn n r) ->
  adv p r (p + Z.of_nat n) (skipn n r) [].
Proof.
  intros n r p L F. rewrite <- (firstn_skipn n r) at 1.
  eapply adv_eq; [apply adv_nb; exact F|rewrite firstn_length; lia|reflexivity].
Qed.

Lemma ident_loop_adv : forall p0 r0 r start p l, adv p0 r0 p r [] -> tres_adv p0 r0 (ident_loop gkw start r p l).
Proof.
  intros p0 r0. induction r as [|c r IH]; intros start p l A.
  - cbn [ident_loop]. destruct (ident_stop gkw []).
    + unfold ident_finish. destruct (hd 0 l =? g_SlashOp); cbn [tres_adv]; auto.
    + rewrite eof_not_idbody. exact I.
  - cbn [ident_loop]. destruct (ident_stop gkw (c :: r)).
    + unfold ident_finish. destruct (hd 0 l =? g_SlashOp); cbn [tres_adv]; auto.
    + destruct (is_id_body c) eqn:B; [|exact I].
      apply IH. eapply adv_trans0; [exact A|]. apply adv_nb1. apply idbody_nb. exact B.
Qed.

Lemma backtick_nb : is_break g_BackTick = false. Proof. reflexivity. Qed.

Lemma varquote_loop_adv : forall p0 r0 r start p l, adv p0 r0 p r [] -> tres_adv p0 r0 (varquote_loop start r p l).
Proof.
  intros p0 r0. induction r as [|c r IH]; intros start p l A; cbn [varquote_loop].
  - rewrite eof_not_idbody. exact I.
  - destruct (is_id_body c) eqn:B.
    + apply IH. eapply adv_trans0; [exact A|]. apply adv_nb1. apply idbody_nb. exact B.
    + destruct (c =? g_BackTick) eqn:BT; [|exact I]. cbn [tres_adv].
      eapply adv_trans0; [exact A|]. apply adv_nb1. eapply eqb_nb; [exact BT|reflexivity].
Qed.

Lemma peekn1_hd : forall x r c, (peekn 1 (x :: r) =? c) = true -> c <> g_RuneEOF ->
  exists y r2, r = y :: r2 /\ (y =? c) = true.
Proof.
  intros x r c H N. destruct r as [|y r2].
  - apply Z.eqb_eq in H. exfalso. apply N. rewrite <- H. reflexivity.
  - exists y, r2. split; [reflexivity|exact H].
Qed.

Lemma parse_operators_adv : forall r p t, r <> [] -> is_break (cur r) = false ->
  parse_operators r p = Some t -> tres_adv p r t.
Proof.
  intros r p t Hne NB H. unfold parse_operators in H. cbv zeta in H.
  destruct r as [|x r]; [congruence|]. cbn [cur hd tl] in *.
  assert (S1 : forall ty s, tres_adv p (x :: r) (TTok ty s (p + 1) [] r)).
  { intros ty s. cbn [tres_adv]. apply adv_nb1. exact NB. }
  assert (S2 : forall ty s, (peekn 1 (x :: r) =? g_EqualOp) = true -> tres_adv p (x :: r) (TTok ty s (p + 2) [] (tl r))).
  { intros ty s Q. destruct (peekn1_hd _ _ _ Q ltac:(discriminate)) as (y & r2 & E & Y). subst r. cbn [tres_adv tl].
    eapply adv_trans0; [apply adv_nb1; exact NB|].
    eapply adv_eq; [apply adv_nb1; eapply eqb_nb; [exact Y|reflexivity]|lia|reflexivity]. }
  repeat match type of H with
         | (if ?b then _ else _) = _ => let Q := fresh "Q" in destruct b eqn:Q
         end; try discriminate; inversion H; subst t; auto; try exact I.
  match goal with Q : _ && (peekn 1 _ =? g_EqualOp) = true |- _ => apply andb_true_iff in Q; apply S2; apply Q end.
Qed.

Lemma generic_token_adv : forall r p, r <> [] -> tres_adv p r (generic_token gkw r p).
Proof.
  intros r p Hne. unfold generic_token.
  destruct (mem (cur r) g_markPunctuations) eqn:MP.
  { unfold parse_punct. destruct (assoc (cur r) g_punctuationTypeMap); [|exact I].
    destruct r as [|x r]; [congruence|]. cbn [tres_adv tl cur hd] in *. apply adv_nb1.
    eapply mem_nb; [exact MP|reflexivity|reflexivity]. }
  destruct (if mem (cur r) g_markOperators then parse_operators r p else None) as [t|] eqn:OP.
  { destruct (mem (cur r) g_markOperators) eqn:MO; [|discriminate].
    eapply parse_operators_adv; eauto. eapply mem_nb; [exact MO|reflexivity|reflexivity]. }
  destruct (gkw r) as [[wl ty]|] eqn:K.
  - pose proof (gkw_fit _ _ _ K) as F. apply gkw_cover in K. cbn [tres_adv].
    eapply adv_eq; [apply (adv_skipn (Z.to_nat wl)); [lia|apply word_ok_firstn; [lia|exact K]]|lia|reflexivity].
  - unfold parse_identifier. destruct (negb (is_id_char (cur r))) eqn:IC; [exact I|].
    apply negb_false_iff in IC. destruct r as [|x r]; [congruence|]. cbn [tl cur hd] in *.
    apply ident_loop_adv. apply adv_nb1. apply idchar_nb. exact IC.
Qed.

Lemma conv_sadv : forall t st tk st', tres_adv (pos st) (rest st) t -> conv t st = LOk tk st' -> sadv st st'.
Proof.
  intros t st tk st' Ht H. destruct t as [ty0 s0 e0 lit0 r0|p0|c0| |]; cbn [conv tres_adv] in *; try discriminate.
  - inversion H; subst. apply sadv_adv0. exact Ht.
  - unfold parse_eof in H. destruct (line_text_ok st (pos st)); [|discriminate]. inversion H; subst. apply sadv_refl.
Qed.

(* ------------------------------------------------------------------ the C13 recogniser *)
Lemma lquote_nb : forall c, StringLit.is_left_quote c = true -> is_break c = false.
Proof.
  intros c H. unfold is_break, g_RuneCR, g_RuneLF.
  destruct (Z.eqb_spec c 13); [subst; vm_compute in H; discriminate|].
  destruct (Z.eqb_spec c 10); [subst; vm_compute in H; discriminate|]. reflexivity.
Qed.
Lemma rquote_nb : forall c, StringLit.is_right_quote c = true -> is_break c = false.
Proof.
  intros c H. unfold is_break, g_RuneCR, g_RuneLF.
  destruct (Z.eqb_spec c 13); [subst; vm_compute in H; discriminate|].
  destruct (Z.eqb_spec c 10); [subst; vm_compute in H; discriminate|]. reflexivity.
Qed.

Lemma ps_loop_adv : forall fuel o q lit lines pos rest ty l e sts,
  StringLit.ps_loop fuel o q lit lines pos rest = StringLit.LexOk ty l e sts ->
  exists r' new, adv (pos + 1) rest e r' new /\ sts = lines ++ new.
Proof.
  induction fuel as [|f IH]; intros o q lit lines pos rest ty l e sts H; [discriminate|].
  rewrite StringLitProofs.ps_loop_S in H. destruct rest as [|ch rest1].
  { cbn in H. discriminate. }
  cbn [StringLit.peek hd tl] in H. cbv zeta in H.
  assert (ST : is_break ch = false -> forall lit' q' , 
            StringLit.ps_loop f o q' lit' lines (pos + 1) rest1 = StringLit.LexOk ty l e sts ->
            exists r' new, adv (pos + 1) (ch :: rest1) e r' new /\ sts = lines ++ new).
  { intros NB lit' q' H1. apply IH in H1. destruct H1 as (r' & new & A1 & A2).
    exists r', new. split; [|exact A2]. eapply adv_trans0; [apply adv_nb1; exact NB|exact A1]. }
  destruct (ch =? StringLit.EOFc); [discriminate|].
  change ((ch =? StringLit.CR) || (ch =? StringLit.LF)) with (is_break ch) in H.
  destruct (is_break ch) eqn:B.
  { change (((ch =? StringLit.CR) && (StringLit.peek rest1 =? StringLit.LF))
            || ((ch =? StringLit.LF) && (StringLit.peek rest1 =? StringLit.CR))) with (is_pair ch (curc rest1)) in H.
    destruct (is_pair ch (curc rest1)) eqn:PR.
    - destruct rest1 as [|p rest2]; [rewrite is_pair_eof in PR; discriminate|].
      cbn [StringLit.peek hd tl curc] in *.
      apply IH in H. destruct H as (r' & new & A1 & A2).
      exists r', ((pos + 1 + 2) :: new). split.
      + change ((pos + 1 + 2) :: new) with ([pos + 1 + 2] ++ new).
        eapply adv_trans; [apply adv_b2; exact PR|]. replace (pos + 1 + 2) with (pos + 1 + 1 + 1) by lia. exact A1.
      + rewrite A2, <- app_assoc. cbn [app]. do 2 f_equal. lia.
    - apply IH in H. destruct H as (r' & new & A1 & A2).
      exists r', ((pos + 1 + 1) :: new). split.
      + change ((pos + 1 + 1) :: new) with ([pos + 1 + 1] ++ new).
        eapply adv_trans; [apply adv_b1; assumption|exact A1].
      + rewrite A2, <- app_assoc. reflexivity. }
  destruct (StringLit.is_left_quote ch); [eapply ST; [reflexivity|exact H]|].
  destruct (StringLit.is_right_quote ch).
  { destruct (StringLit.quote_match o =? ch).
    - destruct (q - 1 =? 0).
      + inversion H; subst. exists rest1, []. split; [|rewrite app_nil_r; reflexivity].
        apply adv_nb1. exact B.
      + eapply ST; [reflexivity|exact H].
    - eapply ST; [reflexivity|exact H]. }
  destruct (ch =? StringLit.BT) eqn:EBT.
  { destruct (StringLit.unescape rest1) as [[out n] rest2] eqn:Eu.
    destruct (StringLitProofs.unescape_no_break _ _ _ _ Eu) as (used & E1 & E2 & NBK). subst rest1 n.
    apply IH in H. destruct H as (r' & new & A1 & A2).
    exists r', new. split; [|exact A2].
    eapply adv_trans0; [apply adv_nb1; exact B|].
    eapply adv_trans0; [apply adv_nb|].
    - exact NBK.
    - replace (pos + 1 + 1 + zlen used) with (pos + 1 + zlen used + 1) by lia. exact A1. }
  eapply ST; [reflexivity|exact H].
Qed.

Lemma starts_map_mkLine : forall l, map l_start (map (mkLine 0) l) = l.
Proof. induction l as [|x l IH]; [reflexivity|]. cbn [map l_start]. rewrite IH. reflexivity. Qed.

Lemma parse_string_sadv : forall st tk st', mem (curc (rest st)) left_quotes = true ->
  parse_string st = LOk tk st' -> sadv st st'.
Proof.
  intros st tk st' LQ H. unfold parse_string in H.
  destruct (rest st) as [|x r] eqn:E; [cbn in LQ; discriminate|]. cbn [tl curc hd length] in *.
  destruct (StringLit.ps_loop (S (S (length r))) x 1 [] [] (pos st) r) as [ty l e sts|c k|] eqn:PS; try discriminate.
  apply ps_loop_adv in PS. destruct PS as (r' & new & A1 & A2).
  cbn [app] in A2. subst sts. inversion H; subst. exists new. cbn [pos rest]. split.
  - destruct A1 as [(used & U1 & U2) A1]. subst r e.
    replace (Z.to_nat (pos st + 1 + zlen used - pos st)) with (S (length used)) by lia.
    cbn [skipn]. rewrite skipn_app, Nat.sub_diag, skipn_all. cbn [skipn app]. rewrite E.
    eapply adv_trans0; [apply adv_nb1; eapply mem_nb; [exact LQ|reflexivity|reflexivity]|].
    split; [exists used; split; [reflexivity|lia]|exact A1].
  - unfold starts. cbn [lines]. rewrite map_app, starts_map_mkLine. reflexivity.
Qed.

Theorem next_token_sadv : forall st0 tk st', next_token st0 = LOk tk st' -> sadv st0 st'.
Proof.
  intros st0 tk st' H. unfold next_token in H.
  destruct (pre_next_token (S (len st0)) st0) as [u st| | |] eqn:PN; try discriminate.
  apply pre_next_token_sadv in PN.
  eapply sadv_trans; [exact PN|]. clear PN.
  assert (PE : parse_eof st = LOk tk st' -> sadv st st').
  { unfold parse_eof. destruct (line_text_ok st (pos st)); [|discriminate]. intro X. inversion X; subst. apply sadv_refl. }
  destruct (rest st) as [|x r] eqn:E; [exact (PE H)|]. rewrite <- E in *.
  assert (Hne : rest st <> []) by (rewrite E; discriminate).
  destruct (curc (rest st) =? EOFc); [exact (PE H)|].
  assert (G : conv (generic_token gkw (rest st) (pos st)) st = LOk tk st' -> sadv st st').
  { apply conv_sadv. apply generic_token_adv. exact Hne. }
  destruct ((curc (rest st) =? g_CharZHU) || (curc (rest st) =? g_SlashOp)).
  { destruct (parse_comment st) as [[tk1 st1]|] eqn:PC; [|exact (G H)].
    inversion H; subst. eapply parse_comment_sadv; eauto. }
  destruct (mem (curc (rest st)) left_quotes) eqn:LQ.
  { eapply parse_string_sadv; eauto. }
  destruct (curc (rest st) =? g_BackTick) eqn:BT; [|exact (G H)].
  eapply conv_sadv; [|exact H]. apply varquote_loop_adv. rewrite E in *. cbn [tl curc hd] in *.
  apply adv_nb1. eapply eqb_nb; [exact BT|reflexivity].
Qed.

(* ------------------------------------------------------------------ the invariant and the token stream *)
Definition lines_inv (src : list Z) (st : lstate) : Prop :=
  (exists consumed, src = consumed ++ rest st) /\
  Lines.phys_starts src = starts st ++ sf None (pos st) (rest st) /\
  Forall (fun x => x <= pos st) (starts st).

Lemma lines_inv_sadv : forall src st st', lines_inv src st -> sadv st st' -> lines_inv src st'.
Proof.
  intros src st st' [(c & C) [I F]] (new & A & B). pose proof (adv_suffix _ _ _ _ _ A) as (u & U).
  pose proof (adv_le _ _ _ _ _ A) as LE. split; [|split].
  - exists (c ++ u). rewrite <- app_assoc, <- U. exact C.
  - rewrite I, B, <- app_assoc. f_equal. apply A.
  - rewrite B. apply Forall_app. split; [|apply A]. eapply Forall_impl; [|exact F]. cbn beta. intros x Hx. lia.
Qed.

Lemma lex_init_lines : forall src u st0, hd EOFc src <> EOFc -> lex_init src = LOk u st0 -> lines_inv src st0.
Proof.
  intros src u st0 HD H. unfold lex_init, parse_begin_lex in H. cbn [rest lines] in H.
  destruct src as [|ch r]; [cbn in HD; congruence|]. cbn [hd] in HD.
  destruct (ch =? EOFc) eqn:E0; [apply Z.eqb_eq in E0; congruence|].
  set (st1 := set_lines (mkL 0 (ch :: r) g_IndentUnknown [] (zlen (ch :: r))) ([] ++ [mkLine 0 0])) in *.
  assert (I1 : lines_inv (ch :: r) st1).
  { split; [exists []; reflexivity|]. split; [reflexivity|]. constructor; [cbn; lia|constructor]. }
  destruct (is_indent_char ch).
  - destruct (count_indent st1) as [st2 count] eqn:CI. apply count_indent_sadv in CI.
    destruct (set_indent_type count ch st2) as [n st3| | |] eqn:SI; try discriminate.
    apply set_indent_type_same in SI. destruct SI as (S1 & S2 & S3).
    inversion H; subst. eapply lines_inv_sadv; [exact I1|]. eapply sadv_trans; [exact CI|].
    apply sadv_same; cbn [set_lines pos rest]; auto.
    unfold starts. cbn [set_lines lines]. rewrite starts_set_last_indent, S3. reflexivity.
  - inversion H; subst. exact I1.
Qed.

Lemma lex_all_lines : forall src fuel st acc toks u st',
  lines_inv src st -> lex_all fuel st acc = (toks, LOk u st') -> lines_inv src st'.
Proof.
  intros src. induction fuel as [|f IH]; intros st acc toks u st' I H; [cbn in H; inversion H|].
  cbn [lex_all] in H. destruct (next_token st) as [tk st1| | |] eqn:NT; try (inversion H; fail).
  apply next_token_sadv in NT.
  pose proof (lines_inv_sadv _ _ _ I NT) as I1.
  destruct (t_ty tk =? g_TypeEOF).
  - inversion H; subst. exact I1.
  - eapply IH; eauto.
Qed.

(* For every text that the lexer model reads up to its end,
   the table of line starts the lexer records IS the table of physical line starts. *)
Theorem lexer_lines_are_physical_lines : forall src fuel u0 st0 toks u st,
  hd EOFc src <> EOFc ->                               (* the text is not empty *)
  lex_init src = LOk u0 st0 ->
  lex_all fuel st0 [] = (toks, LOk u st) ->
  rest st = [] ->                                      (* read up to the end *)
  map l_start (lines st) = Lines.phys_starts src.
Proof.
  intros src fuel u0 st0 toks u st HD LI LA RE.
  pose proof (lex_init_lines _ _ _ HD LI) as I0.
  pose proof (lex_all_lines src _ _ _ _ _ _ I0 LA) as [_ [I _]].
  rewrite RE in I. cbn [Lines.starts_from] in I. rewrite app_nil_r in I. symmetry. exact I.
Qed.

(* ------------------------------------------------------------------ the end-of-text token is produced at the end only *)
Definition tres_ty (t : tres) : Prop :=
  match t with TTok ty _ _ _ _ => ty <> g_TypeEOF | TEof _ => False | _ => True end.

Ltac neq0 := first [exact I | let X := fresh in intro X; vm_compute in X; discriminate X].

Lemma ident_loop_ty : forall r start p l, tres_ty (ident_loop gkw start r p l).
Proof.
  induction r as [|c r IH]; intros start p l; cbn [ident_loop].
  - destruct (ident_stop gkw []).
    + unfold ident_finish. destruct (hd 0 l =? g_SlashOp); cbn [tres_ty]; neq0.
    + rewrite eof_not_idbody. exact I.
  - destruct (ident_stop gkw (c :: r)).
    + unfold ident_finish. destruct (hd 0 l =? g_SlashOp); cbn [tres_ty]; neq0.
    + destruct (is_id_body c); [apply IH|exact I].
Qed.

Lemma varquote_loop_ty : forall r start p l, tres_ty (varquote_loop start r p l).
Proof.
  induction r as [|c r IH]; intros start p l; cbn [varquote_loop].
  - rewrite eof_not_idbody. exact I.
  - destruct (is_id_body c); [apply IH|]. destruct (c =? g_BackTick); cbn [tres_ty]; neq0.
Qed.

Lemma punct_types : forallb (fun kv : Z * Z => negb (snd kv =? g_TypeEOF)) g_punctuationTypeMap = true.
Proof. vm_compute. reflexivity. Qed.

Lemma assoc_in : forall x m v, assoc x m = Some v -> In (x, v) m.
Proof.
  induction m as [|[k w] m IH]; intros v H; cbn [assoc] in H; [discriminate|].
  destruct (x =? k) eqn:E.
  - inversion H; subst. apply Z.eqb_eq in E. subst. left. reflexivity.
  - right. apply IH. exact H.
Qed.

Lemma parse_operators_ty : forall r p t, parse_operators r p = Some t -> tres_ty t.
Proof.
  intros r p t H. unfold parse_operators in H. cbv zeta in H.
  repeat match type of H with
         | (if ?b then _ else _) = _ => destruct b
         end; try discriminate; inversion H; subst t; cbn [tres_ty];
    repeat match goal with |- context [if ?b then _ else _] => destruct b end; neq0.
Qed.

Lemma generic_token_ty : forall r p, tres_ty (generic_token gkw r p).
Proof.
  intros r p. unfold generic_token.
  destruct (mem (cur r) g_markPunctuations).
  { unfold parse_punct. destruct (assoc (cur r) g_punctuationTypeMap) as [ty|] eqn:A; [|exact I].
    apply assoc_in in A. pose proof punct_types as PT. rewrite forallb_forall in PT. apply PT in A.
    cbn [snd] in A. apply negb_true_iff in A. apply Z.eqb_neq in A. exact A. }
  destruct (if mem (cur r) g_markOperators then parse_operators r p else None) as [t|] eqn:OP.
  { destruct (mem (cur r) g_markOperators); [|discriminate]. eapply parse_operators_ty; eauto. }
  destruct (gkw r) as [[wl ty]|] eqn:K.
  - cbn [tres_ty]. unfold gkw, parse_keyword in K.
    destruct (find_lead (cur r) g_kw_tree) as [[brs els]|]; [|discriminate].
    destruct (eval_chain brs els r) as [[w t]|]; [|discriminate].
    destruct (t =? 0) eqn:T0; [discriminate|]. inversion K; subst. apply Z.eqb_neq in T0. exact T0.
  - unfold parse_identifier. destruct (negb (is_id_char (cur r))); [exact I|]. apply ident_loop_ty.
Qed.

Definition at_end (st : lstate) : Prop := rest st = [] \/ curc (rest st) = EOFc.

Lemma conv_ty : forall t st tk st', tres_ty t -> conv t st = LOk tk st' -> t_ty tk <> g_TypeEOF.
Proof.
  intros t st tk st' Ht H. destruct t as [ty0 s0 e0 lit0 r0|p0|c0| |]; cbn [conv tres_ty] in *; try discriminate.
  - inversion H; subst. exact Ht.
  - contradiction.
Qed.

Lemma token_type_not_eof : forall o, StringLit.token_type o <> g_TypeEOF.
Proof.
  intro o. unfold StringLit.token_type.
  destruct ((o =? StringLit.LSQ1) || (o =? StringLit.LSQ2)); [neq0|].
  destruct (o =? StringLit.LLIB); neq0.
Qed.

Lemma next_token_eof : forall st0 tk st', next_token st0 = LOk tk st' -> t_ty tk = g_TypeEOF -> at_end st'.
Proof.
  intros st0 tk st' H TY. unfold next_token in H.
  destruct (pre_next_token (S (len st0)) st0) as [u st| | |]; try discriminate.
  assert (PE : at_end st -> parse_eof st = LOk tk st' -> at_end st').
  { unfold parse_eof. destruct (line_text_ok st (pos st)); [|discriminate]. intros X Y. inversion Y; subst. exact X. }
  destruct (rest st) as [|x r] eqn:E; [apply PE; [left; exact E|exact H]|]. rewrite <- E in *.
  destruct (curc (rest st) =? EOFc) eqn:C0; [apply PE; [right; apply Z.eqb_eq; exact C0|exact H]|].
  exfalso.
  assert (G : conv (generic_token gkw (rest st) (pos st)) st = LOk tk st' -> False).
  { intro X. eapply conv_ty; [apply generic_token_ty|exact X|exact TY]. }
  destruct ((curc (rest st) =? g_CharZHU) || (curc (rest st) =? g_SlashOp)).
  { destruct (parse_comment st) as [[tk1 st1]|] eqn:PC; [|exact (G H)].
    inversion H; subst. apply parse_comment_len in PC. destruct PC as [_ PC]. rewrite PC in TY. discriminate. }
  destruct (mem (curc (rest st)) left_quotes).
  { unfold parse_string in H.
    pose proof (StringLitProofs.ps_loop_shape (S (len st)) (curc (rest st)) 1 [] [] (pos st) (tl (rest st))) as SH.
    assert (Hl : (length (tl (rest st)) < S (len st))%nat) by (pose proof (tl_len (rest st)); lia).
    specialize (SH Hl).
    destruct (StringLit.ps_loop (S (len st)) (curc (rest st)) 1 [] [] (pos st) (tl (rest st))) as [ty l e sts|c k|];
      try discriminate.
    cbn [StringLitProofs.shape] in SH. destruct SH as (pre & post & _ & _ & E3).
    inversion H; subst. cbn [t_ty] in TY. eapply token_type_not_eof; exact TY. }
  destruct (curc (rest st) =? g_BackTick); [|exact (G H)].
  eapply conv_ty; [apply varquote_loop_ty|exact H|exact TY].
Qed.

(* ------------------------------------------------------------------ the lines recorded so far *)
(* in every state with the invariant, the recorded starts are exactly the physical line starts up to the cursor *)
Lemma filter_all : forall p l, Forall (fun x => x <= p) l -> filter (fun s => s <=? p) l = l.
Proof.
  intros p. induction l as [|x l IH]; intro F; [reflexivity|]. inversion F; subst. cbn [filter].
  replace (x <=? p) with true by (symmetry; apply Z.leb_le; assumption). rewrite IH by assumption. reflexivity.
Qed.
Lemma filter_none : forall p l, (forall x, In x l -> p < x) -> filter (fun s => s <=? p) l = [].
Proof.
  intros p. induction l as [|x l IH]; intro F; [reflexivity|]. cbn [filter].
  replace (x <=? p) with false by (symmetry; apply Z.leb_gt; apply F; left; reflexivity).
  apply IH. intros y Hy. apply F. right. exact Hy.
Qed.

Theorem lines_inv_upto_cursor : forall src st, lines_inv src st ->
  map l_start (lines st) = filter (fun s => s <=? pos st) (Lines.phys_starts src).
Proof.
  intros src st (_ & I & F). rewrite I, filter_app, filter_all by exact F.
  rewrite filter_none; [rewrite app_nil_r; reflexivity|].
  intros x Hx. destruct (LinesProofs.starts_from_increasing (rest st) None (pos st)) as [_ B]. apply B in Hx. exact Hx.
Qed.

(* the states the lexer goes through: after NewLexer, and after every token read *)
Inductive lex_reach (src : list Z) : lstate -> Prop :=
| reach_init : forall u st0, lex_init src = LOk u st0 -> lex_reach src st0
| reach_next : forall st tk st', lex_reach src st -> next_token st = LOk tk st' -> lex_reach src st'.

Lemma lex_reach_inv : forall src st, hd EOFc src <> EOFc -> lex_reach src st -> lines_inv src st.
Proof.
  intros src st HD R. induction R as [u st0 LI|st tk st' R IH NT].
  - eapply lex_init_lines; eauto.
  - eapply lines_inv_sadv; [exact IH|]. eapply next_token_sadv; eauto.
Qed.

(* Whatever happens next (a token, the end of the text, a syntax error): in every state the lexer model reaches on a
   non-empty text, the lines recorded so far are the physical line starts up to the cursor, and the rest of the table
   is determined by the text not yet read. *)
Theorem lexer_state_lines : forall src st, hd EOFc src <> EOFc -> lex_reach src st ->
  map l_start (lines st) = filter (fun s => s <=? pos st) (Lines.phys_starts src) /\
  Lines.phys_starts src = map l_start (lines st) ++ Lines.starts_from None (pos st) (rest st).
Proof.
  intros src st HD R. pose proof (lex_reach_inv _ _ HD R) as I. split; [apply lines_inv_upto_cursor; exact I|apply I].
Qed.

(* ------------------------------------------------------------------ through the parser *)
Section Compile.
Variable src : list Z.
Let N := zlen src.

Definition Pl (l : lstate) : Prop := linv N l /\ lines_inv src l.
Definition Tl (tk : token) (l : lstate) : Prop := inr N (t_s tk) /\ (t_ty tk = g_TypeEOF -> at_end l).

Lemma Tl_range : forall tk l, Tl tk l -> inr N (t_s tk).
Proof. intros tk l H. apply H. Qed.

Lemma next_ok_lines : forall l, Pl l ->
  match next_token l with LOk tk l' => Pl l' /\ Tl tk l' | LErr _ k => inr N k | _ => True end.
Proof.
  intros l [H1 H2]. pose proof (next_token_inv N l H1) as G.
  destruct (next_token l) as [tk l'| | |] eqn:NT; cbn [lres_ok] in G; auto.
  destruct G as [G1 G2]. split; [split; [exact G1|]|split; [exact G2|]].
  - eapply lines_inv_sadv; [exact H2|]. eapply next_token_sadv; exact NT.
  - intro TY. eapply next_token_eof; eauto.
Qed.

(* every production of the parser, started in a state with the invariant, ends in a state with the invariant *)
Theorem parse_keeps_lines : forall fuel n st x st', 0 <= N -> pinv N Pl Tl st ->
  parse fuel n st = Ok x st' ->
  map l_start (lines (lx st')) = filter (fun s => s <=? pos (lx st')) (Lines.phys_starts src).
Proof.
  intros fuel n st x st' N0 I H.
  pose proof (parse_rok N N0 Pl Tl Tl_range next_ok_lines fuel n st I) as R. rewrite H in R. cbn [rok] in R.
  destruct R as ([_ R] & _). apply lines_inv_upto_cursor. exact R.
Qed.

Theorem compile_lines : forall fuel p ls it, compile fuel src = OTree p ls it ->
  src <> [] -> ~ In EOFc src -> map l_start ls = Lines.phys_starts src.
Proof.
  intros fuel p ls it H NE NI. unfold compile in H.
  assert (HD : hd EOFc src <> EOFc).
  { destruct src as [|x r]; [congruence|]. cbn [hd]. intro X. apply NI. left. exact X. }
  pose proof (lex_init_inv src) as LI. fold N in LI.
  destruct (lex_init src) as [u l0| | |] eqn:LX; cbn [lres_ok] in LI; try discriminate.
  destruct LI as [L0 _]. apply lex_init_lines in LX; [|exact HD].
  assert (N0 : 0 <= N) by (subst N; lia).
  assert (I0 : pinv N Pl Tl (init_pstate l0)).
  { unfold pinv, init_pstate. cbn [lx p1 p2 tok_in]. split; [split; assumption|auto]. }
  assert (R : rok N Pl Tl
                ((p_next ;;; (fun st => parse fuel (NProgram (peek_indent st) 1 [] None) st)) (init_pstate l0))).
  { apply rok_bind.
    - apply rok_p_next; [exact Tl_range|exact next_ok_lines|exact I0].
    - intros a s Hs. cbv beta.
      exact (parse_rok N N0 Pl Tl Tl_range next_ok_lines fuel (NProgram (peek_indent s) 1 [] None) s Hs). }
  destruct ((p_next ;;; (fun st => parse fuel (NProgram (peek_indent st) 1 [] None) st)) (init_pstate l0))
    as [pg st| | |]; cbn [rok] in R; try discriminate.
  destruct (negb (peek_ty st =? g_TypeEOF)) eqn:PT; [discriminate|]. inversion H; subst.
  apply negb_false_iff in PT. apply Z.eqb_eq in PT. unfold peek_ty in PT.
  destruct R as ([_ [(c & C) [I _]]] & _ & R2).
  destruct (p2 st) as [tk|]; [|cbn in PT; discriminate]. cbn [tok_ty] in PT.
  destruct R2 as [_ R2]. specialize (R2 PT).
  assert (RE : rest (lx st) = []).
  { destruct R2 as [R2|R2]; [exact R2|]. destruct (rest (lx st)) as [|x r] eqn:E; [reflexivity|].
    exfalso. apply NI. rewrite C. apply in_or_app. right. left. exact R2. }
  unfold starts in I. rewrite RE in I. cbn [Lines.starts_from] in I. rewrite app_nil_r in I. symmetry. exact I.
Qed.
End Compile.

(* For every source the front-end model accepts (any fuel) that is not empty and does not contain the end-of-text
   mark (-1, not a code point), the line table returned with the tree is the table of physical line starts. *)
Theorem compile_lines_are_physical_lines : forall fuel src p ls it,
  compile fuel src = OTree p ls it -> src <> [] -> ~ In EOFc src ->
  map l_start ls = Lines.phys_starts src.
Proof. intros fuel src p ls it H NE NI. eapply compile_lines; eauto. Qed.

(* ------------------------------------------------------------------ the hypotheses are needed; examples *)
Definition recorded (src : list Z) : option (list Z) :=
  match compile 200 src with OTree _ ls _ => Some (map l_start ls) | _ => None end.

(* a line break after a backtick inside a literal (“`⏎”, “`CR LF CR LF”, “`BK`⏎”) is recorded: the escape machine
   stops before it (before repair 7640347 the model recorded [0] and [0; 5; 6] for the first two) *)
Example break_after_backtick_1 :
  recorded [8220; 96; 10; 8221] = Some [0; 3] /\ Lines.phys_starts [8220; 96; 10; 8221] = [0; 3].
Proof. vm_compute. split; reflexivity. Qed.
Example break_after_backtick_2 :
  recorded [8220; 96; 13; 10; 13; 10; 8221] = Some [0; 4; 6] /\
  Lines.phys_starts [8220; 96; 13; 10; 13; 10; 8221] = [0; 4; 6].
Proof. vm_compute. split; reflexivity. Qed.
Example break_after_backtick_3 :
  recorded [8220; 96; 66; 75; 96; 10; 8221] = Some [0; 6] /\ Lines.phys_starts [8220; 96; 66; 75; 96; 10; 8221] = [0; 6].
Proof. vm_compute. split; reflexivity. Qed.
(* an unfinished escape before a break (“`U+4⏎”): kept literally, the break is in the value and the line is recorded *)
Example break_in_unfinished_escape :
  StringLit.lex_string [8220; 96; 85; 43; 52; 10; 8221] = StringLit.LexOk 2 [96; 85; 43; 52; 10] 7 [0; 6].
Proof. vm_compute. reflexivity. Qed.
(* the empty text has no recorded line (the specification counts one) *)
Example empty_text : recorded [] = Some [] /\ Lines.phys_starts [] = [0].
Proof. vm_compute. split; reflexivity. Qed.
(* the end-of-text mark inside the text ends the program there *)
Example eof_mark_inside : recorded [65; -1; 10; 66] = Some [0] /\ Lines.phys_starts [65; -1; 10; 66] = [0; 3].
Proof. vm_compute. split; reflexivity. Qed.
(* non-vacuity: a comment over LF CR, a lone CR; the branch example of C03 *)
Example lines_example_1 :
  recorded [47; 42; 10; 13; 42; 47; 13; 65] = Some [0; 4; 7] /\ Lines.phys_starts [47; 42; 10; 13; 42; 47; 13; 65] = [0; 4; 7].
Proof. vm_compute. split; reflexivity. Qed.
Example lines_example_2 :
  recorded [22914;26524;65;65306;10;32;32;32;32;66;10;21542;21017;65306;10;32;32;32;32;67] = Some [0; 5; 11; 15].
Proof. vm_compute. reflexivity. Qed.

Print Assumptions lexer_lines_are_physical_lines.
Print Assumptions lexer_state_lines.
Print Assumptions parse_keeps_lines.
Print Assumptions compile_lines_are_physical_lines.
