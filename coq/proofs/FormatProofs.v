(* FormatProofs.v — the formatter model of Format.v against the template grammar and the
   directive grammar. *)
From Coq Require Import List ZArith Bool Lia.
Import ListNotations.
From Zn.model Require Import FormatNum Format.
Open Scope Z_scope.

Local Notation len l := (Z.of_nat (length l)).

(* ------------------------------------------------------------------ *)
(* The index triples of a parse                                         *)

(* the fmtStack of a parse whose first character has index off *)
Fixpoint enc_segs (off : Z) (segs : list seg) : list Z :=
  match segs with
  | [] => []
  | Lit l :: rest => [fmtTypeLiteral; off; off + len l] ++ enc_segs (off + len l) rest
  | Hole d :: rest => [fmtTypeFormatter; off + 1; off + 1 + len d] ++ enc_segs (off + len d + 2) rest
  end.

(* the same while the loop is still running: a trailing literal has no end index yet *)
Fixpoint enc_open (off : Z) (segs : list seg) : list Z :=
  match segs with
  | [] => []
  | Lit l :: rest =>
    [fmtTypeLiteral; off] ++ match rest with [] => [] | _ => [off + len l] ++ enc_open (off + len l) rest end
  | Hole d :: rest => [fmtTypeFormatter; off + 1; off + 1 + len d] ++ enc_open (off + len d + 2) rest
  end.

Fixpoint last_state (segs : list seg) : sstate :=
  match segs with
  | [] => SBegin
  | [Lit _] => SLiteral
  | _ :: rest => last_state rest
  end.

Lemma unparse_cons s segs : unparse (s :: segs) = unparse_seg s ++ unparse segs.
Proof. reflexivity. Qed.

Lemma unparse_app a b : unparse (a ++ b) = unparse a ++ unparse b.
Proof. unfold unparse. rewrite map_app, concat_app. reflexivity. Qed.

Lemma enc_segs_length segs : forall off, length (enc_segs off segs) = (3 * length segs)%nat.
Proof. induction segs as [|[l|d] rest IH]; intros off; [reflexivity| |]; cbn [enc_segs app length]; rewrite IH; lia. Qed.

Lemma enc_open_closed segs : forall off,
  enc_open off segs ++ (match last_state segs with SLiteral => [off + len (unparse segs)] | _ => [] end) = enc_segs off segs.
Proof.
  induction segs as [|[l|d] rest IH]; intros off.
  - reflexivity.
  - rewrite unparse_cons. cbn [unparse_seg enc_open enc_segs]. destruct rest as [|s rest'].
    + cbn [last_state enc_segs unparse map concat app]. rewrite app_nil_r. reflexivity.
    + assert (Hls : last_state (Lit l :: s :: rest') = last_state (s :: rest')) by reflexivity. rewrite Hls.
      rewrite <- (IH (off + len l)). rewrite app_length, Nat2Z.inj_add.
      cbn [app]. do 4 f_equal.
      destruct (last_state (s :: rest')); try reflexivity. f_equal. lia.
  - rewrite unparse_cons. cbn [unparse_seg enc_open enc_segs].
    assert (Hls : last_state (Hole d :: rest) = last_state rest) by (destruct rest; reflexivity). rewrite Hls.
    rewrite <- (IH (off + len d + 2)). cbn [app]. do 4 f_equal.
    destruct (last_state rest); try reflexivity. f_equal. cbn [length]. rewrite !app_length. cbn [length]. lia.
Qed.

(* ------------------------------------------------------------------ *)
(* The scanner accepts every template of the grammar and computes its triples *)

Lemma not_brace c : is_brace c = false -> (c =? 123) = false /\ (c =? 125) = false.
Proof. unfold is_brace. intros H. apply orb_false_iff in H. exact H. Qed.

Lemma scan_skip : forall l rest idx st stack cnt, brace_free l -> st <> SBegin ->
  scan_loop (l ++ rest) idx st stack cnt = scan_loop rest (idx + len l) st stack cnt.
Proof.
  induction l as [|c l IH]; intros rest idx st stack cnt Hb Hst.
  - cbn [app length]. f_equal. simpl. lia.
  - inversion Hb as [|? ? Hc Hb']; subst. destruct (not_brace c Hc) as [E1 E2].
    cbn [app scan_loop]. rewrite E1, E2. destruct st; [congruence| |]; rewrite IH by assumption; f_equal; cbn [length]; lia.
Qed.

Lemma scan_open_from_literal tl idx stack cnt :
  scan_loop (123 :: tl) idx SLiteral stack cnt = scan_loop (123 :: tl) idx SBegin (stack ++ [idx]) cnt.
Proof. cbn [scan_loop]. change (123 =? 123) with true. cbv iota. rewrite <- app_assoc. reflexivity. Qed.

Definition nholes (segs : list seg) : Z := len (holes segs).

Lemma scan_accepts : forall segs idx stack cnt, wf_segs segs ->
  scan_loop (unparse segs) idx SBegin stack cnt =
  Some (last_state segs, stack ++ enc_open idx segs, cnt + nholes segs).
Proof.
  induction segs as [|[l|d] rest IH]; intros idx stack cnt Hwf.
  - cbn. rewrite app_nil_r. do 3 f_equal. unfold nholes. simpl. lia.
  - cbn [wf_segs] in Hwf. destruct Hwf as (Hne & Hb & Hnext & Hwf).
    rewrite unparse_cons. cbn [unparse_seg].
    destruct l as [|c l]; [congruence|]. inversion Hb as [|? ? Hc Hb']; subst. destruct (not_brace c Hc) as [E1 E2].
    cbn [app scan_loop]. rewrite E1, E2. rewrite scan_skip by (auto; congruence).
    destruct rest as [|[l2|d2] rest'].
    + cbn. do 3 f_equal. unfold nholes. simpl. lia.
    + destruct Hnext.
    + rewrite unparse_cons. cbn [unparse_seg app]. rewrite scan_open_from_literal.
      change (123 :: d2 ++ [125] ++ unparse rest') with (unparse (Hole d2 :: rest')).
      rewrite IH by exact Hwf.
      assert (Hls : last_state (Lit (c :: l) :: Hole d2 :: rest') = last_state (Hole d2 :: rest')) by reflexivity. rewrite Hls.
      match goal with |- Some (_, ?A, ?N) = Some (_, ?A', ?N') => assert (Hs : A = A'); [|assert (Hn : N = N'); [|rewrite Hs, Hn; reflexivity]] end.
      * cbn [enc_open]. rewrite <- !app_assoc. cbn [app length]. do 4 f_equal; try lia.
        replace (idx + 1 + len l) with (idx + Z.of_nat (S (length l))) by lia. reflexivity.
      * unfold nholes. cbn [holes flat_map app]. reflexivity.
  - cbn [wf_segs] in Hwf. destruct Hwf as (Hb & Hwf).
    rewrite unparse_cons. cbn [unparse_seg app scan_loop]. change (123 =? 123) with true. cbv iota.
    rewrite <- app_assoc. rewrite scan_skip by (auto; congruence).
    cbn [app scan_loop]. change (125 =? 123) with false. change (125 =? 125) with true. cbv iota.
    rewrite IH by exact Hwf.
    assert (Hls : last_state (Hole d :: rest) = last_state rest) by (destruct rest; reflexivity). rewrite Hls.
    match goal with |- Some (_, ?A, ?N) = Some (_, ?A', ?N') => assert (Hs : A = A'); [|assert (Hn : N = N'); [|rewrite Hs, Hn; reflexivity]] end.
    + cbn [enc_open]. rewrite <- !app_assoc. cbn [app]. do 4 f_equal; try lia. f_equal. lia.
    + unfold nholes. change (holes (Hole d :: rest)) with (d :: holes rest). cbn [length]. lia.
Qed.

(* ------------------------------------------------------------------ *)
(* Filling the triples = rendering the parse                             *)

Lemma rune_slice_mid pre l post : rune_slice (pre ++ l ++ post) (len pre) (len pre + len l) = Some l.
Proof.
  unfold rune_slice. rewrite !app_length.
  assert (Hc : (0 <=? len pre) && (len pre <=? len pre + len l) &&
           (len pre + len l <=? Z.of_nat (length pre + (length l + length post))) = true).
  { repeat (apply andb_true_iff; split); apply Z.leb_le; lia. }
  rewrite Hc.
  f_equal. rewrite Nat2Z.id. rewrite skipn_app, skipn_all, Nat.sub_diag. cbn [app skipn].
  replace (Z.to_nat (len pre + len l - len pre)) with (length l) by lia.
  rewrite firstn_app, Nat.sub_diag, firstn_all. cbn [firstn]. apply app_nil_r.
Qed.

Lemma fill_renders rv : forall segs pre params acc,
  fill rv (pre ++ unparse segs) (enc_segs (len pre) segs) params acc =
  match render_segs rv segs params with
  | FOk out => FOk (acc ++ out)
  | FErr e => FErr e
  | FCrash => FCrash
  end.
Proof.
  induction segs as [|[l|d] rest IH]; intros pre params acc.
  - cbn. rewrite app_nil_r. reflexivity.
  - rewrite unparse_cons. cbn [unparse_seg enc_segs app fill].
    rewrite rune_slice_mid. change (fmtTypeLiteral =? fmtTypeLiteral) with true. cbv iota.
    replace (len pre + len l) with (len (pre ++ l)) by (rewrite app_length; lia).
    rewrite app_assoc. rewrite IH. cbn [render_segs].
    destruct (render_segs rv rest params); try reflexivity. rewrite app_assoc. reflexivity.
  - assert (Ht : pre ++ unparse (Hole d :: rest) = (pre ++ [123]) ++ d ++ (125 :: unparse rest)).
    { rewrite unparse_cons. cbn [unparse_seg]. rewrite <- !app_assoc. reflexivity. }
    assert (Ht2 : (pre ++ [123]) ++ d ++ 125 :: unparse rest = (pre ++ [123] ++ d ++ [125]) ++ unparse rest).
    { rewrite <- ?app_assoc. cbn [app]. rewrite <- ?app_assoc. reflexivity. }
    rewrite Ht. cbn [enc_segs app fill].
    replace (len pre + 1) with (len (pre ++ [123])) by (rewrite app_length; simpl; lia).
    rewrite rune_slice_mid.
    change (fmtTypeFormatter =? fmtTypeLiteral) with false. change (fmtTypeFormatter =? fmtTypeFormatter) with true. cbv iota.
    cbn [render_segs]. destruct params as [|p params']; [reflexivity|].
    destruct (element_to_string rv d p) as [str|e|]; try reflexivity.
    rewrite Ht2.
    replace (len pre + len d + 2) with (len (pre ++ [123] ++ d ++ [125]))
      by (rewrite !app_length; cbn [length]; lia).
    rewrite IH. destruct (render_segs rv rest params'); try reflexivity. rewrite app_assoc. reflexivity.
Qed.

(* C14_format_spec, mechanism = specification on every template of the grammar and every argument list *)
Theorem format_string_spec rv segs params : wf_segs segs ->
  format_string rv (unparse segs) params =
  if len params =? len (holes segs) then render_segs rv segs params else FErr EUnmatch.
Proof.
  intros Hwf. unfold format_string. rewrite scan_accepts by exact Hwf. cbn [app].
  assert (Hstack : match last_state segs with SLiteral => enc_open 0 segs ++ [len (unparse segs)] | _ => enc_open 0 segs end
                   = enc_segs 0 segs).
  { rewrite <- (enc_open_closed segs 0). destruct (last_state segs); rewrite ?app_nil_r; reflexivity. }
  rewrite Hstack. rewrite enc_segs_length.
  replace (Z.of_nat (3 * length segs) mod 3 =? 0) with true
    by (symmetry; apply Z.eqb_eq; rewrite Nat2Z.inj_mul, Z.mul_comm; apply Z_mod_mult).
  cbn [negb]. unfold nholes. cbn [Z.add].
  destruct (len params =? len (holes segs)); cbn [negb]; [|reflexivity].
  pose proof (fill_renders rv segs [] params []) as F. cbn [app length] in F. change (Z.of_nat 0) with 0 in F. rewrite F.
  destruct (render_segs rv segs params); reflexivity.
Qed.

(* rendering a parse never panics when the counts agree *)
Lemma render_segs_no_crash rv : forall segs params, length params = length (holes segs) -> render_segs rv segs params <> FCrash.
Proof.
  induction segs as [|[l|d] rest IH]; intros params Hl; cbn [render_segs].
  - discriminate.
  - specialize (IH params Hl). destruct (render_segs rv rest params); congruence.
  - change (holes (Hole d :: rest)) with (d :: holes rest) in Hl. cbn [length] in Hl.
    destruct params as [|p params']; [discriminate|]. cbn [length] in Hl. injection Hl as Hl.
    specialize (IH params' Hl).
    unfold element_to_string, parse_number_formatter.
    destruct d as [|c d'].
    + destruct p; try discriminate; destruct (render_segs rv rest params'); congruence.
    + destruct (c =? 35) eqn:E.
      * apply Z.eqb_eq in E. subst c. destruct p; try discriminate.
        destruct (parse_directive d'); [|discriminate].
        destruct (render_segs rv rest params'); congruence.
      * assert (forall A (x y : fres A) , (match c with 35 => x | _ => y end) = y) as Hm.
        { intros. destruct c as [|q|q]; try reflexivity. do 6 (destruct q; try reflexivity). discriminate. }
        rewrite Hm. discriminate.
Qed.

(* ------------------------------------------------------------------ *)
(* Every template the scanner accepts is a template of the grammar       *)

Definition ends_lit (segs : list seg) : bool :=
  match last_state segs with SLiteral => true | _ => false end.

Lemma wf_snoc_hole : forall segs d, wf_segs segs -> brace_free d -> wf_segs (segs ++ [Hole d]).
Proof.
  induction segs as [|[l|d0] rest IH]; intros d Hwf Hb.
  - cbn. auto.
  - cbn [wf_segs] in Hwf. destruct Hwf as (Hne & Hbl & Hnext & Hwf). cbn [app wf_segs].
    repeat split; auto. destruct rest as [|[?|?] ?]; cbn; auto.
  - cbn [wf_segs] in Hwf. destruct Hwf as (Hbd & Hwf). cbn [app wf_segs]. split; auto.
Qed.

Lemma wf_snoc_lit : forall segs l, wf_segs segs -> ends_lit segs = false -> l <> [] -> brace_free l -> wf_segs (segs ++ [Lit l]).
Proof.
  induction segs as [|[l0|d0] rest IH]; intros l Hwf He Hne Hb.
  - cbn. auto.
  - cbn [wf_segs] in Hwf. destruct Hwf as (Hne0 & Hbl & Hnext & Hwf). cbn [app wf_segs].
    destruct rest as [|s rest'].
    + unfold ends_lit in He. cbn in He. discriminate.
    + repeat split; auto; try (destruct s; cbn; auto; fail); try (apply IH; auto).
  - cbn [wf_segs] in Hwf. destruct Hwf as (Hbd & Hwf). cbn [app wf_segs]. split; auto.
Qed.

Lemma last_state_snoc_hole segs d : last_state (segs ++ [Hole d]) = SBegin.
Proof.
  induction segs as [|s rest IH]; [reflexivity|].
  cbn [app]. destruct s; destruct rest; cbn [app last_state] in *; auto.
Qed.

Lemma last_state_not_format segs : last_state segs <> SFormat.
Proof. induction segs as [|[l|d] rest IH]; cbn; try congruence; destruct rest; auto; congruence. Qed.

(* what has been read so far, per scanner state *)
Definition scan_inv (st : sstate) (pre : list Z) : Prop :=
  match st with
  | SBegin => exists segs, wf_segs segs /\ ends_lit segs = false /\ unparse segs = pre
  | SLiteral => exists segs l, wf_segs segs /\ ends_lit segs = false /\ l <> [] /\ brace_free l /\ pre = unparse segs ++ l
  | SFormat => exists segs d, wf_segs segs /\ brace_free d /\ pre = unparse segs ++ 123 :: d
  end.

Lemma brace_free_snoc l c : brace_free l -> is_brace c = false -> brace_free (l ++ [c]).
Proof. intros H Hc. apply Forall_app. split; [exact H | constructor; [exact Hc | constructor]]. Qed.

Lemma scan_sound : forall rs pre idx st stack cnt st' stack' cnt',
  scan_inv st pre -> scan_loop rs idx st stack cnt = Some (st', stack', cnt') -> scan_inv st' (pre ++ rs).
Proof.
  induction rs as [|c rs IH]; intros pre idx st stack cnt st' stack' cnt' Hinv H.
  - cbn in H. inversion H; subst. rewrite app_nil_r. exact Hinv.
  - replace (pre ++ c :: rs) with ((pre ++ [c]) ++ rs) by (rewrite <- app_assoc; reflexivity).
    cbn [scan_loop] in H.
    destruct (c =? 123) eqn:E1.
    { apply Z.eqb_eq in E1. subst c. destruct st; [| |discriminate]; eapply IH; try exact H; cbn [scan_inv] in *.
      - destruct Hinv as (segs & Hwf & He & Hu). exists segs, []. repeat split; auto. constructor. rewrite Hu. reflexivity.
      - destruct Hinv as (segs & l & Hwf & He & Hne & Hb & Hu). exists (segs ++ [Lit l]), []. repeat split.
        + apply wf_snoc_lit; auto.
        + constructor.
        + rewrite unparse_app, Hu. cbn. rewrite app_nil_r. reflexivity. }
    destruct (c =? 125) eqn:E2.
    { apply Z.eqb_eq in E2. subst c. destruct st; [discriminate|discriminate|]. eapply IH; try exact H. cbn [scan_inv] in *.
      destruct Hinv as (segs & d & Hwf & Hb & Hu). exists (segs ++ [Hole d]). repeat split.
      - apply wf_snoc_hole; auto.
      - unfold ends_lit. rewrite last_state_snoc_hole. reflexivity.
      - rewrite unparse_app, Hu. cbn. rewrite app_nil_r, <- !app_assoc. reflexivity. }
    assert (Hc : is_brace c = false) by (unfold is_brace; rewrite E1, E2; reflexivity).
    destruct st; eapply IH; try exact H; cbn [scan_inv] in *.
    + destruct Hinv as (segs & Hwf & He & Hu). exists segs, [c]. repeat split; auto; try congruence.
      constructor; [exact Hc | constructor].
    + destruct Hinv as (segs & l & Hwf & He & Hne & Hb & Hu). exists segs, (l ++ [c]). repeat split; auto.
      all: try (destruct l; discriminate).
      all: try (apply brace_free_snoc; auto; fail).
      all: try (rewrite Hu, app_assoc; reflexivity).
    + destruct Hinv as (segs & d & Hwf & Hb & Hu). exists segs, (d ++ [c]). repeat split; auto.
      all: try (apply brace_free_snoc; auto; fail).
      all: try (rewrite Hu, <- app_assoc; reflexivity).
Qed.

(* length of the stack modulo 3, per state *)
Definition stack_tag (st : sstate) : Z := match st with SBegin => 0 | _ => 2 end.

Lemma scan_stack_mod : forall rs idx st stack cnt st' stack' cnt',
  scan_loop rs idx st stack cnt = Some (st', stack', cnt') ->
  len stack mod 3 = stack_tag st -> len stack' mod 3 = stack_tag st'.
Proof.
  induction rs as [|c rs IH]; intros idx st stack cnt st' stack' cnt' H Hm.
  - cbn in H. inversion H; subst. exact Hm.
  - cbn [scan_loop] in H.
    destruct (c =? 123); [|destruct (c =? 125)]; destruct st; try discriminate;
      (eapply IH; [exact H|]); rewrite ?app_length; cbn [length stack_tag] in *; rewrite ?Nat2Z.inj_add; cbn [Z.of_nat];
      try exact Hm; Z.div_mod_to_equations; lia.
Qed.

(* C14_scanner_refines_template_grammar: for ALL templates the scanner succeeds (passes the len%3 test)
   exactly on the templates of the grammar *)
Theorem scanner_sound tpl st stack cnt :
  scan_loop tpl 0 SBegin [] 0 = Some (st, stack, cnt) -> st <> SFormat ->
  exists segs, wf_segs segs /\ unparse segs = tpl.
Proof.
  intros H Hst. pose proof (scan_sound tpl [] 0 SBegin [] 0 st stack cnt) as S. cbn [app] in S.
  assert (I0 : scan_inv SBegin []) by (exists []; repeat split; constructor).
  specialize (S I0 H). destruct st; [| |congruence]; cbn [scan_inv] in S.
  - destruct S as (segs & Hwf & _ & Hu). eauto.
  - destruct S as (segs & l & Hwf & He & Hne & Hb & Hu). exists (segs ++ [Lit l]). split.
    + apply wf_snoc_lit; auto.
    + rewrite unparse_app, Hu. cbn. rewrite app_nil_r. reflexivity.
Qed.

Theorem format_invalid_template_iff rv tpl params :
  format_string rv tpl params = FErr EInvalidTemplate <-> ~ exists segs, wf_segs segs /\ unparse segs = tpl.
Proof.
  split.
  - intros H [segs [Hwf Hu]]. subst tpl. rewrite format_string_spec in H by exact Hwf.
    destruct (len params =? len (holes segs)) eqn:E; [|discriminate].
    (* a rendering error is never EInvalidTemplate *)
    clear E. revert params H. induction segs as [|[l|d] rest IH]; intros params H; cbn [render_segs] in H.
    + discriminate.
    + cbn [wf_segs] in Hwf. destruct Hwf as (_ & _ & _ & Hwf). specialize (IH Hwf params).
      destruct (render_segs rv rest params); try discriminate. auto.
    + cbn [wf_segs] in Hwf. destruct Hwf as (_ & Hwf). destruct params as [|p params']; [discriminate|].
      destruct (element_to_string rv d p) as [s|e|] eqn:Ee.
      * specialize (IH Hwf params'). destruct (render_segs rv rest params'); try discriminate. auto.
      * unfold element_to_string, parse_number_formatter in Ee. inversion H; subst e.
        destruct d as [|c d']; [destruct p; discriminate|].
        destruct c as [|q|q]; try discriminate. do 6 (destruct q; try discriminate).
        destruct p; try discriminate. destruct (parse_directive d'); discriminate.
      * discriminate.
  - intros Hno. unfold format_string.
    destruct (scan_loop tpl 0 SBegin [] 0) as [[[st stack] cnt]|] eqn:Hs; [|reflexivity].
    destruct st.
    + exfalso. apply Hno. eapply scanner_sound; eauto. congruence.
    + exfalso. apply Hno. eapply scanner_sound; eauto. congruence.
    + pose proof (scan_stack_mod _ _ _ _ _ _ _ _ Hs eq_refl) as Hm. cbn [stack_tag] in Hm.
      rewrite Hm. reflexivity.
Qed.

Lemma template_parse_or_not tpl :
  (exists segs, wf_segs segs /\ unparse segs = tpl) \/ ~ (exists segs, wf_segs segs /\ unparse segs = tpl).
Proof.
  destruct (scan_loop tpl 0 SBegin [] 0) as [[[st stack] cnt]|] eqn:Hs.
  - destruct st.
    + left. eapply scanner_sound; eauto. congruence.
    + left. eapply scanner_sound; eauto. congruence.
    + right. intros (segs & Hwf & Hu). subst tpl. rewrite scan_accepts in Hs by exact Hwf.
      inversion Hs as [[Hl Ho Hn]]. eapply last_state_not_format; eauto.
  - right. intros (segs & Hwf & Hu). subst tpl. rewrite scan_accepts in Hs by exact Hwf. discriminate.
Qed.

(* C14_format_errors *)
Theorem format_string_total rv tpl params :
  (exists segs, wf_segs segs /\ unparse segs = tpl /\
     format_string rv tpl params =
       if len params =? len (holes segs) then render_segs rv segs params else FErr EUnmatch)
  \/ ((~ exists segs, wf_segs segs /\ unparse segs = tpl) /\ format_string rv tpl params = FErr EInvalidTemplate).
Proof.
  destruct (template_parse_or_not tpl) as [(segs & Hwf & Hu)|Hno].
  - left. exists segs. repeat split; auto. subst tpl. apply format_string_spec. exact Hwf.
  - right. split; [exact Hno|]. apply format_invalid_template_iff. exact Hno.
Qed.

Theorem format_string_no_crash rv tpl params : format_string rv tpl params <> FCrash.
Proof.
  destruct (format_string_total rv tpl params) as [(segs & Hwf & Hu & ->)|[_ ->]]; [|discriminate].
  destruct (len params =? len (holes segs)) eqn:E; [|discriminate].
  apply render_segs_no_crash. apply Z.eqb_eq in E. lia.
Qed.

(* the parse of a template is unique, so "the k-th placeholder" is well defined *)
Theorem parse_unique segs1 segs2 : wf_segs segs1 -> wf_segs segs2 -> unparse segs1 = unparse segs2 -> segs1 = segs2.
Proof.
  intros H1 H2 Hu.
  pose proof (scan_accepts segs1 0 [] 0 H1) as S1. pose proof (scan_accepts segs2 0 [] 0 H2) as S2.
  rewrite Hu in S1. rewrite S1 in S2. inversion S2 as [[Hl Ho Hn]]. clear S1 S2.
  (* the triples determine the parse *)
  assert (Henc : enc_segs 0 segs1 = enc_segs 0 segs2).
  { rewrite <- (enc_open_closed segs1 0), <- (enc_open_closed segs2 0), Hl, Ho, Hu. reflexivity. }
  clear Hl Ho Hn. revert Hu Henc H1 H2. generalize 0 as off. revert segs2.
  induction segs1 as [|s1 r1 IH]; intros segs2 off Hu Henc H1 H2.
  - destruct segs2 as [|[?|?] ?]; [reflexivity| |]; discriminate.
  - destruct segs2 as [|s2 r2]; [destruct s1; discriminate|].
    rewrite !unparse_cons in Hu.
    destruct s1 as [l1|d1], s2 as [l2|d2]; cbn [enc_segs app] in Henc; inversion Henc as [[He1 He2]]; try discriminate.
    + assert (Hlen : length l1 = length l2) by lia.
      cbn [unparse_seg] in Hu.
      assert (l1 = l2 /\ unparse r1 = unparse r2) as [-> Hr].
      { clear - Hlen Hu. revert l2 Hlen Hu. induction l1; intros [|? l2] Hlen Hu; try discriminate; cbn in *.
        - auto.
        - inversion Hu; subst. destruct (IHl1 l2) as [-> ?]; auto. }
      f_equal. apply (IH r2 (off + len l2)); auto; cbn [wf_segs] in *; tauto.
    + assert (Hlen : length d1 = length d2) by lia.
      cbn [unparse_seg app] in Hu. inversion Hu as [Hu'].
      assert (d1 = d2 /\ unparse r1 = unparse r2) as [-> Hr].
      { clear - Hlen Hu'. revert d2 Hlen Hu'. induction d1; intros [|? d2] Hlen Hu'; try discriminate; cbn in *.
        - inversion Hu'. auto.
        - inversion Hu'; subst. destruct (IHd1 d2) as [-> ?]; auto. }
      f_equal. apply (IH r2 (off + len d2 + 2)); auto; cbn [wf_segs] in *; tauto.
Qed.

(* ------------------------------------------------------------------ *)
(* The directive machine = the documented directive grammar              *)

Definition all_digits (ds : list Z) : Prop := Forall (fun c => is_digit c = true) ds.

Lemma digit_not_special c : is_digit c = true ->
  (c =? 43) = false /\ (c =? 46) = false /\ (c =? 69) = false /\ (c =? 37) = false.
Proof. unfold is_digit. intros H. repeat split; lia. Qed.

Lemma dec_value_mono : forall ds acc, all_digits ds -> 0 <= acc -> acc <= dec_value ds acc.
Proof.
  induction ds as [|c ds IH]; intros acc Hd Ha; cbn [dec_value]; [lia|].
  inversion Hd as [|? ? Hc Hd']; subst. unfold is_digit in Hc.
  specialize (IH (acc * 10 + (c - 48)) Hd' ltac:(lia)). lia.
Qed.

(* running the machine over the digits of the precision *)
Lemma dir_loop_digits : forall ds rest p pl sc pc, all_digits ds -> 0 <= p <= MAXPREC ->
  dir_loop (ds ++ rest) DFixedSign (mkDir p pl true sc pc) =
  if dec_value ds p >? MAXPREC then None else dir_loop rest DFixedSign (mkDir (dec_value ds p) pl true sc pc).
Proof.
  induction ds as [|c ds IH]; intros rest p pl sc pc Hd Hp.
  - cbn [app dec_value]. replace (p >? MAXPREC) with false by lia. reflexivity.
  - inversion Hd as [|? ? Hc Hd']; subst. destruct (digit_not_special c Hc) as (E1 & E2 & E3 & E4).
    cbn [app dir_loop dec_value d_prec d_plus d_fixed d_sci d_pct]. rewrite E1, E2, E3, E4, Hc.
    destruct (p * 10 + (c - 48) >? MAXPREC) eqn:E.
    + unfold is_digit in Hc. pose proof (dec_value_mono ds (p * 10 + (c - 48)) Hd' ltac:(lia)).
      replace (dec_value ds (p * 10 + (c - 48)) >? MAXPREC) with true by lia. reflexivity.
    + unfold is_digit in Hc. apply IH; [exact Hd' | lia].
Qed.

Lemma dir_terminal cs st d0 d : (st = DScientificSign \/ st = DPercentSign) ->
  dir_loop cs st d0 = Some d -> cs = [] /\ d = d0.
Proof.
  intros Hst H. destruct cs as [|c tl]; [cbn in H; inversion H; auto|]. exfalso.
  cbn [dir_loop] in H.
  destruct (c =? 43); [destruct Hst; subst; discriminate|].
  destruct (c =? 46); [destruct Hst; subst; discriminate|].
  destruct (c =? 69); [destruct Hst; subst; discriminate|].
  destruct (c =? 37); [destruct Hst; subst; discriminate|].
  destruct (is_digit c); destruct Hst; subst; discriminate.
Qed.

Definition suf_sci (s : suffix) : bool := match s with SufE => true | _ => false end.
Definition suf_pct (s : suffix) : bool := match s with SufPct => true | _ => false end.

(* from the state after '.', the rest is digits followed by an optional suffix *)
Lemma dir_fixed_sound : forall cs p pl d, 0 <= p <= MAXPREC ->
  dir_loop cs DFixedSign (mkDir p pl true false false) = Some d ->
  exists ds suf, cs = ds ++ suffix_chars suf /\ all_digits ds /\ dec_value ds p <= MAXPREC /\
                 d = mkDir (dec_value ds p) pl true (suf_sci suf) (suf_pct suf).
Proof.
  induction cs as [|c tl IH]; intros p pl d Hp H.
  - cbn in H. inversion H. exists [], SufNone. repeat split; try constructor; cbn; lia.
  - cbn [dir_loop d_prec d_plus d_fixed d_sci d_pct] in H.
    destruct (c =? 43) eqn:E1; [discriminate|].
    destruct (c =? 46) eqn:E2; [discriminate|].
    destruct (c =? 69) eqn:E3.
    { apply dir_terminal in H; [|auto]. destruct H as [-> ->]. apply Z.eqb_eq in E3. subst c.
      exists [], SufE. repeat split; try constructor; cbn; lia. }
    destruct (c =? 37) eqn:E4.
    { apply dir_terminal in H; [|auto]. destruct H as [-> ->]. apply Z.eqb_eq in E4. subst c.
      exists [], SufPct. repeat split; try constructor; cbn; lia. }
    destruct (is_digit c) eqn:Ed; [|discriminate].
    destruct (p * 10 + (c - 48) >? MAXPREC) eqn:Eb; [discriminate|].
    assert (Hp' : 0 <= p * 10 + (c - 48) <= MAXPREC) by (unfold is_digit in Ed; lia).
    destruct (IH _ _ _ Hp' H) as (ds & suf & Hcs & Hds & Hv & Hd).
    exists (c :: ds), suf. repeat split; auto.
    + rewrite Hcs. reflexivity.
    + constructor; auto.
Qed.

Lemma maxprec_pos : 0 <= 0 <= MAXPREC.
Proof. unfold MAXPREC. lia. Qed.

(* C14_directive_machine_is_documented_grammar, soundness: whatever the machine accepts has the form
   '+'? ('.' digit* )? ('E'|'%')?  with a precision of at most MAXPREC, and the flags are those of that form *)
Theorem directive_sound cs d : parse_directive cs = Some d ->
  exists plus fixed suf, cs = directive_text plus fixed suf /\
    (match fixed with Some ds => all_digits ds /\ dec_value ds 0 <= MAXPREC | None => True end) /\
    d = directive_of plus fixed suf.
Proof.
  unfold parse_directive, dir0. intros H.
  (* after an optional '+' *)
  assert (Hrest : forall cs pl st, (st = DBegin \/ st = DPositiveSign) ->
            (forall c tl, cs = c :: tl -> c <> 43) ->
            dir_loop cs st (mkDir 0 pl false false false) = Some d ->
            exists fixed suf, cs = (match fixed with Some ds => 46 :: ds | None => [] end) ++ suffix_chars suf /\
              (match fixed with Some ds => all_digits ds /\ dec_value ds 0 <= MAXPREC | None => True end) /\
              d = directive_of pl fixed suf).
  { clear H cs. intros cs pl st Hst Hnp H. destruct cs as [|c tl].
    - cbn in H. inversion H. exists None, SufNone. repeat split.
    - cbn [dir_loop d_prec d_plus d_fixed d_sci d_pct] in H.
      destruct (c =? 43) eqn:E1; [apply Z.eqb_eq in E1; exfalso; eapply Hnp; eauto|].
      destruct (c =? 46) eqn:E2.
      { apply Z.eqb_eq in E2. subst c.
        assert (H' : dir_loop tl DFixedSign (mkDir 0 pl true false false) = Some d) by (destruct Hst; subst; exact H).
        destruct (dir_fixed_sound _ _ _ _ maxprec_pos H') as (ds & suf & Hcs & Hds & Hv & Hd).
        exists (Some ds), suf. rewrite Hcs. repeat split; auto. }
      destruct (c =? 69) eqn:E3.
      { assert (H' : dir_loop tl DScientificSign (mkDir 0 pl false true false) = Some d) by (destruct Hst; subst; exact H).
        apply dir_terminal in H'; [|auto]. destruct H' as [-> ->]. apply Z.eqb_eq in E3. subst c.
        exists None, SufE. repeat split. }
      destruct (c =? 37) eqn:E4.
      { assert (H' : dir_loop tl DPercentSign (mkDir 0 pl false false true) = Some d) by (destruct Hst; subst; exact H).
        apply dir_terminal in H'; [|auto]. destruct H' as [-> ->]. apply Z.eqb_eq in E4. subst c.
        exists None, SufPct. repeat split. }
      destruct (is_digit c); destruct Hst; subst; discriminate. }
  destruct cs as [|c tl].
  - cbn in H. inversion H. exists false, None, SufNone. repeat split.
  - destruct (c =? 43) eqn:E1.
    + apply Z.eqb_eq in E1. subst c. cbn [dir_loop d_prec d_plus d_fixed d_sci d_pct] in H. change (43 =? 43) with true in H. cbv iota in H.
      assert (Hnp : forall c tl', tl = c :: tl' -> c <> 43).
      { intros c tl' -> ->. cbn [dir_loop] in H. change (43 =? 43) with true in H. cbv iota in H. discriminate. }
      destruct (Hrest tl true DPositiveSign ltac:(auto) Hnp H) as (fixed & suf & Hcs & Hf & Hd).
      exists true, fixed, suf. unfold directive_text. rewrite Hcs. repeat split; auto.
    + assert (Hnp : forall c' tl', c :: tl = c' :: tl' -> c' <> 43).
      { intros c' tl' Heq ->. inversion Heq; subst. discriminate. }
      destruct (Hrest (c :: tl) false DBegin ltac:(auto) Hnp H) as (fixed & suf & Hcs & Hf & Hd).
      exists false, fixed, suf. unfold directive_text. rewrite Hcs. repeat split; auto.
Qed.

(* completeness: every directive of that form (precision <= MAXPREC) is accepted with exactly these flags *)
Theorem directive_complete plus fixed suf :
  (match fixed with Some ds => all_digits ds /\ dec_value ds 0 <= MAXPREC | None => True end) ->
  parse_directive (directive_text plus fixed suf) = Some (directive_of plus fixed suf).
Proof.
  intros Hf. unfold parse_directive, directive_text, directive_of, dir0.
  destruct fixed as [ds|].
  - destruct Hf as [Hds Hv].
    assert (Hfix : forall pl, dir_loop (ds ++ suffix_chars suf) DFixedSign (mkDir 0 pl true false false) =
              Some (mkDir (dec_value ds 0) pl true (suf_sci suf) (suf_pct suf))).
    { intros pl. rewrite dir_loop_digits by (auto using maxprec_pos).
      replace (dec_value ds 0 >? MAXPREC) with false by lia.
      destruct suf; reflexivity. }
    destruct plus; cbn [app dir_loop d_prec d_plus d_fixed d_sci d_pct];
      change (43 =? 43) with true; change (46 =? 43) with false; change (46 =? 46) with true; cbv iota;
      rewrite Hfix; destruct suf; reflexivity.
  - destruct plus, suf; reflexivity.
Qed.

(* a precision above MAXPREC (such as 99999999999999999999, which overflowed in the pinned code) is rejected *)
Theorem directive_precision_bounded plus ds suf : all_digits ds -> dec_value ds 0 > MAXPREC ->
  parse_directive (directive_text plus (Some ds) suf) = None.
Proof.
  intros Hds Hv. unfold parse_directive, directive_text, dir0.
  destruct plus; cbn [app dir_loop d_prec d_plus d_fixed d_sci d_pct];
    change (43 =? 43) with true; change (46 =? 43) with false; change (46 =? 46) with true; cbv iota;
    rewrite dir_loop_digits by (auto using maxprec_pos);
    replace (dec_value ds 0 >? MAXPREC) with true by lia; reflexivity.
Qed.

(* numeric directive on anything but a number, and {} on a value without display form *)
Lemma element_to_string_errors rv d e :
  match d, e with
  | [], EOther => element_to_string rv d e = FErr EParamType
  | [], _ => element_to_string rv d e = FOk (display rv e)
  | 35 :: rest, ENum bits =>
      element_to_string rv d e =
      match parse_directive rest with Some dr => FOk (render_directive dr bits) | None => FErr EBadDirective end
  | 35 :: _, _ => element_to_string rv d e = FErr ENotNumber
  | _ :: _, _ => element_to_string rv d e = FErr EBadDirective
  end.
Proof.
  destruct d as [|c rest].
  - destruct e; reflexivity.
  - destruct c as [|q|q]; try (destruct e; reflexivity).
    do 6 (destruct q; try (destruct e; reflexivity)).
Qed.
