(* C03 - operator precedence and associativity of the expression parser, for ALL operator-expression trees.
   (Model with fixes/C03-chain: comparisons loop at their level - NLv3 / NLv3Tail - like every other level.)

   Part 1 (tokens).  Surface trees [sx]: identifier leaves (numbers are identifier tokens in this language) and binary
     operators given by their TOKEN type, so both spellings of a comparison (== / 等于 ...) are covered; [ast s] is the
     tree the grammar prescribes; [show s] prints s with braces { } exactly where the binding levels require them
     (levels: * / | % = 1, + - = 2, comparisons = 4, 且 = 5, 或 = 6; every level is left associative: left operand
     at the level of the operator, right operand one level below).
     [parse_show_tokens]: on ANY parser state that presents the tokens [show s] followed by a token that cannot
     continue an expression, ParseExpression returns exactly [ast s] (every tree, every nesting depth).
   Part 2 (characters).  [showc s] = the tokens as code points with single spaces.  From the first character of the
     text: [parse_show_chars] (whole text), [parse_show_chars_rest] (in front of any further text),
     [compile_show_chars] (the whole front end: the program is exactly that one expression).
     Leaves: any non-empty identifier made of characters satisfying [idc] (computable; letters, digits, CJK ...).
   Part 3.  The same for the trees of model/Ast.v ([C03_precedence_all_trees]: EId / EArith 12..17 / ELogic 1,2,4..11),
     corollaries (a + b * c, a - b - c, a == b == c, ...), examples by computation; chained comparisons
     (A == B == C, rejected by the pinned parser against the manual) are accepted with the left-nested tree.
   Part 4.  More fuel never changes a result ([parse_mono], [compile_mono]); hence the theorems hold with the fuel
     the front end gives itself ([compile_show_chars_default]) and for every fuel that does not run out.
   Not covered here: member / index / call chains, assignment expressions; other spacings: proofs/ExprPrecSpacesProofs.v. *)
From Coq Require Import List ZArith Bool Lia Arith.
Import ListNotations.
From Zn.gen Require Import GenFrontTokens.
From Zn.model Require Import LexerTok Lexer Ast Parser.
From Zn.model Require StringLit.
From Zn.proofs Require Import FrontLexProofs FrontCompleteProofs FrontTotalProofs.
Open Scope Z_scope.

(* ------------------------------------------------------------------ surface syntax *)
Inductive sx :=
| SId (name : lit)
| SBin (op : Z) (l r : sx).          (* op = token type of the operator *)

(* the tokens each level of the grammar looks for after an operand (level 0 = member chains, 3 = assignment) *)
Definition ops (k : nat) : list Z :=
  match k with
  | 0%nat => [g_TypeMapHash; g_TypeObjDotW; g_TypeObjDotIIW]
  | 1%nat => [g_TypeMultiply; g_TypeDivision; g_TypeIntDivMark; g_TypeModuloMark]
  | 2%nat => [g_TypePlus; g_TypeMinus]
  | 3%nat => [g_TypeAssignW; g_TypeAssignMark]
  | 4%nat => lv3_types
  | 5%nat => [g_TypeLogicAndW]
  | 6%nat => [g_TypeLogicOrW]
  | _ => []
  end.

(* binding level of an operator token: 1 = * / | %, 2 = + -, 4 = comparisons, 5 = 且, 6 = 或; 0 = not an operator *)
Definition lvl (op : Z) : nat :=
  if mem op (ops 1) then 1 else if mem op (ops 2) then 2 else if mem op (ops 4) then 4
  else if mem op (ops 5) then 5 else if mem op (ops 6) then 6 else 0.

Definition nodek (k : nat) (op : Z) (l r : expr) : expr :=
  match k with
  | 1%nat => EArith (muldiv_type op) l r
  | 2%nat => EArith (if op =? g_TypeMinus then 13 else 12) l r
  | 4%nat => ELogic (logic_type op) l r
  | 5%nat => ELogic 2 l r
  | 6%nat => ELogic 1 l r
  | _ => l
  end.

(* the tree the grammar prescribes *)
Fixpoint ast (s : sx) : expr :=
  match s with
  | SId n => EId n
  | SBin op l r => nodek (lvl op) op (ast l) (ast r)
  end.

Definition prec (s : sx) : nat := match s with SId _ => 0%nat | SBin op _ _ => lvl op end.

Fixpoint wf (s : sx) : bool :=
  match s with
  | SId _ => true
  | SBin op l r => negb (lvl op =? 0)%nat && wf l && wf r
  end.

(* abstract tokens: type and text *)
Definition atok : Type := (Z * lit)%type.
Definition tL : atok := (g_TypeStmtQuoteL, []).
Definition tR : atok := (g_TypeStmtQuoteR, []).

(* an operand of binding level p printed where level k is expected *)
Definition brace (k p : nat) (ts : list atok) : list atok := if (p <=? k)%nat then ts else tL :: ts ++ [tR].
(* the LEFT operand may be of the level of the operator itself (every level is left associative), the RIGHT operand
   must be of a level below *)

Fixpoint show (s : sx) : list atok :=
  match s with
  | SId n => [(g_TypeIdentifier, n)]
  | SBin op l r => brace (lvl op) (prec l) (show l) ++ (op, []) :: brace (lvl op - 1) (prec r) (show r)
  end.
Definition opnd (k : nat) (s : sx) : list atok := brace k (prec s) (show s).

(* ------------------------------------------------------------------ parser states that present tokens *)
Definition headok (t : atok) (st : pstate) : Prop :=
  flag st = false /\ exists tk, p2 st = Some tk /\ t_ty tk = fst t /\ text_of tk = snd t.

(* [feeds ts st st']: the peek token of st is the first of ts, ... and st' is the state after taking all of them *)
Inductive feeds : list atok -> pstate -> pstate -> Prop :=
| F_nil : forall st, feeds [] st st
| F_cons : forall t ts st st1 st', headok t st -> p_next st = Ok tt st1 -> feeds ts st1 st' -> feeds (t :: ts) st st'.

Definition stopb (k : nat) (t : Z) : bool :=
  negb (t =? g_TypeCommaSep) && forallb (fun j => negb (mem t (ops j))) (seq 0 (S k)).

(* the peek token ends an expression of level k: the statement is complete, or it is not an operator of level <= k *)
Definition stops (k : nat) (st : pstate) : Prop :=
  exists tk, p2 st = Some tk /\ (t_ty tk =? g_TypeCommaSep) = false /\ (flag st = true \/ stopb k (t_ty tk) = true).

Lemma feeds_app : forall a b st st', feeds (a ++ b) st st' <-> exists st1, feeds a st st1 /\ feeds b st1 st'.
Proof.
  induction a as [|t a IH]; intros b st st'; cbn [app].
  - split.
    + intro H. exists st. split; [constructor|exact H].
    + intros (st1 & H1 & H2). inversion H1; subst. exact H2.
  - split.
    + intro H. inversion H as [|t0 ts0 s0 s1 s2 HO PN FE]; subst.
      apply IH in FE. destruct FE as (st2 & F1 & F2). exists st2. split; [econstructor; eauto|exact F2].
    + intros (st2 & H1 & H2). inversion H1 as [|t0 ts0 s0 s1 s2 HO PN FE]; subst.
      econstructor; eauto. apply IH. eauto.
Qed.

Lemma feeds_one : forall t st st', feeds [t] st st' <-> headok t st /\ p_next st = Ok tt st'.
Proof.
  intros t st st'. split.
  - intro H. inversion H as [|t0 ts0 s0 s1 s2 HO PN FE]; subst. inversion FE; subst. auto.
  - intros [H1 H2]. econstructor; eauto. constructor.
Qed.

Lemma feeds_cons : forall t ts st st', feeds (t :: ts) st st' <-> headok t st /\ exists st1, p_next st = Ok tt st1 /\ feeds ts st1 st'.
Proof.
  intros t ts st st'. split.
  - intro H. inversion H as [|t0 ts0 s0 s1 s2 HO PN FE]; subst. eauto.
  - intros (H1 & st1 & H2 & H3). econstructor; eauto.
Qed.

Lemma feeds_det : forall ts st s1 s2, feeds ts st s1 -> feeds ts st s2 -> s1 = s2.
Proof.
  induction ts as [|t ts IH]; intros st s1 s2 H1 H2.
  - inversion H1; inversion H2; subst. congruence.
  - inversion H1 as [|? ? ? a1 ? ? P1 F1]; inversion H2 as [|? ? ? a2 ? ? P2 F2]; subst.
    rewrite P1 in P2. inversion P2; subst. eauto.
Qed.

Lemma stopb_comma : forall k t, stopb k t = true -> (t =? g_TypeCommaSep) = false.
Proof. intros k t H. unfold stopb in H. apply andb_true_iff in H. destruct H as [H _]. apply negb_true_iff in H. exact H. Qed.

Lemma stopb_mem : forall k t j, stopb k t = true -> (j <= k)%nat -> mem t (ops j) = false.
Proof.
  intros k t j H L. unfold stopb in H. apply andb_true_iff in H. destruct H as [_ H].
  rewrite forallb_forall in H. specialize (H j). apply negb_true_iff. apply H. apply in_seq. lia.
Qed.

Lemma stopb_le : forall k k' t, stopb k t = true -> (k' <= k)%nat -> stopb k' t = true.
Proof.
  intros k k' t H L. unfold stopb. apply andb_true_iff. split.
  - apply negb_true_iff. eapply stopb_comma; eauto.
  - apply forallb_forall. intros j Hj. apply in_seq in Hj. apply negb_true_iff. eapply stopb_mem; eauto. lia.
Qed.

Lemma stops_le : forall k k' st, stops k st -> (k' <= k)%nat -> stops k' st.
Proof.
  intros k k' st (tk & P & C & D) L. exists tk. split; [exact P|]. split; [exact C|].
  destruct D as [D|D]; [left; exact D|right; eapply stopb_le; eauto].
Qed.

Lemma headok_stops : forall k ty l st, headok (ty, l) st -> stopb k ty = true -> stops k st.
Proof.
  intros k ty l st [Hf (tk & P & T & X)] HS. cbn [fst snd] in *. exists tk. subst ty.
  split; [exact P|]. split; [eapply stopb_comma; eauto|right; exact HS].
Qed.

(* ------------------------------------------------------------------ tryConsume on such states *)
Lemma tc_take : forall valid ty l st st', headok (ty, l) st -> p_next st = Ok tt st' ->
  (ty =? g_TypeCommaSep) = false -> mem ty valid = true ->
  exists tk, tc valid st = Ok (Some tk) st' /\ t_ty tk = ty /\ text_of tk = l.
Proof.
  intros valid ty l st st' [Hf (tk & P & T & X)] PN C MV. cbn [fst snd] in *. exists tk.
  split; [|auto]. unfold tc. rewrite P, T, C. unfold try_tail. rewrite P, Hf, T, MV.
  unfold bind. rewrite PN. reflexivity.
Qed.

Lemma tc_none_head : forall valid ty l st, headok (ty, l) st ->
  (ty =? g_TypeCommaSep) = false -> mem ty valid = false -> tc valid st = Ok None st.
Proof.
  intros valid ty l st [Hf (tk & P & T & X)] C MV. cbn [fst snd] in *.
  unfold tc. rewrite P, T, C. unfold try_tail. rewrite P, Hf, T, MV. reflexivity.
Qed.

Lemma tc_stop : forall k j st, stops k st -> (j <= k)%nat -> tc (ops j) st = Ok None st.
Proof.
  intros k j st (tk & P & C & D) L. unfold tc. rewrite P, C. unfold try_tail. rewrite P.
  destruct (flag st) eqn:Hf; [reflexivity|].
  destruct D as [D|D]; [discriminate|]. rewrite (stopb_mem _ _ _ D L). reflexivity.
Qed.

(* ------------------------------------------------------------------ the productions by level *)
Definition pk (k : nat) (f : nat) : M expr :=
  match k with
  | 0%nat => parse f NMember
  | 1%nat => parse f NMulDiv
  | 2%nat => parse f NArith
  | 3%nat => parse f (NLv4 false)
  | 4%nat => parse f (NLv3 false)
  | 5%nat => parse f (NLv2 false)
  | _ => parse f (NExpr false)
  end.

Definition tailk (k : nat) (f : nat) (el : expr) : M expr :=
  match k with
  | 0%nat => parse f (NMemberTail el)
  | 1%nat => parse f (NMulDivTail el)
  | 2%nat => parse f (NArithTail el)
  | 4%nat => parse f (NLv3Tail false el)
  | 5%nat => parse f (NLv2Tail false el)
  | 6%nat => parse f (NLv1Tail false el)
  | _ => ret el
  end.

(* left-associative levels *)
Definition la (k : nat) : bool := (k =? 1)%nat || (k =? 2)%nat || (k =? 4)%nat || (k =? 5)%nat || (k =? 6)%nat.

Lemma la_cases : forall k, la k = true -> k = 1%nat \/ k = 2%nat \/ k = 4%nat \/ k = 5%nat \/ k = 6%nat.
Proof.
  intros k H. unfold la in H. repeat (apply orb_true_iff in H; destruct H as [H|H]);
    apply Nat.eqb_eq in H; auto.
Qed.

Lemma pk_unf : forall k f st, la k = true ->
  pk k (S f) st = bind (pk (k - 1) f) (fun el => tailk k f el) st.
Proof. intros k f st H. apply la_cases in H. destruct H as [H|[H|[H|[H|H]]]]; subst k; reflexivity. Qed.

Lemma tailk_unf : forall k f el st, la k = true ->
  tailk k (S f) el st =
  bind (tc (ops k)) (fun o => match o with
                              | Some tk => bind (pk (k - 1) f) (fun r => tailk k f (nodek k (t_ty tk) el r))
                              | None => ret el
                              end) st.
Proof. intros k f el st H. apply la_cases in H. destruct H as [H|[H|[H|[H|H]]]]; subst k; reflexivity. Qed.

Lemma tail_stop : forall k f el st, la k = true \/ k = 0%nat -> stops k st -> tailk k (S f) el st = Ok el st.
Proof.
  intros k f el st H HS.
  assert (T : tc (ops k) st = Ok None st) by (eapply tc_stop; eauto).
  destruct H as [H|H].
  - rewrite tailk_unf by exact H. unfold bind. rewrite T. reflexivity.
  - subst k. cbn [tailk parse]. unfold bind. cbn [ops] in T. rewrite T. reflexivity.
Qed.

Lemma pk_zero : forall k st, pk k 0 st = Fuel.
Proof. intros k st. do 7 (destruct k as [|k]; [reflexivity|]). reflexivity. Qed.

Lemma lv4_unf : forall f st,
  parse (S f) (NLv4 false) st =
  bind (parse f NArith) (fun l => bind (tc (ops 3)) (fun o =>
    match o with
    | Some _ => if assignable l then bind (parse f NArith) (fun r => ret (EAssign l r)) else fail_peek ErrMustTypeID
    | None => ret l
    end)) st.
Proof. reflexivity. Qed.

(* one level up when the next token ends that level *)
Lemma climb1 : forall k f st st' e, (k < 6)%nat -> pk k f st = Ok e st' -> stops (S k) st' -> pk (S k) (S f) st = Ok e st'.
Proof.
  intros k f st st' e L H HS.
  destruct f as [|f]; [rewrite pk_zero in H; discriminate|].
  assert (K : (k = 0 \/ k = 1 \/ k = 2 \/ k = 3 \/ k = 4 \/ k = 5)%nat) by lia.
  destruct K as [K|[K|[K|[K|[K|K]]]]]; subst k.
  - rewrite pk_unf by reflexivity. unfold bind. cbn [Nat.sub]. rewrite H. apply tail_stop; auto.
  - rewrite pk_unf by reflexivity. unfold bind. cbn [Nat.sub]. rewrite H. apply tail_stop; auto.
  - cbn [pk] in *. rewrite lv4_unf. unfold bind at 1. rewrite H.
    pose proof (tc_stop 3 3 st' HS (le_n _)) as T. unfold bind. rewrite T. reflexivity.
  - rewrite pk_unf by reflexivity. unfold bind. cbn [Nat.sub]. rewrite H. apply tail_stop; auto.
  - rewrite pk_unf by reflexivity. unfold bind. cbn [Nat.sub]. rewrite H. apply tail_stop; auto.
  - rewrite pk_unf by reflexivity. unfold bind. cbn [Nat.sub]. rewrite H. apply tail_stop; auto.
Qed.

Lemma climb : forall d k f st st' e, (k + d <= 6)%nat -> pk k f st = Ok e st' -> stops (k + d) st' ->
  pk (k + d) (f + d) st = Ok e st'.
Proof.
  induction d as [|d IH]; intros k f st st' e L H HS.
  - rewrite !Nat.add_0_r in *. exact H.
  - replace (k + S d)%nat with (S (k + d)) in * by lia. replace (f + S d)%nat with (S (f + d)) by lia.
    apply climb1; [lia| |exact HS]. apply IH; [lia|exact H|]. eapply stops_le; eauto.
Qed.

(* ------------------------------------------------------------------ leaves and brace groups *)
Lemma basic_id : forall f st st' n, headok (g_TypeIdentifier, n) st -> p_next st = Ok tt st' ->
  parse (S f) NBasic st = Ok (EId n) st'.
Proof.
  intros f st st' n HO PN.
  destruct (tc_take basic_types _ _ _ _ HO PN eq_refl eq_refl) as (tk & T & Ty & X).
  cbn [parse]. unfold bind. rewrite T. cbv zeta. rewrite Ty.
  change (g_TypeIdentifier =? g_TypeIdentifier) with true. cbv iota. unfold ret. rewrite X. reflexivity.
Qed.

Lemma consume_take : forall ty l st st', headok (ty, l) st -> p_next st = Ok tt st' ->
  (ty =? g_TypeCommaSep) = false -> consume [ty] st = Ok tt st'.
Proof.
  intros ty l st st' HO PN C.
  assert (MV : mem ty [ty] = true) by (cbn; rewrite Z.eqb_refl; reflexivity).
  destruct (tc_take [ty] _ _ _ _ HO PN C MV) as (tk & T & _).
  unfold consume, bind. rewrite T. reflexivity.
Qed.

Lemma basic_brace : forall f st st1 st2 st' e, headok tL st -> p_next st = Ok tt st1 ->
  parse f (NExpr false) st1 = Ok e st2 -> headok tR st2 -> p_next st2 = Ok tt st' ->
  parse (S f) NBasic st = Ok e st'.
Proof.
  intros f st st1 st2 st' e HO PN PE HR PR.
  destruct (tc_take basic_types _ _ _ _ HO PN eq_refl eq_refl) as (tk & T & Ty & X).
  cbn [parse]. unfold bind at 1. rewrite T. cbv zeta. rewrite Ty.
  change (g_TypeStmtQuoteL =? g_TypeIdentifier) with false.
  change (g_TypeStmtQuoteL =? g_TypeString) with false.
  change (g_TypeStmtQuoteL =? g_TypeArrayQuoteL) with false.
  change (g_TypeStmtQuoteL =? g_TypeStmtQuoteL) with true. cbv iota.
  unfold bind at 1. rewrite PE. unfold bind.
  rewrite (consume_take _ _ _ _ HR PR eq_refl). reflexivity.
Qed.

Lemma member_of_basic : forall f st st1 e ty l, headok (ty, l) st ->
  (ty =? g_TypeCommaSep) = false -> mem ty [g_TypeObjThisW] = false ->
  parse (S f) NBasic st = Ok e st1 -> stops 0 st1 -> parse (S (S f)) NMember st = Ok e st1.
Proof.
  intros f st st1 e ty l HO C MV PB HS.
  pose proof (tc_none_head [g_TypeObjThisW] _ _ _ HO C MV) as T.
  change (parse (S (S f)) NMember st) with
    (bind (tc [g_TypeObjThisW]) (fun o => match o with
        | Some _ => bind (tc [g_TypeIdentifier]) (fun o2 => match o2 with
              | Some tk => parse (S f) (NMemberTail (EMember None RootTypeProp MemberID (Some (text_of tk)) None))
              | None => fail_peek ErrInvalidSyntax end)
        | None => bind (parse (S f) NBasic) (fun root => parse (S f) (NMemberTail root)) end) st).
  unfold bind at 1. rewrite T. unfold bind. rewrite PB.
  apply (tail_stop 0 f e st1); auto.
Qed.

(* ------------------------------------------------------------------ the statements proved by induction *)
(* dk k s: fuel used between entering level k and reaching its loop with the whole of s as left operand *)
Fixpoint dk (k : nat) (s : sx) : nat :=
  match s with
  | SBin op l _ => if (lvl op =? k)%nat then S (dk k l) else 1%nat
  | SId _ => 1%nat
  end.

Definition OK (k : nat) (s : sx) (b : nat) : Prop :=
  forall F st st', (b <= F)%nat -> feeds (opnd k s) st st' -> stops k st' -> pk k F st = Ok (ast s) st'.

Definition QK (k : nat) (s : sx) (b : nat) : Prop :=
  forall f st st1 R, (b <= f)%nat -> feeds (opnd k s) st st1 -> stops (k - 1) st1 ->
    tailk k f (ast s) st1 = R -> pk k (f + dk k s) st = R.

Lemma OK_mono : forall k s b b', OK k s b -> (b <= b')%nat -> OK k s b'.
Proof. intros k s b b' H L F st st' LF. apply H. lia. Qed.
Lemma QK_mono : forall k s b b', QK k s b -> (b <= b')%nat -> QK k s b'.
Proof. intros k s b b' H L f st st1 R LF. apply H. lia. Qed.

Lemma lvl_le6 : forall op, (lvl op <= 6)%nat.
Proof. intro op. unfold lvl. repeat match goal with |- context [if ?b then _ else _] => destruct b end; lia. Qed.
Lemma prec_le6 : forall s, (prec s <= 6)%nat.
Proof. destruct s; cbn [prec]; [lia|apply lvl_le6]. Qed.

Lemma opnd_show : forall k s, (prec s <= k)%nat -> opnd k s = show s.
Proof. intros k s H. unfold opnd, brace. apply Nat.leb_le in H. rewrite H. reflexivity. Qed.
Lemma opnd_braced : forall k s, (k < prec s)%nat -> opnd k s = tL :: show s ++ [tR].
Proof. intros k s H. unfold opnd, brace. apply Nat.leb_gt in H. rewrite H. reflexivity. Qed.

Lemma O0_id : forall n, OK 0 (SId n) 2.
Proof.
  intros n F st st' LF FE HS. rewrite opnd_show in FE by (cbn; lia). cbn [show] in FE.
  apply feeds_one in FE. destruct FE as [HO PN].
  destruct F as [|[|f]]; try lia.
  apply (member_of_basic f st st' (EId n) g_TypeIdentifier n); auto.
  apply basic_id; auto.
Qed.

Lemma O0_brace : forall s b, OK 6 s b -> (0 < prec s)%nat -> OK 0 s (b + 2).
Proof.
  intros s b H6 P F st st' LF FE HS. rewrite opnd_braced in FE by exact P.
  apply feeds_cons in FE. destruct FE as (HO & st1 & PN & FE).
  apply feeds_app in FE. destruct FE as (st2 & FS & FR).
  apply feeds_one in FR. destruct FR as [HR PR].
  destruct F as [|[|f]]; try lia.
  apply (member_of_basic f st st' (ast s) g_TypeStmtQuoteL []); auto.
  apply (basic_brace f st st1 st2 st'); auto.
  apply (H6 f st1 st2); [lia| |].
  - rewrite opnd_show by apply prec_le6. exact FS.
  - eapply headok_stops; [exact HR|reflexivity].
Qed.

(* from the level of the top operator to every level *)
Lemma OK_up : forall s b j, OK (prec s) s b -> (prec s <= j <= 6)%nat -> OK j s (b + 6).
Proof.
  intros s b j H L F st st' LF FE HS.
  rewrite opnd_show in FE by lia.
  replace j with (prec s + (j - prec s))%nat in * by lia.
  replace F with ((F - (j - prec s)) + (j - prec s))%nat by lia.
  apply climb; [lia| |exact HS].
  apply H; [lia| |eapply stops_le; eauto; lia].
  rewrite opnd_show by lia. exact FE.
Qed.

Lemma OK_all : forall s b j, OK (prec s) s b -> (j <= 6)%nat -> OK j s (b + 16).
Proof.
  intros s b j H L.
  destruct (le_lt_dec (prec s) j) as [D|D].
  - eapply OK_mono; [apply OK_up; eauto|lia].
  - assert (H6 : OK 6 s (b + 6)) by (apply OK_up; [exact H|pose proof (prec_le6 s); lia]).
    assert (H0 : OK 0 s (b + 8)) by (eapply OK_mono; [apply O0_brace; [exact H6|lia]|lia]).
    intros F st st' LF FE HS.
    rewrite opnd_braced in FE by exact D.
    replace F with ((F - j) + j)%nat by lia.
    apply (climb j 0); [lia| |exact HS].
    apply H0; [lia| |eapply stops_le; eauto; lia].
    rewrite opnd_braced by lia. exact FE.
Qed.

(* ------------------------------------------------------------------ facts about the operator tables *)
Lemma mem_in : forall x l, mem x l = true -> In x l.
Proof.
  intros x l H. unfold mem in H. apply existsb_exists in H. destruct H as (y & I & E).
  apply Z.eqb_eq in E. subst. exact I.
Qed.

Definition allops : list Z := ops 1 ++ ops 2 ++ ops 4 ++ ops 5 ++ ops 6.

Lemma lvl_allops : forall op, lvl op <> 0%nat -> In op allops.
Proof.
  intros op H. unfold lvl in H. unfold allops.
  destruct (mem op (ops 1)) eqn:E1; [apply mem_in in E1; apply in_or_app; auto|].
  destruct (mem op (ops 2)) eqn:E2; [apply mem_in in E2; apply in_or_app; right; apply in_or_app; auto|].
  destruct (mem op (ops 4)) eqn:E4; [apply mem_in in E4; do 2 (apply in_or_app; right); apply in_or_app; auto|].
  destruct (mem op (ops 5)) eqn:E5; [apply mem_in in E5; do 3 (apply in_or_app; right); apply in_or_app; auto|].
  destruct (mem op (ops 6)) eqn:E6; [apply mem_in in E6; do 4 (apply in_or_app; right); auto|].
  congruence.
Qed.

Lemma allops_facts :
  forallb (fun op => stopb (lvl op - 1) op && mem op (ops (lvl op)) && negb (op =? g_TypeCommaSep)) allops = true.
Proof. vm_compute. reflexivity. Qed.

Lemma lvl_facts : forall op k, lvl op = k -> k <> 0%nat ->
  stopb (k - 1) op = true /\ mem op (ops k) = true /\ (op =? g_TypeCommaSep) = false.
Proof.
  intros op k E N. subst k. pose proof allops_facts as A. rewrite forallb_forall in A.
  specialize (A op (lvl_allops op N)). apply andb_true_iff in A. destruct A as [A C].
  apply andb_true_iff in A. destruct A as [A B]. apply negb_true_iff in C. auto.
Qed.

Lemma opnd_pred : forall k s, prec s <> k -> opnd k s = opnd (k - 1) s.
Proof.
  intros k s N. unfold opnd, brace.
  destruct (prec s <=? k)%nat eqn:A; destruct (prec s <=? k - 1)%nat eqn:B; try reflexivity.
  - apply Nat.leb_le in A. apply Nat.leb_gt in B. lia.
  - apply Nat.leb_gt in A. apply Nat.leb_le in B. lia.
Qed.

Lemma dk_other : forall k s, prec s <> k -> dk k s = 1%nat.
Proof.
  intros k s N. destruct s as [n|op l r]; [reflexivity|]. cbn [dk prec] in *.
  apply Nat.eqb_neq in N. rewrite N. reflexivity.
Qed.

(* ------------------------------------------------------------------ the loops of the left-associative levels *)
Lemma QK_base : forall k s b, la k = true -> OK (k - 1) s b -> prec s <> k -> QK k s b.
Proof.
  intros k s b LA HO N f st st1 R LF FE HS HT.
  rewrite (dk_other _ _ N). replace (f + 1)%nat with (S f) by lia.
  rewrite pk_unf by exact LA. unfold bind.
  rewrite opnd_pred in FE by exact N.
  rewrite (HO f st st1 LF FE HS). exact HT.
Qed.

Lemma QK_step : forall k op l r b1 b2, la k = true -> lvl op = k ->
  QK k l b1 -> OK (k - 1) r b2 -> QK k (SBin op l r) (Nat.max b1 b2).
Proof.
  intros k op l r b1 b2 LA E HQ HO f st st1 R LF FE HS HT.
  assert (K0 : k <> 0%nat) by (intro Z0; subst k; rewrite Z0 in LA; discriminate).
  destruct (lvl_facts op k E K0) as (SB & MO & CO).
  rewrite opnd_show in FE by (cbn [prec]; lia).
  cbn [show] in FE. rewrite E in FE. fold (opnd k l) in FE. fold (opnd (k - 1) r) in FE.
  apply feeds_app in FE. destruct FE as (stl & FL & FE).
  apply feeds_cons in FE. destruct FE as (HOp & stm & PN & FR).
  cbn [dk]. rewrite E, Nat.eqb_refl. replace (f + S (dk k l))%nat with (S f + dk k l)%nat by lia.
  apply (HQ (S f) st stl R); [lia|exact FL|eapply headok_stops; eauto|].
  rewrite tailk_unf by exact LA.
  destruct (tc_take (ops k) _ _ _ _ HOp PN CO MO) as (tk & T & Ty & _).
  unfold bind at 1. rewrite T. unfold bind.
  rewrite (HO f stm st1 ltac:(lia) FR HS). rewrite Ty.
  cbn [ast] in HT. rewrite E in HT. exact HT.
Qed.

Lemma QK_OK : forall k s b, la k = true -> QK k s b -> OK k s (b + 1 + dk k s).
Proof.
  intros k s b LA HQ F st st' LF FE HS.
  replace F with ((F - dk k s) + dk k s)%nat by lia.
  apply (HQ (F - dk k s)%nat st st'); [lia|exact FE|eapply stops_le; eauto; lia|].
  destruct (F - dk k s)%nat as [|f] eqn:EF; [lia|].
  apply tail_stop; auto.
Qed.

(* ------------------------------------------------------------------ the induction over trees *)
Fixpoint spine (s : sx) : nat := match s with SId _ => 1%nat | SBin _ l _ => S (spine l) end.
Fixpoint cfuel (s : sx) : nat :=
  match s with
  | SId _ => 20%nat
  | SBin op l r => (Nat.max (cfuel l) (cfuel r) + S (spine l) + 20)%nat
  end.

Lemma dk_spine : forall k s, (dk k s <= spine s)%nat.
Proof.
  induction s as [n|op l IHl r IHr]; cbn [dk spine]; [lia|].
  destruct (lvl op =? k)%nat; lia.
Qed.

Lemma lvl_cases : forall op, lvl op = 0%nat \/ la (lvl op) = true.
Proof.
  intro op. unfold lvl. repeat match goal with |- context [if ?b then _ else _] => destruct b end; auto.
Qed.

Lemma la_not0 : forall k, la k = true -> k <> 0%nat /\ k <> 3%nat /\ (k <= 6)%nat.
Proof. intros k H. apply la_cases in H. lia. Qed.

Theorem tree_all : forall s, wf s = true ->
  (forall j, (j <= 6)%nat -> OK j s (cfuel s)) /\ (forall k, la k = true -> QK k s (cfuel s)).
Proof.
  induction s as [n|op l IHl r IHr]; intro W.
  - assert (A : forall j, (j <= 6)%nat -> OK j (SId n) (cfuel (SId n))).
    { intros j L. eapply OK_mono; [apply OK_all; [apply O0_id|exact L]|cbn; lia]. }
    split; [exact A|].
    intros k LA. destruct (la_not0 k LA) as (K0 & K4 & K6).
    apply QK_base; [exact LA|apply A; lia|cbn [prec]; lia].
  - cbn [wf] in W. apply andb_true_iff in W. destruct W as [W Wr].
    apply andb_true_iff in W. destruct W as [W0 Wl]. apply negb_true_iff in W0. apply Nat.eqb_neq in W0.
    destruct (IHl Wl) as [OL QL]. destruct (IHr Wr) as [OR QR]. clear IHl IHr.
    set (s := SBin op l r).
    assert (P : exists b, (b + 16 <= cfuel s)%nat /\ OK (prec s) s b).
    { destruct (lvl_cases op) as [C|C]; [contradiction|].
      destruct (la_not0 _ C) as (K0 & K4 & K6).
      exists (Nat.max (cfuel l) (cfuel r) + 1 + dk (lvl op) s)%nat. split.
      - pose proof (dk_spine (lvl op) s). cbn [cfuel spine s] in *. lia.
      - apply QK_OK; [exact C|]. apply QK_step; [exact C|reflexivity|apply QL; exact C|apply OR; lia]. }
    destruct P as (b & Lb & Hb).
    assert (A : forall j, (j <= 6)%nat -> OK j s (cfuel s)).
    { intros j L. eapply OK_mono; [apply OK_all; [exact Hb|exact L]|exact Lb]. }
    split; [exact A|].
    intros k LA. destruct (la_not0 k LA) as (K0 & K4 & K6).
    destruct (Nat.eq_dec (prec s) k) as [E|N].
    + cbn [prec s] in E. eapply QK_mono.
      * apply QK_step; [exact LA|exact E|apply QL; exact LA|apply OR; lia].
      * cbn [cfuel s]. lia.
    + apply QK_base; [exact LA|apply A; lia|exact N].
Qed.

(* ------------------------------------------------------------------ Part 1: the token-level theorem *)
(* On any parser state that presents the tokens of the minimal-brace printing of s, followed by a token that cannot
   continue an expression (or with the statement already complete), ParseExpression returns exactly the prescribed
   tree and stops in front of that token. *)
Theorem parse_show_tokens : forall s fuel st st',
  wf s = true -> (cfuel s <= fuel)%nat -> feeds (show s) st st' -> stops 6 st' ->
  parse_expression fuel st = Ok (ast s) st'.
Proof.
  intros s fuel st st' W LF FE HS.
  destruct (tree_all s W) as [A _].
  apply (A 6%nat (le_n _) fuel st st' LF); [|exact HS].
  rewrite opnd_show by apply prec_le6. exact FE.
Qed.

(* the same for every level of the grammar and operands that need braces there *)
Theorem parse_operand_tokens : forall s k fuel st st',
  wf s = true -> (k <= 6)%nat -> (cfuel s <= fuel)%nat -> feeds (opnd k s) st st' -> stops k st' ->
  pk k fuel st = Ok (ast s) st'.
Proof.
  intros s k fuel st st' W LK LF FE HS.
  destruct (tree_all s W) as [A _]. apply (A k LK fuel st st' LF FE HS).
Qed.

(* ================================================================== Part 2: characters *)
(* spellings of the operator and brace tokens (the synonymous spellings of a comparison are different token types) *)
Definition spellings : list (Z * list Z) :=
  [(g_TypeStmtQuoteL, [123]); (g_TypeStmtQuoteR, [125]);
   (g_TypeMultiply, [42]); (g_TypeDivision, [47]); (g_TypeIntDivMark, [124]); (g_TypeModuloMark, [37]);
   (g_TypePlus, [43]); (g_TypeMinus, [45]);
   (g_TypeLogicEqualW, [31561; 20110]); (g_TypeEqualMark, [61; 61]);
   (g_TypeLogicNotEqW, [19981; 31561; 20110]); (g_TypeNEMark, [47; 61]);
   (g_TypeLogicGtW, [22823; 20110]); (g_TypeGTMark, [62]);
   (g_TypeLogicGteW, [19981; 23567; 20110]); (g_TypeGTEMark, [62; 61]);
   (g_TypeLogicLtW, [23567; 20110]); (g_TypeLTMark, [60]);
   (g_TypeLogicLteW, [19981; 22823; 20110]); (g_TypeLTEMark, [60; 61]);
   (g_TypeLogicYesW, [20026]); (g_TypeLogicNoW, [19981; 20026]);
   (g_TypeLogicAndW, [19988]); (g_TypeLogicOrW, [25110])].

Fixpoint spell_ty (ty : Z) (tbl : list (Z * list Z)) : list Z :=
  match tbl with
  | [] => []
  | (k, cs) :: r => if ty =? k then cs else spell_ty ty r
  end.

Definition spell (t : atok) : list Z :=
  if fst t =? g_TypeIdentifier then snd t else spell_ty (fst t) spellings.

(* tokens separated by single spaces *)
Fixpoint joinc (ts : list atok) : list Z :=
  match ts with
  | [] => []
  | t :: ts' => match ts' with [] => spell t | _ => spell t ++ 32 :: joinc ts' end
  end.

Definition showc (s : sx) : list Z := joinc (show s).

(* characters an identifier leaf may be made of: identifier characters that do not start or end any other token *)
Definition idc (c : Z) : bool :=
  is_id_char c && negb (is_ws c) && negb (is_break c) && negb (c =? g_CharZHU) && negb (c =? g_SlashOp)
  && negb (mem c left_quotes) && negb (c =? g_BackTick) && negb (mem c g_markPunctuations)
  && negb (mem c g_markOperators) && (match find_lead c g_kw_tree with None => true | Some _ => false end)
  && negb (mem c g_terminateMarkers) && StringLit.scalar c && negb (c =? EOFc) && negb (is_indent_char c).

Definition leaf_ok (n : lit) : bool := negb (match n with [] => true | _ => false end) && forallb idc n.

Fixpoint leaves_ok (s : sx) : bool :=
  match s with
  | SId n => leaf_ok n
  | SBin _ l r => leaves_ok l && leaves_ok r
  end.

Ltac split_andb H :=
  repeat match type of H with
         | (_ && _) = true => let H2 := fresh H in apply andb_true_iff in H; destruct H as [H H2]
         end.

Record idc_spec (c : Z) : Prop := mk_idc {
  ic_id : is_id_char c = true; ic_ws : is_ws c = false; ic_br : is_break c = false;
  ic_zhu : (c =? g_CharZHU) = false; ic_sl : (c =? g_SlashOp) = false; ic_lq : mem c left_quotes = false;
  ic_bt : (c =? g_BackTick) = false; ic_pu : mem c g_markPunctuations = false; ic_op : mem c g_markOperators = false;
  ic_kw : find_lead c g_kw_tree = None; ic_tm : mem c g_terminateMarkers = false; ic_sc : StringLit.scalar c = true;
  ic_eof : (c =? EOFc) = false; ic_ind : is_indent_char c = false }.

Lemma idc_true : forall c, idc c = true -> idc_spec c.
Proof.
  intros c H. unfold idc in H.
  repeat match type of H with (_ && _) = true => let H2 := fresh "A" in apply andb_true_iff in H; destruct H as [H H2] end.
  repeat match goal with X : negb _ = true |- _ => apply negb_true_iff in X end.
  destruct (find_lead c g_kw_tree) eqn:FL; [discriminate|].
  constructor; assumption.
Qed.

(* ------------------------------------------------------------------ the lexer on one token *)
Definition nt_body (st : lstate) : lres token :=
  let r := rest st in
  let p := pos st in
  let ch := curc r in
  match r with
  | [] => parse_eof st
  | _ =>
      if ch =? EOFc then parse_eof st
      else if (ch =? g_CharZHU) || (ch =? g_SlashOp) then
        match parse_comment st with
        | Some (tk, st') => LOk tk st'
        | None => conv (generic_token gkw r p) st
        end
      else if mem ch left_quotes then parse_string st
      else if ch =? g_BackTick then conv (varquote_loop p (tl r) (p + 1) []) st
      else conv (generic_token gkw r p) st
  end.

Lemma pre_stop : forall n l c r, rest l = c :: r -> is_ws c = false -> is_break c = false ->
  pre_next_token (S n) l = LOk tt l.
Proof.
  intros n l c r E W B. cbn [pre_next_token]. rewrite E. cbn [curc hd]. rewrite W, B. reflexivity.
Qed.

Lemma next_token_plain : forall l c r, rest l = c :: r -> is_ws c = false -> is_break c = false ->
  next_token l = nt_body l.
Proof.
  intros l c r E W B. unfold next_token. rewrite (pre_stop _ l c r E W B). reflexivity.
Qed.

Lemma pre_space : forall n l c r, rest l = 32 :: c :: r -> is_ws c = false -> is_break c = false ->
  pre_next_token (S (S n)) l = LOk tt (set_pos_rest l (pos l + 1) (c :: r)).
Proof.
  intros n l c r E W B. remember (S n) as m eqn:Em.
  cbn [pre_next_token]. rewrite E. cbn [curc hd]. change (is_ws 32) with true. cbv iota.
  cbn [skip_ws]. change (is_ws 32) with true. cbv iota. rewrite W. subst m.
  apply (pre_stop n (set_pos_rest l (pos l + 1) (c :: r)) c r eq_refl W B).
Qed.

Lemma next_token_space : forall l c r, rest l = 32 :: c :: r -> is_ws c = false -> is_break c = false ->
  next_token l = nt_body (set_pos_rest l (pos l + 1) (c :: r)).
Proof.
  intros l c r E W B. unfold next_token. rewrite E. cbn [length].
  rewrite (pre_space _ l c r E W B). reflexivity.
Qed.

Lemma next_token_eof : forall l, rest l = [] -> next_token l = parse_eof l.
Proof. intros l E. unfold next_token. rewrite E. cbn [length pre_next_token]. rewrite E. cbv iota. rewrite E. reflexivity. Qed.

(* identifiers *)
Lemma gkw_none : forall c r, find_lead c g_kw_tree = None -> gkw (c :: r) = None.
Proof. intros c r H. unfold gkw, parse_keyword. cbn [cur hd]. rewrite H. reflexivity. Qed.

Lemma ident_loop_stop : forall start r p acc, ident_stop gkw r = true ->
  ident_loop gkw start r p acc = ident_finish start p acc r.
Proof. intros start r p acc H. destruct r; cbn [ident_loop]; rewrite H; reflexivity. Qed.

Lemma ident_loop_run : forall cs start p acc tail, forallb idc cs = true -> ident_stop gkw tail = true ->
  ident_loop gkw start (cs ++ tail) p acc = ident_finish start (p + Z.of_nat (length cs)) (rev cs ++ acc) tail.
Proof.
  induction cs as [|c cs IH]; intros start p acc tail HC HT.
  - cbn [app length rev Z.of_nat]. rewrite Z.add_0_r. apply ident_loop_stop. exact HT.
  - cbn [forallb] in HC. apply andb_true_iff in HC. destruct HC as [Hc HC].
    destruct (idc_true c Hc).
    assert (ST : ident_stop gkw (c :: cs ++ tail) = false).
    { unfold ident_stop, comment_ahead. cbn [cur hd]. rewrite ic_ws0, (gkw_none _ _ ic_kw0), ic_sl0, ic_tm0. reflexivity. }
    cbn [app ident_loop]. rewrite ST.
    assert (IB : is_id_body c = true) by (unfold is_id_body; rewrite ic_id0; reflexivity).
    rewrite IB. rewrite IH by assumption.
    cbn [length rev]. rewrite <- app_assoc. cbn [app].
    replace (p + 1 + Z.of_nat (length cs)) with (p + Z.of_nat (S (length cs))) by lia. reflexivity.
Qed.

(* the text after an identifier ends it: the end of the text, white space, a keyword, a comment opener or a mark *)
Definition tail_ok (tail : list Z) : Prop := ident_stop gkw tail = true.

Lemma tail_ok_stop : forall tail, tail_ok tail -> ident_stop gkw tail = true.
Proof. intros tail H. exact H. Qed.
Lemma tail_ok_nil : tail_ok []. Proof. reflexivity. Qed.
Lemma tail_ok_space : forall t', tail_ok (32 :: t'). Proof. intro t'. reflexivity. Qed.

Lemma lex_ident : forall l n tail, leaf_ok n = true -> rest l = n ++ tail -> tail_ok tail ->
  nt_body l = LOk (mkTok g_TypeIdentifier n (pos l) (pos l + Z.of_nat (length n)))
                  (set_pos_rest l (pos l + Z.of_nat (length n)) tail).
Proof.
  intros l n tail LO E TO. unfold leaf_ok in LO. apply andb_true_iff in LO. destruct LO as [NE HC].
  destruct n as [|c cs]; [discriminate|]. clear NE.
  pose proof HC as HC0. cbn [forallb] in HC. apply andb_true_iff in HC. destruct HC as [Hc HC].
  destruct (idc_true c Hc).
  unfold nt_body. rewrite E. cbn [app curc hd]. rewrite ic_eof0, ic_zhu0, ic_sl0, ic_lq0, ic_bt0. cbn [orb].
  unfold generic_token. cbn [cur hd]. rewrite ic_pu0, ic_op0, (gkw_none _ _ ic_kw0).
  unfold parse_identifier. cbn [cur hd tl]. rewrite ic_id0. cbn [negb].
  rewrite (ident_loop_run cs (pos l) (pos l + 1) [c] tail HC (tail_ok_stop _ TO)).
  unfold ident_finish.
  assert (LS : (hd 0 (rev cs ++ [c]) =? g_SlashOp) = false).
  { assert (IN : In (hd 0 (rev cs ++ [c])) (c :: cs)).
    { destruct (rev cs) as [|x xs] eqn:R; cbn [app hd]; [left; reflexivity|].
      right. apply in_rev. rewrite R. left. reflexivity. }
    rewrite forallb_forall in HC0. specialize (HC0 _ IN). destruct (idc_true _ HC0). assumption. }
  rewrite LS. cbn [conv].
  replace (rev (rev cs ++ [c])) with (c :: cs) by (rewrite rev_app_distr, rev_involutive; reflexivity).
  cbn [length]. replace (pos l + 1 + Z.of_nat (length cs)) with (pos l + Z.of_nat (S (length cs))) by lia.
  reflexivity.
Qed.

(* operators and braces *)
Lemma lex_fixed_sp : forall ty cs, In (ty, cs) spellings -> forall l t', rest l = cs ++ 32 :: t' ->
  nt_body l = LOk (mkTok ty [] (pos l) (pos l + Z.of_nat (length cs)))
                  (set_pos_rest l (pos l + Z.of_nat (length cs)) (32 :: t')).
Proof.
  intros ty cs HI l t' E. destruct l as [p r it ls sl]. cbn [rest pos] in *. subst r.
  unfold spellings in HI.
  repeat (destruct HI as [HI|HI]; [inversion HI; subst ty cs; reflexivity|]).
  destruct HI.
Qed.

Lemma lex_rbrace_any : forall l tail, rest l = 125 :: tail ->
  nt_body l = LOk (mkTok g_TypeStmtQuoteR [] (pos l) (pos l + 1)) (set_pos_rest l (pos l + 1) tail).
Proof. intros l tail E. destruct l as [p r it ls sl]. cbn [rest pos] in *. subst r. reflexivity. Qed.

(* ------------------------------------------------------------------ one token of the printing *)
Definition endable (t : atok) : bool := (fst t =? g_TypeIdentifier) || (fst t =? g_TypeStmtQuoteR).

Definition tok_ok (t : atok) : bool :=
  if fst t =? g_TypeIdentifier then leaf_ok (snd t)
  else (match snd t with [] => true | _ => false end) && mem (fst t) (map fst spellings).

Lemma spell_ty_in : forall ty tbl, mem ty (map fst tbl) = true -> In (ty, spell_ty ty tbl) tbl.
Proof.
  induction tbl as [|[k cs] tbl IH]; intro H; [discriminate|].
  cbn [map fst mem existsb] in H. cbn [spell_ty]. destruct (ty =? k) eqn:E.
  - apply Z.eqb_eq in E. subst. left. reflexivity.
  - cbn [orb] in H. right. apply IH. exact H.
Qed.

Lemma to_text_id : forall n, forallb idc n = true -> StringLit.to_text n = n.
Proof.
  induction n as [|c n IH]; intro H; [reflexivity|].
  cbn [forallb] in H. apply andb_true_iff in H. destruct H as [Hc H].
  unfold StringLit.to_text in *. cbn [map]. rewrite IH by exact H.
  destruct (idc_true c Hc). rewrite ic_sc0. reflexivity.
Qed.

Definition head_plain (cs : list Z) : bool :=
  match cs with
  | c :: _ => negb (is_ws c) && negb (is_break c) && negb (is_indent_char c) && negb (c =? EOFc)
  | [] => false
  end.

Lemma spellings_heads : forallb (fun e : Z * list Z => head_plain (snd e)) spellings = true.
Proof. vm_compute. reflexivity. Qed.

Lemma spell_head : forall t, tok_ok t = true -> head_plain (spell t) = true.
Proof.
  intros t H. unfold tok_ok in H. unfold spell. destruct (fst t =? g_TypeIdentifier).
  - unfold leaf_ok in H. apply andb_true_iff in H. destruct H as [NE HC].
    destruct (snd t) as [|c cs]; [discriminate|]. cbn [forallb] in HC. apply andb_true_iff in HC.
    destruct HC as [Hc _]. destruct (idc_true c Hc). unfold head_plain. rewrite ic_ws0, ic_br0, ic_ind0, ic_eof0. reflexivity.
  - apply andb_true_iff in H. destruct H as [_ H]. apply spell_ty_in in H.
    pose proof spellings_heads as A. rewrite forallb_forall in A. apply (A _ H).
Qed.

Lemma head_plain_inv : forall cs, head_plain cs = true ->
  exists c r, cs = c :: r /\ is_ws c = false /\ is_break c = false /\ is_indent_char c = false /\ (c =? EOFc) = false.
Proof.
  intros cs H. destruct cs as [|c r]; [discriminate|]. cbn [head_plain] in H.
  repeat match type of H with (_ && _) = true => let H2 := fresh "A" in apply andb_true_iff in H; destruct H as [H H2] end.
  repeat match goal with X : negb _ = true |- _ => apply negb_true_iff in X end.
  exists c, r. auto.
Qed.

Lemma lex_atok : forall t l tail, tok_ok t = true -> rest l = spell t ++ tail ->
  (exists t', tail = 32 :: t') \/ (endable t = true /\ tail_ok tail) ->
  exists tk, nt_body l = LOk tk (set_pos_rest l (pos l + Z.of_nat (length (spell t))) tail)
             /\ t_ty tk = fst t /\ text_of tk = snd t.
Proof.
  intros t l tail H E HT. unfold tok_ok in H. unfold spell in *. destruct (fst t =? g_TypeIdentifier) eqn:I.
  - apply Z.eqb_eq in I.
    assert (TO : tail_ok tail) by (destruct HT as [(t' & A)|[_ A]]; [subst tail; apply tail_ok_space|exact A]).
    eexists. split; [apply lex_ident; eauto|]. cbn [t_ty]. split; [auto|].
    unfold text_of. cbn [t_lit]. apply to_text_id. unfold leaf_ok in H. apply andb_true_iff in H. tauto.
  - apply andb_true_iff in H. destruct H as [SN H]. apply spell_ty_in in H.
    assert (S0 : snd t = []) by (destruct (snd t); [reflexivity|discriminate]).
    destruct HT as [(t' & A)|[EN A]].
    + subst tail. eexists. split; [apply (lex_fixed_sp _ _ H); exact E|]. cbn [t_ty]. split; [reflexivity|].
      unfold text_of. cbn [t_lit]. rewrite S0. reflexivity.
    + unfold endable in EN. rewrite I in EN. cbn [orb] in EN. apply Z.eqb_eq in EN.
      rewrite EN in *. change (spell_ty g_TypeStmtQuoteR spellings) with [125] in *. cbn [app] in E.
      eexists. split; [apply lex_rbrace_any; exact E|]. cbn [t_ty]. split; [reflexivity|].
      unfold text_of. cbn [t_lit]. rewrite S0. reflexivity.
Qed.

(* ------------------------------------------------------------------ the parser's token buffer on one line *)
Definition geo (st : pstate) : Prop :=
  lines (lx st) = [mkLine 0 0] /\ itype (lx st) = g_IndentUnknown /\ sl2 st = 0 /\ el2 st = 0 /\
  0 <= pos (lx st) /\ slen (lx st) = pos (lx st) + Z.of_nat (len (lx st)).

Lemma p_next_step : forall st tk l', next_token (lx st) = LOk tk l' -> (t_ty tk =? g_TypeComment) = false ->
  lines l' = [mkLine 0 0] -> sl2 st = 0 -> el2 st = 0 ->
  p_next st = Ok tt (mkP l' (p2 st) (Some tk) 0 0 0 0
                         (flag st || match p2 st with
                                     | Some c => (t_ty c =? g_TypeEOF) || (t_ty tk =? g_TypeEOF)
                                     | None => false end) (bind_ st)).
Proof.
  intros st tk l' NT C HL S2 E2. unfold p_next. cbn [lex_skip_comments]. rewrite NT, C, HL, S2, E2.
  change (find_line_idx [mkLine 0 0] (t_s tk) 0) with 0. change (find_line_idx [mkLine 0 0] (t_e tk) 0) with 0.
  unfold meet_line_break. cbn [p1 p2 el1 sl2]. destruct (p2 st) as [c|].
  - destruct ((t_ty c =? g_TypeEOF) || (t_ty tk =? g_TypeEOF)).
    + unfold set_flag. cbn. rewrite orb_true_r. reflexivity.
    + change (0 <? 0) with false. cbv iota. rewrite orb_false_r. reflexivity.
  - rewrite orb_false_r. reflexivity.
Qed.

Definition after (ts : list atok) : list Z := match ts with [] => [] | _ => 32 :: joinc ts end.

Lemma joinc_cons : forall t ts, joinc (t :: ts) = spell t ++ after ts.
Proof. intros t ts. destruct ts as [|t2 ts]; cbn [joinc after]; [rewrite app_nil_r|]; reflexivity. Qed.

Fixpoint lastok (ts : list atok) : bool :=
  match ts with
  | [] => true
  | t :: r => match r with [] => endable t | _ => lastok r end
  end.

Lemma spellings_types : forallb (fun ty => negb (ty =? g_TypeEOF) && negb (ty =? g_TypeComment)) (map fst spellings) = true.
Proof. vm_compute. reflexivity. Qed.

Lemma tok_ty_ok : forall t, tok_ok t = true -> (fst t =? g_TypeEOF) = false /\ (fst t =? g_TypeComment) = false.
Proof.
  intros t H. unfold tok_ok in H. destruct (fst t =? g_TypeIdentifier) eqn:I.
  - apply Z.eqb_eq in I. rewrite I. split; reflexivity.
  - apply andb_true_iff in H. destruct H as [_ H]. apply mem_in in H.
    pose proof spellings_types as A. rewrite forallb_forall in A. specialize (A _ H).
    apply andb_true_iff in A. destruct A as [A B]. apply negb_true_iff in A. apply negb_true_iff in B. auto.
Qed.

Lemma line_text_ok_geo : forall l, lines l = [mkLine 0 0] -> 0 <= pos l -> pos l <= slen l -> line_text_ok l (pos l) = true.
Proof.
  intros l HL P S. unfold line_text_ok. rewrite HL. cbn [last l_start l_indents].
  assert (Z0 : 0 + (if itype l =? g_IndentSpace then 4 * 0 else if itype l =? g_IndentTab then 0 else 0) = 0)
    by (destruct (itype l =? g_IndentSpace); destruct (itype l =? g_IndentTab); reflexivity).
  rewrite Z0. apply andb_true_iff. split; [apply andb_true_iff; split|]; apply Z.leb_le; lia.
Qed.

(* up to the state whose peek token is the last token of the printing; tail = the text after the printing *)
Lemma run_to_last : forall tail, tail_ok tail -> forall ts t st, geo st -> headok t st -> (fst t =? g_TypeEOF) = false ->
  rest (lx st) = after ts ++ tail -> forallb tok_ok ts = true -> lastok (t :: ts) = true ->
  exists stl, (forall st', p_next stl = Ok tt st' -> feeds (t :: ts) st st') /\ geo stl /\ flag stl = false /\
              (exists tkl, p2 stl = Some tkl /\ (t_ty tkl =? g_TypeEOF) = false) /\
              rest (lx stl) = tail /\ pos (lx stl) = pos (lx st) + Z.of_nat (length (after ts)) /\
              bind_ stl = bind_ st.
Proof.
  intros tail TT. induction ts as [|t2 ts IH]; intros t st G HO NE ER TO LO.
  - exists st. split; [intros st' PN; apply feeds_one; split; assumption|].
    split; [exact G|]. destruct HO as (Hf & tk0 & P2 & Ty & Tx).
    split; [exact Hf|]. split; [exists tk0; split; [exact P2|rewrite Ty; exact NE]|].
    split; [exact ER|]. split; [cbn [after length Z.of_nat]; lia|reflexivity].
  - cbn [forallb] in TO. apply andb_true_iff in TO. destruct TO as [T2 TO].
    destruct G as (GL & GI & G1 & G2 & GP & GS).
    pose proof HO as HO0. destruct HO as (Hf & tk0 & P2 & Ty & Tx).
    destruct (head_plain_inv _ (spell_head _ T2)) as (c & r & SP & CW & CB & CI & CE).
    assert (ER2 : rest (lx st) = 32 :: c :: (r ++ after ts ++ tail)).
    { rewrite ER. cbn [after]. rewrite joinc_cons, SP. cbn [app]. rewrite <- app_assoc. reflexivity. }
    pose proof (next_token_space _ _ _ ER2 CW CB) as NT.
    set (l1 := set_pos_rest (lx st) (pos (lx st) + 1) (c :: r ++ after ts ++ tail)) in *.
    assert (TL : (exists t', after ts ++ tail = 32 :: t') \/ (endable t2 = true /\ tail_ok (after ts ++ tail))).
    { destruct ts as [|t3 ts'].
      - cbn [after app]. right. split; [exact LO|exact TT].
      - left. cbn [after app]. eauto. }
    destruct (lex_atok t2 l1 (after ts ++ tail) T2 ltac:(rewrite SP; reflexivity) TL) as (tk2 & LX & Ty2 & Tx2).
    rewrite LX in NT.
    destruct (tok_ty_ok _ T2) as [NE2 NC2].
    pose proof (p_next_step st _ _ NT ltac:(rewrite Ty2; exact NC2) GL G1 G2) as PN.
    rewrite P2, Hf, Ty, NE, Ty2, NE2 in PN. cbn [orb] in PN.
    match type of PN with p_next st = Ok tt ?s => set (st1 := s) in * end.
    assert (G' : geo st1).
    { unfold geo, st1, l1. cbn [lx sl2 el2 set_pos_rest lines itype pos slen rest].
      split; [exact GL|]. split; [exact GI|]. split; [reflexivity|]. split; [reflexivity|].
      split; [lia|]. rewrite GS, ER2, SP. cbn [length]. rewrite app_length. cbn [length]. lia. }
    assert (HO1 : headok t2 st1).
    { split; [reflexivity|]. exists tk2. split; [reflexivity|]. auto. }
    assert (LO1 : lastok (t2 :: ts) = true) by exact LO.
    destruct (IH t2 st1 G' HO1 NE2 eq_refl TO LO1) as (stl & FE & GF & FF & PF & RF & PP & BF).
    exists stl. split; [intros st' PL; econstructor; eauto|].
    split; [exact GF|]. split; [exact FF|]. split; [exact PF|]. split; [exact RF|].
    split; [|exact BF].
    rewrite PP. unfold st1, l1. cbn [lx set_pos_rest pos]. cbn [after]. rewrite joinc_cons, SP.
    cbn [length]. rewrite !app_length. cbn [length]. lia.
Qed.

(* the end of the text after the last token *)
Lemma end_eof : forall stl tkl, geo stl -> flag stl = false -> p2 stl = Some tkl -> (t_ty tkl =? g_TypeEOF) = false ->
  rest (lx stl) = [] ->
  exists st', p_next stl = Ok tt st' /\ geo st' /\ flag st' = true /\ peek_ty st' = g_TypeEOF /\
              rest (lx st') = [] /\ bind_ st' = bind_ stl /\ stops 6 st'.
Proof.
  intros st tk0 G Hf P2 NE ER. destruct G as (GL & GI & G1 & G2 & GP & GS).
  assert (NT : next_token (lx st) = LOk (mkTok g_TypeEOF [] (pos (lx st)) (pos (lx st))) (lx st)).
  { rewrite next_token_eof by exact ER. unfold parse_eof. rewrite line_text_ok_geo; auto.
    rewrite GS, ER. cbn [length Z.of_nat]. lia. }
  pose proof (p_next_step st _ _ NT eq_refl GL G1 G2) as PN.
  rewrite P2, Hf, NE in PN. cbn [t_ty orb] in PN. change (g_TypeEOF =? g_TypeEOF) with true in PN.
  eexists. split; [exact PN|].
  split; [unfold geo; cbn [lx sl2 el2]; auto 10|].
  split; [reflexivity|]. split; [reflexivity|]. split; [exact ER|]. split; [reflexivity|].
  eexists. split; [reflexivity|]. split; [reflexivity|]. left. reflexivity.
Qed.

(* any other token after the last token *)
Lemma end_token : forall stl tk l', next_token (lx stl) = LOk tk l' -> (t_ty tk =? g_TypeComment) = false ->
  stopb 6 (t_ty tk) = true ->
  exists st', p_next stl = Ok tt st' /\ p2 st' = Some tk /\ lx st' = l' /\ stops 6 st'.
Proof.
  intros st tk l' NT NC SB. unfold p_next. cbn [lex_skip_comments]. rewrite NT, NC.
  match goal with |- context [if meet_line_break ?x then _ else _] => destruct (meet_line_break x) end.
  - eexists. split; [reflexivity|]. cbn [set_flag p2 lx]. split; [reflexivity|]. split; [reflexivity|].
    exists tk. split; [reflexivity|]. split; [eapply stopb_comma; eauto|left; reflexivity].
  - eexists. split; [reflexivity|]. cbn [p2 lx]. split; [reflexivity|]. split; [reflexivity|].
    exists tk. split; [reflexivity|]. split; [eapply stopb_comma; eauto|right; exact SB].
Qed.

Lemma run_tokens : forall ts t st, geo st -> headok t st -> (fst t =? g_TypeEOF) = false ->
  rest (lx st) = after ts -> forallb tok_ok ts = true -> lastok (t :: ts) = true ->
  exists st', feeds (t :: ts) st st' /\ geo st' /\ flag st' = true /\ peek_ty st' = g_TypeEOF /\
              rest (lx st') = [] /\ bind_ st' = bind_ st /\ stops 6 st'.
Proof.
  intros ts t st G HO NE ER TO LO.
  destruct (run_to_last [] tail_ok_nil ts t st G HO NE ltac:(rewrite app_nil_r; exact ER) TO LO)
    as (stl & FE & GL & FL & (tkl & PL & NL) & RL & PP & BL).
  destruct (end_eof stl tkl GL FL PL NL RL) as (st' & PN & GF & FF & PF & RF & BF & SF).
  exists st'. split; [apply FE; exact PN|]. rewrite BF, BL. auto 10.
Qed.

(* ------------------------------------------------------------------ the printing is made of such tokens *)
Lemma allops_spelled : forallb (fun op => tok_ok (op, [])) allops = true.
Proof. vm_compute. reflexivity. Qed.

Lemma forallb_brace : forall k p ts, forallb tok_ok ts = true -> forallb tok_ok (brace k p ts) = true.
Proof.
  intros k p ts H. unfold brace. destruct (p <=? k)%nat; [exact H|].
  cbn [forallb]. rewrite forallb_app, H. reflexivity.
Qed.

Lemma show_tok_ok : forall s, wf s = true -> leaves_ok s = true -> forallb tok_ok (show s) = true.
Proof.
  induction s as [n|op l IHl r IHr]; intros W LO.
  - cbn [show forallb]. unfold tok_ok. cbn [fst snd]. change (g_TypeIdentifier =? g_TypeIdentifier) with true.
    cbn [leaves_ok] in LO. rewrite LO. reflexivity.
  - cbn [wf] in W. apply andb_true_iff in W. destruct W as [W Wr]. apply andb_true_iff in W. destruct W as [W0 Wl].
    apply negb_true_iff in W0. apply Nat.eqb_neq in W0.
    cbn [leaves_ok] in LO. apply andb_true_iff in LO. destruct LO as [LOl LOr].
    cbn [show]. rewrite forallb_app. cbn [forallb].
    rewrite (forallb_brace _ _ _ (IHl Wl LOl)), (forallb_brace _ _ _ (IHr Wr LOr)).
    pose proof allops_spelled as A. rewrite forallb_forall in A. rewrite (A op (lvl_allops op W0)). reflexivity.
Qed.

Lemma lastok_app : forall a b, b <> [] -> lastok (a ++ b) = lastok b.
Proof.
  induction a as [|t a IH]; intros b N; [reflexivity|].
  cbn [app]. cbn [lastok]. destruct (a ++ b) eqn:E.
  - destruct a; cbn in E; [congruence|discriminate].
  - rewrite <- E. apply IH. exact N.
Qed.

Lemma show_nonempty : forall s, show s <> [].
Proof. destruct s; cbn [show]; [discriminate|]. intro H. apply app_eq_nil in H. destruct H; discriminate. Qed.

Lemma lastok_brace : forall k p ts, ts <> [] -> lastok ts = true -> lastok (brace k p ts) = true.
Proof.
  intros k p ts N H. unfold brace. destruct (p <=? k)%nat; [exact H|].
  change (tL :: ts ++ [tR]) with ([tL] ++ ts ++ [tR]).
  rewrite (lastok_app [tL]) by (intro X; apply app_eq_nil in X; destruct X; discriminate).
  rewrite lastok_app by discriminate. reflexivity.
Qed.

Lemma show_lastok : forall s, lastok (show s) = true.
Proof.
  induction s as [n|op l IHl r IHr]; [reflexivity|].
  cbn [show]. rewrite lastok_app by discriminate.
  change ((op, []) :: brace (lvl op - 1) (prec r) (show r)) with ([(op, @nil Z)] ++ brace (lvl op - 1) (prec r) (show r)).
  assert (N : brace (lvl op - 1) (prec r) (show r) <> []).
  { unfold brace. destruct (prec r <=? lvl op - 1)%nat; [apply show_nonempty|discriminate]. }
  rewrite lastok_app by exact N. apply lastok_brace; [apply show_nonempty|exact IHr].
Qed.

Definition starter (t : atok) : Prop := fst t = g_TypeIdentifier \/ fst t = g_TypeStmtQuoteL.

Lemma show_head : forall s, exists t ts, show s = t :: ts /\ starter t.
Proof.
  induction s as [n|op l IHl r IHr].
  - eexists _, _. split; [reflexivity|left; reflexivity].
  - destruct IHl as (t & ts & E & ST). cbn [show]. unfold brace. destruct (prec l <=? lvl op)%nat.
    + rewrite E. eexists _, _. split; [reflexivity|exact ST].
    + eexists _, _. split; [reflexivity|right; reflexivity].
Qed.

(* ------------------------------------------------------------------ from the first character *)
Lemma init_state_gen : forall tail, tail_ok tail -> forall t ts,
  tok_ok t = true -> forallb tok_ok ts = true -> lastok (t :: ts) = true ->
  exists l0 st0, lex_init (joinc (t :: ts) ++ tail) = LOk tt l0 /\ p_next (init_pstate l0) = Ok tt st0 /\
                 geo st0 /\ headok t st0 /\ rest (lx st0) = after ts ++ tail /\ bind_ st0 = 0 /\
                 pos (lx st0) = Z.of_nat (length (spell t)).
Proof.
  intros tail TT t ts T1 TO LO.
  destruct (head_plain_inv _ (spell_head _ T1)) as (c & r & SP & CW & CB & CI & CE).
  set (src := joinc (t :: ts) ++ tail).
  assert (ES : src = c :: r ++ after ts ++ tail).
  { unfold src. rewrite joinc_cons, SP. cbn [app]. rewrite <- app_assoc. reflexivity. }
  set (l0 := mkL 0 src g_IndentUnknown [mkLine 0 0] (Z.of_nat (length src))).
  assert (LI : lex_init src = LOk tt l0).
  { unfold lex_init, parse_begin_lex. cbn [rest]. rewrite ES at 1. rewrite CE, CI. reflexivity. }
  assert (TL : (exists t', after ts ++ tail = 32 :: t') \/ (endable t = true /\ tail_ok (after ts ++ tail))).
  { destruct ts as [|t3 ts'].
    - cbn [after app]. right. split; [exact LO|exact TT].
    - left. cbn [after app]. eauto. }
  assert (R0 : rest l0 = spell t ++ after ts ++ tail) by (cbn [l0 rest]; rewrite ES, SP; reflexivity).
  destruct (lex_atok t l0 (after ts ++ tail) T1 R0 TL) as (tk & LX & Ty & Tx).
  assert (NT : next_token l0 = nt_body l0).
  { apply (next_token_plain l0 c (r ++ after ts ++ tail)); [exact ES|exact CW|exact CB]. }
  rewrite LX in NT.
  destruct (tok_ty_ok _ T1) as [NE NC].
  pose proof (p_next_step (init_pstate l0) _ _ NT ltac:(rewrite Ty; exact NC) eq_refl eq_refl eq_refl) as PN.
  cbn [init_pstate p2 flag bind_ orb] in PN.
  eexists l0, _. split; [exact LI|]. split; [exact PN|].
  split.
  { unfold geo. cbn [lx sl2 el2 set_pos_rest lines itype pos slen rest l0].
    split; [reflexivity|]. split; [reflexivity|]. split; [reflexivity|]. split; [reflexivity|].
    split; [lia|]. rewrite ES, SP. cbn [length]. rewrite app_length. cbn [length]. lia. }
  split.
  { split; [reflexivity|]. exists tk. split; [reflexivity|]. auto. }
  split; [reflexivity|]. split; [reflexivity|].
  cbn [lx set_pos_rest pos l0]. lia.
Qed.

Lemma init_state : forall t ts, tok_ok t = true -> forallb tok_ok ts = true -> lastok (t :: ts) = true ->
  exists l0 st0, lex_init (joinc (t :: ts)) = LOk tt l0 /\ p_next (init_pstate l0) = Ok tt st0 /\
                 geo st0 /\ headok t st0 /\ rest (lx st0) = after ts /\ bind_ st0 = 0.
Proof.
  intros t ts T1 TO LO.
  destruct (init_state_gen [] tail_ok_nil t ts T1 TO LO) as (l0 & st0 & LI & PN & G & HO & ER & B0 & _).
  rewrite app_nil_r in LI, ER. exists l0, st0. auto 10.
Qed.

(* Part 2, main theorem: the code points of the minimal-brace printing, lexed and parsed from the first character,
   give exactly the prescribed tree, and the whole text is consumed. *)
Theorem parse_show_chars : forall s fuel, wf s = true -> leaves_ok s = true -> (cfuel s <= fuel)%nat ->
  exists l0 st', lex_init (showc s) = LOk tt l0 /\
                 (p_next ;;; parse_expression fuel) (init_pstate l0) = Ok (ast s) st' /\
                 peek_ty st' = g_TypeEOF /\ rest (lx st') = [].
Proof.
  intros s fuel W LO LF.
  destruct (show_head s) as (t & ts & E & ST).
  pose proof (show_tok_ok s W LO) as TO. pose proof (show_lastok s) as LA. rewrite E in TO, LA.
  cbn [forallb] in TO. apply andb_true_iff in TO. destruct TO as [T1 TO].
  destruct (init_state t ts T1 TO LA) as (l0 & st0 & LI & PN & G & HO & ER & B0).
  destruct (tok_ty_ok _ T1) as [NE NC].
  destruct (run_tokens ts t st0 G HO NE ER TO LA) as (st' & FE & GF & FF & PF & RF & BF & SF).
  exists l0, st'. unfold showc. rewrite E. split; [exact LI|].
  split; [|auto]. unfold bind. rewrite PN.
  apply parse_show_tokens; auto. rewrite E. exact FE.
Qed.

(* The same in front of any further text [tail] (empty, or starting with a space): the hypothesis says what the lexer
   makes of the text after the printing (the first token tk after it, not a comment, cannot continue an expression);
   the parser returns the prescribed tree with tk as its peek token and the lexer where it stands after tk. *)
Theorem parse_show_chars_rest : forall s tail fuel tk l',
  wf s = true -> leaves_ok s = true -> (cfuel s <= fuel)%nat -> tail_ok tail ->
  next_token (mkL (Z.of_nat (length (showc s))) tail g_IndentUnknown [mkLine 0 0]
                  (Z.of_nat (length (showc s)) + Z.of_nat (length tail))) = LOk tk l' ->
  (t_ty tk =? g_TypeComment) = false -> stopb 6 (t_ty tk) = true ->
  exists l0 st', lex_init (showc s ++ tail) = LOk tt l0 /\
                 (p_next ;;; parse_expression fuel) (init_pstate l0) = Ok (ast s) st' /\
                 p2 st' = Some tk /\ lx st' = l'.
Proof.
  intros s tail fuel tk l' W LO LF TT NT NC SB.
  destruct (show_head s) as (t & ts & E & ST).
  pose proof (show_tok_ok s W LO) as TO. pose proof (show_lastok s) as LA. rewrite E in TO, LA.
  cbn [forallb] in TO. apply andb_true_iff in TO. destruct TO as [T1 TO].
  destruct (init_state_gen tail TT t ts T1 TO LA) as (l0 & st0 & LI & PN & G & HO & ER & B0 & P0).
  destruct (tok_ty_ok _ T1) as [NE _].
  destruct (run_to_last tail TT ts t st0 G HO NE ER TO LA) as (stl & FE & GL & FL & _ & RL & PP & _).
  assert (EL : lx stl = mkL (Z.of_nat (length (showc s))) tail g_IndentUnknown [mkLine 0 0]
                           (Z.of_nat (length (showc s)) + Z.of_nat (length tail))).
  { destruct GL as (L1 & L2 & _ & _ & _ & L6).
    assert (PS : pos (lx stl) = Z.of_nat (length (showc s))).
    { rewrite PP, P0. unfold showc. rewrite E, joinc_cons, app_length. lia. }
    clear PP P0 FE ER G HO. destruct (lx stl) as [p r it ls sl]. cbn [lines itype pos slen rest] in *. subst. reflexivity. }
  rewrite <- EL in NT.
  destruct (end_token stl tk l' NT NC SB) as (st' & PL & P2' & LX' & SF).
  exists l0, st'. unfold showc. rewrite E. split; [exact LI|].
  split; [|auto]. unfold bind. rewrite PN.
  apply parse_show_tokens; auto. rewrite E. apply FE. exact PL.
Qed.

(* ------------------------------------------------------------------ the whole front end: a program that is one expression *)
Lemma set_flag_same : forall st, flag st = false -> set_flag false st = Ok tt st.
Proof. intros st H. destruct st. cbn in *. subst. reflexivity. Qed.
Lemma set_bind_same : forall st i, bind_ st = i -> set_bind i st = Ok tt st.
Proof. intros st i H. destruct st. cbn in *. subst. reflexivity. Qed.

Ltac stepb H := unfold bind at 1; rewrite H; cbv beta iota.

Lemma exec_end : forall f ind ins ss cs st, block_goes_on ind st = false ->
  parse (S f) (NExec ind 2 ins ss cs) st = Ok (XBlock ins ss cs) st.
Proof. intros. cbn [parse]. rewrite H. reflexivity. Qed.

Lemma prog_end : forall f ind hs imps x st, block_goes_on ind st = false ->
  parse (S f) (NProgram ind hs imps x) st = Ok (mkProgram imps x) st.
Proof. intros. cbn [parse]. rewrite H. reflexivity. Qed.

Lemma starter_facts : forall t, starter t ->
  (fst t =? g_TypeCommaSep) = false /\ mem (fst t) stmt_types = false /\ mem (fst t) [g_TypeImportW] = false /\
  mem (fst t) [g_TypeInputW] = false /\ mem (fst t) [g_TypeCatchErrorW] = false /\ (fst t =? g_TypeEOF) = false.
Proof. intros t [E|E]; rewrite E; repeat split; reflexivity. Qed.

Section OneExpression.
Variables (t : atok) (st0 st' : pstate) (e : expr).
Hypothesis ST : starter t.
Hypothesis HO : headok t st0.
Hypothesis G0 : geo st0.
Hypothesis B0 : bind_ st0 = 0.
Hypothesis FF : flag st' = true.
Hypothesis PF : peek_ty st' = g_TypeEOF.

Lemma bgo0 : block_goes_on 0 st0 = true.
Proof.
  destruct G0 as (GL & GI & G1 & G2 & GP & GS). destruct HO as (Hf & tk & P2 & Ty & Tx).
  destruct (starter_facts t ST) as (_ & _ & _ & _ & _ & NE).
  unfold block_goes_on, peek_ty, peek_indent, line_indent. rewrite P2, GL, G1. cbn [tok_ty]. rewrite Ty, NE. reflexivity.
Qed.

Lemma bgo' : block_goes_on 0 st' = false.
Proof. unfold block_goes_on. rewrite PF. reflexivity. Qed.

Lemma stmt_one : forall f, parse f (NExpr false) st0 = Ok e st' -> parse (S f) NStmt st0 = Ok (SExpr e) st'.
Proof.
  intros f PE. destruct (starter_facts t ST) as (C & MS & _).
  assert (Hf : flag st0 = false) by (destruct HO; assumption).
  cbn [parse]. stepb (set_flag_same st0 Hf).
  destruct t as [ty l]. stepb (tc_none_head stmt_types ty l st0 HO C MS).
  stepb PE. unfold bind, require_stmt_done, stmt_done. rewrite FF. reflexivity.
Qed.

Lemma exec2_one : forall f X, parse f NStmt st0 = Ok (SExpr e) st' ->
  parse f (NExec 0 2 [] [SExpr e] []) st' = Ok X st' ->
  parse (S f) (NExec 0 2 [] [] []) st0 = Ok X st'.
Proof.
  intros f X PS PX. destruct (starter_facts t ST) as (C & _ & _ & _ & MC & _).
  assert (Hf : flag st0 = false) by (destruct HO; assumption).
  cbn [parse]. rewrite bgo0.
  stepb (set_bind_same st0 0 B0). change (2 =? 1) with false. change (2 =? 2) with true. cbv iota.
  stepb (set_flag_same st0 Hf).
  destruct t as [ty l]. stepb (tc_none_head [g_TypeCatchErrorW] ty l st0 HO C MC).
  stepb PS. cbn [app]. exact PX.
Qed.

Lemma exec1_one : forall f R, parse f (NExec 0 2 [] [] []) st0 = R -> parse (S f) (NExec 0 1 [] [] []) st0 = R.
Proof.
  intros f R PX. destruct (starter_facts t ST) as (C & _ & _ & MI & _).
  cbn [parse]. rewrite bgo0.
  stepb (set_bind_same st0 0 B0). change (1 =? 1) with true. cbv iota.
  destruct t as [ty l]. stepb (tc_none_head [g_TypeInputW] ty l st0 HO C MI).
  exact PX.
Qed.

Lemma prog2_one : forall f x P, parse f (NExec 0 1 [] [] []) st0 = Ok x st' ->
  parse f (NProgram 0 2 [] (Some x)) st' = Ok P st' ->
  parse (S f) (NProgram 0 2 [] None) st0 = Ok P st'.
Proof.
  intros f x P PX PP.
  assert (Hf : flag st0 = false) by (destruct HO; assumption).
  cbn [parse]. rewrite bgo0.
  stepb (set_bind_same st0 0 B0). stepb (set_flag_same st0 Hf).
  change (2 =? 1) with false. cbv iota. stepb PX. exact PP.
Qed.

Lemma prog1_one : forall f R, parse f (NProgram 0 2 [] None) st0 = R -> parse (S f) (NProgram 0 1 [] None) st0 = R.
Proof.
  intros f R PP. destruct (starter_facts t ST) as (C & _ & MI & _).
  assert (Hf : flag st0 = false) by (destruct HO; assumption).
  cbn [parse]. rewrite bgo0.
  stepb (set_bind_same st0 0 B0). stepb (set_flag_same st0 Hf).
  change (1 =? 1) with true. cbv iota.
  destruct t as [ty l]. stepb (tc_none_head [g_TypeImportW] ty l st0 HO C MI).
  exact PP.
Qed.

Lemma program_one : forall f, parse f (NExpr false) st0 = Ok e st' ->
  parse (S (S (S (S (S f))))) (NProgram 0 1 [] None) st0 = Ok (mkProgram [] (Some (XBlock [] [SExpr e] []))) st'.
Proof.
  intros f PE. apply prog1_one.
  apply (prog2_one _ (XBlock [] [SExpr e] [])); [|apply prog_end; exact bgo'].
  apply exec1_one. apply exec2_one; [apply stmt_one; exact PE|].
  exact (exec_end f 0 [] [SExpr e] [] st' bgo').
Qed.
End OneExpression.

Definition one_expression (e : expr) : program := mkProgram [] (Some (XBlock [] [SExpr e] [])).

Theorem compile_show_chars : forall s fuel, wf s = true -> leaves_ok s = true -> (cfuel s + 5 <= fuel)%nat ->
  compile fuel (showc s) = OTree (one_expression (ast s)) [mkLine 0 0] g_IndentUnknown.
Proof.
  intros s fuel W LO LF.
  destruct (show_head s) as (t & ts & E & ST).
  pose proof (show_tok_ok s W LO) as TO. pose proof (show_lastok s) as LA. rewrite E in TO, LA.
  cbn [forallb] in TO. apply andb_true_iff in TO. destruct TO as [T1 TO].
  destruct (init_state t ts T1 TO LA) as (l0 & st0 & LI & PN & G & HO & ER & B0).
  destruct (tok_ty_ok _ T1) as [NE NC].
  destruct (run_tokens ts t st0 G HO NE ER TO LA) as (st' & FE & GF & FF & PF & RF & BF & SF).
  assert (PE : parse (fuel - 5) (NExpr false) st0 = Ok (ast s) st').
  { apply parse_show_tokens; auto; [lia|]. rewrite E. exact FE. }
  unfold compile, showc. rewrite E, LI. unfold bind. rewrite PN.
  assert (PI : peek_indent st0 = 0).
  { destruct G as (GL & GI & G1 & _). unfold peek_indent, line_indent. rewrite GL, G1. reflexivity. }
  rewrite PI. pose proof (program_one t st0 st' (ast s) ST HO G B0 FF PF _ PE) as PP.
  replace (S (S (S (S (S (fuel - 5))))))%nat with fuel in PP by lia. rewrite PP.
  rewrite PF. change (g_TypeEOF =? g_TypeEOF) with true. cbn [negb].
  destruct GF as (GL & GI & _). rewrite GL, GI. reflexivity.
Qed.

(* ================================================================== Part 3: all operator trees of the model's Ast *)
(* the operator-expression trees: identifier leaves, EArith 12..17, ELogic 1, 2, 4..11 *)
Definition arith_op (ty : Z) : option Z :=
  if ty =? 12 then Some g_TypePlus else if ty =? 13 then Some g_TypeMinus
  else if ty =? 14 then Some g_TypeMultiply else if ty =? 15 then Some g_TypeDivision
  else if ty =? 16 then Some g_TypeIntDivMark else if ty =? 17 then Some g_TypeModuloMark else None.

(* w = true: the keyword spelling of a comparison (等于, 不等于, 大于 ...), w = false: the mark (==, /=, > ...) *)
Definition logic_op (w : bool) (ty : Z) : option Z :=
  if ty =? 1 then Some g_TypeLogicOrW else if ty =? 2 then Some g_TypeLogicAndW
  else if ty =? 4 then Some (if w then g_TypeLogicEqualW else g_TypeEqualMark)
  else if ty =? 5 then Some (if w then g_TypeLogicNotEqW else g_TypeNEMark)
  else if ty =? 6 then Some (if w then g_TypeLogicGtW else g_TypeGTMark)
  else if ty =? 7 then Some (if w then g_TypeLogicGteW else g_TypeGTEMark)
  else if ty =? 8 then Some (if w then g_TypeLogicLtW else g_TypeLTMark)
  else if ty =? 9 then Some (if w then g_TypeLogicLteW else g_TypeLTEMark)
  else if ty =? 10 then Some g_TypeLogicYesW else if ty =? 11 then Some g_TypeLogicNoW else None.

Fixpoint sx_of (w : bool) (e : expr) : option sx :=
  match e with
  | EId n => Some (SId n)
  | EArith ty l r =>
      match arith_op ty, sx_of w l, sx_of w r with
      | Some op, Some a, Some b => Some (SBin op a b)
      | _, _, _ => None
      end
  | ELogic ty l r =>
      match logic_op w ty, sx_of w l, sx_of w r with
      | Some op, Some a, Some b => Some (SBin op a b)
      | _, _, _ => None
      end
  | _ => None
  end.

Fixpoint op_expr (e : expr) : bool :=
  match e with
  | EId n => leaf_ok n
  | EArith ty l r => (12 <=? ty) && (ty <=? 17) && op_expr l && op_expr r
  | ELogic ty l r => (((1 <=? ty) && (ty <=? 2)) || ((4 <=? ty) && (ty <=? 11))) && op_expr l && op_expr r
  | _ => false
  end.

Lemma arith_op_ok : forall ty op, arith_op ty = Some op ->
  lvl op <> 0%nat /\ forall l r, nodek (lvl op) op l r = EArith ty l r.
Proof.
  intros ty op H. unfold arith_op in H.
  repeat match type of H with
         | (if ?b then _ else _) = _ => let E := fresh "E" in destruct b eqn:E; [apply Z.eqb_eq in E; inversion H; subst; split; [let X := fresh in intro X; vm_compute in X; discriminate X|intros; reflexivity]|]
         end.
  discriminate.
Qed.

Lemma logic_op_ok : forall w ty op, logic_op w ty = Some op ->
  lvl op <> 0%nat /\ forall l r, nodek (lvl op) op l r = ELogic ty l r.
Proof.
  intros w ty op H. unfold logic_op in H.
  repeat match type of H with
         | (if ?b then _ else _) = _ => let E := fresh "E" in destruct b eqn:E; [apply Z.eqb_eq in E; destruct w; inversion H; subst; (split; [let X := fresh in intro X; vm_compute in X; discriminate X|intros; reflexivity])|]
         end.
  discriminate.
Qed.

Lemma sx_of_ast : forall w e s, sx_of w e = Some s -> ast s = e /\ wf s = true.
Proof.
  intros w. induction e; intros s H; cbn [sx_of] in H; try discriminate.
  - inversion H; subst. split; reflexivity.
  - destruct (logic_op w ty) as [op|] eqn:O; [|discriminate].
    destruct (sx_of w e1) as [a|]; [|discriminate]. destruct (sx_of w e2) as [b|]; [|discriminate].
    inversion H; subst. destruct (IHe1 _ eq_refl) as [A1 W1]. destruct (IHe2 _ eq_refl) as [A2 W2].
    destruct (logic_op_ok _ _ _ O) as [L N]. cbn [ast wf]. rewrite A1, A2, W1, W2, N.
    apply Nat.eqb_neq in L. rewrite L. split; reflexivity.
  - destruct (arith_op ty) as [op|] eqn:O; [|discriminate].
    destruct (sx_of w e1) as [a|]; [|discriminate]. destruct (sx_of w e2) as [b|]; [|discriminate].
    inversion H; subst. destruct (IHe1 _ eq_refl) as [A1 W1]. destruct (IHe2 _ eq_refl) as [A2 W2].
    destruct (arith_op_ok _ _ O) as [L N]. cbn [ast wf]. rewrite A1, A2, W1, W2, N.
    apply Nat.eqb_neq in L. rewrite L. split; reflexivity.
Qed.

Lemma arith_op_some : forall ty, (12 <=? ty) && (ty <=? 17) = true -> exists op, arith_op ty = Some op.
Proof.
  intros ty H. apply andb_true_iff in H. destruct H as [A B]. apply Z.leb_le in A. apply Z.leb_le in B.
  assert (C : ty = 12 \/ ty = 13 \/ ty = 14 \/ ty = 15 \/ ty = 16 \/ ty = 17) by lia.
  destruct C as [C|[C|[C|[C|[C|C]]]]]; subst; eexists; reflexivity.
Qed.

Lemma logic_op_some : forall w ty, ((1 <=? ty) && (ty <=? 2)) || ((4 <=? ty) && (ty <=? 11)) = true ->
  exists op, logic_op w ty = Some op.
Proof.
  intros w ty H.
  assert (C : ty = 1 \/ ty = 2 \/ ty = 4 \/ ty = 5 \/ ty = 6 \/ ty = 7 \/ ty = 8 \/ ty = 9 \/ ty = 10 \/ ty = 11).
  { apply orb_true_iff in H. destruct H as [H|H]; apply andb_true_iff in H; destruct H as [A B];
      apply Z.leb_le in A; apply Z.leb_le in B; lia. }
  repeat (destruct C as [C|C]; [subst; eexists; reflexivity|]). subst. eexists. reflexivity.
Qed.

Lemma op_expr_sx : forall w e, op_expr e = true -> exists s, sx_of w e = Some s /\ leaves_ok s = true.
Proof.
  intros w. induction e; intro H; cbn [op_expr] in H; try discriminate.
  - exists (SId l). split; [reflexivity|exact H].
  - apply andb_true_iff in H. destruct H as [H H2]. apply andb_true_iff in H. destruct H as [H0 H1].
    destruct (IHe1 H1) as (a & A1 & A2). destruct (IHe2 H2) as (b & B1 & B2).
    destruct (logic_op_some w ty H0) as (op & O).
    exists (SBin op a b). cbn [sx_of leaves_ok]. rewrite O, A1, B1, A2, B2. split; reflexivity.
  - apply andb_true_iff in H. destruct H as [H H2]. apply andb_true_iff in H. destruct H as [H0 H1].
    destruct (IHe1 H1) as (a & A1 & A2). destruct (IHe2 H2) as (b & B1 & B2).
    destruct (arith_op_some ty H0) as (op & O).
    exists (SBin op a b). cbn [sx_of leaves_ok]. rewrite O, A1, B1, A2, B2. split; reflexivity.
Qed.

(* the minimal-brace text of an operator tree, in either spelling of the comparisons *)
Definition print_expr (w : bool) (e : expr) : option (list Z) :=
  match sx_of w e with Some s => Some (showc s) | None => None end.
Definition fuel_expr (w : bool) (e : expr) : nat :=
  match sx_of w e with Some s => (cfuel s + 5)%nat | None => 0%nat end.

(* MAIN THEOREM for the trees of model/Ast.v: every operator tree has a minimal-brace text, and compiling that text
   gives the program that consists of exactly that tree. *)
Theorem C03_precedence_all_trees : forall w e, op_expr e = true ->
  exists src, print_expr w e = Some src /\
    forall fuel, (fuel_expr w e <= fuel)%nat ->
      compile fuel src = OTree (one_expression e) [mkLine 0 0] g_IndentUnknown.
Proof.
  intros w e H. destruct (op_expr_sx w e H) as (s & SX & LO).
  destruct (sx_of_ast w e s SX) as [A W].
  exists (showc s). unfold print_expr, fuel_expr. rewrite SX. split; [reflexivity|].
  intros fuel LF. rewrite <- A. apply compile_show_chars; auto.
Qed.

(* ------------------------------------------------------------------ corollaries: precedence, associativity, braces *)
Section Corollaries.
Variables a b c d : lit.
Hypothesis La : leaf_ok a = true.
Hypothesis Lb : leaf_ok b = true.
Hypothesis Lc : leaf_ok c = true.
Hypothesis Ld : leaf_ok d = true.

Ltac by_tree s :=
  match goal with
  | |- compile ?fuel ?src = _ =>
      change src with (showc s);
      rewrite (compile_show_chars s fuel eq_refl);
      [reflexivity | cbn [leaves_ok]; rewrite ?La, ?Lb, ?Lc, ?Ld; reflexivity | cbn; lia]
  end.

(* a + b * c  is  a + (b * c) *)
Corollary precedence_mul_over_add : forall fuel, (80 <= fuel)%nat ->
  compile fuel (a ++ [32; 43; 32] ++ b ++ [32; 42; 32] ++ c)
  = OTree (one_expression (EArith 12 (EId a) (EArith 14 (EId b) (EId c)))) [mkLine 0 0] g_IndentUnknown.
Proof. intros. by_tree (SBin g_TypePlus (SId a) (SBin g_TypeMultiply (SId b) (SId c))). Qed.

(* a * b + c  is  (a * b) + c *)
Corollary precedence_mul_over_add_l : forall fuel, (80 <= fuel)%nat ->
  compile fuel (a ++ [32; 42; 32] ++ b ++ [32; 43; 32] ++ c)
  = OTree (one_expression (EArith 12 (EArith 14 (EId a) (EId b)) (EId c))) [mkLine 0 0] g_IndentUnknown.
Proof. intros. by_tree (SBin g_TypePlus (SBin g_TypeMultiply (SId a) (SId b)) (SId c)). Qed.

(* a - b - c  is  (a - b) - c *)
Corollary left_assoc_minus : forall fuel, (80 <= fuel)%nat ->
  compile fuel (a ++ [32; 45; 32] ++ b ++ [32; 45; 32] ++ c)
  = OTree (one_expression (EArith 13 (EArith 13 (EId a) (EId b)) (EId c))) [mkLine 0 0] g_IndentUnknown.
Proof. intros. by_tree (SBin g_TypeMinus (SBin g_TypeMinus (SId a) (SId b)) (SId c)). Qed.

(* a / b * c  is  (a / b) * c *)
Corollary left_assoc_div_mul : forall fuel, (80 <= fuel)%nat ->
  compile fuel (a ++ [32; 47; 32] ++ b ++ [32; 42; 32] ++ c)
  = OTree (one_expression (EArith 14 (EArith 15 (EId a) (EId b)) (EId c))) [mkLine 0 0] g_IndentUnknown.
Proof. intros. by_tree (SBin g_TypeMultiply (SBin g_TypeDivision (SId a) (SId b)) (SId c)). Qed.

(* a - { b - c }  is  a - (b - c): the right operand of the same level needs the braces *)
Corollary braces_right_operand : forall fuel, (120 <= fuel)%nat ->
  compile fuel (a ++ [32; 45; 32; 123; 32] ++ b ++ [32; 45; 32] ++ c ++ [32; 125])
  = OTree (one_expression (EArith 13 (EId a) (EArith 13 (EId b) (EId c)))) [mkLine 0 0] g_IndentUnknown.
Proof. intros. by_tree (SBin g_TypeMinus (SId a) (SBin g_TypeMinus (SId b) (SId c))). Qed.

(* { a + b } * c  is  (a + b) * c *)
Corollary braces_lower_level : forall fuel, (120 <= fuel)%nat ->
  compile fuel ([123; 32] ++ a ++ [32; 43; 32] ++ b ++ [32; 125; 32; 42; 32] ++ c)
  = OTree (one_expression (EArith 14 (EArith 12 (EId a) (EId b)) (EId c))) [mkLine 0 0] g_IndentUnknown.
Proof. intros. by_tree (SBin g_TypeMultiply (SBin g_TypePlus (SId a) (SId b)) (SId c)). Qed.

(* a 或 b 且 c  is  a 或 (b 且 c) *)
Corollary precedence_and_over_or : forall fuel, (80 <= fuel)%nat ->
  compile fuel (a ++ [32; 25110; 32] ++ b ++ [32; 19988; 32] ++ c)
  = OTree (one_expression (ELogic 1 (EId a) (ELogic 2 (EId b) (EId c)))) [mkLine 0 0] g_IndentUnknown.
Proof. intros. by_tree (SBin g_TypeLogicOrW (SId a) (SBin g_TypeLogicAndW (SId b) (SId c))). Qed.

(* a + b > c * d  is  (a + b) > (c * d), and so is  a + b 大于 c * d *)
Corollary precedence_arith_over_comparison : forall fuel, (120 <= fuel)%nat ->
  compile fuel (a ++ [32; 43; 32] ++ b ++ [32; 62; 32] ++ c ++ [32; 42; 32] ++ d)
  = OTree (one_expression (ELogic 6 (EArith 12 (EId a) (EId b)) (EArith 14 (EId c) (EId d)))) [mkLine 0 0] g_IndentUnknown.
Proof. intros. by_tree (SBin g_TypeGTMark (SBin g_TypePlus (SId a) (SId b)) (SBin g_TypeMultiply (SId c) (SId d))). Qed.
Corollary precedence_arith_over_comparison_word : forall fuel, (120 <= fuel)%nat ->
  compile fuel (a ++ [32; 43; 32] ++ b ++ [32; 22823; 20110; 32] ++ c ++ [32; 42; 32] ++ d)
  = OTree (one_expression (ELogic 6 (EArith 12 (EId a) (EId b)) (EArith 14 (EId c) (EId d)))) [mkLine 0 0] g_IndentUnknown.
Proof. intros. by_tree (SBin g_TypeLogicGtW (SBin g_TypePlus (SId a) (SId b)) (SBin g_TypeMultiply (SId c) (SId d))). Qed.

(* a == b == c  is  (a == b) == c, and  a < b 不等于 c  is  (a < b) 不等于 c *)
Corollary left_assoc_comparison : forall fuel, (80 <= fuel)%nat ->
  compile fuel (a ++ [32; 61; 61; 32] ++ b ++ [32; 61; 61; 32] ++ c)
  = OTree (one_expression (ELogic 4 (ELogic 4 (EId a) (EId b)) (EId c))) [mkLine 0 0] g_IndentUnknown.
Proof. intros. by_tree (SBin g_TypeEqualMark (SBin g_TypeEqualMark (SId a) (SId b)) (SId c)). Qed.
Corollary left_assoc_comparison_mixed : forall fuel, (80 <= fuel)%nat ->
  compile fuel (a ++ [32; 60; 32] ++ b ++ [32; 19981; 31561; 20110; 32] ++ c)
  = OTree (one_expression (ELogic 5 (ELogic 8 (EId a) (EId b)) (EId c))) [mkLine 0 0] g_IndentUnknown.
Proof. intros. by_tree (SBin g_TypeLogicNotEqW (SBin g_TypeLTMark (SId a) (SId b)) (SId c)). Qed.
(* a == { b == c }  is  a == (b == c) *)
Corollary braces_right_comparison : forall fuel, (120 <= fuel)%nat ->
  compile fuel (a ++ [32; 61; 61; 32; 123; 32] ++ b ++ [32; 61; 61; 32] ++ c ++ [32; 125])
  = OTree (one_expression (ELogic 4 (EId a) (ELogic 4 (EId b) (EId c)))) [mkLine 0 0] g_IndentUnknown.
Proof. intros. by_tree (SBin g_TypeEqualMark (SId a) (SBin g_TypeEqualMark (SId b) (SId c))). Qed.

(* a == b 且 c < d  is  (a == b) 且 (c < d) *)
Corollary precedence_comparison_over_and : forall fuel, (120 <= fuel)%nat ->
  compile fuel (a ++ [32; 61; 61; 32] ++ b ++ [32; 19988; 32] ++ c ++ [32; 60; 32] ++ d)
  = OTree (one_expression (ELogic 2 (ELogic 4 (EId a) (EId b)) (ELogic 8 (EId c) (EId d)))) [mkLine 0 0] g_IndentUnknown.
Proof. intros. by_tree (SBin g_TypeLogicAndW (SBin g_TypeEqualMark (SId a) (SId b)) (SBin g_TypeLTMark (SId c) (SId d))). Qed.
End Corollaries.

(* ------------------------------------------------------------------ examples on concrete code points *)
Example leaf_letters : forallb idc [65; 90; 97; 122; 48; 57; 95; 30002; 20057] = true.   (* A Z a z 0 9 _ 甲 乙 *)
Proof. vm_compute. reflexivity. Qed.

Definition eA := EId [65]. Definition eB := EId [66]. Definition eC := EId [67]. Definition eD := EId [68].

(* A + B * C - D *)
Example ex_print_1 : print_expr false (EArith 13 (EArith 12 eA (EArith 14 eB eC)) eD)
                     = Some [65; 32; 43; 32; 66; 32; 42; 32; 67; 32; 45; 32; 68].
Proof. vm_compute. reflexivity. Qed.
Example ex_compile_1 : compile 200 [65; 32; 43; 32; 66; 32; 42; 32; 67; 32; 45; 32; 68]
                       = OTree (one_expression (EArith 13 (EArith 12 eA (EArith 14 eB eC)) eD)) [mkLine 0 0] 0.
Proof. vm_compute. reflexivity. Qed.

(* { A - { B - C } } * D : nested braces exactly where required *)
Example ex_print_2 : print_expr false (EArith 14 (EArith 13 eA (EArith 13 eB eC)) eD)
                     = Some [123; 32; 65; 32; 45; 32; 123; 32; 66; 32; 45; 32; 67; 32; 125; 32; 125; 32; 42; 32; 68].
Proof. vm_compute. reflexivity. Qed.
Example ex_compile_2 :
  compile 400 [123; 32; 65; 32; 45; 32; 123; 32; 66; 32; 45; 32; 67; 32; 125; 32; 125; 32; 42; 32; 68]
  = OTree (one_expression (EArith 14 (EArith 13 eA (EArith 13 eB eC)) eD)) [mkLine 0 0] 0.
Proof. vm_compute. reflexivity. Qed.

(* A 等于 B 或 C 且 D  =  (A 等于 B) 或 (C 且 D); with marks: A == B 或 C 且 D *)
Example ex_print_3 : print_expr true (ELogic 1 (ELogic 4 eA eB) (ELogic 2 eC eD))
                     = Some [65; 32; 31561; 20110; 32; 66; 32; 25110; 32; 67; 32; 19988; 32; 68].
Proof. vm_compute. reflexivity. Qed.
Example ex_compile_3 : compile 400 [65; 32; 31561; 20110; 32; 66; 32; 25110; 32; 67; 32; 19988; 32; 68]
                       = OTree (one_expression (ELogic 1 (ELogic 4 eA eB) (ELogic 2 eC eD))) [mkLine 0 0] 0.
Proof. vm_compute. reflexivity. Qed.
Example ex_compile_3m : compile 400 [65; 32; 61; 61; 32; 66; 32; 25110; 32; 67; 32; 19988; 32; 68]
                        = OTree (one_expression (ELogic 1 (ELogic 4 eA eB) (ELogic 2 eC eD))) [mkLine 0 0] 0.
Proof. vm_compute. reflexivity. Qed.

(* the general theorem instantiated (no computation of the parser): *)
Example ex_by_theorem : exists src, print_expr false (EArith 13 (EArith 12 eA (EArith 14 eB eC)) eD) = Some src /\
  forall fuel, (fuel_expr false (EArith 13 (EArith 12 eA (EArith 14 eB eC)) eD) <= fuel)%nat ->
    compile fuel src = OTree (one_expression (EArith 13 (EArith 12 eA (EArith 14 eB eC)) eD)) [mkLine 0 0] g_IndentUnknown.
Proof. apply C03_precedence_all_trees. vm_compute. reflexivity. Qed.

(* ------------------------------------------------------------------ chained comparisons (REPAIRED: fixes/C03-chain) *)
(* The manual (第3章 "运算符的优先级": operators of the same level are processed from left to right; BNF.md: the
   production of ‹比较表达式› repeats [comparison operator ‹比较表达式›]) lets comparisons be chained.  The pinned parser
   (parseExpressionLv3) took ONE comparison, so  A == B == C  was rejected with a syntax error at the second == .
   The repaired parser loops at this level like at every other one (NLv3 / NLv3Tail), comparisons associate to the
   left, and the general theorem above covers them with the same printing rule as the other levels. *)
Definition chained : sx := SBin g_TypeEqualMark (SBin g_TypeEqualMark (SId [65]) (SId [66])) (SId [67]).

Example chained_text : showc chained = [65; 32; 61; 61; 32; 66; 32; 61; 61; 32; 67].   (* A == B == C *)
Proof. vm_compute. reflexivity. Qed.
Example chained_prescribed : ast chained = ELogic 4 (ELogic 4 eA eB) eC.
Proof. reflexivity. Qed.
Example chained_accepted : compile 400 [65; 32; 61; 61; 32; 66; 32; 61; 61; 32; 67]
                           = OTree (one_expression (ELogic 4 (ELogic 4 eA eB) eC)) [mkLine 0 0] 0.
Proof. vm_compute. reflexivity. Qed.
(* ParseExpression on the same text: the whole chain *)
Example chained_expression_only :
  match lex_init [65; 32; 61; 61; 32; 66; 32; 61; 61; 32; 67] with
  | LOk _ l0 => match (p_next ;;; parse_expression 400) (init_pstate l0) with
                | Ok e st => Some (e, peek_ty st)
                | _ => None
                end
  | _ => None
  end = Some (ELogic 4 (ELogic 4 eA eB) eC, g_TypeEOF).
Proof. vm_compute. reflexivity. Qed.
(* A等于B不为C : keyword spellings, different comparisons *)
Example chained_words : compile 400 [65; 31561; 20110; 66; 19981; 20026; 67]
                        = OTree (one_expression (ELogic 11 (ELogic 4 eA eB) eC)) [mkLine 0 0] 0.
Proof. vm_compute. reflexivity. Qed.
(* braces around the left comparison change nothing; around the right one they give the other tree *)
Example chained_braced : compile 400 [123; 32; 65; 32; 61; 61; 32; 66; 32; 125; 32; 61; 61; 32; 67]
                         = OTree (one_expression (ELogic 4 (ELogic 4 eA eB) eC)) [mkLine 0 0] 0.
Proof. vm_compute. reflexivity. Qed.
Example chained_braced_right :
  showc (SBin g_TypeEqualMark (SId [65]) (SBin g_TypeEqualMark (SId [66]) (SId [67])))
  = [65; 32; 61; 61; 32; 123; 32; 66; 32; 61; 61; 32; 67; 32; 125]
  /\ compile 400 [65; 32; 61; 61; 32; 123; 32; 66; 32; 61; 61; 32; 67; 32; 125]
     = OTree (one_expression (ELogic 4 eA (ELogic 4 eB eC))) [mkLine 0 0] 0.
Proof. split; vm_compute; reflexivity. Qed.

(* ================================================================== Part 4: more fuel never changes a result *)
Definition le_res {A} (r r' : res A) : Prop := r = Fuel \/ r = r'.

Lemma le_refl : forall A (r : res A), le_res r r.
Proof. intros. right. reflexivity. Qed.

Lemma le_trans : forall A (r1 r2 r3 : res A), le_res r1 r2 -> le_res r2 r3 -> le_res r1 r3.
Proof. intros A r1 r2 r3 [H|H] [K|K]; subst; unfold le_res; auto. Qed.

Lemma le_bind : forall A B (m m' : M A) (k k' : A -> M B) st,
  le_res (m st) (m' st) -> (forall a s, le_res (k a s) (k' a s)) -> le_res (bind m k st) (bind m' k' st).
Proof.
  intros A B m m' k k' st [H|H] K; unfold bind.
  - rewrite H. left. reflexivity.
  - rewrite H. destruct (m' st); try (right; reflexivity). apply K.
Qed.

Section Mono.
Variables f g : nat.
Hypothesis IH : forall n st, le_res (parse f n st) (parse g n st).

Ltac mono := repeat first
  [ match goal with |- le_res (parse f ?n ?s) _ => exact (IH n s) end
  | apply le_bind; [|intros ? ?]
  | match goal with
    | |- le_res (match ?o with _ => _ end _) _ => destruct o
    | |- le_res (if ?b then _ else _) _ => destruct b
    end
  | apply le_refl ].

Lemma mono_step : forall n st, le_res (parse (S f) n st) (parse (S g) n st).
Proof.
  intros n st. destruct n; cbn [parse]; cbv zeta; mono.
Qed.
End Mono.

Theorem parse_mono1 : forall f n st, le_res (parse f n st) (parse (S f) n st).
Proof.
  induction f as [|f IH]; intros n st.
  - left. reflexivity.
  - apply mono_step. exact IH.
Qed.

Theorem parse_mono : forall f f' n st, (f <= f')%nat -> le_res (parse f n st) (parse f' n st).
Proof.
  intros f f' n st L. induction L as [|f' L IH]; [apply le_refl|].
  eapply le_trans; [exact IH|apply parse_mono1].
Qed.

Definition le_out (o o' : outcome) : Prop := o = OFuel \/ o = o'.

Theorem compile_mono : forall f f' src, (f <= f')%nat -> le_out (compile f src) (compile f' src).
Proof.
  intros f f' src L. unfold compile. destruct (lex_init src) as [u l0| | |]; try (right; reflexivity).
  unfold bind. destruct (p_next (init_pstate l0)) as [u1 st| | |]; try (right; reflexivity).
  destruct (parse_mono f f' (NProgram (peek_indent st) 1 [] None) st L) as [H|H]; rewrite H.
  - left. reflexivity.
  - right. reflexivity.
Qed.

(* with the fuel the front end gives itself (16 * length + 64) *)
Theorem compile_show_chars_default : forall s, wf s = true -> leaves_ok s = true ->
  compile (default_fuel (showc s)) (showc s) = OTree (one_expression (ast s)) [mkLine 0 0] g_IndentUnknown.
Proof.
  intros s W LO.
  set (F := Nat.max (default_fuel (showc s)) (cfuel s + 5)).
  pose proof (compile_show_chars s F W LO ltac:(unfold F; lia)) as HF.
  destruct (compile_mono (default_fuel (showc s)) F (showc s) ltac:(unfold F; lia)) as [H|H].
  - exfalso. exact (compile_total _ H).
  - rewrite H. exact HF.
Qed.

(* for every fuel: out of fuel, or the prescribed tree *)
Theorem compile_show_chars_any_fuel : forall s fuel, wf s = true -> leaves_ok s = true ->
  compile fuel (showc s) = OFuel \/
  compile fuel (showc s) = OTree (one_expression (ast s)) [mkLine 0 0] g_IndentUnknown.
Proof.
  intros s fuel W LO.
  set (F := Nat.max fuel (cfuel s + 5)).
  pose proof (compile_show_chars s F W LO ltac:(unfold F; lia)) as HF.
  destruct (compile_mono fuel F (showc s) ltac:(unfold F; lia)) as [H|H]; [left; exact H|right].
  rewrite H. exact HF.
Qed.

Theorem C03_precedence_all_trees_default : forall w e, op_expr e = true ->
  exists src, print_expr w e = Some src /\
    compile (default_fuel src) src = OTree (one_expression e) [mkLine 0 0] g_IndentUnknown /\
    compile_encode src = [[1; 0; 0; 0]; enc_lines [mkLine 0 0]; enc_program (one_expression e)].
Proof.
  intros w e H. destruct (op_expr_sx w e H) as (s & SX & LO).
  destruct (sx_of_ast w e s SX) as [EA W].
  exists (showc s). unfold print_expr. rewrite SX. split; [reflexivity|].
  pose proof (compile_show_chars_default s W LO) as HC. rewrite EA in HC.
  split; [exact HC|]. unfold compile_encode. rewrite HC. reflexivity.
Qed.

(* ------------------------------------------------------------------ the expression in front of other text *)
(* A + B * C directly followed by ： (as in 如果 A + B * C：) and by ） : the tree is the same, the mark is the peek token *)
Example ex_rest_colon : exists l0 st',
  lex_init ([65; 32; 43; 32; 66; 32; 42; 32; 67] ++ [65306]) = LOk tt l0 /\
  (p_next ;;; parse_expression 100) (init_pstate l0) = Ok (EArith 12 eA (EArith 14 eB eC)) st' /\
  peek_ty st' = g_TypeFuncCall.
Proof.
  edestruct (parse_show_chars_rest (SBin g_TypePlus (SId [65]) (SBin g_TypeMultiply (SId [66]) (SId [67]))) [65306] 100)
    as (l0 & st' & A1 & A2 & A3 & A4);
    [reflexivity | reflexivity | cbn; lia | reflexivity | vm_compute; reflexivity | reflexivity | reflexivity |].
  exists l0, st'. split; [exact A1|]. split; [exact A2|]. unfold peek_ty. rewrite A3. reflexivity.
Qed.

Example ex_rest_paren : exists l0 st',
  lex_init ([65; 32; 45; 32; 66; 32; 45; 32; 67] ++ [32; 65289; 65307; 88]) = LOk tt l0 /\
  (p_next ;;; parse_expression 100) (init_pstate l0) = Ok (EArith 13 (EArith 13 eA eB) eC) st' /\
  peek_ty st' = g_TypeFuncQuoteR.
Proof.
  edestruct (parse_show_chars_rest (SBin g_TypeMinus (SBin g_TypeMinus (SId [65]) (SId [66])) (SId [67])) [32; 65289; 65307; 88] 100)
    as (l0 & st' & A1 & A2 & A3 & A4);
    [reflexivity | reflexivity | cbn; lia | reflexivity | vm_compute; reflexivity | reflexivity | reflexivity |].
  exists l0, st'. split; [exact A1|]. split; [exact A2|]. unfold peek_ty. rewrite A3. reflexivity.
Qed.

(* ================================================================== assumptions *)
Print Assumptions parse_show_tokens.
Print Assumptions parse_operand_tokens.
Print Assumptions parse_show_chars.
Print Assumptions parse_show_chars_rest.
Print Assumptions compile_show_chars.
Print Assumptions parse_mono.
Print Assumptions compile_show_chars_default.
Print Assumptions compile_show_chars_any_fuel.
Print Assumptions C03_precedence_all_trees.
Print Assumptions C03_precedence_all_trees_default.
