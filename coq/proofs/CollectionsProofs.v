(* CollectionsProofs.v — C12: the model of pkg/value (model/Collections.v) refines the abstract
   sequence / insertion-ordered map (spec/CollectionsSpec.v).  Part 1: lists. *)
From Coq Require Import List ZArith Bool Lia Permutation.
Import ListNotations.
From Zn.model Require Import CollectionsTypes Collections.
From Zn.spec Require Import SeqSpec OMapSpec CollectionsSpec.
Open Scope Z_scope.

(* ---------- side conditions ---------- *)
(* numbers used as positions are the ones the float64 arithmetic of the code treats exactly *)
Definition num_ok (n : num) : bool :=
  match n with
  | NInt z | NHalf z => (-4503599627370496 <? z) && (z <? 4503599627370496)
  | _ => true
  end.
Definition val_num_ok (v : val) : bool := match v with VNum n => num_ok n | _ => true end.
Definition lop_okb (op : lop) : bool :=
  match op with
  | LIndexGet i => val_num_ok i
  | LIndexSet i _ => val_num_ok i
  | LMethod MInsert [_; i] | LMethod MAdd [_; i] => val_num_ok i      (* the position argument of 新增 / 添加 *)
  | _ => true
  end.
(* a Go slice is shorter than 2^62 elements *)
Definition small (l : list val) : Prop := zlen l < 4611686018427387904.

(* ---------- basic facts ---------- *)
Lemma zlen_nonneg : forall A (l : list A), 0 <= zlen l.
Proof. intros. unfold zlen. lia. Qed.
Lemma zlen_app : forall A (a b : list A), zlen (a ++ b) = zlen a + zlen b.
Proof. intros. unfold zlen. rewrite app_length. lia. Qed.
Lemma zlen_cons : forall A (x : A) l, zlen (x :: l) = 1 + zlen l.
Proof. intros. unfold zlen. cbn [length]. lia. Qed.

Lemma wrap64_id : forall z, -9223372036854775808 <= z < 9223372036854775808 -> wrap64 z = z.
Proof. intros z H. unfold wrap64. rewrite Z.mod_small by lia. lia. Qed.
Lemma wrap64_min_minus1 : wrap64 (min_int64 - 1) = 9223372036854775807.
Proof. reflexivity. Qed.

Lemma go_index_nth : forall A (l : list A) i, 0 <= i < zlen l -> go_index l i = nth_error l (Z.to_nat i).
Proof.
  intros A l i H. unfold go_index.
  destruct (i <? 0) eqn:E1; [lia|]. destruct (zlen l <=? i) eqn:E2; [lia|]. reflexivity.
Qed.
Lemma go_index_none : forall A (l : list A) i, ~ (0 <= i < zlen l) -> go_index l i = None.
Proof.
  intros A l i H. unfold go_index.
  destruct (i <? 0) eqn:E1; [reflexivity|]. destruct (zlen l <=? i) eqn:E2; [reflexivity|]. lia.
Qed.
Lemma go_slice_ok : forall A (l : list A) lo hi, 0 <= lo <= hi -> hi <= zlen l ->
  go_slice l lo hi = Some (firstn (Z.to_nat (hi - lo)) (skipn (Z.to_nat lo) l)).
Proof.
  intros A l lo hi H1 H2. unfold go_slice.
  destruct (lo <? 0) eqn:E1; [lia|]. destruct (hi <? lo) eqn:E2; [lia|]. destruct (zlen l <? hi) eqn:E3; [lia|].
  reflexivity.
Qed.
Lemma nth_error_some_lt : forall A (l : list A) n, (n < length l)%nat -> exists x, nth_error l n = Some x.
Proof.
  intros A l n H. destruct (nth_error l n) eqn:E; [eauto|]. apply nth_error_None in E. lia.
Qed.

Lemma list_set_firstn_skipn : forall A (l : list A) n v, (n < length l)%nat ->
  list_set l n v = firstn n l ++ v :: skipn (S n) l.
Proof.
  induction l as [|h t IH]; intros n v H; cbn [length] in H; [lia|].
  destruct n; cbn [list_set firstn skipn app]; [reflexivity|]. rewrite IH by lia. reflexivity.
Qed.
Lemma list_set_length : forall A (l : list A) n v, length (list_set l n v) = length l.
Proof. induction l; intros [|n] v; cbn [list_set length]; auto. Qed.

(* ---------- parameter validation ---------- *)
Lemma validate_each_typed : forall args tys, length args = length tys ->
  validate_each args tys = if params_typed args tys then None else Some E_PARAM_TYPE.
Proof.
  induction args as [|a ar IH]; intros [|t tr] H; cbn [length] in H; try discriminate; cbn [validate_each params_typed]; [reflexivity|].
  destruct (param_ok a t); cbn [andb]; [apply IH; lia | reflexivity].
Qed.
Lemma validate_exact_spec : forall args tys, validate_exact args tys = spec_params args tys.
Proof.
  intros. unfold validate_exact, spec_params. destruct (length args =? length tys)%nat eqn:E; cbn [negb]; [|reflexivity].
  apply Nat.eqb_eq in E. apply validate_each_typed; assumption.
Qed.

(* ---------- 逆序 ---------- *)
Lemma firstn_S_nth : forall A (l : list A) c x, nth_error l c = Some x -> firstn (S c) l = firstn c l ++ [x].
Proof.
  induction l as [|h t IH]; intros [|c] x H; cbn [nth_error] in H; try discriminate.
  - inversion H. reflexivity.
  - cbn [firstn app]. cbn [firstn] in IH. rewrite (IH c x H). reflexivity.
Qed.
Lemma reverse_loop_spec : forall l cnt i acc, Z.of_nat cnt + i = zlen l -> 0 <= i ->
  reverse_loop l (zlen l) cnt i acc = Some (acc ++ rev (firstn cnt l)).
Proof.
  induction cnt as [|c IH]; intros i acc H Hi; cbn [reverse_loop].
  - cbn [firstn rev]. rewrite app_nil_r. reflexivity.
  - assert (Hc : zlen l - 1 - i = Z.of_nat c) by lia.
    rewrite Hc. rewrite go_index_nth by lia. rewrite Nat2Z.id.
    destruct (nth_error_some_lt _ l c) as [x Hx]; [unfold zlen in *; lia|].
    rewrite Hx. rewrite IH by lia. rewrite (firstn_S_nth _ l c x Hx). rewrite rev_app_distr. cbn [rev app].
    rewrite <- app_assoc. reflexivity.
Qed.
Lemma arr_reverse_spec : forall l, arr_reverse l = Some (rev l).
Proof.
  intros. unfold arr_reverse. rewrite reverse_loop_spec; [|unfold zlen; lia|lia].
  rewrite firstn_all. reflexivity.
Qed.

(* ---------- insertArrayValue ---------- *)
Lemma slices_at : forall (l : list val) k, 0 <= k <= zlen l ->
  go_slice l 0 k = Some (firstn (Z.to_nat k) l) /\ go_slice l k (zlen l) = Some (skipn (Z.to_nat k) l).
Proof.
  intros l k H. split.
  - rewrite go_slice_ok by lia. rewrite Z.sub_0_r. reflexivity.
  - rewrite go_slice_ok by lia. f_equal. apply firstn_all2. rewrite skipn_length. unfold zlen in *. lia.
Qed.
Lemma insert_at : forall (l : list val) k v, 0 <= k <= zlen l ->
  match go_slice l 0 k, go_slice l k (zlen l) with
  | Some a, Some b => Some ((a ++ [v]) ++ b) | _, _ => None end
  = Some (seq_insert_after l (Z.to_nat k) v).
Proof.
  intros l k v H. destruct (slices_at l k H) as [H1 H2]. rewrite H1, H2. unfold seq_insert_after.
  rewrite <- app_assoc. reflexivity.
Qed.
Lemma insert_array_value_spec : forall l idx v, small l ->
  -9223372036854775808 <= idx < 4611686018427387904 ->
  insert_array_value true l idx v =
  Some (seq_insert_after l (if zlen l <=? idx then Z.to_nat (zlen l) else if 0 <=? idx then Z.to_nat idx else Z.to_nat (Z.max 0 (zlen l + idx))) v).
Proof.
  intros l idx v Hs Hi. unfold small in Hs. pose proof (zlen_nonneg _ l) as Hn.
  unfold insert_array_value. cbv zeta.
  destruct (zlen l <=? idx) eqn:E1.
  - unfold seq_insert_after. unfold zlen. rewrite Nat2Z.id. rewrite firstn_all, skipn_all. reflexivity.
  - apply Z.leb_gt in E1. destruct (idx <? 0) eqn:E2.
    + apply Z.ltb_lt in E2. destruct (0 <=? idx) eqn:E3; [lia|].
      rewrite wrap64_id by lia. cbn [andb].
      destruct (zlen l + idx <? 0) eqn:E4.
      * apply Z.ltb_lt in E4. rewrite Z.max_l by lia. apply insert_at. lia.
      * apply Z.ltb_ge in E4. rewrite Z.max_r by lia. apply insert_at. lia.
    + apply Z.ltb_ge in E2. destruct (0 <=? idx) eqn:E3; [|lia].
      replace (true && (idx <? 0)) with false by (symmetry; apply Z.ltb_ge in E2; cbn; apply Z.ltb_ge; lia).
      apply insert_at. lia.
Qed.

Lemma trunc_num_ok : forall n z, num_ok n = true -> trunc_num n = Some z -> -4503599627370496 <= z <= 4503599627370496.
Proof. intros [x|x| | |] z H E; cbn in *; inversion E; subst; try lia. destruct (0 <=? x); lia. Qed.
Lemma floor_num_ok : forall n z, num_ok n = true -> floor_num n = Some z -> -4503599627370496 <= z <= 4503599627370496.
Proof. intros [x|x| | |] z H E; cbn in *; inversion E; subst; lia. Qed.
Lemma go_int_trunc : forall n z, trunc_num n = Some z -> go_int n = z.
Proof. intros [x|x| | |] z H; cbn in *; inversion H; reflexivity. Qed.
Lemma go_int_none : forall n, trunc_num n = None -> go_int n = min_int64.
Proof. intros [x|x| | |] H; cbn in *; try discriminate; reflexivity. Qed.

Lemma insert_num_spec : forall l n v, small l -> num_ok n = true ->
  insert_array_value true l (go_int n) v = Some (seq_insert_after l (insert_skip (seq_len l) (trunc_num n)) v).
Proof.
  intros l n v Hs Hn. destruct (trunc_num n) as [z|] eqn:E.
  - rewrite (go_int_trunc _ _ E). pose proof (trunc_num_ok n z Hn E) as Hr.
    rewrite insert_array_value_spec by (auto; lia). reflexivity.
  - rewrite (go_int_none _ E). unfold small in Hs. pose proof (zlen_nonneg _ l).
    rewrite insert_array_value_spec by (auto; unfold min_int64; lia).
    unfold min_int64. destruct (zlen l <=? -9223372036854775808) eqn:E1; [lia|]. cbn [Z.leb Z.compare].
    rewrite Z.max_l by lia. reflexivity.
Qed.

(* ---------- 左移 / 右移 ---------- *)
Lemma shift_left_spec : forall l,
  shift_array_value l true = Some (match seq_pop_front l with Some (h, t) => (h, t) | None => (VNull, []) end).
Proof.
  intros [|h t]; [reflexivity|]. unfold shift_array_value.
  rewrite zlen_cons. pose proof (zlen_nonneg _ t). destruct (1 + zlen t =? 0) eqn:E; [lia|].
  rewrite go_index_nth by (rewrite zlen_cons; lia). cbn [Z.to_nat nth_error].
  rewrite go_slice_ok by (rewrite ?zlen_cons; lia). change (Z.to_nat 1) with 1%nat. cbn [skipn seq_pop_front].
  rewrite firstn_all2; [reflexivity|]. unfold zlen. lia.
Qed.
Lemma shift_right_spec : forall l,
  shift_array_value l false = Some (match seq_pop_back l with Some (h, t) => (h, t) | None => (VNull, []) end).
Proof.
  intros l. destruct l as [|h0 t0]; [reflexivity|].
  destruct (@exists_last _ (h0 :: t0)) as [l' [x Hl]]; [discriminate|]. rewrite Hl. clear Hl.
  unfold shift_array_value, seq_pop_back.
  rewrite rev_app_distr. cbn [rev app]. rewrite rev_involutive.
  rewrite zlen_app. change (zlen [x]) with 1. pose proof (zlen_nonneg _ l').
  destruct (zlen l' + 1 =? 0) eqn:E; [lia|]. replace (zlen l' + 1 - 1) with (zlen l') by lia.
  rewrite go_index_nth by (rewrite zlen_app; change (zlen [x]) with 1; lia).
  unfold zlen at 1. rewrite Nat2Z.id. rewrite nth_error_app2 by lia. rewrite Nat.sub_diag. cbn [nth_error].
  rewrite go_slice_ok by (rewrite ?zlen_app; change (zlen [x]) with 1; lia).
  rewrite Z.sub_0_r. cbn [Z.to_nat skipn]. unfold zlen. rewrite Nat2Z.id.
  rewrite firstn_app, firstn_all, Nat.sub_diag. cbn [firstn]. rewrite app_nil_r. reflexivity.
Qed.

(* ---------- 包含 / 寻找 ---------- *)
Lemma contains_loop_existsb : forall l v, contains_loop l v = existsb (fun x => val_eqb x v) l.
Proof. induction l as [|h t IH]; intros v; cbn [contains_loop existsb]; [reflexivity|]. rewrite IH. destruct (val_eqb h v); reflexivity. Qed.
Lemma find_loop_spec : forall l v i,
  find_loop l v i = match seq_find_from (i + 1) (fun x => val_eqb x v) l with Some j => j - 1 | None => -1 end.
Proof.
  induction l as [|h t IH]; intros v i; cbn [find_loop seq_find_from]; [reflexivity|].
  destruct (val_eqb h v); [lia|]. apply IH.
Qed.

(* ---------- 合并 / 拼接 ---------- *)
Lemma validate_all_lists : forall values,
  validate_all values TArray = match all_lists values with Some _ => None | None => Some E_PARAM_TYPE end.
Proof.
  induction values as [|v r IH]; [reflexivity|]. cbn [validate_all]. unfold all_lists in *. cbn [fold_right].
  destruct v; cbn [param_ok]; try reflexivity. rewrite IH. destruct (fold_right _ _ r); reflexivity.
Qed.
Lemma merge_loop_spec : forall values acc ls, all_lists values = Some ls -> merge_loop acc values = Some (acc ++ concat ls).
Proof.
  induction values as [|v r IH]; intros acc ls H; unfold all_lists in H; cbn [fold_right] in H.
  - inversion H. cbn. rewrite app_nil_r. reflexivity.
  - destruct v; try discriminate. fold (all_lists r) in H. destruct (all_lists r) as [t|] eqn:E; [|discriminate].
    inversion H. subst ls. cbn [merge_loop concat]. rewrite (IH (acc ++ l) t eq_refl). rewrite app_assoc. reflexivity.
Qed.
Lemma validate_all_strings : forall values,
  validate_all values TString = match all_strings values with Some _ => None | None => Some E_PARAM_TYPE end.
Proof.
  induction values as [|v r IH]; [reflexivity|]. cbn [validate_all]. unfold all_strings in *. cbn [fold_right].
  destruct v; cbn [param_ok]; try reflexivity. rewrite IH. destruct (fold_right _ _ r); reflexivity.
Qed.
Lemma strings_of_all : forall l, strings_of l = all_strings l.
Proof.
  induction l as [|v r IH]; [reflexivity|]. cbn [strings_of]. unfold all_strings in *. cbn [fold_right].
  destruct v; try reflexivity; rewrite IH; destruct (fold_right _ _ r); reflexivity.
Qed.

(* ---------- iteration ---------- *)
Lemma iterate_array_spec : forall l idx,
  iterate_array l idx = map (fun p => VList [VNum (NInt (fst p)); snd p]) (seq_enumerate_from (idx + 1) l).
Proof. induction l as [|h t IH]; intros idx; cbn [iterate_array seq_enumerate_from map fst snd]; [reflexivity|]. rewrite IH. reflexivity. Qed.

(* ---------- # read / write ---------- *)
Lemma seq_get_nth : forall (l : list val) i, 1 <= i <= zlen l -> seq_get l i = nth_error l (Z.to_nat (i - 1)).
Proof.
  intros l i H. unfold seq_get, seq_valid, seq_len. fold (zlen l).
  destruct (1 <=? i) eqn:E1; [|lia]. destruct (i <=? zlen l) eqn:E2; [|lia]. reflexivity.
Qed.
Lemma seq_get_none : forall (l : list val) i, ~ (1 <= i <= zlen l) -> seq_get l i = None.
Proof.
  intros l i H. unfold seq_get, seq_valid, seq_len. fold (zlen l).
  destruct (1 <=? i) eqn:E1; [|reflexivity]. destruct (i <=? zlen l) eqn:E2; [lia|reflexivity].
Qed.
Lemma seq_set_some : forall (l : list val) i v, 1 <= i <= zlen l ->
  seq_set l i v = Some (list_set l (Z.to_nat (i - 1)) v).
Proof.
  intros l i v H. unfold seq_set, seq_valid, seq_len. fold (zlen l).
  destruct (1 <=? i) eqn:E1; [|lia]. destruct (i <=? zlen l) eqn:E2; [|lia]. cbn [andb].
  rewrite list_set_firstn_skipn by (unfold zlen in H; lia).
  replace (S (Z.to_nat (i - 1))) with (Z.to_nat i) by lia. reflexivity.
Qed.
Lemma seq_set_none : forall (l : list val) i v, ~ (1 <= i <= zlen l) -> seq_set l i v = None.
Proof.
  intros l i v H. unfold seq_set, seq_valid, seq_len. fold (zlen l).
  destruct (1 <=? i) eqn:E1; [|reflexivity]. destruct (i <=? zlen l) eqn:E2; [lia|reflexivity].
Qed.

(* the 64-bit index test of iv.go agrees with "outside 1..n" *)
Lemma iv_index_cases : forall l index, small l ->
  (-4503599627370496 <= index <= 4503599627370496 \/ index = min_int64) ->
  let realIndex := wrap64 (index - 1) in
  if (realIndex <? 0) || (zlen l <=? realIndex) then ~ (1 <= index <= zlen l)
  else 1 <= index <= zlen l /\ realIndex = index - 1.
Proof.
  intros l index Hs [H|H]; cbv zeta; unfold small in Hs; pose proof (zlen_nonneg _ l).
  - rewrite wrap64_id by lia.
    destruct (index - 1 <? 0) eqn:E1; cbn [orb]; [lia|]. destruct (zlen l <=? index - 1) eqn:E2; lia.
  - subst index. rewrite wrap64_min_minus1. cbn [Z.ltb Z.compare orb].
    destruct (zlen l <=? 9223372036854775807) eqn:E; unfold min_int64; lia.
Qed.

Lemma index_range : forall n, num_ok n = true ->
  -4503599627370496 <= go_int n <= 4503599627370496 \/ go_int n = min_int64.
Proof.
  intros n H. destruct (trunc_num n) as [z|] eqn:E.
  - left. rewrite (go_int_trunc _ _ E). exact (trunc_num_ok n z H E).
  - right. exact (go_int_none _ E).
Qed.

Lemma iv_array_rhs_spec : forall l n, small l -> num_ok n = true ->
  iv_array_rhs l (go_int n) =
  match trunc_num n with
  | Some i => match seq_get l i with Some v => Ok v | None => Err E_INDEX_RANGE end
  | None => Err E_INDEX_RANGE
  end.
Proof.
  intros l n Hs Hn. unfold iv_array_rhs. pose proof (iv_index_cases l (go_int n) Hs (index_range n Hn)) as H.
  cbv zeta in H |- *. destruct ((wrap64 (go_int n - 1) <? 0) || (zlen l <=? wrap64 (go_int n - 1))) eqn:E.
  - destruct (trunc_num n) as [z|] eqn:Et; [|reflexivity]. rewrite (go_int_trunc _ _ Et) in H.
    rewrite seq_get_none by exact H. reflexivity.
  - destruct H as [H1 H2]. rewrite H2. destruct (trunc_num n) as [z|] eqn:Et.
    + rewrite (go_int_trunc _ _ Et) in *. rewrite seq_get_nth by lia. rewrite go_index_nth by lia.
      destruct (nth_error_some_lt _ l (Z.to_nat (z - 1))) as [x Hx]; [unfold zlen in H1; lia|]. rewrite Hx. reflexivity.
    + rewrite (go_int_none _ Et) in H1. unfold min_int64 in H1. lia.
Qed.

Lemma iv_array_lhs_spec : forall l n v, small l -> num_ok n = true ->
  iv_array_lhs l (go_int n) v =
  match trunc_num n with
  | Some i => match seq_set l i v with Some l' => (Ok VNull, l') | None => (Err E_INDEX_RANGE, l) end
  | None => (Err E_INDEX_RANGE, l)
  end.
Proof.
  intros l n v Hs Hn. unfold iv_array_lhs. pose proof (iv_index_cases l (go_int n) Hs (index_range n Hn)) as H.
  cbv zeta in H |- *. destruct ((wrap64 (go_int n - 1) <? 0) || (zlen l <=? wrap64 (go_int n - 1))) eqn:E.
  - destruct (trunc_num n) as [z|] eqn:Et; [|reflexivity]. rewrite (go_int_trunc _ _ Et) in H.
    rewrite seq_set_none by exact H. reflexivity.
  - destruct H as [H1 H2]. rewrite H2. destruct (trunc_num n) as [z|] eqn:Et.
    + rewrite (go_int_trunc _ _ Et) in *. rewrite seq_set_some by lia.
      unfold go_store. destruct (z - 1 <? 0) eqn:E1; [lia|]. destruct (zlen l <=? z - 1) eqn:E2; [lia|]. reflexivity.
    + rewrite (go_int_none _ Et) in H1. unfold min_int64 in H1. lia.
Qed.

(* ---------- shapes of accepted parameter lists ---------- *)
Lemma params_any : forall args, spec_params args [TAny] = None -> exists v, args = [v].
Proof. intros [|v [|w r]] H; cbn in H; try discriminate. eauto. Qed.
Lemma params_any_num : forall args, spec_params args [TAny; TNumber] = None -> exists v n, args = [v; VNum n].
Proof. intros [|v [|[|?|n|?|?|?] [|x r]]] H; cbn in H; try discriminate. eauto. Qed.
Lemma params_num_num : forall args, spec_params args [TNumber; TNumber] = None -> exists a b, args = [VNum a; VNum b].
Proof. intros [|[|?|n1|?|?|?] [|[|?|n2|?|?|?] [|x r]]] H; cbn in H; try discriminate. eauto. Qed.
Lemma params_str : forall args, spec_params args [TString] = None -> exists s, args = [VStr s].
Proof. intros [|[|?|?|s|?|?] [|x r]] H; cbn in H; try discriminate. eauto. Qed.
Lemma params_str_any : forall args, spec_params args [TString; TAny] = None -> exists s v, args = [VStr s; v].
Proof. intros [|[|?|?|s|?|?] [|v [|x r]]] H; cbn in H; try discriminate. eauto. Qed.

(* ---------- 交换 ---------- *)
Lemma floor_minus1 : forall n z, floor_num n = Some z -> go_floor_minus1_int n = z - 1.
Proof. intros [x|x| | |] z H; cbn in *; inversion H; reflexivity. Qed.
Lemma floor_minus1_none : forall n, floor_num n = None -> go_floor_minus1_int n = min_int64.
Proof. intros [x|x| | |] H; cbn in *; try discriminate; reflexivity. Qed.

Definition swap_model (l : list val) (a b : num) : res val * list val :=
  let n := zlen l in
  let cursor0 := go_floor_minus1_int a in
  let cursor1 := go_floor_minus1_int b in
  if (cursor0 <? 0) || (n <=? cursor0) then (Err E_INDEX_RANGE, l)
  else if (cursor1 <? 0) || (n <=? cursor1) then (Err E_INDEX_RANGE, l)
  else
    match go_index l cursor0 with
    | None => (Crash, l)
    | Some tmp =>
      match go_index l cursor1 with
      | None => (Crash, l)
      | Some x1 =>
        match go_store l cursor0 x1 with
        | None => (Crash, l)
        | Some l1 => match go_store l1 cursor1 tmp with Some l2 => (Ok (VList l2), l2) | None => (Crash, l) end
        end
      end
    end.

Lemma cursor_cases : forall (l : list val) n,
  let c := go_floor_minus1_int n in
  if (c <? 0) || (zlen l <=? c) then (forall i, floor_num n = Some i -> ~ (1 <= i <= zlen l))
  else exists i, floor_num n = Some i /\ 1 <= i <= zlen l /\ c = i - 1.
Proof.
  intros l n. cbv zeta. destruct (floor_num n) as [z|] eqn:E.
  - rewrite (floor_minus1 _ _ E). destruct (z - 1 <? 0) eqn:E1; cbn [orb].
    + intros i Hi. inversion Hi. lia.
    + destruct (zlen l <=? z - 1) eqn:E2.
      * intros i Hi. inversion Hi. lia.
      * exists z. repeat split; lia.
  - rewrite (floor_minus1_none _ E). cbn [Z.ltb Z.compare min_int64 orb]. intros i Hi. discriminate.
Qed.

Lemma swap_spec : forall l a b,
  swap_model l a b =
  match floor_num a, floor_num b with
  | Some i, Some j => match seq_swap l i j with Some l' => (Ok (VList l'), l') | None => (Err E_INDEX_RANGE, l) end
  | _, _ => (Err E_INDEX_RANGE, l)
  end.
Proof.
  intros l a b. unfold swap_model. cbv zeta.
  pose proof (cursor_cases l a) as Ha. pose proof (cursor_cases l b) as Hb. cbv zeta in Ha, Hb.
  destruct ((go_floor_minus1_int a <? 0) || (zlen l <=? go_floor_minus1_int a)) eqn:Ea.
  - destruct (floor_num a) as [i|]; [|reflexivity]. destruct (floor_num b) as [j|]; [|reflexivity].
    unfold seq_swap. rewrite seq_get_none by (apply Ha; reflexivity). reflexivity.
  - destruct Ha as [i [Hi [Hri Hci]]]. rewrite Hi.
    destruct ((go_floor_minus1_int b <? 0) || (zlen l <=? go_floor_minus1_int b)) eqn:Eb.
    + destruct (floor_num b) as [j|]; [|reflexivity].
      unfold seq_swap. rewrite seq_get_nth by lia.
      destruct (nth_error_some_lt _ l (Z.to_nat (i - 1))) as [x Hx]; [unfold zlen in Hri; lia|]. rewrite Hx.
      rewrite seq_get_none by (apply Hb; reflexivity). reflexivity.
    + destruct Hb as [j [Hj [Hrj Hcj]]]. rewrite Hj, Hci, Hcj.
      rewrite !go_index_nth by lia. unfold seq_swap. rewrite !seq_get_nth by lia.
      destruct (nth_error_some_lt _ l (Z.to_nat (i - 1))) as [x Hx]; [unfold zlen in Hri; lia|].
      destruct (nth_error_some_lt _ l (Z.to_nat (j - 1))) as [y Hy]; [unfold zlen in Hrj; lia|].
      rewrite Hx, Hy. rewrite seq_set_some by lia.
      assert (Hl : zlen (list_set l (Z.to_nat (i - 1)) y) = zlen l) by (unfold zlen; rewrite list_set_length; reflexivity).
      rewrite seq_set_some by (rewrite Hl; lia).
      unfold go_store. destruct (i - 1 <? 0) eqn:E1; [lia|]. destruct (zlen l <=? i - 1) eqn:E2; [lia|]. cbn [orb].
      rewrite Hl. destruct (j - 1 <? 0) eqn:E3; [lia|]. destruct (zlen l <=? j - 1) eqn:E4; [lia|]. reflexivity.
Qed.

(* ---------- every list method ---------- *)
Lemma arr_exec_method_spec : forall m args l, small l -> lop_okb (LMethod m args) = true ->
  arr_exec_method true m args l = seq_method m args l.
Proof.
  intros m args l Hs Hok. destruct m; unfold arr_exec_method, seq_method; rewrite ?validate_exact_spec.
  - (* 新增 *) destruct (spec_params args [TAny; TNumber]) eqn:E; [reflexivity|].
    destruct (params_any_num _ E) as [v [n Ha]]. subst args. cbn [lop_okb val_num_ok] in Hok.
    rewrite (insert_num_spec l n v Hs Hok). reflexivity.
  - (* 添加 *) destruct (spec_params args [TAny; TNumber]) eqn:E; [reflexivity|].
    destruct (params_any_num _ E) as [v [n Ha]]. subst args. cbn [lop_okb val_num_ok] in Hok.
    rewrite (insert_num_spec l n v Hs Hok). reflexivity.
  - (* 前增 *) destruct (spec_params args [TAny]) eqn:E; [reflexivity|].
    destruct (params_any _ E) as [v Ha]. subst args. unfold small in Hs. pose proof (zlen_nonneg _ l).
    rewrite insert_array_value_spec by (auto; lia).
    destruct (zlen l <=? 0) eqn:E1.
    + assert (l = []) by (destruct l; [reflexivity | rewrite zlen_cons in E1; pose proof (zlen_nonneg _ l); lia]). subst l. reflexivity.
    + reflexivity.
  - (* 后增 *) destruct (spec_params args [TAny]) eqn:E; [reflexivity|].
    destruct (params_any _ E) as [v Ha]. subst args. unfold small in Hs. pose proof (zlen_nonneg _ l).
    rewrite insert_array_value_spec by (auto; lia). rewrite Z.leb_refl.
    unfold seq_insert_after, seq_push_back, zlen. rewrite Nat2Z.id, firstn_all, skipn_all. reflexivity.
  - (* 左移 *) rewrite shift_left_spec. destruct (seq_pop_front l) as [[h t]|]; reflexivity.
  - (* 右移 *) rewrite shift_right_spec. destruct (seq_pop_back l) as [[h t]|]; reflexivity.
  - (* 拼接 *) rewrite (validate_all_strings l), (strings_of_all l). destruct (all_strings l) as [strs|]; [|reflexivity].
    destruct (spec_params args [TString]) eqn:E; [reflexivity|].
    destruct (params_str _ E) as [s Ha]. subst args. reflexivity.
  - (* 合并 *) rewrite (validate_all_lists args). destruct (all_lists args) as [ls|] eqn:E; [|reflexivity].
    rewrite (merge_loop_spec args ([] ++ l) ls E). reflexivity.
  - (* 包含 *) destruct (spec_params args [TAny]) eqn:E; [reflexivity|].
    destruct (params_any _ E) as [v Ha]. subst args. rewrite contains_loop_existsb. reflexivity.
  - (* 寻找 *) destruct (spec_params args [TAny]) eqn:E; [reflexivity|].
    destruct (params_any _ E) as [v Ha]. subst args. rewrite find_loop_spec. reflexivity.
  - (* 交换 *) destruct (spec_params args [TNumber; TNumber]) eqn:E; [reflexivity|].
    destruct (params_num_num _ E) as [a [b Ha]]. subst args. exact (swap_spec l a b).
  - reflexivity.
Qed.

Lemma arr_get_first_spec : forall l, arr_get_first l = Ok (or_null (seq_first l)).
Proof.
  intros [|h t]; [reflexivity|]. unfold arr_get_first, seq_first. rewrite zlen_cons. pose proof (zlen_nonneg _ t).
  destruct (1 + zlen t =? 0) eqn:E; [lia|]. rewrite go_index_nth by (rewrite zlen_cons; lia).
  rewrite seq_get_nth by (rewrite zlen_cons; lia). reflexivity.
Qed.
Lemma arr_get_last_spec : forall l, arr_get_last l = Ok (or_null (seq_last l)).
Proof.
  intros l. unfold arr_get_last, seq_last, seq_len. fold (zlen l). pose proof (zlen_nonneg _ l).
  destruct (zlen l =? 0) eqn:E.
  - rewrite seq_get_none by lia. reflexivity.
  - rewrite go_index_nth by lia. rewrite seq_get_nth by lia.
    destruct (nth_error_some_lt _ l (Z.to_nat (zlen l - 1))) as [x Hx]; [unfold zlen in *; lia|]. rewrite Hx. reflexivity.
Qed.
Lemma arr_set_first_spec : forall l v, arr_set_first l v = Some (match seq_set l 1 v with Some l' => l' | None => [v] end).
Proof.
  intros l v. unfold arr_set_first. pose proof (zlen_nonneg _ l). destruct (zlen l =? 0) eqn:E.
  - rewrite seq_set_none by lia. reflexivity.
  - rewrite seq_set_some by lia. unfold go_store. destruct (zlen l <=? 0) eqn:E2; [lia|]. reflexivity.
Qed.
Lemma arr_set_last_spec : forall l v,
  arr_set_last l v = Some (match seq_set l (seq_len l) v with Some l' => l' | None => [v] end).
Proof.
  intros l v. unfold arr_set_last, seq_len. fold (zlen l). pose proof (zlen_nonneg _ l). destruct (zlen l =? 0) eqn:E.
  - rewrite seq_set_none by lia. reflexivity.
  - rewrite seq_set_some by lia. unfold go_store. destruct (zlen l - 1 <? 0) eqn:E1; [lia|].
    destruct (zlen l <=? zlen l - 1) eqn:E2; [lia|]. reflexivity.
Qed.

(* ---------- one step, then histories ---------- *)
Theorem arr_step_refines : forall op l, small l -> lop_okb op = true -> arr_step true op l = seq_step op l.
Proof.
  intros op l Hs Hok. destruct op as [i|i v|p|p v|m args| | |]; cbn [arr_step seq_step lop_okb] in *.
  - destruct i; try reflexivity. cbn [val_num_ok] in Hok. rewrite iv_array_rhs_spec by auto.
    destruct (trunc_num n); [|reflexivity]. destruct (seq_get l z); reflexivity.
  - destruct i; try reflexivity. cbn [val_num_ok] in Hok. apply iv_array_lhs_spec; auto.
  - destruct p; cbn [arr_get_property]; try reflexivity.
    + rewrite arr_get_first_spec. reflexivity.
    + rewrite arr_get_last_spec. reflexivity.
    + unfold arr_get_reverse. rewrite arr_reverse_spec. reflexivity.
  - destruct p; cbn [arr_set_property]; try reflexivity.
    + rewrite arr_set_first_spec. reflexivity.
    + rewrite arr_set_last_spec. reflexivity.
  - apply arr_exec_method_spec; auto.
  - rewrite arr_reverse_spec. reflexivity.
  - reflexivity.
  - rewrite iterate_array_spec. reflexivity.
Qed.

Fixpoint small_run (ops : list lop) (l : list val) : Prop :=
  small l /\ match ops with [] => True | op :: r => small_run r (snd (seq_step op l)) end.

Theorem arr_run_refines : forall ops l, forallb lop_okb ops = true -> small_run ops l ->
  arr_run true ops l = seq_run ops l.
Proof.
  induction ops as [|op r IH]; intros l Hok Hs; [reflexivity|].
  cbn [forallb] in Hok. apply andb_prop in Hok. destruct Hok as [H1 H2]. cbn [small_run] in Hs. destruct Hs as [Hs1 Hs2].
  cbn [arr_run seq_run]. rewrite (arr_step_refines op l Hs1 H1). cbv zeta. rewrite IH by assumption. reflexivity.
Qed.

(* the abstract semantics never crashes, hence neither does the model *)
Lemma seq_method_no_crash : forall m args l, fst (seq_method m args l) <> Crash.
Proof.
  intros m args l. destruct m; unfold seq_method;
    repeat match goal with
           | |- context [match ?x with _ => _ end] => destruct x
           end; cbn [fst]; discriminate.
Qed.
Lemma seq_step_no_crash : forall op l, fst (seq_step op l) <> Crash.
Proof.
  intros op l. destruct op as [i|i v|p|p v|m args| | |]; try apply seq_method_no_crash; cbn [seq_step];
    repeat match goal with
           | |- context [match ?x with _ => _ end] => destruct x
           end; cbn [fst]; discriminate.
Qed.
Theorem arr_run_no_crash : forall ops l, forallb lop_okb ops = true -> small_run ops l ->
  Forall (fun s => fst s <> Crash) (arr_run true ops l).
Proof.
  intros ops l H1 H2. rewrite (arr_run_refines ops l H1 H2). clear H1 H2. revert l.
  induction ops as [|op r IH]; intros l; cbn [seq_run]; constructor; [apply seq_step_no_crash | apply IH].
Qed.

(* ====================================================================== *)
(* Part 2: dictionaries                                                    *)
(* ====================================================================== *)

Lemma go_slice_mid : forall A (a b c : list A), go_slice (a ++ b ++ c) (zlen a) (zlen a + zlen b) = Some b.
Proof.
  intros A a b c. pose proof (zlen_nonneg _ a). pose proof (zlen_nonneg _ b). pose proof (zlen_nonneg _ c).
  rewrite go_slice_ok by (rewrite ?zlen_app; lia).
  replace (zlen a + zlen b - zlen a) with (zlen b) by lia. unfold zlen. rewrite !Nat2Z.id.
  rewrite skipn_app, skipn_all, Nat.sub_diag. cbn [skipn app].
  rewrite firstn_app, firstn_all, Nat.sub_diag. cbn [firstn]. rewrite app_nil_r. reflexivity.
Qed.
Lemma go_index_mid : forall A (a c : list A) x, go_index (a ++ x :: c) (zlen a) = Some x.
Proof.
  intros A a c x. pose proof (zlen_nonneg _ a). pose proof (zlen_nonneg _ c).
  rewrite go_index_nth by (rewrite zlen_app, zlen_cons; lia).
  unfold zlen. rewrite Nat2Z.id. rewrite nth_error_app2 by lia. rewrite Nat.sub_diag. reflexivity.
Qed.

(* the loop of hmExecDelete over positions that do not hold the key leaves everything as it is *)
Lemma delete_loop_skip : forall k b a c curlen m, ~ In k b ->
  delete_loop k (a ++ b ++ c) curlen (zlen a) (length b + m) = delete_loop k (a ++ b ++ c) curlen (zlen a + zlen b) m.
Proof.
  induction b as [|x b IH]; intros a c curlen m Hn.
  - cbn [length Nat.add app]. change (zlen (@nil text)) with 0. rewrite Z.add_0_r. reflexivity.
  - cbn [length Nat.add]. cbn [delete_loop]. cbn [app]. rewrite go_index_mid.
    destruct (text_eq_dec x k) as [E|E]; [exfalso; apply Hn; left; exact E|].
    assert (Hn' : ~ In k b) by (intro H; apply Hn; right; exact H).
    pose proof (IH (a ++ [x]) c curlen m Hn') as H.
    rewrite <- !app_assoc in H. cbn [app] in H. rewrite zlen_app in H. change (zlen [x]) with 1 in H.
    rewrite H. rewrite zlen_cons. f_equal. lia.
Qed.

Lemma skipn_last : forall A (l : list A), l <> [] -> exists y, skipn (length l - 1) l = [y] /\ In y l.
Proof.
  intros A l H. destruct (@exists_last _ l H) as [l' [y Hl]]. subst l. exists y. split.
  - rewrite app_length. cbn [length]. replace (length l' + 1 - 1)%nat with (length l') by lia.
    rewrite skipn_app, skipn_all, Nat.sub_diag. reflexivity.
  - apply in_or_app. right. left. reflexivity.
Qed.

Lemma remove_not_in : forall (k : text) l, ~ In k l -> remove text_eq_dec k l = l.
Proof.
  induction l as [|x l IH]; intros H; [reflexivity|]. cbn [remove].
  destruct (text_eq_dec k x) as [E|E]; [exfalso; apply H; left; symmetry; exact E|].
  rewrite IH; [reflexivity|]. intro H1. apply H. right. exact H1.
Qed.
Lemma remove_mid : forall (k : text) pre post, ~ In k pre -> ~ In k post ->
  remove text_eq_dec k (pre ++ k :: post) = pre ++ post.
Proof.
  intros k pre post H1 H2. rewrite remove_app. cbn [remove]. destruct (text_eq_dec k k) as [_|E]; [|congruence].
  rewrite !remove_not_in by assumption. reflexivity.
Qed.

(* hmExecDelete's edit-while-ranging loop, on a duplicate-free keyOrder holding the key: no panic, and
   exactly that key disappears *)
Lemma key_order_delete_mid : forall k pre post, ~ In k pre -> ~ In k post ->
  key_order_delete k (pre ++ k :: post) = Some (pre ++ post).
Proof.
  intros k pre post H1 H2. unfold key_order_delete.
  pose proof (zlen_nonneg _ pre) as Hp. pose proof (zlen_nonneg _ post) as Hq.
  assert (Hlen : length (pre ++ k :: post) = (length pre + S (length post))%nat) by (rewrite app_length; reflexivity).
  assert (Hz : zlen (pre ++ k :: post) = zlen pre + 1 + zlen post) by (rewrite zlen_app, zlen_cons; lia).
  rewrite Hlen.
  (* phase 1: the positions of pre *)
  pose proof (delete_loop_skip k pre [] (k :: post) (zlen (pre ++ k :: post)) (S (length post)) H1) as P1.
  cbn [app] in P1. change (zlen (@nil text)) with 0 in P1. rewrite Z.add_0_l in P1. rewrite P1. clear P1.
  (* the matching position *)
  cbn [delete_loop]. rewrite go_index_mid. destruct (text_eq_dec k k) as [_|E]; [|congruence].
  rewrite Hz. destruct (zlen pre + 1 + zlen post <? zlen pre + 1) eqn:E1; [lia|].
  assert (T : go_slice (pre ++ k :: post) (zlen pre + 1) (zlen pre + 1 + zlen post) = Some post).
  { pose proof (go_slice_mid _ (pre ++ [k]) post []) as G. rewrite app_nil_r, <- app_assoc in G. cbn [app] in G.
    rewrite zlen_app in G. change (zlen [k]) with 1 in G. exact G. }
  rewrite T.
  assert (Hd : go_slice (pre ++ k :: post) 0 (zlen pre) = Some pre).
  { pose proof (go_slice_mid _ [] pre (k :: post)) as G. cbn [app] in G. change (zlen (@nil text)) with 0 in G.
    rewrite Z.add_0_l in G. exact G. }
  rewrite Hd.
  replace (zlen pre + 1 + zlen post - 1) with (zlen pre + zlen post) by lia.
  rewrite go_slice_ok by lia.
  replace (zlen pre + 1 + zlen post - (zlen pre + zlen post)) with 1 by lia. change (Z.to_nat 1) with 1%nat.
  replace (Z.to_nat (zlen pre + zlen post)) with (length pre + length post)%nat by (unfold zlen; lia).
  rewrite skipn_app. rewrite skipn_all2 by lia. cbn [app].
  replace (length pre + length post - length pre)%nat with (length post) by lia.
  destruct post as [|x post'].
  - (* the key was last: the loop is over *)
    cbn [length delete_loop]. cbn [skipn firstn app]. change (zlen (@nil text)) with 0. rewrite Z.add_0_r.
    pose proof (go_slice_mid _ [] pre [k]) as G. cbn [app] in G. change (zlen (@nil text)) with 0 in G. rewrite Z.add_0_l in G.
    rewrite app_nil_r. exact G.
  - (* phase 2: the shifted tail *)
    cbn [length skipn].
    destruct (skipn_last _ (x :: post')) as [y [Hy Hin]]; [discriminate|].
    cbn [length] in Hy. replace (S (length post') - 1)%nat with (length post') in Hy by lia. rewrite Hy. cbn [firstn].
    assert (Hnb : ~ In k (post' ++ [y])).
    { intro H. apply in_app_or in H. destruct H as [H|[H|[]]].
      - apply H2. right. exact H.
      - subst y. apply H2. exact Hin. }
    pose proof (delete_loop_skip k (post' ++ [y]) (pre ++ [x]) [] (zlen pre + zlen (x :: post')) 0 Hnb) as P2.
    rewrite app_nil_r in P2. rewrite <- app_assoc in P2. cbn [app] in P2.
    rewrite app_length in P2. cbn [length] in P2. rewrite Nat.add_0_r in P2.
    replace (length post' + 1)%nat with (S (length post')) in P2 by lia.
    rewrite zlen_app in P2. change (zlen [x]) with 1 in P2.
    cbn [app]. rewrite P2. cbn [delete_loop].
    pose proof (go_slice_mid _ [] (pre ++ x :: post') [y]) as G. cbn [app] in G. change (zlen (@nil text)) with 0 in G.
    rewrite Z.add_0_l in G. rewrite <- app_assoc in G. cbn [app] in G.
    rewrite zlen_app in G. exact G.
Qed.

Lemma in_split_nodup : forall (k : text) l, In k l -> NoDup l ->
  exists pre post, l = pre ++ k :: post /\ ~ In k pre /\ ~ In k post.
Proof.
  intros k l Hin Hnd. destruct (in_split _ _ Hin) as [pre [post Hl]]. subst l. exists pre, post.
  split; [reflexivity|]. apply NoDup_remove_2 in Hnd. split; intro H; apply Hnd; apply in_or_app; [left|right]; exact H.
Qed.

Theorem key_order_delete_spec : forall k order, NoDup order -> In k order ->
  key_order_delete k order = Some (remove text_eq_dec k order).
Proof.
  intros k order Hnd Hin. destruct (in_split_nodup k order Hin Hnd) as [pre [post [Hl [H1 H2]]]]. subst order.
  rewrite remove_mid by assumption. apply key_order_delete_mid; assumption.
Qed.

(* ---------- the Go map ---------- *)
Lemma gm_get_in : forall m k v, gm_get m k = Some v -> In k (map fst m).
Proof.
  unfold gm_get. induction m as [|[k' w] r IH]; intros k v H; cbn [assoc_get] in H; [discriminate|].
  cbn [map fst]. destruct (text_eq_dec k k'); [left; congruence | right; eapply IH; eassumption].
Qed.
Lemma gm_get_not_in : forall m k, gm_get m k = None -> ~ In k (map fst m).
Proof.
  unfold gm_get. induction m as [|[k' w] r IH]; intros k H; cbn [assoc_get] in H; [intros []|].
  cbn [map fst]. destruct (text_eq_dec k k'); [discriminate|]. intros [E|E]; [congruence | exact (IH k H E)].
Qed.
Lemma gm_in_get : forall m k, In k (map fst m) -> exists v, gm_get m k = Some v.
Proof.
  intros m k H. destruct (gm_get m k) eqn:E; [eauto|]. exfalso. exact (gm_get_not_in m k E H).
Qed.
Lemma gm_set_keys : forall m k v k', In k' (map fst (gm_set m k v)) <-> k' = k \/ In k' (map fst m).
Proof.
  induction m as [|[k0 w] r IH]; intros k v k'; cbn [gm_set map fst].
  - cbn. split; intros [H|H]; auto.
  - destruct (text_eq_dec k k0) as [E|E]; cbn [map fst In].
    + subst k0. split; [intros [H|H]; auto | intros [H|[H|H]]; auto].
    + rewrite IH. split; [intros [H|[H|H]]; auto | intros [H|[H|H]]; auto].
Qed.
Lemma gm_set_nodup : forall m k v, NoDup (map fst m) -> NoDup (map fst (gm_set m k v)).
Proof.
  induction m as [|[k0 w] r IH]; intros k v H; cbn [gm_set map fst].
  - constructor; [intros []|constructor].
  - cbn [map fst] in H. inversion H as [|? ? Hn Hr]. subst. destruct (text_eq_dec k k0) as [E|E]; cbn [map fst].
    + constructor; assumption.
    + constructor; [|apply IH; assumption]. rewrite gm_set_keys. intros [H1|H1]; [congruence | exact (Hn H1)].
Qed.
Lemma gm_get_set : forall m k v k', gm_get (gm_set m k v) k' = if text_eq_dec k' k then Some v else gm_get m k'.
Proof.
  unfold gm_get. induction m as [|[k0 w] r IH]; intros k v k'; cbn [gm_set assoc_get].
  - destruct (text_eq_dec k' k); reflexivity.
  - destruct (text_eq_dec k k0) as [E|E]; cbn [assoc_get].
    + subst k0. destruct (text_eq_dec k' k); reflexivity.
    + destruct (text_eq_dec k' k0) as [E1|E1].
      * subst k0. destruct (text_eq_dec k' k); [congruence|reflexivity].
      * apply IH.
Qed.
Lemma gm_set_len_new : forall m k v, gm_get m k = None -> gm_len (gm_set m k v) = gm_len m + 1.
Proof.
  unfold gm_get, gm_len. induction m as [|[k0 w] r IH]; intros k v H; cbn [gm_set assoc_get] in *; [reflexivity|].
  destruct (text_eq_dec k k0); [discriminate|]. rewrite !zlen_cons. rewrite IH by assumption. lia.
Qed.
Lemma gm_set_len_old : forall m k v w, gm_get m k = Some w -> gm_len (gm_set m k v) = gm_len m.
Proof.
  unfold gm_get, gm_len. induction m as [|[k0 w0] r IH]; intros k v w H; cbn [gm_set assoc_get] in *; [discriminate|].
  destruct (text_eq_dec k k0); [reflexivity|]. rewrite !zlen_cons. erewrite IH by eassumption. reflexivity.
Qed.
Lemma gm_delete_keys : forall m k k', In k' (map fst (gm_delete m k)) <-> k' <> k /\ In k' (map fst m).
Proof.
  induction m as [|[k0 w] r IH]; intros k k'; cbn [gm_delete map fst].
  - cbn. tauto.
  - destruct (text_eq_dec k k0) as [E|E]; cbn [map fst In]; rewrite IH.
    + subst k0. split; [intros [H1 H2]; auto | intros [H1 [H2|H2]]; [congruence|auto]].
    + split; [intros [H|[H1 H2]]; [subst; split; [congruence|auto] | auto] | intros [H1 [H2|H2]]; auto].
Qed.
Lemma gm_delete_nodup : forall m k, NoDup (map fst m) -> NoDup (map fst (gm_delete m k)).
Proof.
  induction m as [|[k0 w] r IH]; intros k H; cbn [gm_delete map fst]; [constructor|].
  cbn [map fst] in H. inversion H as [|? ? Hn Hr]. subst. destruct (text_eq_dec k k0); [apply IH; assumption|].
  cbn [map fst]. constructor; [|apply IH; assumption]. rewrite gm_delete_keys. intros [_ H1]. exact (Hn H1).
Qed.
Lemma gm_get_delete : forall m k k', gm_get (gm_delete m k) k' = if text_eq_dec k' k then None else gm_get m k'.
Proof.
  unfold gm_get. induction m as [|[k0 w] r IH]; intros k k'; cbn [gm_delete assoc_get].
  - destruct (text_eq_dec k' k); reflexivity.
  - destruct (text_eq_dec k k0) as [E|E].
    + subst k0. rewrite IH. destruct (text_eq_dec k' k); reflexivity.
    + cbn [assoc_get]. destruct (text_eq_dec k' k0) as [E1|E1]; [|apply IH].
      subst k0. destruct (text_eq_dec k' k); [congruence|reflexivity].
Qed.
Lemma gm_delete_len : forall m k w, NoDup (map fst m) -> gm_get m k = Some w -> gm_len (gm_delete m k) = gm_len m - 1.
Proof.
  unfold gm_get, gm_len. induction m as [|[k0 w0] r IH]; intros k w Hn H; cbn [gm_delete assoc_get] in *; [discriminate|].
  cbn [map fst] in Hn. inversion Hn as [|? ? Hn1 Hn2]. subst.
  destruct (text_eq_dec k k0) as [E|E].
  - subst k0. rewrite zlen_cons.
    assert (Hd : gm_delete r k = r).
    { clear -Hn1. induction r as [|[k1 w1] r IH]; [reflexivity|]. cbn [gm_delete]. cbn [map fst In] in Hn1.
      destruct (text_eq_dec k k1); [exfalso; apply Hn1; left; congruence|]. rewrite IH; [reflexivity|]. intro H. apply Hn1. right. exact H. }
    rewrite Hd. lia.
  - rewrite !zlen_cons. erewrite IH by eassumption. lia.
Qed.

(* ---------- invariant and abstraction ---------- *)
Definition hm_inv (hm : hashmap) : Prop :=
  NoDup (hm_order hm) /\ NoDup (map fst (hm_value hm)) /\
  (forall k, In k (hm_order hm) <-> In k (map fst (hm_value hm))).

Definition lookup_or_null (m : gomap) (k : text) : val := match gm_get m k with Some v => v | None => VNull end.
Definition abs_pairs (m : gomap) (order : list text) : dmap := map (fun k => (k, lookup_or_null m k)) order.
Definition abs (hm : hashmap) : dmap := abs_pairs (hm_value hm) (hm_order hm).

Lemma abs_keys : forall hm, om_keys (abs hm) = hm_order hm.
Proof. intros hm. unfold om_keys, abs, abs_pairs. rewrite map_map. cbn [fst]. apply map_id. Qed.

Lemma hm_pairs_loop_abs : forall m order, (forall k, In k order -> In k (map fst m)) ->
  hm_pairs_loop m order = Some (abs_pairs m order).
Proof.
  induction order as [|k r IH]; intros H; [reflexivity|]. cbn [hm_pairs_loop abs_pairs map].
  destruct (gm_in_get m k (H k (or_introl eq_refl))) as [v Hv]. unfold lookup_or_null. rewrite Hv.
  rewrite IH by (intros k' Hk; apply H; right; exact Hk). reflexivity.
Qed.
Lemma hm_pairs_abs : forall hm, hm_inv hm -> hm_pairs hm = Some (abs hm).
Proof. intros hm [_ [_ H]]. apply hm_pairs_loop_abs. intros k Hk. apply H. exact Hk. Qed.

Lemma dget_abs_pairs : forall m order k,
  dget (abs_pairs m order) k = if in_dec text_eq_dec k order then Some (lookup_or_null m k) else None.
Proof.
  induction order as [|k0 r IH]; intros k; [reflexivity|]. cbn [abs_pairs map]. unfold dget. cbn [om_get].
  destruct (text_eq_dec k k0) as [E|E].
  - subst k0. destruct (in_dec text_eq_dec k (k :: r)) as [_|H]; [reflexivity|]. exfalso. apply H. left. reflexivity.
  - fold (abs_pairs m r). fold (dget (abs_pairs m r) k). rewrite IH.
    destruct (in_dec text_eq_dec k r) as [H|H]; destruct (in_dec text_eq_dec k (k0 :: r)) as [H'|H']; try reflexivity.
    + exfalso. apply H'. right. exact H.
    + destruct H' as [H'|H']; [congruence|contradiction].
Qed.
Lemma dget_abs : forall hm k, hm_inv hm -> dget (abs hm) k = gm_get (hm_value hm) k.
Proof.
  intros hm k [_ [_ H]]. unfold abs. rewrite dget_abs_pairs. destruct (in_dec text_eq_dec k (hm_order hm)) as [Hi|Hi].
  - destruct (gm_in_get _ k (proj1 (H k) Hi)) as [v Hv]. unfold lookup_or_null. rewrite Hv. reflexivity.
  - destruct (gm_get (hm_value hm) k) eqn:E; [|reflexivity]. exfalso. apply Hi. apply H. eapply gm_get_in. eassumption.
Qed.

Lemma abs_pairs_ext : forall m m' order, (forall k, In k order -> gm_get m' k = gm_get m k) ->
  abs_pairs m' order = abs_pairs m order.
Proof.
  intros m m' order H. unfold abs_pairs. apply map_ext_in. intros k Hk. unfold lookup_or_null. rewrite (H k Hk). reflexivity.
Qed.

(* overwriting keeps the place *)
Lemma dput_abs_pairs_in : forall m order k v, NoDup order -> In k order ->
  dput (abs_pairs m order) k v = abs_pairs (gm_set m k v) order.
Proof.
  induction order as [|k0 r IH]; intros k v Hnd Hin; [destruct Hin|].
  inversion Hnd as [|? ? Hn Hr]. subst. cbn [abs_pairs map]. unfold dput. cbn [om_put].
  destruct (text_eq_dec k k0) as [E|E].
  - subst k0. f_equal.
    + unfold lookup_or_null. rewrite gm_get_set. destruct (text_eq_dec k k); [reflexivity|congruence].
    + symmetry. apply abs_pairs_ext. intros k' Hk'. rewrite gm_get_set.
      destruct (text_eq_dec k' k); [subst; contradiction|reflexivity].
  - destruct Hin as [Hin|Hin]; [congruence|]. f_equal.
    + unfold lookup_or_null. rewrite gm_get_set. destruct (text_eq_dec k0 k); [congruence|reflexivity].
    + exact (IH k v Hr Hin).
Qed.
(* inserting appends *)
Lemma dput_abs_pairs_new : forall m order k v, ~ In k order ->
  dput (abs_pairs m order) k v = abs_pairs (gm_set m k v) (order ++ [k]).
Proof.
  induction order as [|k0 r IH]; intros k v Hn.
  - cbn. unfold lookup_or_null. rewrite gm_get_set. destruct (text_eq_dec k k); [reflexivity|congruence].
  - cbn [abs_pairs map app]. unfold dput. cbn [om_put].
    destruct (text_eq_dec k k0) as [E|E]; [exfalso; apply Hn; left; congruence|]. f_equal.
    + unfold lookup_or_null. rewrite gm_get_set. destruct (text_eq_dec k0 k); [congruence|reflexivity].
    + apply IH. intro H. apply Hn. right. exact H.
Qed.
Lemma dremove_abs_pairs : forall m order k,
  dremove (abs_pairs m order) k = abs_pairs (gm_delete m k) (remove text_eq_dec k order).
Proof.
  induction order as [|k0 r IH]; intros k; [reflexivity|]. cbn [abs_pairs map remove]. unfold dremove. cbn [om_remove].
  destruct (text_eq_dec k k0) as [E|E].
  - exact (IH k).
  - cbn [map]. f_equal; [|exact (IH k)].
    unfold lookup_or_null. rewrite gm_get_delete. destruct (text_eq_dec k0 k); [congruence|reflexivity].
Qed.

Lemma NoDup_snoc : forall (l : list text) k, NoDup l -> ~ In k l -> NoDup (l ++ [k]).
Proof.
  induction l as [|x l IH]; intros k Hn Hk; cbn [app].
  - constructor; [intros []|constructor].
  - inversion Hn as [|? ? H1 H2]. subst. constructor.
    + rewrite in_app_iff. cbn [In]. intros [H|[H|[]]]; [exact (H1 H) | apply Hk; left; congruence].
    + apply IH; [exact H2|]. intro H. apply Hk. right. exact H.
Qed.

(* AppendKVPair *)
Lemma hm_append_kv_inv : forall hm k v, hm_inv hm -> hm_inv (hm_append_kv hm k v).
Proof.
  intros hm k v [H1 [H2 H3]]. unfold hm_append_kv. destruct (gm_get (hm_value hm) k) eqn:E; unfold hm_inv; cbn [hm_order hm_value].
  - split; [exact H1|]. split; [apply gm_set_nodup; exact H2|]. intros k'. rewrite gm_set_keys, H3.
    split; [auto|]. intros [H|H]; [subst; eapply gm_get_in; eassumption | exact H].
  - pose proof (gm_get_not_in _ _ E) as Hn. split.
    + apply NoDup_snoc; [exact H1|]. rewrite H3. exact Hn.
    + split; [apply gm_set_nodup; exact H2|]. intros k'. rewrite gm_set_keys, in_app_iff, H3. cbn [In].
      split; [intros [H|[H|[]]]; auto | intros [H|H]; auto].
Qed.

Lemma hm_append_kv_abs : forall hm k v, hm_inv hm -> abs (hm_append_kv hm k v) = dput (abs hm) k v.
Proof.
  intros hm k v [H1 [H2 H3]]. unfold hm_append_kv, abs. destruct (gm_get (hm_value hm) k) eqn:E; cbn [hm_order hm_value].
  - symmetry. apply dput_abs_pairs_in; [exact H1|]. apply H3. eapply gm_get_in. eassumption.
  - symmetry. apply dput_abs_pairs_new. rewrite H3. apply gm_get_not_in. exact E.
Qed.

Lemma abs_wf : forall hm, hm_inv hm -> om_wf (abs hm).
Proof. intros hm [H _]. unfold om_wf. fold (om_keys (abs hm)). rewrite abs_keys. exact H. Qed.

Lemma assoc_get_dget : forall (m : dmap) k, assoc_get k m = dget m k.
Proof. induction m as [|[k' v] r IH]; intros k; [reflexivity|]. unfold dget. cbn [assoc_get om_get]. destruct (text_eq_dec k k'); [reflexivity|apply IH]. Qed.
Lemma pairs_put_dput : forall (m : dmap) k v, pairs_put k v m = dput m k v.
Proof. induction m as [|[k' w] r IH]; intros k v; [reflexivity|]. unfold dput. cbn [pairs_put om_put]. destruct (text_eq_dec k k'); [reflexivity|]. f_equal. apply IH. Qed.

(* NewHashMap *)
Lemma new_hashmap_loop_step : forall hm k v r, new_hashmap_loop hm ((k, v) :: r) = new_hashmap_loop (hm_append_kv hm k v) r.
Proof. intros. cbn [new_hashmap_loop]. unfold hm_append_kv. destruct (gm_get (hm_value hm) k); reflexivity. Qed.
Lemma new_hashmap_loop_spec : forall kvs hm, hm_inv hm ->
  hm_inv (new_hashmap_loop hm kvs) /\
  abs (new_hashmap_loop hm kvs) = fold_left (fun acc kv => pairs_put (fst kv) (snd kv) acc) kvs (abs hm).
Proof.
  induction kvs as [|[k v] r IH]; intros hm H; [split; [exact H|reflexivity]|].
  rewrite new_hashmap_loop_step. destruct (IH (hm_append_kv hm k v) (hm_append_kv_inv hm k v H)) as [I1 I2].
  split; [exact I1|]. rewrite I2. cbn [fold_left fst snd]. rewrite hm_append_kv_abs by exact H. rewrite pairs_put_dput. reflexivity.
Qed.
Lemma empty_inv : hm_inv (mkHM [] []).
Proof. unfold hm_inv. cbn. split; [constructor|]. split; [constructor|]. tauto. Qed.
Theorem new_hashmap_spec : forall kvs, hm_inv (new_hashmap kvs) /\ abs (new_hashmap kvs) = pairs_norm kvs.
Proof. intros kvs. exact (new_hashmap_loop_spec kvs (mkHM [] []) empty_inv). Qed.

Lemma validate_strings_all : forall values,
  validate_strings values = match all_strings values with Some _ => None | None => Some E_PARAM_TYPE end.
Proof.
  induction values as [|v r IH]; [reflexivity|]. cbn [validate_strings]. unfold all_strings in *. cbn [fold_right].
  destruct v; cbn [param_ok]; try reflexivity. rewrite IH. destruct (fold_right _ _ r); reflexivity.
Qed.

(* 移除 *)
Lemma delete_inv : forall hm k v, hm_inv hm -> gm_get (hm_value hm) k = Some v ->
  hm_inv (mkHM (gm_delete (hm_value hm) k) (remove text_eq_dec k (hm_order hm))).
Proof.
  intros hm k v [H1 [H2 H3]] E. unfold hm_inv. cbn [hm_order hm_value]. split.
  - clear -H1. induction (hm_order hm) as [|x l IH]; [constructor|]. inversion H1 as [|? ? Hn Hr]. subst. cbn [remove].
    destruct (text_eq_dec k x); [apply IH; exact Hr|]. constructor; [|apply IH; exact Hr].
    intro H. apply in_remove in H. destruct H as [H _]. exact (Hn H).
  - split; [apply gm_delete_nodup; exact H2|]. intros k'. rewrite gm_delete_keys, <- H3. split.
    + intro H. apply in_remove in H. destruct H as [Ha Hb]. split; assumption.
    + intros [Ha Hb]. apply in_in_remove; assumption.
Qed.

Lemma same_keys_same_length : forall (a b : list text), NoDup a -> NoDup b -> (forall k, In k a <-> In k b) -> length a = length b.
Proof. intros a b Ha Hb H. apply Permutation_length. apply NoDup_Permutation; assumption. Qed.
Lemma inv_lengths : forall hm, hm_inv hm -> length (hm_order hm) = length (hm_value hm).
Proof. intros hm [H1 [H2 H3]]. rewrite <- (map_length fst (hm_value hm)). apply same_keys_same_length; assumption. Qed.

(* ---------- one step: refinement and invariant together ---------- *)
Theorem hm_step_refines : forall op hm, hm_inv hm ->
  omap_step op (abs hm) = (fst (hm_step op hm), abs (snd (hm_step op hm))) /\ hm_inv (snd (hm_step op hm)).
Proof.
  intros op hm Hi. pose proof Hi as [H1 [H2 H3]].
  destruct op as [i|i v|p|v|m args| |]; cbn [hm_step omap_step].
  - (* D#i *) unfold index_key, key_of_index. destruct i; cbn [fst snd]; try (split; [reflexivity|exact Hi]).
    + unfold iv_hashmap_rhs. rewrite dget_abs by exact Hi. destruct (gm_get (hm_value hm) (num_text n)); cbn [fst snd]; split; try reflexivity; exact Hi.
    + unfold iv_hashmap_rhs. rewrite dget_abs by exact Hi. destruct (gm_get (hm_value hm) s); cbn [fst snd]; split; try reflexivity; exact Hi.
  - (* D#i = v *) unfold index_key, key_of_index. destruct i; cbn [fst snd]; try (split; [reflexivity|exact Hi]);
      unfold iv_hashmap_lhs; cbn [fst snd]; rewrite hm_append_kv_abs by exact Hi; (split; [reflexivity|apply hm_append_kv_inv; exact Hi]).
  - (* getters *) destruct p; cbn [hm_get_property fst snd]; (split; [|exact Hi]); try reflexivity.
    + unfold hm_get_length, gm_len, om_size, abs, abs_pairs, zlen. rewrite map_length, (inv_lengths hm Hi). reflexivity.
    + unfold hm_get_length, gm_len, om_size, abs, abs_pairs, zlen. rewrite map_length, (inv_lengths hm Hi). reflexivity.
    + unfold hm_get_all_indexes. rewrite abs_keys. reflexivity.
    + unfold hm_get_all_values. rewrite hm_pairs_abs by exact Hi. reflexivity.
  - split; [reflexivity|exact Hi].
  - (* methods *) destruct m; cbn [hm_exec_method].
    + (* 读取 *) cbn [fst snd]. split; [|exact Hi]. unfold hm_exec_get. rewrite (validate_strings_all args).
      destruct (all_strings args) as [strs|] eqn:E; [|reflexivity].
      destruct args as [|a r]; [rewrite hm_pairs_abs by exact Hi; reflexivity|].
      destruct a; try (unfold all_strings in E; cbn [fold_right] in E; discriminate).
      cbn [val_read_path]. rewrite assoc_get_dget, dget_abs by exact Hi. destruct (gm_get (hm_value hm) s); reflexivity.
    + (* 写入 *) rewrite validate_exact_spec. destruct (spec_params args [TString; TAny]) eqn:E; [split; [reflexivity|exact Hi]|].
      destruct (params_str_any _ E) as [s [v Ha]]. subst args. cbn [fst snd]. rewrite hm_append_kv_abs by exact Hi.
      split; [reflexivity|apply hm_append_kv_inv; exact Hi].
    + (* 移除 *) rewrite validate_exact_spec. destruct (spec_params args [TString]) eqn:E; [split; [reflexivity|exact Hi]|].
      destruct (params_str _ E) as [s Ha]. subst args. rewrite dget_abs by exact Hi.
      destruct (gm_get (hm_value hm) s) as [v|] eqn:Eg; [|split; [reflexivity|exact Hi]].
      rewrite key_order_delete_spec by (auto; apply H3; eapply gm_get_in; eassumption). cbn [fst snd].
      split; [|eapply delete_inv; eassumption]. unfold abs at 1. rewrite dremove_abs_pairs. reflexivity.
    + split; [reflexivity|exact Hi].
  - (* copy *) unfold hm_duplicate. rewrite hm_pairs_abs by exact Hi.
    destruct (new_hashmap_spec (map (fun kv : text * val => let (k, w) := kv in (k, dup_val w)) (abs hm))) as [N1 N2].
    rewrite (hm_pairs_abs _ N1). cbn [fst snd]. rewrite N2. split; [reflexivity|exact N1].
  - (* iterate *) unfold iterate_hashmap. rewrite hm_pairs_abs by exact Hi. cbn [fst snd]. split; [reflexivity|exact Hi].
Qed.

(* ---------- histories ---------- *)
Theorem hm_run_refines : forall ops hm, hm_inv hm ->
  map (fun s => (fst s, abs (snd s))) (hm_run ops hm) = omap_run ops (abs hm) /\
  Forall (fun s => hm_inv (snd s)) (hm_run ops hm).
Proof.
  induction ops as [|op r IH]; intros hm Hi; [split; [reflexivity|constructor]|].
  destruct (hm_step_refines op hm Hi) as [S1 S2]. destruct (IH _ S2) as [I1 I2].
  cbn [hm_run omap_run map]. cbv zeta. rewrite S1. cbn [snd]. rewrite I1. split; [reflexivity|]. constructor; assumption.
Qed.

Lemma omap_step_no_crash : forall op m, fst (omap_step op m) <> Crash.
Proof.
  intros op m. destruct op as [i|i v|p|v|mm args| |]; cbn [omap_step];
    repeat match goal with
           | |- context [match ?x with _ => _ end] => destruct x
           end; cbn [fst]; discriminate.
Qed.
Theorem hm_run_no_crash : forall ops hm, hm_inv hm -> Forall (fun s => fst s <> Crash) (hm_run ops hm).
Proof.
  induction ops as [|op r IH]; intros hm Hi; cbn [hm_run]; constructor.
  - destruct (hm_step_refines op hm Hi) as [S1 _]. intro H. apply (omap_step_no_crash op (abs hm)). rewrite S1. exact H.
  - apply IH. apply hm_step_refines. exact Hi.
Qed.

(* ---------- read = last write ---------- *)
Lemma dget_dput : forall (m : dmap) k' v k, dget (dput m k' v) k = if text_eq_dec k k' then Some v else dget m k.
Proof.
  induction m as [|[k0 w] r IH]; intros k' v k; unfold dget, dput in *; cbn [om_put om_get].
  - destruct (text_eq_dec k k'); reflexivity.
  - destruct (text_eq_dec k' k0) as [E|E]; cbn [om_get].
    + subst k0. destruct (text_eq_dec k k'); reflexivity.
    + destruct (text_eq_dec k k0) as [E1|E1]; [|apply IH]. subst k0. destruct (text_eq_dec k k'); [congruence|reflexivity].
Qed.
Lemma dget_dremove : forall (m : dmap) k' k, dget (dremove m k') k = if text_eq_dec k k' then None else dget m k.
Proof.
  induction m as [|[k0 w] r IH]; intros k' k; unfold dget, dremove in *; cbn [om_remove om_get].
  - destruct (text_eq_dec k k'); reflexivity.
  - destruct (text_eq_dec k' k0) as [E|E].
    + subst k0. rewrite IH. destruct (text_eq_dec k k'); reflexivity.
    + cbn [om_get]. destruct (text_eq_dec k k0) as [E1|E1]; [|apply IH]. subst k0. destruct (text_eq_dec k k'); [congruence|reflexivity].
Qed.
Lemma fold_put_distinct : forall (m acc : dmap), NoDup (map fst (acc ++ m)) ->
  fold_left (fun a kv => pairs_put (fst kv) (snd kv) a) m acc = acc ++ m.
Proof.
  induction m as [|[k v] r IH]; intros acc H; cbn [fold_left fst snd]; [rewrite app_nil_r; reflexivity|].
  assert (Hp : pairs_put k v acc = acc ++ [(k, v)]).
  { rewrite map_app in H. cbn [map fst] in H. apply NoDup_remove_2 in H.
    assert (Hn : ~ In k (map fst acc)) by (intro X; apply H; apply in_or_app; left; exact X). clear H.
    induction acc as [|[k0 w] a IHa]; [reflexivity|]. cbn [pairs_put app]. cbn [map fst In] in Hn.
    destruct (text_eq_dec k k0); [exfalso; apply Hn; left; congruence|]. rewrite IHa; [reflexivity|]. intro X. apply Hn. right. exact X. }
  rewrite Hp. rewrite IH; rewrite <- app_assoc; [reflexivity|exact H].
Qed.
Lemma pairs_norm_id : forall (m : dmap), NoDup (map fst m) -> pairs_norm m = m.
Proof. intros m H. unfold pairs_norm. rewrite fold_put_distinct; [reflexivity|exact H]. Qed.
Definition dupf (kv : text * val) : text * val := match kv with (k, w) => (k, dup_val w) end.
Lemma map_dupf_keys : forall (m : dmap), map fst (map dupf m) = map fst m.
Proof. induction m as [|[k v] r IH]; [reflexivity|]. cbn [map dupf fst]. rewrite IH. reflexivity. Qed.
Lemma dget_map_dupf : forall (m : dmap) k, dget (map dupf m) k = match dget m k with Some v => Some (dup_val v) | None => None end.
Proof.
  induction m as [|[k0 w] r IH]; intros k; [reflexivity|]. unfold dget in *. cbn [map dupf om_get].
  destruct (text_eq_dec k k0); [reflexivity|apply IH].
Qed.

Lemma omap_step_get : forall op (m : dmap) k, om_wf m -> dget (snd (omap_step op m)) k = key_write k (dget m k) op.
Proof.
  intros op m k Hwf. destruct op as [i|i v|p|v|mm args| |]; cbn [omap_step key_write].
  - destruct (key_of_index i); [destruct (dget m t)|]; reflexivity.
  - destruct (key_of_index i) as [k'|]; cbn [snd]; [apply dget_dput|reflexivity].
  - destruct p; reflexivity.
  - reflexivity.
  - destruct mm.
    + destruct (all_strings args); cbn [snd]; destruct args as [|[| | | | |] [|? ?]]; reflexivity.
    + destruct (spec_params args [TString; TAny]) eqn:E.
      * cbn [snd]. destruct args as [|[|?|?|s|?|?] [|v [|x r]]]; try reflexivity. cbn in E. discriminate.
      * destruct (params_str_any _ E) as [s [v Ha]]. subst args. cbn [snd]. apply dget_dput.
    + destruct (spec_params args [TString]) eqn:E.
      * cbn [snd]. destruct args as [|[|?|?|s|?|?] [|x r]]; try reflexivity. cbn in E. discriminate.
      * destruct (params_str _ E) as [s Ha]. subst args. destruct (dget m s) eqn:Eg; cbn [snd].
        -- apply dget_dremove.
        -- destruct (text_eq_dec k s); [subst; exact Eg|reflexivity].
    + cbn [snd]. destruct args as [|[| | | | |] [|? ?]]; reflexivity.
  - cbn [snd]. fold dupf. rewrite pairs_norm_id by (rewrite map_dupf_keys; exact Hwf). apply dget_map_dupf.
  - reflexivity.
Qed.

Definition hm_final (ops : list dop) (hm : hashmap) : hashmap := fold_left (fun h op => snd (hm_step op h)) ops hm.
Lemma hm_final_inv : forall ops hm, hm_inv hm -> hm_inv (hm_final ops hm).
Proof. induction ops as [|op r IH]; intros hm Hi; [exact Hi|]. cbn [hm_final fold_left]. apply IH. apply hm_step_refines. exact Hi. Qed.

Theorem read_last_write : forall ops hm k, hm_inv hm ->
  gm_get (hm_value (hm_final ops hm)) k = last_write k (gm_get (hm_value hm) k) ops.
Proof.
  induction ops as [|op r IH]; intros hm k Hi; [reflexivity|]. cbn [hm_final fold_left last_write].
  destruct (hm_step_refines op hm Hi) as [S1 S2]. fold (hm_final r (snd (hm_step op hm))). rewrite (IH _ k S2).
  unfold last_write. f_equal. rewrite <- !dget_abs by assumption.
  replace (abs (snd (hm_step op hm))) with (snd (omap_step op (abs hm))) by (rewrite S1; reflexivity).
  apply omap_step_get. apply abs_wf. exact Hi.
Qed.

(* ---------- views ---------- *)
Lemma hm_text_abs : forall hm, hm_inv hm -> hm_text hm = Some (val_text (VDict (abs hm))).
Proof. intros hm Hi. unfold hm_text. rewrite hm_pairs_abs by exact Hi. reflexivity. Qed.

Theorem all_views_same_order : forall hm, hm_inv hm ->
  fst (hm_step (DGetProp DPKeys) hm) = Ok (VList (map VStr (om_keys (abs hm)))) /\
  fst (hm_step (DGetProp DPValues) hm) = Ok (VList (om_values (abs hm))) /\
  fst (hm_step DIterate hm) = Ok (VList (map (fun kv => VList [VStr (fst kv); snd kv]) (abs hm))) /\
  hm_text hm = Some (val_text (VDict (abs hm))) /\
  view_json_keys hm = om_keys (abs hm) /\
  om_wf (abs hm).
Proof.
  intros hm Hi. repeat split.
  - cbn [hm_step fst hm_get_property]. unfold hm_get_all_indexes. rewrite abs_keys. reflexivity.
  - cbn [hm_step fst hm_get_property]. unfold hm_get_all_values. rewrite hm_pairs_abs by exact Hi. reflexivity.
  - cbn [hm_step]. unfold iterate_hashmap. rewrite hm_pairs_abs by exact Hi. reflexivity.
  - apply hm_text_abs. exact Hi.
  - unfold view_json_keys. rewrite abs_keys. reflexivity.
  - apply abs_wf. exact Hi.
Qed.

(* ---------- length ---------- *)
Theorem dict_length : forall hm, hm_inv hm ->
  fst (hm_step (DGetProp DPLength) hm) = Ok (VNum (NInt (Z.of_nat (length (hm_order hm))))) /\
  length (hm_order hm) = om_size (abs hm).
Proof.
  intros hm Hi. split.
  - cbn [hm_step fst hm_get_property]. unfold hm_get_length, gm_len, zlen. rewrite <- (inv_lengths hm Hi). reflexivity.
  - unfold om_size, abs, abs_pairs. rewrite map_length. reflexivity.
Qed.
Theorem list_length : forall l, arr_step true (LGetProp PLength) l = (Ok (VNum (NInt (Z.of_nat (length l)))), l).
Proof. reflexivity. Qed.

(* ---------- bounds ---------- *)
Theorem list_bounds : forall l n i v, small l -> num_ok n = true -> trunc_num n = Some i -> ~ (1 <= i <= Z.of_nat (length l)) ->
  arr_step true (LIndexGet (VNum n)) l = (Err E_INDEX_RANGE, l) /\
  arr_step true (LIndexSet (VNum n) v) l = (Err E_INDEX_RANGE, l).
Proof.
  intros l n i v Hs Hn Ht Hr. rewrite !arr_step_refines by (auto; cbn; exact Hn). cbn [seq_step]. rewrite Ht.
  rewrite seq_get_none, seq_set_none by exact Hr. split; reflexivity.
Qed.
Theorem list_bounds_nonfinite : forall l n v, small l -> trunc_num n = None ->
  arr_step true (LIndexGet (VNum n)) l = (Err E_INDEX_RANGE, l) /\
  arr_step true (LIndexSet (VNum n) v) l = (Err E_INDEX_RANGE, l).
Proof.
  intros l n v Hs Ht. assert (Hn : num_ok n = true) by (destruct n; cbn in *; try discriminate; reflexivity).
  rewrite !arr_step_refines by (auto; cbn; exact Hn). cbn [seq_step]. rewrite Ht. split; reflexivity.
Qed.
Theorem list_in_range : forall l n i v, small l -> num_ok n = true -> trunc_num n = Some i -> 1 <= i <= Z.of_nat (length l) ->
  exists x, nth_error l (Z.to_nat (i - 1)) = Some x /\
  arr_step true (LIndexGet (VNum n)) l = (Ok x, l) /\
  arr_step true (LIndexSet (VNum n) v) l = (Ok VNull, list_set l (Z.to_nat (i - 1)) v) /\
  fst (arr_step true (LIndexGet (VNum n)) (list_set l (Z.to_nat (i - 1)) v)) = Ok v.
Proof.
  intros l n i v Hs Hn Ht Hr. destruct (nth_error_some_lt _ l (Z.to_nat (i - 1))) as [x Hx]; [lia|]. exists x. split; [exact Hx|].
  assert (Hs' : small (list_set l (Z.to_nat (i - 1)) v)) by (unfold small, zlen in *; rewrite list_set_length; exact Hs).
  rewrite !arr_step_refines by (auto; cbn; exact Hn). cbn [seq_step]. rewrite Ht.
  rewrite seq_get_nth by exact Hr. rewrite Hx. rewrite seq_set_some by exact Hr. split; [reflexivity|]. split; [reflexivity|].
  rewrite seq_get_nth by (unfold zlen; rewrite list_set_length; exact Hr).
  rewrite list_set_firstn_skipn by lia. rewrite nth_error_app2 by (rewrite firstn_length; lia).
  rewrite firstn_length. replace (Z.to_nat (i - 1) - Init.Nat.min (Z.to_nat (i - 1)) (length l))%nat with 0%nat by lia. reflexivity.
Qed.

Theorem dict_bounds : forall hm k v, hm_inv hm ->
  (gm_get (hm_value hm) k = None ->
     hm_step (DIndexGet (VStr k)) hm = (Err E_KEY_NOT_FOUND, hm) /\
     abs (snd (hm_step (DIndexSet (VStr k) v) hm)) = abs hm ++ [(k, v)]) /\
  (forall w, gm_get (hm_value hm) k = Some w ->
     hm_step (DIndexGet (VStr k)) hm = (Ok w, hm) /\
     om_keys (abs (snd (hm_step (DIndexSet (VStr k) v) hm))) = om_keys (abs hm)).
Proof.
  intros hm k v Hi. split.
  - intros E. split.
    + cbn [hm_step index_key]. unfold iv_hashmap_rhs. rewrite E. reflexivity.
    + cbn [hm_step index_key iv_hashmap_lhs snd]. unfold hm_append_kv. rewrite E. unfold abs. cbn [hm_value hm_order].
      unfold abs_pairs. rewrite map_app. cbn [map]. f_equal.
      * apply map_ext_in. intros k' Hk'. unfold lookup_or_null. rewrite gm_get_set.
        destruct (text_eq_dec k' k); [|reflexivity]. subst k'. exfalso. destruct Hi as [_ [_ H3]].
        exact (gm_get_not_in _ _ E (proj1 (H3 k) Hk')).
      * unfold lookup_or_null. rewrite gm_get_set. destruct (text_eq_dec k k); [reflexivity|congruence].
  - intros w E. split.
    + cbn [hm_step index_key]. unfold iv_hashmap_rhs. rewrite E. reflexivity.
    + cbn [hm_step index_key iv_hashmap_lhs snd]. rewrite !abs_keys. unfold hm_append_kv. rewrite E. reflexivity.
Qed.

(* ---------- list method laws (on the model) ---------- *)
Theorem law_append_last : forall l v, small l ->
  arr_step true (LMethod MAppend [v]) l = (Ok (VList (l ++ [v])), l ++ [v]) /\
  fst (arr_step true (LGetProp PLast) (l ++ [v])) = Ok v /\
  length (l ++ [v]) = S (length l).
Proof.
  intros l v Hs. split; [|split].
  - rewrite arr_step_refines by auto. reflexivity.
  - cbn [arr_step fst arr_get_property]. rewrite arr_get_last_spec. unfold seq_last, seq_len. fold (zlen (l ++ [v])).
    pose proof (zlen_nonneg _ l). rewrite seq_get_nth by (rewrite zlen_app; change (zlen [v]) with 1; lia).
    rewrite zlen_app. change (zlen [v]) with 1. replace (zlen l + 1 - 1) with (zlen l) by lia. unfold zlen. rewrite Nat2Z.id.
    rewrite nth_error_app2 by lia. rewrite Nat.sub_diag. reflexivity.
  - rewrite app_length. cbn [length]. lia.
Qed.
Theorem law_prepend_first : forall l v, small l ->
  arr_step true (LMethod MPrepend [v]) l = (Ok (VList (v :: l)), v :: l) /\
  fst (arr_step true (LGetProp PFirst) (v :: l)) = Ok v.
Proof.
  intros l v Hs. split.
  - rewrite arr_step_refines by auto. reflexivity.
  - cbn [arr_step fst arr_get_property]. rewrite arr_get_first_spec. unfold seq_first.
    rewrite seq_get_nth by (rewrite zlen_cons; pose proof (zlen_nonneg _ l); lia). reflexivity.
Qed.
Theorem law_shift : forall h t, arr_step true (LMethod MShift []) (h :: t) = (Ok h, t).
Proof. intros. cbn [arr_step arr_exec_method]. rewrite shift_left_spec. reflexivity. Qed.
Theorem law_pop : forall t x, arr_step true (LMethod MPop []) (t ++ [x]) = (Ok x, t).
Proof.
  intros. cbn [arr_step arr_exec_method]. rewrite shift_right_spec. unfold seq_pop_back. rewrite rev_app_distr. cbn [rev app].
  rewrite rev_involutive. reflexivity.
Qed.
Theorem law_shift_pop_empty : arr_step true (LMethod MShift []) [] = (Ok VNull, []) /\ arr_step true (LMethod MPop []) [] = (Ok VNull, []).
Proof. split; reflexivity. Qed.
Theorem law_reverse_twice : forall l, map snd (arr_run true [LAssignReverse; LAssignReverse] l) = [rev l; l].
Proof. intros l. cbn [arr_run arr_step]. cbv zeta. rewrite (arr_reverse_spec l). cbn [snd]. rewrite (arr_reverse_spec (rev l)). cbn [snd map]. rewrite rev_involutive. reflexivity. Qed.
Theorem law_reverse_getter : forall l, arr_step true (LGetProp PReverse) l = (Ok (VList (rev l)), l).
Proof. intros. cbn [arr_step arr_get_property]. unfold arr_get_reverse. rewrite arr_reverse_spec. reflexivity. Qed.
Theorem law_merge : forall l ls, arr_step true (LMethod MMerge (map VList ls)) l = (Ok (VList (l ++ concat ls)), l ++ concat ls).
Proof.
  intros l ls. cbn [arr_step arr_exec_method]. rewrite (validate_all_lists (map VList ls)).
  assert (H : all_lists (map VList ls) = Some ls).
  { induction ls as [|x r IH]; [reflexivity|]. unfold all_lists in *. cbn [map fold_right]. rewrite IH. reflexivity. }
  rewrite H. rewrite (merge_loop_spec _ ([] ++ l) ls H). reflexivity.
Qed.
Theorem law_swap : forall l i j x y, 
  nth_error l i = Some x -> nth_error l j = Some y ->
  exists l', arr_step true (LMethod MSwap [VNum (NInt (Z.of_nat i + 1)); VNum (NInt (Z.of_nat j + 1))]) l = (Ok (VList l'), l') /\
    l' = list_set (list_set l i y) j x /\ length l' = length l.
Proof.
  intros l i j x y Hx Hy.
  assert (Hi : (i < length l)%nat) by (apply nth_error_Some; congruence).
  assert (Hj : (j < length l)%nat) by (apply nth_error_Some; congruence).
  exists (list_set (list_set l i y) j x). split; [|split; [reflexivity | rewrite !list_set_length; reflexivity]].
  cbn [arr_step arr_exec_method]. rewrite validate_exact_spec. cbn [spec_params length Nat.eqb params_typed param_ok andb].
  change (swap_model l (NInt (Z.of_nat i + 1)) (NInt (Z.of_nat j + 1)) = (Ok (VList (list_set (list_set l i y) j x)), list_set (list_set l i y) j x)).
  rewrite swap_spec. cbn [floor_num]. unfold seq_swap.
  rewrite !seq_get_nth by (unfold zlen; lia).
  replace (Z.to_nat (Z.of_nat i + 1 - 1)) with i by lia. replace (Z.to_nat (Z.of_nat j + 1 - 1)) with j by lia.
  rewrite Hx, Hy. rewrite seq_set_some by (unfold zlen; lia).
  replace (Z.to_nat (Z.of_nat i + 1 - 1)) with i by lia.
  rewrite seq_set_some by (unfold zlen; rewrite list_set_length; lia).
  replace (Z.to_nat (Z.of_nat j + 1 - 1)) with j by lia. reflexivity.
Qed.
Theorem law_contains : forall l v,
  arr_step true (LMethod MContains [v]) l = (Ok (VBool (existsb (fun x => val_eqb x v) l)), l) /\
  (existsb (fun x => val_eqb x v) l = true <-> exists x, In x l /\ val_eqb x v = true).
Proof.
  intros l v. split; [|apply existsb_exists].
  cbn [arr_step arr_exec_method]. rewrite validate_exact_spec. cbn [spec_params length Nat.eqb params_typed param_ok andb].
  rewrite contains_loop_existsb. reflexivity.
Qed.
(* 寻找 returns the 0-based position of the first `为`-equal element, -1 when 包含 is false *)
Lemma find_loop_facts : forall l v i, 0 <= i ->
  (find_loop l v i = -1 /\ existsb (fun x => val_eqb x v) l = false) \/
  (exists k x, find_loop l v i = i + Z.of_nat k /\ nth_error l k = Some x /\ val_eqb x v = true /\
               forall k' y, (k' < k)%nat -> nth_error l k' = Some y -> val_eqb y v = false).
Proof.
  induction l as [|h t IH]; intros v i Hi; cbn [find_loop existsb]; [left; split; reflexivity|].
  destruct (val_eqb h v) eqn:E.
  - right. exists 0%nat, h. cbn [nth_error]. repeat split; [lia|exact E|]. intros k' y Hk. lia.
  - cbn [orb]. destruct (IH v (i + 1)) as [[H1 H2]|[k [x [H1 [H2 [H3 H4]]]]]]; [lia| |].
    + left. split; assumption.
    + right. exists (S k), x. cbn [nth_error]. repeat split; [lia|exact H2|exact H3|].
      intros [|k'] y Hk Hy; cbn [nth_error] in Hy; [inversion Hy; subst; exact E|]. apply (H4 k' y); [lia|exact Hy].
Qed.
Theorem law_find : forall l v,
  exists r, arr_step true (LMethod MFind [v]) l = (Ok (VNum (NInt r)), l) /\
  ((r = -1 /\ existsb (fun x => val_eqb x v) l = false) \/
   (exists k x, r = Z.of_nat k /\ nth_error l k = Some x /\ val_eqb x v = true /\
                forall k' y, (k' < k)%nat -> nth_error l k' = Some y -> val_eqb y v = false)).
Proof.
  intros l v. exists (find_loop l v 0). split.
  - cbn [arr_step arr_exec_method]. rewrite validate_exact_spec. reflexivity.
  - destruct (find_loop_facts l v 0) as [H|[k [x [H1 H2]]]]; [lia|left; exact H|]. right. exists k, x. split; [lia|exact H2].
Qed.
(* `为` on values without NaN and without dictionaries is structural equality *)
Fixpoint plain (v : val) : bool :=
  match v with
  | VNum NNaN => false
  | VList l => forallb plain l
  | VDict _ => false
  | _ => true
  end.
Lemma num_eqb_eq : forall a b, num_eqb a b = true -> a = b.
Proof.
  intros [x|x| |x|x] [y|y| |y|y] H; cbn in H; try discriminate;
    try (apply Z.eqb_eq in H; subst; reflexivity); try (apply eqb_prop in H; subst; reflexivity).
Qed.
Lemma num_eqb_refl : forall a, a <> NNaN -> num_eqb a a = true.
Proof. intros [x|x| |x|x] H; cbn; try apply Z.eqb_refl; try apply eqb_reflx. congruence. Qed.
Lemma val_eqb_plain_eq : forall a b, plain a = true -> val_eqb a b = true -> a = b.
Proof.
  fix IH 1. intros a b Hp H. destruct a as [|x|x|x|l|kvs]; destruct b as [|y|y|y|l0|kvs0]; cbn [val_eqb] in H; try discriminate.
  - reflexivity.
  - apply eqb_prop in H. subst. reflexivity.
  - apply num_eqb_eq in H. subst. reflexivity.
  - destruct (text_eq_dec x y); [subst; reflexivity|discriminate].
  - f_equal. cbn [plain] in Hp. revert l0 H Hp. induction l as [|x xs IHl]; intros [|y ys] H Hp; try discriminate; [reflexivity|].
    apply andb_prop in H. destruct H as [H1 H2]. cbn [forallb] in Hp. apply andb_prop in Hp. destruct Hp as [P1 P2].
    f_equal; [apply IH; assumption | apply IHl; assumption].
Qed.
Lemma val_eqb_plain_refl : forall a, plain a = true -> val_eqb a a = true.
Proof.
  fix IH 1. intros a Hp. destruct a as [|x|x|x|l|kvs]; cbn [val_eqb].
  - reflexivity.
  - apply eqb_reflx.
  - apply num_eqb_refl. intro E. subst. discriminate.
  - destruct (text_eq_dec x x); [reflexivity|congruence].
  - cbn [plain] in Hp. induction l as [|x xs IHl]; [reflexivity|].
    cbn [forallb] in Hp. apply andb_prop in Hp. destruct Hp as [P1 P2]. rewrite (IH x P1). cbn [andb]. apply IHl. exact P2.
  - discriminate.
Qed.
Theorem val_eqb_structural : forall a b, plain a = true -> (val_eqb a b = true <-> a = b).
Proof. intros a b Hp. split; [apply val_eqb_plain_eq; exact Hp | intro E; subst; apply val_eqb_plain_refl; exact Hp]. Qed.

(* ---------- statements as used in props/C12.v ---------- *)
Lemma pairs_norm_om_of_pairs : forall (kvs : list (text * val)), pairs_norm kvs = om_of_pairs text_eq_dec kvs.
Proof.
  intros kvs. unfold pairs_norm, om_of_pairs. generalize (@nil (text * val)) as acc.
  induction kvs as [|[k v] r IH]; intros acc; [reflexivity|]. cbn [fold_left fst snd]. rewrite pairs_put_dput. apply IH.
Qed.
Theorem dict_invariant_all : forall kvs ops,
  hm_inv (new_hashmap kvs) /\ Forall (fun s => hm_inv (snd s)) (hm_run ops (new_hashmap kvs)).
Proof. intros kvs ops. split; [exact (proj1 (new_hashmap_spec kvs)) | exact (proj2 (hm_run_refines ops _ (proj1 (new_hashmap_spec kvs))))]. Qed.
Theorem dict_invariant_step : forall op hm, hm_inv hm -> hm_inv (snd (hm_step op hm)).
Proof. intros op hm H. exact (proj2 (hm_step_refines op hm H)). Qed.
Theorem dict_refines_omap_all : forall kvs ops,
  abs (new_hashmap kvs) = om_of_pairs text_eq_dec kvs /\
  map (fun s => (fst s, abs (snd s))) (hm_run ops (new_hashmap kvs)) = omap_run ops (abs (new_hashmap kvs)) /\
  Forall (fun s => fst s <> Crash) (hm_run ops (new_hashmap kvs)).
Proof.
  intros kvs ops. destruct (new_hashmap_spec kvs) as [H1 H2]. split; [|split].
  - rewrite H2. apply pairs_norm_om_of_pairs.
  - exact (proj1 (hm_run_refines ops _ H1)).
  - exact (hm_run_no_crash ops _ H1).
Qed.
Theorem dict_refines_omap_from_any : forall ops hm, hm_inv hm ->
  map (fun s => (fst s, abs (snd s))) (hm_run ops hm) = omap_run ops (abs hm) /\
  Forall (fun s => hm_inv (snd s)) (hm_run ops hm) /\
  Forall (fun s => fst s <> Crash) (hm_run ops hm).
Proof. intros ops hm H. destruct (hm_run_refines ops hm H) as [A B]. split; [exact A|]. split; [exact B|exact (hm_run_no_crash ops hm H)]. Qed.
Theorem list_refines_seq_all : forall ops l, forallb lop_okb ops = true -> small_run ops l ->
  arr_run true ops l = seq_run ops l /\ Forall (fun s => fst s <> Crash) (arr_run true ops l).
Proof. intros ops l H1 H2. split; [exact (arr_run_refines ops l H1 H2) | exact (arr_run_no_crash ops l H1 H2)]. Qed.
Theorem read_last_write_all : forall kvs ops k,
  gm_get (hm_value (hm_final ops (new_hashmap kvs))) k = last_write k (dget (om_of_pairs text_eq_dec kvs) k) ops /\
  fst (hm_step (DIndexGet (VStr k)) (hm_final ops (new_hashmap kvs))) =
    match last_write k (dget (om_of_pairs text_eq_dec kvs) k) ops with Some v => Ok v | None => Err E_KEY_NOT_FOUND end.
Proof.
  intros kvs ops k. destruct (new_hashmap_spec kvs) as [H1 H2].
  assert (E : gm_get (hm_value (hm_final ops (new_hashmap kvs))) k = last_write k (dget (om_of_pairs text_eq_dec kvs) k) ops).
  { rewrite (read_last_write ops _ k H1). f_equal. rewrite <- (dget_abs _ k H1). rewrite H2, pairs_norm_om_of_pairs. reflexivity. }
  split; [exact E|]. cbn [hm_step index_key fst]. unfold iv_hashmap_rhs. rewrite E. reflexivity.
Qed.
Theorem list_read_last_write : forall l n i v, small l -> num_ok n = true -> trunc_num n = Some i -> 1 <= i <= Z.of_nat (length l) ->
  exists x, nth_error l (Z.to_nat (i - 1)) = Some x /\
  arr_step true (LIndexGet (VNum n)) l = (Ok x, l) /\
  arr_step true (LIndexSet (VNum n) v) l = (Ok VNull, list_set l (Z.to_nat (i - 1)) v) /\
  fst (arr_step true (LIndexGet (VNum n)) (list_set l (Z.to_nat (i - 1)) v)) = Ok v.
Proof. exact list_in_range. Qed.
Lemma list_set_other : forall (l : list val) i j v, i <> j -> nth_error (list_set l i v) j = nth_error l j.
Proof.
  induction l as [|h t IH]; intros [|i] [|j] v H; cbn [list_set nth_error]; try reflexivity; try congruence.
  apply IH. congruence.
Qed.
