(* JsonSound.v — the model PARSER of model/Json.v against the independent RFC 8259 GRAMMAR of model/JsonGrammar.v.
   New file; nothing here is an axiom (see the Print Assumptions at the end).

   cpok t = every element of t is <= 0x10FFFF (a code point);  scal t = every element is a Unicode scalar value.

   Soundness      parse_sound                cpok t -> parse t = Some v -> g_json t
                  parse_value_sound_grammar  cpok s -> parse_value fuel s = POk v rest ->
                                             exists w p, s = w ++ p ++ rest /\ g_ws w /\ g_value p
   Completeness   parse_complete             g_json t -> exists v, parse t = Some v          (parse's own fuel suffices)
                  parse_value_complete       g_value p -> exists v, forall fuel rest, length p < fuel -> followb rest = true ->
                                             parse_value fuel (p ++ rest) = POk v rest
   Alphabet       g_json_cpok                g_json t -> cpok t
   Together       g_json_iff_parse           g_json t <-> (cpok t /\ parse t <> None)
                  parse_none_iff             cpok t -> (parse t = None <-> ~ g_json t)
                  parse_none_not_json        parse t = None -> ~ g_json t                    (no hypothesis)
                  not_json_is_catchable_exception   (Zn texts) ~ g_json t -> parse_json [EStr t] = Exception
   Values         parse_wf                   scal t -> parse t = Some v -> wf v = true
                  parse_render_fixpoint      scal t -> parse t = Some v -> parse (render v) = Some v
                  d_value / d_elems / d_members / d_chars : the grammar carrying the value each derivation stands for
                  parse_value_denotes, parse_denotes, parse_is_denotation : the parser returns exactly that value
                  d_value_functional         the value does not depend on the derivation
                  parse_ws_irrelevant        parse (w1 ++ p ++ w2) = parse p

   FINDING: soundness is FALSE without cpok: the parser accepts a raw element above 0x10FFFF inside a string
   (parse [34; 1114112; 34] = Some (JStr [1114112])) while the grammar's [unescaped] stops at 0x10FFFF
   (parse_unsound_without_cpok).  Nothing else separates the two: leading zeros, raw control characters, lone
   surrogate ESCAPES (accepted by both: the grammar allows any \uXXXX), trailing text all agree.
   Second remark: a RAW surrogate element (0xD800..0xDFFF) inside a string is in the grammar and is accepted, but the
   resulting value is not [wf]; hence [scal] in parse_wf (Zn texts are sequences of scalar values). *)
From Coq Require Import List ZArith Bool Lia Arith.
Import ListNotations.
From Zn.model Require Import Json JsonNum JsonGrammar.
From Zn.proofs Require Import JsonProofs JsonGrammarProofs JsonApiProofs.
Open Scope Z_scope.

Definition cpok (s : list Z) : Prop := Forall (fun c => c <= 0x10FFFF) s.
Definition scal (s : list Z) : Prop := Forall (fun c => scalarb c = true) s.

Ltac fa := unfold cpok, scal in *; repeat match goal with
  | H : Forall _ (_ ++ _) |- _ => apply Forall_app in H; destruct H
  | H : Forall _ (_ :: _) |- _ => apply Forall_cons_iff in H; destruct H
  end.

Ltac lnorm := repeat first [rewrite <- app_assoc | progress cbn [app]].

(* ---------------------------------------------------------------- white space *)
Lemma skip_ws_split : forall s, exists w, g_ws w /\ s = w ++ skip_ws s.
Proof.
  induction s as [| c s IH].
  - exists []. split; [constructor | reflexivity].
  - cbn [skip_ws]. destruct (is_ws c) eqn:E.
    + destruct IH as (w & Hw & Es). exists (c :: w). split; [constructor; assumption |].
      cbn [app]. rewrite <- Es. reflexivity.
    + exists []. split; [constructor | reflexivity].
Qed.

Lemma g_ws_app : forall a b, g_ws a -> g_ws b -> g_ws (a ++ b).
Proof. induction 1; intros Hb; cbn [app]; [assumption | constructor; auto]. Qed.

Lemma skip_ws_app : forall w s, g_ws w -> skip_ws (w ++ s) = skip_ws s.
Proof. induction 1 as [| c w Hc Hw IH]; cbn [app skip_ws]; [reflexivity | rewrite Hc; exact IH]. Qed.

Lemma pmap_ok2 : forall (A B : Type) (f : A -> B) p b r, pmap f p = POk b r -> exists a, p = POk a r /\ b = f a.
Proof. intros A B f [a r0 | |] b r H; cbn in H; [inversion H; subst; eauto | discriminate | discriminate]. Qed.

(* ---------------------------------------------------------------- numbers: soundness *)
Lemma span_digits_sound : forall s ds r, span_digits s = (ds, r) -> s = ds ++ r /\ all_digits ds = true.
Proof.
  induction s as [| c s IH]; intros ds r H; cbn [span_digits] in H.
  - inversion H; subst. split; reflexivity.
  - destruct (is_digit c) eqn:E.
    + destruct (span_digits s) as [ds' r'] eqn:E2. inversion H; subst.
      destruct (IH _ _ eq_refl) as [Hs Hd]. split; [cbn [app]; rewrite <- Hs; reflexivity |].
      cbn [all_digits forallb]. rewrite E. exact Hd.
    + inversion H; subst. split; reflexivity.
Qed.

Lemma parse_frac_sound : forall s fs r, parse_frac s = Some (fs, r) -> s = render_frac fs ++ r /\ all_digits fs = true.
Proof.
  intros s fs r H. unfold parse_frac in H. destruct s as [| c s0]; [inversion H; subst; split; reflexivity |].
  destruct (c =? 46) eqn:Ec.
  - destruct (span_digits s0) as [ds r'] eqn:E. apply span_digits_sound in E. destruct E as [Es Hd].
    destruct ds as [| d ds]; [discriminate |]. inversion H; subst. zb; subst. split; [reflexivity | assumption].
  - inversion H; subst. split; reflexivity.
Qed.

Lemma parse_exp_sound : forall s ex r, parse_exp s = Some (ex, r) -> s = render_exp ex ++ r /\ wf_exp ex = true.
Proof.
  intros s ex r H. unfold parse_exp in H. destruct s as [| c s0]; [inversion H; subst; split; reflexivity |].
  destruct ((c =? 101) || (c =? 69)) eqn:Ec.
  - destruct (match s0 with
              | [] => ([], s0)
              | x :: r0 => if (x =? 43) || (x =? 45) then ([x], r0) else ([], s0)
              end) as [sg r1] eqn:E1.
    assert (s0 = sg ++ r1 /\ match sg with [] => true | [x] => (x =? 43) || (x =? 45) | _ => false end = true) as [Hs0 Hsg].
    { destruct s0 as [| x r0]; [inversion E1; subst; split; reflexivity |].
      destruct ((x =? 43) || (x =? 45)) eqn:Ex; inversion E1; subst; split; try reflexivity. exact Ex. }
    destruct (span_digits r1) as [es r2] eqn:E2. apply span_digits_sound in E2. destruct E2 as [Hr1 Hes].
    destruct es as [| e es]; [discriminate |]. inversion H; subst. split.
    + cbn [render_exp]. lnorm. reflexivity.
    + cbn [wf_exp]. rewrite Ec, Hsg, Hes. reflexivity.
  - inversion H; subst. split; reflexivity.
Qed.

Lemma parse_num_sound : forall s t r, parse_num s = Some (t, r) -> s = render_num t ++ r /\ wf_num t = true.
Proof.
  intros s t r H. unfold parse_num in H.
  destruct (match s with
            | [] => (false, s)
            | c :: r0 => if c =? 45 then (true, r0) else (false, s)
            end) as [neg s1] eqn:E0.
  assert (s = (if neg then [45] else []) ++ s1) as Hs.
  { destruct s as [| c r0]; [inversion E0; subst; reflexivity |].
    destruct (c =? 45) eqn:Ec; inversion E0; subst; [zb; subst; reflexivity | reflexivity]. }
  destruct s1 as [| c r0]; [discriminate |].
  destruct (if c =? 48 then Some ([c], r0)
            else if is_digit19 c then (let (ds, r') := span_digits r0 in Some (c :: ds, r')) else None)
    as [[ds r1] |] eqn:E1; [| discriminate].
  assert (c :: r0 = ds ++ r1 /\ wf_int ds = true) as [Hi Hwi].
  { destruct (c =? 48) eqn:Ec.
    - inversion E1; subst. split; [reflexivity |]. cbn [wf_int]. rewrite Ec. reflexivity.
    - destruct (is_digit19 c) eqn:Ed; [| discriminate].
      destruct (span_digits r0) as [ds' r'] eqn:E. apply span_digits_sound in E. destruct E as [Er0 Hd].
      inversion E1; subst. split; [reflexivity |]. cbn [wf_int]. rewrite Ed, Hd. apply orb_true_r. }
  destruct (parse_frac r1) as [[fs r2] |] eqn:E2; [| discriminate]. apply parse_frac_sound in E2. destruct E2 as [Hr1 Hf].
  destruct (parse_exp r2) as [[ex r3] |] eqn:E3; [| discriminate]. apply parse_exp_sound in E3. destruct E3 as [Hr2 He].
  inversion H; subst. split.
  - unfold render_num. cbn [n_neg n_int n_frac n_exp]. rewrite Hi. lnorm. reflexivity.
  - unfold wf_num. cbn [n_neg n_int n_frac n_exp]. rewrite Hwi, Hf, He. reflexivity.
Qed.

Lemma strip_prefix_sound : forall p s r, strip_prefix p s = Some r -> s = p ++ r.
Proof.
  induction p as [| a p IH]; intros s r H; cbn [strip_prefix] in H.
  - inversion H; subst; reflexivity.
  - destruct s as [| b s0]; [discriminate |]. destruct (a =? b) eqn:E; [| discriminate].
    zb; subst. apply IH in H. subst. reflexivity.
Qed.

(* ---------------------------------------------------------------- strings: one step of parse_str *)
Lemma hexval_range : forall c x, hexval c = Some x -> 0 <= x < 16.
Proof.
  intros c x H. unfold hexval in H.
  destruct ((48 <=? c) && (c <=? 57)) eqn:E1; [inversion H; subst; zb; lia |].
  destruct ((97 <=? c) && (c <=? 102)) eqn:E2; [inversion H; subst; zb; lia |].
  destruct ((65 <=? c) && (c <=? 70)) eqn:E3; [inversion H; subst; zb; lia | discriminate].
Qed.

Lemma hex4_some : forall a b c d u, hex4 a b c d = Some u ->
  is_hex a && is_hex b && is_hex c && is_hex d = true /\ 0 <= u < 65536.
Proof.
  intros a b c d u H. unfold hex4 in H. unfold is_hex.
  destruct (hexval a) as [x |] eqn:Ea; [| discriminate].
  destruct (hexval b) as [y |] eqn:Eb; [| discriminate].
  destruct (hexval c) as [z |] eqn:Ec; [| discriminate].
  destruct (hexval d) as [w |] eqn:Ed; [| discriminate].
  apply hexval_range in Ea, Eb, Ec, Ed. inversion H; subst. split; [reflexivity | lia].
Qed.

Lemma hex4_is_hex : forall a b c d, is_hex a && is_hex b && is_hex c && is_hex d = true ->
  exists u, hex4 a b c d = Some u.
Proof.
  intros a b c d H. unfold is_hex in H. unfold hex4.
  destruct (hexval a); [| discriminate]. destruct (hexval b); [| discriminate].
  destruct (hexval c); [| discriminate]. destruct (hexval d); [| discriminate]. eauto.
Qed.

Lemma ocons_inv : forall c o k r, ocons c o = Some (k, r) -> exists k', o = Some (k', r) /\ k = c :: k'.
Proof. intros c [[l r0] |] k r H; cbn in H; [inversion H; subst; eauto | discriminate]. Qed.

Lemma parse_str_high : forall h1 h2 h3 h4 u r2, hex4 h1 h2 h3 h4 = Some u -> is_high u = true ->
  parse_str (92 :: 117 :: h1 :: h2 :: h3 :: h4 :: r2) = ocons RuneError (parse_str r2) \/
  exists g1 g2 g3 g4 r3 lo, r2 = 92 :: 117 :: g1 :: g2 :: g3 :: g4 :: r3 /\ hex4 g1 g2 g3 g4 = Some lo /\ is_low lo = true /\
    parse_str (92 :: 117 :: h1 :: h2 :: h3 :: h4 :: r2) = ocons (combine_sur u lo) (parse_str r3).
Proof.
  intros h1 h2 h3 h4 u r2 H Hh.
  cbn [parse_str]. change (92 =? 34) with false. change (92 =? 92) with true.
  change (117 =? 117) with true. cbn iota. rewrite H, Hh.
  destruct r2 as [| b [| u' [| g1 [| g2 [| g3 [| g4 r3]]]]]]; auto.
  destruct ((b =? 92) && (u' =? 117)) eqn:Eb; [| auto].
  destruct (hex4 g1 g2 g3 g4) as [lo |] eqn:Eg; [| auto].
  destruct (is_low lo) eqn:Elo; [| auto].
  right. zb; subst. exists g1, g2, g3, g4, r3, lo. auto.
Qed.

Lemma parse_str_low : forall h1 h2 h3 h4 u tl,
  hex4 h1 h2 h3 h4 = Some u -> is_high u = false -> is_low u = true ->
  parse_str (92 :: 117 :: h1 :: h2 :: h3 :: h4 :: tl) = ocons RuneError (parse_str tl).
Proof.
  intros h1 h2 h3 h4 u tl H Hh Hl.
  cbn [parse_str]. change (92 =? 34) with false. change (92 =? 92) with true.
  change (117 =? 117) with true. cbn iota. rewrite H, Hh, Hl. reflexivity.
Qed.

Lemma unescaped_intro : forall c, 32 <= c <= 0x10FFFF -> c <> 34 -> c <> 92 -> unescaped c = true.
Proof.
  intros c H H1 H2. unfold unescaped.
  assert (32 <= c <= 33 \/ 35 <= c <= 91 \/ 93 <= c <= 1114111) as [D | [D | D]] by lia.
  - apply orb_true_intro. left. apply orb_true_intro. left. apply andb_true_intro. split; apply Z.leb_le; lia.
  - apply orb_true_intro. left. apply orb_true_intro. right. apply andb_true_intro. split; apply Z.leb_le; lia.
  - apply orb_true_intro. right. apply andb_true_intro. split; apply Z.leb_le; lia.
Qed.

Lemma unescaped_elim : forall c, unescaped c = true -> 32 <= c <= 0x10FFFF /\ c <> 34 /\ c <> 92.
Proof.
  intros c H. unfold unescaped in H.
  apply orb_prop in H. destruct H as [H | H]; [apply orb_prop in H; destruct H as [H | H] |]; zb; lia.
Qed.

Lemma scalarb_intro : forall c, 0 <= c < 0xD800 \/ 0xE000 <= c < 0x110000 -> scalarb c = true.
Proof.
  intros c [H | H]; unfold scalarb; apply orb_true_intro; [left | right];
    (apply andb_true_intro; split; [apply Z.leb_le | apply Z.ltb_lt]; lia).
Qed.

Lemma simple_escape_some : forall e ch, simple_escape e = Some ch ->
  escapable e = true /\ scalarb ch = true /\ (e =? 117) = false.
Proof.
  intros e ch H. unfold simple_escape in H.
  destruct (e =? 34) eqn:E1; [inversion H; zb; subst; repeat split; reflexivity |].
  destruct (e =? 92) eqn:E2; [inversion H; zb; subst; repeat split; reflexivity |].
  destruct (e =? 47) eqn:E3; [inversion H; zb; subst; repeat split; reflexivity |].
  destruct (e =? 98) eqn:E4; [inversion H; zb; subst; repeat split; reflexivity |].
  destruct (e =? 102) eqn:E5; [inversion H; zb; subst; repeat split; reflexivity |].
  destruct (e =? 110) eqn:E6; [inversion H; zb; subst; repeat split; reflexivity |].
  destruct (e =? 114) eqn:E7; [inversion H; zb; subst; repeat split; reflexivity |].
  destruct (e =? 116) eqn:E8; [inversion H; zb; subst; repeat split; reflexivity | discriminate].
Qed.

Lemma escapable_simple : forall e, escapable e = true -> exists ch, simple_escape e = Some ch /\ (e =? 117) = false.
Proof.
  intros e H. unfold escapable in H.
  repeat (apply orb_prop in H; destruct H as [H | H]); zb; subst; eexists; split; reflexivity.
Qed.

Lemma g_chars_one : forall x, g_char x -> g_chars x.
Proof. intros x H. rewrite <- (app_nil_r x). apply g_chars_app; [assumption | constructor]. Qed.

Lemma g_chars_app2 : forall a b, g_chars a -> g_chars b -> g_chars (a ++ b).
Proof.
  induction 1 as [| x s Hx Hs IH]; intros Hb; [exact Hb |].
  rewrite <- app_assoc. apply g_chars_app; auto.
Qed.

(* one step: either the closing quote, or one character [ch] of the result spelled by [c :: x'] (one char, one
   escape, or a surrogate pair of escapes) *)
Lemma parse_str_step : forall c r0 k r, parse_str (c :: r0) = Some (k, r) ->
  (c = 34 /\ k = [] /\ r = r0) \/
  exists x' tl ch k', r0 = x' ++ tl /\ (c <= 0x10FFFF -> g_chars (c :: x')) /\ (scalarb c = true -> scalarb ch = true)
     /\ parse_str tl = Some (k', r) /\ k = ch :: k'.
Proof.
  intros c r0 k r H.
  destruct (c =? 34) eqn:E34.
  { left. cbn [parse_str] in H. rewrite E34 in H. inversion H; zb; subst; auto. }
  right.
  destruct (c =? 92) eqn:E92.
  2:{ cbn [parse_str] in H. rewrite E34, E92 in H. destruct (c <? 32) eqn:E32; [discriminate |].
      apply ocons_inv in H. destruct H as (k' & Hk & ->). exists [], r0, c, k'.
      split; [reflexivity |]. split; [| split; [auto | split; [assumption | reflexivity]]].
      intros Hc. apply g_chars_one. apply g_unescaped. zb. apply unescaped_intro; lia. }
  zb; subst c.
  destruct r0 as [| e r1]; [discriminate |].
  destruct (e =? 117) eqn:E117.
  2:{ cbn [parse_str] in H. change (92 =? 34) with false in H. change (92 =? 92) with true in H. cbn iota in H.
      rewrite E117 in H. destruct (simple_escape e) as [ch |] eqn:Ese; [| discriminate].
      apply ocons_inv in H. destruct H as (k' & Hk & ->). apply simple_escape_some in Ese. destruct Ese as (He & Hch & _).
      exists [e], r1, ch, k'. split; [reflexivity |]. split; [| split; [auto | split; [assumption | reflexivity]]].
      intros _. apply g_chars_one. apply g_escape. assumption. }
  zb; subst e.
  destruct r1 as [| h1 [| h2 [| h3 [| h4 r2]]]]; try discriminate.
  destruct (hex4 h1 h2 h3 h4) as [u |] eqn:Eh.
  2:{ cbn [parse_str] in H. change (92 =? 34) with false in H. change (92 =? 92) with true in H.
      change (117 =? 117) with true in H. cbn iota in H. rewrite Eh in H. discriminate. }
  destruct (hex4_some _ _ _ _ _ Eh) as [Hhex Hu].
  assert (g_char [92; 117; h1; h2; h3; h4]) as Hg1 by (apply g_uescape; assumption).
  destruct (is_high u) eqn:Ehi.
  - destruct (parse_str_high h1 h2 h3 h4 u r2 Eh Ehi) as [E | (g1 & g2 & g3 & g4 & r3 & lo & Er2 & Eg & Elo & E)];
      rewrite E in H; apply ocons_inv in H; destruct H as (k' & Hk & ->).
    + exists [117; h1; h2; h3; h4], r2, RuneError, k'. split; [reflexivity |].
      split; [intros _; apply g_chars_one; assumption |]. split; [intros _; reflexivity | split; [assumption | reflexivity]].
    + subst r2. destruct (hex4_some _ _ _ _ _ Eg) as [Hhex2 Hlo].
      exists [117; h1; h2; h3; h4; 92; 117; g1; g2; g3; g4], r3, (combine_sur u lo), k'. split; [reflexivity |].
      split; [| split; [| split; [assumption | reflexivity]]].
      * intros _. change (92 :: [117; h1; h2; h3; h4; 92; 117; g1; g2; g3; g4])
          with ([92; 117; h1; h2; h3; h4] ++ [92; 117; g1; g2; g3; g4]).
        apply g_chars_app; [assumption |]. apply g_chars_one. apply g_uescape. assumption.
      * intros _. unfold is_high in Ehi. unfold is_low in Elo. zb. apply scalarb_intro. unfold combine_sur. lia.
  - destruct (is_low u) eqn:Elo.
    + rewrite (parse_str_low _ _ _ _ _ _ Eh Ehi Elo) in H. apply ocons_inv in H. destruct H as (k' & Hk & ->).
      exists [117; h1; h2; h3; h4], r2, RuneError, k'. split; [reflexivity |].
      split; [intros _; apply g_chars_one; assumption |]. split; [intros _; reflexivity | split; [assumption | reflexivity]].
    + rewrite (parse_str_u _ _ _ _ _ _ Eh Ehi Elo) in H. apply ocons_inv in H. destruct H as (k' & Hk & ->).
      exists [117; h1; h2; h3; h4], r2, u, k'. split; [reflexivity |].
      split; [intros _; apply g_chars_one; assumption |]. split; [| split; [assumption | reflexivity]].
      intros _. unfold is_high in Ehi. unfold is_low in Elo. apply scalarb_intro.
      apply andb_false_iff in Ehi. apply andb_false_iff in Elo.
      destruct Ehi as [Ehi | Ehi]; destruct Elo as [Elo | Elo]; zb; lia.
Qed.

Lemma parse_str_sound_aux : forall n s, (length s <= n)%nat -> forall k r, parse_str s = Some (k, r) ->
  exists body, s = body ++ 34 :: r /\ (cpok body -> g_chars body) /\ (scal body -> forallb scalarb k = true).
Proof.
  induction n as [| n IH]; intros s Hn k r H.
  - destruct s; [discriminate | cbn in Hn; lia].
  - destruct s as [| c r0]; [discriminate |].
    destruct (parse_str_step c r0 k r H) as [(-> & -> & ->) | (x' & tl & ch & k' & -> & Hg & Hs & Htl & ->)].
    + exists []. split; [reflexivity |]. split; intros _; [constructor | reflexivity].
    + cbn [length] in Hn. rewrite app_length in Hn.
      destruct (IH tl ltac:(lia) k' r Htl) as (body & -> & Hgb & Hsb).
      exists (c :: x' ++ body). split; [lnorm; reflexivity |]. split.
      * intros Hc. change (c :: x' ++ body) with ((c :: x') ++ body). fa.
        apply g_chars_app2; [apply Hg; assumption | apply Hgb; assumption].
      * intros Hc. fa. cbn [forallb]. rewrite Hs by assumption. apply Hsb. assumption.
Qed.

Lemma parse_str_sound : forall s k r, parse_str s = Some (k, r) ->
  exists body, s = body ++ 34 :: r /\ (cpok body -> g_chars body) /\ (scal body -> forallb scalarb k = true).
Proof. intros s k r H. exact (parse_str_sound_aux (length s) s (le_n _) k r H). Qed.

(* ---------------------------------------------------------------- values: soundness *)
(* what a value parser returns: the consumed text is white space followed by a value of the grammar (when its
   elements are code points), and the value is well formed (when they are scalar values) *)
Definition pv_sound (pv : list Z -> pres jv) : Prop :=
  forall s v r, pv s = POk v r ->
    exists w p, s = w ++ p ++ r /\ g_ws w /\ (cpok p -> g_value p) /\ (scal p -> wf v = true).

Lemma parse_elems_sound : forall pv, pv_sound pv -> forall n s l r, parse_elems pv n s = POk l r ->
  exists body, s = body ++ 93 :: r /\ (cpok body -> g_elems body) /\ (scal body -> forallb wf l = true).
Proof.
  intros pv Hpv. induction n as [| n IH]; intros s l r H; [discriminate |].
  cbn [parse_elems] in H.
  destruct (pv s) as [v r1 | |] eqn:E; [| discriminate | discriminate].
  destruct (Hpv _ _ _ E) as (w & p & Es & Hw & Hg & Hwf).
  destruct (skip_ws_split r1) as (w2 & Hw2 & Er1).
  destruct (skip_ws r1) as [| c r'] eqn:Esk; [discriminate |].
  destruct (c =? 44) eqn:E44.
  - apply pmap_ok2 in H. destruct H as (l' & H & ->). zb; subst c.
    destruct (IH _ _ _ H) as (body' & Er' & Hgb & Hwb).
    exists (w ++ p ++ w2 ++ 44 :: body'). split; [subst; lnorm; reflexivity |]. split.
    + intros Hc. fa. apply g_elems_more; auto.
    + intros Hc. fa. cbn [forallb]. rewrite Hwf by assumption. apply Hwb. assumption.
  - destruct (c =? 93) eqn:E93; [| discriminate]. inversion H; subst l r'. zb; subst c.
    exists (w ++ p ++ w2). split; [subst; lnorm; reflexivity |]. split.
    + intros Hc. fa. apply g_elems_one; auto.
    + intros Hc. fa. cbn [forallb]. rewrite Hwf by assumption. reflexivity.
Qed.

Lemma parse_members_sound : forall pv, pv_sound pv -> forall n s m r, parse_members pv n s = POk m r ->
  exists body, s = body ++ 125 :: r /\ (cpok body -> g_members body) /\
    (scal body -> forallb (fun kv => forallb scalarb (fst kv) && wf (snd kv)) m = true).
Proof.
  intros pv Hpv. induction n as [| n IH]; intros s m r H; [discriminate |].
  cbn [parse_members] in H.
  destruct (skip_ws_split s) as (w1 & Hw1 & Es).
  destruct (skip_ws s) as [| c r0] eqn:Esk0; [discriminate |].
  destruct (c =? 34) eqn:E34; [| discriminate]. zb; subst c.
  destruct (parse_str r0) as [[k r1] |] eqn:Ek; [| discriminate].
  destruct (parse_str_sound _ _ _ Ek) as (kb & Er0 & Hgk & Hsk).
  destruct (skip_ws_split r1) as (w2 & Hw2 & Er1).
  destruct (skip_ws r1) as [| c2 r2] eqn:Esk1; [discriminate |].
  destruct (c2 =? 58) eqn:E58; [| discriminate]. zb; subst c2.
  destruct (pv r2) as [v r3 | |] eqn:E; [| discriminate | discriminate].
  destruct (Hpv _ _ _ E) as (w3 & p & Er2 & Hw3 & Hg & Hwf).
  destruct (skip_ws_split r3) as (w4 & Hw4 & Er3).
  destruct (skip_ws r3) as [| c3 r4] eqn:Esk3; [discriminate |].
  destruct (c3 =? 44) eqn:E44.
  - apply pmap_ok2 in H. destruct H as (m' & H & ->). zb; subst c3.
    destruct (IH _ _ _ H) as (body' & Er4 & Hgb & Hwb).
    exists (w1 ++ (34 :: kb ++ [34]) ++ w2 ++ 58 :: w3 ++ p ++ w4 ++ 44 :: body').
    split; [subst; lnorm; reflexivity |]. split.
    + intros Hc. fa. apply g_members_more; auto. apply g_str. auto.
    + intros Hc. fa. cbn [forallb fst snd]. rewrite Hsk by assumption. rewrite Hwf by assumption. apply Hwb. assumption.
  - destruct (c3 =? 125) eqn:E125; [| discriminate]. inversion H; subst m r4. zb; subst c3.
    exists (w1 ++ (34 :: kb ++ [34]) ++ w2 ++ 58 :: w3 ++ p ++ w4).
    split; [subst; lnorm; reflexivity |]. split.
    + intros Hc. fa. apply g_members_one; auto. apply g_str. auto.
    + intros Hc. fa. cbn [forallb fst snd]. rewrite Hsk by assumption. rewrite Hwf by assumption. reflexivity.
Qed.

Lemma parse_value_sound : forall f, pv_sound (parse_value f).
Proof.
  induction f as [| f IH]; intros s v r H; [discriminate |].
  cbn [parse_value] in H.
  destruct (skip_ws_split s) as (w & Hw & Es).
  destruct (skip_ws s) as [| c r0] eqn:Esk; [discriminate |].
  exists w.
  destruct (c =? 123) eqn:E123.
  { zb; subst c. destruct (skip_ws_split r0) as (w' & Hw' & Er0).
    destruct (skip_ws r0) as [| c' r'] eqn:Esk1; [discriminate |].
    destruct (c' =? 125) eqn:E125.
    - inversion H; subst v r'. zb; subst c'. exists (123 :: w' ++ [125]).
      split; [subst; lnorm; reflexivity |]. split; [assumption |]. split; intros _; [apply g_obj_empty; assumption | reflexivity].
    - apply pmap_ok2 in H. destruct H as (m & H & ->).
      destruct (parse_members_sound _ IH _ _ _ _ H) as (body & Eb & Hg & Hwf).
      exists (123 :: body ++ [125]). split; [rewrite Es, Eb; lnorm; reflexivity |]. split; [assumption |]. split.
      + intros Hc. fa. apply g_obj. auto.
      + intros Hc. fa. cbn [wf]. auto. }
  destruct (c =? 91) eqn:E91.
  { zb; subst c. destruct (skip_ws_split r0) as (w' & Hw' & Er0).
    destruct (skip_ws r0) as [| c' r'] eqn:Esk1; [discriminate |].
    destruct (c' =? 93) eqn:E93.
    - inversion H; subst v r'. zb; subst c'. exists (91 :: w' ++ [93]).
      split; [subst; lnorm; reflexivity |]. split; [assumption |]. split; intros _; [apply g_arr_empty; assumption | reflexivity].
    - apply pmap_ok2 in H. destruct H as (l & H & ->).
      destruct (parse_elems_sound _ IH _ _ _ _ H) as (body & Eb & Hg & Hwf).
      exists (91 :: body ++ [93]). split; [rewrite Es, Eb; lnorm; reflexivity |]. split; [assumption |]. split.
      + intros Hc. fa. apply g_arr. auto.
      + intros Hc. fa. cbn [wf]. auto. }
  destruct (c =? 34) eqn:E34.
  { zb; subst c. apply pmap_ok2 in H. destruct H as (k & H & ->).
    destruct (parse_str r0) as [[k' r1] |] eqn:Ek; [| discriminate]. cbn [of_opt] in H. inversion H; subst k' r1.
    destruct (parse_str_sound _ _ _ Ek) as (body & Eb & Hg & Hs).
    exists (34 :: body ++ [34]). split; [rewrite Es, Eb; lnorm; reflexivity |]. split; [assumption |]. split.
    - intros Hc. fa. apply g_val_str. apply g_str. auto.
    - intros Hc. fa. cbn [wf]. auto. }
  assert (forall (lit : list Z) (b : jv), g_value lit -> wf b = true ->
     pmap (fun _ : unit => b) (of_opt (option_map (fun r1 => (tt, r1)) (strip_prefix lit (c :: r0)))) = POk v r ->
     exists p, s = w ++ p ++ r /\ g_ws w /\ (cpok p -> g_value p) /\ (scal p -> wf v = true)) as Hlit.
  { intros lit b Hgl Hwb Hp. apply pmap_ok2 in Hp. destruct Hp as (a & Hp & ->).
    destruct (strip_prefix lit (c :: r0)) as [r1 |] eqn:El; [| discriminate]. cbn in Hp. inversion Hp; subst r1.
    apply strip_prefix_sound in El. exists lit. split; [rewrite Es, El; reflexivity |]. auto. }
  destruct (c =? 116) eqn:E116; [exact (Hlit lit_true (JBool true) g_true eq_refl H) |].
  destruct (c =? 102) eqn:E102; [exact (Hlit lit_false (JBool false) g_false eq_refl H) |].
  destruct (c =? 110) eqn:E110; [exact (Hlit lit_null JNull g_null eq_refl H) |].
  apply pmap_ok2 in H. destruct H as (t & H & ->).
  destruct (parse_num (c :: r0)) as [[t' r1] |] eqn:En; [| discriminate]. cbn [of_opt] in H. inversion H; subst t' r1.
  apply parse_num_sound in En. destruct En as [En Hwn].
  exists (render_num t). split; [rewrite Es, En; reflexivity |]. split; [assumption |]. split; intros _.
  - apply g_val_num. apply g_num. assumption.
  - exact Hwn.
Qed.

(* GOAL 1, embedded form *)
Theorem parse_value_sound_grammar : forall fuel s v rest, cpok s -> parse_value fuel s = POk v rest ->
  exists w p, s = w ++ p ++ rest /\ g_ws w /\ g_value p.
Proof.
  intros fuel s v rest Hc H. destruct (parse_value_sound fuel s v rest H) as (w & p & Es & Hw & Hg & _).
  exists w, p. split; [assumption |]. split; [assumption |]. apply Hg. subst s. fa. assumption.
Qed.

Lemma parse_inv : forall t v, parse t = Some v ->
  exists w p w2, t = w ++ p ++ w2 /\ g_ws w /\ g_ws w2 /\ (cpok p -> g_value p) /\ (scal p -> wf v = true).
Proof.
  intros t v H. unfold parse, parse_text in H.
  destruct (parse_value (S (length t)) t) as [v' r | |] eqn:E; [| discriminate | discriminate].
  destruct (skip_ws_split r) as (w2 & Hw2 & Er).
  destruct (skip_ws r) as [| c r'] eqn:Esk; [| discriminate]. inversion H; subst v'.
  destruct (parse_value_sound _ _ _ _ E) as (w & p & Es & Hw & Hg & Hwf).
  exists w, p, w2. rewrite app_nil_r in Er. subst r. auto.
Qed.

(* GOAL 1 *)
Theorem parse_sound : forall t v, cpok t -> parse t = Some v -> g_json t.
Proof.
  intros t v Hc H. destruct (parse_inv t v H) as (w & p & w2 & Es & Hw & Hw2 & Hg & _).
  exists w, p, w2. subst t. fa. auto.
Qed.

(* GOAL 3, first half *)
Theorem parse_wf : forall t v, scal t -> parse t = Some v -> wf v = true.
Proof.
  intros t v Hc H. destruct (parse_inv t v H) as (w & p & w2 & Es & Hw & Hw2 & _ & Hwf).
  subst t. fa. auto.
Qed.

Theorem parse_render_fixpoint : forall t v, scal t -> parse t = Some v -> parse (render v) = Some v.
Proof. intros t v Hc H. apply parse_render. exact (parse_wf t v Hc H). Qed.

(* ====================================================================== *)
(* Completeness: every text of the grammar is accepted                     *)
(* ====================================================================== *)
Scheme g_value_min := Minimality for g_value Sort Prop
  with g_elems_min := Minimality for g_elems Sort Prop
  with g_members_min := Minimality for g_members Sort Prop.
Combined Scheme g_mutind from g_value_min, g_elems_min, g_members_min.

(* ---------------------------------------------------------------- strings *)
Lemma g_char_nonempty : forall x, g_char x -> (0 < length x)%nat.
Proof. destruct 1; cbn [length]; lia. Qed.

Lemma g_chars_inv : forall s, g_chars s -> s = [] \/ exists x s', s = x ++ s' /\ g_char x /\ g_chars s'.
Proof. destruct 1 as [| x s Hx Hs]; [left; reflexivity | right; eauto]. Qed.

Lemma g_chars_u_inv : forall s rest g1 g2 g3 g4 r3, g_chars s ->
  s ++ 34 :: rest = 92 :: 117 :: g1 :: g2 :: g3 :: g4 :: r3 ->
  exists s', s = 92 :: 117 :: g1 :: g2 :: g3 :: g4 :: s' /\ g_chars s' /\ r3 = s' ++ 34 :: rest.
Proof.
  intros s rest g1 g2 g3 g4 r3 H E. destruct H as [| x s0 Hx Hs]; [discriminate |].
  destruct Hx as [c Hc | e He | a b c d Hh]; cbn [app] in E.
  - inversion E; subst. discriminate.
  - inversion E; subst. discriminate.
  - inversion E; subst. exists s0. auto.
Qed.

Lemma parse_str_high_pair : forall h1 h2 h3 h4 u g1 g2 g3 g4 lo r3,
  hex4 h1 h2 h3 h4 = Some u -> is_high u = true -> hex4 g1 g2 g3 g4 = Some lo -> is_low lo = true ->
  parse_str (92 :: 117 :: h1 :: h2 :: h3 :: h4 :: 92 :: 117 :: g1 :: g2 :: g3 :: g4 :: r3)
  = ocons (combine_sur u lo) (parse_str r3).
Proof.
  intros h1 h2 h3 h4 u g1 g2 g3 g4 lo r3 H Hh Hg Hl.
  cbn [parse_str]. change (92 =? 34) with false. change (92 =? 92) with true.
  change (117 =? 117) with true. cbn iota. rewrite H, Hh. cbn [andb]. rewrite Hg, Hl. reflexivity.
Qed.

Lemma parse_str_high_lone : forall h1 h2 h3 h4 u r2, hex4 h1 h2 h3 h4 = Some u -> is_high u = true ->
  (forall g1 g2 g3 g4 r3 lo, r2 = 92 :: 117 :: g1 :: g2 :: g3 :: g4 :: r3 -> hex4 g1 g2 g3 g4 = Some lo -> is_low lo = false) ->
  parse_str (92 :: 117 :: h1 :: h2 :: h3 :: h4 :: r2) = ocons RuneError (parse_str r2).
Proof.
  intros h1 h2 h3 h4 u r2 H Hh Hno.
  destruct (parse_str_high h1 h2 h3 h4 u r2 H Hh) as [E | (g1 & g2 & g3 & g4 & r3 & lo & Er2 & Eg & Elo & E)]; [exact E |].
  rewrite (Hno _ _ _ _ _ _ Er2 Eg) in Elo. discriminate.
Qed.

(* The characters a string body stands for (RFC 8259 section 7, with encoding/json's treatment of \u escapes that are
   surrogates: a high one immediately followed by a low one is the pair's code point, any other is U+FFFD).
   Written from that description; shared with the parser: the tables hex4, simple_escape, is_high/is_low, combine_sur. *)
Definition starts_low (s : list Z) : Prop :=
  exists g1 g2 g3 g4 r3 lo, s = 92 :: 117 :: g1 :: g2 :: g3 :: g4 :: r3 /\ hex4 g1 g2 g3 g4 = Some lo /\ is_low lo = true.

Inductive d_chars : list Z -> list Z -> Prop :=
| dc_nil : d_chars [] []
| dc_raw : forall c s k, unescaped c = true -> d_chars s k -> d_chars (c :: s) (c :: k)
| dc_esc : forall e ch s k, simple_escape e = Some ch -> d_chars s k -> d_chars (92 :: e :: s) (ch :: k)
| dc_u : forall a b c d u s k, hex4 a b c d = Some u -> is_high u = false -> is_low u = false ->
    d_chars s k -> d_chars (92 :: 117 :: a :: b :: c :: d :: s) (u :: k)
| dc_pair : forall h1 h2 h3 h4 hi g1 g2 g3 g4 lo s k,
    hex4 h1 h2 h3 h4 = Some hi -> is_high hi = true -> hex4 g1 g2 g3 g4 = Some lo -> is_low lo = true ->
    d_chars s k ->
    d_chars (92 :: 117 :: h1 :: h2 :: h3 :: h4 :: 92 :: 117 :: g1 :: g2 :: g3 :: g4 :: s) (combine_sur hi lo :: k)
| dc_lone_low : forall a b c d u s k, hex4 a b c d = Some u -> is_low u = true ->
    d_chars s k -> d_chars (92 :: 117 :: a :: b :: c :: d :: s) (RuneError :: k)
| dc_lone_high : forall a b c d u s k, hex4 a b c d = Some u -> is_high u = true -> ~ starts_low s ->
    d_chars s k -> d_chars (92 :: 117 :: a :: b :: c :: d :: s) (RuneError :: k).

Lemma g_uescape_hex4 : forall a b c d u, hex4 a b c d = Some u -> g_char [92; 117; a; b; c; d].
Proof. intros a b c d u H. apply g_uescape. exact (proj1 (hex4_some _ _ _ _ _ H)). Qed.

Lemma d_chars_g : forall s k, d_chars s k -> g_chars s.
Proof.
  induction 1 as [| c s k Hc _ IH | e ch s k He _ IH | a b c d u s k Hu _ _ _ IH
                  | h1 h2 h3 h4 hi g1 g2 g3 g4 lo s k Hh _ Hg _ _ IH | a b c d u s k Hu _ _ IH | a b c d u s k Hu _ _ _ IH].
  - constructor.
  - apply (g_chars_app [c]); [apply g_unescaped; assumption | assumption].
  - apply (g_chars_app [92; e]); [| assumption]. apply g_escape. exact (proj1 (simple_escape_some _ _ He)).
  - apply (g_chars_app [92; 117; a; b; c; d]); [exact (g_uescape_hex4 _ _ _ _ _ Hu) | assumption].
  - apply (g_chars_app [92; 117; h1; h2; h3; h4]); [exact (g_uescape_hex4 _ _ _ _ _ Hh) |].
    apply (g_chars_app [92; 117; g1; g2; g3; g4]); [exact (g_uescape_hex4 _ _ _ _ _ Hg) | assumption].
  - apply (g_chars_app [92; 117; a; b; c; d]); [exact (g_uescape_hex4 _ _ _ _ _ Hu) | assumption].
  - apply (g_chars_app [92; 117; a; b; c; d]); [exact (g_uescape_hex4 _ _ _ _ _ Hu) | assumption].
Qed.

(* every string body of the grammar stands for some characters *)
Lemma g_chars_d_aux : forall n body, (length body <= n)%nat -> g_chars body -> exists k, d_chars body k.
Proof.
  induction n as [| n IH]; intros body Hn Hg.
  - destruct body; [| cbn in Hn; lia]. exists []. constructor.
  - destruct (g_chars_inv body Hg) as [-> | (x & s' & -> & Hx & Hs')]; [exists []; constructor |].
    pose proof (g_char_nonempty x Hx) as Hlen. rewrite app_length in Hn.
    destruct (IH s' ltac:(lia) Hs') as (k & Hk).
    destruct Hx as [c Hc | e He | a b c d Hh]; cbn [app].
    + exists (c :: k). apply dc_raw; assumption.
    + destruct (escapable_simple e He) as (ch & Hch & Hu). exists (ch :: k). apply dc_esc; assumption.
    + destruct (hex4_is_hex _ _ _ _ Hh) as (u & Eh). cbn [length] in Hn.
      destruct (is_high u) eqn:Ehi.
      2:{ destruct (is_low u) eqn:Elo.
          - exists (RuneError :: k). apply (dc_lone_low a b c d u); assumption.
          - exists (u :: k). apply dc_u; assumption. }
      destruct (g_chars_inv s' Hs') as [-> | (y & s'' & -> & Hy & Hs'')].
      * exists (RuneError :: k). apply (dc_lone_high a b c d u); try assumption.
        intros (g1 & g2 & g3 & g4 & r3 & lo & E & _). discriminate.
      * destruct Hy as [c' Hc' | e' He' | a' b' c' d' Hh'].
        -- exists (RuneError :: k). apply (dc_lone_high a b c d u); try assumption.
           intros (g1 & g2 & g3 & g4 & r3 & lo & E & _). inversion E; subst. discriminate.
        -- exists (RuneError :: k). apply (dc_lone_high a b c d u); try assumption.
           intros (g1 & g2 & g3 & g4 & r3 & lo & E & _). inversion E; subst. discriminate.
        -- destruct (hex4_is_hex _ _ _ _ Hh') as (lo & Eg).
           destruct (is_low lo) eqn:Elo.
           ++ rewrite app_length in Hn. cbn [length] in Hn.
              destruct (IH s'' ltac:(lia) Hs'') as (k2 & Hk2).
              exists (combine_sur u lo :: k2). cbn [app]. apply dc_pair; assumption.
           ++ exists (RuneError :: k). apply (dc_lone_high a b c d u); try assumption.
              intros (g1 & g2 & g3 & g4 & r3 & lo' & E & Eg' & Elo'). inversion E; subst.
              rewrite Eg in Eg'. inversion Eg'; subst. rewrite Elo in Elo'. discriminate.
Qed.

Lemma g_chars_d : forall body, g_chars body -> exists k, d_chars body k.
Proof. intros body H. exact (g_chars_d_aux (length body) body (le_n _) H). Qed.

(* what parse_str reads up to the closing quote, whatever follows it *)
Definition str_val (body k : list Z) : Prop := forall rest, parse_str (body ++ 34 :: rest) = Some (k, rest).

Lemma low_not_high : forall u, is_low u = true -> is_high u = false.
Proof. intros u H. unfold is_low in H. unfold is_high. zb. apply andb_false_intro2. apply Z.ltb_ge. lia. Qed.

Lemma d_chars_str_val : forall s k, d_chars s k -> str_val s k.
Proof.
  induction 1 as [| c s k Hc Hd IH | e ch s k He Hd IH | a b c d u s k Hu Hhi Hlo Hd IH
                  | h1 h2 h3 h4 hi g1 g2 g3 g4 lo s k Hh Hhi Hg Hlo Hd IH | a b c d u s k Hu Hlo Hd IH
                  | a b c d u s k Hu Hhi Hns Hd IH]; unfold str_val in *; intros rest; cbn [app].
  - reflexivity.
  - apply unescaped_elim in Hc. destruct Hc as (Hr & H34 & H92).
    rewrite parse_str_raw; [rewrite IH; reflexivity | | |].
    + apply Z.eqb_neq; assumption.
    + apply Z.eqb_neq; assumption.
    + apply Z.ltb_ge; lia.
  - rewrite (parse_str_simple e ch); [rewrite IH; reflexivity | assumption |].
    exact (proj2 (proj2 (simple_escape_some _ _ He))).
  - rewrite (parse_str_u _ _ _ _ _ _ Hu Hhi Hlo). rewrite IH. reflexivity.
  - rewrite (parse_str_high_pair _ _ _ _ _ _ _ _ _ _ _ Hh Hhi Hg Hlo). rewrite IH. reflexivity.
  - rewrite (parse_str_low _ _ _ _ _ _ Hu (low_not_high _ Hlo) Hlo). rewrite IH. reflexivity.
  - rewrite (parse_str_high_lone _ _ _ _ _ _ Hu Hhi); [rewrite IH; reflexivity |].
    intros g1 g2 g3 g4 r3 lo E Eg. destruct (is_low lo) eqn:Elo; [| reflexivity]. exfalso. apply Hns.
    destruct (g_chars_u_inv _ _ _ _ _ _ _ (d_chars_g _ _ Hd) E) as (s' & Es & _ & _).
    exists g1, g2, g3, g4, s', lo. auto.
Qed.

(* ---------------------------------------------------------------- first characters *)
Lemma g_value_head : forall v, g_value v -> exists c tl, v = c :: tl /\ value_start c = true.
Proof.
  intros v H. destruct H as [| | | s Hn | s Hs | w Hw | body Hb | w Hw | body Hb];
    try (eexists; eexists; split; [reflexivity | reflexivity]).
  - destruct Hn as [t Ht]. destruct (render_num_head t [] Ht) as (c & tl & E & Hc). rewrite app_nil_r in E.
    exists c, tl. split; [exact E |].
    unfold value_start, is_ws. apply orb_prop in Hc. unfold is_digit in Hc.
    assert (c = 45 \/ 48 <= c <= 57) as Hr by (destruct Hc; zb; lia).
    repeat (apply andb_true_intro; split); apply negb_true_iff;
      repeat apply orb_false_intro; apply Z.eqb_neq; lia.
  - destruct Hs as [body Hb]. eexists; eexists; split; [reflexivity | reflexivity].
Qed.

Lemma g_elems_head : forall body t, g_elems body ->
  exists c r', skip_ws (body ++ t) = c :: r' /\ (c =? 93) = false.
Proof.
  intros body t H.
  assert (forall w1 v tl, g_ws w1 -> g_value v -> exists c r', skip_ws (w1 ++ v ++ tl) = c :: r' /\ (c =? 93) = false) as A.
  { intros w1 v tl Hw Hv. rewrite skip_ws_app by assumption.
    destruct (g_value_head v Hv) as (c & tl' & -> & Hc). destruct (value_start_props c Hc) as (Hws & H93 & _).
    exists c, (tl' ++ tl). split; [cbn [app]; apply skip_ws_nows; assumption | assumption]. }
  destruct H as [w1 v w2 Hw1 Hv Hw2 | w1 v w2 rest Hw1 Hv Hw2 Hr].
  - rewrite <- !app_assoc. apply A; assumption.
  - rewrite <- !app_assoc. apply A; assumption.
Qed.

Lemma g_members_head : forall body t, g_members body ->
  exists r', skip_ws (body ++ t) = 34 :: r'.
Proof.
  intros body t H.
  assert (forall w1 k tl, g_ws w1 -> g_string k -> exists r', skip_ws (w1 ++ k ++ tl) = 34 :: r') as A.
  { intros w1 k tl Hw Hk. rewrite skip_ws_app by assumption. destruct Hk as [kb Hkb].
    eexists. cbn [app]. apply skip_ws_nows. reflexivity. }
  destruct H as [w1 k w2 w3 v w4 Hw1 Hk | w1 k w2 w3 v w4 rest Hw1 Hk].
  - rewrite <- !app_assoc. apply A; assumption.
  - rewrite <- !app_assoc. apply A; assumption.
Qed.

Lemma parse_value_skip : forall f w s, g_ws w -> parse_value f (w ++ s) = parse_value f s.
Proof. intros [| f] w s H; [reflexivity |]. cbn [parse_value]. rewrite skip_ws_app by assumption. reflexivity. Qed.

Lemma followb_ws : forall w s, g_ws w -> followb s = true -> followb (w ++ s) = true.
Proof.
  intros w s H Hs. destruct H as [| c w Hc Hw]; [exact Hs |].
  cbn [app followb]. rewrite Hc. apply orb_true_r.
Qed.

(* ---------------------------------------------------------------- the value a derivation stands for *)
(* The grammar again, now carrying the value: arrays are their elements in order, objects their members in
   DOCUMENT order (duplicates kept), numbers their token, strings the characters of [d_chars]. *)
Inductive d_value : list Z -> jv -> Prop :=
| d_false : d_value lit_false (JBool false)
| d_null : d_value lit_null JNull
| d_true : d_value lit_true (JBool true)
| d_num : forall t, wf_num t = true -> d_value (render_num t) (JNum t)
| d_str : forall body k, d_chars body k -> d_value (34 :: body ++ [34]) (JStr k)
| d_arr_empty : forall w, g_ws w -> d_value (91 :: w ++ [93]) (JArr [])
| d_arr : forall body l, d_elems body l -> d_value (91 :: body ++ [93]) (JArr l)
| d_obj_empty : forall w, g_ws w -> d_value (123 :: w ++ [125]) (JObj [])
| d_obj : forall body m, d_members body m -> d_value (123 :: body ++ [125]) (JObj m)
with d_elems : list Z -> list jv -> Prop :=
| d_elems_one : forall w1 p v w2, g_ws w1 -> d_value p v -> g_ws w2 -> d_elems (w1 ++ p ++ w2) [v]
| d_elems_more : forall w1 p v w2 rest l, g_ws w1 -> d_value p v -> g_ws w2 -> d_elems rest l ->
    d_elems (w1 ++ p ++ w2 ++ 44 :: rest) (v :: l)
with d_members : list Z -> list (list Z * jv) -> Prop :=
| d_members_one : forall w1 kb k w2 w3 p v w4, g_ws w1 -> d_chars kb k -> g_ws w2 -> g_ws w3 ->
    d_value p v -> g_ws w4 -> d_members (w1 ++ (34 :: kb ++ [34]) ++ w2 ++ 58 :: w3 ++ p ++ w4) [(k, v)]
| d_members_more : forall w1 kb k w2 w3 p v w4 rest m, g_ws w1 -> d_chars kb k -> g_ws w2 -> g_ws w3 ->
    d_value p v -> g_ws w4 -> d_members rest m ->
    d_members (w1 ++ (34 :: kb ++ [34]) ++ w2 ++ 58 :: w3 ++ p ++ w4 ++ 44 :: rest) ((k, v) :: m).

Scheme d_value_min := Minimality for d_value Sort Prop
  with d_elems_min := Minimality for d_elems Sort Prop
  with d_members_min := Minimality for d_members Sort Prop.
Combined Scheme d_mutind from d_value_min, d_elems_min, d_members_min.

(* forgetting the value gives the grammar ... *)
Lemma d_g_all :
  (forall p v, d_value p v -> g_value p) /\ (forall b l, d_elems b l -> g_elems b) /\ (forall b m, d_members b m -> g_members b).
Proof.
  apply d_mutind; intros.
  - apply g_false.
  - apply g_null.
  - apply g_true.
  - apply g_val_num. apply g_num. assumption.
  - apply g_val_str. apply g_str. eapply d_chars_g; eassumption.
  - apply g_arr_empty. assumption.
  - apply g_arr. assumption.
  - apply g_obj_empty. assumption.
  - apply g_obj. assumption.
  - apply g_elems_one; assumption.
  - apply g_elems_more; assumption.
  - apply g_members_one; try assumption. apply g_str. eapply d_chars_g; eassumption.
  - apply g_members_more; try assumption. apply g_str. eapply d_chars_g; eassumption.
Qed.

(* ... and every derivation of the grammar stands for a value *)
Lemma g_d_all :
  (forall p, g_value p -> exists v, d_value p v) /\ (forall b, g_elems b -> exists l, d_elems b l) /\
  (forall b, g_members b -> exists m, d_members b m).
Proof.
  apply g_mutind.
  - eexists; apply d_false.
  - eexists; apply d_null.
  - eexists; apply d_true.
  - intros s [t Ht]. eexists; apply d_num; assumption.
  - intros s [body Hb]. destruct (g_chars_d body Hb) as (k & Hk). exists (JStr k). apply d_str; assumption.
  - intros w Hw. eexists; apply d_arr_empty; assumption.
  - intros body _ (l & Hl). exists (JArr l). apply d_arr; assumption.
  - intros w Hw. eexists; apply d_obj_empty; assumption.
  - intros body _ (m & Hm). exists (JObj m). apply d_obj; assumption.
  - intros w1 p w2 Hw1 _ (v & Hv) Hw2. exists [v]. apply d_elems_one; assumption.
  - intros w1 p w2 rest Hw1 _ (v & Hv) Hw2 _ (l & Hl). exists (v :: l). apply d_elems_more; assumption.
  - intros w1 k w2 w3 p w4 Hw1 [kb Hkb] Hw2 Hw3 _ (v & Hv) Hw4.
    destruct (g_chars_d kb Hkb) as (k' & Hk'). exists [(k', v)]. apply d_members_one; assumption.
  - intros w1 k w2 w3 p w4 rest Hw1 [kb Hkb] Hw2 Hw3 _ (v & Hv) Hw4 _ (m & Hm).
    destruct (g_chars_d kb Hkb) as (k' & Hk'). exists ((k', v) :: m). apply d_members_more; assumption.
Qed.

(* ---------------------------------------------------------------- values *)
Definition Pc_value (p : list Z) (v : jv) : Prop :=
  forall f rest, (length p < f)%nat -> followb rest = true -> parse_value f (p ++ rest) = POk v rest.
Definition Pc_elems (body : list Z) (l : list jv) : Prop :=
  forall f n rest, (length body < f)%nat -> (length body < n)%nat ->
    parse_elems (parse_value f) n (body ++ 93 :: rest) = POk l rest.
Definition Pc_members (body : list Z) (m : list (list Z * jv)) : Prop :=
  forall f n rest, (length body < f)%nat -> (length body < n)%nat ->
    parse_members (parse_value f) n (body ++ 125 :: rest) = POk m rest.

Lemma complete_lit_false : Pc_value lit_false (JBool false).
Proof. intros [| f] rest Hf _; [cbn in Hf; lia |]. reflexivity. Qed.
Lemma complete_lit_null : Pc_value lit_null JNull.
Proof. intros [| f] rest Hf _; [cbn in Hf; lia |]. reflexivity. Qed.
Lemma complete_lit_true : Pc_value lit_true (JBool true).
Proof. intros [| f] rest Hf _; [cbn in Hf; lia |]. reflexivity. Qed.

Lemma complete_num : forall t, wf_num t = true -> Pc_value (render_num t) (JNum t).
Proof.
  intros t Ht [| f] rest Hf Hfo; [lia |].
  destruct (render_num_head t rest Ht) as (c & tl & E & Hc).
  rewrite E. rewrite parse_value_num_dispatch by assumption. rewrite <- E.
  rewrite parse_num_render by assumption. reflexivity.
Qed.

Lemma complete_str : forall body k, str_val body k -> Pc_value (34 :: body ++ [34]) (JStr k).
Proof.
  intros body k Hk [| f] rest Hf _; [lia |].
  lnorm. cbn [parse_value skip_ws]. change (is_ws 34) with false. cbn iota.
  change (34 =? 123) with false. change (34 =? 91) with false. change (34 =? 34) with true. cbn iota.
  rewrite Hk. reflexivity.
Qed.

Lemma complete_arr_empty : forall w, g_ws w -> Pc_value (91 :: w ++ [93]) (JArr []).
Proof.
  intros w Hw [| f] rest Hf _; [lia |].
  lnorm. cbn [parse_value skip_ws]. change (is_ws 91) with false. cbn iota.
  change (91 =? 123) with false. change (91 =? 91) with true. cbn iota.
  rewrite skip_ws_app by assumption. cbn [skip_ws]. change (is_ws 93) with false. cbn iota.
  change (93 =? 93) with true. cbn iota. reflexivity.
Qed.

Lemma complete_obj_empty : forall w, g_ws w -> Pc_value (123 :: w ++ [125]) (JObj []).
Proof.
  intros w Hw [| f] rest Hf _; [lia |].
  lnorm. cbn [parse_value skip_ws]. change (is_ws 123) with false. cbn iota.
  change (123 =? 123) with true. cbn iota.
  rewrite skip_ws_app by assumption. cbn [skip_ws]. change (is_ws 125) with false. cbn iota.
  change (125 =? 125) with true. cbn iota. reflexivity.
Qed.

Lemma complete_arr : forall body l, g_elems body -> Pc_elems body l -> Pc_value (91 :: body ++ [93]) (JArr l).
Proof.
  intros body l Hg IH [| f] rest Hf _; [lia |].
  cbn [length] in Hf. rewrite app_length in Hf. cbn [length] in Hf.
  lnorm. cbn [parse_value skip_ws]. change (is_ws 91) with false. cbn iota.
  change (91 =? 123) with false. change (91 =? 91) with true. cbn iota.
  destruct (g_elems_head body (93 :: rest) Hg) as (c & r' & E & H93). rewrite E, H93.
  rewrite (IH f (S (length (body ++ 93 :: rest))) rest ltac:(lia) ltac:(rewrite app_length; lia)). reflexivity.
Qed.

Lemma complete_obj : forall body m, g_members body -> Pc_members body m -> Pc_value (123 :: body ++ [125]) (JObj m).
Proof.
  intros body m Hg IH [| f] rest Hf _; [lia |].
  cbn [length] in Hf. rewrite app_length in Hf. cbn [length] in Hf.
  lnorm. cbn [parse_value skip_ws]. change (is_ws 123) with false. cbn iota.
  change (123 =? 123) with true. cbn iota.
  destruct (g_members_head body (125 :: rest) Hg) as (r' & E). rewrite E. change (34 =? 125) with false. cbn iota.
  rewrite (IH f (S (length (body ++ 125 :: rest))) rest ltac:(lia) ltac:(rewrite app_length; lia)). reflexivity.
Qed.

Lemma complete_elems_one : forall w1 p v w2, g_ws w1 -> Pc_value p v -> g_ws w2 -> Pc_elems (w1 ++ p ++ w2) [v].
Proof.
  intros w1 p v w2 Hw1 IHv Hw2 f [| n] rest Hf Hn; [lia |].
  rewrite !app_length in Hf. lnorm. cbn [parse_elems]. rewrite parse_value_skip by assumption.
  rewrite (IHv f (w2 ++ 93 :: rest) ltac:(lia) ltac:(apply followb_ws; [assumption | reflexivity])).
  rewrite skip_ws_app by assumption. cbn [skip_ws]. change (is_ws 93) with false. cbn iota.
  change (93 =? 44) with false. change (93 =? 93) with true. cbn iota. reflexivity.
Qed.

Lemma complete_elems_more : forall w1 p v w2 more l, g_ws w1 -> Pc_value p v -> g_ws w2 -> Pc_elems more l ->
  Pc_elems (w1 ++ p ++ w2 ++ 44 :: more) (v :: l).
Proof.
  intros w1 p v w2 more l Hw1 IHv Hw2 IHm f [| n] rest Hf Hn; [lia |].
  rewrite !app_length in Hf, Hn. cbn [length] in Hf, Hn.
  lnorm. cbn [parse_elems]. rewrite parse_value_skip by assumption.
  rewrite (IHv f (w2 ++ 44 :: more ++ 93 :: rest) ltac:(lia) ltac:(apply followb_ws; [assumption | reflexivity])).
  rewrite skip_ws_app by assumption. cbn [skip_ws]. change (is_ws 44) with false. cbn iota.
  change (44 =? 44) with true. cbn iota.
  rewrite (IHm f n rest ltac:(lia) ltac:(lia)). reflexivity.
Qed.

Lemma complete_members_one : forall w1 kb k w2 w3 p v w4, g_ws w1 -> str_val kb k -> g_ws w2 -> g_ws w3 ->
  Pc_value p v -> g_ws w4 -> Pc_members (w1 ++ (34 :: kb ++ [34]) ++ w2 ++ 58 :: w3 ++ p ++ w4) [(k, v)].
Proof.
  intros w1 kb k w2 w3 p v w4 Hw1 Hk Hw2 Hw3 IHv Hw4 f [| n] rest Hf Hn; [lia |].
  rewrite !app_length in Hf. cbn [length] in Hf. rewrite !app_length in Hf.
  lnorm. cbn [parse_members]. rewrite skip_ws_app by assumption.
  cbn [skip_ws]. change (is_ws 34) with false. cbn iota. change (34 =? 34) with true. cbn iota.
  rewrite Hk.
  rewrite skip_ws_app by assumption. cbn [skip_ws]. change (is_ws 58) with false. cbn iota.
  change (58 =? 58) with true. cbn iota. rewrite parse_value_skip by assumption.
  rewrite (IHv f (w4 ++ 125 :: rest) ltac:(lia) ltac:(apply followb_ws; [assumption | reflexivity])).
  rewrite skip_ws_app by assumption. cbn [skip_ws]. change (is_ws 125) with false. cbn iota.
  change (125 =? 44) with false. change (125 =? 125) with true. cbn iota. reflexivity.
Qed.

Lemma complete_members_more : forall w1 kb k w2 w3 p v w4 more m,
  g_ws w1 -> str_val kb k -> g_ws w2 -> g_ws w3 -> Pc_value p v -> g_ws w4 -> Pc_members more m ->
  Pc_members (w1 ++ (34 :: kb ++ [34]) ++ w2 ++ 58 :: w3 ++ p ++ w4 ++ 44 :: more) ((k, v) :: m).
Proof.
  intros w1 kb k w2 w3 p v w4 more m Hw1 Hk Hw2 Hw3 IHv Hw4 IHm f [| n] rest Hf Hn; [lia |].
  rewrite !app_length in Hf, Hn. cbn [length] in Hf, Hn. rewrite !app_length in Hf, Hn. cbn [length] in Hf, Hn.
  lnorm. cbn [parse_members]. rewrite skip_ws_app by assumption.
  cbn [skip_ws]. change (is_ws 34) with false. cbn iota. change (34 =? 34) with true. cbn iota.
  rewrite Hk.
  rewrite skip_ws_app by assumption. cbn [skip_ws]. change (is_ws 58) with false. cbn iota.
  change (58 =? 58) with true. cbn iota. rewrite parse_value_skip by assumption.
  rewrite (IHv f (w4 ++ 44 :: more ++ 125 :: rest) ltac:(lia) ltac:(apply followb_ws; [assumption | reflexivity])).
  rewrite skip_ws_app by assumption. cbn [skip_ws]. change (is_ws 44) with false. cbn iota.
  change (44 =? 44) with true. cbn iota.
  rewrite (IHm f n rest ltac:(lia) ltac:(lia)). reflexivity.
Qed.

Lemma complete_all :
  (forall p v, d_value p v -> Pc_value p v) /\ (forall b l, d_elems b l -> Pc_elems b l) /\
  (forall b m, d_members b m -> Pc_members b m).
Proof.
  apply d_mutind.
  - exact complete_lit_false.
  - exact complete_lit_null.
  - exact complete_lit_true.
  - exact complete_num.
  - intros body k Hk. apply complete_str. apply d_chars_str_val. assumption.
  - exact complete_arr_empty.
  - intros body l Hd IH. apply complete_arr; [exact (proj1 (proj2 d_g_all) body l Hd) | assumption].
  - exact complete_obj_empty.
  - intros body m Hd IH. apply complete_obj; [exact (proj2 (proj2 d_g_all) body m Hd) | assumption].
  - intros w1 p v w2 Hw1 _ IHv Hw2. apply complete_elems_one; assumption.
  - intros w1 p v w2 more l Hw1 _ IHv Hw2 _ IHm. apply complete_elems_more; assumption.
  - intros w1 kb k w2 w3 p v w4 Hw1 Hk Hw2 Hw3 _ IHv Hw4. apply d_chars_str_val in Hk. apply complete_members_one; assumption.
  - intros w1 kb k w2 w3 p v w4 more m Hw1 Hk Hw2 Hw3 _ IHv Hw4 _ IHm. apply d_chars_str_val in Hk. apply complete_members_more; assumption.
Qed.

(* The parser computes the value of the derivation: wherever a value text [p] stands (any fuel above its length,
   followed by anything that may follow a value), the result is the value [v] that [p] stands for. *)
Theorem parse_value_denotes : forall p v, d_value p v -> forall fuel rest, (length p < fuel)%nat -> followb rest = true ->
  parse_value fuel (p ++ rest) = POk v rest.
Proof. intros p v H. exact (proj1 complete_all p v H). Qed.

Theorem g_value_denotes : forall p, g_value p -> exists v, d_value p v.
Proof. exact (proj1 g_d_all). Qed.

Theorem d_value_grammar : forall p v, d_value p v -> g_value p.
Proof. exact (proj1 d_g_all). Qed.

(* GOAL 2, embedded form *)
Theorem parse_value_complete : forall p, g_value p -> exists v, forall fuel rest, (length p < fuel)%nat -> followb rest = true ->
  parse_value fuel (p ++ rest) = POk v rest.
Proof. intros p H. destruct (g_value_denotes p H) as (v & Hv). exists v. exact (parse_value_denotes p v Hv). Qed.

Lemma followb_g_ws : forall w, g_ws w -> followb w = true.
Proof. intros w H. destruct H as [| c w Hc Hw]; [reflexivity |]. cbn [followb]. rewrite Hc. apply orb_true_r. Qed.

Lemma skip_ws_all : forall w, g_ws w -> skip_ws w = [].
Proof. intros w H. rewrite <- (app_nil_r w). rewrite skip_ws_app by assumption. reflexivity. Qed.

(* a JSON text whose value part stands for v parses to v *)
Theorem parse_denotes : forall w1 p w2 v, g_ws w1 -> d_value p v -> g_ws w2 -> parse (w1 ++ p ++ w2) = Some v.
Proof.
  intros w1 p w2 v Hw1 Hp Hw2.
  unfold parse, parse_text. rewrite parse_value_skip by assumption.
  rewrite (parse_value_denotes p v Hp (S (length (w1 ++ p ++ w2))) w2).
  - rewrite skip_ws_all by assumption. reflexivity.
  - rewrite !app_length. lia.
  - apply followb_g_ws; assumption.
Qed.

(* GOAL 2 *)
Theorem parse_complete : forall t, g_json t -> exists v, parse t = Some v.
Proof.
  intros t (w1 & p & w2 & Hw1 & Hp & Hw2 & ->).
  destruct (g_value_denotes p Hp) as (v & Hv). exists v. apply parse_denotes; assumption.
Qed.

Corollary parse_complete_ne : forall t, g_json t -> parse t <> None.
Proof. intros t H. destruct (parse_complete t H) as (v & Hv). rewrite Hv. discriminate. Qed.

(* the value of a value text does not depend on the derivation: the grammar is unambiguous as far as values go *)
Theorem d_value_functional : forall p v v', d_value p v -> d_value p v' -> v = v'.
Proof.
  intros p v v' H H'.
  pose proof (parse_denotes [] p [] v (g_ws_nil) H (g_ws_nil)) as E.
  pose proof (parse_denotes [] p [] v' (g_ws_nil) H' (g_ws_nil)) as E'.
  rewrite E in E'. inversion E'. reflexivity.
Qed.

(* white space around the value is irrelevant *)
Theorem parse_ws_irrelevant : forall w1 p w2, g_ws w1 -> g_value p -> g_ws w2 -> parse (w1 ++ p ++ w2) = parse p.
Proof.
  intros w1 p w2 Hw1 Hp Hw2. destruct (g_value_denotes p Hp) as (v & Hv).
  rewrite (parse_denotes w1 p w2 v Hw1 Hv Hw2).
  pose proof (parse_denotes [] p [] v (g_ws_nil) Hv (g_ws_nil)) as E. cbn [app] in E. rewrite app_nil_r in E.
  symmetry. exact E.
Qed.

(* GOAL 3: what the parser returns is the value the text stands for, for EVERY way of reading the text as
   ws value ws *)
Theorem parse_is_denotation : forall t v, cpok t -> parse t = Some v ->
  (exists w1 p w2, t = w1 ++ p ++ w2 /\ g_ws w1 /\ g_ws w2 /\ d_value p v) /\
  (forall w1 p w2 v', t = w1 ++ p ++ w2 -> g_ws w1 -> g_ws w2 -> d_value p v' -> v' = v).
Proof.
  intros t v Hc H. split.
  - destruct (parse_inv t v H) as (w & p & w2 & Es & Hw & Hw2 & Hg & _).
    assert (g_value p) as Hp by (apply Hg; subst t; fa; assumption).
    destruct (g_value_denotes p Hp) as (v' & Hv').
    pose proof (parse_denotes w p w2 v' Hw Hv' Hw2) as E. rewrite <- Es, H in E. inversion E; subst v'.
    exists w, p, w2. auto.
  - intros w1 p w2 v' Es Hw1 Hw2 Hd.
    pose proof (parse_denotes w1 p w2 v' Hw1 Hd Hw2) as E. rewrite <- Es, H in E. inversion E. reflexivity.
Qed.

(* ====================================================================== *)
(* Every text of the grammar consists of code points (<= 0x10FFFF)         *)
(* ====================================================================== *)
Ltac fb := unfold cpok in *;
  repeat first [ apply Forall_nil | assumption | apply Forall_cons; [cbv beta; lia |] | apply Forall_app; split ].

Lemma is_ws_le : forall c, is_ws c = true -> c <= 0x10FFFF.
Proof. intros c H. unfold is_ws in H. repeat (apply orb_prop in H; destruct H as [H | H]); zb; lia. Qed.

Lemma g_ws_cpok : forall w, g_ws w -> cpok w.
Proof. induction 1 as [| c w Hc Hw IH]; constructor; [apply is_ws_le; assumption | assumption]. Qed.

Lemma is_hex_le : forall c, is_hex c = true -> c <= 0x10FFFF.
Proof.
  intros c H. unfold is_hex, hexval in H.
  destruct ((48 <=? c) && (c <=? 57)) eqn:E1; [zb; lia |].
  destruct ((97 <=? c) && (c <=? 102)) eqn:E2; [zb; lia |].
  destruct ((65 <=? c) && (c <=? 70)) eqn:E3; [zb; lia | discriminate].
Qed.

Lemma g_char_cpok : forall x, g_char x -> cpok x.
Proof.
  intros x H. destruct H as [c Hc | e He | a b c d Hh].
  - apply unescaped_elim in Hc. fb.
  - assert (e <= 0x10FFFF) by (unfold escapable in He; repeat (apply orb_prop in He; destruct He as [He | He]); zb; lia). fb.
  - zb. repeat match goal with H : is_hex _ = true |- _ => apply is_hex_le in H end. fb.
Qed.

Lemma g_chars_cpok : forall s, g_chars s -> cpok s.
Proof. induction 1 as [| x s Hx Hs IH]; [constructor |]. apply g_char_cpok in Hx. fb. Qed.

Lemma g_string_cpok : forall s, g_string s -> cpok s.
Proof. intros s [body Hb]. apply g_chars_cpok in Hb. fb. Qed.

Lemma all_digits_cpok : forall ds, all_digits ds = true -> cpok ds.
Proof.
  induction ds as [| d ds IH]; intros H; [constructor |].
  cbn [all_digits forallb] in H. apply andb_prop in H. destruct H as [Hd Hds].
  specialize (IH Hds). unfold is_digit in Hd. zb. fb.
Qed.

Lemma g_number_cpok : forall s, g_number s -> cpok s.
Proof.
  intros s [[neg ip fp ex] H]. unfold wf_num in H. cbn [n_int n_frac n_exp] in H.
  apply andb_prop in H. destruct H as [H Hex]. apply andb_prop in H. destruct H as [Hip Hfp].
  unfold render_num. cbn [n_neg n_int n_frac n_exp].
  assert (cpok (if neg then [45] else [])) as A1 by (destruct neg; fb).
  assert (cpok ip) as A2.
  { destruct ip as [| c ds]; [discriminate |]. cbn [wf_int] in Hip. apply orb_prop in Hip. destruct Hip as [Hz | Hnz].
    - apply andb_prop in Hz. destruct Hz as [Hc Hds]. destruct ds; [| discriminate]. zb. fb.
    - apply andb_prop in Hnz. destruct Hnz as [Hc Hds]. apply all_digits_cpok in Hds. unfold is_digit19 in Hc. zb. fb. }
  assert (cpok (render_frac fp)) as A3.
  { destruct fp as [| d fp]; [constructor |]. apply all_digits_cpok in Hfp. cbn [render_frac]. fb. }
  assert (cpok (render_exp ex)) as A4.
  { destruct ex as [[[ec sg] ds] |]; [| constructor]. cbn [wf_exp] in Hex.
    apply andb_prop in Hex. destruct Hex as [Hex Hds]. apply andb_prop in Hex. destruct Hex as [Hec Hsg].
    assert (cpok ds) as Hd by (destruct ds; [discriminate | apply all_digits_cpok; assumption]).
    assert (ec <= 0x10FFFF) as Hecl by (apply orb_prop in Hec; destruct Hec; zb; lia).
    assert (cpok sg) as Hs.
    { destruct sg as [| c [| c2 sg]]; [constructor | | discriminate].
      assert (c <= 0x10FFFF) by (apply orb_prop in Hsg; destruct Hsg; zb; lia). fb. }
    cbn [render_exp]. fb. }
  fb.
Qed.

Lemma g_all_cpok :
  (forall p, g_value p -> cpok p) /\ (forall b, g_elems b -> cpok b) /\ (forall b, g_members b -> cpok b).
Proof.
  apply g_mutind; intros;
    repeat match goal with
    | H : g_ws _ |- _ => apply g_ws_cpok in H
    | H : g_string _ |- _ => apply g_string_cpok in H
    | H : g_number _ |- _ => apply g_number_cpok in H
    end; unfold lit_false, lit_null, lit_true; fb.
Qed.

Theorem g_json_cpok : forall t, g_json t -> cpok t.
Proof.
  intros t (w1 & p & w2 & Hw1 & Hp & Hw2 & ->).
  apply g_ws_cpok in Hw1, Hw2. apply (proj1 g_all_cpok) in Hp. fb.
Qed.

(* ====================================================================== *)
(* The characterisation                                                    *)
(* ====================================================================== *)
Theorem g_json_iff_parse : forall t, g_json t <-> (cpok t /\ parse t <> None).
Proof.
  intros t. split.
  - intros H. split; [apply g_json_cpok; assumption | apply parse_complete_ne; assumption].
  - intros [Hc Hp]. destruct (parse t) as [v |] eqn:E; [| contradiction]. exact (parse_sound t v Hc E).
Qed.

(* "malformed" (parse t = None) is exactly "not a JSON text of RFC 8259", for texts of code points *)
Theorem parse_none_iff : forall t, cpok t -> (parse t = None <-> ~ g_json t).
Proof.
  intros t Hc. split.
  - intros E H. exact (parse_complete_ne t H E).
  - intros Hn. destruct (parse t) as [v |] eqn:E; [| reflexivity]. exfalso. apply Hn. exact (parse_sound t v Hc E).
Qed.

(* one direction needs no hypothesis: whatever the parser rejects is outside the grammar *)
Theorem parse_none_not_json : forall t, parse t = None -> ~ g_json t.
Proof. intros t E H. exact (parse_complete_ne t H E). Qed.

Lemma scal_cpok : forall t, scal t -> cpok t.
Proof.
  intros t H. unfold scal, cpok in *. rewrite Forall_forall in *. intros c Hin.
  specialize (H c Hin). apply scalarb_range in H. lia.
Qed.

Lemma forallb_scal : forall t, forallb scalarb t = true <-> scal t.
Proof. intros t. unfold scal. rewrite forallb_forall, Forall_forall. reflexivity. Qed.

(* Zn text values are sequences of Unicode scalar values *)
Theorem parse_none_iff_scalar : forall t, forallb scalarb t = true -> (parse t = None <-> ~ g_json t).
Proof. intros t H. apply parse_none_iff. apply scal_cpok. apply forallb_scal. assumption. Qed.

Theorem parse_some_scalar : forall t v, forallb scalarb t = true -> parse t = Some v ->
  g_json t /\ wf v = true /\ parse (render v) = Some v /\ g_json (render v).
Proof.
  intros t v H E. apply forallb_scal in H. pose proof (parse_wf t v H E) as Hwf.
  split; [exact (parse_sound t v (scal_cpok t H) E) |]. split; [assumption |].
  split; [apply parse_render; assumption | apply render_is_json_text; assumption].
Qed.

(* ---------------------------------------------------------------- the finding *)
(* Without [cpok] soundness fails: an element above 0x10FFFF is accepted raw inside a string. *)
Example parse_accepts_non_code_point : parse [34; 1114112; 34] = Some (JStr [1114112]).
Proof. vm_compute. reflexivity. Qed.

Example non_code_point_not_json : ~ g_json [34; 1114112; 34].
Proof.
  intros H. apply g_json_cpok in H. unfold cpok in H.
  apply Forall_cons_iff in H. destruct H as [_ H]. apply Forall_cons_iff in H. destruct H as [H _]. lia.
Qed.

Theorem parse_unsound_without_cpok : ~ (forall t v, parse t = Some v -> g_json t).
Proof. intros H. exact (non_code_point_not_json (H _ _ parse_accepts_non_code_point)). Qed.

(* a raw surrogate inside a string is in the grammar (RFC 8259 unescaped = ... %x5D-10FFFF) and is accepted, but the
   value is not well formed: [parse_wf] needs scalar values *)
Example parse_raw_surrogate : parse [34; 0xD800; 34] = Some (JStr [0xD800]) /\ wf (JStr [0xD800]) = false.
Proof. vm_compute. split; reflexivity. Qed.

(* ---------------------------------------------------------------- consequences for the library function *)
Corollary d_value_wf : forall p v, scal p -> d_value p v -> wf v = true.
Proof.
  intros p v Hs Hd. apply (parse_wf p v Hs).
  pose proof (parse_denotes [] p [] v g_ws_nil Hd g_ws_nil) as E. cbn [app] in E. rewrite app_nil_r in E. exact E.
Qed.

(* "malformed" in C19_malformed_is_catchable_exception: every Zn text that is not a JSON text of RFC 8259 raises the
   catchable exception *)
Theorem not_json_is_catchable_exception : forall t, forallb scalarb t = true -> ~ g_json t ->
  parse_json [EStr t] = Exception /\ catchable (parse_json [EStr t]) = true.
Proof.
  intros t Hs Hn. apply (parse_none_iff_scalar t Hs) in Hn.
  rewrite (malformed_is_exception t Hn). split; reflexivity.
Qed.

(* non-vacuity: an object with white space, a nested array, a surrogate pair escape followed by a lone high surrogate
   escape, a number with fraction and exponent, is a JSON text and parses to the ordered value *)
Example ex_text : list Z :=
  [32; 123; 34;98;34; 32; 58; 91; 49;46;53;101;45;51; 44; 32; 34; 92;117;100;56;51;100; 92;117;100;101;48;48;
   92;117;100;56;51;100; 34; 93; 44; 34;97;34; 58; 110;117;108;108; 125; 10].
Example ex_text_parses : parse ex_text =
  Some (JObj [([98], JArr [JNum (NumTok false [49] [53] (Some (101, [45], [51]))); JStr [0x1F600; 0xFFFD]]); ([97], JNull)]).
Proof. vm_compute. reflexivity. Qed.
Example ex_text_json : g_json ex_text.
Proof.
  assert (forallb scalarb ex_text = true) as Hs by (vm_compute; reflexivity).
  exact (parse_sound _ _ (scal_cpok _ (proj1 (forallb_scal ex_text) Hs)) ex_text_parses).
Qed.

Print Assumptions parse_sound.
Print Assumptions parse_value_sound_grammar.
Print Assumptions parse_complete.
Print Assumptions parse_value_complete.
Print Assumptions g_json_cpok.
Print Assumptions g_json_iff_parse.
Print Assumptions parse_none_iff.
Print Assumptions parse_none_not_json.
Print Assumptions parse_none_iff_scalar.
Print Assumptions parse_wf.
Print Assumptions parse_render_fixpoint.
Print Assumptions parse_some_scalar.
Print Assumptions parse_value_denotes.
Print Assumptions parse_denotes.
Print Assumptions parse_is_denotation.
Print Assumptions d_value_functional.
Print Assumptions parse_ws_irrelevant.
Print Assumptions d_value_wf.
Print Assumptions parse_unsound_without_cpok.
Print Assumptions not_json_is_catchable_exception.
Print Assumptions ex_text_json.
