(* SemCalls.v — bodies, handlers, constructors and calls keep the control state balanced
   (Section hypothesis on the expression evaluator), then the global theorem for [eval_expr]. *)
From Coq Require Import List ZArith Bool Lia.
From Zn.lib Require Import Float64.
From Zn.model Require Import SemDefs Sem.
From Zn.proofs Require Import SemBase SemStmt.
Import ListNotations.
Open Scope Z_scope.

(* the relations only look at the control state *)
Lemma shape_ctl a b : ctl a = ctl b -> shape a = shape b.
Proof. unfold ctl, shape. intros H. inversion H. congruence. Qed.

Lemma wf_ctl a b : ctl a = ctl b -> wf a -> wf b.
Proof.
  intros H [W1 W2].
  assert (Hd : depth a = depth b) by (unfold ctl in H; congruence).
  assert (Hk : stack a = stack b) by (unfold ctl in H; congruence).
  assert (Hy : syms a = syms b) by (unfold ctl in H; congruence).
  split; [rewrite <- Hk; exact W1|rewrite <- Hy, <- Hd; exact W2].
Qed.

Lemma ext_shape_ctl_l a b s1 : ctl a = ctl b -> ext_shape a s1 -> ext_shape b s1.
Proof.
  intros H [new [H1 H2]]. exists new. pose proof (shape_ctl _ _ H) as Hs.
  assert (Hd : depth a = depth b) by (unfold ctl in H; congruence).
  split; [rewrite <- Hs; exact H1|]. rewrite <- Hd. exact H2.
Qed.

Lemma R_ok_e_ctl_l a b s1 : ctl a = ctl b -> R_ok_e a s1 -> R_ok_e b s1.
Proof.
  intros H (H1 & H2 & H3 & H4).
  assert (Hd : depth a = depth b) by (unfold ctl in H; congruence).
  assert (Hk : stack a = stack b) by (unfold ctl in H; congruence).
  repeat split; try congruence; try apply H4. eapply ext_shape_ctl_l; eassumption.
Qed.

Lemma R_er_ctl_l a b s1 : ctl a = ctl b -> R_er a s1 -> R_er b s1.
Proof.
  intros H ((ex & f & f' & tl & Ha & Hb & F) & H2 & H3 & H4).
  assert (Hd : depth a = depth b) by (unfold ctl in H; congruence).
  assert (Hk : stack a = stack b) by (unfold ctl in H; congruence).
  split; [exists ex, f, f', tl; repeat split; try congruence; apply F|].
  repeat split; try congruence; try apply H4. eapply ext_shape_ctl_l; eassumption.
Qed.

Lemma R_er_e_ctl_l a b s1 : ctl a = ctl b -> R_er_e a s1 -> R_er_e b s1.
Proof.
  intros H ([ex Hs] & H2 & H3 & H4).
  assert (Hd : depth a = depth b) by (unfold ctl in H; congruence).
  assert (Hk : stack a = stack b) by (unfold ctl in H; congruence).
  split; [exists ex; congruence|].
  repeat split; try congruence; try apply H4. eapply ext_shape_ctl_l; eassumption.
Qed.

Lemma bal_e_ctl {A} st st' (r : res A) : ctl st' = ctl st -> bal_e st' r -> bal_e st r.
Proof.
  intros H Hr W. specialize (Hr (wf_ctl _ _ (eq_sym H) W)).
  destruct r as [a s|e s| |w]; try exact I.
  - eapply R_ok_e_ctl_l; eassumption.
  - destruct Hr as [H1 H2]. split; [eapply R_er_e_ctl_l; eassumption|exact H2].
Qed.

Lemma bal_e_ok_ctl {A} st s1 (a : A) : ctl s1 = ctl st -> bal_e st (Ok a s1).
Proof. intros H W. apply ctl_R_ok_e; assumption. Qed.

Lemma bal_e_er_run {A} st c : bal_e st (@Er A (ERun c) st).
Proof. apply pres_bal_e. split; reflexivity. Qed.

(* results of bodies: block-balanced and never a loop signal *)
Definition bal_x {A} (st : state) (r : res A) : Prop :=
  wf st -> match r with
           | Ok _ s1 => R_ok_b st s1
           | Er e s1 => R_er_b st s1 /\ no_sig e
           | _ => True end.

(* pushing a frame, running something block-balanced in it, popping *)
Lemma wf_push st k t : wf st -> wf (push_frame st k t).
Proof. intros [a b]. split; [cbn [stack push_frame set_stack]; discriminate|exact b]. Qed.

Lemma call_frame_ok s1 k t s3 : wf s1 -> R_ok_b (push_frame s1 k t) s3 -> R_ok_e s1 (pop_frame s3).
Proof.
  intros W ((f & f' & tl & Ha & Hb & F) & Hd & Hs & Hw).
  cbn [stack push_frame set_stack] in Ha. inversion Ha; subst.
  unfold pop_frame. repeat split.
  - cbn [stack set_stack]. rewrite Hb. reflexivity.
  - exact Hd.
  - exists []. split; [exact Hs|constructor].
  - cbn [stack set_stack]. rewrite Hb. cbn [tl]. apply W.
  - cbn [syms depth set_stack]. apply Hw.
Qed.

(* the frame of the failed call (and whatever its callees left) sits on top of the caller's stack, which is untouched *)
Lemma call_frame_er s1 k t s3 : wf s1 -> R_er_b (push_frame s1 k t) s3 -> R_er_e s1 s3.
Proof.
  intros W ((ex & f & f' & tl & Ha & Hb & F) & Hd & Hs & Hw).
  cbn [stack push_frame set_stack] in Ha. inversion Ha; subst.
  split; [|repeat split; try assumption; try apply Hw].
  - exists (ex ++ [f']). rewrite Hb, <- app_assoc. reflexivity.
  - exists []. split; [exact Hs|constructor].
Qed.

Lemma R_er_leaked s1 k t : wf s1 -> R_er_e s1 (push_frame s1 k t).
Proof.
  intros W. apply (call_frame_er s1 k t); [exact W|].
  pose proof (wf_push s1 k t W) as W2.
  destruct (R_er_of_ctl _ _ W2 (eq_refl (ctl (push_frame s1 k t)))) as (a & b & c & d).
  repeat split; try assumption; try apply d.
Qed.

Section Calls.
  Variable ev : state -> expr -> res val.
  Hypothesis Hev : forall st e, bal_e st (ev st e).

  Lemma bal_declare_params : forall ps args st, bal_e st (declare_params st ps args).
  Proof.
    unfold declare_params.
    induction ps as [|p pt IH]; intros args st; [intros W; apply R_ok_e_refl; exact W|].
    destruct args as [|a at_]; [intros W; apply R_ok_e_refl; exact W|].
    apply bal_e_bind; [apply bal_e_vm_declare|]. intros _ s _. apply IH.
  Qed.

  Lemma bal_declare_this st : wf st -> R_ok_e st (declare_this st).
  Proof.
    intros W. unfold declare_this.
    destruct (top_kind st) as [|p|p]; try (apply R_ok_e_refl; exact W).
    destruct p as [p|p|]; try (apply R_ok_e_refl; exact W).
    destruct p as [p|p|]; try (apply R_ok_e_refl; exact W).
    destruct (top_this st) as [this|]; [|apply R_ok_e_refl; exact W].
    pose proof (bal_e_vm_declare st ID_THIS this true W) as H.
    destruct (vm_declare st ID_THIS this true); try (apply R_ok_e_refl; exact W). exact H.
  Qed.

  Lemma bal_hoist : forall b st, bal_e st (hoist ev st b).
  Proof.
    induction b as [|[line s] tl IH]; intros st; cbn [hoist]; [intros W; apply R_ok_e_refl; exact W|].
    apply bal_e_bind; [|intros _ s1 _; apply IH].
    destruct s; try (intros W; apply R_ok_e_refl; exact W).
    - (* method *)
      eapply bal_e_ctl; [|apply bal_e_vm_declare]. reflexivity.
    - (* constructor *)
      apply bal_e_bind; [apply pres_bal_e, pres_vm_find|]. intros cv sa _.
      destruct cv; try apply bal_e_er_run.
      destruct (nth_error (classes sa) c); [|intros _; exact I].
      apply bal_e_ok_ctl. reflexivity.
    - (* type *)
      match goal with |- bal_e _ (bind (?g props st []) _) => set (props_go := g) end.
      assert (Hp : forall ps s acc, bal_e s (props_go ps s acc)).
      { induction ps as [|[p e] pt IHp]; intros s acc; cbn.
        - intros W; apply R_ok_e_refl; exact W.
        - apply bal_e_bind; [apply Hev|]. intros v s2 _. apply IHp. }
      apply bal_e_bind; [apply Hp|]. intros pvals sa _.
      eapply bal_e_ctl; [|apply bal_e_vm_declare]. reflexivity.
  Qed.

  Lemma R_ok_b_of_s_eq st s1 : R_ok_s st s1 -> shape s1 = shape st -> R_ok_b st s1.
  Proof. intros (a & b & c & d) H. repeat split; try assumption; apply d. Qed.

  (* the handler *)
  Lemma bal_run_handler k st0 s4 xv hb :
    wf st0 -> R_er st0 s4 ->
    match run_handler ev k s4 (length (stack st0)) xv hb with
    | Ok _ s => R_ok_s st0 s
    | Er e s => R_er st0 s /\ (~ no_sig e ->
                  exists f f' tl, stack st0 = f :: tl /\ stack s = {| f_kind := 3; f_this := Some xv; f_ret := f_ret f'; f_line := f_line f' |} :: f :: tl -> True)
    | _ => True
    end.
  Proof.
    intros W0 ((ex & f & f' & tl & Ha & Hb & F) & Hd & He & Hw).
    unfold run_handler.
    set (s5 := push_frame (unwind s4 (length (stack st0))) 3 (Some xv)).
    assert (Hu : stack (unwind s4 (length (stack st0))) = f' :: tl).
    { rewrite Ha. change (length (f :: tl)) with (length (f' :: tl)). exact (unwind_exact s4 ex (f' :: tl) Hb). }
    assert (W5 : wf s5).
    { split; [cbn [s5 stack push_frame set_stack]; discriminate|apply Hw]. }
    pose proof (bal_exec_block ev Hev k s5 hb W5) as H.
    destruct (exec_block ev k s5 hb) as [v s6|e s6| |w]; cbn [bind]; try exact I.
    - destruct H as ((g & g' & tl' & Hg & Hg' & G) & Hd6 & Hs6 & Hw6).
      cbn [s5 stack push_frame set_stack] in Hg. rewrite Hu in Hg. inversion Hg; subst.
      split; [exists f, f', tl; repeat split; try assumption; try apply F; cbn [pop_frame stack set_stack]; rewrite Hg'; reflexivity|].
      split; [cbn [pop_frame depth set_stack]; rewrite Hd6; exact Hd|].
      split.
      + destruct He as [new [Hn Fn]]. exists new. split; [|exact Fn].
        unfold shape in *. cbn [pop_frame syms set_stack]. unfold shape in Hs6. rewrite Hs6. exact Hn.
      + split; [cbn [pop_frame stack set_stack]; rewrite Hg'; discriminate|].
        cbn [pop_frame syms depth set_stack]. apply Hw6.
    - destruct H as [((ex6 & g & g' & tl' & Hg & Hg' & G) & Hd6 & Hs6 & Hw6) _].
      cbn [s5 stack push_frame set_stack] in Hg. rewrite Hu in Hg. inversion Hg; subst.
      split; [|intros _; exists f, f', tl; intros _; exact I].
      split; [exists (ex6 ++ [g']), f, f', tl; repeat split; try assumption; try apply F; rewrite Hg', <- app_assoc; reflexivity|].
      split; [rewrite Hd6; exact Hd|]. split; [|exact Hw6].
      destruct He as [new [Hn Fn]]. exists new. split; [|exact Fn].
      unfold shape in *. rewrite Hs6. exact Hn.
  Qed.

  Lemma bal_handle_exception k st0 hs e s4 :
    wf st0 -> R_er st0 s4 ->
    match handle_exception ev k (length (stack st0)) hs e s4 with
    | Ok _ s => R_ok_s st0 s
    | Er _ s => R_er st0 s
    | _ => True
    end.
  Proof.
    intros W0 H4. unfold handle_exception.
    destruct (exc_of_err e) as [xv|]; [|exact H4].
    destruct (exc_class s4 xv) as [cn|]; [|exact H4].
    destruct (find_handler cn hs) as [hb|]; [|exact H4].
    pose proof (bal_run_handler k st0 s4 xv hb W0 H4) as H.
    destruct (run_handler ev k s4 (length (stack st0)) xv hb); try exact I; [exact H|apply H].
  Qed.

  Lemma stray_no_sig (r : res val) : match stray_signal r with Er e _ => no_sig e | _ => True end.
  Proof. destruct r as [v s|e s| |w]; try exact I. destruct e; cbn; reflexivity. Qed.

  Lemma stray_state (r : res val) :
    match r, stray_signal r with
    | Ok v s, Ok v' s' => s = s'
    | Er _ s, Er _ s' => s = s'
    | Fuel, Fuel => True
    | Crash _, Crash _ => True
    | _, _ => False
    end.
  Proof. destruct r as [v s|e s| |w]; try exact I; try reflexivity. destruct e; reflexivity. Qed.

  (* evalExecBlock *)
  Lemma bal_exec_exec_block k st fd args : bal_x st (exec_exec_block ev k st fd args).
  Proof.
    intros W. unfold exec_exec_block.
    set (st0 := begin_scope st).
    assert (W0 : wf st0) by (apply wf_begin_scope; exact W).
    assert (Hlen : length (stack st) = length (stack st0)) by reflexivity.
    (* the inner computation, relative to st0 *)
    match goal with |- match scoped ?X with _ => _ end => set (inner := X) end.
    assert (Hin : match inner with
                  | Ok _ s => R_ok_s st0 s
                  | Er e s => R_er st0 s /\ no_sig e
                  | _ => True end).
    { unfold inner.
      pose proof (bal_declare_this st0 W0) as H1. set (s1 := declare_this st0) in *.
      destruct (negb (length args =? length (fd_params fd))%nat).
      - split; [apply R_ok_e_to_er; assumption|reflexivity].
      - pose proof (bal_declare_params (fd_params fd) args s1 (R_wf_ok_e _ _ H1)) as H2.
        destruct (declare_params s1 (fd_params fd) args) as [u s2|e s2| |w]; cbn [bind]; try exact I.
        2:{ destruct H2 as [H2a H2b]. apply (R_er_e_er _ _ (R_wf_ok_e _ _ H1)) in H2a. split; [eapply R_ok_e_er; eassumption|].
            destruct e; try exact H2b; reflexivity. }
        assert (H02 : R_ok_e st0 s2) by (eapply R_ok_e_trans; eassumption).
        pose proof (bal_hoist (fd_body fd) s2 (R_wf_ok_e _ _ H2)) as H3.
        destruct (hoist ev s2 (fd_body fd)) as [u3 s3|e3 s3| |w3]; cbn [bind].
        + assert (H03 : R_ok_e st0 s3) by (eapply R_ok_e_trans; eassumption).
          pose proof (bal_exec_block ev Hev k s3 (fd_body fd) (R_wf_ok_e _ _ H3)) as H4.
          destruct (exec_block ev k s3 (fd_body fd)) as [v s4|e4 s4| |w4].
          * cbn [stray_signal]. eapply R_ok_e_s_trans; [exact W0|exact H03|apply R_ok_b_s; exact H4].
          * destruct H4 as [H4 _].
            assert (H04 : R_er st0 s4) by (eapply R_ok_e_er; [exact W0|exact H03|apply R_er_b_er; exact H4]).
            pose proof (bal_handle_exception k st0 (fd_catch fd) e4 s4 W0 H04) as H5.
            rewrite <- Hlen in H5.
            pose proof (stray_no_sig (handle_exception ev k (length (stack st)) (fd_catch fd) e4 s4)) as Hn.
            pose proof (stray_state (handle_exception ev k (length (stack st)) (fd_catch fd) e4 s4)) as Hst.
            destruct (handle_exception ev k (length (stack st)) (fd_catch fd) e4 s4) as [v5 s5|e5 s5| |w5];
              destruct (stray_signal _) as [v6 s6|e6 s6| |w6]; try exact I; try contradiction; subst.
            -- exact H5.
            -- split; [exact H5|exact Hn].
          * exact I.
          * exact I.
        + (* hoist failed *)
          destruct H3 as [H3a H3b]. apply (R_er_e_er _ _ (R_wf_ok_e _ _ H2)) in H3a.
          assert (H03 : R_er st0 s3) by (eapply R_ok_e_er; eassumption).
          pose proof (bal_handle_exception k st0 (fd_catch fd) e3 s3 W0 H03) as H5.
          rewrite <- Hlen in H5.
          pose proof (stray_no_sig (handle_exception ev k (length (stack st)) (fd_catch fd) e3 s3)) as Hn.
          pose proof (stray_state (handle_exception ev k (length (stack st)) (fd_catch fd) e3 s3)) as Hst.
          destruct (handle_exception ev k (length (stack st)) (fd_catch fd) e3 s3) as [v5 s5|e5 s5| |w5];
            destruct (stray_signal _) as [v6 s6|e6 s6| |w6]; try exact I; try contradiction; subst.
          -- exact H5.
          -- split; [exact H5|exact Hn].
        + exact I.
        + exact I. }
    destruct inner as [v s|e s| |w]; cbn [scoped]; try exact I.
    - apply end_scope_ok_b; assumption.
    - destruct Hin as [Ha Hb]. split; [apply end_scope_er_b; assumption|exact Hb].
  Qed.

  Lemma pres_new_object fuel st c cd : pres st (new_object fuel st c cd).
  Proof.
    unfold new_object.
    match goal with |- pres _ (bind (?g (c_props cd) st []) _) => set (go := g) end.
    assert (Hg : forall ps s acc, pres s (go ps s acc)).
    { induction ps as [|[p v] tl IH]; intros s acc; cbn; [reflexivity|].
      apply pres_bind; [apply pres_dup_res|]. intros v' s2 Hc. apply IH. }
    apply pres_bind; [apply Hg|]. intros props s1 Hc. unfold alloc. cbn. reflexivity.
  Qed.

  (* ClassModel.Construct *)
  Lemma bal_construct k st c args : bal_e st (construct ev k st c args).
  Proof.
    unfold construct. destruct (nth_error (classes st) c) as [cd|]; [|intros _; exact I].
    apply bal_e_bind; [apply pres_bal_e, pres_new_object|]. intros inst s1 _.
    destruct (c_ctor cd).
    - intros W; apply R_ok_e_refl; exact W.
    - destruct args as [|a [|b tl]]; try apply bal_e_er_run;
        destruct a; try apply bal_e_er_run; intros W; apply R_ok_e_refl; exact W.
    - destruct (nth_error (funs s1) f) as [fd|]; [|intros _; exact I].
      intros W. pose proof (bal_exec_exec_block k (push_frame s1 2 (Some inst)) fd args (wf_push _ _ _ W)) as H.
      destruct (exec_exec_block ev k (push_frame s1 2 (Some inst)) fd args) as [v s3|e s3| |w]; cbn [bind]; try exact I.
      + eapply call_frame_ok; eassumption.
      + destruct H as [H1 H2]. split; [eapply call_frame_er; eassumption|exact H2].
  Qed.

  Lemma convert_err_inv (r : res val) :
    match r, convert_err r with
    | Ok v s, Ok v' s' => v = v' /\ s = s'
    | Er e s, Er e' s' => s = s' /\ (no_sig e -> no_sig e')
    | Fuel, Fuel => True
    | Crash _, Crash _ => True
    | _, _ => False
    end.
  Proof. destruct r as [v s|e s| |w]; cbn; try tauto. destruct e; cbn; tauto. Qed.

  (* a call that runs in a pushed frame: frame popped on success, left on error *)
  Lemma bal_call_fun_framed k s1 kind this f args :
    wf s1 ->
    match call_fun ev k (push_frame s1 kind this) f args with
    | Ok _ s3 => R_ok_e s1 (pop_frame s3)
    | Er e s3 => R_er_e s1 s3 /\ no_sig e
    | _ => True
    end.
  Proof.
    intros W. unfold call_fun. destruct (nth_error (funs (push_frame s1 kind this)) f) as [fd|]; [|exact I].
    pose proof (bal_exec_exec_block k (push_frame s1 kind this) fd args (wf_push _ _ _ W)) as H.
    pose proof (convert_err_inv (exec_exec_block ev k (push_frame s1 kind this) fd args)) as Hc.
    destruct (exec_exec_block ev k (push_frame s1 kind this) fd args) as [v s3|e s3| |w];
      destruct (convert_err _) as [v' s'|e' s'| |w']; try exact I; try contradiction.
    - destruct Hc as [_ <-]. eapply call_frame_ok; eassumption.
    - destruct Hc as [<- Hn]. destruct H as [H1 H2]. split; [eapply call_frame_er; eassumption|apply Hn, H2].
  Qed.

  (* execDirectFunction *)
  Lemma bal_exec_direct k st f args : bal_e st (exec_direct ev k st f args).
  Proof.
    unfold exec_direct. apply bal_e_bind; [apply pres_bal_e, pres_vm_find|]. intros fv s1 _ W.
    destruct fv; try (split; [apply R_er_leaked; exact W|reflexivity]).
    - pose proof (bal_call_fun_framed k s1 (if is_global f then 4 else 2) None f0 args W) as H.
      destruct (call_fun ev k (push_frame s1 (if is_global f then 4 else 2) None) f0 args) as [v s3|e s3| |w]; cbn [bind]; try exact I; exact H.
    - destruct (k0 =? ID_DISPLAY); [|exact I].
      apply ctl_R_ok_e; [exact W|reflexivity].
  Qed.

  Lemma pres_framed_pop {A} s1 kind this (r : res A) :
    wf s1 -> pres (push_frame s1 kind this) r ->
    match r with
    | Ok _ s3 => R_ok_e s1 (pop_frame s3)
    | Er e s3 => R_er_e s1 s3 /\ no_sig e
    | _ => True
    end.
  Proof.
    intros W H. destruct r as [a s3|e s3| |w]; try exact I; cbn [pres] in H.
    - apply ctl_R_ok_e; [exact W|]. unfold ctl in *. inversion H as [[Hs Hd Hy]].
      cbn [pop_frame stack depth syms set_stack]. rewrite Hs, Hd, Hy. reflexivity.
    - destruct H as [H Hn]. split; [|exact Hn].
      eapply R_er_e_ctl_l with (a := s1); [reflexivity|].
      pose proof (R_er_leaked s1 kind this W) as HL.
      destruct HL as ([ex Hb] & Hd & He & Hw).
      unfold ctl in H. inversion H as [[Hs Hdd Hy]].
      split; [exists ex; congruence|].
      split; [congruence|]. split.
      + destruct He as [new [Hn1 Hn2]]. exists new. unfold shape in *. rewrite Hy. split; assumption.
      + unfold wf. rewrite Hs, Hdd, Hy. exact Hw.
  Qed.

  (* execMethodFunction *)
  Lemma bal_exec_method k st root m args : bal_e st (exec_method ev k st root m args).
  Proof.
    unfold exec_method. destruct root; try (intros _; exact I);
      try (intros W; split; [apply R_er_leaked; exact W|reflexivity]).
    - (* number *)
      intros W.
      match goal with |- context [num_method _ ?b m args] =>
        pose proof (pres_framed_pop st 4 (Some (VNum b)) _ W (pres_num_method (push_frame st 4 (Some (VNum b))) b m args)) as H;
        destruct (num_method (push_frame st 4 (Some (VNum b))) b m args); cbn [bind]; try exact I; exact H
      end.
    - (* list *)
      intros W. destruct (hget (push_frame st 4 (Some (VList l))) l) as [[items|?|? ?]|]; try exact I.
      pose proof (pres_framed_pop st 4 (Some (VList l)) _ W (pres_list_method k (push_frame st 4 (Some (VList l))) l items m args)) as H.
      destruct (list_method k _ l items m args); cbn [bind]; try exact I; exact H.
    - intros W. destruct (hget (push_frame st 4 (Some (VDict l))) l) as [[?|kvs|? ?]|]; try exact I.
      pose proof (pres_framed_pop st 4 (Some (VDict l)) _ W (pres_dict_method k (push_frame st 4 (Some (VDict l))) l kvs m args)) as H.
      destruct (dict_method k _ l kvs m args); cbn [bind]; try exact I; exact H.
    - (* object *)
      destruct (hget st l) as [[?|?|c props]|]; try (intros _; exact I).
      destruct (nth_error (classes st) c) as [cd|]; [|intros _; exact I].
      apply bal_e_bind; [apply pres_bal_e, pres_vm_find|]. intros _ s1 _ W.
      destruct (assoc_nat m (c_methods cd)) as [fid|]; [|split; [apply R_er_leaked; exact W|reflexivity]].
      pose proof (bal_call_fun_framed k s1 2 (Some (VObj l)) fid args W) as H.
      destruct (call_fun ev k (push_frame s1 2 (Some (VObj l))) fid args); cbn [bind]; try exact I; exact H.
  Qed.
End Calls.

(* ------------------------------------------------------------------------------------------ *)
(* the global theorem: every expression evaluation is balanced                                  *)

Theorem eval_expr_balanced : forall n st e, bal_e st (eval_expr n st e).
Proof.
  induction n as [|n IH]; intros st e; [intros _; exact I|].
  cbn [eval_expr]. set (ev := eval_expr n).
  assert (Hev : forall st e, bal_e st (ev st e)) by exact IH.
  destruct e.
  - intros W; apply R_ok_e_refl; exact W.
  - intros W; apply R_ok_e_refl; exact W.
  - apply pres_bal_e, pres_vm_find.
  - apply bal_e_bind; [apply bal_evs; exact Hev|]. intros vs s1 _. unfold alloc. apply bal_e_ok_ctl. reflexivity.
  - apply bal_e_bind; [apply bal_evs; exact Hev|]. intros vs s1 _. unfold alloc. apply bal_e_ok_ctl. reflexivity.
  - (* arithmetic *)
    apply bal_e_bind; [apply Hev|]. intros a s1 _.
    destruct op; try (destruct (negb (is_num a)); [apply bal_e_er_run|]);
      (apply bal_e_bind; [apply Hev|]; intros b s2 _; apply pres_bal_e, pres_arith_op).
  - (* logic *)
    destruct op;
      try (apply bal_e_bind; [apply Hev|]; intros a s1 _;
           apply bal_e_bind; [apply Hev|]; intros b s2 _; apply pres_bal_e, pres_compare_op).
    + apply bal_e_bind; [apply Hev|]. intros a s1 _. destruct a; try apply bal_e_er_run.
      destruct b; [|intros W; apply R_ok_e_refl; exact W].
      apply bal_e_bind; [apply Hev|]. intros b s2 _. destruct b; try apply bal_e_er_run.
      intros W; apply R_ok_e_refl; exact W.
    + apply bal_e_bind; [apply Hev|]. intros a s1 _. destruct a; try apply bal_e_er_run.
      destruct b; [intros W; apply R_ok_e_refl; exact W|].
      apply bal_e_bind; [apply Hev|]. intros b s2 _. destruct b; try apply bal_e_er_run.
      intros W; apply R_ok_e_refl; exact W.
  - (* assignment to a name *)
    apply bal_e_bind; [apply Hev|]. intros v s1 _.
    apply bal_e_bind; [apply pres_bal_e, pres_dup_res|]. intros v' s2 _.
    apply bal_e_bind; [apply bal_e_vm_set|]. intros _ s3 _ W; apply R_ok_e_refl; exact W.
  - apply bal_e_bind; [apply Hev|]. intros v s1 _.
    apply bal_e_bind; [apply pres_bal_e, pres_dup_res|]. intros v' s2 _.
    apply bal_e_bind; [apply Hev|]. intros rv s3 _.
    apply bal_e_bind; [apply Hev|]. intros iv s4 _.
    apply bal_e_bind; [apply pres_bal_e, pres_index_set|]. intros _ s5 _ W; apply R_ok_e_refl; exact W.
  - apply bal_e_bind; [apply Hev|]. intros v s1 _.
    apply bal_e_bind; [apply pres_bal_e, pres_dup_res|]. intros v' s2 _.
    apply bal_e_bind; [apply Hev|]. intros rv s3 _.
    apply bal_e_bind; [apply pres_bal_e, pres_set_property|]. intros _ s4 _ W; apply R_ok_e_refl; exact W.
  - apply bal_e_bind; [apply Hev|]. intros v s1 _.
    apply bal_e_bind; [apply pres_bal_e, pres_dup_res|]. intros v' s2 _.
    destruct (top_this s2); [|apply bal_e_er_run].
    apply bal_e_bind; [apply pres_bal_e, pres_set_property|]. intros _ s3 _ W; apply R_ok_e_refl; exact W.
  - apply bal_e_bind; [apply Hev|]. intros rv s1 _.
    apply bal_e_bind; [apply Hev|]. intros iv s2 _. apply pres_bal_e, pres_index_get.
  - apply bal_e_bind; [apply Hev|]. intros rv s1 _. apply pres_bal_e, pres_get_property.
  - destruct (top_this st); [apply pres_bal_e, pres_get_property|apply bal_e_er_run].
  - (* call *)
    apply bal_e_bind; [apply bal_evs; exact Hev|]. intros vs s1 _.
    apply bal_e_bind; [apply bal_exec_direct; exact Hev|]. intros v s2 _.
    destruct yield; [|intros W; apply R_ok_e_refl; exact W].
    apply bal_e_bind; [apply bal_e_vm_declare|]. intros _ s3 _ W; apply R_ok_e_refl; exact W.
  - (* method chain *)
    apply bal_e_bind; [apply Hev|]. intros rv s1 _.
    match goal with |- bal_e _ (bind (?g chain rv s1) _) => set (chain_go := g) end.
    assert (Hc : forall ch cur s, bal_e s (chain_go ch cur s)).
    { induction ch as [|[m args] tl IHc]; intros cur s; cbn.
      - intros W; apply R_ok_e_refl; exact W.
      - apply bal_e_bind; [apply bal_evs; exact Hev|]. intros vs sa _.
        apply bal_e_bind; [apply bal_exec_method; exact Hev|]. intros v sb _. apply IHc. }
    apply bal_e_bind; [apply Hc|]. intros v s2 _.
    destruct yield; [|intros W; apply R_ok_e_refl; exact W].
    apply bal_e_bind; [apply bal_e_vm_declare|]. intros _ s3 _ W; apply R_ok_e_refl; exact W.
  - (* 新建 *)
    apply bal_e_bind; [apply pres_bal_e, pres_vm_find|]. intros cv s1 _.
    destruct cv; try apply bal_e_er_run.
    + apply bal_e_bind; [apply bal_evs; exact Hev|]. intros vs s2 _. apply bal_construct; exact Hev.
    + apply bal_e_bind; [apply bal_evs; exact Hev|]. intros vs s2 _.
      destruct vs as [|a [|b tl]]; try apply bal_e_er_run;
        destruct a; try apply bal_e_er_run; intros W; apply R_ok_e_refl; exact W.
Qed.
