(* C03 - type definitions (定义 C ： + items 其 P = e / 如何 M ？ / 何为 G ？), constructors (如何 新建 C ？), method-call
   statements (以 X （ M ： a 、 b ） 、 （ N ） 得到 R) and member expressions 其 P, TOKEN LEVEL.
   Extends proofs/SectionsTokProofs.v.  Surface syntax in two layers (no recursion, so no induction principle is needed):
     mstmt  - a statement of a method / function / constructor body or of the program: any [ystmt] (MY), a method-call
              statement (MCall), 其 P = e (MSet), 输出 其 P (MOutProp);
     zstmt  - a statement of the program: an [mstmt] (ZM), a function or constructor definition whose body is made of
              [mstmt] (ZFunc ctor ...), a type definition (ZClass) whose items are [kitem].
   The exec-block / program lemmas of SectionsTokProofs are re-proved once, generically in the statement type
   (Section GenExec), and instantiated at mstmt and zstmt. *)
From Coq Require Import List ZArith Bool Lia Arith.
Import ListNotations.
From Zn.gen Require Import GenFrontTokens.
From Zn.model Require Import LexerTok Lexer Ast Parser.
From Zn.model Require StringLit.
From Zn.proofs Require Import FrontLexProofs FrontCompleteProofs FrontTotalProofs ExprPrecProofs ChainPrecProofs StmtNestProofs.
From Zn.proofs Require Import SectionsTokProofs.
Open Scope Z_scope.

(* ================================================================== first tokens of lines *)
Definition zheads : list Z := yheads ++ [g_TypeObjThisW; g_TypeObjDefineW].
Definition zxheads : list Z := zheads ++ [g_TypeCatchErrorW].
Lemma zxheads_facts : forall ty, mem ty zxheads = true -> xhead_spec ty.
Proof.
  intros ty H. apply mem_in in H. unfold zxheads, zheads, yheads, sheads in H. cbn [app] in H.
  repeat (destruct H as [H|H]; [subst ty; constructor; reflexivity|]). destruct H.
Qed.
Lemma zheads_catch : forall ty, mem ty zheads = true -> mem ty [g_TypeCatchErrorW] = false.
Proof.
  intros ty H. apply mem_in in H. unfold zheads, yheads, sheads in H. cbn [app] in H.
  repeat (destruct H as [H|H]; [subst ty; reflexivity|]). destruct H.
Qed.
Lemma mem_zxheads : forall ty, mem ty zheads = true -> mem ty zxheads = true.
Proof. intros ty H. unfold zxheads, mem. rewrite existsb_app. unfold mem in H. rewrite H. reflexivity. Qed.
Lemma mem_zheads : forall ty, mem ty yheads = true -> mem ty zheads = true.
Proof. intros ty H. unfold zheads, mem. rewrite existsb_app. unfold mem in H. rewrite H. reflexivity. Qed.

(* ================================================================== exec blocks and programs, generic in the statement type *)
Section GenExec.
Variable A : Type.
Variable alines : nat -> A -> list pline.
Variable aast : A -> stmt.
Variable afuel : A -> nat.
Variable awf : A -> bool.
Hypothesis a_head : forall d s, exists t ts sm r, alines d s = (d, t :: ts, sm) :: r /\ mem (fst t) zheads = true.
Hypothesis a_stmt : forall s, awf s = true -> forall d F st st', (afuel s <= F)%nat -> lfeeds (alines d s) st st' ->
  bind_ st = Z.of_nat d -> folS (Z.of_nat d) st' ->
  flag st' = true /\ exists b', parse F NStmt st = Ok (aast s) (setb st' b').

Definition ablines (d : nat) (b : list A) : list pline := flat_map (alines d) b.
Definition abfuel (b : list A) : nat := fold_right (fun x a => S (afuel x + a)) 1%nat b.
Definition axlines (d : nat) (ins : list lit) (b : list A) (cs : list (lit * list ystmt)) : list pline :=
  inlines d ins ++ ablines d b ++ yclines d cs.
Definition axfuel (ins : list lit) (b : list A) (cs : list (lit * list ystmt)) : nat :=
  (4 + length ins + abfuel b + ycfuel cs)%nat.
Lemma abfuel_cons : forall x r, abfuel (x :: r) = S (afuel x + abfuel r). Proof. reflexivity. Qed.

Lemma a_bc_head : forall d (b : list A) cs, b <> [] \/ cs <> [] ->
  exists t ts sm r, ablines d b ++ yclines d cs = (d, t :: ts, sm) :: r /\ mem (fst t) zxheads = true.
Proof.
  intros d b cs N. destruct b as [|s b'].
  - destruct cs as [|c cs']; [destruct N; congruence|]. cbn [ablines flat_map app yclines].
    eexists _, _, _, _. split; reflexivity.
  - cbn [ablines flat_map]. destruct (a_head d s) as (t & ts & sm & r & E & M). rewrite E. cbn [app].
    eexists _, _, _, _. split; [reflexivity|apply mem_zxheads; exact M].
Qed.

Lemma a_nil_dec : forall (r : list A) (cs : list (lit * list ystmt)), (r = [] /\ cs = []) \/ (r <> [] \/ cs <> []).
Proof. intros [|x r] [|c cs]; [left; auto|right; right; discriminate|right; left; discriminate|right; left; discriminate]. Qed.

Lemma a_exec_stmts : forall b, forallb awf b = true -> forall cs, CatchesP cs ->
  forall d ins acc F st st', (abfuel b + ycfuel cs <= F)%nat ->
    lfeeds (ablines d b ++ yclines d cs) st st' -> endblk (Z.of_nat d) st' ->
    (b <> [] \/ cs <> [] -> flag st' = true) /\
    exists b', parse F (NExec (Z.of_nat d) 2 ins acc []) st
               = Ok (XBlock ins (acc ++ map aast b) (map ycatch cs)) (setb st' b').
Proof.
  induction b as [|s r IH]; intros W cs HC d ins acc F st st' LF L EB.
  - cbn [ablines flat_map app] in L. cbn [abfuel fold_right] in LF.
    destruct (exec_catches cs HC d 2 ins acc [] F st st' (or_introl eq_refl) ltac:(lia) L EB) as (FL & b' & PX).
    split; [intros [N|N]; [congruence|exact (FL N)]|]. exists b'. cbn [map]. rewrite app_nil_r. exact PX.
  - cbn [forallb] in W. apply andb_true_iff in W. destruct W as [Ws Wr].
    cbn [ablines flat_map] in L. fold (ablines d r) in L. rewrite <- app_assoc in L.
    apply lfeeds_app in L. destruct L as (stm & L1 & L2).
    destruct (a_head d s) as (t & ts & sm & rr & E & MH).
    assert (HD : peek_indent st = Z.of_nat d /\ exists tk, p2 st = Some tk /\ t_ty tk = fst t /\ text_of tk = snd t).
    { rewrite E in L1. eapply lfeeds_hd; eauto. }
    destruct HD as (PI & tk & P2 & Ty & _).
    assert (FO : folS (Z.of_nat d) stm).
    { destruct (a_nil_dec r cs) as [[Er Ec]|N].
      - subst r cs. cbn [ablines yclines flat_map app] in L2. inversion L2; subst. apply endblk_folS. exact EB.
      - destruct (a_bc_head d r cs N) as (t2 & ts2 & sm2 & r2 & E2 & M2).
        rewrite E2 in L2. destruct (lfeeds_hd _ _ _ _ _ _ _ L2) as (PI2 & tk2 & P22 & Ty2 & _).
        destruct (zxheads_facts _ M2) as [C2 _ B2 _ _]. rewrite <- Ty2 in C2, B2.
        apply (folS_same _ _ tk2); auto. }
    destruct F as [|f]; [cbn in LF; lia|]. rewrite abfuel_cons in LF.
    assert (L1' : lfeeds (alines d s) (reb st false (Z.of_nat d)) (setb stm (Z.of_nat d))).
    { rewrite E in *. apply (lfeeds_reb _ _ _ _ false (Z.of_nat d)) in L1. exact L1. }
    destruct (a_stmt s Ws d f (reb st false (Z.of_nat d)) (setb stm (Z.of_nat d)) ltac:(lia) L1' eq_refl FO) as (FL & b1 & PS).
    change (setb (setb stm (Z.of_nat d)) b1) with (setb stm b1) in PS.
    assert (L2' : lfeeds (ablines d r ++ yclines d cs) (setb stm b1) (setb st' b1)) by (apply lfeeds_setb; exact L2).
    destruct (IH Wr cs HC d ins (acc ++ [aast s]) f (setb stm b1) (setb st' b1) ltac:(lia) L2' EB) as (FL2 & b2 & PB).
    change (setb (setb st' b1) b2) with (setb st' b2) in PB.
    split.
    { intros _. destruct (a_nil_dec r cs) as [[Er Ec]|N].
      - subst r cs. cbn [ablines yclines flat_map app] in L2. inversion L2; subst. exact FL.
      - apply (FL2 N). }
    exists b2. destruct (zxheads_facts _ (mem_zxheads _ MH)) as [C NE _ _ _]. pose proof (zheads_catch _ MH) as MC.
    rewrite <- Ty in C, NE, MC.
    cbn [parse]. rewrite (bgo_true _ _ tk P2 NE PI).
    stepb (set_bind_reb (Z.of_nat d) st). zsimp. cbv iota. stepb (set_flag_reb false (setb st (Z.of_nat d))).
    change (reb (setb st (Z.of_nat d)) false (bind_ (setb st (Z.of_nat d)))) with (reb st false (Z.of_nat d)).
    stepb (tc_none_p2 [g_TypeCatchErrorW] (reb st false (Z.of_nat d)) tk P2 eq_refl C MC).
    stepb PS. cbn [map]. rewrite <- app_assoc in PB. exact PB.
Qed.

Lemma a_exec_block : forall ins b cs, forallb awf b = true -> CatchesP cs -> (b <> [] \/ cs <> []) ->
  forall d F st st' bb, (axfuel ins b cs <= F)%nat -> lfeeds (axlines d ins b cs) st st' -> endblk (Z.of_nat d) st' ->
  flag st' = true /\
  exists b', parse F (NExec (Z.of_nat d) 1 [] [] []) (reb st false bb)
             = Ok (XBlock ins (map aast b) (map ycatch cs)) (setb st' b').
Proof.
  intros ins b cs W HC N d F st st' bb LF L EB. unfold axfuel in LF. unfold axlines in L.
  destruct (a_bc_head d b cs N) as (t & ts & sm & r & E & MH). pose proof (zxheads_facts _ MH) as XH.
  destruct ins as [|x xs].
  - cbn [inlines app] in L. cbn [length] in LF.
    pose proof L as L0. rewrite E in L0. destruct (lfeeds_hd _ _ _ _ _ _ _ L0) as (PI & tk & P2 & Ty & _).
    destruct XH as [C NE _ _ MN]. rewrite <- Ty in C, NE, MN.
    assert (L' : lfeeds (ablines d b ++ yclines d cs) (reb st false (Z.of_nat d)) (setb st' (Z.of_nat d))).
    { rewrite E in *. apply (lfeeds_reb _ _ _ _ false (Z.of_nat d)) in L. exact L. }
    destruct F as [|f]; [lia|].
    destruct (a_exec_stmts b W cs HC d [] [] f _ _ ltac:(lia) L' EB) as (FL & b' & PX).
    change (setb (setb st' (Z.of_nat d)) b') with (setb st' b') in PX. cbn [app] in PX.
    split; [exact (FL N)|]. exists b'.
    cbn [parse]. rewrite (bgo_true _ (reb st false bb) tk P2 NE PI).
    stepb (set_bind_reb (Z.of_nat d) (reb st false bb)). zsimp. cbv iota.
    change (setb (reb st false bb) (Z.of_nat d)) with (reb st false (Z.of_nat d)).
    stepb (tc_none_p2 [g_TypeInputW] (reb st false (Z.of_nat d)) tk P2 eq_refl C MN). exact PX.
  - cbn [inlines app] in L.
    apply (lfeeds_reb _ _ _ _ false (Z.of_nat d)) in L.
    inversion L as [|d0 ts0 sm0 rest s0 st1 s2 PI FE FL1 LR]; subst. specialize (FL1 eq_refl).
    change (reb (reb st false (Z.of_nat d)) false (bind_ (reb st false (Z.of_nat d)))) with (reb st false (Z.of_nat d)) in FE.
    pose proof (feeds_bind _ _ _ FE) as BD. cbn [reb bind_] in BD.
    apply feeds_cons in FE. destruct FE as (HK & s0a & PN & FE).
    pose proof LR as L0. rewrite E in L0. destruct (lfeeds_hd _ _ _ _ _ _ _ L0) as (PI1 & tk1 & P21 & Ty1 & _).
    destruct XH as [C NE _ _ _]. rewrite <- Ty1 in C, NE.
    destruct F as [|[|f]]; try (cbn [length] in LF; lia).
    destruct (a_exec_stmts b W cs HC d (x :: xs) [] f st1 _ ltac:(cbn [length] in LF; lia) LR EB) as (FL & b' & PX).
    change (setb (setb st' (Z.of_nat d)) b') with (setb st' b') in PX. cbn [app] in PX.
    split; [exact (FL N)|]. exists b'.
    assert (PIL : parse (S f) (NIdList []) s0a = Ok (x :: xs) st1).
    { apply (idlist_run (x :: xs) ltac:(discriminate) (S f) [] s0a st1 ltac:(cbn [length] in *; lia) FE).
      apply (tc_none_flag _ st1 tk1 P21 C FL1). }
    assert (PIN : parse (S f) (NExec (Z.of_nat d) 1 (x :: xs) [] []) st1
                  = Ok (XBlock (x :: xs) (map aast b) (map ycatch cs)) (setb st' b')).
    { cbn [parse]. rewrite (bgo_true _ st1 tk1 P21 NE PI1). stepb (set_bind_same st1 (Z.of_nat d) BD). zsimp. cbv iota.
      stepb (tc_none_flag [g_TypeInputW] st1 tk1 P21 C FL1). exact PX. }
    destruct (tc_take [g_TypeInputW] _ _ _ _ HK PN eq_refl eq_refl) as (tk & T & Ty & _).
    destruct HK as (_ & tk0 & P0 & Ty0 & _). cbn [reb p2] in P0. cbn [kwt fst] in Ty0.
    remember (S f) as g eqn:Eg. cbn [parse].
    rewrite (bgo_true _ (reb st false bb) tk0 P0 ltac:(rewrite Ty0; reflexivity) PI).
    stepb (set_bind_reb (Z.of_nat d) (reb st false bb)). zsimp. cbv iota.
    change (setb (reb st false bb) (Z.of_nat d)) with (reb st false (Z.of_nat d)).
    stepb T. stepb PIL. cbn [app]. exact PIN.
Qed.

Lemma a_yx_head : forall d ins b cs, b <> [] \/ cs <> [] ->
  exists t ts sm r, axlines d ins b cs = (d, t :: ts, sm) :: r /\
    (fst t =? g_TypeEOF) = false /\ (fst t =? g_TypeCommaSep) = false /\ mem (fst t) [g_TypeImportW] = false.
Proof.
  intros d ins b cs N. unfold axlines. destruct ins as [|x xs].
  - cbn [inlines app]. destruct (a_bc_head d b cs N) as (t & ts & sm & r & E & MH). rewrite E.
    eexists _, _, _, _. split; [reflexivity|]. destruct (zxheads_facts _ MH). auto.
  - cbn [inlines app]. eexists _, _, _, _. split; [reflexivity|]. repeat split; reflexivity.
Qed.

(* F ？ + exec block (ParseFuncBlock), after 如何 / 如何 新建 / 何为 *)
Lemma a_funcblock : forall n ins b cs d F s0a s0b st1 st', forallb awf b = true -> CatchesP cs -> (b <> [] \/ cs <> []) ->
  (axfuel ins b cs + 2 <= F)%nat ->
  headok (idt n) s0a -> p_next s0a = Ok tt s0b -> headok (kwt g_TypeFuncDeclare) s0b -> p_next s0b = Ok tt st1 ->
  bind_ st1 = Z.of_nat d ->
  lfeeds (axlines (S d) ins b cs) st1 st' -> endblk (Z.of_nat (S d)) st' ->
  flag st' = true /\
  exists b', parse F NFuncBlock s0a = Ok (n, XBlock ins (map aast b) (map ycatch cs)) (setb st' b').
Proof.
  intros n ins b cs d F s0a s0b st1 st' Wb HC N LF HI PNI HQ PQ BD LB EB.
  destruct (a_yx_head (S d) ins b cs N) as (t1 & ts1 & sm1 & r1 & E1 & NE1 & _ & _).
  pose proof LB as LB0. rewrite E1 in LB0. destruct (lfeeds_hd _ _ _ _ _ _ _ LB0) as (PI1 & tk1 & P21 & Ty1 & _).
  assert (F1 : flag st1 = false).
  { apply (p_next_keep _ _ _ _ tk1 HQ eq_refl PQ P21). rewrite Ty1. exact NE1. }
  assert (ES : st1 = reb st1 false (bind_ st1)).
  { destruct st1 as [a1 a2 a3 a4 a5 a6 a7 fl bi]. cbn [flag] in F1. subst fl. reflexivity. }
  destruct F as [|[|f]]; try lia.
  destruct (a_exec_block ins b cs Wb HC N (S d) (S f) st1 st' (bind_ st1) ltac:(lia) LB EB) as (FL & b' & PX).
  rewrite <- ES in PX.
  split; [exact FL|]. exists b'.
  remember (S f) as g eqn:Eg. cbn [parse]. stepb (parse_id_take _ _ _ HI PNI). stepb (consume_take _ _ _ _ HQ PQ eq_refl).
  stepb (get_bind_eq st1). rewrite BD. stepb (ebi_ok d st1 PI1). unfold bind at 1. rewrite PX. cbv beta iota. reflexivity.
Qed.

Lemma a_prog_exec : forall imps ins b cs st st' F, forallb awf b = true -> ycwf cs = true -> nonnil b || nonnil cs = true ->
  (axfuel ins b cs + 4 <= F)%nat -> lfeeds (axlines 0 ins b cs) st st' -> ateof st' ->
  exists b', parse F (NProgram 0 1 imps None) st
             = Ok (mkProgram imps (Some (XBlock ins (map aast b) (map ycatch cs)))) (setb st' b').
Proof.
  intros imps ins b cs st st' F W Wc Nn LF L EO.
  assert (N : b <> [] \/ cs <> []).
  { apply orb_true_iff in Nn. destruct Nn as [Nn|Nn]; apply nonnil_ne in Nn; auto. }
  destruct (a_yx_head 0 ins b cs N) as (t & ts & sm & r & E & NE & C & MI).
  pose proof L as L0. rewrite E in L0. destruct (lfeeds_hd _ _ _ _ _ _ _ L0) as (PI & tk & P2 & Ty & _).
  change (Z.of_nat 0) with 0 in PI. rewrite <- Ty in NE, C, MI.
  destruct F as [|[|[|f]]]; try lia.
  destruct (a_exec_block ins b cs W (catches_all cs Wc) N 0 (S f) st st' 0 ltac:(lia) L (ateof_endblk _ _ EO)) as (FL & b' & PX).
  change (Z.of_nat 0) with 0 in PX. exists b'.
  assert (BG : block_goes_on 0 (reb st false 0) = true) by (apply (bgo_true _ _ tk P2 NE PI)).
  assert (P2' : parse (S (S f)) (NProgram 0 2 imps None) (reb st false 0)
                = Ok (mkProgram imps (Some (XBlock ins (map aast b) (map ycatch cs)))) (setb st' b')).
  { remember (S f) as g eqn:Eg. cbn [parse]. rewrite BG. stepb (set_bind_reb 0 (reb st false 0)).
    stepb (set_flag_reb false (setb (reb st false 0) 0)). zsimp. cbv iota.
    change (reb (setb (reb st false 0) 0) false (bind_ (setb (reb st false 0) 0))) with (reb st false 0).
    stepb PX. rewrite Eg.
    exact (prog_end f 0 2 imps (Some (XBlock ins (map aast b) (map ycatch cs))) (setb st' b')
             (bgo_false _ _ (ateof_endblk 0 _ EO))). }
  remember (S (S f)) as g eqn:Eg. cbn [parse]. rewrite (bgo_true _ _ tk P2 NE PI).
  stepb (set_bind_reb 0 st). stepb (set_flag_reb false (setb st 0)). zsimp. cbv iota.
  change (reb (setb st 0) false (bind_ (setb st 0))) with (reb st false 0).
  stepb (tc_none_p2 [g_TypeImportW] (reb st false 0) tk P2 eq_refl C MI). exact P2'.
Qed.

(* programs: import lines, then the exec block *)
Lemma a_prog : forall is ins b cs F st st', forallb awf b = true -> ycwf cs = true ->
  (nonnil b || nonnil cs) || (isnil ins && nonnil is) = true ->
  (SectionsTokProofs.ifuel is + axfuel ins b cs + 5 <= F)%nat -> bind_ st = 0 ->
  lfeeds (map imp_line is ++ axlines 0 ins b cs) st st' -> ateof st' ->
  exists b', parse F (NProgram 0 1 [] None) st
             = Ok (mkProgram (map imp_ast is)
                     (if nonnil b || nonnil cs then Some (XBlock ins (map aast b) (map ycatch cs)) else None)) (setb st' b').
Proof.
  intros is ins b cs F st st' Wb Wc WX LF B L EO.
  apply lfeeds_app in L. destruct L as (st1 & LI & LX).
  assert (ES : st = setb st 0) by (rewrite <- B; symmetry; apply setb_same).
  rewrite ES.
  destruct (nonnil b || nonnil cs) eqn:Nn.
  - assert (N : b <> [] \/ cs <> []).
    { apply orb_true_iff in Nn. destruct Nn as [Nn'|Nn']; apply nonnil_ne in Nn'; auto. }
    assert (NC : nocomma st1).
    { destruct (a_yx_head 0 ins b cs N) as (t & ts & sm & r & E & _ & C & _).
      rewrite E in LX. destruct (lfeeds_hd _ _ _ _ _ _ _ LX) as (_ & tk & P2 & Ty & _).
      exists tk. split; [exact P2|]. rewrite Ty. exact C. }
    apply (imports_loop is [] st st1 (axfuel ins b cs + 4) _ st' LI NC); [|lia].
    intros F' LF'. cbn [app].
    apply (a_prog_exec (map imp_ast is) ins b cs (setb st1 0) (setb st' 0) F' Wb Wc Nn LF'); [|exact EO].
    apply lfeeds_setb. exact LX.
  - cbn [orb] in WX. apply andb_true_iff in WX. destruct WX as [Ni Nis].
    destruct ins; [|discriminate]. destruct b; [|discriminate]. destruct cs; [|discriminate].
    cbn in LX. inversion LX; subst.
    assert (NC : nocomma st').
    { destruct EO as (tk & P & E). exists tk. split; [exact P|]. rewrite E. reflexivity. }
    apply (imports_loop is [] st st' 1 _ st' LI NC); [|lia].
    intros F' LF'. cbn [app]. exists 0. destruct F' as [|f']; [lia|].
    exact (prog_end f' 0 1 (map imp_ast is) None (setb st' 0) (bgo_false _ _ (ateof_endblk 0 _ EO))).
Qed.
End GenExec.

(* ================================================================== method-call statements and 其 P *)
Definition mcall : Type := (lit * list cx)%type.                (* （ M ： a 、 b ） *)
Definition callin (c : mcall) : list atok :=
  idt (fst c) :: match snd c with [] => [] | _ => tColon :: sepcat tPause (map cshow (snd c)) end ++ [tFR].
Definition calltoks (c : mcall) : list atok := tFL :: callin c.
Definition callast (c : mcall) : call := Call (fst c) (map cast (snd c)) None.
Definition restoks (res : option lit) : list atok := match res with Some r => [kwt g_TypeGetResultW; idt r] | None => [] end.
Definition chaintoks (cs : list mcall) : list atok := flat_map (fun c => tPause :: calltoks c) cs.
Definition callfuel (c : mcall) : nat := (list_max (map ccfuel (snd c)) + length (snd c) + 2)%nat.
Definition chainfuel (cs : list mcall) : nat := fold_right (fun c a => S (callfuel c + a)) 1%nat cs.
Definition callwf (c : mcall) : bool := forallb cwf (snd c).
Lemma chaintoks_cons : forall c r, chaintoks (c :: r) = tPause :: tFL :: callin c ++ chaintoks r. Proof. reflexivity. Qed.
Lemma chainfuel_cons : forall c r, chainfuel (c :: r) = S (callfuel c + chainfuel r). Proof. reflexivity. Qed.

Definition thisprop (p : lit) : expr := EMember None RootTypeProp MemberID (Some p) None.

Inductive mstmt :=
| MY (s : ystmt)                                                 (* any statement of the Sections fragment *)
| MCall (root : cx) (c : mcall) (cs : list mcall) (res : option lit)   (* 以 X （ M ： a 、 b ） 、 （ N ） 得到 R *)
| MSet (p : lit) (e : cx)                                        (* 其 P = e   (e in braces when above + -) *)
| MOutProp (p : lit).                                            (* 输出 其 P *)

Definition mast (s : mstmt) : stmt :=
  match s with
  | MY y => yast y
  | MCall root c cs res => SExpr (EMethod (cast root) (map callast (c :: cs)) res)
  | MSet p e => SExpr (EAssign (thisprop p) (cast e))
  | MOutProp p => SReturn (thisprop p)
  end.
Definition mwf (s : mstmt) : bool :=
  match s with
  | MY y => ywf y
  | MCall root c cs res => cwf root && forallb callwf (c :: cs)
  | MSet p e => cwf e
  | MOutProp p => true
  end.
Definition mlines (d : nat) (s : mstmt) : list pline :=
  match s with
  | MY y => ylines d y
  | MCall root c cs res => [(d, kwt g_TypeVarOneW :: cshow root ++ calltoks c ++ chaintoks cs ++ restoks res, true)]
  | MSet p e => [(d, kwt g_TypeObjThisW :: idt p :: kwt g_TypeAssignMark :: copnd 2 e, true)]
  | MOutProp p => [(d, [kwt g_TypeReturnW; kwt g_TypeObjThisW; idt p], true)]
  end.
Definition mfuel (s : mstmt) : nat :=
  match s with
  | MY y => yfuel y
  | MCall root c cs res => (ccfuel root + callfuel c + chainfuel cs + 6)%nat
  | MSet p e => (ccfuel e + 12)%nat
  | MOutProp p => 12%nat
  end.

Lemma okm_all : forall l, forallb cwf l = true -> Forall (fun s => OKm false 6 s (ccfuel s)) l.
Proof.
  induction l as [|x r IH]; intro W; [constructor|]. cbn [forallb] in W. apply andb_true_iff in W. destruct W as [Wx Wr].
  constructor; [|apply IH; exact Wr]. destruct (ctree_all x Wx) as (OA & _ & _). apply OA. lia.
Qed.

Lemma funcall_false : forall g l f sta st1, forallb cwf l = true ->
  (list_max (map ccfuel l) + length l + 1 <= f)%nat ->
  feeds (idt g :: match l with [] => [] | _ => tColon :: sepcat tPause (map cshow l) end ++ [tFR]) sta st1 ->
  parse f (NFuncCall false) sta = Ok (Call g (map cast l) None) st1.
Proof.
  intros g l f sta st1 W LF FE. pose proof (okm_all l W) as HF.
  apply feeds_cons in FE. destruct FE as (HOg & stb & PNg & FE).
  destruct f as [|f]; [lia|]. cbn [parse].
  stepb (parse_id_take _ _ _ HOg PNg).
  destruct l as [|x r].
  - cbn [app] in FE. apply feeds_one in FE. destruct FE as [HOR PNR].
    stepb (tc_none_head [g_TypeFuncCall] _ _ stb HOR eq_refl eq_refl).
    unfold bind at 1. unfold ret at 1. cbv beta iota.
    stepb (consume_take _ _ _ _ HOR PNR eq_refl). reflexivity.
  - cbn [app] in FE. apply feeds_cons in FE. destruct FE as (HOc & stc & PNc & FE).
    apply feeds_app in FE. destruct FE as (std & FA & FE). apply feeds_one in FE. destruct FE as [HOR PNR].
    destruct (tc_take [g_TypeFuncCall] _ _ _ _ HOc PNc eq_refl eq_refl) as (tk & T & _).
    stepb T.
    stepb (args_items (x :: r) ltac:(discriminate) HF f [] stc std ltac:(lia) FA HOR).
    stepb (consume_take _ _ _ _ HOR PNR eq_refl). reflexivity.
Qed.

Lemma chain_run : forall cs F acc s st', forallb callwf cs = true -> (chainfuel cs <= F)%nat ->
  feeds (chaintoks cs) s st' -> tc [g_TypePauseCommaSep] st' = Ok None st' ->
  parse F (NChain acc) s = Ok (acc ++ map callast cs) st'.
Proof.
  induction cs as [|c r IH]; intros F acc s st' W LF FE TN.
  - cbn [chaintoks flat_map] in FE. inversion FE; subst. destruct F as [|f]; [cbn in LF; lia|].
    cbn [parse]. stepb TN. cbn [map]. rewrite app_nil_r. reflexivity.
  - cbn [forallb] in W. apply andb_true_iff in W. destruct W as [Wc Wr]. unfold callwf in Wc.
    rewrite chaintoks_cons in FE. rewrite chainfuel_cons in LF.
    apply feeds_cons in FE. destruct FE as (HP & s1 & PNP & FE).
    apply feeds_cons in FE. destruct FE as (HL & s2 & PNL & FE).
    apply feeds_app in FE. destruct FE as (s3 & FC & FE).
    destruct F as [|f]; [lia|].
    destruct (tc_take [g_TypePauseCommaSep] _ _ _ _ HP PNP eq_refl eq_refl) as (tk & T & _).
    cbn [parse]. stepb T. stepb (consume_take _ _ _ _ HL PNL eq_refl).
    stepb (funcall_false (fst c) (snd c) f s2 s3 Wc ltac:(unfold callfuel in LF; lia) FC).
    pose proof (IH f (acc ++ [callast c]) s3 st' Wr ltac:(lia) FE TN) as PI.
    rewrite <- app_assoc in PI. exact PI.
Qed.

Lemma stopbS_new : stopbS 6 g_TypeFuncQuoteL = true /\ stopbS 2 g_TypeAssignMark = true /\ stopbS 0 g_TypeAssignMark = true.
Proof. repeat split; vm_compute; reflexivity. Qed.

Definition MStmtP (s : mstmt) : Prop :=
  mwf s = true -> forall d F st st', (mfuel s <= F)%nat -> lfeeds (mlines d s) st st' -> bind_ st = Z.of_nat d ->
    folS (Z.of_nat d) st' ->
    flag st' = true /\ exists b', parse F NStmt st = Ok (mast s) (setb st' b').

Lemma mstmt_call : forall root c cs res, MStmtP (MCall root c cs res).
Proof.
  intros root c cs res W d F st st' LF L B FO. cbn [mwf] in W. cbn [mlines] in L. cbn [mfuel] in LF.
  apply andb_true_iff in W. destruct W as [Wroot W]. cbn [forallb] in W. apply andb_true_iff in W. destruct W as [Wc Wcs].
  unfold callwf in Wc.
  destruct (line1 _ _ _ _ _ L) as (PI & FE & FL). specialize (FL eq_refl).
  split; [exact FL|]. exists (bind_ st'). rewrite setb_same.
  destruct FO as (tkf & Pf & Cf & _).
  apply feeds_cons in FE. destruct FE as (HO & s0a & PN & FE).
  apply feeds_app in FE. destruct FE as (s0r & FR & FE).
  unfold calltoks in FE. cbn [app] in FE.
  apply feeds_cons in FE. destruct FE as (HL & s0l & PNL & FE).
  apply feeds_app in FE. destruct FE as (s0c & FC & FE).
  apply feeds_app in FE. destruct FE as (s0h & FH & FE).
  destruct (tc_take stmt_types _ _ _ _ HO PN eq_refl eq_refl) as (tk & T & Ty & _).
  destruct (tc_take [g_TypeIteratorW; g_TypeFuncQuoteL] _ _ _ _ HL PNL eq_refl eq_refl) as (tk2 & T2 & Ty2 & _).
  destruct F as [|[|f]]; try lia.
  assert (PV : parse (S f) NVarOne s0a = Ok (SExpr (EMethod (cast root) (map callast (c :: cs)) res)) st').
  { cbn [parse].
    stepb (parse_cshow_tokens_gen root false f s0a s0r s0r Wroot ltac:(lia) FR
             (stopsG_refl _ _ (headok_stopsS 6 _ _ _ HL (proj1 stopbS_new)))).
    stepb T2. rewrite Ty2. zsimp. cbv iota.
    stepb (funcall_false (fst c) (snd c) f s0l s0c Wc ltac:(unfold callfuel in LF; lia) FC).
    change (Call (fst c) (map cast (snd c)) None) with (callast c).
    destruct res as [r|]; cbn [restoks] in FE.
    - apply feeds_cons in FE. destruct FE as (HG & s0g & PNG & FE). apply feeds_one in FE. destruct FE as (HR & PNR).
      pose proof (chain_run cs f [callast c] s0c s0h Wcs ltac:(lia) FH (tc_none_head [g_TypePauseCommaSep] _ _ _ HG eq_refl eq_refl)) as PCh.
      unfold bind at 1.
      match goal with |- context [parse f (NChain ?l) s0c] =>
        replace (parse f (NChain l) s0c) with (Ok ([callast c] ++ map callast cs) s0h) by (symmetry; exact PCh) end.
      cbv beta iota.
      destruct (tc_take [g_TypeGetResultW] _ _ _ _ HG PNG eq_refl eq_refl) as (tk3 & T3 & _).
      stepb T3. stepb (parse_id_take _ _ _ HR PNR). reflexivity.
    - inversion FE; subst.
      pose proof (chain_run cs f [callast c] s0c st' Wcs ltac:(lia) FH (tc_none_flag [g_TypePauseCommaSep] st' tkf Pf Cf FL)) as PCh.
      unfold bind at 1.
      match goal with |- context [parse f (NChain ?l) s0c] =>
        replace (parse f (NChain l) s0c) with (Ok ([callast c] ++ map callast cs) st') by (symmetry; exact PCh) end.
      cbv beta iota.
      stepb (tc_none_flag [g_TypeGetResultW] st' tkf Pf Cf FL). reflexivity. }
  remember (S f) as g eqn:Eg.
  cbn [parse mast]. stepb (set_flag_reb false st). stepb T. cbv zeta. rewrite Ty.
  zsimp. cbv iota. stepb PV. stepb (stmt_done_flag st' FL). reflexivity.
Qed.

(* 其 P as a member expression *)
Lemma this_member : forall p f s0 s1 s2, headok (kwt g_TypeObjThisW) s0 -> p_next s0 = Ok tt s1 ->
  headok (idt p) s1 -> p_next s1 = Ok tt s2 -> stopsS 0 s2 ->
  pkm false 0 (S (S f)) s0 = Ok (thisprop p) s2.
Proof.
  intros p f s0 s1 s2 H0 P0 H1 P1 SS.
  destruct (tc_take [g_TypeObjThisW] _ _ _ _ H0 P0 eq_refl eq_refl) as (tk & T & _).
  destruct (tc_take [g_TypeIdentifier] _ _ _ _ H1 P1 eq_refl eq_refl) as (tk2 & T2 & _ & X2).
  pose proof (tailm_stopG false 0 f (thisprop p) s2 s2 (or_intror eq_refl) (stopsG_refl _ _ SS)) as PT.
  cbn [tailkm] in PT.
  remember (S f) as g eqn:Eg. cbn [pkm parse]. stepb T. stepb T2. rewrite X2. exact PT.
Qed.

Lemma this_expr : forall p f s0 s1 s2, headok (kwt g_TypeObjThisW) s0 -> p_next s0 = Ok tt s1 ->
  headok (idt p) s1 -> p_next s1 = Ok tt s2 -> stopsS 6 s2 ->
  parse (S (S f) + 6) (NExpr false) s0 = Ok (thisprop p) s2.
Proof.
  intros p f s0 s1 s2 H0 P0 H1 P1 SS.
  pose proof (this_member p f s0 s1 s2 H0 P0 H1 P1 (stopsS_le 6 0 s2 SS ltac:(lia))) as PM.
  exact (climbm false 6 0 (S (S f)) s0 s2 (thisprop p) ltac:(lia) PM SS).
Qed.

Lemma this_assign : forall p e f s0 s1 s2 s3 st', cwf e = true -> (ccfuel e <= f)%nat ->
  headok (kwt g_TypeObjThisW) s0 -> p_next s0 = Ok tt s1 -> headok (idt p) s1 -> p_next s1 = Ok tt s2 ->
  headok (kwt g_TypeAssignMark) s2 -> p_next s2 = Ok tt s3 -> feeds (copnd 2 e) s3 st' -> stopsS 6 st' ->
  parse (S (S (S f) + 2) + 3) (NExpr false) s0 = Ok (EAssign (thisprop p) (cast e)) st'.
Proof.
  intros p e f s0 s1 s2 s3 st' W LF H0 P0 H1 P1 HA PA FE SS.
  pose proof (this_member p f s0 s1 s2 H0 P0 H1 P1 (headok_stopsS 0 _ _ _ HA (proj2 (proj2 stopbS_new)))) as PM.
  assert (LG : (ccfuel e <= S (S f) + 2)%nat) by lia.
  remember (S (S f)) as g eqn:Eg.
  pose proof (climbm false 2 0 g s0 s2 _ ltac:(lia) PM (headok_stopsS 2 _ _ _ HA (proj1 (proj2 stopbS_new)))) as P2.
  change (parse (g + 2) NArith s0 = Ok (thisprop p) s2) in P2.
  pose proof (parse_coperand_tokens e false 2 (g + 2) s3 st' st' W ltac:(lia) LG FE
                (stopsG_refl _ _ (stopsS_le 6 2 st' SS ltac:(lia)))) as PR.
  change (parse (g + 2) NArith s3 = Ok (cast e) st') in PR.
  assert (P3 : pkm false 3 (S (g + 2)) s0 = Ok (EAssign (thisprop p) (cast e)) st').
  { change (parse (S (g + 2)) (NLv4 false) s0 = Ok (EAssign (thisprop p) (cast e)) st').
    rewrite lv4m_unf. unfold bind at 1. rewrite P2. cbv beta iota.
    destruct (tc_take (opsm false 3) _ _ _ _ HA PA eq_refl eq_refl) as (tka & Ta & _).
    stepb Ta. change (assignable (thisprop p)) with true. cbv iota.
    unfold bind at 1. rewrite PR. reflexivity. }
  exact (climbm false 3 3 (S (g + 2)) s0 st' _ ltac:(lia) P3 SS).
Qed.

Lemma mstmt_outprop : forall p, MStmtP (MOutProp p).
Proof.
  intros p W d F st st' LF L B FO. cbn [mlines] in L. cbn [mfuel] in LF.
  destruct (line1 _ _ _ _ _ L) as (PI & FE & FL). specialize (FL eq_refl).
  split; [exact FL|]. exists (bind_ st'). rewrite setb_same.
  apply feeds_cons in FE. destruct FE as (HO & s0a & PN & FE).
  apply feeds_cons in FE. destruct FE as (HT & s0t & PNT & FE). apply feeds_one in FE. destruct FE as (HP & PNP).
  destruct (tc_take stmt_types _ _ _ _ HO PN eq_refl eq_refl) as (tk & T & Ty & _).
  destruct F as [|f]; [lia|].
  assert (PE : parse f (NExpr false) s0a = Ok (thisprop p) st').
  { replace f with (S (S (f - 8)) + 6)%nat by lia. apply (this_expr p (f - 8) s0a s0t st' HT PNT HP PNP).
    eapply folS_stopsS; eauto. }
  cbn [parse mast]. stepb (set_flag_reb false st). stepb T. cbv zeta. rewrite Ty.
  zsimp. cbv iota.
  unfold bind at 1. unfold bind at 1. rewrite PE. cbv beta iota.
  unfold ret at 1. stepb (stmt_done_flag st' FL). reflexivity.
Qed.

Lemma mstmt_set : forall p e, MStmtP (MSet p e).
Proof.
  intros p e W d F st st' LF L B FO. cbn [mwf] in W. cbn [mlines] in L. cbn [mfuel] in LF.
  destruct (line1 _ _ _ _ _ L) as (PI & FE & FL). specialize (FL eq_refl).
  split; [exact FL|]. exists (bind_ st'). rewrite setb_same.
  pose proof FE as FE0. apply feeds_head in FE0.
  apply feeds_cons in FE. destruct FE as (HT & s1 & PNT & FE).
  apply feeds_cons in FE. destruct FE as (HP & s2 & PNP & FE).
  apply feeds_cons in FE. destruct FE as (HA & s3 & PNA & FE).
  destruct F as [|f]; [lia|].
  assert (PE : parse f (NExpr false) (reb st false (bind_ st)) = Ok (EAssign (thisprop p) (cast e)) st').
  { replace f with (S (S (S (f - 8)) + 2) + 3)%nat by lia.
    apply (this_assign p e (f - 8) _ s1 s2 s3 st' W ltac:(lia) HT PNT HP PNP HA PNA FE). eapply folS_stopsS; eauto. }
  cbn [parse mast]. stepb (set_flag_reb false st).
  stepb (tc_none_head stmt_types _ _ _ FE0 eq_refl eq_refl).
  stepb PE. stepb (stmt_done_flag st' FL). reflexivity.
Qed.

Theorem mstmt_all : forall s, MStmtP s.
Proof.
  intros [y|root c cs res|p e|p].
  - intros W d F st st' LF L B FO. exact (ystmt_all y W d F st st' LF L B FO).
  - apply mstmt_call.
  - apply mstmt_set.
  - apply mstmt_outprop.
Qed.

Lemma mlines_head : forall d s, exists t ts sm r, mlines d s = (d, t :: ts, sm) :: r /\ mem (fst t) zheads = true.
Proof.
  intros d [y|root c cs res|p e|p]; cbn [mlines].
  - destruct (ylines_head d y) as (t & ts & sm & r & E & M). rewrite E. eexists _, _, _, _.
    split; [reflexivity|apply mem_zheads; exact M].
  - eexists _, _, _, _. split; reflexivity.
  - eexists _, _, _, _. split; reflexivity.
  - eexists _, _, _, _. split; reflexivity.
Qed.

(* instances for bodies made of mstmt *)
Definition mblines := ablines mstmt mlines.
Definition mbfuel := abfuel mstmt mfuel.
Definition mxlines := axlines mstmt mlines.
Definition mxfuel := axfuel mstmt mfuel.
Definition m_funcblock := a_funcblock mstmt mlines mast mfuel mwf mlines_head mstmt_all.
Definition m_exec_block := a_exec_block mstmt mlines mast mfuel mwf mlines_head mstmt_all.

(* ================================================================== type definitions *)
Inductive kitem :=
| KProp (p : lit) (e : cx)                                                           (* 其 P = e *)
| KMethod (n : lit) (ins : list lit) (b : list mstmt) (cs : list (lit * list ystmt)) (* 如何 M ？ + exec block *)
| KGetter (n : lit) (ins : list lit) (b : list mstmt) (cs : list (lit * list ystmt)). (* 何为 G ？ + exec block *)

Definition mxast (ins : list lit) (b : list mstmt) (cs : list (lit * list ystmt)) : execblock :=
  XBlock ins (map mast b) (map ycatch cs).
Definition kprops1 (i : kitem) : list (lit * expr) := match i with KProp p e => [(p, cast e)] | _ => [] end.
Definition kmeths1 (i : kitem) : list (lit * Z * execblock) :=
  match i with KMethod n ins b cs => [(n, 1, mxast ins b cs)] | _ => [] end.
Definition kgets1 (i : kitem) : list (lit * Z * execblock) :=
  match i with KGetter n ins b cs => [(n, 2, mxast ins b cs)] | _ => [] end.
Definition kprops (l : list kitem) := flat_map kprops1 l.
Definition kmeths (l : list kitem) := flat_map kmeths1 l.
Definition kgets (l : list kitem) := flat_map kgets1 l.
Lemma kprops_cons : forall i r, kprops (i :: r) = kprops1 i ++ kprops r. Proof. reflexivity. Qed.
Lemma kmeths_cons : forall i r, kmeths (i :: r) = kmeths1 i ++ kmeths r. Proof. reflexivity. Qed.
Lemma kgets_cons : forall i r, kgets (i :: r) = kgets1 i ++ kgets r. Proof. reflexivity. Qed.

Definition mxwf (b : list mstmt) (cs : list (lit * list ystmt)) : bool :=
  (nonnil b || nonnil cs) && forallb mwf b && ycwf cs.
Definition kwf (i : kitem) : bool :=
  match i with KProp p e => cwf e | KMethod n ins b cs | KGetter n ins b cs => mxwf b cs end.
Definition klines (d : nat) (i : kitem) : list pline :=
  match i with
  | KProp p e => [(d, kwt g_TypeObjThisW :: idt p :: kwt g_TypeAssignMark :: cshow e, true)]
  | KMethod n ins b cs => (d, [kwt g_TypeFuncW; idt n; kwt g_TypeFuncDeclare], false) :: mxlines (S d) ins b cs
  | KGetter n ins b cs => (d, [kwt g_TypeGetterW; idt n; kwt g_TypeFuncDeclare], false) :: mxlines (S d) ins b cs
  end.
Definition kfuel (i : kitem) : nat :=
  match i with KProp p e => (ccfuel e + 4)%nat | KMethod n ins b cs | KGetter n ins b cs => (mxfuel ins b cs + 4)%nat end.
Definition kslines (d : nat) (l : list kitem) : list pline := flat_map (klines d) l.
Definition ksfuel (l : list kitem) : nat := fold_right (fun i a => S (kfuel i + a)) 1%nat l.
Lemma kslines_cons : forall d i r, kslines d (i :: r) = klines d i ++ kslines d r. Proof. reflexivity. Qed.
Lemma ksfuel_cons : forall i r, ksfuel (i :: r) = S (kfuel i + ksfuel r). Proof. reflexivity. Qed.

Definition kheads : list Z := [g_TypeFuncW; g_TypeGetterW; g_TypeObjThisW].
Lemma klines_head : forall d i, exists t ts sm r, klines d i = (d, t :: ts, sm) :: r /\ mem (fst t) kheads = true.
Proof. intros d [p e|n ins b cs|n ins b cs]; cbn [klines]; eexists _, _, _, _; split; reflexivity. Qed.
Lemma kheads_comma : forall ty, mem ty kheads = true -> (ty =? g_TypeCommaSep) = false.
Proof.
  intros ty H. apply mem_in in H. unfold kheads in H.
  repeat (destruct H as [H|H]; [subst ty; reflexivity|]). destruct H.
Qed.

Lemma mxwf_inv : forall b cs, mxwf b cs = true -> (b <> [] \/ cs <> []) /\ forallb mwf b = true /\ ycwf cs = true.
Proof.
  intros b cs W. unfold mxwf in W. apply andb_true_iff in W. destruct W as [W Wc]. apply andb_true_iff in W. destruct W as [Nn Wb].
  split; [|split; assumption].
  apply orb_true_iff in Nn. destruct Nn as [Nn|Nn]; apply nonnil_ne in Nn; auto.
Qed.

(* the loop of parseClassItems *)
Lemma class_items : forall items, forallb kwf items = true ->
  forall d F st st' ps ms gs, (ksfuel items <= F)%nat ->
    lfeeds (kslines d items) st st' -> endblk (Z.of_nat d) st' ->
    (items <> [] -> flag st' = true) /\
    exists b', parse F (NClassItems (Z.of_nat d) ps ms gs) st
               = Ok (ps ++ kprops items, ms ++ kmeths items, gs ++ kgets items) (setb st' b').
Proof.
  induction items as [|i r IH]; intros W d F st st' ps ms gs LF L EB.
  - cbn [kslines flat_map] in L. inversion L; subst. split; [congruence|]. exists (bind_ st'). rewrite setb_same.
    destruct F as [|f]; [cbn in LF; lia|]. cbn [parse]. rewrite (bgo_false _ _ EB).
    cbn [kprops kmeths kgets flat_map]. rewrite !app_nil_r. reflexivity.
  - cbn [forallb] in W. apply andb_true_iff in W. destruct W as [Wi Wr].
    rewrite kslines_cons in L. rewrite ksfuel_cons in LF.
    apply lfeeds_app in L. destruct L as (stm & L1 & LR).
    assert (NX : (exists tkm, p2 stm = Some tkm /\ (t_ty tkm =? g_TypeCommaSep) = false) /\ endblk (Z.of_nat (S d)) stm).
    { destruct r as [|i2 r'].
      - cbn [kslines flat_map] in LR. inversion LR; subst.
        split; [destruct EB as (tke & Pe & Ce & _); eauto|apply (endblk_mono (Z.of_nat d)); [lia|exact EB]].
      - destruct (klines_head d i2) as (t2 & ts2 & sm2 & r2 & E2 & M2). rewrite kslines_cons, E2 in LR. cbn [app] in LR.
        destruct (lfeeds_hd _ _ _ _ _ _ _ LR) as (PI2 & tk2 & P2 & Ty2 & _).
        assert (C2 : (t_ty tk2 =? g_TypeCommaSep) = false) by (rewrite Ty2; apply kheads_comma; exact M2).
        split; [eauto|apply (endblk_of_hd d stm tk2 PI2 P2 C2)]. }
    destruct NX as ((tkm & Pm & Cm) & EBm).
    destruct F as [|f]; [lia|].
    rewrite kprops_cons, kmeths_cons, kgets_cons.
    destruct i as [p e|n ins b cs|n ins b cs]; cbn [klines] in L1; cbn [kwf] in Wi; cbn [kfuel] in LF;
      cbn [kprops1 kmeths1 kgets1 app].
    + (* 其 P = e *)
      apply (lfeeds_reb _ _ _ _ false (Z.of_nat d)) in L1.
      destruct (line1 _ _ _ _ _ L1) as (PI & FE & FLm). specialize (FLm eq_refl).
      change (reb (reb st false (Z.of_nat d)) false (bind_ (reb st false (Z.of_nat d)))) with (reb st false (Z.of_nat d)) in FE.
      apply feeds_cons in FE. destruct FE as (HK & s0a & PN & FE).
      apply feeds_cons in FE. destruct FE as (HI & s0b & PNI & FE).
      apply feeds_cons in FE. destruct FE as (HA & s0c & PNA & FE).
      assert (LR' : lfeeds (kslines d r) (setb stm (Z.of_nat d)) (setb st' (Z.of_nat d))) by (apply lfeeds_setb; exact LR).
      destruct (IH Wr d f (setb stm (Z.of_nat d)) (setb st' (Z.of_nat d)) (ps ++ [(p, cast e)]) ms gs ltac:(lia) LR' EB)
        as (FL2 & b2 & PR).
      change (setb (setb st' (Z.of_nat d)) b2) with (setb st' b2) in PR.
      split.
      { intros _. destruct r as [|i2 r'].
        - cbn [kslines flat_map] in LR. inversion LR; subst. exact FLm.
        - apply (FL2 ltac:(discriminate)). }
      exists b2.
      destruct (tc_take [g_TypeFuncW; g_TypeGetterW; g_TypeObjThisW] _ _ _ _ HK PN eq_refl eq_refl) as (tk & T & Ty & _).
      destruct (tc_take [g_TypeAssignW; g_TypeAssignMark] _ _ _ _ HA PNA eq_refl eq_refl) as (tka & Ta & _).
      assert (CA : consume [g_TypeAssignW; g_TypeAssignMark] s0b = Ok tt s0c) by (unfold consume, bind; rewrite Ta; reflexivity).
      assert (SS : stopsS 6 (setb stm (Z.of_nat d))).
      { exists tkm. split; [exact Pm|]. split; [exact Cm|left; exact FLm]. }
      destruct HK as (_ & tk0 & P0 & Ty0 & _). cbn [reb p2] in P0. cbn [kwt fst] in Ty0.
      cbn [parse]. rewrite (bgo_true _ _ tk0 P0 ltac:(rewrite Ty0; reflexivity) PI).
      stepb (set_bind_reb (Z.of_nat d) st). stepb (set_flag_reb false (setb st (Z.of_nat d))).
      change (reb (setb st (Z.of_nat d)) false (bind_ (setb st (Z.of_nat d)))) with (reb st false (Z.of_nat d)).
      stepb T. rewrite Ty. zsimp. cbv iota.
      stepb (parse_id_take _ _ _ HI PNI). stepb CA.
      stepb (parse_cshow_tokens_gen e false f s0c _ _ Wi ltac:(lia) FE (stopsG_refl _ _ SS)).
      rewrite <- app_assoc in PR. exact PR.
    + (* 如何 M ？ *)
      destruct (mxwf_inv b cs Wi) as (N & Wb & Wc).
      apply (lfeeds_reb _ _ _ _ false (Z.of_nat d)) in L1.
      inversion L1 as [|d0 ts0 sm0 rest s0 st1 s2 PI FE _ LB]; subst.
      change (reb (reb st false (Z.of_nat d)) false (bind_ (reb st false (Z.of_nat d)))) with (reb st false (Z.of_nat d)) in FE.
      pose proof (feeds_bind _ _ _ FE) as BD. cbn [reb bind_] in BD.
      apply feeds_cons in FE. destruct FE as (HK & s0a & PN & FE).
      apply feeds_cons in FE. destruct FE as (HI & s0b & PNI & FE). apply feeds_one in FE. destruct FE as (HQ & PQ).
      destruct (m_funcblock n ins b cs d f s0a s0b st1 (setb stm (Z.of_nat d)) Wb (catches_all cs Wc) N
                  ltac:(unfold mxfuel in LF; lia) HI PNI HQ PQ BD LB (endblk_setb _ _ _ EBm)) as (FLm & b1 & PF).
      change (setb (setb stm (Z.of_nat d)) b1) with (setb stm b1) in PF.
      assert (LR' : lfeeds (kslines d r) (setb stm b1) (setb st' b1)) by (apply lfeeds_setb; exact LR).
      destruct (IH Wr d f (setb stm b1) (setb st' b1) ps (ms ++ [(n, 1, mxast ins b cs)]) gs ltac:(lia) LR' EB)
        as (FL2 & b2 & PR).
      change (setb (setb st' b1) b2) with (setb st' b2) in PR.
      split.
      { intros _. destruct r as [|i2 r'].
        - cbn [kslines flat_map] in LR. inversion LR; subst. exact FLm.
        - apply (FL2 ltac:(discriminate)). }
      exists b2.
      destruct (tc_take [g_TypeFuncW; g_TypeGetterW; g_TypeObjThisW] _ _ _ _ HK PN eq_refl eq_refl) as (tk & T & Ty & _).
      destruct HK as (_ & tk0 & P0 & Ty0 & _). cbn [reb p2] in P0. cbn [kwt fst] in Ty0.
      cbn [parse]. rewrite (bgo_true _ _ tk0 P0 ltac:(rewrite Ty0; reflexivity) PI).
      stepb (set_bind_reb (Z.of_nat d) st). stepb (set_flag_reb false (setb st (Z.of_nat d))).
      change (reb (setb st (Z.of_nat d)) false (bind_ (setb st (Z.of_nat d)))) with (reb st false (Z.of_nat d)).
      stepb T. rewrite Ty. zsimp. cbv iota.
      stepb PF. cbn [fst snd]. rewrite <- app_assoc in PR. exact PR.
    + (* 何为 G ？ *)
      destruct (mxwf_inv b cs Wi) as (N & Wb & Wc).
      apply (lfeeds_reb _ _ _ _ false (Z.of_nat d)) in L1.
      inversion L1 as [|d0 ts0 sm0 rest s0 st1 s2 PI FE _ LB]; subst.
      change (reb (reb st false (Z.of_nat d)) false (bind_ (reb st false (Z.of_nat d)))) with (reb st false (Z.of_nat d)) in FE.
      pose proof (feeds_bind _ _ _ FE) as BD. cbn [reb bind_] in BD.
      apply feeds_cons in FE. destruct FE as (HK & s0a & PN & FE).
      apply feeds_cons in FE. destruct FE as (HI & s0b & PNI & FE). apply feeds_one in FE. destruct FE as (HQ & PQ).
      destruct (m_funcblock n ins b cs d f s0a s0b st1 (setb stm (Z.of_nat d)) Wb (catches_all cs Wc) N
                  ltac:(unfold mxfuel in LF; lia) HI PNI HQ PQ BD LB (endblk_setb _ _ _ EBm)) as (FLm & b1 & PF).
      change (setb (setb stm (Z.of_nat d)) b1) with (setb stm b1) in PF.
      assert (LR' : lfeeds (kslines d r) (setb stm b1) (setb st' b1)) by (apply lfeeds_setb; exact LR).
      destruct (IH Wr d f (setb stm b1) (setb st' b1) ps ms (gs ++ [(n, 2, mxast ins b cs)]) ltac:(lia) LR' EB)
        as (FL2 & b2 & PR).
      change (setb (setb st' b1) b2) with (setb st' b2) in PR.
      split.
      { intros _. destruct r as [|i2 r'].
        - cbn [kslines flat_map] in LR. inversion LR; subst. exact FLm.
        - apply (FL2 ltac:(discriminate)). }
      exists b2.
      destruct (tc_take [g_TypeFuncW; g_TypeGetterW; g_TypeObjThisW] _ _ _ _ HK PN eq_refl eq_refl) as (tk & T & Ty & _).
      destruct HK as (_ & tk0 & P0 & Ty0 & _). cbn [reb p2] in P0. cbn [kwt fst] in Ty0.
      cbn [parse]. rewrite (bgo_true _ _ tk0 P0 ltac:(rewrite Ty0; reflexivity) PI).
      stepb (set_bind_reb (Z.of_nat d) st). stepb (set_flag_reb false (setb st (Z.of_nat d))).
      change (reb (setb st (Z.of_nat d)) false (bind_ (setb st (Z.of_nat d)))) with (reb st false (Z.of_nat d)).
      stepb T. rewrite Ty. zsimp. cbv iota.
      stepb PF. cbn [fst snd]. rewrite <- app_assoc in PR. exact PR.
Qed.

(* ================================================================== statements of the program *)
Inductive zstmt :=
| ZM (s : mstmt)
| ZFunc (ctor : bool) (n : lit) (ins : list lit) (b : list mstmt) (cs : list (lit * list ystmt))
                                         (* 如何 F ？ / 如何 新建 C ？ (ctor = true) + exec block *)
| ZClass (n : lit) (items : list kitem). (* 定义 C ： + items *)

Definition zast (s : zstmt) : stmt :=
  match s with
  | ZM m => mast m
  | ZFunc ctor n ins b cs => SFuncDecl n (if ctor then 3 else 1) (mxast ins b cs)
  | ZClass n items => SClass n (kprops items) (kmeths items) (kgets items)
  end.
Definition zwf (s : zstmt) : bool :=
  match s with
  | ZM m => mwf m
  | ZFunc ctor n ins b cs => mxwf b cs
  | ZClass n items => nonnil items && forallb kwf items
  end.
Definition zlines (d : nat) (s : zstmt) : list pline :=
  match s with
  | ZM m => mlines d m
  | ZFunc ctor n ins b cs =>
      (d, kwt g_TypeFuncW :: (if ctor then [kwt g_TypeObjNewW] else []) ++ [idt n; kwt g_TypeFuncDeclare], false)
      :: mxlines (S d) ins b cs
  | ZClass n items => (d, [kwt g_TypeObjDefineW; idt n; tColon], false) :: kslines (S d) items
  end.
Definition zfuel (s : zstmt) : nat :=
  match s with
  | ZM m => mfuel m
  | ZFunc ctor n ins b cs => (mxfuel ins b cs + 6)%nat
  | ZClass n items => (ksfuel items + 6)%nat
  end.

Definition ZStmtP (s : zstmt) : Prop :=
  zwf s = true -> forall d F st st', (zfuel s <= F)%nat -> lfeeds (zlines d s) st st' -> bind_ st = Z.of_nat d ->
    folS (Z.of_nat d) st' ->
    flag st' = true /\ exists b', parse F NStmt st = Ok (zast s) (setb st' b').

Lemma zstmt_func : forall ctor n ins b cs, ZStmtP (ZFunc ctor n ins b cs).
Proof.
  intros ctor n ins b cs W d F st st' LF L B FO. cbn [zwf] in W. cbn [zlines] in L. cbn [zfuel] in LF.
  destruct (mxwf_inv b cs W) as (N & Wb & Wc).
  inversion L as [|d0 ts0 sm0 rest s0 st1 s2 PI FE _ LB]; subst.
  pose proof (feeds_bind _ _ _ FE) as BD. cbn [reb bind_] in BD. rewrite B in BD.
  apply feeds_cons in FE. destruct FE as (HO & s0a & PN & FE).
  destruct (tc_take stmt_types _ _ _ _ HO PN eq_refl eq_refl) as (tk & T & Ty & _).
  pose proof (folS_endblkS _ _ FO) as EB.
  destruct F as [|f]; [lia|].
  destruct ctor; cbn [app] in FE.
  - apply feeds_cons in FE. destruct FE as (HN & s0n & PNN & FE).
    apply feeds_cons in FE. destruct FE as (HI & s0b & PNI & FE). apply feeds_one in FE. destruct FE as (HQ & PQ).
    destruct (tc_take [g_TypeObjNewW] _ _ _ _ HN PNN eq_refl eq_refl) as (tk2 & T2 & _).
    destruct (m_funcblock n ins b cs d f s0n s0b st1 st' Wb (catches_all cs Wc) N
                ltac:(unfold mxfuel in LF; lia) HI PNI HQ PQ BD LB EB) as (FL & b' & PF).
    split; [exact FL|]. exists b'.
    cbn [parse zast]. stepb (set_flag_reb false st). stepb T. cbv zeta. rewrite Ty. zsimp. cbv iota.
    unfold bind at 1. stepb T2. stepb PF.
    unfold ret at 1. cbn [fst snd]. stepb (stmt_done_flag (setb st' b') FL). reflexivity.
  - apply feeds_cons in FE. destruct FE as (HI & s0b & PNI & FE). apply feeds_one in FE. destruct FE as (HQ & PQ).
    destruct (m_funcblock n ins b cs d f s0a s0b st1 st' Wb (catches_all cs Wc) N
                ltac:(unfold mxfuel in LF; lia) HI PNI HQ PQ BD LB EB) as (FL & b' & PF).
    split; [exact FL|]. exists b'.
    cbn [parse zast]. stepb (set_flag_reb false st). stepb T. cbv zeta. rewrite Ty. zsimp. cbv iota.
    unfold bind at 1. stepb (tc_none_head [g_TypeObjNewW] _ _ _ HI eq_refl eq_refl). stepb PF.
    unfold ret at 1. cbn [fst snd]. stepb (stmt_done_flag (setb st' b') FL). reflexivity.
Qed.

Lemma zstmt_class : forall n items, ZStmtP (ZClass n items).
Proof.
  intros n items W d F st st' LF L B FO. cbn [zwf] in W. cbn [zlines] in L. cbn [zfuel] in LF.
  apply andb_true_iff in W. destruct W as [Ni Wi]. apply nonnil_ne in Ni.
  inversion L as [|d0 ts0 sm0 rest s0 st1 s2 PI FE _ LB]; subst.
  pose proof (feeds_bind _ _ _ FE) as BD. cbn [reb bind_] in BD. rewrite B in BD.
  apply feeds_cons in FE. destruct FE as (HO & s0a & PN & FE).
  apply feeds_cons in FE. destruct FE as (HI & s0b & PNI & FE). apply feeds_one in FE. destruct FE as (HC & PC).
  destruct (tc_take stmt_types _ _ _ _ HO PN eq_refl eq_refl) as (tk & T & Ty & _).
  destruct F as [|[|f]]; try lia.
  destruct (class_items items Wi (S d) f st1 st' [] [] [] ltac:(lia) LB (folS_endblkS _ _ FO)) as (FL & b' & PCI).
  specialize (FL Ni). cbn [app] in PCI.
  assert (PI1 : peek_indent st1 = Z.of_nat (S d)).
  { destruct items as [|i0 r0]; [congruence|]. destruct (klines_head (S d) i0) as (t1 & ts1 & sm1 & r1 & E1 & _).
    rewrite kslines_cons, E1 in LB. cbn [app] in LB. destruct (lfeeds_hd _ _ _ _ _ _ _ LB) as (PI1 & _). exact PI1. }
  split; [exact FL|]. exists b'.
  assert (PCl : parse (S f) NClass s0a = Ok (SClass n (kprops items) (kmeths items) (kgets items)) (setb st' b')).
  { cbn [parse]. stepb (parse_id_take _ _ _ HI PNI). stepb (consume_take _ _ _ _ HC PC eq_refl). stepb (get_bind_eq st1).
    rewrite BD. stepb (ebi_ok d st1 PI1). unfold bind at 1. rewrite PCI. cbv beta iota. reflexivity. }
  remember (S f) as g eqn:Eg.
  cbn [parse zast]. stepb (set_flag_reb false st). stepb T. cbv zeta. rewrite Ty. zsimp. cbv iota.
  stepb PCl. stepb (stmt_done_flag (setb st' b') FL). reflexivity.
Qed.

Theorem zstmt_all : forall s, ZStmtP s.
Proof.
  intros [m|ctor n ins b cs|n items].
  - intros W d F st st' LF L B FO. exact (mstmt_all m W d F st st' LF L B FO).
  - apply zstmt_func.
  - apply zstmt_class.
Qed.

Lemma zlines_head : forall d s, exists t ts sm r, zlines d s = (d, t :: ts, sm) :: r /\ mem (fst t) zheads = true.
Proof.
  intros d [m|ctor n ins b cs|n items]; cbn [zlines].
  - apply mlines_head.
  - eexists _, _, _, _. split; reflexivity.
  - eexists _, _, _, _. split; reflexivity.
Qed.

(* token-level theorem for one statement of the extended fragment *)
Theorem parse_zstmt_tokens : forall s d F st st', zwf s = true -> (zfuel s <= F)%nat ->
  lfeeds (zlines d s) st st' -> bind_ st = Z.of_nat d -> folS (Z.of_nat d) st' ->
  flag st' = true /\ exists b', parse F NStmt st = Ok (zast s) (setb st' b').
Proof. intros s d F st st' W LF L B FO. exact (zstmt_all s W d F st st' LF L B FO). Qed.

(* ================================================================== programs *)
Record zprog := mkZP {
  z_imports : list yimport; z_inputs : list lit; z_body : list zstmt; z_catches : list (lit * list ystmt) }.
Definition zxlines := axlines zstmt zlines.
Definition zxfuel := axfuel zstmt zfuel.
Definition zplines (q : zprog) : list pline :=
  map imp_line (z_imports q) ++ zxlines 0 (z_inputs q) (z_body q) (z_catches q).
Definition zhas_exec (q : zprog) : bool := nonnil (z_body q) || nonnil (z_catches q).
Definition zprescribed (q : zprog) : program :=
  mkProgram (map imp_ast (z_imports q))
            (if zhas_exec q then Some (XBlock (z_inputs q) (map zast (z_body q)) (map ycatch (z_catches q))) else None).
Definition zpwf (q : zprog) : bool :=
  forallb zwf (z_body q) && ycwf (z_catches q) && (zhas_exec q || (isnil (z_inputs q) && nonnil (z_imports q))).
Definition zpfuel (q : zprog) : nat :=
  (SectionsTokProofs.ifuel (z_imports q) + zxfuel (z_inputs q) (z_body q) (z_catches q) + 5)%nat.

(* TOKEN-LEVEL MAIN THEOREM *)
Theorem parse_types_tokens : forall q F st st', zpwf q = true -> (zpfuel q <= F)%nat -> bind_ st = 0 ->
  lfeeds (zplines q) st st' -> ateof st' ->
  exists b', parse F (NProgram 0 1 [] None) st = Ok (zprescribed q) (setb st' b').
Proof.
  intros [is ins b cs] F st st' W LF B L EO. unfold zpwf, zpfuel, zplines, zprescribed, zhas_exec in *.
  cbn [z_imports z_inputs z_body z_catches] in *.
  apply andb_true_iff in W. destruct W as [W WX]. apply andb_true_iff in W. destruct W as [Wb Wc].
  exact (a_prog zstmt zlines zast zfuel zwf zlines_head zstmt_all is ins b cs F st st' Wb Wc WX LF B L EO).
Qed.

Print Assumptions parse_zstmt_tokens.
Print Assumptions parse_types_tokens.
