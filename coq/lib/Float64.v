(* Float64.v — IEEE-754 binary64 numbers as 64-bit patterns (Z), operations through Flocq.
   All NaNs are canonicalised to one pattern (payloads are not observable in Zn). *)
From Coq Require Import ZArith List Bool.
From Flocq Require Import IEEE754.BinarySingleNaN IEEE754.Binary IEEE754.Bits.
Import ListNotations.
Open Scope Z_scope.

Definition canon_nan : Z := 0x7FF8000000000000.

Definition f2b (x : binary64) : Z :=
  match x with
  | B754_nan _ _ _ _ _ => canon_nan
  | _ => bits_of_b64 x
  end.
Definition b2f (z : Z) : binary64 := b64_of_bits z.

Definition fadd (a b : Z) : Z := f2b (b64_plus mode_NE (b2f a) (b2f b)).
Definition fsub (a b : Z) : Z := f2b (b64_minus mode_NE (b2f a) (b2f b)).
Definition fmul (a b : Z) : Z := f2b (b64_mult mode_NE (b2f a) (b2f b)).
Definition fdiv (a b : Z) : Z := f2b (b64_div mode_NE (b2f a) (b2f b)).
(* math.Floor: round to integral toward -infinity *)
Definition ffloor (a : Z) : Z := f2b (Bnearbyint 53 1024 (eq_refl _) unop_nan_pl64 mode_DN (b2f a)).

Definition fcmp (a b : Z) : option comparison := b64_compare (b2f a) (b2f b).
(* Go's == < <= > >= on float64 (all false when either side is NaN) *)
Definition feq (a b : Z) : bool := match fcmp a b with Some Eq => true | _ => false end.
Definition flt (a b : Z) : bool := match fcmp a b with Some Lt => true | _ => false end.
Definition fgt (a b : Z) : bool := match fcmp a b with Some Gt => true | _ => false end.
Definition fle (a b : Z) : bool := match fcmp a b with Some Lt | Some Eq => true | _ => false end.
Definition fge (a b : Z) : bool := match fcmp a b with Some Gt | Some Eq => true | _ => false end.

Definition fzero : Z := 0.
Definition fis_zero (a : Z) : bool := feq a fzero.

(* float64(n) for an integer n (exact below 2^53, rounded to nearest even above) *)
Definition of_int (n : Z) : Z :=
  f2b (binary_normalize 53 1024 (eq_refl _) (eq_refl _) mode_NE n 0 false).

(* Go's int(f) on amd64 (CVTTSD2SI): truncation toward zero; NaN, infinities and values
   outside the int64 range give the "integer indefinite" value -2^63 *)
Definition int_indef : Z := - 2 ^ 63.
Definition to_int (a : Z) : Z :=
  match b2f a with
  | B754_zero _ _ _ => 0
  | B754_finite _ _ s m e _ =>
    let mag := if 0 <=? e then Z.pos m * 2 ^ e else Z.pos m / 2 ^ (- e) in
    let v := if s then - mag else mag in
    if (v <? - 2 ^ 63) || (2 ^ 63 <=? v) then int_indef else v
  | _ => int_indef
  end.

(* exact value of a finite double as (numerator, log2 of denominator) with odd numerator or zero *)
Definition is_finite (a : Z) : bool :=
  match b2f a with B754_zero _ _ _ | B754_finite _ _ _ _ _ _ => true | _ => false end.
Definition is_nan (a : Z) : bool := match b2f a with B754_nan _ _ _ _ _ => true | _ => false end.
