(* C10 — No program can crash the host process. Statements only; proofs in proofs/Builtins*Proofs.v. *)
From Coq Require Import List ZArith Bool String.
From Zn.gen Require Import GenC10Members.
From Zn.model Require Import Builtins.
From Zn.model Require Import BuiltinsHeap.
From Zn.proofs Require Import BuiltinsProofs BuiltinsHeapProofs.
Import ListNotations.
Open Scope Z_scope.

(* every built-in member read from the Go sources (GenC10Members.members, regenerated on every run) has a model clause
   or is in the named differential-only list, and the translator understood every member table it met *)
Theorem C10_inventory_covered : inventory_covered = true.
Proof. exact inventory_covered_ok. Qed.
Print Assumptions C10_inventory_covered.

(* for ALL receivers, member names (known or not), arities and argument values: a value or a Zn error; never a Go
   panic, never a nil value, and the receiver stays free of nil items *)
Theorem C10_builtins_never_crash :
  forall rname recv kind name args r,
    recv_matches rname recv -> wf recv -> wfs args ->
    exec Repaired rname recv kind name args = Some r ->
    (forall w, fst r <> OCrash w) /\ (forall v, fst r = OVal v -> wf v) /\ (forall rv, snd r = Some rv -> wf rv).
Proof. exact builtins_never_crash. Qed.
Print Assumptions C10_builtins_never_crash.

(* the parameter validators themselves never panic, for any type-string table the handlers may carry *)
Theorem C10_validators_never_crash : forall sg recv_items args w, run_validators Repaired recv_items args sg <> VCrash w.
Proof. exact run_validators_no_crash. Qed.
Print Assumptions C10_validators_never_crash.

(* index arithmetic, for all integers (including the images of NaN, +-Inf and huge numbers under int()) *)
Theorem C10_insert_total : forall target idx item, exists r, insert_array_value Repaired target idx item = Some r.
Proof. exact insert_total. Qed.
Print Assumptions C10_insert_total.

Theorem C10_index_arithmetic_total :
  forall xs ss f0 f1 i v d k w,
    fst (array_swap xs f0 f1) <> OCrash w /\ str_slice ss f0 f1 <> OCrash w /\
    iv_array_get xs i <> OCrash w /\ fst (iv_array_set xs i v) <> OCrash w /\ iv_dict_get d k <> OCrash w.
Proof.
  intros. repeat split.
  - apply array_swap_no_crash. - apply str_slice_no_crash. - apply iv_array_get_no_crash.
  - apply iv_array_set_no_crash. - apply iv_dict_get_no_crash.
Qed.
Print Assumptions C10_index_arithmetic_total.

(* the VM accessors reached by input-variable text on a VM with any call-stack history never index an empty stack
   (as far as modelled: frames, return slot, current line, name lookup without a scope) *)
Theorem C10_varinput_no_crash : forall ops s, ~ In (-1) (vm_run Repaired s ops).
Proof. exact vm_never_crash. Qed.
Print Assumptions C10_varinput_no_crash.

(* display (String()) of any item terminates on every heap in which no container holds itself *)
Theorem C10_display_total_on_acyclic : forall h, acyclic h -> forall i, exists fuel, display fuel h i <> None.
Proof. exact display_total_on_acyclic. Qed.
Print Assumptions C10_display_total_on_acyclic.

(* no (repaired) list/dictionary operation — 新增/添加/前增/后增/合并/写入, at any position, with any item including the
   receiver itself or a container holding it — can make a container hold itself; scripts start from empty containers *)
Theorem C10_acyclic_invariant :
  forall fuel ops h h', acyclic h -> apply_ops fuel h ops = Some h' -> acyclic h'.
Proof. exact acyclic_invariant_script. Qed.
Print Assumptions C10_acyclic_invariant.

Theorem C10_acyclic_initial : forall cells, (forall c, In c cells -> cell_items c = []) -> acyclic cells.
Proof. exact empty_cells_acyclic. Qed.
Print Assumptions C10_acyclic_initial.

Example C10_pinned_append_self_cyclic : ~ acyclic [CList [IRef 0]] /\ (forall fuel, display fuel [CList [IRef 0]] (IRef 0) = None).
Proof. split; [exact pinned_append_self_cyclic | exact display_cyclic_diverges]. Qed.
Example C10_repaired_append_self :
  run_script [CList []] [HAppend 0 (INum 5); HAppend 0 (IRef 0)] = [[1; 2; 0; 5; 1; 1; 0; 5]].
Proof. vm_compute. reflexivity. Qed.

(* non-vacuity: the pinned code reaches the crash sites; the repaired model returns values there *)
Example C10_pinned_insert_refuted : enc_result (exec Pinned "Array" l123 "method" "新增" [n9; nm10]) = [[9]; [-1]].
Proof. exact pinned_insert_refuted. Qed.
Example C10_repaired_insert_witness :
  run_case "Array" l123 "method" "新增" [n9; nm10]
  = [[3; 4; 4; 2; 4621256167635550208; 2; 4607182418800017408; 2; 4611686018427387904; 2; 4613937818241073152];
     [4; 4; 2; 4621256167635550208; 2; 4607182418800017408; 2; 4611686018427387904; 2; 4613937818241073152]].
Proof. exact repaired_insert_witness. Qed.
Example C10_pinned_least_params_refuted : exists w, validate_least Pinned [] ["string"; "string"; "any?"]%string = VCrash w.
Proof. exact pinned_least_params_refuted. Qed.
Example C10_pinned_write_file_nil :
  exec Pinned "lib:@文件" VFunc "libfn" "写入文件" [VStr [97]; VStr [98]] = Some (OVal VNil, Some VFunc).
Proof. exact pinned_write_file_nil. Qed.
Example C10_pinned_vm_refuted : vm_run Pinned vm_init [VThis] = [-1] /\ vm_run Pinned vm_init [VFind] = [-1].
Proof. exact pinned_vm_no_frame_refuted. Qed.
Example C10_swap_nan_is_error :
  run_case "Array" l123 "method" "交换" [N 9221120237041090560; N 4607182418800017408]
  = [[0; 40]; [4; 3; 2; 4607182418800017408; 2; 4611686018427387904; 2; 4613937818241073152]].
Proof. vm_compute. reflexivity. Qed.
Example C10_slice_counts_characters :   (* 以“中a😀”（取样：1、1） = “中” *)
  run_case "String" (VStr [228;184;173;97;240;159;152;128]) "method" "取样" [N 4607182418800017408; N 4607182418800017408]
  = [[3; 3; 3; 228; 184; 173]; [3; 8; 228; 184; 173; 97; 240; 159; 152; 128]].
Proof. vm_compute. reflexivity. Qed.
