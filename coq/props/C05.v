(* C05 — Compilation and error display terminate cleanly on every input.
   Only statements, closed by [exact], and their assumptions.  Models: coq/model/{Lexer,Parser,ErrDisplay}.v. *)
From Coq Require Import List ZArith Bool.
Import ListNotations.
From Zn.model Require Import Lexer Parser ErrDisplay.
From Zn.proofs Require Import FrontDisplayProofs.
Open Scope Z_scope.

(* Rendering a syntax error never crashes: for EVERY source text, every line table with non-negative starts and every
   cursor (in range or not), no index / slice / Repeat operation of the printer is out of range. *)
Theorem C05_display_never_crashes : forall src ls cursor,
  Forall (fun l => 0 <= l_start l) ls -> display src ls cursor <> DCrash.
Proof. exact display_never_crashes. Qed.
Print Assumptions C05_display_never_crashes.

(* What is quoted is a piece of the source that contains no line break, ends at a line break or at the end of the text,
   and starts at a line start recorded by the lexer (or 0) after skipping indentation only, not beyond the cursor. *)
Theorem C05_quotes_existing_line : forall src ls cursor n q off,
  Forall (fun l => 0 <= l_start l) ls ->
  display src ls cursor = DOk n q off ->
  exists st0 s e,
    (st0 = 0 \/ exists li, In li ls /\ l_start li = st0) /\
    0 <= st0 <= s /\ (s <= clamp_cursor src cursor \/ s = st0) /\ st0 <= clamp_cursor src cursor /\
    e <= Z.of_nat (length src) /\
    Forall (fun ch => is_indent_char ch = true) (firstn (Z.to_nat (s - st0)) (skipn (Z.to_nat st0) src)) /\
    q = firstn (Z.to_nat (e - s)) (skipn (Z.to_nat s) src) /\
    Forall (fun ch => is_break ch = false) q /\
    (e = Z.of_nat (length src) \/ exists ch, nth_error src (Z.to_nat e) = Some ch /\ is_break ch = true) /\
    n = find_line_idx ls cursor 0 + 1 /\ 0 <= off.
Proof. exact display_quotes_line. Qed.
Print Assumptions C05_quotes_existing_line.

(* non-vacuity: the inputs on which the pinned printer panics or quotes two lines / a NUL *)
Example C05_example_cursor_past_end : display [8220; 96] [mkLine 0 0] 3 = DOk 1 [8220; 96] 2.
Proof. vm_compute. reflexivity. Qed.
Example C05_example_mixed_indent : display [65; 10; 32; 9; 88] [mkLine 0 0; mkLine 0 2] 3 = DOk 2 [9; 88] 0.
Proof. vm_compute. reflexivity. Qed.
Example C05_example_leading_break : display [10; 20196] [mkLine 0 0; mkLine 0 1] 2 = DOk 2 [20196] 2.
Proof. vm_compute. reflexivity. Qed.
