(* C05 — Compilation and error display terminate cleanly on every input.
   Only statements, closed by [exact], and their assumptions.  Models: coq/model/{Lexer,Parser,ErrDisplay}.v. *)
From Coq Require Import List ZArith Bool.
Import ListNotations.
From Zn.model Require Import Lexer Parser ErrDisplay.
From Zn.model Require Import Ast.
From Zn.proofs Require Import FrontDisplayProofs FrontLexProofs FrontTotalProofs CursorBoundProofs.
Open Scope Z_scope.

(* Rendering a syntax error never crashes: for EVERY source text, every line table with non-negative starts and every
   cursor (in range or not), no index / slice / Repeat operation of the printer is out of range. *)
Theorem C05_display_never_crashes : forall src ls cursor,
  Forall (fun l => 0 <= l_start l) ls -> display src ls cursor <> DCrash.
Proof. exact display_never_crashes. Qed.
Print Assumptions C05_display_never_crashes.

(* What is quoted is a piece of the source that contains no line break, ends at a line break or at the end of the text,
   and starts at a line start recorded by the lexer (or 0) after skipping indentation only, not beyond the cursor. *)
Theorem C05_quotes_existing_line : forall src ls cursor n q off,
  Forall (fun l => 0 <= l_start l) ls ->
  display src ls cursor = DOk n q off ->
  exists st0 s e,
    (st0 = 0 \/ exists li, In li ls /\ l_start li = st0) /\
    0 <= st0 <= s /\ (s <= clamp_cursor src cursor \/ s = st0) /\ st0 <= clamp_cursor src cursor /\
    e <= Z.of_nat (length src) /\
    Forall (fun ch => is_indent_char ch = true) (firstn (Z.to_nat (s - st0)) (skipn (Z.to_nat st0) src)) /\
    q = firstn (Z.to_nat (e - s)) (skipn (Z.to_nat s) src) /\
    Forall (fun ch => is_break ch = false) q /\
    (e = Z.of_nat (length src) \/ exists ch, nth_error src (Z.to_nat e) = Some ch /\ is_break ch = true) /\
    n = find_line_idx ls cursor 0 + 1 /\ 0 <= off.
Proof. exact display_quotes_line. Qed.
Print Assumptions C05_quotes_existing_line.

(* Compilation terminates: for EVERY sequence of code points, fuel linear in its length (16 * length + 64 nested
   production calls) is enough - the model never answers "out of fuel".  The result is a tree, one syntax error
   (code, cursor) or Crash; by construction never two of them. *)
Theorem C05_total : forall src, compile (default_fuel src) src <> OFuel.
Proof. exact compile_total. Qed.
Print Assumptions C05_total.

(* The progress lemma behind it, for every production started in ANY parser state: with fuel above 16 * mu + rank the
   production does not run out of fuel, never increases the measure mu (characters not yet lexed, +1 while the peek token
   is not the end of text), and the productions marked [strict] - among them every consumer that parseItemListBlock
   calls in a loop: ParseStatement, the 令-block pair, the class item, the import line, the 拦截 block - consume at
   least one token whenever they return.  (On the pinned tree the 拦截 state of ParseExecBlock returns without consuming:
   fixes/C03-1.) *)
Theorem C05_progress : forall fuel n st, (16 * mu st + rank n < fuel)%nat -> good (mu st) (strict n) (parse fuel n st).
Proof. exact parse_total. Qed.
Print Assumptions C05_progress.

(* the lexer: NextToken never runs out of its internal fuel, never grows the input, and consumes at least one
   character unless it returns the end-of-text token *)
Theorem C05_next_token_progress : forall st0,
  next_token st0 <> LFuel /\ forall tk st', next_token st0 = LOk tk st' -> tok_progress st0 tk st'.
Proof. exact next_token_spec. Qed.
Print Assumptions C05_next_token_progress.

(* Every syntax error carries a cursor inside the text: 0 <= cursor <= length, for every source and every fuel (the position
   invariant pos + length rest = length src is carried through indentation and line bookkeeping, the comment scanner, the
   C04 recognisers, the C13 string machine and all 40 parser productions).  The bound is attained (Examples below). *)
Theorem C05_single_error_in_range : forall src c k, compile (default_fuel src) src = OErr c k -> 0 <= k <= Z.of_nat (length src).
Proof. exact CursorBoundProofs.C05_single_error_in_range. Qed.
Print Assumptions C05_single_error_in_range.

Theorem C05_error_in_range_any_fuel : forall fuel src c k, compile fuel src = OErr c k -> 0 <= k <= Z.of_nat (length src).
Proof. exact compile_error_in_range. Qed.
Print Assumptions C05_error_in_range_any_fuel.

Example C05_example_cursor_at_end : compile 200 [8220; 96] = OErr 27 2 /\ compile 200 [65; 10; 32; 66] = OErr 24 3.
Proof. split; vm_compute; reflexivity. Qed.

(* non-vacuity: the inputs on which the pinned printer panics or quotes two lines / a NUL *)
Example C05_example_cursor_past_end : display [8220; 96] [mkLine 0 0] 3 = DOk 1 [8220; 96] 2.
Proof. vm_compute. reflexivity. Qed.
Example C05_example_mixed_indent : display [65; 10; 32; 9; 88] [mkLine 0 0; mkLine 0 2] 3 = DOk 2 [9; 88] 0.
Proof. vm_compute. reflexivity. Qed.
Example C05_example_leading_break : display [10; 20196] [mkLine 0 0; mkLine 0 1] 2 = DOk 2 [20196] 2.
Proof. vm_compute. reflexivity. Qed.
