(* placeholder while the proofs are being written *)
From Coq Require Import List ZArith Bool.
Import ListNotations.
From Zn.model Require Import CollectionsTypes Collections.
Open Scope Z_scope.
Example C12_pinned_insert_crash :
  insert_array_value false [VNum (NInt 1); VNum (NInt 2); VNum (NInt 3)] (-10) (VNum (NInt 9)) = None.
Proof. vm_compute. reflexivity. Qed.
