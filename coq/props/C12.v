(* C12 — Lists are 1-indexed sequences, dictionaries insertion-ordered maps.
   Only statements, closed by [exact], and their assumptions.
   Model: model/Collections.v (pkg/value/array.go, hashmap.go, iv.go, iteration order of evalIterateStmt),
   with insertArrayValue as repaired by fixes/C12-1.patch.  Specification: spec/SeqSpec.v, spec/OMapSpec.v,
   spec/CollectionsSpec.v.
   Side conditions: [small] = a list shorter than 2^62 elements (a Go slice); [lop_okb] / [num_ok] = numbers used as
   list positions have magnitude below 2^52 (where float64 arithmetic on them is exact) or are NaN / Inf / 1e300. *)
From Coq Require Import List ZArith Bool.
Import ListNotations.
From Zn.model Require Import CollectionsTypes Collections.
From Zn.spec Require Import SeqSpec OMapSpec CollectionsSpec.
From Zn.proofs Require Import CollectionsProofs CollectionsJoinProofs.
Open Scope Z_scope.

(* hm_inv hm = NoDup keyOrder /\ NoDup (keys of the Go map) /\ (k in keyOrder <-> k in the Go map).
   It holds after NewHashMap over ANY pair list (duplicate keys included) and after every operation of ANY history. *)
Theorem C12_dict_invariant : forall kvs ops,
  hm_inv (new_hashmap kvs) /\ Forall (fun s => hm_inv (snd s)) (hm_run ops (new_hashmap kvs)).
Proof. exact dict_invariant_all. Qed.
Print Assumptions C12_dict_invariant.

Theorem C12_dict_invariant_step : forall op hm, hm_inv hm -> hm_inv (snd (hm_step op hm)).
Proof. exact dict_invariant_step. Qed.
Print Assumptions C12_dict_invariant_step.

(* hmExecDelete's loop, which edits keyOrder while ranging over it: under the invariant it cannot panic and removes
   exactly the key *)
Theorem C12_delete_loop : forall k order, NoDup order -> In k order ->
  key_order_delete k order = Some (remove text_eq_dec k order).
Proof. exact key_order_delete_spec. Qed.
Print Assumptions C12_delete_loop.

(* every history, from a dictionary built from any pair list: results and abstract contents equal those of the
   insertion-ordered association list (overwrite keeps the place, insert appends, remove deletes, re-insert
   appends: OMapSpec.om_put / om_remove), and no Go panic *)
Theorem C12_dict_refines_omap : forall kvs ops,
  abs (new_hashmap kvs) = om_of_pairs text_eq_dec kvs /\
  map (fun s => (fst s, abs (snd s))) (hm_run ops (new_hashmap kvs)) = omap_run ops (abs (new_hashmap kvs)) /\
  Forall (fun s => fst s <> Crash) (hm_run ops (new_hashmap kvs)).
Proof. exact dict_refines_omap_all. Qed.
Print Assumptions C12_dict_refines_omap.

(* ... and from ANY dictionary satisfying the invariant (including the empty one) *)
Theorem C12_dict_refines_omap_from_any : forall ops hm, hm_inv hm ->
  map (fun s => (fst s, abs (snd s))) (hm_run ops hm) = omap_run ops (abs hm) /\
  Forall (fun s => hm_inv (snd s)) (hm_run ops hm) /\
  Forall (fun s => fst s <> Crash) (hm_run ops hm).
Proof. exact dict_refines_omap_from_any. Qed.
Print Assumptions C12_dict_refines_omap_from_any.

(* every list history: the trace (result, list afterwards) of the model of array.go / iv.go equals the trace of the
   1-indexed abstract sequence, and no Go panic (index / slice out of range) *)
Theorem C12_list_refines_seq : forall ops l, forallb lop_okb ops = true -> small_run ops l ->
  arr_run true ops l = seq_run ops l /\ Forall (fun s => fst s <> Crash) (arr_run true ops l).
Proof. exact list_refines_seq_all. Qed.
Print Assumptions C12_list_refines_seq.

(* a read returns the last value written to the key by the history (None = removed / never written: index error) *)
Theorem C12_read_last_write : forall kvs ops k,
  gm_get (hm_value (hm_final ops (new_hashmap kvs))) k = last_write k (dget (om_of_pairs text_eq_dec kvs) k) ops /\
  fst (hm_step (DIndexGet (VStr k)) (hm_final ops (new_hashmap kvs))) =
    match last_write k (dget (om_of_pairs text_eq_dec kvs) k) ops with Some v => Ok v | None => Err E_KEY_NOT_FOUND end.
Proof. exact read_last_write_all. Qed.
Print Assumptions C12_read_last_write.

(* lists: position i in 1..n reads the stored element, a write replaces exactly it and is read back *)
Theorem C12_read_last_write_list : forall l n i v, small l -> num_ok n = true -> trunc_num n = Some i ->
  1 <= i <= Z.of_nat (length l) ->
  exists x, nth_error l (Z.to_nat (i - 1)) = Some x /\
  arr_step true (LIndexGet (VNum n)) l = (Ok x, l) /\
  arr_step true (LIndexSet (VNum n) v) l = (Ok VNull, list_set l (Z.to_nat (i - 1)) v) /\
  fst (arr_step true (LIndexGet (VNum n)) (list_set l (Z.to_nat (i - 1)) v)) = Ok v.
Proof. exact list_read_last_write. Qed.
Print Assumptions C12_read_last_write_list.
Theorem C12_write_frame : forall (l : list val) i j v, i <> j -> nth_error (list_set l i v) j = nth_error l j.
Proof. exact list_set_other. Qed.
Print Assumptions C12_write_frame.

Theorem C12_length_dict : forall hm, hm_inv hm ->
  fst (hm_step (DGetProp DPLength) hm) = Ok (VNum (NInt (Z.of_nat (length (hm_order hm))))) /\
  length (hm_order hm) = om_size (abs hm).
Proof. exact dict_length. Qed.
Print Assumptions C12_length_dict.
Theorem C12_length_list : forall l, arr_step true (LGetProp PLength) l = (Ok (VNum (NInt (Z.of_nat (length l)))), l).
Proof. exact list_length. Qed.
Print Assumptions C12_length_list.

(* 所有索引, 所有值, iteration, the displayed form and the JSON key order are all `map f` of ONE duplicate-free
   sequence, abs hm (the JSON view is the model's; the code is repaired and checked under C19) *)
Theorem C12_all_views_same_order : forall hm, hm_inv hm ->
  fst (hm_step (DGetProp DPKeys) hm) = Ok (VList (map VStr (om_keys (abs hm)))) /\
  fst (hm_step (DGetProp DPValues) hm) = Ok (VList (om_values (abs hm))) /\
  fst (hm_step DIterate hm) = Ok (VList (map (fun kv => VList [VStr (fst kv); snd kv]) (abs hm))) /\
  hm_text hm = Some (val_text (VDict (abs hm))) /\
  view_json_keys hm = om_keys (abs hm) /\
  om_wf (abs hm).
Proof. exact all_views_same_order. Qed.
Print Assumptions C12_all_views_same_order.

(* reading or writing a list position outside 1..n: index error, list unchanged *)
Theorem C12_bounds_list : forall l n i v, small l -> num_ok n = true -> trunc_num n = Some i ->
  ~ (1 <= i <= Z.of_nat (length l)) ->
  arr_step true (LIndexGet (VNum n)) l = (Err E_INDEX_RANGE, l) /\
  arr_step true (LIndexSet (VNum n) v) l = (Err E_INDEX_RANGE, l).
Proof. exact list_bounds. Qed.
Print Assumptions C12_bounds_list.
Theorem C12_bounds_list_nonfinite : forall l n v, small l -> trunc_num n = None ->
  arr_step true (LIndexGet (VNum n)) l = (Err E_INDEX_RANGE, l) /\
  arr_step true (LIndexSet (VNum n) v) l = (Err E_INDEX_RANGE, l).
Proof. exact list_bounds_nonfinite. Qed.
Print Assumptions C12_bounds_list_nonfinite.
(* reading a missing key: index error, dictionary unchanged; writing a new key appends it; writing an existing
   key keeps the key order *)
Theorem C12_bounds_dict : forall hm k v, hm_inv hm ->
  (gm_get (hm_value hm) k = None ->
     hm_step (DIndexGet (VStr k)) hm = (Err E_KEY_NOT_FOUND, hm) /\
     abs (snd (hm_step (DIndexSet (VStr k) v) hm)) = abs hm ++ [(k, v)]) /\
  (forall w, gm_get (hm_value hm) k = Some w ->
     hm_step (DIndexGet (VStr k)) hm = (Ok w, hm) /\
     om_keys (abs (snd (hm_step (DIndexSet (VStr k) v) hm))) = om_keys (abs hm)).
Proof. exact dict_bounds. Qed.
Print Assumptions C12_bounds_dict.

(* method laws *)
Theorem C12_append_then_last : forall l v, small l ->
  arr_step true (LMethod MAppend [v]) l = (Ok (VList (l ++ [v])), l ++ [v]) /\
  fst (arr_step true (LGetProp PLast) (l ++ [v])) = Ok v /\
  length (l ++ [v]) = S (length l).
Proof. exact law_append_last. Qed.
Print Assumptions C12_append_then_last.
Theorem C12_prepend_then_first : forall l v, small l ->
  arr_step true (LMethod MPrepend [v]) l = (Ok (VList (v :: l)), v :: l) /\
  fst (arr_step true (LGetProp PFirst) (v :: l)) = Ok v.
Proof. exact law_prepend_first. Qed.
Print Assumptions C12_prepend_then_first.
Theorem C12_shift : forall h t, arr_step true (LMethod MShift []) (h :: t) = (Ok h, t).
Proof. exact law_shift. Qed.
Print Assumptions C12_shift.
Theorem C12_pop : forall t x, arr_step true (LMethod MPop []) (t ++ [x]) = (Ok x, t).
Proof. exact law_pop. Qed.
Print Assumptions C12_pop.
Theorem C12_swap : forall l i j x y, nth_error l i = Some x -> nth_error l j = Some y ->
  exists l', arr_step true (LMethod MSwap [VNum (NInt (Z.of_nat i + 1)); VNum (NInt (Z.of_nat j + 1))]) l = (Ok (VList l'), l') /\
    l' = list_set (list_set l i y) j x /\ length l' = length l.
Proof. exact law_swap. Qed.
Print Assumptions C12_swap.
Theorem C12_reverse_twice : forall l, map snd (arr_run true [LAssignReverse; LAssignReverse] l) = [rev l; l].
Proof. exact law_reverse_twice. Qed.
Print Assumptions C12_reverse_twice.
Theorem C12_reverse : forall l, arr_step true (LGetProp PReverse) l = (Ok (VList (rev l)), l).
Proof. exact law_reverse_getter. Qed.
Print Assumptions C12_reverse.
Theorem C12_merge : forall l ls,
  arr_step true (LMethod MMerge (map VList ls)) l = (Ok (VList (l ++ concat ls)), l ++ concat ls).
Proof. exact law_merge. Qed.
Print Assumptions C12_merge.
Theorem C12_contains : forall l v,
  arr_step true (LMethod MContains [v]) l = (Ok (VBool (existsb (fun x => val_eqb x v) l)), l) /\
  (existsb (fun x => val_eqb x v) l = true <-> exists x, In x l /\ val_eqb x v = true).
Proof. exact law_contains. Qed.
Print Assumptions C12_contains.
(* 寻找 identifies the FIRST `为`-equal element (0-based position in the code, not judged) and is -1 exactly when
   包含 is false *)
Theorem C12_find : forall l v,
  exists r, arr_step true (LMethod MFind [v]) l = (Ok (VNum (NInt r)), l) /\
  ((r = -1 /\ existsb (fun x => val_eqb x v) l = false) \/
   (exists k x, r = Z.of_nat k /\ nth_error l k = Some x /\ val_eqb x v = true /\
                forall k' y, (k' < k)%nat -> nth_error l k' = Some y -> val_eqb y v = false)).
Proof. exact law_find. Qed.
Print Assumptions C12_find.
(* 拼接: the texts of the list joined by the separator in list order, for every list of texts and every separator; the
   list is left as it was; a list holding anything that is not a text is refused (and left as it was) *)
Theorem C12_join : forall strs sep,
  arr_step true (LMethod MJoin [VStr sep]) (map VStr strs) = (Ok (VStr (join_text sep strs)), map VStr strs).
Proof. exact law_join. Qed.
Print Assumptions C12_join.
Theorem C12_join_length : forall sep strs,
  Z.of_nat (length (join_text sep strs)) =
  Z.of_nat (length (concat strs)) + Z.of_nat (length sep) * (Z.of_nat (length strs) - 1) * (if (length strs =? 0)%nat then 0 else 1).
Proof. exact join_text_length. Qed.
Print Assumptions C12_join_length.
Theorem C12_join_rejects_non_text : forall pre v post sep, (forall s, v <> VStr s) ->
  arr_step true (LMethod MJoin [VStr sep]) (map VStr pre ++ v :: post) = (Err E_PARAM_TYPE, map VStr pre ++ v :: post).
Proof. exact law_join_rejects. Qed.
Print Assumptions C12_join_rejects_non_text.
(* 左移 / 右移 on the empty list answer 空 and leave it empty *)
Theorem C12_shift_pop_empty :
  arr_step true (LMethod MShift []) [] = (Ok VNull, []) /\ arr_step true (LMethod MPop []) [] = (Ok VNull, []).
Proof. exact (conj law_shift_empty law_pop_empty). Qed.
Print Assumptions C12_shift_pop_empty.
(* `为` is structural equality on values without NaN and without dictionaries (dictionary equality is C01/C11's) *)
Theorem C12_equality_structural : forall a b, plain a = true -> (val_eqb a b = true <-> a = b).
Proof. exact val_eqb_structural. Qed.
Print Assumptions C12_equality_structural.

(* ---------- non-vacuity ---------- *)
Example C12_example_join : fst (arr_step true (LMethod MJoin [VStr [45]]) [VStr [97]; VStr [98; 99]; VStr []]) = Ok (VStr [97; 45; 98; 99; 45]).
Proof. vm_compute. reflexivity. Qed.
Definition n (z : Z) := VNum (NInt z).
Definition k1 : text := [30002]. Definition k2 : text := [20057]. Definition k3 : text := [19993].
(* the pinned insertArrayValue panics on 以A（新增：9、-10） with three elements; the repaired one inserts at the front *)
Example C12_pinned_insert_crash : arr_step false (LMethod MInsert [n 9; n (-10)]) [n 1; n 2; n 3] = (Crash, [n 1; n 2; n 3]).
Proof. vm_compute. reflexivity. Qed.
Example C12_repaired_insert : snd (arr_step true (LMethod MInsert [n 9; n (-10)]) [n 1; n 2; n 3]) = [n 9; n 1; n 2; n 3].
Proof. vm_compute. reflexivity. Qed.
(* duplicate key at construction, overwrite keeps place, remove + re-insert appends *)
Example C12_example_dict :
  map (fun s => abs (snd s))
      (hm_run [DIndexSet (VStr k1) (n 7); DMethod DMDelete [VStr k1]; DIndexSet (VStr k1) (n 8); DIndexGet (VStr k3)]
              (new_hashmap [(k1, n 1); (k2, n 2); (k1, n 3)]))
  = [[(k1, n 7); (k2, n 2)]; [(k2, n 2)]; [(k2, n 2); (k1, n 8)]; [(k2, n 2); (k1, n 8)]].
Proof. vm_compute. reflexivity. Qed.
Example C12_example_missing_key : fst (hm_step (DIndexGet (VStr k3)) (new_hashmap [(k1, n 1)])) = Err E_KEY_NOT_FOUND.
Proof. vm_compute. reflexivity. Qed.
(* without the invariant the delete loop does panic: a keyOrder with the key twice, the second time in last place *)
Example C12_delete_loop_needs_nodup : key_order_delete k1 [k1; k2; k1] = None.
Proof. vm_compute. reflexivity. Qed.
Example C12_example_list :
  map fst (arr_run true [LIndexGet (n 0); LIndexGet (n 4); LIndexGet (VNum (NHalf 1)); LIndexSet (VNum NNaN) (n 0);
                         LMethod MSwap [n 1; n 3]; LMethod MFind [n 1]] [n 1; n 2; n 3])
  = [Err E_INDEX_RANGE; Err E_INDEX_RANGE; Ok (n 1); Err E_INDEX_RANGE; Ok (VList [n 3; n 2; n 1]); Ok (n 2)].
Proof. vm_compute. reflexivity. Qed.
