(* C04 - Unspaced text is tokenised exactly as documented (keywords, names, numbers).
   Only statements, closed by [exact], and their assumptions. *)
From Coq Require Import List ZArith Bool.
Import ListNotations.
From Zn.gen Require Import GenC04NumDfa GenC04IdRange GenC04Tokens.
From Zn.model Require Import NumDfa IdRange Tokenize TokSpec TokDoc.
From Zn.proofs Require Import NumDfaProofs IdRangeProofs TokenizeProofs.
From Zn.proofs Require SegmentationProofs.
Module Seg := SegmentationProofs.
Open Scope Z_scope.
Local Notation KW := (parse_keyword g_kw_tree).

(* ---- numbers ---- *)

(* The equivalence checker is sound for any two machines: a relation that contains the initial pair, agrees on outputs and
   is closed under a complete set of representative characters proves equality of the outputs on ALL words. *)
Theorem C04_equiv_check_sound : forall T, num_equiv_check T = true -> forall w, try_parse_number T w = classify_doc w.
Proof. exact checked_table_is_documented. Qed.
Print Assumptions C04_equiv_check_sound.

(* The hand-written reference machine accepts exactly the documented form, for every string (no length bound). *)
Theorem C04_ref_is_documented_form : forall w, run ref_machine w = classify_doc w.
Proof. exact ref_is_documented. Qed.
Print Assumptions C04_ref_is_documented_form.

(* The machine regenerated from tryParseNumber (this working tree) passes the check ... *)
Theorem C04_num_dfa_equiv : gen_num_ok = true /\ num_equiv_check GenT = true.
Proof. exact (conj gen_translated gen_num_equiv). Qed.
Print Assumptions C04_num_dfa_equiv.

(* ... hence tryParseNumber classifies every identifier as the documented form prescribes. *)
Theorem C04_number_iff_documented_form : forall w, try_parse_number GenT w = RNumber <-> doc_number w = true.
Proof. exact gen_number_iff_documented. Qed.
Print Assumptions C04_number_iff_documented_form.

Theorem C04_prefix_numbers_rejected : forall w,
  starts_like_number_cc (map classify w) = true -> doc_number w = false -> try_parse_number GenT w = RRejected.
Proof. exact gen_prefix_numbers_rejected. Qed.
Print Assumptions C04_prefix_numbers_rejected.

Theorem C04_name_iff : forall w,
  try_parse_number GenT w = RName <-> (doc_number w = false /\ starts_like_number_cc (map classify w) = false).
Proof. exact gen_name_iff. Qed.
Print Assumptions C04_name_iff.

(* ---- identifier alphabet ---- *)

(* For every well-formed table (sorted, disjoint, non-empty, inside the guard) and EVERY integer c the binary search of
   IdInRange returns linear membership: it neither indexes out of range (BCrash) nor runs out of fuel. *)
Theorem C04_bsearch_is_membership : forall guard tbl, table_ok guard tbl = true ->
  forall c, id_in_range guard tbl c = if linear tbl c then BTrue else BFalse.
Proof. exact id_in_range_is_linear. Qed.
Print Assumptions C04_bsearch_is_membership.

Theorem C04_id_in_range : forall c,
  id_in_range gen_id_guard_max gen_id_range c = if linear gen_id_range c then BTrue else BFalse.
Proof. exact gen_id_in_range. Qed.
Print Assumptions C04_id_in_range.

(* ---- keywords, identifiers, backticks, operators ---- *)

(* Any decision tree that passes the (computable) check returns, at every position, the LONGEST keyword of the table that
   is a prefix of the remaining text, and reports no keyword exactly when none is. *)
Theorem C04_kw_check_sound : forall tree doc, kw_tree_check tree doc = true ->
  forall s, hd 0 s <> 0 ->
  match parse_keyword tree s with
  | Some (n, ty) => longest_keyword_at doc s n ty
  | None => no_keyword_at doc s
  end.
Proof. exact checked_tree_longest. Qed.
Print Assumptions C04_kw_check_sound.

(* The tree regenerated from parseKeyword passes it against the manual's 34 keywords (C04_keywords_documented + C04_kw_match_longest). *)
Theorem C04_kw_match_longest : gen_tok_ok = true /\ forall s, hd 0 s <> 0 ->
  match parse_keyword g_kw_tree s with
  | Some (n, ty) => longest_keyword_at doc_keywords s n ty
  | None => no_keyword_at doc_keywords s
  end.
Proof. exact (conj gen_tokens_translated gen_kw_match_longest). Qed.
Print Assumptions C04_kw_match_longest.

(* Whole token stream, every input: the lexer model that uses the regenerated parseKeyword tree produces exactly the token
   stream of the documented lexer, which cuts at every position the longest keyword of the manual's table (TokDoc.lex_doc). *)
Theorem C04_lexer_cuts_documented_keywords : forall s, lex_impl s = lex_doc s.
Proof. exact lex_impl_is_lex_doc. Qed.
Print Assumptions C04_lexer_cuts_documented_keywords.

(* At a character that starts no space, comment, string, backtick name, punctuation or operator, NextToken cuts the keyword
   parseKeyword finds there (by the previous theorem: the longest documented one) and otherwise starts an identifier. *)
Theorem C04_keyword_cut_first : forall c r pos, plain_start c = true ->
  next_token KW (c :: r) pos =
  match parse_keyword g_kw_tree (c :: r) with
  | Some (wl, ty) => TTok ty pos (pos + wl) [] (skipn (Z.to_nat wl) (c :: r))
  | None => parse_identifier KW (c :: r) pos
  end.
Proof. exact next_token_plain. Qed.
Print Assumptions C04_keyword_cut_first.

(* An identifier token is a maximal run: it starts with an identifier character, continues with identifier characters,
   NO documented keyword starts at any later position inside it, it ends exactly where a stop condition holds (white space,
   a keyword, a comment start, a marker or the end of text), and it does not end with '/'.
   C04_segmentation_partial: together with C04_keyword_cut_first and C04_kw_match_longest this is the greedy left-to-right
   segmentation token by token; the single whole-stream statement is C04_segmentation below. *)
Theorem C04_segmentation_partial : forall c r pos ty s e lit r',
  parse_identifier KW (c :: r) pos = TTok ty s e lit r' ->
  exists taken, r = taken ++ r' /\ lit = c :: taken /\ ty = g_TypeIdentifier /\ s = pos /\ e = pos + 1 + Z.of_nat (length taken)
    /\ is_id_char c = true /\ forallb is_id_body taken = true
    /\ (forall a b, taken = a ++ b -> b <> [] -> no_keyword_at doc_keywords (b ++ r'))
    /\ ident_stop KW r' = true
    /\ last lit 0 <> g_SlashOp.
Proof. exact identifier_token_spec. Qed.
Print Assumptions C04_segmentation_partial.

(* THE WHOLE STREAM, as one statement: for EVERY list of code points the implementation model's lexer returns exactly the
   greedy left-to-right segmentation — tokens, positions, literals and the way the run ends — computed by a second scanner
   [greedy_segment] (proofs/SegmentationProofs.v) written from the property text with declarative notions only (the longest word
   of a table that starts here; the maximal run before the first break; break = end of text, white space, marker, a
   documented keyword, // /* /=), without the implementation's helper functions.  No guard.  What the specification had
   to spell out beyond the one-line property text is listed in the header of that file (a name also stops before `/=`; a
   non-identifier character inside a run makes the text invalid there; + - * / are operators only before a delimiter and
   the end of text is not one; an unterminated /* comment runs to the end of text). *)
Theorem C04_segmentation : forall s, lex_impl s = Seg.greedy_segment s.
Proof. exact Seg.lex_is_greedy_segment. Qed.
Print Assumptions C04_segmentation.

Theorem C04_segmentation_doc : forall s, lex_doc s = Seg.greedy_segment s.
Proof. exact Seg.lex_doc_is_greedy_segment. Qed.
Print Assumptions C04_segmentation_doc.

(* the two greedy choices of the specification, read declaratively *)
Theorem C04_keyword_choice_is_longest : forall s,
  match Seg.longest_at doc_keywords s with
  | Some (w, ty) => longest_keyword_at doc_keywords s (Z.of_nat (length w)) ty
  | None => no_keyword_at doc_keywords s
  end.
Proof. exact Seg.keyword_choice_is_longest. Qed.
Print Assumptions C04_keyword_choice_is_longest.

Theorem C04_run_is_maximal : forall r,
  r = Seg.run r ++ skipn (length (Seg.run r)) r /\
  Seg.break_at (skipn (length (Seg.run r)) r) = true /\
  forall a b, Seg.run r = a ++ b -> b <> [] -> Seg.break_at (b ++ skipn (length (Seg.run r)) r) = false.
Proof. exact Seg.run_is_maximal. Qed.
Print Assumptions C04_run_is_maximal.

(* inside the model's scope (no string quote, line break, 注 comment, leading indentation) the run ends with the end of
   text or an invalid character, never "outside the model" *)
Theorem C04_segmentation_in_scope : forall s, Seg.in_scope s = true ->
  fst (lex_impl s) = fst (Seg.greedy_segment s) /\ snd (lex_impl s) = snd (Seg.greedy_segment s) /\ Seg.proper_end (snd (lex_impl s)).
Proof. exact Seg.lex_is_greedy_segment_in_scope. Qed.
Print Assumptions C04_segmentation_in_scope.

Example C04_ex_segmentation :                                                                      (* 价格不大于20 *)
  Seg.in_scope [20215;26684;19981;22823;20110;50;48] = true /\
  Seg.greedy_segment [20215;26684;19981;22823;20110;50;48] =
    ([(g_TypeIdentifier, 0, 2, [20215;26684]); (g_TypeLogicLteW, 2, 5, []); (g_TypeIdentifier, 5, 7, [50;48]);
      (g_TypeEOF, 7, 7, [])], EEof).
Proof. exact Seg.seg_ex_greedy. Qed.

(* Text between backticks is ONE identifier whose literal is the text, whatever keywords occur in it. *)
Theorem C04_backtick_single_identifier : forall body r pos, forallb is_id_body body = true ->
  next_token KW (g_BackTick :: body ++ g_BackTick :: r) pos =
  TTok g_TypeIdentifier pos (pos + Z.of_nat (length body) + 2) body r.
Proof. exact backtick_single_identifier. Qed.
Print Assumptions C04_backtick_single_identifier.

(* + - * are operator tokens exactly when followed by white space, punctuation or a quote; otherwise the token that starts
   there (if any) is an identifier. *)
Theorem C04_operator_needs_delimiter : forall c r pos ty s e lit r',
  In c [g_PlusOp; g_MinusOp; g_MultiplyOp] ->
  next_token KW (c :: r) pos = TTok ty s e lit r' ->
  (is_delim (cur r) = true /\ ty = op_type c /\ s = pos /\ e = pos + 1 /\ lit = [] /\ r' = r)
  \/ (is_delim (cur r) = false /\ ty = g_TypeIdentifier).
Proof. exact operator_needs_delimiter. Qed.
Print Assumptions C04_operator_needs_delimiter.

(* '/' (not starting //, /*, /=) is the division operator exactly when followed by a delimiter, and cannot start a name. *)
Theorem C04_slash_needs_delimiter : forall r pos, mem (cur r) [g_SlashOp; g_MultiplyOp; g_EqualOp] = false ->
  next_token KW (g_SlashOp :: r) pos = if is_delim (cur r) then TTok g_TypeDivision pos (pos + 1) [] r else TErr pos.
Proof. exact next_token_slash. Qed.
Print Assumptions C04_slash_needs_delimiter.

(* ---- non-vacuity ---- *)
Example C04_ex_number : try_parse_number GenT [45;49;56;46;57;42;49;48;94;45;55] = RNumber.   (* -18.9*10^-7 *)
Proof. vm_compute. reflexivity. Qed.
Example C04_ex_e_needs_sign : try_parse_number GenT [49;50;56;69;57;50;51] = RRejected.       (* 128E923 *)
Proof. vm_compute. reflexivity. Qed.
Example C04_ex_name : try_parse_number GenT [45;81;51;45] = RName.                            (* -Q3- *)
Proof. vm_compute. reflexivity. Qed.
Example C04_ex_id : id_in_range gen_id_guard_max gen_id_range 0x4E2D = BTrue /\ id_in_range gen_id_guard_max gen_id_range 0xFF0B = BFalse.
Proof. vm_compute. split; reflexivity. Qed.
Example C04_ex_greedy : encode_lex (lex_impl [20215;26684;19981;22823;20110;50;48])        (* 价格不大于20 *)
  = [[0;0]; [5;0;2;20215;26684]; [52;2;5]; [5;5;7;50;48]; [0;7;7]].
Proof. vm_compute. reflexivity. Qed.
Example C04_ex_backtick : encode_lex (lex_impl [96;28216;25152;20026;30340;96;20026])           (* `游所为的`为 *)
  = [[0;0]; [5;0;6;28216;25152;20026;30340]; [41;6;7]; [0;7;7]].
Proof. vm_compute. reflexivity. Qed.
Example C04_ex_operator : encode_lex (lex_impl [65;47;66;32;47;32;67]) = [[0;0]; [5;0;3;65;47;66]; [39;4;5]; [5;6;7;67]; [0;7;7]]. (* A/B / C *)
Proof. vm_compute. reflexivity. Qed.
Example C04_ex_plain : plain_start 20215 = true /\ plain_start 19981 = true /\ plain_start 43 = false.
Proof. vm_compute. auto. Qed.
(* the manual's identifier examples (chapter 1) are single identifiers: 星标值*  白卡纸/牛皮纸飞机盒  公交车站-数目  -内部属性-  _WINDOW_HANDLER2  $xyz  +45.78 *)
Example C04_ex_manual_identifiers :
  map (fun s => map (fun t => firstn 3 t) (encode_lex (lex_doc s)))
      [[26143;26631;20540;42]; [30333;21345;32440;47;29275;30382;32440;39134;26426;30418]; [20844;20132;36710;31449;45;25968;30446];
       [45;20869;37096;23646;24615;45]; [95;87;73;78;68;79;87;95;72;65;78;68;76;69;82;50]; [36;120;121;122]; [43;52;53;46;55;56]]
  = [[[0;0];[5;0;4];[0;4;4]]; [[0;0];[5;0;10];[0;10;10]]; [[0;0];[5;0;7];[0;7;7]]; [[0;0];[5;0;6];[0;6;6]];
     [[0;0];[5;0;16];[0;16;16]]; [[0;0];[5;0;4];[0;4;4]]; [[0;0];[5;0;6];[0;6;6]]].
Proof. vm_compute. reflexivity. Qed.
(* 游所为的手机 = 游所 + 为 + 的 + 手机 *)
Example C04_ex_manual_cut : map (fun t => firstn 3 t) (encode_lex (lex_doc [28216;25152;20026;30340;25163;26426]))
  = [[0;0]; [5;0;2]; [41;2;3]; [72;3;4]; [5;4;6]; [0;6;6]].
Proof. vm_compute. reflexivity. Qed.
