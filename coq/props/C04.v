(* C04 - Unspaced text is tokenised exactly as documented (keywords, names, numbers).
   Only statements, closed by [exact], and their assumptions. *)
From Coq Require Import List ZArith Bool.
Import ListNotations.
From Zn.gen Require Import GenC04NumDfa GenC04IdRange.
From Zn.model Require Import NumDfa IdRange.
From Zn.proofs Require Import NumDfaProofs IdRangeProofs.
Open Scope Z_scope.

(* ---- numbers ---- *)

(* The equivalence checker is sound for any two machines: a relation that contains the initial pair, agrees on outputs and
   is closed under a complete set of representative characters proves equality of the outputs on ALL words. *)
Theorem C04_equiv_check_sound : forall T, num_equiv_check T = true -> forall w, try_parse_number T w = classify_doc w.
Proof. exact checked_table_is_documented. Qed.
Print Assumptions C04_equiv_check_sound.

(* The hand-written reference machine accepts exactly the documented form, for every string (no length bound). *)
Theorem C04_ref_is_documented_form : forall w, run ref_machine w = classify_doc w.
Proof. exact ref_is_documented. Qed.
Print Assumptions C04_ref_is_documented_form.

(* The machine regenerated from tryParseNumber (this working tree) passes the check ... *)
Theorem C04_num_dfa_equiv : gen_num_ok = true /\ num_equiv_check GenT = true.
Proof. exact (conj gen_translated gen_num_equiv). Qed.
Print Assumptions C04_num_dfa_equiv.

(* ... hence tryParseNumber classifies every identifier as the documented form prescribes. *)
Theorem C04_number_iff_documented_form : forall w, try_parse_number GenT w = RNumber <-> doc_number w = true.
Proof. exact gen_number_iff_documented. Qed.
Print Assumptions C04_number_iff_documented_form.

Theorem C04_prefix_numbers_rejected : forall w,
  starts_like_number_cc (map classify w) = true -> doc_number w = false -> try_parse_number GenT w = RRejected.
Proof. exact gen_prefix_numbers_rejected. Qed.
Print Assumptions C04_prefix_numbers_rejected.

Theorem C04_name_iff : forall w,
  try_parse_number GenT w = RName <-> (doc_number w = false /\ starts_like_number_cc (map classify w) = false).
Proof. exact gen_name_iff. Qed.
Print Assumptions C04_name_iff.

(* ---- identifier alphabet ---- *)

(* For every well-formed table (sorted, disjoint, non-empty, inside the guard) and EVERY integer c the binary search of
   IdInRange returns linear membership: it neither indexes out of range (BCrash) nor runs out of fuel. *)
Theorem C04_bsearch_is_membership : forall guard tbl, table_ok guard tbl = true ->
  forall c, id_in_range guard tbl c = if linear tbl c then BTrue else BFalse.
Proof. exact id_in_range_is_linear. Qed.
Print Assumptions C04_bsearch_is_membership.

Theorem C04_id_in_range : forall c,
  id_in_range gen_id_guard_max gen_id_range c = if linear gen_id_range c then BTrue else BFalse.
Proof. exact gen_id_in_range. Qed.
Print Assumptions C04_id_in_range.

(* ---- non-vacuity ---- *)
Example C04_ex_number : try_parse_number GenT [45;49;56;46;57;42;49;48;94;45;55] = RNumber.   (* -18.9*10^-7 *)
Proof. vm_compute. reflexivity. Qed.
Example C04_ex_e_needs_sign : try_parse_number GenT [49;50;56;69;57;50;51] = RRejected.       (* 128E923 *)
Proof. vm_compute. reflexivity. Qed.
Example C04_ex_name : try_parse_number GenT [45;81;51;45] = RName.                            (* -Q3- *)
Proof. vm_compute. reflexivity. Qed.
Example C04_ex_id : id_in_range gen_id_guard_max gen_id_range 0x4E2D = BTrue /\ id_in_range gen_id_guard_max gen_id_range 0xFF0B = BFalse.
Proof. vm_compute. split; reflexivity. Qed.
