(* C06 — Names obey block scoping; constants and inputs cannot be reassigned.
   Only statements, closed by [exact], and their assumptions. *)
From Coq Require Import List ZArith Bool.
Import ListNotations.
From Zn.spec Require Import ScopeSpec.
From Zn.model Require Import Scope.
From Zn.proofs Require Import ScopeProofs.
From Zn.model Require SemDefs Sem.
From Zn.proofs Require SemBase SemScope.
Open Scope Z_scope.

(* ====================================================================================== *)
(* symbol table                                                                            *)
(*   model/Scope.v = pkg/runtime/scope.go + the vm.go wrappers; spec/ScopeSpec.v = a stack  *)
(*   of blocks.  All statements are about every well-formed history of operations           *)
(*   (ScopeSpec.wf_history: EndScope never outnumbers BeginScope, no nil values, real       *)
(*   module ids), at any depth.                                                             *)
(* ====================================================================================== *)

(* Every history: the code does not panic, every answer (lookup value / module, error code 42 / 43 /
   44 of declare and assign) is the specification's, the abstraction of the final state is the
   specification's environment (abs commutes with every step, since every prefix of a well-formed
   history is one), and the per-step trace that the differential run compares (answer, block depth,
   live symbol count) is the specification's. *)
Theorem C06_scope_refines_blocks : forall self ops, wf_history ops = true ->
  exists v, vm_run (init_vm self) ops = Ok (v, snd (spec_run self empty_env ops)) /\
            abs_vm v = fst (spec_run self empty_env ops) /\
            vm_trace_gen true (init_vm self) ops = spec_trace self empty_env ops.
Proof. exact scope_refines_blocks. Qed.
Print Assumptions C06_scope_refines_blocks.

(* one step from any reachable state (the commuting square itself) *)
Theorem C06_step_commutes : forall self v o, reachable self v -> op_args_ok o = true ->
  (o = OEnd -> (2 <= length (abs_vm v))%nat) ->
  exists v', vm_step v o = Ok (v', snd (spec_step self (abs_vm v) o)) /\
             abs_vm v' = fst (spec_step self (abs_vm v) o) /\ reachable self v'.
Proof. exact step_commutes. Qed.
Print Assumptions C06_step_commutes.

(* The well-formedness condition is the one the evaluator maintains: it opens and closes blocks only as
   BeginScope(); defer EndScope() pairs, so what reaches one symbol table is a prefix of a bracketed word. *)
Theorem C06_paired_histories_balanced : forall w pre post, paired w -> w = pre ++ post ->
  balanced_from 0 pre = true.
Proof. exact paired_histories_balanced. Qed.
Print Assumptions C06_paired_histories_balanced.

(* ... and an EndScope below the outermost level, should it ever happen, drops every symbol. *)
Theorem C06_unbalanced_end_clears : forall self v, reachable self v -> length (abs_vm v) = 1%nat ->
  exists v', vm_step v OEnd = Ok (v', [0; 0; -1]) /\ vm_obs v' = [-1; 0].
Proof. exact unbalanced_end_clears. Qed.
Print Assumptions C06_unbalanced_end_clears.

(* A name declared now (by 令 / 恒为 / import) resolves to this declaration and to its own module, whatever
   happened before at the same symbol index — in particular a popped import's externalRefs entry never
   attaches to it.  (False of the pinned code: C06_stale_external_on_pinned_code.) *)
Theorem C06_no_stale_external : forall self v n o v', reachable self v -> is_declare o n ->
  vm_step v o = Ok (v', [E_OK; 0; -1]) ->
  vm_step v' (OLookupM n) =
  Ok (v', match o with
          | ODeclare _ x | ODeclareConst _ x => [E_OK; x; self]
          | ODeclareExt _ x m => [E_OK; x; m]
          | _ => []
          end).
Proof. exact no_stale_external. Qed.
Print Assumptions C06_no_stale_external.

(* Declaring a name that the innermost block already binds is error 43 and changes nothing ... *)
Theorem C06_redeclare_is_error : forall self v n o, reachable self v -> is_declare o n ->
  blk_mem n (hd [] (abs_vm v)) = true -> vm_step v o = Ok (v, [E_REDECLARED; 0; -1]).
Proof. exact redeclare_is_error. Qed.
Print Assumptions C06_redeclare_is_error.

(* ... in particular declaring twice in a row. *)
Theorem C06_declare_twice_is_error : forall self v n o o' v', reachable self v -> is_declare o n ->
  is_declare o' n -> vm_step v o = Ok (v', [E_OK; 0; -1]) -> vm_step v' o' = Ok (v', [E_REDECLARED; 0; -1]).
Proof. exact declare_twice_is_error. Qed.
Print Assumptions C06_declare_twice_is_error.

(* The predefined names can be neither redeclared (43) nor reassigned (rejected as 42: they are in no block),
   and always denote the predefined element. *)
Theorem C06_predefined_protected : forall self v n g, reachable self v -> predef n = Some g ->
  (forall o, is_declare o n -> vm_step v o = Ok (v, [E_REDECLARED; 0; -1])) /\
  (forall x, x <> 0 -> vm_step v (OAssign n x) = Ok (v, [E_NOT_DEFINED; 0; -1])) /\
  vm_step v (OLookup n) = Ok (v, [E_OK; g; -1]) /\
  vm_step v (OLookupM n) = Ok (v, [E_OK; g; NATIVE_MODULE]).
Proof. exact predefined_protected. Qed.
Print Assumptions C06_predefined_protected.

(* A rejected assignment leaves the whole table — hence every value — as it was. *)
Theorem C06_rejected_assign_keeps_value : forall self v n x v' c a, reachable self v -> x <> 0 ->
  vm_step v (OAssign n x) = Ok (v', c :: a) -> c <> E_OK -> v' = v.
Proof. exact rejected_assign_keeps_state. Qed.
Print Assumptions C06_rejected_assign_keeps_value.

(* A visible constant binding rejects assignment with error 44 ... *)
Theorem C06_const_not_assignable : forall self v n x b, reachable self v -> x <> 0 ->
  env_find n (abs_vm v) = Some b -> b_const b = true ->
  vm_step v (OAssign n x) = Ok (v, [E_ASSIGN_CONST; 0; -1]).
Proof. exact const_not_assignable. Qed.
Print Assumptions C06_const_not_assignable.

(* ... and what DeclareConstElement / DeclareExternalElement bind is such a binding. *)
Theorem C06_declared_const_is_const : forall self v n o v' y, reachable self v ->
  ((exists x, x <> 0 /\ o = ODeclareConst n x) \/ (exists x m, x <> 0 /\ 0 <= m /\ o = ODeclareExt n x m)) ->
  vm_step v o = Ok (v', [E_OK; 0; -1]) -> y <> 0 ->
  vm_step v' (OAssign n y) = Ok (v', [E_ASSIGN_CONST; 0; -1]).
Proof. exact declared_const_is_const. Qed.
Print Assumptions C06_declared_const_is_const.

(* The pinned scope.go (EndScope without the delete) violates C06_no_stale_external: after an import inside a
   block that has ended, a fresh local at the same symbol index is attributed to the imported module 2. *)
Example C06_stale_external_on_pinned_code :
  vm_trace_pinned [OBegin; ODeclareExt 7 1 2; OEnd; ODeclare 8 2; OLookupM 8]
  = [[0; 0; -1; 1; 0]; [0; 0; -1; 1; 1]; [0; 0; -1; 0; 0]; [0; 0; -1; 0; 1]; [0; 2; 2; 0; 1]]
  /\ vm_trace [OBegin; ODeclareExt 7 1 2; OEnd; ODeclare 8 2; OLookupM 8]
  = [[0; 0; -1; 1; 0]; [0; 0; -1; 1; 1]; [0; 0; -1; 0; 0]; [0; 0; -1; 0; 1]; [0; 2; 0; 0; 1]].
Proof. vm_compute. split; reflexivity. Qed.

(* non-vacuity: shadowing until the inner block ends, redeclaration, constants, predefined names, imports *)
Example C06_example_shadowing :
  vm_trace [ODeclare 7 1; OBegin; ODeclare 7 2; OLookup 7; ODeclare 7 3; OEnd; OLookup 7; OLookup 8]
  = [[0; 0; -1; 0; 1]; [0; 0; -1; 1; 1]; [0; 0; -1; 1; 2]; [0; 2; -1; 1; 2]; [43; 0; -1; 1; 2];
     [0; 0; -1; 0; 1]; [0; 1; -1; 0; 1]; [42; 0; -1; 0; 1]].
Proof. vm_compute. reflexivity. Qed.
Example C06_example_constants :
  vm_trace [ODeclareConst 7 1; OAssign 7 2; OLookup 7; OAssign 0 5; ODeclare 0 5; OLookupM 0;
            ODeclareExt 9 4 2; OLookupM 9; OAssign 9 5; OBegin; OAssign 7 3; OEnd; OEnd]
  = [[0; 0; -1; 0; 1]; [44; 0; -1; 0; 1]; [0; 1; -1; 0; 1]; [42; 0; -1; 0; 1]; [43; 0; -1; 0; 1];
     [0; -1; -1; 0; 1]; [0; 0; -1; 0; 2]; [0; 4; 2; 0; 2]; [44; 0; -1; 0; 2]; [0; 0; -1; 1; 2];
     [44; 0; -1; 1; 2]; [0; 0; -1; 0; 2]; [0; 0; -1; -1; 0]].
Proof. vm_compute. reflexivity. Qed.
Example C06_example_wf :
  wf_history [ODeclare 7 1; OBegin; ODeclare 7 2; OLookup 7; ODeclare 7 3; OEnd; OLookup 7] = true
  /\ wf_history [OBegin; OEnd; OEnd] = false /\ wf_history [ODeclare 7 0] = false.
Proof. vm_compute. repeat split; reflexivity. Qed.
Example C06_example_paired : paired [OBegin; ODeclare 7 1; OBegin; OLookup 7; OEnd; OEnd; OLookup 7].
Proof.
  apply (paired_block [ODeclare 7 1; OBegin; OLookup 7; OEnd] [OLookup 7]).
  - apply paired_op; [discriminate|discriminate|].
    apply (paired_block [OLookup 7] []).
    + apply paired_op; [discriminate|discriminate|constructor].
    + constructor.
  - apply paired_op; [discriminate|discriminate|constructor].
Qed.

(* ====================================================================================== *)
(* end of the symbol-table section (program-level theorems about the evaluator follow here) *)
(* ====================================================================================== *)


(* ====================================================================================== *)
(* program level                                                                           *)
(*   the same guarantees for everything the *evaluator* (model/Sem.v = pkg/exec/eval*.go +  *)
(*   pkg/runtime/vm.go) does with its symbol stack while it runs a block, a call, a handler: *)
(*   corollaries of the control-state balance theorem over all programs, depths and fuels.   *)
(*   [resolves_as st x] = (name, depth, constness, value if constant) of the symbol x names. *)
(* ====================================================================================== *)
Module Program.
Import SemDefs Sem SemBase SemScope.

(* a finished block — ended normally, by 输出, by a loop signal or by an error — leaves every name resolving to
   the symbol it resolved to before (inner names gone, shadowed names back) and every constant with its value *)
Theorem C06_program_block_scoping : forall n k st b x, wf st ->
  match exec_block (eval_expr n) k st b with
  | Ok _ s1 | Er _ s1 => resolves_as s1 x = resolves_as st x /\ depth s1 = depth st
  | _ => True
  end.
Proof. exact block_scoping. Qed.
Print Assumptions C06_program_block_scoping.

Theorem C06_program_constants_keep_value : forall n k st b x d v, wf st ->
  resolves_as st x = Some (x, d, true, Some v) ->
  match exec_block (eval_expr n) k st b with
  | Ok _ s1 | Er _ s1 => resolves_as s1 x = Some (x, d, true, Some v)
  | _ => True
  end.
Proof. exact block_keeps_constants. Qed.
Print Assumptions C06_program_constants_keep_value.

(* any expression, in particular any call however deep, only adds symbols of the caller's current block on top
   (得到 bindings): no symbol of the caller is removed, re-typed, or — if constant — changed *)
Theorem C06_program_calls_keep_names : forall n st e v s1, wf st -> eval_expr n st e = Ok v s1 ->
  exists new, shape s1 = new ++ shape st /\ Forall (fun t => sh_depth t = depth st) new.
Proof. exact call_keeps_callers_names. Qed.
Print Assumptions C06_program_calls_keep_names.

(* assignment to a constant is refused with 44 and changes nothing at all *)
Theorem C06_program_assign_const_refused : forall st x v s,
  find_sym x (syms st) = Some s -> s_const s = true -> vm_set st x v = Er (ERun E_CONST) st.
Proof. exact assign_const_refused. Qed.
Print Assumptions C06_program_assign_const_refused.

(* non-vacuity: 令A恒为1；令B=2 then the block { 令A=5；令C=6；B=7 }: afterwards A is the constant 1 of depth 1,
   C is unknown, B is still the variable of depth 1 *)
Example C06_program_witness :
  let one := 4607182418800017408 in let two := 4611686018427387904 in
  let st0 := push_frame init_state 1 None in
  match decl_pairs (eval_expr 20) 20 [(true, [100], ENum one); (false, [101], ENum two)] (begin_scope st0) with
  | Ok _ st =>
    wf st /\
    match exec_block (eval_expr 20) 20 st
            [(1, SDecl [(false, [100], ENum two)]); (2, SDecl [(false, [102], ENum two)]);
             (3, SExpr (EAssignVar 101 (ENum one)))] with
    | Ok _ s1 => resolves_as s1 100 = Some (100, 1%nat, true, Some (VNum one)) /\ resolves_as s1 102 = None /\
                 resolves_as s1 101 = Some (101, 1%nat, false, None) /\ vm_find s1 101 = Ok (VNum one) s1
    | _ => False
    end
  | _ => False
  end.
Proof. vm_compute. repeat split; try reflexivity; try discriminate; repeat constructor. Qed.
End Program.
