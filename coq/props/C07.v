(* C07 — Lists and dictionaries are copied on assignment; objects are shared.
   Model: value.DuplicateValue as [dup] over an explicit heap (coq/model/SemDefs.v); the copy points of the
   evaluator (令, =, element/key assignment, multi-declaration) call it (coq/model/Sem.v).
   Only statements closed by [exact], and their assumptions. *)
From Coq Require Import List ZArith Bool.
Import ListNotations.
From Zn.model Require Import SemDefs Sem.
From Zn.proofs Require Import SemBase SemHeap SemHeapProps SemCopy.
Open Scope Z_scope.

(* The copy of any value of a closed heap (any nesting, any size, any fuel that suffices): the heap only grows, the
   copy is well-formed, lives in fresh cells when it is a collection, is the value itself when it is not, and has the
   same snapshot as the original. *)
Theorem C07_dup_fresh_equal : forall h0, closed h0 -> forall fuel st v v' st',
  inv h0 st -> val_ok h0 v -> dup fuel st v = DOk v' st' ->
  inv h0 st' /\ grows st st' /\ copy_of h0 fuel st' v' v.
Proof. exact dup_spec. Qed.
Print Assumptions C07_dup_fresh_equal.

(* Isolation: whatever later happens to cells other than the original's (in particular every write through the copy,
   which lives in fresh cells), the original denotes the same plain value; and whatever happens to the old cells
   (every write through the original), the copy denotes the same plain value. *)
Theorem C07_copy_isolated : forall h0 fuel st v v' st',
  closed h0 -> heap st = h0 -> val_ok h0 v -> dup fuel st v = DOk v' st' ->
  (forall h2, (forall l, (l < length h0)%nat -> nth_error h2 l = nth_error h0 l) -> snapf fuel h2 v = snapf fuel h0 v) /\
  (forall h2, (forall l, (length h0 <= l)%nat -> nth_error h2 l = nth_error (heap st') l) ->
              snapf fuel h2 v' = snapf fuel h0 v).
Proof. exact dup_isolated. Qed.
Print Assumptions C07_copy_isolated.

(* Objects are shared: duplication returns the same reference, and a property write through any alias changes the
   one cell every alias reads. *)
Theorem C07_objects_shared : forall fuel st l, dup (S fuel) st (VObj l) = DOk (VObj l) st.
Proof. exact dup_object_shared. Qed.
Print Assumptions C07_objects_shared.

(* The built-in mutators write the receiver's own cell only (and allocate). *)
Theorem C07_list_method_writes_receiver_only : forall fuel st l items m args v s1 l',
  list_method fuel st l items m args = Ok v s1 -> l' <> l -> (l' < length (heap st))%nat -> hget s1 l' = hget st l'.
Proof. exact list_method_local. Qed.
Print Assumptions C07_list_method_writes_receiver_only.

Theorem C07_dict_method_writes_receiver_only : forall fuel st l kvs m args v s1 l',
  dict_method fuel st l kvs m args = Ok v s1 -> l' <> l -> (l' < length (heap st))%nat -> hget s1 l' = hget st l'.
Proof. exact dict_method_local. Qed.
Print Assumptions C07_dict_method_writes_receiver_only.

Theorem C07_index_set_writes_root_only : forall st root idx v s1 l',
  index_set st root idx v = Ok tt s1 -> loc_of root <> Some l' -> hget s1 l' = hget st l'.
Proof. exact index_set_local. Qed.
Print Assumptions C07_index_set_writes_root_only.

(* non-vacuity: a nested list is copied, the copy is mutated in its inner list, the original is unchanged *)
(* Program level: EVERY assignment form (变量 = e, 甲#i = e, 甲之p = e, 其p = e) that succeeds has evaluated its right-hand side,
   duplicated the result and stores / yields that duplicate; and a declaration 令 x1、x2、… = e binds EVERY name, the first
   one included, to a duplicate of its own.  With the theorems above: no later write through either name reaches the other. *)
Theorem C07_assignment_stores_copy : forall n st e e1 v' s',
  is_assignment e = Some e1 -> eval_expr (S n) st e = Ok v' s' ->
  exists v s1 s2, eval_expr n st e1 = Ok v s1 /\ dup n s1 v = DOk v' s2.
Proof. exact assignment_stores_copy. Qed.
Print Assumptions C07_assignment_stores_copy.

Theorem C07_declaration_binds_copies : forall fuel c x names obj st s,
  decl_names fuel c (x :: names) obj st = Ok tt s ->
  exists obj' sa sb, dup fuel st obj = DOk obj' sa /\ vm_declare sa x obj' c = Ok tt sb /\
                     decl_names fuel c names obj' sb = Ok tt s.
Proof. exact declaration_binds_copies. Qed.
Print Assumptions C07_declaration_binds_copies.

Example C07_witness :
  let prog := {| p_inputs := []; p_catch := [];
                 p_body := [(0, SDecl [(false, [100], EArr [EArr [ENum 0]; ENum 0])]);
                            (1, SDecl [(false, [101], EVar 100)]);
                            (2, SExpr (EMethod (EIndex (EVar 101) (ENum 4607182418800017408)) [(40, [ENum 0])] None));
                            (3, SReturn (EArr [EMember (EIndex (EVar 100) (ENum 4607182418800017408)) 20;
                                               EMember (EIndex (EVar 101) (ENum 4607182418800017408)) 20]))] |} in
  match run_program 60 prog [] with
  | Ok (VList l) st => nth_error (heap st) l = Some (CList [VNum 4607182418800017408; VNum 4611686018427387904])
  | _ => False
  end.
Proof. vm_compute. reflexivity. Qed.
