(* C19 — JSON generation and parsing are faithful inverses.
   Only statements, closed by [exact], and their assumptions.

   Model: model/Json.v (RFC 8259 codec = what encoding/json must do for the values Zn hands it; the mapping of
   pkg/common/elem2json.go, repaired by fixes/C19-1.patch and C19-2.patch; stdlib/json/json.go entry points) and
   model/JsonNum.v (double <-> number token).  Numbers: the codec theorems hold for EVERY RFC 8259 number token;
   the end-to-end theorems hold for every finite double, which the model spells by its exact decimal expansion
   (Go prints the shortest decimal that reads back: same number, other spelling; compared per run). *)
From Coq Require Import List ZArith Bool.
Import ListNotations.
From Zn.model Require Import Json JsonNum JsonGrammar.
From Zn.proofs Require Import JsonProofs JsonMapProofs JsonNumProofs JsonApiProofs JsonGrammarProofs JsonSoundProofs.
Open Scope Z_scope.

(* Every JSON value — nested arrays/objects with ORDERED members, strings over all Unicode scalar values (quotes,
   backslashes, control characters, astral characters), any well-formed number token, booleans, null — is read
   back from its rendering as the same value. *)
Theorem C19_codec_roundtrip : forall v, wf v = true -> parse (render v) = Some v.
Proof. exact parse_render. Qed.
Print Assumptions C19_codec_roundtrip.

(* ... also when embedded: followed by anything that may follow a value *)
Theorem C19_codec_roundtrip_embedded : forall v, wf v = true -> forall fuel rest,
  (depth v < fuel)%nat -> followb rest = true -> parse_value fuel (render v ++ rest) = POk v rest.
Proof. exact parse_value_render. Qed.
Print Assumptions C19_codec_roundtrip_embedded.

(* The rendered text is in the grammar of RFC 8259 (model/JsonGrammar.v: the ABNF as inductive predicates, written
   independently of renderer and parser): as a value and as a complete JSON text. *)
Theorem C19_render_wellformed : forall v, wf v = true -> g_value (render v) /\ g_json (render v).
Proof. intros v H. split; [exact (render_wellformed v H) | exact (render_is_json_text v H)]. Qed.
Print Assumptions C19_render_wellformed.

(* The parser terminates within its fuel on EVERY input: "out of fuel" is not a possible result. *)
Theorem C19_parse_never_out_of_fuel : forall s, parse_text s <> PFuel.
Proof. exact parse_text_never_out_of_fuel. Qed.
Print Assumptions C19_parse_never_out_of_fuel.

(* every finite double has a well-formed number token (its exact decimal expansion) that reads back as the same double *)
Theorem C19_number_bridge : forall b, num_ok64 b = true ->
  exists t, fmt64 b = Some t /\ wf_num t = true /\ num_val t = Some b.
Proof. exact fmt64_bridge. Qed.
Print Assumptions C19_number_bridge.

(* element -> JSON value -> element is the identity on JSON-representable values (no function/object, finite doubles,
   texts of scalar values, distinct keys), dictionary members in order. *)
Theorem C19_mapping_inverse : forall e, representable num_ok64 e = true ->
  exists j, to_json fmt64 e = Some j /\ wf j = true /\ of_json num_val j = Some e.
Proof. exact mapping_inverse_all. Qed.
Print Assumptions C19_mapping_inverse.

(* 解析JSON(生成JSON(d)) = d, keys in keyOrder = document order. *)
Theorem C19_generate_then_parse : forall m, representable num_ok64 (EDict m) = true ->
  exists t, generate_json [EDict m] = Value (EStr t) /\ parse_json [EStr t] = Value (EDict m).
Proof. exact roundtrip_all. Qed.
Print Assumptions C19_generate_then_parse.

(* for ANY document: the keys of the resulting dictionary are the document's keys in document order *)
Theorem C19_document_order : forall t kvs m, parse t = Some (JObj kvs) -> nodupb (map fst kvs) = true ->
  parse_json [EStr t] = Value (EDict m) -> map fst m = map fst kvs.
Proof. exact parse_json_document_order. Qed.
Print Assumptions C19_document_order.

(* values JSON cannot represent (NaN, +Inf, -Inf anywhere inside) raise the catchable exception *)
Theorem C19_nonfinite_is_catchable_exception : forall m, has_bad_num num_ok64 (EDict m) = true ->
  generate_json [EDict m] = Exception /\ catchable (generate_json [EDict m]) = true.
Proof. intros m H. rewrite (nonfinite_is_exception m H). split; reflexivity. Qed.
Print Assumptions C19_nonfinite_is_catchable_exception.

(* malformed JSON (no parse) raises the catchable exception: not Crash, not OutOfFuel, not a value *)
Theorem C19_malformed_is_catchable_exception : forall t, parse t = None ->
  parse_json [EStr t] = Exception /\ catchable (parse_json [EStr t]) = true.
Proof. intros t H. rewrite (malformed_is_exception t H). split; reflexivity. Qed.
Print Assumptions C19_malformed_is_catchable_exception.

(* ---- the model parser decides exactly the grammar of RFC 8259 (model/JsonGrammar.v, written independently of it) ----
   For every text of Unicode scalar values (every Zn text is one): rejected by the parser <-> not a JSON text of the grammar.
   So "malformed" above means "not in the RFC 8259 grammar", not "whatever the model parser happens to reject". *)
Theorem C19_parser_decides_grammar : forall t, forallb scalarb t = true -> (parse t = None <-> ~ g_json t).
Proof. exact parse_none_iff_scalar. Qed.
Print Assumptions C19_parser_decides_grammar.

(* soundness for every text of code points, completeness for every text at all (the parser's own fuel suffices) *)
Theorem C19_parser_sound : forall t v, cpok t -> parse t = Some v -> g_json t.
Proof. exact parse_sound. Qed.
Print Assumptions C19_parser_sound.
Theorem C19_parser_complete : forall t, g_json t -> exists v, parse t = Some v.
Proof. exact parse_complete. Qed.
Print Assumptions C19_parser_complete.
(* ... and soundness needs the code-point bound: the model parser accepts an element above 0x10FFFF inside a string, the
   grammar's "unescaped" ends at 0x10FFFF (no Go string can hold such an element: decoding gives U+FFFD) *)
Theorem C19_parser_sound_needs_code_points : ~ (forall t v, parse t = Some v -> g_json t).
Proof. exact parse_unsound_without_cpok. Qed.
Print Assumptions C19_parser_sound_needs_code_points.

(* the value the parser returns is THE value the text denotes: [d_value] (proofs/JsonSoundProofs.v) assigns a value to a
   grammar derivation without reference to the parser — strings decoded per RFC 8259 section 7 with encoding/json's
   surrogate rule, elements and members in document order, number tokens kept — and is a function of the text *)
Theorem C19_parser_returns_denotation : forall t v, cpok t -> parse t = Some v ->
  (exists w1 p w2, t = w1 ++ p ++ w2 /\ g_ws w1 /\ g_ws w2 /\ d_value p v) /\
  (forall w1 p w2 v', t = w1 ++ p ++ w2 -> g_ws w1 -> g_ws w2 -> d_value p v' -> v' = v).
Proof. exact parse_is_denotation. Qed.
Print Assumptions C19_parser_returns_denotation.

(* any accepted Zn text: in the grammar, its value well formed, and a fixed point of render-then-parse *)
Theorem C19_accepted_text : forall t v, forallb scalarb t = true -> parse t = Some v ->
  g_json t /\ wf v = true /\ parse (render v) = Some v /\ g_json (render v).
Proof. exact parse_some_scalar. Qed.
Print Assumptions C19_accepted_text.

(* text outside the grammar handed to 解析JSON raises the catchable exception *)
Theorem C19_not_json_is_catchable_exception : forall t, forallb scalarb t = true -> ~ g_json t ->
  parse_json [EStr t] = Exception /\ catchable (parse_json [EStr t]) = true.
Proof. exact not_json_is_catchable_exception. Qed.
Print Assumptions C19_not_json_is_catchable_exception.

Example C19_example_grammar_text : g_json ex_text /\ parse ex_text =
  Some (JObj [([98], JArr [JNum (NumTok false [49] [53] (Some (101, [45], [51]))); JStr [0x1F600; 0xFFFD]]); ([97], JNull)]).
Proof. split; [exact ex_text_json | exact ex_text_parses]. Qed.

(* whatever the text: an exception or a dictionary *)
Theorem C19_parse_outcomes : forall t,
  parse_json [EStr t] = Exception \/ exists m, parse_json [EStr t] = Value (EDict m).
Proof. exact parse_json_outcomes. Qed.
Print Assumptions C19_parse_outcomes.

Theorem C19_generate_outcomes : forall args,
  (exists t, generate_json args = Value (EStr t)) \/ generate_json args = Exception \/ generate_json args = ParamError.
Proof. exact generate_json_outcomes. Qed.
Print Assumptions C19_generate_outcomes.

Theorem C19_top_level_must_be_object : forall t v, parse t = Some v ->
  match v with JObj _ | JNull => False | _ => True end -> parse_json [EStr t] = Exception.
Proof. exact top_level_not_object_is_exception. Qed.
Print Assumptions C19_top_level_must_be_object.

Theorem C19_number_out_of_range : forall t v, parse t = Some v ->
  decode_element num_val v = None -> parse_json [EStr t] = Exception.
Proof. exact number_out_of_range_is_exception. Qed.
Print Assumptions C19_number_out_of_range.

(* ---- non-vacuity and the pinned-tree refutation ---- *)
Definition ex_dict : elem :=     (* 乙=1, 甲=text with a quote, a backslash, a line feed, U+1F600 and <, B=empty list, A=[k=-0, n=空, t=真], C=0.1, D=1e-7 *)
  EDict [([20057], ENum 0x3ff0000000000000); ([30002], EStr [97; 34; 92; 10; 0x1F600; 60]); ([66], EArr []);
         ([65], EDict [([107], ENum 0x8000000000000000); ([110], ENull); ([116], EBool true)]);
         ([67], ENum 0x3fb999999999999a); ([68], ENum 0x3e7ad7f29abcaf48)].

Example C19_example_representable : representable num_ok64 ex_dict = true.
Proof. vm_compute. reflexivity. Qed.

Example C19_example_roundtrip :
  match generate_json [ex_dict] with Value t => parse_json [t] | o => o end = Value ex_dict.
Proof. vm_compute. reflexivity. Qed.

(* keys 乙, 甲, B, A (values 1..4) are rendered in keyOrder by the repaired mapping ... *)
Definition ex_order : elem :=
  EDict [([20057], ENum 0x3ff0000000000000); ([30002], ENum 0x4000000000000000);
         ([66], ENum 0x4008000000000000); ([65], ENum 0x4010000000000000)].
Example C19_example_keyorder :
  generate_json [ex_order] =
  Value (EStr [123; 34;20057;34; 58; 49; 44; 34;30002;34; 58; 50; 44; 34;66;34; 58; 51; 44; 34;65;34; 58; 52; 125]).
Proof. vm_compute. reflexivity. Qed.

(* ... whereas the pinned code (Go map, keys sorted by encoding/json) gives the order A, B, 乙, 甲 *)
Example C19_document_order_refuted :
  option_map render (marshal fmt64 sort_members (build_plain_pinned ex_order)) =
  Some [123; 34;65;34; 58; 52; 44; 34;66;34; 58; 51; 44; 34;20057;34; 58; 49; 44; 34;30002;34; 58; 50; 125].
Proof. vm_compute. reflexivity. Qed.

Example C19_example_malformed : parse_json [EStr [123; 34; 97; 34; 58; 49; 44; 125]] = Exception.   (* object a:1 followed by a dangling comma *)
Proof. vm_compute. reflexivity. Qed.
Example C19_example_nonfinite : generate_json [EDict [([97], EArr [ENum 0x7ff8000000000000])]] = Exception.
Proof. vm_compute. reflexivity. Qed.
Example C19_example_surrogates :       (* a surrogate pair escape followed by a lone high surrogate escape -> U+1F600, U+FFFD *)
  parse_json [EStr [123;34;97;34;58;34; 92;117;100;56;51;100; 92;117;100;101;48;48; 92;117;100;56;51;100; 34;125]]
  = Value (EDict [([97], EStr [0x1F600; 0xFFFD])]).
Proof. vm_compute. reflexivity. Qed.
Example C19_example_range : parse_json [EStr [123;34;97;34;58;49;101;52;48;48;125]] = Exception.   (* a: 1e400 *)
Proof. vm_compute. reflexivity. Qed.
