(* C19 — JSON generation and parsing are faithful inverses (stub while the proofs are being written). *)
From Coq Require Import List ZArith Bool.
Import ListNotations.
From Zn.model Require Import Json JsonNum.
Open Scope Z_scope.
Example C19_example_stub : run_parse [123;125] = [1;5;0].
Proof. vm_compute. reflexivity. Qed.
