(* C14 — Text operations count characters; % formatting follows the directives.
   Only statements, closed by [exact], and their assumptions.
   Texts are the UTF-8 byte strings [encode_all cps] of lists of Unicode scalar values. *)
From Coq Require Import List ZArith Bool.
Import ListNotations.
From Zn.model Require Import Decode FormatNum TextOps Format.
From Zn.proofs Require Import DecodeProofs TextOpsProofs FormatProofs FormatNumProofs.
From Zn.model Require CollectionsTypes Collections.
From Zn.proofs Require Import SplitJoinProofs.
Open Scope Z_scope.

(* ---------------- Part A: text operations ------------------------------------------------ *)

(* 长度 = number of characters = number of elements of 字符组; 字符组 = the characters, one per element *)
Theorem C14_length_chars_consistent : forall cps, Forall scalar cps ->
  str_get_length (encode_all cps) = Z.of_nat (length cps) /\
  Z.of_nat (length (str_get_char_array (encode_all cps))) = str_get_length (encode_all cps) /\
  str_get_char_array (encode_all cps) = map (fun c => encode_all [c]) cps /\
  concat (str_get_char_array (encode_all cps)) = encode_all cps.
Proof. exact length_chars_consistent. Qed.
Print Assumptions C14_length_chars_consistent.

(* 取样 i j (any integers; negative = from the end) is exactly characters i..j of the text and of 字符组 *)
Theorem C14_slice_is_sublist : forall cps i j r, Forall scalar cps ->
  str_exec_slice (encode_all cps) i j = SOk r ->
  let n := Z.of_nat (length cps) in
  r = encode_all (sublist cps (norm_index n i) (norm_index n j)) /\
  r = concat (sublist (str_get_char_array (encode_all cps)) (norm_index n i) (norm_index n j)).
Proof. exact slice_is_sublist. Qed.
Print Assumptions C14_slice_is_sublist.

(* complete behaviour for ALL index pairs: an exception iff start < 1 or end > length, else the sublist; never a Go panic *)
Theorem C14_slice_total : forall cps i j, Forall scalar cps ->
  let n := Z.of_nat (length cps) in
  let i' := norm_index n i in
  let j' := norm_index n j in
  str_exec_slice (encode_all cps) i j =
    if (i' <? 1) || (j >? n) then SExc else SOk (encode_all (sublist cps i' j')).
Proof. exact slice_total. Qed.
Print Assumptions C14_slice_total.

(* the result is a whole-character text made of characters of the source *)
Theorem C14_slice_never_splits : forall cps i j, Forall scalar cps ->
  (exists sub, Forall scalar sub /\ str_exec_slice (encode_all cps) i j = SOk (encode_all sub) /\
               str_get_char_array (encode_all sub) = map (fun c => encode_all [c]) sub /\
               incl sub cps)
  \/ str_exec_slice (encode_all cps) i j = SExc.
Proof. exact slice_never_splits. Qed.
Print Assumptions C14_slice_never_splits.

(* 分隔 on the bytes of the Go string = splitting the character list (no piece ends inside a character) *)
Theorem C14_split_never_splits : forall s sep, Forall scalar s -> Forall scalar sep ->
  str_exec_split (encode_all s) (encode_all sep) =
  match split_cps s sep with
  | SOk ps => SOk (map encode_all ps)
  | SExc => SExc | SCrash => SCrash | SOutOfFuel => SOutOfFuel
  end.
Proof. exact split_bytes_is_split_chars. Qed.
Print Assumptions C14_split_never_splits.

(* the pieces joined by the separator give back the text; no piece contains the separator (every cut is at the
   first occurrence: cut_pre_none); the loop never runs out of fuel *)
Theorem C14_split_spec : forall s sep, Forall scalar s -> Forall scalar sep -> sep <> [] ->
  exists ps, str_exec_split (encode_all s) (encode_all sep) = SOk (map encode_all ps) /\
             split_cps s sep = SOk ps /\
             ps <> [] /\ join_sep sep ps = s /\ Forall (fun p => contains p sep = false) ps.
Proof. exact split_spec. Qed.
Print Assumptions C14_split_spec.

(* 分隔 then 拼接 with the same separator gives back the text: for every text and every non-empty separator the pieces,
   handed as a list of texts to the list model's 拼接 (model/Collections.v, C12), join to exactly the original *)
Theorem C14_split_then_join : forall s sep, Forall scalar s -> Forall scalar sep -> sep <> [] ->
  exists ps, split_cps s sep = SOk ps /\
    Collections.arr_step true (CollectionsTypes.LMethod CollectionsTypes.MJoin [CollectionsTypes.VStr sep]) (map CollectionsTypes.VStr ps)
    = (CollectionsTypes.Ok (CollectionsTypes.VStr s), map CollectionsTypes.VStr ps).
Proof. exact split_then_join. Qed.
Print Assumptions C14_split_then_join.

Theorem C14_split_empty_separator : forall s, Forall scalar s ->
  str_exec_split (encode_all s) [] = SOk (str_get_char_array (encode_all s)).
Proof. exact split_empty_is_chars. Qed.
Print Assumptions C14_split_empty_separator.

(* ---------------- Part B: the formatter ---------------------------------------------------- *)

(* the scanner with its index triples accepts every template of  tpl ::= (lit | '{' directive '}')*  ... *)
Theorem C14_scanner_accepts_grammar : forall segs idx stack cnt, wf_segs segs ->
  scan_loop (unparse segs) idx SBegin stack cnt =
  Some (last_state segs, stack ++ enc_open idx segs, cnt + nholes segs).
Proof. exact scan_accepts. Qed.
Print Assumptions C14_scanner_accepts_grammar.

(* ... and nothing else: for ALL templates, acceptance yields a parse of the grammar; the parse is unique *)
Theorem C14_scanner_refines_template_grammar : forall tpl st stack cnt,
  scan_loop tpl 0 SBegin [] 0 = Some (st, stack, cnt) -> st <> SFormat ->
  exists segs, wf_segs segs /\ unparse segs = tpl.
Proof. exact scanner_sound. Qed.
Print Assumptions C14_scanner_refines_template_grammar.

Theorem C14_template_parse_unique : forall segs1 segs2, wf_segs segs1 -> wf_segs segs2 ->
  unparse segs1 = unparse segs2 -> segs1 = segs2.
Proof. exact parse_unique. Qed.
Print Assumptions C14_template_parse_unique.

(* k-th placeholder -> k-th argument rendered per directive, literals verbatim (render_segs), for every template of
   the grammar, every argument list, every %v rendering rv *)
Theorem C14_format_spec : forall rv segs params, wf_segs segs ->
  format_string rv (unparse segs) params =
  if Z.of_nat (length params) =? Z.of_nat (length (holes segs)) then render_segs rv segs params else FErr EUnmatch.
Proof. exact format_string_spec. Qed.
Print Assumptions C14_format_spec.

(* exactly the documented error conditions, for ALL templates and argument lists: malformed template iff not in the
   grammar; otherwise count mismatch, otherwise the first placeholder (left to right) that cannot be rendered *)
Theorem C14_format_errors : forall rv tpl params,
  (exists segs, wf_segs segs /\ unparse segs = tpl /\
     format_string rv tpl params =
       if Z.of_nat (length params) =? Z.of_nat (length (holes segs)) then render_segs rv segs params else FErr EUnmatch)
  \/ ((~ exists segs, wf_segs segs /\ unparse segs = tpl) /\ format_string rv tpl params = FErr EInvalidTemplate).
Proof. exact format_string_total. Qed.
Print Assumptions C14_format_errors.

Theorem C14_format_invalid_template_iff : forall rv tpl params,
  format_string rv tpl params = FErr EInvalidTemplate <-> ~ exists segs, wf_segs segs /\ unparse segs = tpl.
Proof. exact format_invalid_template_iff. Qed.
Print Assumptions C14_format_invalid_template_iff.

(* per placeholder: {} displays, {#...} needs a number and a well-formed directive *)
Theorem C14_placeholder_errors : forall rv d e,
  match d, e with
  | [], EOther => element_to_string rv d e = FErr EParamType
  | [], _ => element_to_string rv d e = FOk (display rv e)
  | 35 :: rest, ENum bits =>
      element_to_string rv d e =
      match parse_directive rest with Some dr => FOk (render_directive dr bits) | None => FErr EBadDirective end
  | 35 :: _, _ => element_to_string rv d e = FErr ENotNumber
  | _ :: _, _ => element_to_string rv d e = FErr EBadDirective
  end.
Proof. exact element_to_string_errors. Qed.
Print Assumptions C14_placeholder_errors.

(* slicing the rune array by the triples never panics, on any template *)
Theorem C14_format_no_crash : forall rv tpl params, format_string rv tpl params <> FCrash.
Proof. exact format_string_no_crash. Qed.
Print Assumptions C14_format_no_crash.

(* the directive machine = '+'? ('.' digit* )? ('E'|'%')?  with precision <= MAXPREC, flags as written *)
Theorem C14_directive_machine_is_documented_grammar_sound : forall cs d, parse_directive cs = Some d ->
  exists plus fixed suf, cs = directive_text plus fixed suf /\
    (match fixed with Some ds => all_digits ds /\ dec_value ds 0 <= MAXPREC | None => True end) /\
    d = directive_of plus fixed suf.
Proof. exact directive_sound. Qed.
Print Assumptions C14_directive_machine_is_documented_grammar_sound.

Theorem C14_directive_machine_is_documented_grammar_complete : forall plus fixed suf,
  (match fixed with Some ds => all_digits ds /\ dec_value ds 0 <= MAXPREC | None => True end) ->
  parse_directive (directive_text plus fixed suf) = Some (directive_of plus fixed suf).
Proof. exact directive_complete. Qed.
Print Assumptions C14_directive_machine_is_documented_grammar_complete.

Theorem C14_directive_precision_bounded : forall plus ds suf, all_digits ds -> dec_value ds 0 > MAXPREC ->
  parse_directive (directive_text plus (Some ds) suf) = None.
Proof. exact directive_precision_bounded. Qed.
Print Assumptions C14_directive_precision_bounded.

(* the arithmetic of the restated renderings: the integer printed by %.Nf is nearest to |x|*10^N, ties to even, and
   the digit string printed for an integer denotes that integer (the layout code around them is validated differentially) *)
Theorem C14_fixed_render_rounding : forall m e prec, 0 <= m -> 0 <= prec ->
  let '(num, den) := ratio m e in
  let q := rne_div (num * 10 ^ prec) den in
  0 < den /\
  Z.abs (2 * q * den - 2 * (num * 10 ^ prec)) <= den /\
  (Z.abs (2 * q * den - 2 * (num * 10 ^ prec)) = den -> Z.even q = true).
Proof. exact fixed_rounding. Qed.
Print Assumptions C14_fixed_render_rounding.

Theorem C14_decimal_digits_denote : forall n, 0 <= n ->
  val_chars (dec_digits n) = n /\ Forall (fun c => 48 <= c <= 57) (dec_digits n).
Proof. exact dec_digits_value. Qed.
Print Assumptions C14_decimal_digits_denote.

(* ---------------- non-vacuity ------------------------------------------------------------------ *)

(* the pinned, byte-indexed 取样 splits 你 *)
Example C14_slice_pinned_splits : str_exec_slice_pinned (encode_all [0x4F60; 0x597D]) 1 1 = SOk [0xE4].
Proof. vm_compute. reflexivity. Qed.
Example C14_slice_example : str_exec_slice (encode_all [0x61; 0x1F600; 0x4F60; 0x301]) 2 (-2) = SOk (encode_all [0x1F600; 0x4F60]).
Proof. vm_compute. reflexivity. Qed.
Example C14_split_example :
  str_exec_split (encode_all [0x4F60; 0x2C; 0x597D; 0x2C; 0x2C]) (encode_all [0x2C]) = SOk [encode_all [0x4F60]; encode_all [0x597D]; []; []].
Proof. vm_compute. reflexivity. Qed.
(* “HK{#.2E}-{}” % 【13.208945、“香港”】 = “HK1.32E+01-香港” (from TestFormatStr_Number) *)
Example C14_format_example :
  format_string (fun _ => []) [72;75;123;35;46;50;69;125;45;123;125] [ENum 0x402A6AFAD6D4B8BD; EStr [39321;28207]]
  = FOk [72;75;49;46;51;50;69;43;48;49;45;39321;28207].
Proof. vm_compute. reflexivity. Qed.
(* “{#.99999999999999999999}” % 【1.5】 is an error *)
Example C14_format_precision_overflow :
  format_string (fun _ => []) ([123;35;46] ++ repeat 57 20 ++ [125]) [ENum 0x3FF8000000000000] = FErr EBadDirective.
Proof. vm_compute. reflexivity. Qed.
Example C14_format_errors_example :
  format_string (fun _ => []) [97;123;98] [] = FErr EInvalidTemplate /\
  format_string (fun _ => []) [123;125] [] = FErr EUnmatch /\
  format_string (fun _ => []) [123;35;125] [EStr [97]] = FErr ENotNumber /\
  format_string (fun _ => []) [123;35;46;50;43;125] [ENum 0] = FErr EBadDirective.
Proof. vm_compute. repeat split. Qed.
Example C14_render_examples :
  render_directive (directive_of false (Some [49]) SufPct) 0x3FEC083126E978D5 = [56;55;46;54;37] /\   (* 0.876 {#.1%} 87.6% *)
  render_directive (directive_of true None SufNone) 0x4014000000000000 = [43;53] /\                    (* 5 {#+} +5 *)
  render_directive (directive_of false None SufNone) 0x405EDD3C07EE0B0B = [49;50;51;46;52;53;55].      (* 123.456789 {#} 123.457 *)
Proof. vm_compute. repeat split. Qed.
