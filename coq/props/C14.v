(* C14 — placeholder while the proofs are being written *)
From Coq Require Import List ZArith Bool.
Import ListNotations.
From Zn.model Require Import Decode FormatNum TextOps Format.
Open Scope Z_scope.

Example C14_slice_pinned_splits : str_exec_slice_pinned [228;189;160;229;165;189] 1 1 = SOk [228].
Proof. vm_compute. reflexivity. Qed.
