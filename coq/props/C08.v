(* C08 — Method calls and objects bind arguments, receivers and results correctly.
   Model: coq/model/Sem.v. Only statements closed by [exact], and their assumptions. *)
From Coq Require Import List ZArith Bool.
Import ListNotations.
From Zn.model Require Import SemDefs Sem.
From Zn.proofs Require Import SemBase SemStmt SemCalls SemProps SemCopy.
Open Scope Z_scope.

(* The control-state balance of the whole evaluator: for EVERY fuel, state and expression (calls, method chains, 新建,
   recursion to any depth, exceptions handled inside): success returns to exactly the caller's call stack and block
   depth and only adds symbols to the caller's current block; failure leaves the caller's frames below the frames of
   the calls in progress and is never a loop signal. *)
Theorem C08_evaluator_balanced : forall n st e, bal_e st (eval_expr n st e).
Proof. exact eval_expr_balanced. Qed.
Print Assumptions C08_evaluator_balanced.

(* After any call the caller's stack, depth and 其 are what they were. *)
Theorem C08_call_restores_caller : forall n st e v s1,
  wf st -> eval_expr n st e = Ok v s1 ->
  stack s1 = stack st /\ depth s1 = depth st /\ top_this s1 = top_this st /\ ext_shape st s1.
Proof. exact expr_restores_caller. Qed.
Print Assumptions C08_call_restores_caller.

Theorem C08_failed_call_keeps_callers : forall n st e er s1,
  wf st -> eval_expr n st e = Er er s1 ->
  (exists extra, stack s1 = extra ++ stack st) /\       (* the caller's frames are untouched, the failed calls' sit on top *)
  depth s1 = depth st /\ no_sig er.
Proof. exact expr_error_keeps_callers. Qed.
Print Assumptions C08_failed_call_keeps_callers.

(* A method body: scopes and stack restored on every way out. *)
Theorem C08_body_balanced : forall n k st fd args,
  wf st ->
  match exec_exec_block (eval_expr n) k st fd args with
  | Ok _ s1 => R_ok_b st s1
  | Er e s1 => R_er_b st s1 /\ no_sig e
  | _ => True
  end.
Proof. exact body_balanced. Qed.
Print Assumptions C08_body_balanced.

(* Arguments are evaluated once each, left to right, threading the state. *)
Theorem C08_args_once_left_to_right : forall ev e es st,
  evs ev (e :: es) st = let! (v, s1) := ev st e in let! (vs, s2) := evs ev es s1 in Ok (v :: vs) s2.
Proof. exact evs_cons. Qed.
Print Assumptions C08_args_once_left_to_right.

(* A count mismatch is an error and runs none of the body. *)
Theorem C08_arity_mismatch_runs_nothing : forall ev k st fd args,
  length args <> length (fd_params fd) ->
  exists s1, exec_exec_block ev k st fd args = Er (ERun E_PARAMLEN) s1 /\
             out s1 = out st /\ heap s1 = heap st /\ funs s1 = funs st /\ classes s1 = classes st.
Proof. exact arity_mismatch_runs_nothing. Qed.
Print Assumptions C08_arity_mismatch_runs_nothing.

(* Property writes on one object never affect another cell. *)
Theorem C08_property_write_local : forall st l m v s1 l',
  set_property st (VObj l) m v = Ok tt s1 -> l' <> l -> hget s1 l' = hget st l'.
Proof. exact property_write_local. Qed.
Print Assumptions C08_property_write_local.

Theorem C08_unknown_property_error : forall st l c props m,
  hget st l = Some (CObj c props) -> m <> M_SELF -> assoc_name m props = None ->
  get_property st (VObj l) m = Er (ERun E_NOPROP) st /\ forall v, set_property st (VObj l) m v = Er (ERun E_NOPROP) st.
Proof. exact unknown_property_is_error. Qed.
Print Assumptions C08_unknown_property_error.

Theorem C08_unknown_method_error : forall ev k st l c props cd m args s1 v,
  hget st l = Some (CObj c props) -> nth_error (classes st) c = Some cd ->
  vm_find st (c_name cd) = Ok v s1 -> assoc_nat m (c_methods cd) = None ->
  exists s2, exec_method ev k st (VObj l) m args = Er (ERun E_NOMETHOD) s2.
Proof. exact unknown_method_is_error. Qed.
Print Assumptions C08_unknown_method_error.

(* non-vacuity: the initial state of a program run is well formed *)
(* every object created with 新建 starts from its own copies of the type's default values: the new cell holds, property
   by property, duplicates (value.DuplicateValue: fresh cells, equal contents — C07) of the defaults, made at creation *)
Theorem C08_new_object_copies_defaults : forall fuel st c cd v s2,
  new_object fuel st c cd = Ok v s2 ->
  exists props s1, dups_of fuel st (c_props cd) props s1 /\
                   v = VObj (length (heap s1)) /\ s2 = snd (alloc s1 (CObj c props)).
Proof. exact new_object_copies_defaults. Qed.
Print Assumptions C08_new_object_copies_defaults.

Example C08_wf_initial : wf (push_frame init_state 1 None).
Proof. split; [discriminate|constructor]. Qed.
