(* C01 — Expressions evaluate to the values the manual defines.
   Model: eval_expr of coq/model/Sem.v (evalExpression and the operator functions of pkg/exec/eval.go);
   numbers are IEEE-754 binary64 through Flocq.  Only statements closed by [exact], and their assumptions. *)
From Coq Require Import List ZArith Bool Reals Permutation.
Import ListNotations.
From Flocq Require Import Core.
From Zn.lib Require Import Float64.
From Zn.model Require Import SemDefs Sem.
From Zn.proofs Require Import Float64Proofs SemExpr SemEq.
Open Scope Z_scope.

(* For EVERY operator tree (any depth and shape, any mix of arithmetic, comparison and logical operators, literals and
   variables holding numbers, booleans, texts or 空) and every state: with fuel above the tree's depth the evaluator
   returns exactly the documented value or error [den], and leaves the state unchanged. *)
Theorem C01_eval_operator_expression : forall e st n,
  (pdepth e < n)%nat -> scalar_vars st e ->
  eval_expr n st (inj e) = lift_s st (den st e).
Proof. exact eval_operator_expression. Qed.
Print Assumptions C01_eval_operator_expression.

(* 且 / 或 evaluate the right operand only when the left one does not decide — for EVERY right operand
   (erroring, looping, with side effects: it is not even looked at). *)
Theorem C01_and_short_circuit : forall n st a b s1,
  eval_expr n st a = Ok (VBool false) s1 -> eval_expr (S n) st (ELogic LAnd a b) = Ok (VBool false) s1.
Proof. exact and_short_circuit. Qed.
Print Assumptions C01_and_short_circuit.

Theorem C01_or_short_circuit : forall n st a b s1,
  eval_expr n st a = Ok (VBool true) s1 -> eval_expr (S n) st (ELogic LOr a b) = Ok (VBool true) s1.
Proof. exact or_short_circuit. Qed.
Print Assumptions C01_or_short_circuit.

Theorem C01_logic_evaluates_right_otherwise : forall n st op a b x s1,
  (op = LAnd /\ x = true) \/ (op = LOr /\ x = false) ->
  eval_expr n st a = Ok (VBool x) s1 ->
  eval_expr (S n) st (ELogic op a b) =
    match eval_expr n s1 b with
    | Ok (VBool y) s2 => Ok (VBool y) s2
    | Ok _ s2 => Er (ERun E_EXPRTYPE) s2
    | r => r
    end.
Proof. exact logic_evaluates_right_otherwise. Qed.
Print Assumptions C01_logic_evaluates_right_otherwise.

(* Errors, never values: 且 / 或 on a non-boolean; arithmetic on non-numbers or with a zero divisor; ordering on
   non-numbers. *)
Theorem C01_logic_non_bool_is_error : forall n st op a b v s1,
  (op = LAnd \/ op = LOr) -> eval_expr n st a = Ok v s1 -> (forall x, v <> VBool x) ->
  eval_expr (S n) st (ELogic op a b) = Er (ERun E_EXPRTYPE) s1.
Proof. exact logic_non_bool_is_error. Qed.
Print Assumptions C01_logic_non_bool_is_error.

Theorem C01_arith_value_iff : forall st op a b v s,
  arith_op st op a b = Ok v s <->
  exists x y, a = VNum x /\ b = VNum y /\ (divides op && fis_zero y = false) /\ v = VNum (arith_val op x y) /\ s = st.
Proof. exact arith_value_iff. Qed.
Print Assumptions C01_arith_value_iff.

Theorem C01_division_by_zero_is_error : forall st op x y,
  divides op = true -> fis_zero y = true -> arith_op st op (VNum x) (VNum y) = Er (ERun E_DIVZERO) st.
Proof. exact arith_div_zero. Qed.
Print Assumptions C01_division_by_zero_is_error.

Theorem C01_order_non_number_left_is_error : forall st op a b,
  (forall x, a <> VNum x) -> order_op st op a b = Er (ERun E_CMPL) st.
Proof. exact order_non_number_left. Qed.
Print Assumptions C01_order_non_number_left_is_error.

Theorem C01_order_non_number_right_is_error : forall st op x b,
  (forall y, b <> VNum y) -> order_op st op (VNum x) b = Er (ERun E_CMPR) st.
Proof. exact order_non_number_right. Qed.
Print Assumptions C01_order_non_number_right_is_error.

(* IEEE-754 double arithmetic: for finite operands whose rounded real result does not overflow, + - * / yield the
   round-to-nearest-even image of the real result (Flocq's correctness theorems instantiated at binary64). *)
Theorem C01_add_ieee : forall a b,
  finiteb a = true -> finiteb b = true -> no_overflow (real_of a + real_of b) ->
  real_of (fadd a b) = rnd (real_of a + real_of b) /\ finiteb (fadd a b) = true.
Proof. exact fadd_ieee. Qed.
Print Assumptions C01_add_ieee.

Theorem C01_sub_ieee : forall a b,
  finiteb a = true -> finiteb b = true -> no_overflow (real_of a - real_of b) ->
  real_of (fsub a b) = rnd (real_of a - real_of b) /\ finiteb (fsub a b) = true.
Proof. exact fsub_ieee. Qed.
Print Assumptions C01_sub_ieee.

Theorem C01_mul_ieee : forall a b,
  finiteb a = true -> finiteb b = true -> no_overflow (real_of a * real_of b) ->
  real_of (fmul a b) = rnd (real_of a * real_of b) /\ finiteb (fmul a b) = true.
Proof. exact fmul_ieee. Qed.
Print Assumptions C01_mul_ieee.

Theorem C01_div_ieee : forall a b,
  finiteb a = true -> real_of b <> 0%R -> no_overflow (real_of a / real_of b) ->
  real_of (fdiv a b) = rnd (real_of a / real_of b) /\ finiteb (fdiv a b) = true.
Proof. exact fdiv_ieee. Qed.
Print Assumptions C01_div_ieee.

(* a | b is the real floor of the (rounded) quotient; the zero test is the real zero test *)
Theorem C01_floor_div_real : forall a b,
  finiteb a = true -> real_of b <> 0%R -> no_overflow (real_of a / real_of b) ->
  real_of (ffloor (fdiv a b)) = IZR (Zfloor (rnd (real_of a / real_of b))).
Proof. exact floor_div_real. Qed.
Print Assumptions C01_floor_div_real.

Theorem C01_floor_is_real_floor : forall a, finiteb a = true ->
  real_of (ffloor a) = IZR (Zfloor (real_of a)) /\ finiteb (ffloor a) = true.
Proof. exact ffloor_real. Qed.
Print Assumptions C01_floor_is_real_floor.

Theorem C01_zero_divisor_is_real_zero : forall b, finiteb b = true -> (fis_zero b = true <-> real_of b = 0%R).
Proof. exact fis_zero_real. Qed.
Print Assumptions C01_zero_divisor_is_real_zero.

(* 为 / 不为 / == / /= on dictionaries: equal iff every key of the left operand has an equal value on the right, whatever
   the order of the entries (structural equality is a function of the contents; lists compare element-wise) *)
Theorem C01_dict_equality_structural : forall k h la la' lb lb' xs xs' ys ys',
  nth_error h la = Some (CDict xs) -> nth_error h la' = Some (CDict xs') ->
  nth_error h lb = Some (CDict ys) -> nth_error h lb' = Some (CDict ys') ->
  NoDup (keys ys) -> Permutation xs xs' -> Permutation ys ys' ->
  (xeq (S k) h (VDict la) (VDict lb) = CTrue <-> xeq (S k) h (VDict la') (VDict lb') = CTrue).
Proof. exact xeq_dict_contents_only. Qed.
Print Assumptions C01_dict_equality_structural.

(* non-vacuity: 3 | 2 + 7 % 3 * 2 - 1.5 = 1.5 ; -7 | 2 = -4 ; 假 且 (1/0 == 1) = 假 *)
Example C01_witness_value :
  den init_state (PArith ASub (PArith AAdd (PArith AIntDiv (PNum 4613937818241073152) (PNum 4611686018427387904))
                                  (PArith AMul (PArith AMod (PNum 4619567317775286272) (PNum 4613937818241073152)) (PNum 4611686018427387904)))
                     (PNum 4609434218613702656)) = SV (VNum 4609434218613702656).
Proof. vm_compute. reflexivity. Qed.
Example C01_witness_floor : arith_val AIntDiv (of_int (-7)) (of_int 2) = of_int (-4).
Proof. vm_compute. reflexivity. Qed.
Example C01_witness_short_circuit :
  eval_expr 5 (push_frame init_state 1 None)
    (ELogic LAnd (EVar ID_FALSE) (ELogic LEq (EArith ADiv (ENum 4607182418800017408) (ENum 0)) (ENum 4607182418800017408)))
  = Ok (VBool false) (push_frame init_state 1 None).
Proof. vm_compute. reflexivity. Qed.
