(* C17 — Source files are decoded losslessly or rejected.
   Only statements, closed by [exact], and their assumptions. *)
From Coq Require Import List ZArith Bool.
Import ListNotations.
From Zn.model Require Import Decode.
From Zn.proofs Require Import DecodeProofs.
Open Scope Z_scope.

(* Every sequence of Unicode scalar values survives encode -> decode. *)
Theorem C17_utf8_roundtrip : forall cps, Forall scalar cps -> decode_bytes (encode_all cps) = Ok cps.
Proof. exact decode_bytes_encode_all. Qed.
Print Assumptions C17_utf8_roundtrip.

(* The decoder accepts only byte strings that are the UTF-8 encoding of what it returns. *)
Theorem C17_decode_only_valid : forall bs cps, Forall byteP bs -> decode_bytes bs = Ok cps ->
  Forall scalar cps /\ bs = encode_all cps.
Proof. exact decode_bytes_sound. Qed.
Print Assumptions C17_decode_only_valid.

(* FileStream.ReadAll over ANY reader behaviour (any chunk sizes, empty reads, EOF delivered
   with or after the last bytes) equals one-shot decoding of the delivered bytes. *)
Theorem C17_all_chunkings : forall reads, file_read_all reads = decode_file (delivered reads).
Proof. exact file_read_all_is_decode_file. Qed.
Print Assumptions C17_all_chunkings.

Theorem C17_byte_stream : forall bs, bytes_read_all bs = decode_bytes bs.
Proof. exact bytes_read_all_is_decode_bytes. Qed.
Print Assumptions C17_byte_stream.

(* exactly one leading BOM is removed *)
Theorem C17_bom_once : forall cps, Forall scalar cps ->
  decode_file (encode_all (BOM :: cps)) = Ok cps /\
  (hd 0 cps <> BOM -> decode_file (encode_all cps) = Ok cps).
Proof. intros cps H. split; [exact (decode_file_bom cps H) | exact (decode_file_nobom cps H)]. Qed.
Print Assumptions C17_bom_once.

Theorem C17_invalid_rejected : forall reads, Forall byteP (delivered reads) ->
  (~ exists cps, Forall scalar cps /\ delivered reads = encode_all cps) -> file_read_all reads = Err.
Proof. exact file_read_all_invalid. Qed.
Print Assumptions C17_invalid_rejected.

Theorem C17_no_silent_truncation : forall reads cps, Forall byteP (delivered reads) ->
  file_read_all reads = Ok cps ->
  delivered reads = encode_all cps \/ delivered reads = encode_all (BOM :: cps).
Proof. exact file_read_all_lossless. Qed.
Print Assumptions C17_no_silent_truncation.

(* non-vacuity: a BOM, an astral character split over three reads, U+FFFD itself *)
Example C17_example :
  file_read_all [([0xEF; 0xBB], false); ([0xBF; 0xF0; 0x9F], false); ([], false); ([0x98; 0x80; 0xEF; 0xBF; 0xBD], true)]
  = Ok [0x1F600; 0xFFFD].
Proof. vm_compute. reflexivity. Qed.
Example C17_example_invalid : file_read_all [([0x41; 0xFF; 0x42], false)] = Err.
Proof. vm_compute. reflexivity. Qed.
Example C17_example_truncated : file_read_all [([0x41; 0xE4; 0xBD], false)] = Err.
Proof. vm_compute. reflexivity. Qed.
