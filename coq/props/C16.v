(* C16 — Executions are isolated from one another (process-level model coq/model/Isolation.v).
   Only statements closed by [exact], and their assumptions.  "Free of data races" in the sense of the Go memory model is
   not expressible here: what is proved is the absence of shared mutable logical state (partial, see MANIFEST). *)
From Coq Require Import List ZArith Bool.
Import ListNotations.
From Zn.model Require Import Isolation.
From Zn.proofs Require Import IsolationProofs.
Open Scope Z_scope.

(* For all sequences P1;…;Pn;Q of programs run in one process, whatever they do to the predefined values
   (mutating methods on 数值, redefining the constructor of 异常), whatever names they declare, however they fail:
   Q's observations equal those of Q run alone from the pristine state. *)
Theorem C16_sequence_isolated : forall ps q g,
  last (run_sequence execute g (ps ++ [q])) [] = snd (execute g0 q).
Proof. exact sequence_isolated. Qed.
Print Assumptions C16_sequence_isolated.

Theorem C16_every_execution_pristine : forall ps g,
  run_sequence execute g ps = map (fun p => snd (execute g0 p)) ps.
Proof. exact sequence_pointwise. Qed.
Print Assumptions C16_every_execution_pristine.

Theorem C16_global_region_immutable : forall g prog, fst (execute g prog) = g.
Proof. exact execute_keeps_globals. Qed.
Print Assumptions C16_global_region_immutable.

Theorem C16_error_leftovers_harmless : forall g p q,
  snd (execute (fst (execute g (p ++ [OFail]))) q) = snd (execute g0 q).
Proof. exact error_leftovers_harmless. Qed.
Print Assumptions C16_error_leftovers_harmless.

(* For all interleavings of any number of request handlers over ONE shared interpreter object (each handler: load its
   source, then execute), every request executes its own source. *)
Theorem C16_interleavings_own_source : forall sched,
  valid_schedule sched = true -> ran_own (run_schedule hstep_fixed sched).
Proof. exact interleavings_own_source. Qed.
Print Assumptions C16_interleavings_own_source.

(* The pinned behaviour violates each clause (witnesses replayed on the implementation by the check). *)
Theorem C16_pinned_number_refuted :
  exists ps q, last (run_sequence execute_pinned g0 (ps ++ [q])) [] <> snd (execute_pinned g0 q).
Proof. exact pinned_sequence_refuted. Qed.
Theorem C16_pinned_constructor_refuted :
  exists ps q, last (run_sequence execute_pinned g0 (ps ++ [q])) [] <> snd (execute_pinned g0 q).
Proof. exact pinned_constructor_refuted. Qed.
Theorem C16_pinned_interleaving_refuted :
  exists sched, valid_schedule sched = true /\ ~ ran_own (run_schedule hstep_pinned sched).
Proof. exact pinned_interleaving_refuted. Qed.
Print Assumptions C16_pinned_interleaving_refuted.

Example C16_example_schedule :
  enc_ran (run_schedule hstep_fixed [HLoad 0%nat; HLoad 1%nat; HExec 1%nat; HLoad 2%nat; HExec 0%nat; HExec 2%nat])
  = [[1; 1]; [0; 0]; [2; 2]].
Proof. vm_compute. reflexivity. Qed.
