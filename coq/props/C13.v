(* C13 — Every text value round-trips through a string literal.
   Only statements, closed by [exact], and their assumptions.
   Model: model/StringLit.v (parseString + unescapeBackTickSpecialStr of pkg/syntax/zh/tokens.go, code points as Z).
   A "style" is one of the five opening quotes o (is_left_quote o = true) with its partner quote_match o. *)
From Coq Require Import List ZArith Bool.
Import ListNotations.
From Zn.model Require Import StringLit.
From Zn.proofs Require Import StringLitProofs.
Open Scope Z_scope.

(* Every text can be written as a literal and reads back exactly, in every style and whatever follows the literal:
   the token has the style's type, its Literal is the text, and it ends right after the closing quote.
   (encoder: own quotes that are balanced stay verbatim, unbalanced ones are wrapped in backticks, a backtick is `BK`,
   NUL is `U+0` (nul = true; literal_of) or verbatim (nul = false), everything else, line breaks included, verbatim.)
   Proved for all lists of code points (non-negative integers), by induction on the text. *)
Theorem C13_roundtrip : forall nul o s tail, is_left_quote o = true -> Forall (fun x => 0 <= x) s ->
  exists lines,
    lex_string (literal_gen nul o s ++ tail) = LexOk (token_type o) s (Z.of_nat (length (literal_gen nul o s))) lines.
Proof. exact roundtrip_flag. Qed.
Print Assumptions C13_roundtrip.

(* ... and for texts of Unicode scalar values the text value built from the token (Go's string(runes)) is the text *)
Theorem C13_roundtrip_value : forall o s tail, is_left_quote o = true -> Forall (fun x => scalar x = true) s ->
  exists e lines, lex_string (literal_of o s ++ tail) = LexOk (token_type o) s e lines /\ to_text s = s.
Proof. exact roundtrip_value. Qed.
Print Assumptions C13_roundtrip_value.

(* The characters between the outer quotes become the value verbatim — nested balanced pairs of the own quotes, all
   foreign quotes, LF / CR / CRLF / LFCR as written, spaces, punctuation, NUL: any code point but the backtick — and the literal
   closes exactly at the own closing quote that brings the nesting depth back to zero. *)
Theorem C13_balanced_verbatim : forall o body tail, is_left_quote o = true ->
  no_special body = true -> balanced o (quote_match o) 0 body = true ->
  exists lines,
    lex_string (o :: body ++ quote_match o :: tail) = LexOk (token_type o) body (Z.of_nat (length body) + 2) lines.
Proof. exact balanced_verbatim. Qed.
Print Assumptions C13_balanced_verbatim.

(* Escape table (manual chapter 6): in any literal, at any depth, before any text R, each documented name denotes its
   characters ... *)
Theorem C13_escape_table : forall name chars, In (name, chars) esc_names ->
  forall o f q lit lines pos R,
    ps_loop (S f) o q lit lines pos (name ++ R) = ps_loop f o q (lit ++ chars) lines (pos + Z.of_nat (length name)) R.
Proof. intros name chars H o. exact (ps_name o name chars H). Qed.
Print Assumptions C13_escape_table.

(* ... `U+h` with 1..8 digits [0-9A-F] denotes the code point h (saturating at MaxInt32 like strconv.ParseInt), and every
   Unicode scalar value can be written that way ... *)
Theorem C13_escape_uplus : forall ds R, Forall hexd ds -> (1 <= length ds <= 8)%nat ->
  unescape (85 :: 43 :: ds ++ BT :: R) = ([parse_hex32 ds], Z.of_nat (length ds) + 3, R).
Proof. exact unescape_uplus. Qed.
Print Assumptions C13_escape_uplus.

Theorem C13_escape_uplus_value : forall v R, 0 <= v <= 0x10FFFF ->
  unescape (tl (esc_uplus v) ++ R) = ([v], 11, R).
Proof. exact unescape_uplus_value. Qed.
Print Assumptions C13_escape_uplus_value.

(* ... a single quote character wrapped in backticks denotes itself and does not take part in the depth count ... *)
Theorem C13_escape_lone_quote : forall o f q lit lines pos x R, is_quote x = true ->
  ps_loop (S f) o q lit lines pos (wrap x ++ R) = ps_loop f o q (lit ++ [x]) lines (pos + 3) R.
Proof. exact ps_wrapped. Qed.
Print Assumptions C13_escape_lone_quote.

(* ... and any other backtick text is kept literally: the machine's result is always one of exactly four cases — a
   documented name, U+hex, a lone wrapped quote, or the consumed text (backtick included) appended unchanged, which never
   contains a quote character (so nothing is hidden from the depth count) and after which reading resumes. *)
Theorem C13_escape_fallback_keeps_text : forall R out n R2, unescape R = (out, n, R2) -> esc_class R out n R2.
Proof. exact unescape_classify. Qed.
Print Assumptions C13_escape_fallback_keeps_text.

(* Every run terminates within its fuel; a token always ends right after an own closing quote (never a foreign one);
   the only error is "incomplete string". *)
Theorem C13_closes_only_at_own_quote : forall src,
  match lex_string src with
  | LexOk ty lit e lines =>
      exists o pre post, src = o :: pre ++ quote_match o :: post /\ is_left_quote o = true /\
                         e = Z.of_nat (length pre) + 2 /\ ty = token_type o
  | LexErr code _ => is_left_quote (hd 0 src) = true -> code = ErrIncompleteString
  | OutOfFuel => False
  end.
Proof. exact lex_string_shape. Qed.
Print Assumptions C13_closes_only_at_own_quote.

(* An unterminated literal is a syntax error. *)
Theorem C13_unterminated_is_error : forall o rest, is_left_quote o = true -> ~ In (quote_match o) rest ->
  exists cursor, lex_string (o :: rest) = LexErr ErrIncompleteString cursor.
Proof. exact unterminated_is_error. Qed.
Print Assumptions C13_unterminated_is_error.

(* ---- non-vacuity: concrete literals evaluated by the model *)
(* “甲`”`乙`“`丙” (manual 6, 引号的搭配)  ->  甲”乙“丙 *)
Example C13_example_manual :
  lex_string [LDQ2; 0x7532; BT; RDQ2; BT; 0x4E59; BT; LDQ2; BT; 0x4E19; RDQ2]
  = LexOk TypeString [0x7532; RDQ2; 0x4E59; LDQ2; 0x4E19] 11 [0].
Proof. vm_compute. reflexivity. Qed.
(* the encoder on  a”b`c“<NUL><CR><LF>“d”  in style “ ” *)
Example C13_example_encode :
  literal_of LDQ2 [97; RDQ2; 98; BT; 99; LDQ2; 0; CR; LF; LDQ2; 100; RDQ2]
  = [LDQ2; 97; BT; RDQ2; BT; 98; BT; 66; 75; BT; 99; BT; LDQ2; BT; BT; 85; 43; 48; BT; CR; LF; LDQ2; 100; RDQ2; RDQ2].
Proof. vm_compute. reflexivity. Qed.
Example C13_example_roundtrip :
  lex_string (literal_of LDQ2 [97; RDQ2; 98; BT; 99; LDQ2; 0; CR; LF; LDQ2; 100; RDQ2] ++ [120])
  = LexOk TypeString [97; RDQ2; 98; BT; 99; LDQ2; 0; CR; LF; LDQ2; 100; RDQ2] 25 [0; 21].
Proof. vm_compute. reflexivity. Qed.
(* 《《论语》〈学而篇〉集注》 (manual 1): nested own pair verbatim, type LibString *)
Example C13_example_nested :
  lex_string [LLIB; LLIB; 0x8BBA; RLIB; 0x3008; 0x5B66; 0x3009; RLIB]
  = LexOk TypeLibString [LLIB; 0x8BBA; RLIB; 0x3008; 0x5B66; 0x3009] 8 [0].
Proof. vm_compute. reflexivity. Qed.
(* a NUL between the quotes is a character like any other (repaired lexer; rejected on the pinned tree) *)
Example C13_example_nul : lex_string [LDQ2; 97; 0; 98; RDQ2] = LexOk TypeString [97; 0; 98] 5 [0].
Proof. vm_compute. reflexivity. Qed.
Example C13_example_unterminated : lex_string [LDQ1; 97; RDQ2; LDQ1; RDQ1] = LexErr ErrIncompleteString 5.
Proof. vm_compute. reflexivity. Qed.
Example C13_example_uplus : unescape (tl (esc_uplus 0x1F005) ++ [RDQ2]) = ([0x1F005], 11, [RDQ2]).
Proof. vm_compute. reflexivity. Qed.
Example C13_example_fallback : lex_string [LDQ2; BT; 85; 43; 49; 102; BT; RDQ2] = LexOk TypeString [BT; 85; 43; 49; 102; BT] 8 [0].
Proof. vm_compute. reflexivity. Qed.
