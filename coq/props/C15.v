(* C15 — Modules load once, export read-only names, and cycles are reported.
   Only statements, closed by [exact], and their assumptions.  The model (coq/model/Modules.v) is the REPAIRED
   import algorithm (fixes/C15-1.patch, fixes/C15-2.patch, and the method-home repair C15-3); the two refuting witnesses of the pinned code are in
   corpus/C15/cases.json and findings/C15.md.

   [ord_exports] / [ord_nodes] are the iteration orders of the two Go maps that the algorithm ranges over (the export
   table of "import all", the adjacency map of the DFS); every theorem holds for all orders that enumerate the same keys. *)
From Coq Require Import List ZArith Bool.
Import ListNotations.
From Zn.model Require Import Modules.
From Zn.proofs Require Import ModulesProofs ModulesDfsProofs ModulesLoadProofs.
Open Scope Z_scope.

(* ---- the cycle test: for ALL finite digraphs (edge lists), any iteration order of the adjacency map *)
Theorem C15_dfs_iff_cycle : forall (ord : list nat -> list nat) (g : list (nat * nat)),
  (forall l x, In x (ord l) <-> In x l) ->
  (check_circular ord g = Some true <-> exists v, pathp g v v).
Proof. exact check_circular_iff_cycle. Qed.
Print Assumptions C15_dfs_iff_cycle.

(* the fuel the model gives the DFS always suffices (the Go recursion terminates), and "false" means acyclic *)
Theorem C15_dfs_total : forall ord g, (forall l x, In x (ord l) <-> In x l) ->
  check_circular ord g <> None /\ (check_circular ord g = Some false <-> ~ exists v, pathp g v v).
Proof. intros ord g H. split; [exact (check_circular_total ord g H) | exact (check_circular_false_iff ord g H)]. Qed.
Print Assumptions C15_dfs_total.

Theorem C15_dfs_order_independent : forall ord1 ord2 g,
  (forall l x, In x (ord1 l) <-> In x l) -> (forall l x, In x (ord2 l) <-> In x l) ->
  check_circular ord1 g = check_circular ord2 g.
Proof. exact check_circular_order_independent. Qed.
Print Assumptions C15_dfs_order_independent.

(* ---- name -> path: 导入“A-B-C” is A/B/C.zn under the main file's directory; 《@库》 is a library name *)
Theorem C15_path_mapping : forall segs, segs <> [] -> Forall (fun s => ~ In c_dash s) segs ->
  hd 0 (join_with c_dash segs) <> c_at ->
  parse_lib_name (join_with c_dash segs) = (LibCustom, segs) /\
  path_of_name (join_with c_dash segs) = add_zn segs /\
  (forall pre last, segs = pre ++ [last] -> path_of_name (join_with c_dash segs) = pre ++ [last ++ dot_zn]) /\
  (forall n, fst (parse_lib_name (c_at :: n)) = LibStd).
Proof.
  intros segs H1 H2 H3. destruct (path_mapping segs H1 H2 H3) as [A B].
  split; [exact A|]. split; [exact B|]. split.
  - intros pre last E. rewrite B, E. exact (add_zn_shape pre last).
  - exact lib_name_parse.
Qed.
Print Assumptions C15_path_mapping.

(* ---- each module's program is executed at most once per run: a run that ends normally logs the end of every module
        at most once; and, for every outcome, importing a registered name never executes a program again *)
Theorem C15_body_at_most_once : forall fs libs oe on mainfile,
  (forall l x, In x (on l) <-> In x l) ->
  (forall fuel st', run_main fs libs oe on fuel mainfile = (Ok, st') -> NoDup (fin st')) /\
  (forall ld1 ld2 st imp, find_module st (i_name imp) <> None ->
     eval_import_with fs libs oe on ld1 st imp = eval_import_with fs libs oe on ld2 st imp).
Proof.
  intros fs libs oe on mainfile Hon. split.
  - exact (run_ok_nodup fs libs oe on Hon mainfile).
  - exact (registered_never_reloaded fs libs oe on).
Qed.
Print Assumptions C15_body_at_most_once.

(* ---- a module's own definitions and statements start only after every module it imports has finished
        (all graphs: chains, diamonds, repeated imports; self-imports and cycles never reach the importer's body) *)
Theorem C15_body_before_importer : forall fs libs oe on mainfile,
  (forall l x, In x (on l) <-> In x l) ->
  forall fuel st' l1 u l2 s n,
    run_main fs libs oe on fuel mainfile = (Ok, st') ->
    v_trace st' = l1 ++ EStart u :: l2 ->
    m_src (get_mod st' u) = Some s -> In n (imports_of s) ->
    exists b, find_module st' n = Some b /\ In (EDone b) l2.
Proof. intros fs libs oe on mainfile Hon. exact (run_ok_imports_before_body fs libs oe on Hon mainfile). Qed.
Print Assumptions C15_body_before_importer.

(* a failing import (missing module, cycle, name clash, failing module program) aborts the importer at once *)
Theorem C15_failing_import_aborts : forall fs libs oe on f id src st pre imp post st1 r st2,
  s_imports src = pre ++ imp :: post ->
  imports_loop fs libs oe on (run_program fs libs oe on f) st pre = (Ok, st1) ->
  eval_import_with fs libs oe on (run_program fs libs oe on f) st1 imp = (r, st2) ->
  r <> Ok ->
  run_program fs libs oe on (S f) id src st = (r, st2).
Proof. exact failing_import_aborts. Qed.
Print Assumptions C15_failing_import_aborts.

(* ---- exactly the exported names (all of them, in any map order) become visible, as constants that remember
        their home module; nothing else in the importer's scope changes; assigning to one is error 44 *)
Theorem C15_exports_exact_and_const : forall oe, (forall l xv, In xv (oe l) <-> In xv l) ->
  forall st ext st',
    import_symbols oe st ext [] = (Ok, st') ->
    (forall x, (exists v, In (x, v) (m_exports (get_mod st ext))) ->
       exists y, scope_lookup (sc_syms (cur_scope st')) x = Some y /\ y_const y = true /\ y_ext y = Some ext /\
                 In (x, y_val y) (m_exports (get_mod st ext))) /\
    (forall x, ~ (exists v, In (x, v) (m_exports (get_mod st ext))) ->
       scope_lookup (sc_syms (cur_scope st')) x = scope_lookup (sc_syms (cur_scope st)) x) /\
    (forall x callee, (exists v, In (x, v) (m_exports (get_mod st ext))) ->
       exec_stmt_with callee st' (SAssign x) = (Err E_AssignToConstant, st')) /\
    v_mods st' = v_mods st /\ v_trace st' = v_trace st.
Proof.
  intros oe Hoe st ext st' H.
  pose proof (import_symbols_exact oe st ext [] st' H) as (C & V & N).
  assert (Hin : forall x, In x (map fst (imported_list oe st ext [])) <-> exists v, In (x, v) (m_exports (get_mod st ext))).
  { intros x. rewrite in_map_iff. split.
    - intros [[x' v] [E I]]. simpl in E. subst. exists v. apply (imported_all oe Hoe). exact I.
    - intros [v I]. exists (x, v). split; [reflexivity | apply (imported_all oe Hoe); exact I]. }
  split; [|split; [|split]].
  - intros x Hx. destruct (V x (proj2 (Hin x) Hx)) as (y & A & B & D & E).
    exists y. repeat split; auto. apply (imported_all oe Hoe). exact E.
  - intros x Hx. apply N. intros Hc. apply Hx. apply Hin. exact Hc.
  - intros x callee Hx. apply (imported_name_is_const oe st ext [] st' x callee H). apply Hin. exact Hx.
  - destruct C as (A & _ & _ & _ & B). split; assumption.
Qed.
Print Assumptions C15_exports_exact_and_const.

(* ---- 导入“M”之 a、b : exactly the listed names that M exports; an import either succeeds or is error 43 (redeclared) *)
Theorem C15_selective_import : forall oe st ext items st',
  items <> [] ->
  import_symbols oe st ext items = (Ok, st') ->
  (forall x, In x items -> (exists v, assoc_find (m_exports (get_mod st ext)) x = Some v) ->
     exists y, scope_lookup (sc_syms (cur_scope st')) x = Some y /\ y_const y = true /\ y_ext y = Some ext /\
               assoc_find (m_exports (get_mod st ext)) x = Some (y_val y)) /\
  (forall x, ~ (In x items /\ exists v, assoc_find (m_exports (get_mod st ext)) x = Some v) ->
     scope_lookup (sc_syms (cur_scope st')) x = scope_lookup (sc_syms (cur_scope st)) x) /\
  (forall r s, import_symbols oe st ext items = (r, s) -> r = Ok \/ r = Err E_NameRedeclared).
Proof.
  intros oe st ext items st' Hne H.
  pose proof (import_symbols_exact oe st ext items st' H) as (C & V & N).
  split; [|split].
  - intros x Hi Hv. destruct (V x (proj2 (imported_listed oe st ext items x Hne) (conj Hi Hv))) as (y & A & B & D & E).
    exists y. repeat split; auto.
    unfold imported_list in E. destruct items; [contradiction|]. apply select_exports_In in E. tauto.
  - intros x Hx. apply N. intros Hc. apply Hx. apply (imported_listed oe st ext items x Hne). exact Hc.
  - intros r s Hr. exact (import_symbols_res oe st ext items r s Hr).
Qed.
Print Assumptions C15_selective_import.

(* ---- a missing module is error 60, a missing library error 64 (and the importer is aborted, see above) *)
Theorem C15_missing_is_error : forall fs libs oe on loader st imp,
  (fst (parse_lib_name (i_name imp)) = LibCustom -> find_module st (i_name imp) = None ->
   fs_find fs (path_of_name (i_name imp)) = None ->
   eval_import_with fs libs oe on loader st imp = (Err E_ModuleNotFound, st)) /\
  (fst (parse_lib_name (i_name imp)) = LibStd -> lib_find libs (i_name imp) = None ->
   fst (eval_import_with fs libs oe on loader st imp) = Err E_LibraryNotFound).
Proof.
  intros. split.
  - exact (import_missing_module fs libs oe on loader st imp).
  - exact (import_missing_library fs libs oe on loader st imp).
Qed.
Print Assumptions C15_missing_is_error.

(* ---- cycles: if the import relation of the files has a cycle reachable from the main file, the run never ends
        normally (no silently half-initialised modules); the import that closes a cycle is answered with error 63 *)
Theorem C15_cycle_reported : forall fs libs oe on mainfile,
  (forall l x, In x (on l) <-> In x l) ->
  (forall fuel n, reach fs mainfile main_module_name n -> fpath fs mainfile n n ->
     fst (run_main fs libs oe on fuel mainfile) <> Ok) /\
  (forall st n b, find_module st n = Some b -> (exists v, pathp (v_edges st) v v) ->
     check_dependency on st n = Err E_CircularDependency).
Proof.
  intros fs libs oe on mainfile Hon. split.
  - exact (cycle_never_ok fs libs oe on Hon mainfile).
  - exact (check_dependency_cycle on Hon).
Qed.
Print Assumptions C15_cycle_reported.

(* ---- an imported method runs on a frame of its home module, where that module's own methods and types are found
        (whatever the importer's scope contains, and also after the home module's program has ended) *)
Theorem C15_imported_method_sees_home_module :
  (forall (callee : vm -> list stmt -> res * vm) st f y h body r st',
     scope_lookup (sc_syms (cur_scope st)) f = Some y -> y_ext y = Some h -> y_val y = VFun h body ->
     assoc_find (m_exports (get_mod st (cur_id st))) f = None ->
     exec_stmt_with callee st (SCall f) = (r, st') ->
     exists sa sb r0, v_cs sa = Some h /\ v_mods sa = v_mods st /\ v_trace sa = v_trace st /\
                      callee sa body = (r0, sb) /\ r = match r0 with Ok => Ok | other => wrap_exc other end) /\
  (forall st h x v,
     v_cs st = Some h -> assoc_find (m_exports (get_mod st h)) x = Some v ->
     (forall y, scope_lookup (sc_syms (cur_scope st)) x = Some y -> y_depth y = 0%nat) ->
     find_with_module st x = Some (v, h)).
Proof. split; [exact imported_call_frame | exact home_lookup]. Qed.
Print Assumptions C15_imported_method_sees_home_module.

(* ---- a method runs in the module it was defined in, whatever the name it is called by: a method value (of home
        module h) found under a name x of the current scope — imported, or a plain local variable such as the x of
        令x = 求 (y_ext y = None) — is executed on a frame of h *)
Theorem C15_aliased_method_runs_in_home_module :
  forall (callee : vm -> list stmt -> res * vm) st x y h body r st',
    scope_lookup (sc_syms (cur_scope st)) x = Some y -> y_val y = VFun h body ->
    assoc_find (m_exports (get_mod st (cur_id st))) x = None ->
    exec_stmt_with callee st (SCall x) = (r, st') ->
    exists sa sb r0, v_cs sa = Some h /\ v_mods sa = v_mods st /\ v_trace sa = v_trace st /\
                     callee sa body = (r0, sb) /\ r = match r0 with Ok => Ok | other => wrap_exc other end.
Proof. exact method_call_frame. Qed.
Print Assumptions C15_aliased_method_runs_in_home_module.

(* 令x = f binds x, as a plain variable of the current module (not constant, no home module of its own), to the very
   value the name f denotes; modules, current module and trace are untouched *)
Theorem C15_alias_binds_same_value :
  forall (callee : vm -> list stmt -> res * vm) st x f st',
    exec_stmt_with callee st (SAlias x f) = (Ok, st') ->
    exists v y, find_element st f = Some v /\
                scope_lookup (sc_syms (cur_scope st')) x = Some y /\
                y_val y = v /\ y_ext y = None /\ y_const y = false /\
                v_mods st' = v_mods st /\ v_cs st' = v_cs st /\ v_trace st' = v_trace st.
Proof. exact alias_binds. Qed.
Print Assumptions C15_alias_binds_same_value.

(* both together: 令x = f ; （x） where f denotes a method of module h runs that method's body in h *)
Theorem C15_alias_then_call_runs_in_home_module :
  forall (callee : vm -> list stmt -> res * vm) st x f h body st1 r st',
    find_element st f = Some (VFun h body) ->
    assoc_find (m_exports (get_mod st (cur_id st))) x = None ->
    exec_stmt_with callee st (SAlias x f) = (Ok, st1) ->
    exec_stmt_with callee st1 (SCall x) = (r, st') ->
    exists sa sb r0, v_cs sa = Some h /\ v_mods sa = v_mods st /\ v_trace sa = v_trace st /\
                     callee sa body = (r0, sb) /\ r = match r0 with Ok => Ok | other => wrap_exc other end.
Proof. exact alias_call_frame. Qed.
Print Assumptions C15_alias_then_call_runs_in_home_module.

(* ------------------------------------------------------------------ non-vacuity: the model on concrete file sets *)
Definition nm (l : list Z) : name := l.
Definition A : name := [30002].  (* 甲 *)
Definition B : name := [20057].  (* 乙 *)
Definition fileA := [A ++ dot_zn].
Definition fileB := [B ++ dot_zn].
Definition libs0 : libraries := [].

(* the two-file witness 甲 <-> 乙: error 63 and no body has run *)
Example C15_example_cycle :
  observe [(fileA, mkSource [mkImport B []] [] [SMark 1]); (fileB, mkSource [mkImport A []] [] [SMark 2])]
          libs0 fileA 20 = [[1; 63]; []].
Proof. vm_compute. reflexivity. Qed.

(* a diamond: 丁 once, before 乙 and 丙, which come before the main body; the imported method reaches its home module *)
Definition C := [19993]%Z. Definition D := [19969]%Z.
Definition fA := [27861; 30002]%Z.  Definition fD := [27861; 19969]%Z.  Definition fD2 := [36741; 19969]%Z.
Example C15_example_diamond :
  observe [ (fileA, mkSource [mkImport B []; mkImport C []] [] [SMark 1; SCall fA; SMark 2]);
            ([B ++ dot_zn], mkSource [mkImport D []] [DFun fA [SMark 3; SCall fD]] [SMark 4]);
            ([C ++ dot_zn], mkSource [mkImport D [fD2]] [] [SMark 5; SRef fD2; SAssign fD2]);
            ([D ++ dot_zn], mkSource [] [DFun fD [SMark 6; SCall fD2]; DFun fD2 [SMark 7]] [SMark 8]) ]
          libs0 fileA 20 = [[1; 44]; [8; 4; 5]].
Proof. vm_compute. reflexivity. Qed.

Example C15_example_diamond_ok :
  observe [ (fileA, mkSource [mkImport B []; mkImport C []] [] [SMark 1; SCall fA; SMark 2]);
            ([B ++ dot_zn], mkSource [mkImport D []] [DFun fA [SMark 3; SCall fD]] [SMark 4]);
            ([C ++ dot_zn], mkSource [mkImport D [fD2]] [] [SMark 5; SRef fD2]);
            ([D ++ dot_zn], mkSource [] [DFun fD [SMark 6; SCall fD2]; DFun fD2 [SMark 7]] [SMark 8]) ]
          libs0 fileA 20 = [[0]; [8; 4; 5; 1; 3; 6; 7; 2]].
Proof. vm_compute. reflexivity. Qed.

(* 乙 defines 助 (prints 9) and 求 (prints 3, calls 助); the main file imports only 求, keeps it in the variable 算 and
   calls 算: the body runs in 乙, where 助 is found (marker 9).  助 itself is not visible in the main file (error 42). *)
Definition fHelp := [21161]%Z.  (* 助 *)
Definition fAsk := [27714]%Z.   (* 求 *)
Definition vAlias := [31639]%Z. (* 算 *)
Example C15_example_alias :
  observe [ (fileA, mkSource [mkImport B [fAsk]] [] [SMark 1; SAlias vAlias fAsk; SCall vAlias; SMark 2]);
            (fileB, mkSource [] [DFun fHelp [SMark 9]; DFun fAsk [SMark 3; SCall fHelp]] [SMark 4]) ]
          libs0 fileA 20 = [[0]; [4; 1; 3; 9; 2]] /\
  observe [ (fileA, mkSource [mkImport B [fAsk]] [] [SMark 1; SAlias vAlias fAsk; SCall fHelp; SMark 2]);
            (fileB, mkSource [] [DFun fHelp [SMark 9]; DFun fAsk [SMark 3; SCall fHelp]] [SMark 4]) ]
          libs0 fileA 20 = [[1; 42]; [4; 1]].
Proof. vm_compute. split; reflexivity. Qed.

Example C15_example_missing :
  observe [(fileA, mkSource [mkImport B []] [] [SMark 1])] libs0 fileA 20 = [[1; 60]; []].
Proof. vm_compute. reflexivity. Qed.

Example C15_example_path : path_of_name (join_with c_dash [A; B; C]) = [A; B; C ++ dot_zn].
Proof. vm_compute. reflexivity. Qed.

Example C15_example_dfs : check_circular id_nodes [(0, 1); (1, 2); (2, 0)]%nat = Some true /\
                          check_circular id_nodes [(0, 1); (1, 2); (0, 2)]%nat = Some false.
Proof. vm_compute. split; reflexivity. Qed.
