(* C15 — Modules load once, export read-only names, and cycles are reported. *)
From Coq Require Import List ZArith Bool.
Import ListNotations.
From Zn.model Require Import Modules.
From Zn.proofs Require Import ModulesProofs.
Open Scope Z_scope.

Theorem C15_name_eqb : forall a b, name_eqb a b = true <-> a = b.
Proof. exact name_eqb_eq. Qed.
Print Assumptions C15_name_eqb.
