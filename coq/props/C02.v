(* C02 — Branches, loops and 输出 follow the documented control flow.
   Model: coq/model/Sem.v (exec_stmt / exec_block: return slot + error-encoded signals, as pkg/exec/eval.go).
   Specification: coq/spec/StmtSpec.v (structured outcomes Normal / Return / Break / Continue / Raise).
   Only statements closed by [exact], and their assumptions. *)
From Coq Require Import List ZArith Bool.
Import ListNotations.
From Zn.model Require Import SemDefs Sem.
From Zn.spec Require Import StmtSpec.
From Zn.proofs Require Import SemBase SemStmt SemCalls SemRefine SemProps.
Open Scope Z_scope.

(* The slot/signal mechanism computes exactly the structured outcome: for every fuel, every well-formed state
   whose current frame has no return value yet, every block (any nesting of branches and loops, inside and
   outside methods, arbitrary expressions including calls). *)
Theorem C02_exec_refines_outcomes : forall n k st b,
  wf st -> top_ret st = None ->
  rel_b (exec_block (eval_expr n) k st b) (o_block (eval_expr n) k st b).
Proof. exact block_refines_outcomes. Qed.
Print Assumptions C02_exec_refines_outcomes.

Theorem C02_stmt_refines_outcomes : forall n k st s,
  wf st -> top_ret st = None ->
  rel (exec_stmt (eval_expr n) k st s) (o_stmt (eval_expr n) k st s).
Proof. exact stmt_refines_outcomes. Qed.
Print Assumptions C02_stmt_refines_outcomes.

(* In the outcome semantics: once a statement ends with Return / Break / Continue / Raise, the block ends with
   that outcome in that state, whatever statements follow. *)
Theorem C02_return_stops_block : forall exec pre line s post st last o s2,
  (forall v, o <> ONormal v) -> is_def s = false ->
  forall s1 last1,
    o_block_go exec pre st last = OR (ONormal last1) s1 ->
    exec (set_line s1 line) s = OR o s2 ->
    o_block_go exec (pre ++ (line, s) :: post) st last = OR o s2.
Proof. exact o_block_go_stops. Qed.
Print Assumptions C02_return_stops_block.

(* ... and no further loop pass runs *)
Theorem C02_return_stops_while : forall ev body c l j st s1 v s2,
  ev (set_line st l) c = Ok (VBool true) s1 -> body s1 = OR (OReturn v) s2 ->
  o_while ev body c l (S j) st = OR (OReturn v) s2.
Proof. exact o_while_return. Qed.
Print Assumptions C02_return_stops_while.

(* 遍历: after a pass that ended normally or with 继续循环 the next pass gets the NEXT (index, element) pair of the list of
   pairs fixed when the loop started (indices 1..n in order: C02_iterate_list_order) *)
Theorem C02_iterate_next_pair : forall body names key item tl st s2,
  (exists v, ebind (bind_loop_vars names key item st) (fun _ sa => body sa) = OR (ONormal v) s2) \/
  ebind (bind_loop_vars names key item st) (fun _ sa => body sa) = OR OContinue s2 ->
  o_iter body names ((key, item) :: tl) st = o_iter body names tl s2.
Proof. exact o_iter_next_pair. Qed.
Print Assumptions C02_iterate_next_pair.

Theorem C02_return_stops_iterate : forall body names key item tl st v s2,
  ebind (bind_loop_vars names key item st) (fun _ sa => body sa) = OR (OReturn v) s2 ->
  o_iter body names ((key, item) :: tl) st = OR (OReturn v) s2.
Proof. exact o_iter_return. Qed.
Print Assumptions C02_return_stops_iterate.

(* 结束循环 / 继续循环 act on the innermost enclosing loop only: a loop never ends with one of them *)
Theorem C02_break_continue_innermost : forall ev body c l j st s,
  o_while ev body c l j st <> OR OBreak s /\ o_while ev body c l j st <> OR OContinue s.
Proof. exact o_while_consumes_signals. Qed.
Print Assumptions C02_break_continue_innermost.

Theorem C02_break_continue_innermost_iterate : forall body names items st s,
  o_iter body names items st <> OR OBreak s /\ o_iter body names items st <> OR OContinue s.
Proof. exact o_iter_consumes_signals. Qed.
Print Assumptions C02_break_continue_innermost_iterate.

(* ... and never leave a method body or the program: a body ends with a value or a non-signal error,
   its call stack and scopes restored *)
Theorem C02_signals_never_leave_a_body : forall n k st fd args,
  wf st ->
  match exec_exec_block (eval_expr n) k st fd args with
  | Ok _ s1 => R_ok_b st s1
  | Er e s1 => R_er_b st s1 /\ no_sig e
  | _ => True
  end.
Proof. exact body_balanced. Qed.
Print Assumptions C02_signals_never_leave_a_body.

(* 每当 re-tests its condition before every pass, at the line of the 每当 statement *)
Theorem C02_while_retests : forall ev body c l j st,
  o_while ev body c l (S j) st =
  ebind (ev (set_line st l) c) (fun cv s1 =>
    match cv with
    | VBool true =>
      match body s1 with
      | OR (ONormal _) s2 | OR OContinue s2 => o_while ev body c l j s2
      | OR OBreak s2 => OR (ONormal VNull) s2
      | o => o
      end
    | VBool false => OR (ONormal VNull) s1
    | _ => OR (ORaise (ERun E_EXPRTYPE)) s1
    end).
Proof. exact o_while_unfold. Qed.
Print Assumptions C02_while_retests.

(* exactly the first branch whose condition is 真; non-boolean conditions are rejected *)
Theorem C02_first_true_branch : forall ev blk ce b tl els st s1,
  ev st ce = Ok (VBool true) s1 ->
  o_others ev blk ((ce, b) :: tl) els st = oseq (blk b s1) (fun _ s => OR (ONormal VNull) s).
Proof. exact o_others_first_true. Qed.
Print Assumptions C02_first_true_branch.

Theorem C02_false_branch_skipped : forall ev blk ce b tl els st s1,
  ev st ce = Ok (VBool false) s1 ->
  o_others ev blk ((ce, b) :: tl) els st = o_others ev blk tl els s1.
Proof. exact o_others_skip_false. Qed.
Print Assumptions C02_false_branch_skipped.

Theorem C02_non_bool_condition_error : forall ev blk ce b tl els st s1 v,
  ev st ce = Ok v s1 -> (forall x, v <> VBool x) ->
  o_others ev blk ((ce, b) :: tl) els st = OR (ORaise (ERun E_EXPRTYPE)) s1.
Proof. exact o_others_non_bool. Qed.
Print Assumptions C02_non_bool_condition_error.

(* 遍历: list elements in order with indices 1..n; dictionary entries in key (insertion) order *)
Theorem C02_iterate_order_list : forall st l items pairs,
  hget st l = Some (CList items) -> iter_pairs st (VList l) = Some pairs ->
  map snd pairs = items /\ map fst pairs = map (fun i => VNum (Float64.of_int (Z.of_nat i))) (List.seq 1 (length items)).
Proof. exact iter_pairs_list_indices. Qed.
Print Assumptions C02_iterate_order_list.

Theorem C02_iterate_order_dict : forall st l kvs,
  hget st l = Some (CDict kvs) ->
  iter_pairs st (VDict l) = Some (map (fun kv => (VStr (fst kv), snd kv)) kvs).
Proof. exact iter_pairs_dict. Qed.
Print Assumptions C02_iterate_order_dict.

(* non-vacuity: the witness program of the catalogue — 输出 inside 每当 ends the program with 2 and "after"
   is never displayed *)
Example C02_witness :
  let prog := {| p_inputs := []; p_catch := [];
                 p_body := [(0, SDecl [(false, [100], ENum 4607182418800017408)]);
                            (1, SWhile (ELogic LLt (EVar 100) (ENum 4617315517961601024))
                                  [(2, SExpr (EAssignVar 100 (EArith AAdd (EVar 100) (ENum 4607182418800017408))));
                                   (3, SReturn (EVar 100))]);
                            (4, SExpr (ECall 5 [EStr [97]] None))] |} in
  match run_program 50 prog [] with
  | Ok (VNum b) s => b = 4611686018427387904 /\ out s = [] /\ stack s = []
  | _ => False
  end.
Proof. vm_compute. repeat split; reflexivity. Qed.
