(* C11 — Execution is deterministic.
   Only statements closed by [exact], and their assumptions. *)
From Coq Require Import List ZArith Bool Permutation.
Import ListNotations.
From Zn.model Require Import SemDefs Sem.
From Zn.proofs Require Import SemEq.
Open Scope Z_scope.

(* The evaluator model is a function of program, inputs and fuel (no hidden oracle: dictionaries are their key order). *)
Theorem C11_run_is_a_function : forall n p inputs r1 r2,
  run_program n p inputs = r1 -> run_program n p inputs = r2 -> r1 = r2.
Proof. exact run_program_deterministic. Qed.
Print Assumptions C11_run_is_a_function.

(* Dictionary equality answers "equal" iff EVERY key of the left operand has an equal value on the right ... *)
Theorem C11_dict_eq_all_keys : forall cmp ys xs,
  dict_go cmp ys xs = CTrue <->
  Forall (fun kx => exists y, assoc_str (fst kx) ys = Some y /\ cmp (snd kx) y = CTrue) xs.
Proof. exact dict_go_true. Qed.
Print Assumptions C11_dict_eq_all_keys.

(* ... hence it is a function of the contents only: any reordering of the entries of either operand, at any nesting
   level (the element comparison is the same function one fuel level down), gives the same answer. *)
Theorem C11_dict_eq_contents_only : forall k h la la' lb lb' xs xs' ys ys',
  nth_error h la = Some (CDict xs) -> nth_error h la' = Some (CDict xs') ->
  nth_error h lb = Some (CDict ys) -> nth_error h lb' = Some (CDict ys') ->
  NoDup (keys ys) -> Permutation xs xs' -> Permutation ys ys' ->
  (xeq (S k) h (VDict la) (VDict lb) = CTrue <-> xeq (S k) h (VDict la') (VDict lb') = CTrue).
Proof. exact xeq_dict_contents_only. Qed.
Print Assumptions C11_dict_eq_contents_only.

(* non-vacuity: the catalogue's witness — first keys equal, later keys differ *)
Example C11_witness :
  let h := [CDict [([65], VNum 1); ([66], VNum 2); ([67], VNum 3)];
            CDict [([67], VNum 8); ([65], VNum 1); ([66], VNum 9)]] in
  xeq 5 h (VDict 0) (VDict 1) = CFalse /\ xeq 5 h (VDict 0) (VDict 0) = CTrue.
Proof. vm_compute. split; reflexivity. Qed.
