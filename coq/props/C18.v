(* C18 — Errors point at the line and call chain where they arose.
   Specification of physical lines and Lexer.FindLineIdx: coq/model/Lines.v; current-line and call-chain bookkeeping of
   the evaluator: coq/model/Sem.v.  Only statements closed by [exact], and their assumptions. *)
From Coq Require Import List ZArith Bool Sorted.
Import ListNotations.
From Zn.model Require Import Lines SemDefs Sem.
From Zn.proofs Require Import LinesProofs SemBase SemStmt SemCalls SemLines.
From Zn.model Require Lexer Parser.
From Zn.proofs Require LineStartsProofs.
Open Scope Z_scope.

(* physical line starts (CR, LF, CRLF, LFCR each end one line) are strictly increasing, for every source *)
Theorem C18_physical_lines_increasing : forall src, StronglySorted Z.lt (phys_starts src).
Proof. exact phys_starts_sorted. Qed.
Print Assumptions C18_physical_lines_increasing.

(* FindLineIdx returns THE line that contains the cursor: its start is <= cursor and the next line starts after it *)
Theorem C18_find_line_idx : forall src cursor, 0 <= cursor ->
  let i := line_of src cursor in
  0 <= i /\
  (exists s, nth_error (phys_starts src) (Z.to_nat i) = Some s /\ s <= cursor) /\
  (forall s', nth_error (phys_starts src) (Z.to_nat i + 1) = Some s' -> cursor < s').
Proof. exact find_line_contains. Qed.
Print Assumptions C18_find_line_idx.

(* The LEXER's line table is the table of physical lines (model of pkg/syntax lexer + zh tokens, the repaired code: a line
   break right after a backtick inside a text is left to the text scanner, 7640347).  For every source the front-end model
   accepts, whatever the fuel — texts and comments spanning lines, CR / LF / CRLF / LFCR, indentation, backtick escapes —
   the line starts returned with the tree are exactly [phys_starts src].  The two hypotheses are needed (the empty text
   records no line; the end-of-text mark -1 is not a code point): Examples in proofs/LineStartsProofs.v. *)
Theorem C18_lexer_lines_are_physical_lines : forall fuel src p ls it,
  Parser.compile fuel src = Parser.OTree p ls it -> src <> [] -> ~ In Lexer.EOFc src ->
  map Lexer.l_start ls = phys_starts src.
Proof. exact LineStartsProofs.compile_lines_are_physical_lines. Qed.
Print Assumptions C18_lexer_lines_are_physical_lines.

(* ... and in EVERY state the lexer reaches (after NewLexer and after each token, hence also the state in which a syntax
   error is then raised) the lines recorded so far are the physical line starts up to the cursor *)
Theorem C18_lexer_lines_up_to_cursor : forall src st, hd Lexer.EOFc src <> Lexer.EOFc -> LineStartsProofs.lex_reach src st ->
  map Lexer.l_start (Lexer.lines st) = filter (fun s => s <=? Lexer.pos st) (phys_starts src) /\
  phys_starts src = map Lexer.l_start (Lexer.lines st) ++ starts_from None (Lexer.pos st) (Lexer.rest st).
Proof. exact LineStartsProofs.lexer_state_lines. Qed.
Print Assumptions C18_lexer_lines_up_to_cursor.

Example C18_example_break_after_backtick :        (* “`⏎” : the break after the backtick is line 2 *)
  LineStartsProofs.recorded [8220; 96; 10; 8221] = Some [0; 3] /\ phys_starts [8220; 96; 10; 8221] = [0; 3].
Proof. exact LineStartsProofs.break_after_backtick_1. Qed.

(* every statement starts executing with the running frame's current line set to its own line *)
Theorem C18_stmt_line : forall st l, stack st <> [] -> top_line (set_line st l) = l.
Proof. exact top_line_set_line. Qed.
Print Assumptions C18_stmt_line.

Theorem C18_stmt_line_in_block : forall exec line s tl st last,
  is_def s = false ->
  block_go exec ((line, s) :: tl) st last =
    let! (v, s1) := exec (set_line st line) s in
    match top_ret s1 with Some r => Ok r s1 | None => block_go exec tl s1 v end.
Proof. exact block_go_sets_line. Qed.
Print Assumptions C18_stmt_line_in_block.

(* 每当: the condition is evaluated at the line of the loop statement on EVERY pass, also after the statements of the
   body have moved the frame's line (repaired: the pinned code reported a fault of a later pass at the last body line) *)
Theorem C18_while_condition_line : forall ev body c l j st, stack st <> [] ->
  top_line (set_line st l) = l /\
  while_loop ev body c l (S j) st =
    (let! (cv, s1) := ev (set_line st l) c in
     match cv with
     | VBool true =>
       match after_pass (body s1) with
       | (Some r, _) => r
       | (None, Some s2) => while_loop ev body c l j s2
       | (None, None) => Crash 8
       end
     | VBool false => Ok VNull s1
     | _ => Er (ERun E_EXPRTYPE) s1
     end).
Proof. exact while_condition_line. Qed.
Print Assumptions C18_while_condition_line.

Theorem C18_while_uses_statement_line : forall ev k st c body,
  exec_stmt ev (S k) st (SWhile c body) = while_loop ev (fun s1 => exec_block ev k s1 body) c (cur_line st) k st.
Proof. exact exec_while_uses_statement_line. Qed.
Print Assumptions C18_while_uses_statement_line.

(* Where an error is reported.  An expression that fails leaves the frame that evaluated it exactly as it was (its line
   included) under the frames of the calls in progress — every fuel, state, expression and call depth ... *)
Theorem C18_expression_fault_keeps_frame : forall n st e er s1,
  wf st -> eval_expr n st e = Er er s1 -> exists extra, stack s1 = extra ++ stack st.
Proof. exact expr_fault_keeps_frame. Qed.
Print Assumptions C18_expression_fault_keeps_frame.

(* ... hence a statement that evaluates its expressions itself (expression statement, 输出, declaration) and fails
   is reported at ITS line, below the frames of whatever calls it had made ... *)
Theorem C18_direct_statement_fault_line : forall n k st line s er s1,
  wf st -> direct_stmt s = true ->
  exec_stmt (eval_expr n) (S k) (set_line st line) s = Er er s1 ->
  exists extra f tl, stack s1 = extra ++ f :: tl /\ f_line f = line /\ tl = List.tl (stack st).
Proof. exact direct_stmt_fault_line. Qed.
Print Assumptions C18_direct_statement_fault_line.

(* ... and a fault in a 每当 condition, on any pass, at the line of the loop. *)
Theorem C18_while_condition_fault_line : forall n body c l j st er s1,
  wf st -> eval_expr n (set_line st l) c = Er er s1 ->
  while_loop (eval_expr n) body c l (S j) st = Er er s1 /\
  exists extra f tl, stack s1 = extra ++ f :: tl /\ f_line f = l /\ tl = List.tl (stack st).
Proof. exact while_condition_fault_line. Qed.
Print Assumptions C18_while_condition_fault_line.

(* non-vacuity: 令A=【1】 / 每当A#1>0：(line 1) 以A（左移）(line 2) 令B=1 (line 3): the second test of the condition
   fails with the index error and the program's frame shows line 1, not 3 *)
Example C18_example_while_line :
  let one := 4607182418800017408 in
  let prog := {| p_inputs := []; p_catch := [];
                 p_body := [(0, SDecl [(false, [100], EArr [ENum one])]);
                            (1, SWhile (ELogic LGt (EIndex (EVar 100) (ENum one)) (ENum 0))
                                  [(2, SExpr (EMethod (EVar 100) [(M_SHIFT, [])] None));
                                   (3, SDecl [(false, [101], ENum one)])])] |} in
  match run_program 50 prog [] with
  | Er (ERun c) s => c = E_INDEX /\ map f_line (stack s) = [1]
  | _ => False
  end.
Proof. vm_compute. split; reflexivity. Qed.

(* the frames of callers keep the line of their pending call while a callee runs *)
Theorem C18_caller_lines_kept : forall st l f tl, stack st = f :: tl ->
  exists f', stack (set_line st l) = f' :: tl /\ f_line f' = l /\ frame_sim f' f.
Proof. exact set_line_tail. Qed.
Print Assumptions C18_caller_lines_kept.

(* The chain shown with an error is the chain of calls active at that moment:
   calls that have returned leave no frame (for every fuel, state and expression) ... *)
Theorem C18_returned_calls_never_appear : forall n st e v s1,
  wf st -> eval_expr n st e = Ok v s1 -> stack s1 = stack st.
Proof. exact finished_call_leaves_no_frame. Qed.
Print Assumptions C18_returned_calls_never_appear.

(* ... a call that fails leaves exactly its own frame on top of what its callees left ... *)
Theorem C18_failed_call_leaves_its_frame : forall s1 k t s3,
  wf s1 -> R_er_b (push_frame s1 k t) s3 ->
  exists extra f', stack s3 = extra ++ f' :: stack s1 /\ f_kind f' = k /\ f_this f' = t.
Proof. exact failed_call_leaves_its_frame. Qed.
Print Assumptions C18_failed_call_leaves_its_frame.

(* ... the whole evaluator: on an error the caller's frames are below the frames of the calls in progress ... *)
Theorem C18_chain_is_active_calls : forall n st e, bal_e st (eval_expr n st e).
Proof. exact eval_expr_balanced. Qed.
Print Assumptions C18_chain_is_active_calls.

(* ... and after a handled exception the frames of the failed calls are gone (also for later errors). *)
Theorem C18_handled_exception_drops_frames : forall st extra base xv,
  stack st = extra ++ base ->
  stack (push_frame (unwind st (length base)) 3 (Some xv)) =
    {| f_kind := 3; f_this := Some xv; f_ret := None; f_line := 0 |} :: base.
Proof. exact handler_runs_on_entry_stack. Qed.
Print Assumptions C18_handled_exception_drops_frames.

(* non-vacuity: line 4 of a text with a two-line literal, CRLF and a lone CR *)
Example C18_example_lines :
  phys_starts [97; 10; 8220; 98; 13; 10; 99; 8221; 13; 100] = [0; 2; 6; 9] /\ line_of [97; 10; 8220; 98; 13; 10; 99; 8221; 13; 100] 9 = 3.
Proof. vm_compute. split; reflexivity. Qed.
