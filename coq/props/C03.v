(* C03 — Parsing builds the tree the grammar prescribes, for any layout.
   Only statements, closed by [exact], and their assumptions.  The model is coq/model/{Lexer,Parser,Ast}.v (the front end
   with fixes/C03-1..4, C05-1, C05-3, C13-1 applied); it is compared with the real parser on every run. *)
From Coq Require Import List ZArith Bool.
Import ListNotations.
From Zn.model Require Import Lexer Ast Parser.
From Zn.proofs Require Import FrontCompleteProofs.
From Zn.proofs Require ExprPrecProofs ExprPrecSpacesProofs ChainPrecProofs StmtNestProofs LayoutInvProofs SectionsTokProofs SectionsProofs TypesTokProofs TypesProofs.
Module EP := ExprPrecProofs.
Module CP := ChainPrecProofs.
Module SN := StmtNestProofs.
Module LI := LayoutInvProofs.
Module ST := SectionsTokProofs.
Module SE := SectionsProofs.
Module TT := TypesTokProofs.
Module TY := TypesProofs.
Module EPS := ExprPrecSpacesProofs.
Open Scope Z_scope.

(* Any tree the parser returns is complete: every construct has all the parts the grammar requires
   (all sources, all fuel values; induction over the productions). *)
Theorem C03_complete : forall fuel src p ls it, compile fuel src = OTree p ls it -> complete p = true.
Proof. exact compile_complete. Qed.
Print Assumptions C03_complete.

(* the same for every single production started in any parser state (what the induction proves) *)
Theorem C03_complete_productions : forall fuel n st x st', pre n -> parse fuel n st = Ok x st' -> post n x.
Proof. exact parse_complete. Qed.
Print Assumptions C03_complete_productions.

(* ---- operator precedence and associativity: the parser returns THE PRESCRIBED tree, for every operator tree ----
   [EP.op_expr e]: e is built from identifier leaves with + - * / | %, the comparisons (either spelling) and 且 / 或, nested
   to any depth.  [EP.print_expr w e] is its text with braces { } exactly where the documented levels require them (a child of a
   looser level; a right operand of the same level: every level, the comparisons included, associates from left to right —
   manual chapter 3, BNF), single spaces between tokens.  Compiling that text, through the character-level lexer and the whole
   parser, yields the program consisting of exactly that tree; at the front end's own fuel and at every sufficient fuel. *)
Theorem C03_precedence_all_trees : forall w e, EP.op_expr e = true ->
  exists src, EP.print_expr w e = Some src /\
    compile (default_fuel src) src = OTree (EP.one_expression e) [mkLine 0 0] GenFrontTokens.g_IndentUnknown /\
    compile_encode src = [[1; 0; 0; 0]; enc_lines [mkLine 0 0]; enc_program (EP.one_expression e)].
Proof. exact EP.C03_precedence_all_trees_default. Qed.
Print Assumptions C03_precedence_all_trees.

Theorem C03_precedence_any_fuel : forall w e, EP.op_expr e = true ->
  exists src, EP.print_expr w e = Some src /\
    forall fuel, (EP.fuel_expr w e <= fuel)%nat ->
      compile fuel src = OTree (EP.one_expression e) [mkLine 0 0] GenFrontTokens.g_IndentUnknown.
Proof. exact EP.C03_precedence_all_trees. Qed.
Print Assumptions C03_precedence_any_fuel.

(* token level, in ANY parser state and before any following token that cannot continue the expression: no restriction on
   the leaves, every nesting depth *)
Theorem C03_precedence_tokens : forall s fuel st st', EP.wf s = true -> (EP.cfuel s <= fuel)%nat ->
  EP.feeds (EP.show s) st st' -> EP.stops 6 st' -> parse_expression fuel st = Ok (EP.ast s) st'.
Proof. exact EP.parse_show_tokens. Qed.
Print Assumptions C03_precedence_tokens.

(* optional and multiple spaces: any gap that is a run of white space, or no gap at all where the lexer can still cut the two
   tokens apart (before / after keyword operators, comparison marks, | and braces), gives the same tree *)
Theorem C03_precedence_any_spacing : forall s gs, EP.wf s = true -> EP.leaves_ok s = true -> EPS.spacing_ok s gs = true ->
  compile (default_fuel (EPS.showg s gs)) (EPS.showg s gs)
  = OTree (EP.one_expression (EP.ast s)) [mkLine 0 0] GenFrontTokens.g_IndentUnknown.
Proof. exact EPS.compile_show_spaces_default. Qed.
Print Assumptions C03_precedence_any_spacing.

(* ---- call / index / member chains: leaves may be chains ----
   [CP.chain_expr e]: e is built from identifiers and text literals with the operators above AND postfix chains of any length and
   mixture — index by a name, a text or any expression in braces (A#1, A#“k”, A#{ e }), property access in either spelling
   (A之B, A的B) — array literals 【e1，…】 and plain calls （F：e1、…） whose items / arguments are again such expressions.  The
   minimal-brace text compiles to exactly that tree: a postfix chain binds tighter than every operator (A#1 + B之C * D#2 is
   (A#1) + ((B之C) * (D#2))), chains associate to the left (A#1#2 is (A#1)#2), a braced index holds any expression. *)
Theorem C03_chains_every_tree : forall w e, CP.chain_expr e = true ->
  exists src, CP.print_chain w e = Some src /\
    (forall fuel, (CP.fuel_chain w e <= fuel)%nat ->
       compile fuel src = OTree (EP.one_expression e) [mkLine 0 0] GenFrontTokens.g_IndentUnknown) /\
    compile (default_fuel src) src = OTree (EP.one_expression e) [mkLine 0 0] GenFrontTokens.g_IndentUnknown /\
    compile_encode src = [[1; 0; 0; 0]; enc_lines [mkLine 0 0]; enc_program (EP.one_expression e)].
Proof. exact CP.C03_chains_every_tree. Qed.
Print Assumptions C03_chains_every_tree.

(* every operator tree of C03_precedence_all_trees is in this fragment *)
Theorem C03_chains_extend_operators : forall e, EP.op_expr e = true -> CP.chain_expr e = true.
Proof. exact CP.op_expr_chain. Qed.
Print Assumptions C03_chains_extend_operators.

(* token level, any parser state; the token after the expression must not continue it (and, after a plain call, must not be 得到) *)
Theorem C03_chains_tokens : forall s fuel st st', CP.cwf s = true -> (CP.ccfuel s <= fuel)%nat ->
  EP.feeds (CP.cshow s) st st' -> CP.stopsS 6 st' -> parse_expression fuel st = Ok (CP.cast s) st'.
Proof. exact CP.parse_cshow_tokens. Qed.
Print Assumptions C03_chains_tokens.

Example C03_example_chain :                                  (* A#1 + B之C * D#2  is  (A#1) + ((B之C) * (D#2)) *)
  compile 400 [65; 35; 49; 32; 43; 32; 66; 20043; 67; 32; 42; 32; 68; 35; 50]
  = OTree (EP.one_expression (EArith 12 (CP.midx (EId [65]) (EId [49]))
                                        (EArith 14 (CP.mprop (EId [66]) [67]) (CP.midx (EId [68]) (EId [50]))))) [mkLine 0 0] 0.
Proof. vm_compute. reflexivity. Qed.

(* ---- statement nesting from indentation: whole programs ----
   [SN.sstmt]: expression statements, 输出 e, 令 x = e, 每当 e： + block, 如果 e： + block with any number of 再如 e： blocks and an
   optional 否则： block; blocks are non-empty lists of statements, nested to any depth; expressions are the chain fragment above.
   [SN.print p] writes one statement per line (LF), four spaces per nesting level, single spaces between tokens.  For EVERY such
   program, compiling the text — character-level lexer with its indentation counting and line table, then the whole parser —
   yields exactly the prescribed tree [SN.prescribed p], the line table of the printed lines and the indentation type: a statement
   belongs to the block of the nearest header above it with a smaller indentation, a dedent closes every block it leaves, 再如 /
   否则 attach to the 如果 of their own indentation, the order of statements is kept. *)
Theorem C03_statements_every_program : forall p, SN.prog_ok p = true ->
  compile (default_fuel (SN.print p)) (SN.print p) = OTree (SN.prescribed p) (SN.line_table p) (SN.indent_type p) /\
  compile_encode (SN.print p) = [[1; 0; 0; SN.indent_type p]; enc_lines (SN.line_table p); enc_program (SN.prescribed p)].
Proof. intros p H. split; [exact (SN.compile_print_default p H) | exact (SN.compile_print_encode p H)]. Qed.
Print Assumptions C03_statements_every_program.

Theorem C03_statements_any_fuel : forall p fuel, SN.prog_ok p = true ->
  compile fuel (SN.print p) = OFuel \/ compile fuel (SN.print p) = OTree (SN.prescribed p) (SN.line_table p) (SN.indent_type p).
Proof. exact SN.compile_print_any_fuel. Qed.
Print Assumptions C03_statements_any_fuel.

(* token level: a block in any parser state, whatever follows it at a smaller indentation *)
Theorem C03_block_tokens : forall b d F st st' acc, forallb SN.swf b = true -> (SN.bfuel b <= F)%nat ->
  SN.lfeeds (SN.blines d b) st st' -> SN.endblk (Z.of_nat d) st' ->
  exists b', parse F (NBlock (Z.of_nat d) acc) st = Ok (acc ++ map SN.sast b) (SN.setb st' b').
Proof. exact SN.parse_block_tokens. Qed.
Print Assumptions C03_block_tokens.

Example C03_example_nesting :         (* 每当 A / 如果 B / 每当 C / D, then a dedent of two levels: E, then F at the top level *)
  compile (default_fuel SN.ex_src1) SN.ex_src1
  = OTree SN.ex_tree1 [mkLine 0 0; mkLine 1 7; mkLine 2 18; mkLine 3 33; mkLine 1 47; mkLine 0 53] GenFrontTokens.g_IndentSpace.
Proof. exact SN.ex1_by_theorem. Qed.

(* ---- program sections and the other statement kinds ----
   [ST.yprog]: import lines (导入“name” / 导入《lib》, optionally 之 / 的 a、b), an optional input line (输入 a、b), statements, and
   拦截 X： sections; statements [ST.ystmt] add to the fragment above: 令 a、b = e, the three 遍历 forms (遍历 e： / 以 V 遍历 e： /
   以 K、V 遍历 e：), 抛出 X：e1、e2！, 结束循环, 继续循环 and method definitions 如何 F？ with their own exec block (输入 line,
   statements, 拦截 sections) nested to any depth.  Canonical printing; the prescribed program is
   mkProgram imports (Some (XBlock inputs statements catches)) — or mkProgram imports None for a text of imports only.
   The side conditions of [SE.qprog_ok] are forced by the parser (an exec block holds a statement or a 拦截 section; sections come in
   the order imports, input, statements, catches): the rejected shapes are listed in proofs/SectionsProofs.v and agree with Go. *)
Theorem C03_sections_every_program : forall q, SE.qprog_ok q = true ->
  compile (default_fuel (SE.qprint q)) (SE.qprint q) = OTree (ST.qprescribed q) (SE.qline_table q) (SE.qindent_type q).
Proof. exact SE.compile_sections_default. Qed.
Print Assumptions C03_sections_every_program.

(* token level: a nested exec block (the body of a 如何 definition) at any depth, in any parser state *)
Theorem C03_exec_block_tokens : forall ins b cs d F st st' bb, forallb ST.ywf b = true -> ST.ycwf cs = true ->
  SN.nonnil b || SN.nonnil cs = true -> (ST.yxfuel ins b cs <= F)%nat ->
  SN.lfeeds (ST.yxlines d ins b cs) st st' -> SN.endblk (Z.of_nat d) st' ->
  flag st' = true /\ exists b', parse F (NExec (Z.of_nat d) 1 [] [] []) (SN.reb st false bb)
                                 = Ok (XBlock ins (map ST.yast b) (map ST.ycatch cs)) (SN.setb st' b').
Proof. exact ST.parse_exec_tokens. Qed.
Print Assumptions C03_exec_block_tokens.

(* ---- type definitions, constructors, method calls, 其 P ----
   [TT.zprog] adds to the sections fragment: 定义 C： with property lines 其 P = e, methods 如何 M？ and getters 何为 G？ (each with its
   exec block), constructors 如何 新建 C？, the method-call statement 以 X（M：a、b）、（N）[得到 R] over a chain of calls, and the member
   forms 其 P = e / 输出 其 P inside bodies.  Canonical printing; the prescribed program keeps properties, methods and getters in
   source order with their declaration kinds (method 1, getter 2, constructor 3).  Two shapes the parser rejects (an empty 定义, a
   constructor inside the type block) and one it reads differently from the naive reading (其 P = a 等于 b is {其 P = a} 等于 b) are
   recorded with the Go parser's identical answers in proofs/TypesProofs.v. *)
Theorem C03_types_every_program : forall q, TY.zprog_ok q = true ->
  compile (default_fuel (TY.zprint q)) (TY.zprint q) = OTree (TT.zprescribed q) (TY.zline_table q) (TY.zindent_type q).
Proof. exact TY.compile_types_default. Qed.
Print Assumptions C03_types_every_program.

(* ---- text that only rearranges layout never changes the tree ----
   A layout [LI.layout] chooses the indentation unit (four spaces or one TAB per level, one unit throughout the text — mixing them is
   rejected by the lexer), the line end before every line (LF, CR, CRLF or LFCR, a different one at each line if wished), blank lines
   between statements (empty, or holding whole indentation units) and a trail of line ends / blank lines after the last statement.
   For every program of the statement fragment and ANY two layouts the trees are equal, and equal to the prescribed tree.  For layouts
   that do not write an ambiguous break (LF, empty line, CR = the single break LFCR) the line table — every physical line, blank and
   trailing ones included — and the indentation type are given too. *)
Theorem C03_layout_invariance : forall L1 L2 p, SN.prog_ok p = true ->
  LI.tree_of (compile (default_fuel (LI.print_with L1 p)) (LI.print_with L1 p)) = Some (SN.prescribed p) /\
  LI.tree_of (compile (default_fuel (LI.print_with L1 p)) (LI.print_with L1 p))
  = LI.tree_of (compile (default_fuel (LI.print_with L2 p)) (LI.print_with L2 p)).
Proof. exact LI.layout_invariance_all. Qed.
Print Assumptions C03_layout_invariance.

Theorem C03_layout_tree_lines_indent : forall L p, SN.prog_ok p = true -> LI.layout_ok L = true ->
  compile (default_fuel (LI.print_with L p)) (LI.print_with L p)
  = OTree (SN.prescribed p) (LI.line_table_with L p) (LI.indent_type_with L p).
Proof. exact LI.compile_print_with_default. Qed.
Print Assumptions C03_layout_tree_lines_indent.

(* the canonical printing of C03_statements_every_program is one of the layouts *)
Theorem C03_layout_canonical : forall p, LI.print_with (LI.mkLayout false [] []) p = SN.print p.
Proof. exact LI.print_with_canon. Qed.
Print Assumptions C03_layout_canonical.

(* more fuel never changes an answer: for every production, state and pair of fuels *)
Theorem C03_fuel_monotone : forall f g src, (f <= g)%nat -> compile f src = OFuel \/ compile f src = compile g src.
Proof. exact EP.compile_mono. Qed.
Print Assumptions C03_fuel_monotone.

Example C03_example_precedence :                               (* A + B * C - D  is  (A + (B * C)) - D *)
  compile 200 [65; 32; 43; 32; 66; 32; 42; 32; 67; 32; 45; 32; 68]
  = OTree (EP.one_expression (EArith 13 (EArith 12 (EId [65]) (EArith 14 (EId [66]) (EId [67]))) (EId [68]))) [mkLine 0 0] 0.
Proof. vm_compute. reflexivity. Qed.
Example C03_example_chained_comparison :                       (* A == B == C  is  {A == B} == C  (rejected before 8b988c3) *)
  compile 400 [65; 32; 61; 61; 32; 66; 32; 61; 61; 32; 67]
  = OTree (EP.one_expression (ELogic 4 (ELogic 4 (EId [65]) (EId [66])) (EId [67]))) [mkLine 0 0] 0.
Proof. vm_compute. reflexivity. Qed.

(* non-vacuity: programs are accepted with the prescribed tree; the half-built trees of the pinned parser are errors here *)
(* 如果A：⏎    B⏎否则：⏎    C *)
Example C03_example_branch :
  compile 200 [22914;26524;65;65306;10;32;32;32;32;66;10;21542;21017;65306;10;32;32;32;32;67]
  = OTree (mkProgram [] (Some (XBlock [] [SBranch (Some (EId [65])) (Some [SExpr (EId [66])]) (Some [SExpr (EId [67])]) [] [] true] [])))
          [mkLine 0 0; mkLine 1 5; mkLine 0 11; mkLine 1 15] 32.
Proof. vm_compute. reflexivity. Qed.
(* 如果 at the end of input (pinned tree: accepted with nil parts) *)
Example C03_example_if_at_eof : compile 200 [22914;26524] = OErr 20 2.
Proof. vm_compute. reflexivity. Qed.
(* A⏎拦截X：⏎    B⏎C (pinned tree: the parser does not terminate) *)
Example C03_example_after_catch :
  compile 400 [65;10;25318;25130;88;65306;10;32;32;32;32;66;10;67] = OErr 20 13.
Proof. vm_compute. reflexivity. Qed.
(* A 注：⏎B : the empty comment does not swallow the next line *)
Example C03_example_empty_comment :
  compile 200 [65;32;27880;65306;10;66]
  = OTree (mkProgram [] (Some (XBlock [] [SExpr (EId [65]); SExpr (EId [66])] []))) [mkLine 0 0; mkLine 0 5] 0.
Proof. vm_compute. reflexivity. Qed.
