(* C03 — Parsing builds the tree the grammar prescribes, for any layout.
   Only statements, closed by [exact], and their assumptions.  The model is coq/model/{Lexer,Parser,Ast}.v (the front end
   with fixes/C03-1..4, C05-1, C05-3, C13-1 applied); it is compared with the real parser on every run. *)
From Coq Require Import List ZArith Bool.
Import ListNotations.
From Zn.model Require Import Lexer Ast Parser.
From Zn.proofs Require Import FrontCompleteProofs.
Open Scope Z_scope.

(* Any tree the parser returns is complete: every construct has all the parts the grammar requires
   (all sources, all fuel values; induction over the productions). *)
Theorem C03_complete : forall fuel src p ls it, compile fuel src = OTree p ls it -> complete p = true.
Proof. exact compile_complete. Qed.
Print Assumptions C03_complete.

(* the same for every single production started in any parser state (what the induction proves) *)
Theorem C03_complete_productions : forall fuel n st x st', pre n -> parse fuel n st = Ok x st' -> post n x.
Proof. exact parse_complete. Qed.
Print Assumptions C03_complete_productions.

(* non-vacuity: programs are accepted with the prescribed tree; the half-built trees of the pinned parser are errors here *)
(* 如果A：⏎    B⏎否则：⏎    C *)
Example C03_example_branch :
  compile 200 [22914;26524;65;65306;10;32;32;32;32;66;10;21542;21017;65306;10;32;32;32;32;67]
  = OTree (mkProgram [] (Some (XBlock [] [SBranch (Some (EId [65])) (Some [SExpr (EId [66])]) (Some [SExpr (EId [67])]) [] [] true] [])))
          [mkLine 0 0; mkLine 1 5; mkLine 0 11; mkLine 1 15] 32.
Proof. vm_compute. reflexivity. Qed.
(* 如果 at the end of input (pinned tree: accepted with nil parts) *)
Example C03_example_if_at_eof : compile 200 [22914;26524] = OErr 20 2.
Proof. vm_compute. reflexivity. Qed.
(* A⏎拦截X：⏎    B⏎C (pinned tree: the parser does not terminate) *)
Example C03_example_after_catch :
  compile 400 [65;10;25318;25130;88;65306;10;32;32;32;32;66;10;67] = OErr 20 13.
Proof. vm_compute. reflexivity. Qed.
(* A 注：⏎B : the empty comment does not swallow the next line *)
Example C03_example_empty_comment :
  compile 200 [65;32;27880;65306;10;66]
  = OTree (mkProgram [] (Some (XBlock [] [SExpr (EId [65]); SExpr (EId [66])] []))) [mkLine 0 0; mkLine 0 5] 0.
Proof. vm_compute. reflexivity. Qed.
