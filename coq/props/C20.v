(* C20 — The prefork master keeps the worker pool within its bounds.
   Only statements, closed by [exact], and their assumptions. *)
From Coq Require Import List ZArith Bool.
Import ListNotations.
From Zn.model Require Import PM.
From Zn.proofs Require Import PMProofs.
Open Scope Z_scope.

(* For every configuration 0 <= init <= max (any batch increment) and every valid event trace,
   the number of live worker processes never exceeds --max-procs. *)
Theorem C20_live_le_max : forall c tr s, cfg_ok c -> run c (init_state c) tr = Some s -> live s <= c_max c.
Proof. exact live_le_max. Qed.
Print Assumptions C20_live_le_max.

(* Once nothing is pending (no reserved spawn, no undelivered exit), at least --init-procs workers are live. *)
Theorem C20_quiescent_ge_init : forall c tr s, cfg_ok c -> run c (init_state c) tr = Some s ->
  quiescent s -> c_init c <= live s.
Proof. exact quiescent_ge_init. Qed.
Print Assumptions C20_quiescent_ge_init.
