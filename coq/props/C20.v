(* C20 — The prefork master keeps the worker pool within its bounds.
   Only statements, closed by [exact], and their assumptions.
   Model: coq/model/PM.v (event-level transition system of pkg/server/pm_server.go, REPAIRED
   bookkeeping [step]; the pinned bookkeeping [step_pinned] is kept for the refutation).
   Every theorem quantifies over ALL configurations with 0 <= init <= max (any batch increment)
   and ALL valid event traces (any order of process starts, registrations, FIFO report
   deliveries incl. stray frames, exit notices, accepts, completions, timeouts, crashes). *)
From Coq Require Import List ZArith Bool.
Import ListNotations.
From Zn.model Require Import PM.
From Zn.proofs Require Import PMProofs.
Open Scope Z_scope.

(* The accounting invariant (refCount = |childs| + reserved, init <= refCount <= max, every live
   process is registered or in flight, ...) holds in every reachable state. *)
Theorem C20_invariant : forall c tr s, cfg_ok c -> run c (init_state c) tr = Some s -> inv c s.
Proof. exact reach_inv. Qed.
Print Assumptions C20_invariant.

(* The number of live worker processes never exceeds --max-procs. *)
Theorem C20_live_le_max : forall c tr s, cfg_ok c -> run c (init_state c) tr = Some s -> live s <= c_max c.
Proof. exact live_le_max. Qed.
Print Assumptions C20_live_le_max.

(* Once nothing is pending (no reserved spawn, no undelivered exit), at least --init-procs workers are live. *)
Theorem C20_quiescent_ge_init : forall c tr s, cfg_ok c -> run c (init_state c) tr = Some s ->
  quiescent s -> c_init c <= live s.
Proof. exact quiescent_ge_init. Qed.
Print Assumptions C20_quiescent_ge_init.

(* A worker whose request outlives --timeout: it was serving a request; its termination leaves the
   state of every other worker (and so the request it serves) untouched; it is gone and never
   comes back; whatever happens next the pool stays <= max and is back to >= init when quiet. *)
Theorem C20_timeout_replaced : forall c tr1 tr2 p s1 s1' s2, cfg_ok c ->
  run c (init_state c) tr1 = Some s1 -> step c s1 (WTimeout p) = Some s1' -> run c s1' tr2 = Some s2 ->
  (exists r, In (p, WServing r) (running s1)) /\
  (forall q w, q <> p -> In (q, w) (running s1) -> In (q, w) (running s1')) /\
  ~ In p (keys (running s1')) /\ In p (exited s1') /\
  ~ In p (keys (running s2)) /\
  live s2 <= c_max c /\
  (quiescent s2 -> c_init c <= live s2).
Proof. exact timeout_replaced. Qed.
Print Assumptions C20_timeout_replaced.

(* No event of the master or of another worker changes what a worker is doing. *)
Theorem C20_undisturbed : forall c s e s' q w, NoDup (keys (running s)) ->
  ev_worker e <> Some q -> step c s e = Some s' -> In (q, w) (running s) -> In (q, w) (running s').
Proof. exact undisturbed. Qed.
Print Assumptions C20_undisturbed.

(* Each worker is in one state (serves at most one request at a time); a request is accepted by one
   worker, answered at most once and only by its acceptor; two workers never serve the same request;
   a request being served was accepted by that worker and has not been answered yet. *)
Theorem C20_worker_one_at_a_time : forall c tr s, cfg_ok c -> run c (init_state c) tr = Some s ->
  (forall p w w', In (p, w) (running s) -> In (p, w') (running s) -> w = w') /\
  NoDup (keys (acc s)) /\ NoDup (keys (served s)) /\
  (forall r p, In (r, p) (served s) -> In (r, p) (acc s)) /\
  (forall p p' r, In (p, WServing r) (running s) -> In (p', WServing r) (running s) -> p = p') /\
  (forall p r, In (p, WServing r) (running s) -> In (r, p) (acc s) /\ ~ In r (keys (served s))).
Proof. exact worker_one_at_a_time. Qed.
Print Assumptions C20_worker_one_at_a_time.

(* The worker loop: accept only while serving nothing; finish / timeout concern the request served. *)
Theorem C20_worker_loop : forall w e w' fr o, wstep w e = Some (w', fr, o) ->
  match e with
  | WEAccept r => w = WAccepting /\ w' = Some (WServing r) /\ fr = ST_BUSY /\ o = None
  | WEFinish => exists r, w = WServing r /\ w' = Some WAccepting /\ fr = ST_IDLE /\ o = Some r
  | WETimeout => exists r, w = WServing r /\ w' = None /\ fr = ST_STOPPED /\ o = None
  end.
Proof. exact wstep_shape. Qed.
Print Assumptions C20_worker_loop.

(* An exit notice is handled only for a process whose registration was handled earlier. *)
Theorem C20_exit_after_registration : forall c tr1 tr2 p s, cfg_ok c ->
  run c (init_state c) (tr1 ++ MasterDel p :: tr2) = Some s ->
  exists tr0 b tr0' s0 r, tr1 = tr0 ++ MasterAdd b :: tr0' /\ run c (init_state c) tr0 = Some s0 /\
    nth_error (batches s0) b = Some {| b_rem := r; b_fly := Some p |}.
Proof. exact exit_after_registration. Qed.
Print Assumptions C20_exit_after_registration.

(* The bookkeeping of the PINNED code (registration sets refCount := len(childs), initial batch not
   reserved) does not keep the bound: init 1, max 4, explicit trace [overshoot_trace], 6 live workers. *)
Theorem C20_overshoot_refuted :
  cfg_ok cfg14 /\
  ~ (forall c tr s, cfg_ok c -> run_pinned c (init_pinned c) tr = Some s -> live s <= c_max c).
Proof. exact overshoot_refuted. Qed.
Print Assumptions C20_overshoot_refuted.

(* non-vacuity *)
Example C20_overshoot_witness :
  option_map live (run_pinned cfg14 (init_pinned cfg14) overshoot_trace) = Some 6.
Proof. vm_compute. reflexivity. Qed.
Example C20_overshoot_repaired :
  run cfg14 (init_state cfg14) overshoot_trace = None /\
  option_map (fun s => (live s, reserved s)) (run cfg14 (init_state cfg14) (firstn 12 overshoot_trace)) = Some (4, 0).
Proof. exact overshoot_repaired. Qed.
(* a crash, a timeout and their replacement: init 2, max 3; ends quiescent with 2 live workers *)
Example C20_example_faults :
  option_map (fun s => (live s, refCount s, reserved s, exited s))
    (run {| c_init := 2; c_max := 3; c_inc := 10 |} (init_state {| c_init := 2; c_max := 3; c_inc := 10 |})
       [SpawnOne 0; MasterAdd 0; SpawnOne 0; MasterAdd 0; WAccept 1; MasterUpdate; WCrash 2; MasterDel 2;
        WTimeout 1; MasterUpdate; SpawnOne 1; MasterAdd 1; MasterDel 1; SpawnOne 2; MasterAdd 2]%nat)
  = Some (2, 2, 0, []).
Proof. vm_compute. reflexivity. Qed.
