(* C09 — Exceptions reach the nearest matching handler and unwind cleanly.
   Model: coq/model/Sem.v (exec_exec_block / handle_exception / run_handler = evalExecBlock / handleExceptionSignal).
   Only statements closed by [exact], and their assumptions. *)
From Coq Require Import List ZArith Bool.
Import ListNotations.
From Zn.model Require Import SemDefs Sem.
From Zn.spec Require Import StmtSpec.
From Zn.proofs Require Import SemBase SemStmt SemCalls SemRefine SemProps.
Open Scope Z_scope.

(* After a handled exception — at any call depth, raised by any statement — the body that declared the handler ends
   like a normal return: call stack as at entry (frames left by the failed calls dropped), block depth and symbol-stack
   shape restored; an unhandled one leaves exactly the frames of the calls in progress above the caller's. *)
Theorem C09_handled_equals_normal_return : forall n k st fd args,
  wf st ->
  match exec_exec_block (eval_expr n) k st fd args with
  | Ok _ s1 => R_ok_b st s1
  | Er e s1 => R_er_b st s1 /\ no_sig e
  | _ => True
  end.
Proof. exact body_balanced. Qed.
Print Assumptions C09_handled_equals_normal_return.

(* ... and the caller of that body continues with its own stack, depth and 其. *)
Theorem C09_caller_state_restored : forall n st e v s1,
  wf st -> eval_expr n st e = Ok v s1 ->
  stack s1 = stack st /\ depth s1 = depth st /\ top_this s1 = top_this st /\ ext_shape st s1.
Proof. exact expr_restores_caller. Qed.
Print Assumptions C09_caller_state_restored.

(* A raise skips the rest of its block (and of every enclosing block and loop) in the outcome semantics
   which the mechanism refines (C02_exec_refines_outcomes). *)
Theorem C09_raise_skips_rest : forall exec pre line s post st last e s2,
  is_def s = false ->
  forall s1 last1,
    o_block_go exec pre st last = OR (ONormal last1) s1 ->
    exec (set_line s1 line) s = OR (ORaise e) s2 ->
    o_block_go exec (pre ++ (line, s) :: post) st last = OR (ORaise e) s2.
Proof. intros. eapply o_block_go_stops; try eassumption. discriminate. Qed.
Print Assumptions C09_raise_skips_rest.

(* Runtime faults (division by zero, undefined name, ...) are exceptions of the default class 异常. *)
Theorem C09_runtime_fault_is_exception : forall c st,
  exc_of_err (ERun c) = Some (VExc (MRun c)) /\ exc_class st (VExc (MRun c)) = Some ID_EXC.
Proof. exact runtime_fault_is_exception. Qed.
Print Assumptions C09_runtime_fault_is_exception.

(* The handler that runs is the first handler of the body whose class name is the exception's class. *)
Theorem C09_first_matching_handler : forall cn hs hb,
  find_handler cn hs = Some hb ->
  exists pre post, hs = pre ++ (cn, hb) :: post /\ Forall (fun h => fst h <> cn) pre.
Proof. exact find_handler_first. Qed.
Print Assumptions C09_first_matching_handler.

Theorem C09_no_handler_iff_no_match : forall cn hs,
  find_handler cn hs = None <-> Forall (fun h => fst h <> cn) hs.
Proof. exact find_handler_none. Qed.
Print Assumptions C09_no_handler_iff_no_match.

(* No matching handler: the exception propagates unchanged, state untouched. *)
Theorem C09_unmatched_propagates_unchanged : forall ev k d hs e s4,
  (forall xv cn, exc_of_err e = Some xv -> exc_class s4 xv = Some cn -> find_handler cn hs = None) ->
  handle_exception ev k d hs e s4 = Er e s4.
Proof. exact unmatched_propagates_unchanged. Qed.
Print Assumptions C09_unmatched_propagates_unchanged.

(* The handler runs with the exception as 其; its 输出 value, or 空, is the value of the body. *)
Theorem C09_handler_value_or_null : forall ev k s4 d xv hb v s,
  run_handler ev k s4 d xv hb = Ok v s ->
  exists v0 s6, exec_block ev k (push_frame (unwind s4 d) 3 (Some xv)) hb = Ok v0 s6 /\
                s = pop_frame s6 /\ v = match top_ret s6 with Some r => r | None => VNull end /\
                top_this (push_frame (unwind s4 d) 3 (Some xv)) = Some xv.
Proof. exact handler_value_or_null. Qed.
Print Assumptions C09_handler_value_or_null.

(* non-vacuity: G catches F's throw; afterwards the caller's 其 and a later fault behave normally *)
Example C09_witness :
  let prog := {| p_inputs := []; p_catch := [(4, [(9, SReturn (EStr [99]))])];
                 p_body := [(0, SFunc 100 [] [(1, SThrow 4 [EStr [98]])] []);
                            (2, SFunc 101 [] [(3, SExpr (ECall 100 [] None)); (4, SReturn (ENum 0))]
                                             [(4, [(5, SReturn (EThisProp 29))])]);
                            (6, SDecl [(false, [102], ECall 101 [] None)]);
                            (7, SExpr (ECall 5 [EVar 102] None));
                            (8, SDecl [(false, [103], EArith ADiv (ENum 4607182418800017408) (ENum 0))])] |} in
  match run_program 60 prog [] with
  | Ok (VStr s) st => s = [99] /\ out st = [[98]] /\ stack st = [] /\ depth st = 0%nat
  | _ => False
  end.
Proof. vm_compute. repeat split; reflexivity. Qed.
