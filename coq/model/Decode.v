(* Decode.v — executable model of pkg/io (input.go readRune, file_stream.go
   FileStream.read/ReadAll, byte_stream.go ByteStream.ReadAll) and a
   re-statement of Go's unicode/utf8.DecodeRune / FullRune.  No proofs here. *)
From Coq Require Import List ZArith Bool Lia.
Import ListNotations.
Open Scope Z_scope.

(* ---------- specification side: RFC 3629 encoding of scalar values ------- *)

Definition scalarb (c : Z) : bool :=
  ((0 <=? c) && (c <? 0xD800)) || ((0xE000 <=? c) && (c <? 0x110000)).

Definition encode_cp (c : Z) : list Z :=
  if c <? 0x80 then [c]
  else if c <? 0x800 then [0xC0 + c / 64; 0x80 + c mod 64]
  else if c <? 0x10000 then [0xE0 + c / 4096; 0x80 + (c / 64) mod 64; 0x80 + c mod 64]
  else [0xF0 + c / 262144; 0x80 + (c / 4096) mod 64; 0x80 + (c / 64) mod 64; 0x80 + c mod 64].

Definition encode_all (cps : list Z) : list Z := concat (map encode_cp cps).

(* ---------- Go's unicode/utf8 tables, restated --------------------------- *)

(* lead byte -> (sequence length, accepted range of the second byte) *)
Definition lead_info (b : Z) : option (nat * Z * Z) :=
  if b <? 0x80 then Some (1%nat, 0, 0)
  else if b <? 0xC2 then None
  else if b <? 0xE0 then Some (2%nat, 0x80, 0xBF)
  else if b =? 0xE0 then Some (3%nat, 0xA0, 0xBF)
  else if b <? 0xED then Some (3%nat, 0x80, 0xBF)
  else if b =? 0xED then Some (3%nat, 0x80, 0x9F)
  else if b <? 0xF0 then Some (3%nat, 0x80, 0xBF)
  else if b =? 0xF0 then Some (4%nat, 0x90, 0xBF)
  else if b <? 0xF4 then Some (4%nat, 0x80, 0xBF)
  else if b =? 0xF4 then Some (4%nat, 0x80, 0x8F)
  else None.

Definition inr (lo hi x : Z) : bool := (lo <=? x) && (x <=? hi).
Definition cont (x : Z) : bool := inr 0x80 0xBF x.

Definition RuneError : Z := 0xFFFD.

(* utf8.DecodeRune: (rune, size).  (RuneError,0) on empty input,
   (RuneError,1) on an invalid or incomplete sequence. *)
Definition decode_rune (bs : list Z) : Z * nat :=
  match bs with
  | [] => (RuneError, 0%nat)
  | b0 :: r =>
    match lead_info b0 with
    | None => (RuneError, 1%nat)
    | Some (1%nat, _, _) => (b0, 1%nat)
    | Some (2%nat, lo, hi) =>
      match r with
      | b1 :: _ => if inr lo hi b1 then ((b0 mod 32) * 64 + b1 mod 64, 2%nat) else (RuneError, 1%nat)
      | _ => (RuneError, 1%nat)
      end
    | Some (3%nat, lo, hi) =>
      match r with
      | b1 :: b2 :: _ =>
        if inr lo hi b1 && cont b2
        then ((b0 mod 16) * 4096 + (b1 mod 64) * 64 + b2 mod 64, 3%nat) else (RuneError, 1%nat)
      | _ => (RuneError, 1%nat)
      end
    | Some (_, lo, hi) =>
      match r with
      | b1 :: b2 :: b3 :: _ =>
        if inr lo hi b1 && cont b2 && cont b3
        then ((b0 mod 8) * 262144 + (b1 mod 64) * 4096 + (b2 mod 64) * 64 + b3 mod 64, 4%nat)
        else (RuneError, 1%nat)
      | _ => (RuneError, 1%nat)
      end
    end
  end.

(* utf8.FullRune: does bs begin with a full encoding (an invalid one counts as
   full: it converts as a width-1 error rune) *)
Definition full_rune (bs : list Z) : bool :=
  match bs with
  | [] => false
  | b0 :: r =>
    match lead_info b0 with
    | None => true
    | Some (n, lo, hi) =>
      if (n <=? length bs)%nat then true
      else match r with
           | [] => false
           | b1 :: r2 =>
             if negb (inr lo hi b1) then true
             else match r2 with
                  | [] => false
                  | b2 :: _ => negb (cont b2)
                  end
           end
    end
  end.

(* ---------- pkg/io/input.go : readRune ----------------------------------- *)

Inductive rr :=
| RROk (runes : list Z) (remains : list Z)
| RRInvalid.                                   (* IOError: not valid UTF-8 *)

(* the decoding loop over buf; fuel = length buf suffices (each pass drops >= 1 byte) *)
Fixpoint rr_loop (fuel : nat) (buf : list Z) (eof : bool) (acc : list Z) : rr :=
  match fuel with
  | O => RROk (rev acc) buf
  | S k =>
    match buf with
    | [] => RROk (rev acc) []
    | _ =>
      let '(ru, size) := decode_rune buf in
      if (ru =? RuneError) && (size <=? 1)%nat then
        if negb (full_rune buf) && negb eof then RROk (rev acc) buf
        else RRInvalid
      else rr_loop k (skipn size buf) eof (ru :: acc)
    end
  end.

(* readRune(r, remains, b): chunk = the bytes r.Read delivered, eof = (err == io.EOF) *)
Definition read_rune (remains chunk : list Z) (eof : bool) : rr :=
  let buf := remains ++ chunk in
  rr_loop (length buf) buf eof [].

(* ---------- pkg/io/file_stream.go ---------------------------------------- *)

Definition BOM : Z := 0xFEFF.

Record fstream := { enc_buffer : list Z; has_read : bool }.
Definition fs_init : fstream := {| enc_buffer := []; has_read := false |}.

Inductive res (A : Type) := Ok (a : A) | Err.
Arguments Ok {A} a. Arguments Err {A}.

(* FileStream.read: one block *)
Definition fs_read (f : fstream) (chunk : list Z) (eof : bool) : res (list Z * fstream) :=
  match read_rune (enc_buffer f) chunk eof with
  | RRInvalid => Err
  | RROk data remains =>
    if negb (has_read f) && negb (length data =? 0)%nat then
      let data' := match data with
                   | d0 :: tl => if d0 =? BOM then tl else data
                   | [] => data
                   end in
      Ok (data', {| enc_buffer := remains; has_read := true |})
    else Ok (data, {| enc_buffer := remains; has_read := has_read f |})
  end.

(* A reader is the list of (bytes, eof?) pairs its Read calls deliver; after the
   list is exhausted Read returns (0, io.EOF).  ReadAll loops until EOF is seen. *)
Fixpoint fs_read_all (reads : list (list Z * bool)) (f : fstream) (acc : list Z) : res (list Z) :=
  match reads with
  | [] =>
    match fs_read f [] true with
    | Err => Err
    | Ok (data, _) => Ok (acc ++ data)
    end
  | (chunk, eof) :: rest =>
    match fs_read f chunk eof with
    | Err => Err
    | Ok (data, f') => if eof then Ok (acc ++ data) else fs_read_all rest f' (acc ++ data)
    end
  end.

Definition file_read_all (reads : list (list Z * bool)) : res (list Z) :=
  fs_read_all reads fs_init [].

(* ---------- pkg/io/byte_stream.go ---------------------------------------- *)
(* ByteStream.ReadAll: one readRune over the whole slice; a non-empty remainder
   is an error (nothing more can arrive). No BOM handling in this stream. *)
Definition bytes_read_all (bs : list Z) : res (list Z) :=
  match read_rune [] bs true with
  | RRInvalid => Err
  | RROk data _ => Ok data
  end.

(* ---------- the specification -------------------------------------------- *)

(* decode a whole byte string: Some cps iff bs is the encoding of scalar values *)
Fixpoint spec_decode (fuel : nat) (bs : list Z) : option (list Z) :=
  match fuel with
  | O => match bs with [] => Some [] | _ => None end
  | S k =>
    match bs with
    | [] => Some []
    | _ =>
      let '(ru, size) := decode_rune bs in
      if (ru =? RuneError) && (size <=? 1)%nat then None
      else match spec_decode k (skipn size bs) with
           | Some cps => Some (ru :: cps)
           | None => None
           end
    end
  end.

Definition strip_bom (cps : list Z) : list Z :=
  match cps with
  | c :: tl => if c =? BOM then tl else cps
  | [] => cps
  end.

Definition decode_file (bs : list Z) : res (list Z) :=
  match spec_decode (length bs) bs with
  | Some cps => Ok (strip_bom cps)
  | None => Err
  end.

Definition decode_bytes (bs : list Z) : res (list Z) :=
  match spec_decode (length bs) bs with
  | Some cps => Ok cps
  | None => Err
  end.
