(* CollectionsTypes.v — vocabulary shared by the C12 specification (spec/CollectionsSpec.v) and the
   model of the Go code (model/Collections.v): plain values, numbers, operations, results, the
   rendering of a value as text (Element.String()) and the `为` equality of pkg/value.CompareValues.
   Definitions only. *)
From Coq Require Import List ZArith Bool Lia.
Import ListNotations.
Open Scope Z_scope.

Definition text := list Z.                       (* code points *)
Definition text_eq_dec : forall a b : text, {a = b} + {a <> b} := list_eq_dec Z.eq_dec.

(* A float64 as far as index arithmetic and equality can tell.
   NInt z   : the integer z            (generators keep |z| < 2^52, where float64 arithmetic on z, z-1 is exact)
   NHalf fl : the value fl + 1/2       (same bound)
   NNaN, NInf neg : NaN, +Inf / -Inf
   NBig neg : +1e300 / -1e300 (finite, magnitude above 2^63) *)
Inductive num := NInt (z : Z) | NHalf (fl : Z) | NNaN | NInf (neg : bool) | NBig (neg : bool).

Inductive val :=
| VNull | VBool (b : bool) | VNum (n : num) | VStr (s : text)
| VList (l : list val)
| VDict (kvs : list (text * val)).               (* a dictionary value seen in key order *)

Inductive res (A : Type) := Ok (a : A) | Err (code : Z) | Crash.
Arguments Ok {A} a. Arguments Err {A} code. Arguments Crash {A}.

(* pkg/error/runtime_error.go *)
Definition E_INDEX_RANGE := 40.
Definition E_KEY_NOT_FOUND := 41.
Definition E_PROP_NOT_FOUND := 45.
Definition E_METHOD_NOT_FOUND := 46.
Definition E_EXACT_PARAMS := 53.
Definition E_EXPR_TYPE := 80.
Definition E_PARAM_TYPE := 82.

Definition zlen {A} (l : list A) : Z := Z.of_nat (length l).

Fixpoint assoc_get {A} (k : text) (kvs : list (text * A)) : option A :=
  match kvs with
  | [] => None
  | (k', v) :: r => if text_eq_dec k k' then Some v else assoc_get k r
  end.

(* ---------- float64 == ---------- *)
Definition num_eqb (a b : num) : bool :=
  match a, b with
  | NInt x, NInt y => x =? y
  | NHalf x, NHalf y => x =? y
  | NInf x, NInf y => Bool.eqb x y
  | NBig x, NBig y => Bool.eqb x y
  | _, _ => false                                  (* NaN is unequal to everything *)
  end.

(* ---------- value.CompareValues(left, right, CmpEq), with the dictionary branch comparing ALL keys
   (the pinned code returns inside the first pass of a map range: C01/C11's finding) ---------- *)
Fixpoint val_eqb (a b : val) {struct a} : bool :=
  match a, b with
  | VNull, VNull => true
  | VBool x, VBool y => Bool.eqb x y
  | VNum x, VNum y => num_eqb x y
  | VStr x, VStr y => if text_eq_dec x y then true else false
  | VList xs, VList ys =>
    (fix go (xs ys : list val) {struct xs} : bool :=
       match xs, ys with
       | [], [] => true
       | x :: xs', y :: ys' => val_eqb x y && go xs' ys'
       | _, _ => false
       end) xs ys
  | VDict xs, VDict ys =>
    (length xs =? length ys)%nat &&
    (fix go (xs : list (text * val)) {struct xs} : bool :=
       match xs with
       | [] => true
       | (k, v) :: xs' =>
         match assoc_get k ys with Some w => val_eqb v w | None => false end && go xs'
       end) xs
  | _, _ => false
  end.

(* ---------- Element.String() ---------- *)
Fixpoint digits (fuel : nat) (z : Z) (acc : text) : text :=
  match fuel with
  | O => acc
  | S f => let acc' := (48 + z mod 10) :: acc in if z <? 10 then acc' else digits f (z / 10) acc'
  end.
Definition nat_text (z : Z) : text := digits (S (Z.to_nat (Z.log2 z))) z [].
Definition z_text (z : Z) : text := if z <? 0 then 45 :: nat_text (- z) else nat_text z.

(* fmt %v of a float64 (restated Go library behaviour, validated by the differential run) *)
Definition num_text (n : num) : text :=
  match n with
  | NInt z => z_text z
  | NHalf fl => if 0 <=? fl then nat_text fl ++ [46; 53] else 45 :: nat_text (- fl - 1) ++ [46; 53]
  | NNaN => [78; 97; 78]
  | NInf false => [43; 73; 110; 102]
  | NInf true => [45; 73; 110; 102]
  | NBig false => [49; 101; 43; 51; 48; 48]
  | NBig true => [45; 49; 101; 43; 51; 48; 48]
  end.

Definition COMMA : Z := 65292.   (* ， *)
Fixpoint join_text (sep : text) (parts : list text) : text :=
  match parts with
  | [] => []
  | [p] => p
  | p :: r => p ++ sep ++ join_text sep r
  end.

Fixpoint val_text (v : val) : text :=
  match v with
  | VNull => [31354]                               (* 空 *)
  | VBool true => [30495]                          (* 真 *)
  | VBool false => [20551]                         (* 假 *)
  | VNum n => num_text n
  | VStr s => s
  | VList l => [91] ++ join_text [COMMA] (map val_text l) ++ [93]
  | VDict kvs => [91] ++ join_text [COMMA] (map (fun kv => match kv with (k, w) => k ++ [61] ++ val_text w end) kvs) ++ [93]
  end.

(* ---------- value.DuplicateValue: NewHashMap over the pairs in key order ---------- *)
Fixpoint pairs_put {A} (k : text) (v : A) (kvs : list (text * A)) : list (text * A) :=
  match kvs with
  | [] => [(k, v)]
  | (k', w) :: r => if text_eq_dec k k' then (k', v) :: r else (k', w) :: pairs_put k v r
  end.
(* first-insertion order, last value: what NewHashMap builds from a pair list *)
Definition pairs_norm {A} (kvs : list (text * A)) : list (text * A) :=
  fold_left (fun acc kv => pairs_put (fst kv) (snd kv) acc) kvs [].

Fixpoint dup_val (v : val) : val :=
  match v with
  | VList l => VList (map dup_val l)
  | VDict kvs => VDict (pairs_norm (map (fun kv => match kv with (k, w) => (k, dup_val w) end) kvs))
  | _ => v
  end.

(* ---------- operations ---------- *)
Inductive lprop := PText | PFirst | PLast | PCount | PLength | PReverse | PUnknown.
Inductive lmeth := MInsert | MAdd | MPrepend | MAppend | MShift | MPop | MJoin | MMerge | MContains | MFind | MSwap | MUnknown.
Inductive lop :=
| LIndexGet (i : val)                 (* A#i          : getMemberExprIV + IV.ReduceRHS *)
| LIndexSet (i : val) (v : val)       (* A#i = v      : getMemberExprIV + IV.ReduceLHS *)
| LGetProp (p : lprop)                (* A之p         : Array.GetProperty *)
| LSetProp (p : lprop) (v : val)      (* A之p = v     : Array.SetProperty *)
| LMethod (m : lmeth) (args : list val)   (* 以A（m：args） : Array.ExecMethod *)
| LAssignReverse                      (* A = A之逆序 *)
| LCopy                               (* A = copy of A : DuplicateValue *)
| LIterate.                           (* 以K、V遍历A  : the (index, element) sequence evalIterateStmt produces *)

Inductive dprop := DPCount | DPLength | DPKeys | DPValues | DPUnknown.
Inductive dmeth := DMGet | DMSet | DMDelete | DMUnknown.
Inductive dop :=
| DIndexGet (i : val)
| DIndexSet (i : val) (v : val)
| DGetProp (p : dprop)
| DSetProp (v : val)
| DMethod (m : dmeth) (args : list val)
| DCopy
| DIterate.

(* parameter type names of value.ValidateExactParams *)
Inductive ptype := TAny | TNumber | TString | TArray | THashmap.
Definition param_ok (v : val) (t : ptype) : bool :=
  match t, v with
  | TAny, _ => true
  | TNumber, VNum _ => true
  | TString, VStr _ => true
  | TArray, VList _ => true
  | THashmap, VDict _ => true
  | _, _ => false
  end.

(* ---------- flat encodings used by the correspondence check ---------- *)
Definition enc_bool (b : bool) : Z := if b then 1 else 0.
Definition enc_text (s : text) : list Z := zlen s :: s.
Definition enc_num (n : num) : list Z :=
  match n with
  | NInt z => [0; z] | NHalf fl => [1; fl] | NNaN => [2; 0] | NInf b => [3; enc_bool b] | NBig b => [4; enc_bool b]
  end.
Fixpoint enc_val (v : val) : list Z :=
  match v with
  | VNull => [0]
  | VBool b => [1; enc_bool b]
  | VNum n => 2 :: enc_num n
  | VStr s => 3 :: enc_text s
  | VList l => 4 :: zlen l :: concat (map enc_val l)
  | VDict kvs => 5 :: zlen kvs :: concat (map (fun kv => match kv with (k, w) => enc_text k ++ enc_val w end) kvs)
  end.
Definition enc_res (r : res val) : list Z :=
  match r with Ok v => 0 :: enc_val v | Err c => [1; c] | Crash => [2] end.

(* ---------- navigation through nested plain values (the tail of 读取 with several keys) ---------- *)
Fixpoint val_read_path (cur : val) (keys : list val) : val :=
  match keys with
  | [] => cur
  | VStr k :: r =>
    match cur with
    | VDict kvs => match assoc_get k kvs with Some v => val_read_path v r | None => VNull end
    | _ => VNull
    end
  | _ :: _ => VNull
  end.
