(* Collections.v — executable model of pkg/value/array.go, pkg/value/hashmap.go, pkg/value/iv.go
   (ReduceLHS / ReduceRHS), the index conversion of pkg/exec/eval.go getMemberExprIV and the
   iteration order of evalIterateStmt.  Same helper structure and branch order as the Go code;
   Go panics (index / slice out of range, nil element) are `Crash` (None in the helpers).
   A list is modelled as its element sequence (aliasing of backing arrays is C07's subject), but
   index arithmetic is modelled exactly (64-bit int, float64 -> int conversion as on amd64).
   insertArrayValue is modelled as REPAIRED (fixes/C12-1.patch) when `repaired = true`, and as on the
   pinned tree when `repaired = false`.  No proofs here. *)
From Coq Require Import List ZArith Bool Lia.
Import ListNotations.
From Zn.model Require Import CollectionsTypes.
Open Scope Z_scope.

(* ---------------- machine integers ---------------- *)
Definition min_int64 : Z := - 9223372036854775808.
Definition wrap64 (z : Z) : Z := (z + 9223372036854775808) mod 18446744073709551616 - 9223372036854775808.

(* int(f) for a float64 f, as compiled on amd64 (CVTTSD2SQ: the "integer indefinite" value for NaN,
   infinities and out-of-range magnitudes) *)
Definition go_int (n : num) : Z :=
  match n with
  | NInt z => z
  | NHalf fl => if 0 <=? fl then fl else fl + 1
  | _ => min_int64
  end.
(* int(math.Floor(f) - 1) *)
Definition go_floor_minus1_int (n : num) : Z :=
  match n with
  | NInt z => z - 1
  | NHalf fl => fl - 1
  | _ => min_int64
  end.

(* ---------------- Go slices (len = cap in this abstraction) ---------------- *)
Definition go_index {A} (l : list A) (i : Z) : option A :=
  if (i <? 0) || (zlen l <=? i) then None else nth_error l (Z.to_nat i).
Definition go_slice {A} (l : list A) (lo hi : Z) : option (list A) :=
  if (lo <? 0) || (hi <? lo) || (zlen l <? hi) then None
  else Some (firstn (Z.to_nat (hi - lo)) (skipn (Z.to_nat lo) l)).
Fixpoint list_set {A} (l : list A) (n : nat) (v : A) : list A :=
  match l, n with
  | [], _ => []
  | _ :: t, O => v :: t
  | h :: t, S k => h :: list_set t k v
  end.
Definition go_store {A} (l : list A) (i : Z) (v : A) : option (list A) :=
  if (i <? 0) || (zlen l <=? i) then None else Some (list_set l (Z.to_nat i) v).

Definition lift {A} (o : option A) : res A := match o with Some a => Ok a | None => Crash end.

(* ---------------- value_util.go: parameter validation ---------------- *)
Fixpoint validate_each (values : list val) (tys : list ptype) : option Z :=
  match values, tys with
  | v :: vr, t :: tr => if param_ok v t then validate_each vr tr else Some E_PARAM_TYPE
  | _, _ => None
  end.
Definition validate_exact (values : list val) (tys : list ptype) : option Z :=
  if negb (length values =? length tys)%nat then Some E_EXACT_PARAMS else validate_each values tys.
Fixpoint validate_all (values : list val) (t : ptype) : option Z :=
  match values with
  | [] => None
  | v :: r => if param_ok v t then validate_all r t else Some E_PARAM_TYPE
  end.

(* ---------------- array.go ---------------- *)
Definition arr_get_text (l : list val) : res val := Ok (VStr (val_text (VList l))).
Definition arr_get_first (l : list val) : res val :=
  if zlen l =? 0 then Ok VNull else lift (go_index l 0).
Definition arr_get_last (l : list val) : res val :=
  if zlen l =? 0 then Ok VNull else lift (go_index l (zlen l - 1)).
Definition arr_get_length (l : list val) : res val := Ok (VNum (NInt (zlen l))).

(* for i := 0; i < l; i++ { result = append(result, ar.value[l-1-i]) } *)
Fixpoint reverse_loop (l : list val) (n : Z) (cnt : nat) (i : Z) (acc : list val) : option (list val) :=
  match cnt with
  | O => Some acc
  | S c => match go_index l (n - 1 - i) with
           | Some v => reverse_loop l n c (i + 1) (acc ++ [v])
           | None => None
           end
  end.
Definition arr_reverse (l : list val) : option (list val) := reverse_loop l (zlen l) (length l) 0 [].
Definition arr_get_reverse (l : list val) : res val :=
  match arr_reverse l with Some r => Ok (VList r) | None => Crash end.

Definition arr_set_first (l : list val) (v : val) : option (list val) :=
  if zlen l =? 0 then Some [v] else go_store l 0 v.
Definition arr_set_last (l : list val) (v : val) : option (list val) :=
  if zlen l =? 0 then Some [v] else go_store l (zlen l - 1) v.

(* insertArrayValue; `repaired` adds   if idx < 0 { idx = 0 }   after   idx = len(target) + idx *)
Definition insert_array_value (repaired : bool) (target : list val) (idx : Z) (item : val) : option (list val) :=
  let n := zlen target in
  if n <=? idx then Some (target ++ [item])
  else
    let idx1 := if idx <? 0 then wrap64 (n + idx) else idx in
    let idx2 := if repaired && (idx1 <? 0) then 0 else idx1 in
    match go_slice target 0 idx2, go_slice target idx2 n with
    | Some a, Some b => Some ((a ++ [item]) ++ b)
    | _, _ => None
    end.

(* shiftArrayValue *)
Definition shift_array_value (target : list val) (left : bool) : option (val * list val) :=
  if zlen target =? 0 then Some (VNull, [])
  else if left then
    match go_index target 0, go_slice target 1 (zlen target) with
    | Some h, Some t => Some (h, t) | _, _ => None
    end
  else
    let lastIdx := zlen target - 1 in
    match go_index target lastIdx, go_slice target 0 lastIdx with
    | Some h, Some t => Some (h, t) | _, _ => None
    end.

Fixpoint strings_of (l : list val) : option (list text) :=
  match l with
  | [] => Some []
  | VStr s :: r => match strings_of r with Some t => Some (s :: t) | None => None end
  | _ :: _ => None                                 (* v.( *String) on a non-string panics *)
  end.

(* var result; result = append(result, ar.value...); for _, v := range values { result = append(result, v.( *Array).value...) } *)
Fixpoint merge_loop (acc : list val) (values : list val) : option (list val) :=
  match values with
  | [] => Some acc
  | VList x :: r => merge_loop (acc ++ x) r
  | _ :: _ => None
  end.

(* for _, item := range ar.value { if CompareValues(item, v, CmpEq) { result = true; break } } *)
Fixpoint contains_loop (l : list val) (v : val) : bool :=
  match l with
  | [] => false
  | item :: r => if val_eqb item v then true else contains_loop r v
  end.
Fixpoint find_loop (l : list val) (v : val) (i : Z) : Z :=
  match l with
  | [] => -1
  | item :: r => if val_eqb item v then i else find_loop r v (i + 1)
  end.

Definition arr_exec_method (repaired : bool) (m : lmeth) (values : list val) (l : list val) : res val * list val :=
  match m with
  | MInsert | MAdd =>
    match validate_exact values [TAny; TNumber] with
    | Some e => (Err e, l)
    | None =>
      match values with
      | [v0; VNum n] =>
        match insert_array_value repaired l (go_int n) v0 with
        | Some l' => (Ok (VList l'), l')
        | None => (Crash, l)
        end
      | _ => (Crash, l)
      end
    end
  | MPrepend =>
    match validate_exact values [TAny] with
    | Some e => (Err e, l)
    | None =>
      match values with
      | v0 :: _ => match insert_array_value repaired l 0 v0 with Some l' => (Ok (VList l'), l') | None => (Crash, l) end
      | _ => (Crash, l)
      end
    end
  | MAppend =>
    match validate_exact values [TAny] with
    | Some e => (Err e, l)
    | None =>
      match values with
      | v0 :: _ => match insert_array_value repaired l (zlen l) v0 with Some l' => (Ok (VList l'), l') | None => (Crash, l) end
      | _ => (Crash, l)
      end
    end
  | MShift => match shift_array_value l true with Some (v, l') => (Ok v, l') | None => (Crash, l) end
  | MPop => match shift_array_value l false with Some (v, l') => (Ok v, l') | None => (Crash, l) end
  | MJoin =>
    match validate_all l TString with
    | Some e => (Err e, l)
    | None =>
      match validate_exact values [TString] with
      | Some e => (Err e, l)
      | None =>
        match strings_of l, values with
        | Some strs, VStr sep :: _ => (Ok (VStr (join_text sep strs)), l)
        | _, _ => (Crash, l)
        end
      end
    end
  | MMerge =>
    match validate_all values TArray with
    | Some e => (Err e, l)
    | None => match merge_loop ([] ++ l) values with Some r => (Ok (VList r), r) | None => (Crash, l) end
    end
  | MContains =>
    match validate_exact values [TAny] with
    | Some e => (Err e, l)
    | None => match values with v0 :: _ => (Ok (VBool (contains_loop l v0)), l) | _ => (Crash, l) end
    end
  | MFind =>
    match validate_exact values [TAny] with
    | Some e => (Err e, l)
    | None => match values with v0 :: _ => (Ok (VNum (NInt (find_loop l v0 0))), l) | _ => (Crash, l) end
    end
  | MSwap =>
    match validate_exact values [TNumber; TNumber] with
    | Some e => (Err e, l)
    | None =>
      match values with
      | [VNum a; VNum b] =>
        let n := zlen l in
        let cursor0 := go_floor_minus1_int a in
        let cursor1 := go_floor_minus1_int b in
        if (cursor0 <? 0) || (n <=? cursor0) then (Err E_INDEX_RANGE, l)
        else if (cursor1 <? 0) || (n <=? cursor1) then (Err E_INDEX_RANGE, l)
        else
          match go_index l cursor0 with
          | None => (Crash, l)
          | Some tmp =>
            match go_index l cursor1 with
            | None => (Crash, l)
            | Some x1 =>
              match go_store l cursor0 x1 with
              | None => (Crash, l)
              | Some l1 => match go_store l1 cursor1 tmp with Some l2 => (Ok (VList l2), l2) | None => (Crash, l) end
              end
            end
          end
      | _ => (Crash, l)
      end
    end
  | MUnknown => (Err E_METHOD_NOT_FOUND, l)
  end.

Definition arr_get_property (p : lprop) (l : list val) : res val :=
  match p with
  | PText => arr_get_text l
  | PFirst => arr_get_first l
  | PLast => arr_get_last l
  | PCount | PLength => arr_get_length l
  | PReverse => arr_get_reverse l
  | PUnknown => Err E_PROP_NOT_FOUND
  end.

Definition arr_set_property (p : lprop) (v : val) (l : list val) : res val * list val :=
  match p with
  | PFirst => match arr_set_first l v with Some l' => (Ok VNull, l') | None => (Crash, l) end
  | PLast => match arr_set_last l v with Some l' => (Ok VNull, l') | None => (Crash, l) end
  | _ => (Err E_PROP_NOT_FOUND, l)
  end.

(* ---------------- iv.go, IVTypeArray ---------------- *)
Definition iv_array_rhs (l : list val) (index : Z) : res val :=
  let realIndex := wrap64 (index - 1) in
  if (realIndex <? 0) || (zlen l <=? realIndex) then Err E_INDEX_RANGE else lift (go_index l realIndex).
Definition iv_array_lhs (l : list val) (index : Z) (input : val) : res val * list val :=
  let realIndex := wrap64 (index - 1) in
  if (realIndex <? 0) || (zlen l <=? realIndex) then (Err E_INDEX_RANGE, l)
  else match go_store l realIndex input with Some l' => (Ok VNull, l') | None => (Crash, l) end.

(* ---------------- eval.go evalIterateStmt, *value.Array: for idx, v := range ... realIdx := idx + 1 ---------------- *)
Fixpoint iterate_array (l : list val) (idx : Z) : list val :=
  match l with
  | [] => []
  | v :: r => VList [VNum (NInt (idx + 1)); v] :: iterate_array r (idx + 1)
  end.

Definition arr_step (repaired : bool) (op : lop) (l : list val) : res val * list val :=
  match op with
  | LIndexGet (VNum n) => (iv_array_rhs l (go_int n), l)          (* eval.go:1280 vri := int(vr.GetValue()) *)
  | LIndexGet _ => (Err E_EXPR_TYPE, l)
  | LIndexSet (VNum n) v => iv_array_lhs l (go_int n) v
  | LIndexSet _ _ => (Err E_EXPR_TYPE, l)
  | LGetProp p => (arr_get_property p l, l)
  | LSetProp p v => arr_set_property p v l
  | LMethod m args => arr_exec_method repaired m args l
  | LAssignReverse => match arr_reverse l with Some r => (Ok (VList r), r) | None => (Crash, l) end
  | LCopy => let c := map dup_val l in (Ok (VList c), c)
  | LIterate => (Ok (VList (iterate_array l 0)), l)
  end.

Fixpoint arr_run (repaired : bool) (ops : list lop) (l : list val) : list (res val * list val) :=
  match ops with
  | [] => []
  | op :: r => let s := arr_step repaired op l in s :: arr_run repaired r (snd s)
  end.

(* ---------------- hashmap.go ---------------- *)
(* the Go map `value`: an association list with distinct keys; its order is never observed
   (nothing in these files ranges over it) *)
Definition gomap := list (text * val).
Definition gm_get (m : gomap) (k : text) : option val := assoc_get k m.
Fixpoint gm_set (m : gomap) (k : text) (v : val) : gomap :=
  match m with
  | [] => [(k, v)]
  | (k', w) :: r => if text_eq_dec k k' then (k', v) :: r else (k', w) :: gm_set r k v
  end.
Fixpoint gm_delete (m : gomap) (k : text) : gomap :=
  match m with
  | [] => []
  | (k', w) :: r => if text_eq_dec k k' then gm_delete r k else (k', w) :: gm_delete r k
  end.
Definition gm_len (m : gomap) : Z := zlen m.

Record hashmap := mkHM { hm_value : gomap; hm_order : list text }.

(* AppendKVPair *)
Definition hm_append_kv (hm : hashmap) (k : text) (v : val) : hashmap :=
  match gm_get (hm_value hm) k with
  | Some _ => mkHM (gm_set (hm_value hm) k v) (hm_order hm)
  | None => mkHM (gm_set (hm_value hm) k v) (hm_order hm ++ [k])
  end.

(* NewHashMap *)
Fixpoint new_hashmap_loop (hm : hashmap) (kvs : list (text * val)) : hashmap :=
  match kvs with
  | [] => hm
  | (k, v) :: r =>
    let order := match gm_get (hm_value hm) k with Some _ => hm_order hm | None => hm_order hm ++ [k] end in
    new_hashmap_loop (mkHM (gm_set (hm_value hm) k v) order) r
  end.
Definition new_hashmap (kvs : list (text * val)) : hashmap := new_hashmap_loop (mkHM [] []) kvs.

(* the pairs in key order; a key of keyOrder missing from the map yields a nil Element (None) *)
Fixpoint hm_pairs_loop (m : gomap) (order : list text) : option (list (text * val)) :=
  match order with
  | [] => Some []
  | k :: r =>
    match gm_get m k, hm_pairs_loop m r with
    | Some v, Some t => Some ((k, v) :: t)
    | _, _ => None
    end
  end.
Definition hm_pairs (hm : hashmap) : option (list (text * val)) := hm_pairs_loop (hm_value hm) (hm_order hm).

(* String(): for _, v := range hm.keyOrder { ... hm.value[v].String() } *)
Definition hm_text (hm : hashmap) : option text :=
  match hm_pairs hm with Some kvs => Some (val_text (VDict kvs)) | None => None end.

Definition hm_get_length (hm : hashmap) : res val := Ok (VNum (NInt (gm_len (hm_value hm)))).
Definition hm_get_all_indexes (hm : hashmap) : res val := Ok (VList (map VStr (hm_order hm))).
Definition hm_get_all_values (hm : hashmap) : res val :=
  match hm_pairs hm with Some kvs => Ok (VList (map snd kvs)) | None => Crash end.

(* hmExecDelete's loop.  `for idx, vk := range hm.keyOrder` fixes the slice header (n elements) once
   and reads the shared backing array on every pass, while the body shrinks hm.keyOrder in place with
   append(hm.keyOrder[:idx], hm.keyOrder[idx+1:]...).  `backing` is that array (n cells), `curlen`
   the current len(hm.keyOrder); the loop runs idx = start .. n-1. *)
Fixpoint delete_loop (k : text) (backing : list text) (curlen : Z) (idx : Z) (cnt : nat) : option (list text * Z) :=
  match cnt with
  | O => Some (backing, curlen)
  | S c =>
    match go_index backing idx with
    | None => None
    | Some vk =>
      if text_eq_dec vk k then
        (* hm.keyOrder[:idx] needs idx <= cap; hm.keyOrder[idx+1:] needs idx+1 <= len(hm.keyOrder) *)
        if (curlen <? idx + 1) then None
        else
          match go_slice backing (idx + 1) curlen, go_slice backing 0 idx, go_slice backing (curlen - 1) (zlen backing) with
          | Some tail, Some head, Some rest =>
            (* memmove of tail to position idx; cells from curlen-1 on keep their old content *)
            delete_loop k (head ++ tail ++ rest) (curlen - 1) (idx + 1) c
          | _, _, _ => None
          end
      else delete_loop k backing curlen (idx + 1) c
    end
  end.
Definition key_order_delete (k : text) (order : list text) : option (list text) :=
  match delete_loop k order (zlen order) 0 (length order) with
  | Some (backing, curlen) => go_slice backing 0 curlen
  | None => None
  end.

Fixpoint validate_strings (values : list val) : option Z :=    (* ValidateLeastParams(values, "string+") *)
  match values with
  | [] => None
  | v :: r => if param_ok v TString then validate_strings r else Some E_PARAM_TYPE
  end.

(* hmExecGet: result starts as hm itself; each key descends one level *)
Definition hm_exec_get (hm : hashmap) (values : list val) : res val :=
  match validate_strings values with
  | Some e => Err e
  | None =>
    match values with
    | [] => match hm_pairs hm with Some kvs => Ok (VDict kvs) | None => Crash end
    | VStr k :: r =>
      match gm_get (hm_value hm) k with
      | Some v => Ok (val_read_path v r)
      | None => Ok VNull
      end
    | _ :: _ => Crash
    end
  end.

Definition hm_exec_method (m : dmeth) (values : list val) (hm : hashmap) : res val * hashmap :=
  match m with
  | DMGet => (hm_exec_get hm values, hm)
  | DMSet =>
    match validate_exact values [TString; TAny] with
    | Some e => (Err e, hm)
    | None => match values with [VStr k; v] => (Ok v, hm_append_kv hm k v) | _ => (Crash, hm) end
    end
  | DMDelete =>
    match validate_exact values [TString] with
    | Some e => (Err e, hm)
    | None =>
      match values with
      | [VStr k] =>
        match gm_get (hm_value hm) k with
        | Some v =>
          match key_order_delete k (hm_order hm) with
          | Some order' => (Ok v, mkHM (gm_delete (hm_value hm) k) order')
          | None => (Crash, mkHM (gm_delete (hm_value hm) k) (hm_order hm))
          end
        | None => (Ok VNull, hm)
        end
      | _ => (Crash, hm)
      end
    end
  | DMUnknown => (Err E_METHOD_NOT_FOUND, hm)
  end.

Definition hm_get_property (p : dprop) (hm : hashmap) : res val :=
  match p with
  | DPCount | DPLength => hm_get_length hm
  | DPKeys => hm_get_all_indexes hm
  | DPValues => hm_get_all_values hm
  | DPUnknown => Err E_PROP_NOT_FOUND
  end.

(* eval.go getMemberExprIV, *value.HashMap: a number index is used through its String() *)
Definition index_key (i : val) : option text :=
  match i with VNum n => Some (num_text n) | VStr s => Some s | _ => None end.

(* iv.go, IVTypeHashMap *)
Definition iv_hashmap_rhs (hm : hashmap) (member : text) : res val :=
  match gm_get (hm_value hm) member with Some v => Ok v | None => Err E_KEY_NOT_FOUND end.
Definition iv_hashmap_lhs (hm : hashmap) (member : text) (input : val) : res val * hashmap :=
  (Ok VNull, hm_append_kv hm member input).

(* DuplicateValue of a HashMap: NewHashMap over (key, DuplicateValue(v.value[key])) in keyOrder *)
Definition hm_duplicate (hm : hashmap) : option hashmap :=
  match hm_pairs hm with
  | Some kvs => Some (new_hashmap (map (fun kv => match kv with (k, w) => (k, dup_val w) end) kvs))
  | None => None
  end.

(* evalIterateStmt, *value.HashMap: for _, key := range tv.GetKeyOrder() { v := tv.GetValue()[key] ... } *)
Definition iterate_hashmap (hm : hashmap) : option (list val) :=
  match hm_pairs hm with
  | Some kvs => Some (map (fun kv => VList [VStr (fst kv); snd kv]) kvs)
  | None => None
  end.

Definition hm_step (op : dop) (hm : hashmap) : res val * hashmap :=
  match op with
  | DIndexGet i => match index_key i with Some k => (iv_hashmap_rhs hm k, hm) | None => (Err E_EXPR_TYPE, hm) end
  | DIndexSet i v => match index_key i with Some k => iv_hashmap_lhs hm k v | None => (Err E_EXPR_TYPE, hm) end
  | DGetProp p => (hm_get_property p hm, hm)
  | DSetProp _ => (Err E_PROP_NOT_FOUND, hm)
  | DMethod m args => hm_exec_method m args hm
  | DCopy =>
    match hm_duplicate hm with
    | Some hm' => match hm_pairs hm' with Some kvs => (Ok (VDict kvs), hm') | None => (Crash, hm') end
    | None => (Crash, hm)
    end
  | DIterate => match iterate_hashmap hm with Some t => (Ok (VList t), hm) | None => (Crash, hm) end
  end.

Fixpoint hm_run (ops : list dop) (hm : hashmap) : list (res val * hashmap) :=
  match ops with
  | [] => []
  | op :: r => let s := hm_step op hm in s :: hm_run r (snd s)
  end.

(* views of a dictionary *)
Definition view_keys (hm : hashmap) : list text := hm_order hm.                        (* 所有索引 *)
Definition view_json_keys (hm : hashmap) : list text := hm_order hm.                   (* generated JSON, as repaired under C19 *)

(* ---------------- encodings for the correspondence check ---------------- *)
Definition enc_opt_text (o : option text) : list Z := match o with Some t => enc_text t | None => [-1] end.
(* DumpValue of a *HashMap: the keys in keyOrder with m[k] (nil when missing), then len(m) *)
Definition enc_hm (hm : hashmap) : list Z :=
  zlen (hm_order hm) ::
  concat (map (fun k => enc_text k ++ match gm_get (hm_value hm) k with Some v => enc_val v | None => [9] end) (hm_order hm))
  ++ [gm_len (hm_value hm)].

(* error codes other than the two index errors are not C12's subject: compared as "an error" *)
Definition enc_res_cmp (r : res val) : list Z :=
  match r with
  | Err c => [1; if (c =? E_INDEX_RANGE) || (c =? E_KEY_NOT_FOUND) then c else 0]
  | _ => enc_res r
  end.
Definition enc_list_step (s : res val * list val) : list Z :=
  enc_res_cmp (fst s) ++ enc_val (VList (snd s)) ++ enc_text (val_text (VList (snd s))).
Definition enc_dict_step (s : res val * hashmap) : list Z :=
  enc_res_cmp (fst s) ++ enc_hm (snd s) ++ enc_opt_text (hm_text (snd s)).

Definition run_list_case (c : list val * list lop) : list (list Z) :=
  map enc_list_step (arr_run true (snd c) (fst c)).
Definition run_list_case_pinned (c : list val * list lop) : list (list Z) :=
  map enc_list_step (arr_run false (snd c) (fst c)).
Definition run_dict_case (c : list (text * val) * list dop) : list (list Z) :=
  let hm := new_hashmap (fst c) in
  (enc_hm hm ++ enc_opt_text (hm_text hm)) :: map enc_dict_step (hm_run (snd c) hm).

(* ---------------- what a generated program displays (program-level correspondence) ----------------
   after every operation the program displays the operation's result (when it has one) and then
   `（显示：A、A之长度）` (lists) or `（显示：D、D之长度、D之所有索引、D之所有值）` (dictionaries);
   it stops at the first error.  Last line: [0] finished, [code] runtime error, [-1] crash. *)
Definition SP : Z := 32.
Definition pair_line (p : val) : text :=
  match p with VList [k; v] => val_text k ++ [SP] ++ val_text v | _ => [] end.
Definition result_lines_list (op : lop) (v : val) : list text :=
  match op with
  | LIndexGet _ | LGetProp _ | LMethod _ _ => [val_text v]
  | LIterate => match v with VList ps => map pair_line ps | _ => [] end
  | _ => []
  end.
Fixpoint prog_list (ops : list lop) (l : list val) : list text :=
  match ops with
  | [] => [[0]]
  | op :: r =>
    match arr_step true op l with
    | (Ok v, l') => result_lines_list op v ++ [val_text (VList l') ++ [SP] ++ z_text (zlen l')] ++ prog_list r l'
    | (Err c, _) => [[c]]
    | (Crash, _) => [[-1]]
    end
  end.
Definition run_list_prog (c : list val * list lop) : list (list Z) := prog_list (snd c) (fst c).

Definition result_lines_dict (op : dop) (v : val) : list text :=
  match op with
  | DIndexGet _ | DGetProp _ | DMethod _ _ => [val_text v]
  | DIterate => match v with VList ps => map pair_line ps | _ => [] end
  | _ => []
  end.
Definition dict_state_line (hm : hashmap) : option text :=
  match hm_text hm, hm_get_all_values hm with
  | Some t, Ok vs => Some (t ++ [SP] ++ z_text (gm_len (hm_value hm)) ++ [SP] ++
                           val_text (VList (map VStr (hm_order hm))) ++ [SP] ++ val_text vs)
  | _, _ => None
  end.
Fixpoint prog_dict (ops : list dop) (hm : hashmap) : list text :=
  match ops with
  | [] => [[0]]
  | op :: r =>
    match hm_step op hm with
    | (Ok v, hm') =>
      match dict_state_line hm' with
      | Some line => result_lines_dict op v ++ [line] ++ prog_dict r hm'
      | None => [[-1]]
      end
    | (Err c, _) => [[c]]
    | (Crash, _) => [[-1]]
    end
  end.
Definition run_dict_prog (c : list (text * val) * list dop) : list (list Z) :=
  let hm := new_hashmap (fst c) in
  match dict_state_line hm with
  | Some line => line :: prog_dict (snd c) hm
  | None => [[-1]]
  end.

(* one checksum per step (keeps the printed output of the correspondence run small; on a mismatch the
   driver re-evaluates that case with the full encodings): length, sum and position-weighted sum of the
   entries (32 bits of each), packed into one integer.  Additions and small multiplications only (Z.modulo is slow in the VM). *)
Fixpoint sum_row (l : list Z) (i a b : Z) : Z :=
  match l with
  | [] => Z.land i 65535 + Z.shiftl (Z.land a 4294967295) 16 + Z.shiftl (Z.land b 4294967295) 48
  | x :: r => let y := x + 9007199254740992 in sum_row r (i + 1) (a + y) (b + (i + 1) * y)
  end.
Definition hash_row (l : list Z) : Z := sum_row l 0 0 0.
Definition run_list_case_h (c : list val * list lop) : list Z := map hash_row (run_list_case c).
Definition run_dict_case_h (c : list (text * val) * list dop) : list Z := map hash_row (run_dict_case c).
(* one checksum per case *)
Definition run_list_case_hh (c : list val * list lop) : Z := hash_row (run_list_case_h c).
Definition run_dict_case_hh (c : list (text * val) * list dop) : Z := hash_row (run_dict_case_h c).
Definition run_list_prog_h (c : list val * list lop) : list Z := map hash_row (run_list_prog c).
Definition run_dict_prog_h (c : list (text * val) * list dop) : list Z := map hash_row (run_dict_prog c).
