(* FormatNum.v — doubles as exact binary values (decoded from their 64-bit pattern with Z
   arithmetic, no axioms) and a restatement of the Go library renderings that
   pkg/exec/format_str.go reaches through fmt.Sprintf:
     %.Nf  %+.Nf  %.NE  %+.NE  %E  %.6g  %+.6g      (render_f, render_e, render_g6)
   plus the double multiplication x*100 of the percent directive (mul100) and the
   float64 -> int conversion used by 取样 (go_int, amd64 semantics).
   These are Go library behaviour: restated here, validated on every run by the differential
   check against fmt.Sprintf itself (not verified against Go's source).
   The shortest round-trip rendering %v (Number.String) is NOT modelled: it is the opaque
   parameter [rv] of the formatter model in Format.v.                       No proofs here. *)
From Coq Require Import List ZArith Bool Lia.
Import ListNotations.
Open Scope Z_scope.

Inductive fnum :=
| FNaN
| FInf (neg : bool)
| FFin (neg : bool) (m e : Z).      (* (-1)^neg * m * 2^e, m >= 0 *)

Definition decode_bits (b : Z) : fnum :=
  let neg := (b / 2 ^ 63) mod 2 =? 1 in
  let ex := (b / 2 ^ 52) mod 2048 in
  let mant := b mod 2 ^ 52 in
  if ex =? 2047 then (if mant =? 0 then FInf neg else FNaN)
  else if ex =? 0 then FFin neg mant (-1074)
  else FFin neg (mant + 2 ^ 52) (ex - 1075).

(* inverse, for any FFin neg m e with m < 2^53 and e >= -1074 that is a double *)
Definition encode_bits (x : fnum) : Z :=
  match x with
  | FNaN => 0x7FF8000000000000
  | FInf neg => (if neg then 2 ^ 63 else 0) + 0x7FF0000000000000
  | FFin neg m e =>
    let sg := if neg then 2 ^ 63 else 0 in
    if m =? 0 then sg
    else
      let s := Z.min (52 - Z.log2 m) (e + 1074) in
      let m' := m * 2 ^ s in
      let e' := e - s in
      if 2 ^ 52 <=? m' then sg + (e' + 1075) * 2 ^ 52 + (m' - 2 ^ 52) else sg + m'
  end.

(* round half to even of a / b   (a >= 0, b > 0) *)
Definition rne_div (a b : Z) : Z :=
  let q := a / b in
  let r := a mod b in
  if 2 * r <? b then q else if 2 * r >? b then q + 1 else if Z.even q then q else q + 1.

(* round an exact value M * 2^e (M >= 0, e >= -1074) to a double *)
Definition round_fin (neg : bool) (M e : Z) : fnum :=
  if M =? 0 then FFin neg 0 (-1074)
  else
    let k := Z.log2 M + 1 - 53 in
    if k <=? 0 then FFin neg M e
    else
      let q := rne_div M (2 ^ k) in
      let '(q, k) := if q =? 2 ^ 53 then (2 ^ 52, k + 1) else (q, k) in
      if e + k + 53 >? 1024 then FInf neg else FFin neg q (e + k).

(* value.GetValue()*100 *)
Definition mul100 (x : fnum) : fnum :=
  match x with
  | FFin neg m e => round_fin neg (m * 100) e
  | _ => x
  end.

(* int(float64) as compiled for amd64 (CVTTSD2SQ): truncation; NaN, infinities and values
   outside int64 give the "integer indefinite" value -2^63.  Platform specific. *)
Definition MinInt64 : Z := - 2 ^ 63.
Definition go_int (x : fnum) : Z :=
  match x with
  | FFin neg m e =>
    let a := if 0 <=? e then m * 2 ^ e else m / 2 ^ (- e) in
    let v := if neg then - a else a in
    if (MinInt64 <=? v) && (v <? 2 ^ 63) then v else MinInt64
  | _ => MinInt64
  end.

(* ---------- decimal digits of a natural number (structural, no fuel) ------- *)

Fixpoint dbl (ds : list Z) (carry : Z) : list Z :=      (* little endian 2*ds + carry *)
  match ds with
  | [] => if carry =? 0 then [] else [carry]
  | d :: tl => let v := 2 * d + carry in (v mod 10) :: dbl tl (v / 10)
  end.
Fixpoint pos_dec_le (p : positive) : list Z :=
  match p with
  | xH => [1]
  | xO q => dbl (pos_dec_le q) 0
  | xI q => dbl (pos_dec_le q) 1
  end.
(* characters '0'..'9', most significant first; "0" for 0 *)
Definition dec_digits (n : Z) : list Z :=
  match n with
  | Zpos p => map (fun d => 48 + d) (rev (pos_dec_le p))
  | _ => [48]
  end.

Definition zeros (n : Z) : list Z := repeat 48 (Z.to_nat n).
Definition pad_left (n : Z) (ds : list Z) : list Z := zeros (n - Z.of_nat (length ds)) ++ ds.

(* ---------- exact decimal roundings of num/den (num >= 0, den > 0) ---------- *)

Definition le_pow10 (x num den : Z) : bool :=
  if 0 <=? x then 10 ^ x * den <=? num else den <=? num * 10 ^ (- x).

(* the x with 10^x <= num/den < 10^(x+1), for num > 0 *)
Definition dec_exp (num den : Z) : Z :=
  let c := if den <=? num then Z.of_nat (length (dec_digits (num / den))) - 1
           else - Z.of_nat (length (dec_digits (den / num))) in
  if negb (le_pow10 c num den) then c - 1
  else if le_pow10 (c + 1) num den then c + 1 else c.

(* num/den (> 0) rounded half-even to nd >= 1 significant digits: (q, x) with 10^(nd-1) <= q < 10^nd,
   rounded value = q * 10^(x - nd + 1); x is the decimal exponent of the leading digit *)
Definition sig_round (num den nd : Z) : Z * Z :=
  let x := dec_exp num den in
  let s := x - nd + 1 in
  let q := if 0 <=? s then rne_div num (den * 10 ^ s) else rne_div (num * 10 ^ (- s)) den in
  if q =? 10 ^ nd then (10 ^ (nd - 1), x + 1) else (q, x).

Definition ratio (m e : Z) : Z * Z := if 0 <=? e then (m * 2 ^ e, 1) else (m, 2 ^ (- e)).

(* ---------- strconv/fmt layouts -------------------------------------------- *)

Definition s_NaN : list Z := [78; 97; 78].
Definition s_Inf : list Z := [73; 110; 102].
Definition sign_of (neg plus : bool) : list Z := if neg then [45] else if plus then [43] else [].

Definition nonfinite (plus : bool) (x : fnum) : list Z :=
  match x with
  | FNaN => (if plus then [43] else []) ++ s_NaN
  | FInf neg => (if neg then [45] else [43]) ++ s_Inf       (* fmt keeps the + of +Inf *)
  | _ => []
  end.

(* %.Nf *)
Definition fixed_body (m e prec : Z) : list Z :=
  let '(num, den) := ratio m e in
  let q := rne_div (num * 10 ^ prec) den in
  let ds := pad_left (prec + 1) (dec_digits q) in
  let n := (length ds - Z.to_nat prec)%nat in
  if prec =? 0 then ds else firstn n ds ++ [46] ++ skipn n ds.

Definition render_f (plus : bool) (prec : Z) (x : fnum) : list Z :=
  match x with
  | FFin neg m e => sign_of neg plus ++ fixed_body m e prec
  | _ => nonfinite plus x
  end.

(* exponent part: e/E, sign, at least two digits *)
Definition exp_part (echar x : Z) : list Z :=
  [echar] ++ (if x <? 0 then [45] else [43]) ++ pad_left 2 (dec_digits (Z.abs x)).

Definition mantissa_part (ds : list Z) : list Z :=
  match ds with
  | [] => [48]
  | [d] => [d]
  | d :: rest => d :: 46 :: rest
  end.

(* %.NE *)
Definition sci_body (m e prec : Z) : list Z :=
  if m =? 0 then mantissa_part (zeros (prec + 1)) ++ exp_part 69 0
  else
    let '(num, den) := ratio m e in
    let '(q, x) := sig_round num den (prec + 1) in
    mantissa_part (dec_digits q) ++ exp_part 69 x.

Definition render_e (plus : bool) (prec : Z) (x : fnum) : list Z :=
  match x with
  | FFin neg m e => sign_of neg plus ++ sci_body m e prec
  | _ => nonfinite plus x
  end.

(* %.6g : 6 significant digits, trailing zeros trimmed, %e layout iff exp < -4 or exp >= 6 *)
Fixpoint trim_zeros_rev (ds : list Z) : list Z :=
  match ds with
  | 48 :: tl => trim_zeros_rev tl
  | _ => ds
  end.
Definition trim_trailing (ds : list Z) : list Z := rev (trim_zeros_rev (rev ds)).

Definition gen_body (m e : Z) : list Z :=
  if m =? 0 then [48]
  else
    let '(num, den) := ratio m e in
    let '(q, x) := sig_round num den 6 in
    let ds := trim_trailing (dec_digits q) in
    let nd := Z.of_nat (length ds) in
    let dp := x + 1 in
    if (x <? -4) || (6 <=? x) then mantissa_part ds ++ exp_part 101 x
    else if 0 <? dp then
      (* integer part: digits [0,dp) padded with zeros; fraction: the remaining digits *)
      let ip := firstn (Z.to_nat dp) ds ++ zeros (dp - nd) in
      let fp := skipn (Z.to_nat dp) ds in
      match fp with [] => ip | _ => ip ++ [46] ++ fp end
    else [48; 46] ++ zeros (- dp) ++ ds.

Definition render_g6 (plus : bool) (x : fnum) : list Z :=
  match x with
  | FFin neg m e => sign_of neg plus ++ gen_body m e
  | _ => nonfinite plus x
  end.
