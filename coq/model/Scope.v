(* Scope.v — executable model of pkg/runtime/scope.go (type Scope) and of the symbol-table
   wrappers of pkg/runtime/vm.go (FindElement, FindElementWithModule, DeclareElement,
   DeclareConstElement, DeclareExternalElement, SetElement, BeginScope, EndScope).
   Function by function, same loops (index running from localCount-1 down to 0), same branch
   order.  Go slices are lists; an index or slice bound out of range, or a method call through
   a nil *Scope, is the distinct result [Crash].  The Go map externalRefs is an association list.

   The model follows the REPAIRED code (fixes/C06-4.patch): EndScope deletes the externalRefs
   entry of every symbol it pops.  The pinned code did not ([clr = false] below); the stale
   entry then mis-attributes a later symbol at the same index to a foreign module
   (findings/C06.md, C06_stale_external_on_pinned_code in props/C06.v).  No proofs here. *)
From Coq Require Import List ZArith Bool Uint63.
Import ListNotations.
From Zn.spec Require Import ScopeSpec.
Open Scope Z_scope.

Inductive res (A : Type) : Type :=
| Ok (a : A)
| Crash.                                   (* a Go panic *)
Arguments Ok {A} a.
Arguments Crash {A}.

(* type LocalSymbol struct { name string; depth int; isConst bool } *)
Record sym : Type := mkSym { s_name : Z; s_depth : Z; s_const : bool }.

(* type Scope struct { locals; localCount; currentDepth; values; externalRefs } *)
Record scope : Type := mkScope {
  locals : list sym;                        (* may be longer than localCount: the tail is garbage that append reuses *)
  localCount : nat;
  currentDepth : Z;
  values : list Z;                          (* element ids; 0 = the nil element *)
  externalRefs : list (nat * Z)             (* symbolID -> moduleID *)
}.

(* ---- the Go map ---- *)
Fixpoint refs_get (k : nat) (m : list (nat * Z)) : option Z :=
  match m with
  | [] => None
  | (k', v) :: r => if Nat.eqb k' k then Some v else refs_get k r
  end.
Definition refs_del (k : nat) (m : list (nat * Z)) : list (nat * Z) :=
  filter (fun kv => negb (Nat.eqb (fst kv) k)) m.
Definition refs_put (k : nat) (v : Z) (m : list (nat * Z)) : list (nat * Z) := (k, v) :: refs_del k m.

(* func NewScope() *)
Definition new_scope : scope := mkScope [] 0 0 [] [].

(* func (sp *Scope) BeginScope() { sp.currentDepth++ } *)
Definition begin_scope (sp : scope) : scope :=
  mkScope (locals sp) (localCount sp) (currentDepth sp + 1) (values sp) (externalRefs sp).

(* for sp.localCount > 0 && sp.locals[sp.localCount-1].depth > sp.currentDepth {
       sp.localCount--
       delete(sp.externalRefs, sp.localCount)        // repaired code only (clr = true)
   } *)
Fixpoint pop_deeper (clr : bool) (ls : list sym) (c : nat) (d : Z) (refs : list (nat * Z))
  : res (nat * list (nat * Z)) :=
  match c with
  | O => Ok (O, refs)
  | S i =>
    match nth_error ls i with
    | None => Crash
    | Some s =>
      if s_depth s >? d
      then pop_deeper clr ls i d (if clr then refs_del i refs else refs)
      else Ok (S i, refs)
    end
  end.

(* func (sp *Scope) EndScope() *)
Definition end_scope_gen (clr : bool) (sp : scope) : res scope :=
  let d := currentDepth sp - 1 in
  match pop_deeper clr (locals sp) (localCount sp) d (externalRefs sp) with
  | Crash => Crash
  | Ok (c, refs) => Ok (mkScope (locals sp) c d (values sp) refs)
  end.
Definition end_scope : scope -> res scope := end_scope_gen true.
Definition end_scope_pinned : scope -> res scope := end_scope_gen false.

(* func (sp *Scope) getSymbolID(name string) int — None is -1 *)
Fixpoint get_symbol_id_from (ls : list sym) (c : nat) (n : Z) : res (option nat) :=
  match c with
  | O => Ok None
  | S i =>
    match nth_error ls i with
    | None => Crash
    | Some s => if s_name s =? n then Ok (Some i) else get_symbol_id_from ls i n
    end
  end.
Definition get_symbol_id (sp : scope) (n : Z) : res (option nat) :=
  get_symbol_id_from (locals sp) (localCount sp) n.

(* func (sp *Scope) GetValue(name string) Element — 0 is nil *)
Definition get_value (sp : scope) (n : Z) : res Z :=
  match get_symbol_id sp n with
  | Crash => Crash
  | Ok None => Ok 0
  | Ok (Some i) =>
    match nth_error (values sp) i with     (* symbolID >= 0 && symbolID < len(sp.values) *)
    | Some v => Ok v
    | None => Ok 0
    end
  end.

(* func (sp *Scope) GetValueWithModuleID(name string) (Element, int) *)
Definition get_value_with_module (sp : scope) (n : Z) : res (Z * Z) :=
  match get_symbol_id sp n with
  | Crash => Crash
  | Ok None => Ok (0, -1)
  | Ok (Some i) =>
    match nth_error (values sp) i with
    | Some v => match refs_get i (externalRefs sp) with
                | Some m => Ok (v, m)
                | None => Ok (v, -1)
                end
    | None => Ok (0, -1)
    end
  end.

(* replace element i of a slice; None = index out of range *)
Fixpoint list_set {A : Type} (l : list A) (i : nat) (x : A) : option (list A) :=
  match l, i with
  | [], _ => None
  | _ :: r, O => Some (x :: r)
  | y :: r, S j => match list_set r j x with Some r' => Some (y :: r') | None => None end
  end.

(* func (sp *Scope) SetValue(name string, value Element) error *)
Fixpoint set_value_from (ls : list sym) (c : nat) (n : Z) : res (option (nat * bool)) :=
  match c with
  | O => Ok None
  | S i =>
    match nth_error ls i with
    | None => Crash
    | Some s => if s_name s =? n then Ok (Some (i, s_const s)) else set_value_from ls i n
    end
  end.
Definition set_value (sp : scope) (n v : Z) : res (scope * Z) :=
  match set_value_from (locals sp) (localCount sp) n with
  | Crash => Crash
  | Ok None => Ok (sp, E_NOT_DEFINED)
  | Ok (Some (i, true)) => Ok (sp, E_ASSIGN_CONST)
  | Ok (Some (i, false)) =>
    match list_set (values sp) i v with
    | None => Crash
    | Some vs => Ok (mkScope (locals sp) (localCount sp) (currentDepth sp) vs (externalRefs sp), E_OK)
    end
  end.

(* the redeclaration scan of declareValue: true = NameRedeclared *)
Fixpoint redeclared_from (ls : list sym) (c : nat) (d : Z) (n : Z) : res bool :=
  match c with
  | O => Ok false
  | S i =>
    match nth_error ls i with
    | None => Crash
    | Some s =>
      if s_depth s <? d then Ok false                                 (* break *)
      else if s_name s =? n
           then (if s_depth s =? d then Ok true else redeclared_from ls i d n)
           else redeclared_from ls i d n
    end
  end.

(* s[:n] *)
Definition slice_to {A : Type} (l : list A) (n : nat) : option (list A) :=
  if Nat.leb n (length l) then Some (firstn n l) else None.

(* func (sp *Scope) declareValue(name string, value Element, isConst bool) error *)
Definition declare_value (sp : scope) (n v : Z) (isConst : bool) : res (scope * Z) :=
  match redeclared_from (locals sp) (localCount sp) (currentDepth sp) n with
  | Crash => Crash
  | Ok true => Ok (sp, E_REDECLARED)
  | Ok false =>
    match slice_to (locals sp) (localCount sp), slice_to (values sp) (localCount sp) with
    | Some ls, Some vs =>
      Ok (mkScope (ls ++ [mkSym n (currentDepth sp) isConst]) (S (localCount sp)) (currentDepth sp)
                  (vs ++ [v]) (externalRefs sp), E_OK)
    | _, _ => Crash
    end
  end.

(* func (sp *Scope) DeclareExternalValue(name string, value Element, moduleID int) error *)
Definition declare_external_value (sp : scope) (n v m : Z) : res (scope * Z) :=
  match declare_value sp n v true with
  | Crash => Crash
  | Ok (sp', c) =>
    if c =? E_OK
    then Ok (mkScope (locals sp') (localCount sp') (currentDepth sp') (values sp')
                     (refs_put (localCount sp' - 1) m (externalRefs sp')), E_OK)
    else Ok (sp', c)
  end.

(* ---- one step on a bare Scope: new scope and the answer [code; value; module] ---- *)
Definition lift_decl (r : res (scope * Z)) : res (scope * list Z) :=
  match r with Crash => Crash | Ok (sp', c) => Ok (sp', [c; 0; -1]) end.

Definition scope_step_gen (clr : bool) (sp : scope) (o : op) : res (scope * list Z) :=
  match o with
  | OBegin => Ok (begin_scope sp, [0; 0; -1])
  | OEnd => match end_scope_gen clr sp with Crash => Crash | Ok sp' => Ok (sp', [0; 0; -1]) end
  | ODeclare n v => lift_decl (declare_value sp n v false)
  | ODeclareConst n v => lift_decl (declare_value sp n v true)
  | ODeclareExt n v m => lift_decl (declare_external_value sp n v m)
  | OAssign n v => lift_decl (set_value sp n v)
  | OLookup n => match get_value sp n with Crash => Crash | Ok v => Ok (sp, [0; v; -1]) end
  | OLookupM n => match get_value_with_module sp n with Crash => Crash | Ok (v, m) => Ok (sp, [0; v; m]) end
  end.
Definition scope_step : scope -> op -> res (scope * list Z) := scope_step_gen true.

(* ---- pkg/runtime/vm.go ----
   A VM with the call frame of one module on top: [vm_scope] is vm.valueStack[vm.csModuleID]
   (None: getCurrentScope() returns nil), [cs_module] is vm.csModuleID.  The globals map is
   ScopeSpec.predef (the seven predefined names). *)
Record vm : Type := mkVM { vm_scope : option scope; cs_module : Z }.

Definition with_scope (v : vm) (sp : scope) : vm := mkVM (Some sp) (cs_module v).

(* func (vm *VM) BeginScope() / EndScope(): nothing happens without a scope *)
Definition vm_begin_scope (v : vm) : res vm :=
  match vm_scope v with None => Ok v | Some sp => Ok (with_scope v (begin_scope sp)) end.
Definition vm_end_scope_gen (clr : bool) (v : vm) : res vm :=
  match vm_scope v with
  | None => Ok v
  | Some sp => match end_scope_gen clr sp with Crash => Crash | Ok sp' => Ok (with_scope v sp') end
  end.

(* func (vm *VM) FindElement(name *IDName) (Element, error) *)
Definition vm_find_element (v : vm) (n : Z) : res (list Z) :=
  match predef n with
  | Some g => Ok [E_OK; g; -1]
  | None =>
    match vm_scope v with
    | None => Crash                                   (* nil.GetValue(...) *)
    | Some sp =>
      match get_value sp n with
      | Crash => Crash
      | Ok e => if e =? 0 then Ok [E_NOT_DEFINED; 0; -1] else Ok [E_OK; e; -1]
      end
    end
  end.

(* func (vm *VM) FindElementWithModule(name *IDName) (Element, *Module, error) — the module by its id *)
Definition vm_find_element_with_module (v : vm) (n : Z) : res (list Z) :=
  match predef n with
  | Some g => Ok [E_OK; g; NATIVE_MODULE]
  | None =>
    match vm_scope v with
    | None => Crash
    | Some sp =>
      match get_value_with_module sp n with
      | Crash => Crash
      | Ok (e, m) =>
        if e =? 0 then Ok [E_NOT_DEFINED; 0; -1]
        else Ok [E_OK; e; if 0 <=? m then m else cs_module v]
      end
    end
  end.

(* DeclareElement / DeclareConstElement / DeclareExternalElement: scope == nil -> NameNotDefined,
   name in globals -> NameRedeclared, else the Scope method *)
Definition vm_declare (v : vm) (n : Z) (f : scope -> res (scope * Z)) : res (vm * list Z) :=
  match vm_scope v with
  | None => Ok (v, [E_NOT_DEFINED; 0; -1])
  | Some sp =>
    match predef n with
    | Some _ => Ok (v, [E_REDECLARED; 0; -1])
    | None => match f sp with
              | Crash => Crash
              | Ok (sp', c) => Ok (with_scope v sp', [c; 0; -1])
              end
    end
  end.

(* func (vm *VM) SetElement(name *IDName, elem Element) error — no globals test *)
Definition vm_set_element (v : vm) (n x : Z) : res (vm * list Z) :=
  match vm_scope v with
  | None => Ok (v, [E_NOT_DEFINED; 0; -1])
  | Some sp => match set_value sp n x with
               | Crash => Crash
               | Ok (sp', c) => Ok (with_scope v sp', [c; 0; -1])
               end
  end.

Definition vm_step_gen (clr : bool) (v : vm) (o : op) : res (vm * list Z) :=
  match o with
  | OBegin => match vm_begin_scope v with Crash => Crash | Ok v' => Ok (v', [0; 0; -1]) end
  | OEnd => match vm_end_scope_gen clr v with Crash => Crash | Ok v' => Ok (v', [0; 0; -1]) end
  | ODeclare n x => vm_declare v n (fun sp => declare_value sp n x false)
  | ODeclareConst n x => vm_declare v n (fun sp => declare_value sp n x true)
  | ODeclareExt n x m => vm_declare v n (fun sp => declare_external_value sp n x m)
  | OAssign n x => vm_set_element v n x
  | OLookup n => match vm_find_element v n with Crash => Crash | Ok a => Ok (v, a) end
  | OLookupM n => match vm_find_element_with_module v n with Crash => Crash | Ok a => Ok (v, a) end
  end.
Definition vm_step : vm -> op -> res (vm * list Z) := vm_step_gen true.

(* InitVM + AllocateModule + PushCallFrame(NewScriptCallFrame(module)): the frame's module gets a fresh Scope *)
Definition init_vm (self : Z) : vm := mkVM (Some new_scope) self.

Fixpoint vm_run_gen (clr : bool) (v : vm) (ops : list op) : res (vm * list (list Z)) :=
  match ops with
  | [] => Ok (v, [])
  | o :: r =>
    match vm_step_gen clr v o with
    | Crash => Crash
    | Ok (v1, a) => match vm_run_gen clr v1 r with
                    | Crash => Crash
                    | Ok (v2, l) => Ok (v2, a :: l)
                    end
    end
  end.
Definition vm_run : vm -> list op -> res (vm * list (list Z)) := vm_run_gen true.

(* ---- what the differential run compares (tools/props/c06.py) ----
   per step [code; value; module; depth; live symbols]; a crash is the row [-1] and ends the trace *)
Definition scope_obs (sp : scope) : list Z := [currentDepth sp; Z.of_nat (localCount sp)].
Definition vm_obs (v : vm) : list Z :=
  match vm_scope v with Some sp => scope_obs sp | None => [-1000; -1000] end.

Fixpoint vm_trace_gen (clr : bool) (v : vm) (ops : list op) : list (list Z) :=
  match ops with
  | [] => []
  | o :: r => match vm_step_gen clr v o with
              | Crash => [[-1]]
              | Ok (v1, a) => (a ++ vm_obs v1) :: vm_trace_gen clr v1 r
              end
  end.
Definition vm_trace (ops : list op) : list (list Z) := vm_trace_gen true (init_vm 0) ops.
Definition vm_trace_pinned (ops : list op) : list (list Z) := vm_trace_gen false (init_vm 0) ops.

Fixpoint scope_trace_gen (clr : bool) (sp : scope) (ops : list op) : list (list Z) :=
  match ops with
  | [] => []
  | o :: r => match scope_step_gen clr sp o with
              | Crash => [[-1]]
              | Ok (sp1, a) => (a ++ scope_obs sp1) :: scope_trace_gen clr sp1 r
              end
  end.
Definition scope_trace (ops : list op) : list (list Z) := scope_trace_gen true new_scope ops.

(* decoding of the driver's op encoding [opcode; name; value; module] *)
Definition op_of (q : list Z) : op :=
  match q with
  | [0; _; _; _] => OBegin
  | [1; _; _; _] => OEnd
  | [2; n; v; _] => ODeclare n v
  | [3; n; v; _] => ODeclareConst n v
  | [4; n; v; m] => ODeclareExt n v m
  | [5; n; v; _] => OAssign n v
  | [6; n; _; _] => OLookup n
  | [7; n; _; _] => OLookupM n
  | _ => OLookup (-1)
  end.
Definition run_vm_case (qs : list (list Z)) : list (list Z) := vm_trace (map op_of qs).
Definition run_scope_case (qs : list (list Z)) : list (list Z) := scope_trace (map op_of qs).

(* ---- compact transport for the per-run correspondence check ----
   One primitive 63-bit integer per operation and per answer row (primitive literals are read natively; Z literals
   go through the number-notation interpreter and cost milliseconds per case).  The comparison is done here, inside
   Coq: a case is (packed operations, packed rows observed on the implementation); the result is [1] when the
   model's trace differs from the observed one, else [0].  Used only by tools/props/c06.py, in no theorem. *)
Definition unpack_op (z : Z) : op :=
  op_of [z mod 8; (z / 8) mod 16; (z / 128) mod 4096; (z / 524288) mod 8].

Definition pack_row (r : list Z) : Z :=
  match r with
  | [c; v; m; d; n] => ((((c * 4096 + (v + 16)) * 8 + (m + 2)) * 256 + (d + 64)) * 256 + n)
  | [c; v; m] => ((((c * 4096 + (v + 16)) * 8 + (m + 2)) * 256 + 64) * 256)
  | _ => -1
  end.

Fixpoint zlist_eqb (a b : list Z) : bool :=
  match a, b with
  | [], [] => true
  | x :: a', y :: b' => (x =? y) && zlist_eqb a' b'
  | _, _ => false
  end.

Definition vm_case_differs (c : list Uint63.int * list Uint63.int) : list Z :=
  if zlist_eqb (map pack_row (vm_trace (map (fun i => unpack_op (Uint63.to_Z i)) (fst c)))) (map Uint63.to_Z (snd c))
  then [0] else [1].
Definition scope_case_differs (c : list Uint63.int * list Uint63.int) : list Z :=
  if zlist_eqb (map (fun r => pack_row (firstn 3 r)) (scope_trace (map (fun i => unpack_op (Uint63.to_Z i)) (fst c))))
               (map Uint63.to_Z (snd c))
  then [0] else [1].
