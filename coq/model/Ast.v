(* C03/C05 - the syntax tree of pkg/syntax/ast.go as Gallina types, with [option] exactly where the Go parser can
   leave a nil pointer / nil interface in a node it returns:
     BranchStmt.IfTrueExpr, IfTrueBlock, IfFalseBlock   (fields of a zero-value struct filled in by a state machine)
     MemberExpr.Root, MemberID, MemberIndex             (union selected by RootType / MemberType)
     FuncCallExpr.YieldResult, MemberMethodExpr.YieldResult, Program.ExecBlock
   Every other field is written from the result of a production that either returns a node or raises.
   Literals are code-point lists after string([]rune) (invalid runes replaced by U+FFFD).
   Definitions only: the types, the [complete] predicate (boolean) and the flat encoding used by the
   correspondence check. *)
From Coq Require Import List ZArith Bool.
Import ListNotations.
Open Scope Z_scope.

Definition lit := list Z.

Inductive expr :=
| EId (l : lit)
| EStr (l : lit)
| EArray (items : list expr)
| EHashMap (kv : list (expr * expr))
| EAssign (target : expr) (v : expr)
| ENew (cls : lit) (params : list expr)
| ECall (c : call)
| EMember (root : option expr) (rootType memberType : Z) (mid : option lit) (midx : option expr)
| EMethod (root : expr) (chain : list call) (yield : option lit)
| ELogic (ty : Z) (l r : expr)
| EArith (ty : Z) (l r : expr)
with call :=
| Call (name : lit) (params : list expr) (yield : option lit).

Definition vdpair : Type := (Z * list lit * expr)%type.

Inductive stmt :=
| SExpr (e : expr)
| SVarDecl (pairs : list vdpair)
| SEmpty
| SBranch (ifE : option expr) (ifB : option (list stmt)) (elseB : option (list stmt))
          (otherE : list expr) (otherB : list (list stmt)) (hasElse : bool)
| SWhile (e : expr) (b : list stmt)
| SIterate (e : expr) (ids : list lit) (b : list stmt)
| SBreak
| SContinue
| SFuncDecl (name : lit) (dty : Z) (x : execblock)
| SReturn (e : expr)
| SClass (name : lit) (props : list (lit * expr)) (methods getters : list (lit * Z * execblock))
| SThrow (cls : lit) (params : list expr)
with execblock :=
| XBlock (inputs : list lit) (stmts : list stmt) (catches : list (lit * list stmt)).

Definition import : Type := (Z * lit * list lit)%type.
Record program := mkProgram { p_imports : list import; p_exec : option execblock }.

(* constants of ast.go *)
Definition RootTypeExpr : Z := 1.
Definition RootTypeProp : Z := 2.
Definition MemberID : Z := 1.
Definition MemberIndex : Z := 2.

(* ------------------------------------------------------------------ completeness *)
(* every construct has all parts the grammar requires: the optional fields are present where the grammar has a part *)

Fixpoint complete_expr (e : expr) : bool :=
  match e with
  | EId _ | EStr _ => true
  | EArray items => forallb complete_expr items
  | EHashMap kv => forallb (fun p => complete_expr (fst p) && complete_expr (snd p)) kv
  | EAssign t v => complete_expr t && complete_expr v
  | ENew _ ps => forallb complete_expr ps
  | ECall c => complete_call c
  | EMember root rt mt mid midx =>
      (if rt =? RootTypeExpr then match root with Some r => complete_expr r | None => false end
       else if rt =? RootTypeProp then match root with Some r => complete_expr r | None => true end
       else false)
      && (if mt =? MemberID then match mid with Some _ => true | None => false end
          else if mt =? MemberIndex then match midx with Some i => complete_expr i | None => false end
          else false)
  | EMethod root chain _ =>
      complete_expr root && negb (match chain with [] => true | _ => false end) && forallb complete_call chain
  | ELogic _ l r | EArith _ l r => complete_expr l && complete_expr r
  end
with complete_call (c : call) : bool :=
  match c with Call _ ps _ => forallb complete_expr ps end.

Fixpoint complete_stmt (s : stmt) : bool :=
  match s with
  | SExpr e => complete_expr e
  | SVarDecl pairs => forallb (fun p : vdpair => complete_expr (snd p)) pairs
  | SEmpty | SBreak | SContinue => true
  | SBranch ifE ifB elseB otherE otherB hasElse =>
      match ifE with Some e => complete_expr e | None => false end
      && match ifB with Some b => forallb complete_stmt b | None => false end
      && match elseB with Some b => forallb complete_stmt b | None => negb hasElse end
      && forallb complete_expr otherE
      && forallb (forallb complete_stmt) otherB
      && (Nat.eqb (length otherE) (length otherB))
  | SWhile e b => complete_expr e && forallb complete_stmt b
  | SIterate e _ b => complete_expr e && forallb complete_stmt b
  | SFuncDecl _ _ x => complete_exec x
  | SReturn e => complete_expr e
  | SClass _ props ms gs =>
      forallb (fun p : lit * expr => complete_expr (snd p)) props
      && forallb (fun m : lit * Z * execblock => complete_exec (snd m)) ms
      && forallb (fun m : lit * Z * execblock => complete_exec (snd m)) gs
  | SThrow _ ps => forallb complete_expr ps
  end
with complete_exec (x : execblock) : bool :=
  match x with
  | XBlock _ ss cs => forallb complete_stmt ss && forallb (fun c : lit * list stmt => forallb complete_stmt (snd c)) cs
  end.

Definition complete (p : program) : bool :=
  match p_exec p with Some x => complete_exec x | None => true end.

(* ------------------------------------------------------------------ flat encoding (pre-order, lists length-prefixed) *)
Definition enc_lit (l : lit) : list Z := Z.of_nat (length l) :: l.
Definition enc_opt {A} (f : A -> list Z) (o : option A) : list Z := match o with None => [0] | Some a => 1 :: f a end.
Definition enc_list {A} (f : A -> list Z) (l : list A) : list Z := Z.of_nat (length l) :: flat_map f l.

Fixpoint enc_expr (e : expr) : list Z :=
  match e with
  | EId l => 1 :: enc_lit l
  | EStr l => 2 :: enc_lit l
  | EArray items => 3 :: Z.of_nat (length items) :: flat_map enc_expr items
  | EHashMap kv => 4 :: Z.of_nat (length kv) :: flat_map (fun p => enc_expr (fst p) ++ enc_expr (snd p)) kv
  | EAssign t v => 5 :: enc_expr t ++ enc_expr v
  | ENew c ps => 6 :: enc_lit c ++ Z.of_nat (length ps) :: flat_map enc_expr ps
  | ECall c => enc_call c
  | EMember root rt mt mid midx =>
      8 :: match root with None => [0] | Some r => 1 :: enc_expr r end ++ [rt; mt] ++ enc_opt enc_lit mid
        ++ match midx with None => [0] | Some r => 1 :: enc_expr r end
  | EMethod root chain y => 9 :: enc_expr root ++ Z.of_nat (length chain) :: flat_map enc_call chain ++ enc_opt enc_lit y
  | ELogic ty l r => 10 :: ty :: enc_expr l ++ enc_expr r
  | EArith ty l r => 11 :: ty :: enc_expr l ++ enc_expr r
  end
with enc_call (c : call) : list Z :=
  match c with
  | Call n ps y => 7 :: enc_lit n ++ Z.of_nat (length ps) :: flat_map enc_expr ps ++ enc_opt enc_lit y
  end.

Definition enc_pair (p : vdpair) : list Z :=
  let '(ty, ids, e) := p in ty :: enc_list enc_lit ids ++ enc_expr e.

Fixpoint enc_stmt (s : stmt) : list Z :=
  match s with
  | SExpr e => enc_expr e
  | SVarDecl pairs => 20 :: enc_list enc_pair pairs
  | SEmpty => [21]
  | SBranch ifE ifB elseB otherE otherB hasElse =>
      22 :: enc_opt enc_expr ifE
         ++ match ifB with None => [0] | Some b => 1 :: Z.of_nat (length b) :: flat_map enc_stmt b end
         ++ match elseB with None => [0] | Some b => 1 :: Z.of_nat (length b) :: flat_map enc_stmt b end
         ++ enc_list enc_expr otherE
         ++ Z.of_nat (length otherB) :: flat_map (fun b => Z.of_nat (length b) :: flat_map enc_stmt b) otherB
         ++ [if hasElse then 1 else 0]
  | SWhile e b => 23 :: enc_expr e ++ Z.of_nat (length b) :: flat_map enc_stmt b
  | SIterate e ids b => 24 :: enc_expr e ++ enc_list enc_lit ids ++ Z.of_nat (length b) :: flat_map enc_stmt b
  | SBreak => [25]
  | SContinue => [26]
  | SFuncDecl n dty x => 27 :: enc_lit n ++ dty :: enc_exec x
  | SReturn e => 28 :: enc_expr e
  | SClass n props ms gs =>
      29 :: enc_lit n ++ enc_list (fun p : lit * expr => enc_lit (fst p) ++ enc_expr (snd p)) props
         ++ Z.of_nat (length ms) :: flat_map (fun m : lit * Z * execblock => 27 :: enc_lit (fst (fst m)) ++ snd (fst m) :: enc_exec (snd m)) ms
         ++ Z.of_nat (length gs) :: flat_map (fun m : lit * Z * execblock => 27 :: enc_lit (fst (fst m)) ++ snd (fst m) :: enc_exec (snd m)) gs
  | SThrow c ps => 30 :: enc_lit c ++ enc_list enc_expr ps
  end
with enc_exec (x : execblock) : list Z :=
  match x with
  | XBlock ins ss cs =>
      40 :: enc_list enc_lit ins ++ Z.of_nat (length ss) :: flat_map enc_stmt ss
         ++ Z.of_nat (length cs) :: flat_map (fun c : lit * list stmt => enc_lit (fst c) ++ Z.of_nat (length (snd c)) :: flat_map enc_stmt (snd c)) cs
  end.

Definition enc_import (i : import) : list Z :=
  let '(ty, name, items) := i in 41 :: ty :: enc_lit name ++ enc_list enc_lit items.

Definition enc_program (p : program) : list Z :=
  42 :: enc_list enc_import (p_imports p) ++ enc_opt enc_exec (p_exec p).
