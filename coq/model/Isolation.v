(* Isolation.v — process-level model for property C16: what successive and concurrent executions share.
   (1) The predefined values (pkg/exec/globals.go) as a store that executions start from; an execution is modelled by
       the operations it performs on that store and on its own per-VM state (Interpreter.Execute builds a fresh VM).
   (2) The shared Interpreter object of the HTTP handlers (pkg/server/pg_handler.go, http_handler.go): LoadScript /
       LoadFile followed by Execute, as interleavable steps of request handlers.
   Both the pinned behaviour (one store / one finder field shared by everybody) and the repaired one are modelled, so that
   the refutations and the theorems are about the same definitions.  Executable definitions only. *)
From Coq Require Import List ZArith Bool.
Import ListNotations.
Open Scope Z_scope.

(* ---------- (1) predefined values ---------- *)
Inductive exc_ctor := CtorBuiltin | CtorUser (id : Z).     (* constructor of the predefined type 异常 *)

Record globals := { g_number : Z;            (* the value held by the predefined 数值 *)
                    g_exc : exc_ctor }.
Definition g0 : globals := {| g_number := 0; g_exc := CtorBuiltin |}.

(* operations of a program on the predefined values and on its own state *)
Inductive op :=
| ONumSelfAdd (d : Z)        (* 以数值（自增：d） *)
| ONumRead                   (* 输出数值 / （显示：数值） *)
| OExcRedefine (id : Z)      (* 如何新建异常？ … *)
| OExcThrowCatch             (* 抛出异常：“m”！ with a handler that reports what it received *)
| ODeclare (x : Z)           (* 令x = … / 如何x？ / 定义x / 导入 … : a name of this execution *)
| OUse (x : Z)               (* use of a name: defined in this execution or not *)
| OFail.                     (* a call that ends with an uncaught error: frames stay on this VM's stack *)

Record local := { l_names : list Z; l_frames : nat }.
Definition l0 : local := {| l_names := []; l_frames := 0 |}.

(* one observable per operation *)
Definition step (g : globals) (l : local) (o : op) : globals * local * Z :=
  match o with
  | ONumSelfAdd d => ({| g_number := g_number g + d; g_exc := g_exc g |}, l, g_number g + d)
  | ONumRead => (g, l, g_number g)
  | OExcRedefine id => ({| g_number := g_number g; g_exc := CtorUser id |}, l, 0)
  | OExcThrowCatch => (g, l, match g_exc g with CtorBuiltin => 1 | CtorUser id => 2 + id end)
  | ODeclare x => (g, {| l_names := x :: l_names l; l_frames := l_frames l |}, 0)
  | OUse x => (g, l, if existsb (Z.eqb x) (l_names l) then 1 else 42)
  | OFail => (g, {| l_names := l_names l; l_frames := S (l_frames l) |}, 90)
  end.

Fixpoint run_ops (g : globals) (l : local) (ops : list op) : globals * list Z :=
  match ops with
  | [] => (g, [])
  | o :: tl => let '(g1, l1, obs) := step g l o in
               let (g2, rest) := run_ops g1 l1 tl in (g2, obs :: rest)
  end.

(* Interpreter.Execute: a fresh VM (local state) every time; the predefined values it hands to the VM are
   - pinned: the process-wide map GlobalValues (whatever earlier executions left in it)
   - repaired: NewGlobalValues(), built for this execution *)
Definition execute_pinned (g : globals) (prog : list op) : globals * list Z := run_ops g l0 prog.
Definition execute (g : globals) (prog : list op) : globals * list Z := (g, snd (run_ops g0 l0 prog)).

Fixpoint run_sequence (exec : globals -> list op -> globals * list Z) (g : globals) (progs : list (list op)) : list (list Z) :=
  match progs with
  | [] => []
  | p :: tl => let (g1, obs) := exec g p in obs :: run_sequence exec g1 tl
  end.

(* ---------- (2) the shared interpreter ---------- *)
(* handler i serves one request: load its source, then execute what the interpreter it holds is configured with *)
Inductive hstep := HLoad (i : nat) | HExec (i : nat).

Record shared := { sh_finder : option nat;                (* moduleCodeFinder of the interpreter object the handlers share *)
                   sh_held : list (nat * option nat);      (* per handler: the finder of the interpreter it got from Load (repaired) *)
                   sh_ran : list (nat * option nat) }.     (* (handler, source it executed) in order *)
Definition sh0 : shared := {| sh_finder := None; sh_held := []; sh_ran := [] |}.

Fixpoint held (i : nat) (l : list (nat * option nat)) : option nat :=
  match l with
  | (j, f) :: tl => if Nat.eqb i j then f else held i tl
  | [] => None
  end.

(* pinned: LoadScript writes the field of the shared object and returns that object *)
Definition hstep_pinned (s : shared) (h : hstep) : shared :=
  match h with
  | HLoad i => {| sh_finder := Some i; sh_held := sh_held s; sh_ran := sh_ran s |}
  | HExec i => {| sh_finder := sh_finder s; sh_held := sh_held s; sh_ran := sh_ran s ++ [(i, sh_finder s)] |}
  end.

(* repaired: LoadScript returns a configured copy, the shared object is left as it is *)
Definition hstep_fixed (s : shared) (h : hstep) : shared :=
  match h with
  | HLoad i => {| sh_finder := sh_finder s; sh_held := (i, Some i) :: sh_held s; sh_ran := sh_ran s |}
  | HExec i => {| sh_finder := sh_finder s; sh_held := sh_held s; sh_ran := sh_ran s ++ [(i, held i (sh_held s))] |}
  end.

Definition run_schedule (stepf : shared -> hstep -> shared) (sched : list hstep) : shared := fold_left stepf sched sh0.

(* a schedule in which every handler executes only after it has loaded (the handler code is Load(...).Execute(...)) *)
Fixpoint loaded_before (seen : list nat) (sched : list hstep) : bool :=
  match sched with
  | [] => true
  | HLoad i :: tl => loaded_before (i :: seen) tl
  | HExec i :: tl => existsb (Nat.eqb i) seen && loaded_before seen tl
  end.
Definition valid_schedule (sched : list hstep) : bool := loaded_before [] sched.

(* encodings for the correspondence check *)
Definition enc_ran (s : shared) : list (list Z) :=
  map (fun p => [Z.of_nat (fst p); match snd p with Some j => Z.of_nat j | None => -1 end]) (sh_ran s).
