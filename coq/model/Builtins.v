(* C10 — executable model of the index-/arity-arithmetic core of Zn's built-in members.
   Anchors: pkg/value/{value_util,array,hashmap,string,number,iv}.go, pkg/common/{http_request,http_resp}.go,
   stdlib/{file,json}, pkg/exec/globals.go, pkg/runtime/vm.go.
   Go's partial operations (slice/index out of range, unchecked type assertion, method call on a nil Element,
   callStack[-1]) yield the distinct outcome [OCrash]. The model has two variants: [Pinned] transliterates the
   code as found (the crash sites are reachable: see proofs/BuiltinsProofs.v, *_refuted), [Repaired] follows the
   code with fixes/C10-*.patch applied. Definitions only; proofs are in proofs/BuiltinsProofs.v. *)
From Coq Require Import List ZArith Bool String Ascii.
From Flocq Require Import IEEE754.BinarySingleNaN IEEE754.Binary IEEE754.Bits.
From Zn.gen Require Import GenC10Members.
Import ListNotations.
Open Scope Z_scope.

Inductive variant := Pinned | Repaired.

(* ------------------------------------------------------------------ numbers (IEEE-754 binary64, Flocq) *)
Definition num := binary64.
Definition fadd (a b: num) : num := b64_plus mode_NE a b.
Definition fsub (a b: num) : num := b64_minus mode_NE a b.
Definition fmul (a b: num) : num := b64_mult mode_NE a b.
Definition fdiv (a b: num) : num := b64_div mode_NE a b.
Definition fsqrt (a: num) : num := b64_sqrt mode_NE a.
Definition ffloor (a: num) : num := Binary.Bnearbyint 53 1024 (refl_equal _) unop_nan_pl64 mode_DN a.
Definition fceil (a: num) : num := Binary.Bnearbyint 53 1024 (refl_equal _) unop_nan_pl64 mode_UP a.
Definition num_of_Z (z: Z) : num := binary_normalize 53 1024 (refl_equal _) (refl_equal _) mode_NE z 0 false.
Definition fone : num := num_of_Z 1.
Definition fzero : num := num_of_Z 0.
Definition feq0 (a: num) : bool := match b64_compare a fzero with Some Eq => true | _ => false end.   (* a == 0 *)
Definition fle0 (a: num) : bool := match b64_compare a fzero with Some Eq | Some Lt => true | _ => false end. (* a <= 0 *)
Definition fis_finite (a: num) : bool := Binary.is_finite 53 1024 a.

Definition min_int64 : Z := - 2 ^ 63.
Definition max_int64 : Z := 2 ^ 63 - 1.
(* Go's int(f) on amd64 (CVTTSD2SQ): truncation toward zero; NaN, +-Inf and everything outside int64 give the
   "integer indefinite" value 0x8000000000000000 = min_int64. *)
Definition go_int (f: num) : Z :=
  match f with
  | B754_zero _ _ _ => 0
  | B754_finite _ _ _ _ _ _ =>
      let z := Binary.Btrunc 53 1024 f in
      if (min_int64 <=? z) && (z <=? max_int64) then z else min_int64
  | _ => min_int64
  end.
(* two's-complement wrap-around of Go's int arithmetic (iv.index - 1) *)
Definition wrap64 (z: Z) : Z := (z + 2 ^ 63) mod 2 ^ 64 - 2 ^ 63.

(* ------------------------------------------------------------------ values (tree-shaped view) *)
Definition bytes := list Z.

Inductive val :=
| VNil                                   (* a nil Element: only a defect produces it *)
| VNull | VBool (b: bool) | VNum (f: num) | VStr (s: bytes)
| VList (xs: list val) | VDict (kvs: list (bytes * val))
| VObj | VFunc | VClass | VExc (msg: bytes) | VGo (tag: string).

(* type tags used by opaque outcomes and by the encoding *)
Definition ty_null := 0. Definition ty_bool := 1. Definition ty_num := 2. Definition ty_str := 3.
Definition ty_list := 4. Definition ty_dict := 5. Definition ty_obj := 6. Definition ty_func := 7.
Definition ty_class := 8. Definition ty_exc := 9. Definition ty_go := 10. Definition ty_nil := 11.

Definition tag_of (v: val) : Z :=
  match v with
  | VNil => ty_nil | VNull => ty_null | VBool _ => ty_bool | VNum _ => ty_num | VStr _ => ty_str
  | VList _ => ty_list | VDict _ => ty_dict | VObj => ty_obj | VFunc => ty_func | VClass => ty_class
  | VExc _ => ty_exc | VGo _ => ty_go
  end.

Inductive outcome :=
| OVal (v: val)            (* this value *)
| OOpaque (ty: Z)          (* some non-nil value of this type; its content is Go library behaviour (differential only) *)
| OErr (code: Z)           (* Zn runtime error with this code *)
| OExc                     (* Zn exception signal *)
| OValOrExc (ty: Z)        (* library/OS dependent: a non-nil value of this type, or an exception signal *)
| OCrash (why: string).    (* Go runtime panic *)

(* result of applying a member: the outcome and the receiver afterwards (None = content not modelled, type kept) *)
Definition result := (outcome * option val)%type.

(* ------------------------------------------------------------------ nil-freedom (what display/copy/compare need) *)
Fixpoint no_nil (v: val) : bool :=
  match v with
  | VNil => false
  | VList xs => forallb no_nil xs
  | VDict kvs => forallb (fun kv => no_nil (snd kv)) kvs
  | _ => true
  end.

(* ------------------------------------------------------------------ param validators (value_util.go:245-392) *)
Inductive vres := VOk | VErr (code: Z) | VCrash (why: string).

Definition err_index_out_of_range := 40. Definition err_index_key_not_found := 41.
Definition err_name_not_defined := 42. Definition err_property_not_found := 45.
Definition err_method_not_found := 46. Definition err_this_value_not_found := 48.
Definition err_least_params := 50. Definition err_exact_params := 53.
Definition err_unexpected_param_wildcard := 73. Definition err_invalid_expr_type := 80.
Definition err_invalid_param_type := 82. Definition err_div_zero := 90. Definition err_root_lt_zero := 91.

Open Scope string_scope.

Definition ty_ok (t: string) (v: val) : bool :=
  if String.eqb t "number" then match v with VNum _ => true | _ => false end
  else if String.eqb t "string" then match v with VStr _ => true | _ => false end
  else if String.eqb t "array" then match v with VList _ => true | _ => false end
  else if String.eqb t "hashmap" then match v with VDict _ => true | _ => false end
  else if String.eqb t "bool" then match v with VBool _ => true | _ => false end
  else if String.eqb t "object" then match v with VObj => true | _ => false end
  else if String.eqb t "function" then match v with VFunc => true | _ => false end
  else if String.eqb t "govalue" then match v with VGo _ => true | _ => false end
  else true.   (* "any" and every unknown type string *)

Definition golang_prefix := "golang:".
Fixpoint drop_str (n: nat) (s: string) : string :=
  match n, s with O, _ => s | S n', String _ r => drop_str n' r | S _, EmptyString => EmptyString end.

Definition validate_one (vr: variant) (v: val) (t: string) : vres :=
  let valid := ty_ok t v in
  if String.prefix golang_prefix t then
    match v with
    | VGo tag => if String.eqb tag (drop_str 7 t) then (if valid then VOk else VErr err_invalid_param_type)
                 else VErr err_invalid_param_type
    | _ => match vr with
           | Pinned => VCrash "interface conversion: v.(*GoValue)"      (* value_util.go:377, unchecked *)
           | Repaired => VErr err_invalid_param_type
           end
    end
  else if valid then VOk else VErr err_invalid_param_type.

Fixpoint validate_each (vr: variant) (vs: list val) (ts: list string) : vres :=
  match vs, ts with
  | v :: vs', t :: ts' => match validate_one vr v t with VOk => validate_each vr vs' ts' | e => e end
  | _, _ => VOk
  end.

Definition validate_exact (vr: variant) (vs: list val) (ts: list string) : vres :=
  if Nat.eqb (List.length vs) (List.length ts) then validate_each vr vs ts else VErr err_exact_params.

Fixpoint validate_all (vr: variant) (vs: list val) (t: string) : vres :=
  match vs with
  | [] => VOk
  | v :: vs' => match validate_one vr v t with VOk => validate_all vr vs' t | e => e end
  end.

(* the regexp (\w+)(\*|\+|\?)? applied to the type strings that occur in the tables: a trailing wildcard *)
Inductive wildcard := WNone | WStar | WPlus | WQuest.
Fixpoint split_wildcard (s: string) : string * wildcard :=
  match s with
  | EmptyString => (EmptyString, WNone)
  | String c EmptyString =>
      if Ascii.eqb c "*"%char then (EmptyString, WStar)
      else if Ascii.eqb c "+"%char then (EmptyString, WPlus)
      else if Ascii.eqb c "?"%char then (EmptyString, WQuest)
      else (s, WNone)
  | String c r => let (n, w) := split_wildcard r in (String c n, w)
  end.

(* ValidateLeastParams: idx runs over typeStr; [values] is indexed with idx (values[idx]) *)
Fixpoint validate_least_from (vr: variant) (idx: nat) (values: list val) (ts: list string) : vres :=
  match ts with
  | [] => VOk
  | t :: ts' =>
      let (name, w) := split_wildcard t in
      match w with
      | WStar => validate_all vr (skipn idx values) name
      | WPlus => if Nat.ltb (List.length values) idx then VErr err_unexpected_param_wildcard
                 else validate_all vr (skipn idx values) name
      | WQuest =>
          if Nat.eqb idx (List.length values) then VOk
          else if Nat.eqb (S idx) (List.length values) then
            match nth_error values idx with
            | Some v => match validate_one vr v name with VOk => validate_least_from vr (S idx) values ts' | e => e end
            | None => VCrash "index out of range"
            end
          else VErr err_unexpected_param_wildcard
      | WNone =>
          match nth_error values idx with
          | Some v => match validate_one vr v t with VOk => validate_least_from vr (S idx) values ts' | e => e end
          | None => match vr with
                    | Pinned => VCrash "index out of range: values[idx]"     (* value_util.go:312 *)
                    | Repaired => VErr err_least_params
                    end
          end
      end
  end.
Definition validate_least (vr: variant) (vs: list val) (ts: list string) : vres := validate_least_from vr 0 vs ts.

(* the validators a handler runs, as read from the source by the translator (GenC10Members.signatures) *)
Definition sig_entry := (vkind * bool * list string)%type.

Definition run_validator (vr: variant) (recv_items: list val) (args: list val) (e: sig_entry) : vres :=
  match e with
  | (k, on_recv, ts) =>
      let vs := if on_recv then recv_items else args in
      match k with
      | VkExact => validate_exact vr vs ts
      | VkLeast => validate_least vr vs ts
      | VkAll => validate_all vr vs (hd "any" ts)
      end
  end.

Fixpoint run_validators (vr: variant) (recv_items: list val) (args: list val) (sg: list sig_entry) : vres :=
  match sg with
  | [] => VOk
  | e :: sg' => match run_validator vr recv_items args e with VOk => run_validators vr recv_items args sg' | r => r end
  end.

Definition key3 := (string * string * string)%type.
Definition key3_eqb (a b: key3) : bool :=
  match a, b with (a1, a2, a3), (b1, b2, b3) => String.eqb a1 b1 && String.eqb a2 b2 && String.eqb a3 b3 end.

Fixpoint lookup_sig (k: key3) (tbl: list (key3 * list sig_entry)) : option (list sig_entry) :=
  match tbl with
  | [] => None
  | (k', sg) :: r => if key3_eqb k k' then Some sg else lookup_sig k r
  end.

(* ------------------------------------------------------------------ array core (array.go:270-323) *)
Open Scope Z_scope.
Open Scope list_scope.

Definition zlen {A} (l: list A) : Z := Z.of_nat (List.length l).

(* Go slice expression s[lo:hi] with its bounds check *)
Definition go_slice {A} (l: list A) (lo hi: Z) : option (list A) :=
  if (0 <=? lo) && (lo <=? hi) && (hi <=? zlen l) then Some (firstn (Z.to_nat (hi - lo)) (skipn (Z.to_nat lo) l)) else None.

Definition go_index {A} (l: list A) (i: Z) : option A :=
  if (0 <=? i) && (i <? zlen l) then nth_error l (Z.to_nat i) else None.

Fixpoint set_nth {A} (l: list A) (n: nat) (x: A) : list A :=
  match l, n with
  | [], _ => []
  | _ :: r, O => x :: r
  | a :: r, S n' => a :: set_nth r n' x
  end.

(* insertArrayValue(target, idx, item) *)
Definition insert_array_value (vr: variant) (target: list val) (idx: Z) (item: val) : option (list val) :=
  if zlen target <=? idx then Some (target ++ [item])
  else
    let idx1 := if idx <? 0 then zlen target + idx else idx in
    let idx2 := match vr with Pinned => idx1 | Repaired => if (idx <? 0) && (idx1 <? 0) then 0 else idx1 end in
    match go_slice target 0 idx2, go_slice target idx2 (zlen target) with
    | Some a, Some b => Some (a ++ item :: b)
    | _, _ => None                                   (* slice bounds out of range *)
    end.

(* shiftArrayValue(target, left) *)
Definition shift_array_value (target: list val) (left: bool) : val * list val :=
  match target with
  | [] => (VNull, [])
  | x :: r => if left then (x, r) else (last target VNull, removelast target)
  end.

(* arrayExecSwap: int(math.Floor(v) - 1) *)
Definition swap_cursor (f: num) : Z := go_int (fsub (ffloor f) fone).

Definition array_swap (xs: list val) (f0 f1: num) : outcome * list val :=
  let l := zlen xs in
  let c0 := swap_cursor f0 in
  let c1 := swap_cursor f1 in
  if (c0 <? 0) || (l <=? c0) then (OErr err_index_out_of_range, xs)
  else if (c1 <? 0) || (l <=? c1) then (OErr err_index_out_of_range, xs)
  else match go_index xs c0, go_index xs c1 with
       | Some a, Some b => let xs' := set_nth (set_nth xs (Z.to_nat c0) b) (Z.to_nat c1) a in (OVal (VList xs'), xs')
       | _, _ => (OCrash "index out of range", xs)
       end.

(* ------------------------------------------------------------------ string core (string.go:156-185) *)
(* Text values are byte strings (UTF-8). The repaired 取样 indexes characters: ss := []rune(s) ... string(ss[lo:hi]).
   []rune(string) is Go's decoder (unicode/utf8 tables, restated): an ill-formed byte yields U+FFFD and advances by one. *)
Definition is_cont (b: Z) : bool := (128 <=? b) && (b <=? 191).
Definition rune_error : Z := 65533.

Fixpoint go_runes_fuel (fuel: nat) (bs: bytes) : list Z :=
  match fuel with
  | O => []
  | S f =>
      match bs with
      | [] => []
      | b0 :: r =>
          if b0 <? 128 then b0 :: go_runes_fuel f r
          else
            let bad := rune_error :: go_runes_fuel f r in
            if (194 <=? b0) && (b0 <=? 223) then
              match r with
              | b1 :: r1 => if is_cont b1 then ((b0 - 192) * 64 + (b1 - 128)) :: go_runes_fuel f r1 else bad
              | _ => bad
              end
            else if (224 <=? b0) && (b0 <=? 239) then
              let lo := if b0 =? 224 then 160 else 128 in
              let hi := if b0 =? 237 then 159 else 191 in
              match r with
              | b1 :: b2 :: r2 =>
                  if (lo <=? b1) && (b1 <=? hi) && is_cont b2
                  then ((b0 - 224) * 4096 + (b1 - 128) * 64 + (b2 - 128)) :: go_runes_fuel f r2 else bad
              | _ => bad
              end
            else if (240 <=? b0) && (b0 <=? 244) then
              let lo := if b0 =? 240 then 144 else 128 in
              let hi := if b0 =? 244 then 143 else 191 in
              match r with
              | b1 :: b2 :: b3 :: r3 =>
                  if (lo <=? b1) && (b1 <=? hi) && is_cont b2 && is_cont b3
                  then ((b0 - 240) * 262144 + (b1 - 128) * 4096 + (b2 - 128) * 64 + (b3 - 128)) :: go_runes_fuel f r3 else bad
              | _ => bad
              end
            else bad
      end
  end.
Definition go_runes (bs: bytes) : list Z := go_runes_fuel (List.length bs) bs.

(* string([]rune): utf8.EncodeRune; surrogates and out-of-range values are written as U+FFFD *)
Definition encode_rune (c: Z) : bytes :=
  if (0 <=? c) && (c <? 128) then [c]
  else if (128 <=? c) && (c <? 2048) then [192 + c / 64; 128 + c mod 64]
  else if (c <? 0) || (1114111 <? c) || ((55296 <=? c) && (c <=? 57343)) then [239; 191; 189]
  else if c <? 65536 then [224 + c / 4096; 128 + (c / 64) mod 64; 128 + c mod 64]
  else [240 + c / 262144; 128 + (c / 4096) mod 64; 128 + (c / 64) mod 64; 128 + c mod 64].
Definition go_string_of_runes (rs: list Z) : bytes := flat_map encode_rune rs.

Definition str_slice (sb: bytes) (f0 f1: num) : outcome :=
  let ss := go_runes sb in
  let n := zlen ss in
  let start0 := go_int f0 in
  let end0 := go_int f1 in
  let start1 := if start0 <? 0 then n + start0 + 1 else start0 in
  if start1 <? 1 then OExc
  else if n <? end0 then OExc
  else
    let end1 := if end0 <? 0 then n + end0 + 1 else end0 in
    if end1 <? start1 then OVal (VStr [])
    else match go_slice ss (start1 - 1) end1 with
         | Some s => OVal (VStr (go_string_of_runes s))
         | None => OCrash "slice bounds out of range"
         end.

Fixpoint join_bytes (sep: bytes) (l: list bytes) : bytes :=
  match l with
  | [] => []
  | [a] => a
  | a :: r => a ++ sep ++ join_bytes sep r
  end.

(* ------------------------------------------------------------------ IV.ReduceRHS / ReduceLHS (iv.go:67-126) *)
(* array index: A#i with i = int(number) computed by getMemberExprIV (eval.go:1280) *)
Definition iv_array_get (xs: list val) (index: Z) : outcome :=
  let real := wrap64 (index - 1) in
  if (real <? 0) || (zlen xs <=? real) then OErr err_index_out_of_range
  else match go_index xs real with Some v => OVal v | None => OCrash "index out of range" end.

Definition iv_array_set (xs: list val) (index: Z) (input: val) : outcome * list val :=
  let real := wrap64 (index - 1) in
  if (real <? 0) || (zlen xs <=? real) then (OErr err_index_out_of_range, xs)
  else match go_index xs real with
       | Some _ => (OVal VNull, set_nth xs (Z.to_nat real) input)
       | None => (OCrash "index out of range", xs)
       end.

Definition bytes_eqb (a b: bytes) : bool := if list_eq_dec Z.eq_dec a b then true else false.

Fixpoint dict_get (kvs: list (bytes * val)) (k: bytes) : option val :=
  match kvs with
  | [] => None
  | (k', v) :: r => if bytes_eqb k k' then Some v else dict_get r k
  end.
Fixpoint dict_set (kvs: list (bytes * val)) (k: bytes) (v: val) : list (bytes * val) :=
  match kvs with
  | [] => [(k, v)]
  | (k', v') :: r => if bytes_eqb k k' then (k', v) :: r else (k', v') :: dict_set r k v
  end.
Fixpoint dict_remove (kvs: list (bytes * val)) (k: bytes) : list (bytes * val) :=
  match kvs with
  | [] => []
  | (k', v') :: r => if bytes_eqb k k' then r else (k', v') :: dict_remove r k
  end.

Definition iv_dict_get (kvs: list (bytes * val)) (k: bytes) : outcome :=
  match dict_get kvs k with Some v => OVal v | None => OErr err_index_key_not_found end.

(* ------------------------------------------------------------------ checked casts after validation *)
Definition arg (args: list val) (i: nat) : val := nth i args VNil.

Definition with_num (v: val) (k: num -> result) : result :=
  match v with VNum f => k f | _ => (OCrash "interface conversion: .(*Number)", None) end.
Definition with_str (v: val) (k: bytes -> result) : result :=
  match v with VStr s => k s | _ => (OCrash "interface conversion: .(*String)", None) end.
Definition with_dict (v: val) (k: list (bytes * val) -> result) : result :=
  match v with VDict d => k d | _ => (OCrash "interface conversion: .(*HashMap)", None) end.
Definition with_present (args: list val) (i: nat) (k: val -> result) : result :=
  match nth_error args i with Some v => k v | None => (OCrash "index out of range: values[i]", None) end.

Fixpoint all_strs (vs: list val) : option (list bytes) :=
  match vs with
  | [] => Some []
  | VStr s :: r => match all_strs r with Some l => Some (s :: l) | None => None end
  | _ => None
  end.
Fixpoint all_nums (vs: list val) : option (list num) :=
  match vs with
  | [] => Some []
  | VNum f :: r => match all_nums r with Some l => Some (f :: l) | None => None end
  | _ => None
  end.
Fixpoint all_lists (vs: list val) : option (list (list val)) :=
  match vs with
  | [] => Some []
  | VList x :: r => match all_lists r with Some l => Some (x :: l) | None => None end
  | _ => None
  end.

(* encoding/json fails on non-finite numbers (pkg/common/elem2json.go) *)
Fixpoint json_ok (v: val) : bool :=
  match v with
  | VNum f => fis_finite f
  | VList xs => forallb json_ok xs
  | VDict kvs => forallb (fun kv => json_ok (snd kv)) kvs
  | _ => true
  end.

(* numDiv: stop at the first zero divisor *)
Fixpoint num_div_all (acc: num) (ds: list num) : outcome :=
  match ds with
  | [] => OVal (VNum acc)
  | d :: r => if feq0 d then OErr err_div_zero else num_div_all (fdiv acc d) r
  end.

(* hmExecGet: walk a chain of keys *)
Fixpoint hm_get_chain (cur: val) (keys: list bytes) : val :=
  match keys with
  | [] => cur
  | k :: r => match cur with
              | VDict d => match dict_get d k with Some v => hm_get_chain v r | None => VNull end
              | _ => VNull
              end
  end.

(* String() of a value dereferences every item: a nil item is a nil-pointer call *)
Definition display_of (v: val) : outcome := if no_nil v then OOpaque ty_str else OCrash "nil Element: String()".

Definition str_true : bytes := [231; 156; 159].    (* 真 *)
Definition str_false : bytes := [229; 129; 135].   (* 假 *)

(* ------------------------------------------------------------------ member clauses *)
(* a body gets the receiver and the arguments AFTER the handler's validators succeeded *)
Definition body := variant -> val -> list val -> result.

Definition keep (o: outcome) (recv: val) : result := (o, Some recv).

Definition b_array (f: variant -> list val -> list val -> result) : body :=
  fun vr recv args => match recv with VList xs => f vr xs args | _ => (OCrash "receiver type", None) end.
Definition b_dict (f: variant -> list (bytes * val) -> list val -> result) : body :=
  fun vr recv args => match recv with VDict d => f vr d args | _ => (OCrash "receiver type", None) end.
Definition b_str (f: variant -> bytes -> list val -> result) : body :=
  fun vr recv args => match recv with VStr s => f vr s args | _ => (OCrash "receiver type", None) end.
Definition b_num (f: variant -> num -> list val -> result) : body :=
  fun vr recv args => match recv with VNum n => f vr n args | _ => (OCrash "receiver type", None) end.

Definition list_result (xs': option (list val)) : result :=
  match xs' with
  | Some l => (OVal (VList l), Some (VList l))
  | None => (OCrash "slice bounds out of range", None)
  end.

Definition opaque (ty: Z) : body := fun _ recv _ => (OOpaque ty, Some recv).

Open Scope string_scope.
Open Scope list_scope.

Definition clauses : list (key3 * body) := [
  (* ---- Array *)
  (("Array", "get", "文本"), fun _ recv _ => keep (display_of recv) recv);
  (("Array", "get", "首项"), b_array (fun _ xs _ => keep (OVal (hd VNull xs)) (VList xs)));
  (("Array", "get", "末项"), b_array (fun _ xs _ => keep (OVal (last xs VNull)) (VList xs)));
  (("Array", "get", "数目"), b_array (fun _ xs _ => keep (OVal (VNum (num_of_Z (zlen xs)))) (VList xs)));
  (("Array", "get", "长度"), b_array (fun _ xs _ => keep (OVal (VNum (num_of_Z (zlen xs)))) (VList xs)));
  (("Array", "get", "逆序"), b_array (fun _ xs _ => keep (OVal (VList (rev xs))) (VList xs)));
  (* SetProperty(name, value) has exactly one value by its Go type: hd *)
  (("Array", "set", "首项"), b_array (fun _ xs args =>
      let v := hd VNull args in (OVal VNull, Some (VList (match xs with [] => [v] | _ :: r => v :: r end)))));
  (("Array", "set", "末项"), b_array (fun _ xs args =>
      let v := hd VNull args in (OVal VNull, Some (VList (match xs with [] => [v] | _ => removelast xs ++ [v] end)))));
  (("Array", "method", "新增"), b_array (fun vr xs args =>
      with_present args 0 (fun x => with_present args 1 (fun p => with_num p (fun f =>
        list_result (insert_array_value vr xs (go_int f) x))))));
  (("Array", "method", "添加"), b_array (fun vr xs args =>
      with_present args 0 (fun x => with_present args 1 (fun p => with_num p (fun f =>
        list_result (insert_array_value vr xs (go_int f) x))))));
  (("Array", "method", "前增"), b_array (fun vr xs args =>
      with_present args 0 (fun x => list_result (insert_array_value vr xs 0 x))));
  (("Array", "method", "后增"), b_array (fun vr xs args =>
      with_present args 0 (fun x => list_result (insert_array_value vr xs (zlen xs) x))));
  (("Array", "method", "左移"), b_array (fun _ xs _ =>
      let (v, r) := shift_array_value xs true in (OVal v, Some (VList r))));
  (("Array", "method", "右移"), b_array (fun _ xs _ =>
      let (v, r) := shift_array_value xs false in (OVal v, Some (VList r))));
  (("Array", "method", "拼接"), b_array (fun _ xs args =>
      match all_strs xs with
      | Some l => with_present args 0 (fun c => with_str c (fun sep => keep (OVal (VStr (join_bytes sep l))) (VList xs)))
      | None => (OCrash "interface conversion: .(*String)", None)
      end));
  (("Array", "method", "合并"), b_array (fun _ xs args =>
      match all_lists args with
      | Some ls => let r := xs ++ List.concat ls in (OVal (VList r), Some (VList r))
      | None => (OCrash "interface conversion: .(*Array)", None)
      end));
  (("Array", "method", "交换"), b_array (fun _ xs args =>
      with_present args 0 (fun a => with_present args 1 (fun b => with_num a (fun f0 => with_num b (fun f1 =>
        let (o, xs') := array_swap xs f0 f1 in (o, Some (VList xs'))))))));
  (* ---- HashMap *)
  (("HashMap", "get", "数目"), b_dict (fun _ d _ => keep (OVal (VNum (num_of_Z (zlen d)))) (VDict d)));
  (("HashMap", "get", "长度"), b_dict (fun _ d _ => keep (OVal (VNum (num_of_Z (zlen d)))) (VDict d)));
  (("HashMap", "get", "所有索引"), b_dict (fun _ d _ => keep (OVal (VList (map (fun kv => VStr (fst kv)) d))) (VDict d)));
  (("HashMap", "get", "所有值"), b_dict (fun _ d _ => keep (OVal (VList (map snd d))) (VDict d)));
  (("HashMap", "method", "读取"), b_dict (fun _ d args =>
      match all_strs args with
      | Some ks => keep (OVal (hm_get_chain (VDict d) ks)) (VDict d)
      | None => (OCrash "interface conversion: .(*String)", None)
      end));
  (("HashMap", "method", "写入"), b_dict (fun _ d args =>
      with_present args 0 (fun k => with_present args 1 (fun v => with_str k (fun ks =>
        (OVal v, Some (VDict (dict_set d ks v))))))));
  (("HashMap", "method", "移除"), b_dict (fun _ d args =>
      with_present args 0 (fun k => with_str k (fun ks =>
        match dict_get d ks with
        | Some v => (OVal v, Some (VDict (dict_remove d ks)))
        | None => (OVal VNull, Some (VDict d))
        end))));
  (* ---- String *)
  (("String", "get", "长度"), opaque ty_num);
  (("String", "get", "字数"), opaque ty_num);
  (("String", "get", "文本"), b_str (fun _ s _ => keep (OVal (VStr s)) (VStr s)));
  (("String", "get", "字符组"), opaque ty_list);
  (("String", "method", "替换"), b_str (fun _ s args =>
      with_present args 0 (fun a => with_present args 1 (fun b => with_str a (fun _ => with_str b (fun _ =>
        keep (OOpaque ty_str) (VStr s)))))));
  (("String", "method", "分隔"), b_str (fun _ s args =>
      with_present args 0 (fun a => with_str a (fun _ => keep (OOpaque ty_list) (VStr s)))));
  (("String", "method", "匹配"), b_str (fun _ s args =>
      with_present args 0 (fun a => with_str a (fun _ => keep (OOpaque ty_bool) (VStr s)))));
  (("String", "method", "匹配开头"), b_str (fun _ s args =>
      with_present args 0 (fun a => with_str a (fun _ => keep (OOpaque ty_bool) (VStr s)))));
  (("String", "method", "匹配结尾"), b_str (fun _ s args =>
      with_present args 0 (fun a => with_str a (fun _ => keep (OOpaque ty_bool) (VStr s)))));
  (("String", "method", "取样"), b_str (fun _ s args =>
      with_present args 0 (fun a => with_present args 1 (fun b => with_num a (fun f0 => with_num b (fun f1 =>
        keep (str_slice s f0 f1) (VStr s)))))));
  (("String", "method", "去除空格"), opaque ty_str);
  (("String", "method", "转小写-英文"), opaque ty_str);
  (("String", "method", "转大写-英文"), opaque ty_str);
  (("String", "method", "拼接"), b_str (fun _ s args =>
      match all_strs args with
      | Some l => keep (OVal (VStr (s ++ List.concat l))) (VStr s)
      | None => (OCrash "interface conversion: .(*String)", None)
      end));
  (("String", "method", "格式化"), b_str (fun _ s args =>
      match all_strs args with
      | Some l => keep (OOpaque ty_str) (VStr s)
      | None => (OCrash "interface conversion: .(*String)", None)
      end));
  (("String", "method", "转换数值"), fun _ _ _ => (OValOrExc ty_num, None));   (* rewrites its receiver (C16's subject) *)
  (* ---- Number *)
  (("Number", "get", "文本"), opaque ty_str);
  (("Number", "get", "平方"), b_num (fun _ n _ => keep (OVal (VNum (fmul n n))) (VNum n)));
  (("Number", "get", "立方"), b_num (fun _ n _ => keep (OVal (VNum (fmul (fmul n n) n))) (VNum n)));
  (("Number", "get", "平方根"), b_num (fun _ n _ =>
      keep (if fle0 n then OErr err_root_lt_zero else OVal (VNum (fsqrt n))) (VNum n)));
  (("Number", "method", "加"), b_num (fun _ n args =>
      match all_nums args with
      | Some l => keep (OVal (VNum (fold_left fadd l n))) (VNum n)
      | None => (OCrash "nil dereference: v.(*Number)", None)
      end));
  (("Number", "method", "减"), b_num (fun _ n args =>
      match all_nums args with
      | Some l => keep (OVal (VNum (fold_left fsub l n))) (VNum n)
      | None => (OCrash "nil dereference: v.(*Number)", None)
      end));
  (("Number", "method", "乘"), b_num (fun _ n args =>
      match all_nums args with
      | Some l => keep (OVal (VNum (fold_left fmul l n))) (VNum n)
      | None => (OCrash "nil dereference: v.(*Number)", None)
      end));
  (("Number", "method", "除"), b_num (fun _ n args =>
      match all_nums args with
      | Some l => keep (num_div_all n l) (VNum n)
      | None => (OCrash "nil dereference: v.(*Number)", None)
      end));
  (("Number", "method", "自增"), b_num (fun _ n args =>
      with_present args 0 (fun a => with_num a (fun f => let r := VNum (fadd n f) in (OVal r, Some r)))));
  (("Number", "method", "自减"), b_num (fun _ n args =>
      with_present args 0 (fun a => with_num a (fun f => let r := VNum (fsub n f) in (OVal r, Some r)))));
  (("Number", "method", "向下取整"), b_num (fun _ n _ => keep (OVal (VNum (ffloor n))) (VNum n)));
  (("Number", "method", "向上取整"), b_num (fun _ n _ => keep (OVal (VNum (fceil n))) (VNum n)));
  (("Number", "construct", "新建"), fun _ recv args => with_present args 0 (fun a => with_num a (fun f => keep (OVal (VNum f)) recv)));
  (* ---- Bool, Exception, Object, ClassModel *)
  (("Bool", "get", "文本"), fun _ recv _ =>
      match recv with VBool b => keep (OVal (VStr (if b then str_true else str_false))) recv | _ => (OCrash "receiver type", None) end);
  (("Exception", "get", "内容"), fun _ recv _ =>
      match recv with VExc m => keep (OVal (VStr m)) recv | _ => (OCrash "receiver type", None) end);
  (("Object", "get", "自身"), fun _ recv _ => keep (OVal recv) recv);
  (("ClassModel", "construct", "新建"), opaque ty_obj);       (* default constructor; user constructors are the evaluator's subject *)
  (* ---- built-in classes *)
  (("class:异常", "construct", "新建"), fun _ recv args =>
      with_present args 0 (fun a => with_str a (fun m => keep (OVal (VExc m)) recv)));
  (("class:HTTP请求", "construct", "新建"), fun _ recv args =>
      with_present args 0 (fun _ => with_present args 1 (fun _ =>
        if Nat.eqb (List.length args) 3 then
          with_present args 2 (fun c => match c with
                                        | VDict _ => keep (if json_ok c then OOpaque ty_obj else OExc) recv
                                        | _ => keep (OOpaque ty_obj) recv
                                        end)
        else keep (OOpaque ty_obj) recv)));
  (("class:HTTP响应", "construct", "新建"), fun _ recv args =>
      with_present args 0 (fun _ => with_present args 1 (fun c =>
        match c with
        | VStr _ => keep (OOpaque ty_obj) recv
        | _ => keep (if json_ok c then OOpaque ty_obj else OExc) recv
        end)));
  (("class:HTTP请求", "classprop", "URL"), opaque ty_str);
  (("class:HTTP请求", "classprop", "路径"), opaque ty_str);
  (("class:HTTP请求", "classprop", "方法"), opaque ty_str);
  (("class:HTTP请求", "classprop", "头部"), opaque ty_dict);
  (("class:HTTP请求", "classprop", "查询参数"), opaque ty_dict);
  (("class:HTTP请求", "classprop", "内容"), opaque ty_str);
  (("class:HTTP响应", "classprop", "状态码"), opaque ty_num);
  (("class:HTTP响应", "classprop", "头部"), opaque ty_dict);
  (("class:HTTP响应", "classprop", "内容"), opaque ty_str);
  (* ---- libraries *)
  (("lib:@JSON", "libfn", "生成JSON"), fun _ recv args =>
      with_present args 0 (fun a => with_dict a (fun _ => keep (if json_ok a then OOpaque ty_str else OExc) recv)));
  (("lib:@JSON", "libfn", "解析JSON"), fun _ recv args =>
      with_present args 0 (fun a => with_str a (fun _ => keep (OValOrExc ty_dict) recv)));
  (("lib:@文件", "libfn", "读取文件"), fun _ recv args =>
      with_present args 0 (fun a => with_str a (fun _ => keep (OValOrExc ty_str) recv)));
  (("lib:@文件", "libfn", "写入文件"), fun vr recv args =>
      with_present args 0 (fun a => with_present args 1 (fun b => with_str a (fun _ => with_str b (fun _ =>
        match vr with
        | Pinned => keep (OVal VNil) recv                       (* file.go:51 `return nil, nil` *)
        | Repaired => keep (OValOrExc ty_null) recv
        end)))));
  (("lib:@文件", "libfn", "读取目录"), fun _ recv args =>
      with_present args 0 (fun a => with_str a (fun _ => keep (OValOrExc ty_list) recv)));
  (* ---- globals *)
  (("global", "global", "真"), fun _ recv _ => keep (OVal (VBool true)) recv);
  (("global", "global", "假"), fun _ recv _ => keep (OVal (VBool false)) recv);
  (("global", "global", "空"), fun _ recv _ => keep (OVal VNull) recv);
  (("global", "global", "异常"), fun _ recv _ => keep (OVal VClass) recv);
  (("global", "global", "数值"), fun _ recv _ => keep (OOpaque ty_num) recv);
  (("global", "global", "显示"), fun _ recv args =>            (* the call: every argument is displayed *)
      keep (if forallb no_nil args then OVal VNull else OCrash "nil Element: String()") recv);
  (("global", "global", "取随机数"), opaque ty_num)
].

(* members that exist in the inventory, have no model clause, and are covered by the differential sweep only *)
Definition differential_only : list key3 := [
  ("Array", "method", "包含");     (* CompareValues: result depends on Go map order for dictionaries (C01/C11) *)
  ("Array", "method", "寻找");
  (* stdlib/http does not compile in this tree (http_helper.go: missing return) and opens network connections:
     it cannot be linked into any interpreter build; listed so that its appearance in the inventory is explicit *)
  ("lib:@HTTP", "libfn", "发送HTTP请求");
  ("lib:@HTTP", "libfn", "发送GET请求");
  ("lib:@HTTP", "libfn", "发送POST请求");
  ("lib:@HTTP", "libclass", "HTTP请求");     (* = class:HTTP请求, modelled above *)
  ("lib:@HTTP", "libclass", "HTTP响应")
].

Fixpoint lookup_clause (k: key3) (tbl: list (key3 * body)) : option body :=
  match tbl with
  | [] => None
  | (k', b) :: r => if key3_eqb k k' then Some b else lookup_clause k r
  end.

Definition has_clause (k: key3) : bool := match lookup_clause k clauses with Some _ => true | None => false end.
Definition in_keys (k: key3) (l: list key3) : bool := existsb (key3_eqb k) l.

(* the inventory check: every member read from the source has a clause or is in the named list;
   and the translator understood every table it met *)
Definition inventory_covered : bool :=
  forallb (fun k => has_clause k || in_keys k differential_only) GenC10Members.members
  && match GenC10Members.problems with [] => true | _ => false end.

Definition uncovered : list key3 :=
  filter (fun k => negb (has_clause k || in_keys k differential_only)) GenC10Members.members.

(* receiver items seen by a validator that runs on the receiver (arrayExecJoin validates ar.value) *)
Definition recv_items (recv: val) : list val := match recv with VList xs => xs | _ => [] end.

(* the receiver kind a value answers to *)
Definition recv_name (v: val) : string :=
  match v with
  | VList _ => "Array" | VDict _ => "HashMap" | VStr _ => "String" | VNum _ => "Number" | VBool _ => "Bool"
  | VNull => "Null" | VObj => "Object" | VFunc => "Function" | VClass => "ClassModel" | VExc _ => "Exception"
  | VGo _ => "GoValue" | VNil => "nil"
  end.

Definition not_found (kind: string) : outcome :=
  if String.eqb kind "method" then OErr err_method_not_found else OErr err_property_not_found.

(* apply member (rname, kind, name) — rname is recv_name of a value, or "class:..", "lib:..", "global" —
   None: the member is not modelled (differential only) *)
Definition exec (vr: variant) (rname: string) (recv: val) (kind name: string) (args: list val) : option result :=
  let k := (rname, kind, name) in
  match lookup_clause k clauses with
  | Some b =>
      let sg := match lookup_sig k GenC10Members.signatures with Some s => s | None => [] end in
      match run_validators vr (recv_items recv) args sg with
      | VOk => Some (b vr recv args)
      | VErr c => Some (OErr c, Some recv)
      | VCrash w => Some (OCrash w, None)
      end
  | None =>
      if in_keys k differential_only then None
      else if in_keys k GenC10Members.members then None
      else Some (not_found kind, Some recv)
  end.

(* ------------------------------------------------------------------ VM accessors (vm.go:180-192, 262-271) *)
Inductive vmop := VPush | VPop | VThis | VRet | VSetRet | VLine | VFrame | VStack | VModule
                | VFind | VFindGlobal | VFindM | VSet | VBegin | VEnd.

Record vmstate := { frames : list bool (* return value set? *); native_scope : bool }.
Definition vm_init := {| frames := []; native_scope := false |}.

(* result codes: 0 = nil / nothing, 1 = a value / done, 2 = Zn runtime error, n = stack length; None = Go panic *)
Definition vm_step (vr: variant) (s: vmstate) (op: vmop) : option (Z * vmstate) :=
  let no_frame (dflt: Z) := match vr with Pinned => None | Repaired => Some (dflt, s) end in
  match op with
  | VPush => Some (1, {| frames := false :: frames s; native_scope := true |})
  | VPop => match frames s with
            | [] => Some (0, s)
            | _ :: r => Some (1, {| frames := r; native_scope := native_scope s |})
            end
  | VThis => match frames s with [] => no_frame 0 | _ => Some (1, s) end
  | VRet => match frames s with [] => no_frame 0 | b :: _ => Some (if b then 1 else 0, s) end
  | VSetRet => match frames s with
               | [] => no_frame 1
               | _ :: r => Some (1, {| frames := true :: r; native_scope := native_scope s |})
               end
  | VLine => match frames s with [] => no_frame 1 | _ => Some (1, s) end
  | VFrame => match frames s with [] => no_frame 0 | _ => Some (1, s) end
  | VStack => Some (zlen (frames s), s)
  (* the frames the accessors' harness pushes are native-code frames: their module is the native module (c5cb351) *)
  | VModule => Some (match frames s with [] => 0 | _ => 1 end, s)
  | VFind | VFindM => if native_scope s then Some (2, s) else match vr with Pinned => None | Repaired => Some (2, s) end
  | VFindGlobal => Some (1, s)
  | VSet => Some (2, s)
  | VBegin | VEnd => Some (1, s)
  end.

Fixpoint vm_run (vr: variant) (s: vmstate) (ops: list vmop) : list Z :=
  match ops with
  | [] => []
  | op :: r => match vm_step vr s op with
               | Some (c, s') => c :: vm_run vr s' r
               | None => [-1]
               end
  end.

(* ------------------------------------------------------------------ encodings for the correspondence check *)
Open Scope Z_scope.
Definition canon_nan_bits : Z := 9221120237041090560.  (* 0x7FF8000000000000 *)
Definition enc_num (f: num) : Z := if Binary.is_nan 53 1024 f then canon_nan_bits else bits_of_b64 f.

Fixpoint enc_val (v: val) : list Z :=
  match v with
  | VNil => [ty_nil]
  | VNull => [ty_null]
  | VBool b => [ty_bool; if b then 1 else 0]
  | VNum f => [ty_num; enc_num f]
  | VStr s => ty_str :: zlen s :: s
  | VList xs => ty_list :: zlen xs :: flat_map enc_val xs
  | VDict kvs => ty_dict :: zlen kvs :: flat_map (fun kv => zlen (fst kv) :: fst kv ++ enc_val (snd kv)) kvs
  | VObj => [ty_obj] | VFunc => [ty_func] | VClass => [ty_class]
  | VExc m => ty_exc :: zlen m :: m
  | VGo _ => [ty_go]
  end.

Definition enc_outcome (o: outcome) : list Z :=
  match o with
  | OErr c => [0; c]
  | OExc => [1]
  | OOpaque t => [2; t]
  | OVal v => 3 :: enc_val v
  | OValOrExc t => [4; t]
  | OCrash _ => [9]
  end.

(* [[outcome]; [receiver afterwards or -1]]; [[-2]] when the member is not modelled *)
Definition enc_result (r: option result) : list (list Z) :=
  match r with
  | None => [[-2]]
  | Some (o, Some rv) => [enc_outcome o; enc_val rv]
  | Some (o, None) => [enc_outcome o; [-1]]
  end.

Definition run_case (rname: string) (recv: val) (kind name: string) (args: list val) : list (list Z) :=
  enc_result (exec Repaired rname recv kind name args).

Definition enc_vres (r: vres) : list Z :=
  match r with VOk => [1] | VErr c => [0; c] | VCrash _ => [9] end.

Definition N (bits: Z) : val := VNum (b64_of_bits bits).
