(* Format.v — executable model of pkg/exec/format_str.go (formatString template scanner with
   its [type,start,end] index triples, elementToString, parseNumberFormatter directive machine
   [repaired: precision bounded, fixes/C14-2.patch]) and of the % dispatch of
   pkg/exec/eval.go evalArithTypeModuloExpr (text % list).   Texts are code-point lists
   ([]rune(formatStr)); Element.String() of a number (%v, shortest round-trip) is the opaque
   parameter [rv : bits -> text].                                             No proofs here. *)
From Coq Require Import List ZArith Bool Lia.
Import ListNotations.
From Zn.model Require Import FormatNum.
Open Scope Z_scope.

(* ---------- runtime values as far as the formatter looks at them ------------ *)

Inductive elem :=
| ENum (bits : Z)
| EStr (s : list Z)
| EBool (b : bool)
| ENull
| EList (items : list elem)
| EDict (kvs : list (list Z * elem))        (* in keyOrder *)
| EOther.                                    (* function, object, class, exception, Go value *)

Fixpoint join_comma (ps : list (list Z)) : list Z :=      (* strings.Join(items, "，") *)
  match ps with
  | [] => []
  | [p] => p
  | p :: rest => p ++ [65292] ++ join_comma rest
  end.

(* Element.String() for the six kinds elementToString accepts *)
Fixpoint display (rv : Z -> list Z) (e : elem) : list Z :=
  match e with
  | ENum b => rv b
  | EStr s => s
  | EBool true => [30495]                   (* 真 *)
  | EBool false => [20551]                  (* 假 *)
  | ENull => [31354]                        (* 空 *)
  | EList items => [91] ++ join_comma (map (display rv) items) ++ [93]
  | EDict kvs =>
    [91] ++ join_comma (map (fun kv => match kv with (k, v) => k ++ [61] ++ display rv v end) kvs) ++ [93]
  | EOther => []
  end.

(* ---------- errors and results ---------------------------------------------- *)

Inductive ferr :=
| EInvalidTemplate      (* zerr.InvalidFmtTemplate, semantic error 33 *)
| EUnmatch              (* zerr.UnmatchFmtParams,   semantic error 34 *)
| EParamType            (* zerr.InvalidParamType,   runtime error 82: {} on a function/object/... *)
| ENotNumber            (* "格式化字符串只能用于数字": numeric directive on a non-number *)
| EBadDirective         (* "无效的格式化字符串": malformed directive *)
| EExprType.            (* zerr.InvalidExprType, runtime error 80: % on other operand types *)

Inductive fres (A : Type) :=
| FOk (a : A)
| FErr (e : ferr)
| FCrash.               (* Go panic: index or slice bounds out of range *)
Arguments FOk {A} a. Arguments FErr {A} e. Arguments FCrash {A}.

(* ---------- parseNumberFormatter: the directive machine ---------------------- *)

Inductive dstate := DBegin | DPositiveSign | DFixedSign | DScientificSign | DPercentSign.

Record directive := mkDir
  { d_prec : Z; d_plus : bool; d_fixed : bool; d_sci : bool; d_pct : bool }.

Definition dir0 : directive := mkDir 0 false false false false.

(* the repair: the precision is bounded at every digit, so it can never overflow *)
Definition MAXPREC : Z := 1000.

Definition is_digit (ch : Z) : bool := (48 <=? ch) && (ch <=? 57).

Fixpoint dir_loop (cs : list Z) (st : dstate) (d : directive) : option directive :=
  match cs with
  | [] => Some d
  | ch :: tl =>
    if ch =? 43 then                                          (* '+' *)
      match st with
      | DBegin => dir_loop tl DPositiveSign (mkDir (d_prec d) true (d_fixed d) (d_sci d) (d_pct d))
      | _ => None
      end
    else if ch =? 46 then                                     (* '.' *)
      match st with
      | DBegin | DPositiveSign => dir_loop tl DFixedSign (mkDir (d_prec d) (d_plus d) true (d_sci d) (d_pct d))
      | _ => None
      end
    else if ch =? 69 then                                     (* 'E' *)
      match st with
      | DBegin | DPositiveSign | DFixedSign =>
        dir_loop tl DScientificSign (mkDir (d_prec d) (d_plus d) (d_fixed d) true (d_pct d))
      | _ => None
      end
    else if ch =? 37 then                                     (* '%' *)
      match st with
      | DBegin | DPositiveSign | DFixedSign =>
        dir_loop tl DPercentSign (mkDir (d_prec d) (d_plus d) (d_fixed d) (d_sci d) true)
      | _ => None
      end
    else if is_digit ch then
      match st with
      | DFixedSign =>
        let p := d_prec d * 10 + (ch - 48) in
        if p >? MAXPREC then None
        else dir_loop tl DFixedSign (mkDir p (d_plus d) (d_fixed d) (d_sci d) (d_pct d))
      | _ => None
      end
    else None
  end.

Definition parse_directive (cs : list Z) : option directive := dir_loop cs DBegin dir0.

(* step 2 and 3 of parseNumberFormatter: "%" ["+"] [".N"] ("E" | "f" | ".6g"), value*100 and "%" for percent *)
Definition render_directive (d : directive) (bits : Z) : list Z :=
  let x := decode_bits bits in
  let x := if d_pct d then mul100 x else x in
  let body :=
    if d_sci d then render_e (d_plus d) (if d_fixed d then d_prec d else 6) x
    else if d_fixed d then render_f (d_plus d) (d_prec d) x
    else render_g6 (d_plus d) x in
  if d_pct d then body ++ [37] else body.

Definition parse_number_formatter (cs : list Z) (bits : Z) : fres (list Z) :=
  match parse_directive cs with
  | None => FErr EBadDirective
  | Some d => FOk (render_directive d bits)
  end.

(* ---------- elementToString --------------------------------------------------- *)

Definition element_to_string (rv : Z -> list Z) (formatter : list Z) (e : elem) : fres (list Z) :=
  match formatter with
  | [] =>
    match e with
    | EOther => FErr EParamType
    | _ => FOk (display rv e)
    end
  | 35 :: rest =>                                              (* strings.HasPrefix(formatter, "#") *)
    match e with
    | ENum bits => parse_number_formatter rest bits
    | _ => FErr ENotNumber
    end
  | _ => FErr EBadDirective
  end.

(* ---------- formatString: the scanner ----------------------------------------- *)

Inductive sstate := SBegin | SLiteral | SFormat.

Definition fmtTypeLiteral : Z := 1.
Definition fmtTypeFormatter : Z := 2.

(* for idx, ch := range formatStrRune { switch ch ... }   ->  (state, fmtStack, formatterCount) *)
Fixpoint scan_loop (rs : list Z) (idx : Z) (st : sstate) (stack : list Z) (cnt : Z)
  : option (sstate * list Z * Z) :=
  match rs with
  | [] => Some (st, stack, cnt)
  | ch :: tl =>
    if ch =? 123 then                                         (* '{' *)
      match st with
      | SBegin => scan_loop tl (idx + 1) SFormat (stack ++ [fmtTypeFormatter; idx + 1]) cnt
      | SLiteral => scan_loop tl (idx + 1) SFormat (stack ++ [idx; fmtTypeFormatter; idx + 1]) cnt
      | SFormat => None
      end
    else if ch =? 125 then                                    (* '}' *)
      match st with
      | SFormat => scan_loop tl (idx + 1) SBegin (stack ++ [idx]) (cnt + 1)
      | _ => None
      end
    else
      match st with
      | SBegin => scan_loop tl (idx + 1) SLiteral (stack ++ [fmtTypeLiteral; idx]) cnt
      | _ => scan_loop tl (idx + 1) st stack cnt
      end
  end.

(* Go slice expression runes[lo:hi] *)
Definition rune_slice (l : list Z) (lo hi : Z) : option (list Z) :=
  if (0 <=? lo) && (lo <=? hi) && (hi <=? Z.of_nat (length l))
  then Some (firstn (Z.to_nat (hi - lo)) (skipn (Z.to_nat lo) l)) else None.

(* #2 fill string: for i := 0; i < len(fmtStack); i += 3 *)
Fixpoint fill (rv : Z -> list Z) (tpl : list Z) (stack : list Z) (params : list elem) (acc : list Z)
  : fres (list Z) :=
  match stack with
  | [] => FOk acc
  | ty :: startIdx :: endIdx :: rest =>
    match rune_slice tpl startIdx endIdx with
    | None => FCrash
    | Some formatter =>
      if ty =? fmtTypeLiteral then fill rv tpl rest params (acc ++ formatter)
      else if ty =? fmtTypeFormatter then
        match params with
        | [] => FCrash                                        (* paramElemList[paramElemIdx] out of range *)
        | p :: params' =>
          match element_to_string rv formatter p with
          | FOk str => fill rv tpl rest params' (acc ++ str)
          | FErr e => FErr e
          | FCrash => FCrash
          end
        end
      else fill rv tpl rest params acc
    end
  | _ => FCrash                                               (* fmtStack[i+1] / [i+2] out of range *)
  end.

Definition format_string (rv : Z -> list Z) (tpl : list Z) (params : list elem) : fres (list Z) :=
  match scan_loop tpl 0 SBegin [] 0 with
  | None => FErr EInvalidTemplate
  | Some (st, stack, cnt) =>
    let stack := match st with SLiteral => stack ++ [Z.of_nat (length tpl)] | _ => stack end in
    if negb (Z.of_nat (length stack) mod 3 =? 0) then FErr EInvalidTemplate
    else if negb (Z.of_nat (length params) =? cnt) then FErr EUnmatch
    else fill rv tpl stack params []
  end.

(* ---------- the % dispatch of evalArithTypeModuloExpr (text/list part) --------- *)

Definition eval_format (rv : Z -> list Z) (left right : elem) : fres (list Z) :=
  match left, right with
  | EStr tpl, EList params => format_string rv tpl params
  | _, _ => FErr EExprType            (* number % number is C01's subject and not modelled here *)
  end.

(* ---------- the specification side: template grammar -------------------------- *)

(*  tpl ::= (lit | '{' directive '}')*      lit: non-empty, no braces; directive: no braces  *)
Inductive seg := Lit (l : list Z) | Hole (d : list Z).

Definition is_brace (c : Z) : bool := (c =? 123) || (c =? 125).
Definition brace_free (l : list Z) : Prop := Forall (fun c => is_brace c = false) l.

Definition unparse_seg (s : seg) : list Z :=
  match s with Lit l => l | Hole d => [123] ++ d ++ [125] end.
Definition unparse (segs : list seg) : list Z := concat (map unparse_seg segs).

(* well-formed parse: literals are non-empty and maximal (never two in a row) *)
Fixpoint wf_segs (segs : list seg) : Prop :=
  match segs with
  | [] => True
  | Lit l :: rest => l <> [] /\ brace_free l /\ (match rest with Lit _ :: _ => False | _ => True end) /\ wf_segs rest
  | Hole d :: rest => brace_free d /\ wf_segs rest
  end.

Definition holes (segs : list seg) : list (list Z) :=
  flat_map (fun s => match s with Hole d => [d] | Lit _ => [] end) segs.

(* the documented meaning: literals verbatim, the k-th placeholder renders the k-th argument;
   the first rendering error (left to right) is the result *)
Fixpoint render_segs (rv : Z -> list Z) (segs : list seg) (args : list elem) : fres (list Z) :=
  match segs with
  | [] => FOk []
  | Lit l :: rest =>
    match render_segs rv rest args with
    | FOk out => FOk (l ++ out)
    | r => r
    end
  | Hole d :: rest =>
    match args with
    | [] => FCrash
    | a :: args' =>
      match element_to_string rv d a with
      | FOk str =>
        match render_segs rv rest args' with
        | FOk out => FOk (str ++ out)
        | r => r
        end
      | FErr e => FErr e
      | FCrash => FCrash
      end
    end
  end.

(* ---------- the specification side: directive grammar -------------------------- *)

(* directive ::= '' | '#' '+'? ('.' digit* )? ('E' | '%')?     (after the '#')
   NB the code (and this grammar) accept '.' followed by no digit as precision 0; the manual
   only shows '.N'.  *)
Fixpoint dec_value (ds : list Z) (acc : Z) : Z :=
  match ds with
  | [] => acc
  | c :: tl => dec_value tl (acc * 10 + (c - 48))
  end.

Inductive suffix := SufNone | SufE | SufPct.
Definition suffix_chars (s : suffix) : list Z :=
  match s with SufNone => [] | SufE => [69] | SufPct => [37] end.

Definition directive_text (plus : bool) (fixed : option (list Z)) (suf : suffix) : list Z :=
  (if plus then [43] else []) ++
  (match fixed with Some ds => 46 :: ds | None => [] end) ++
  suffix_chars suf.

Definition directive_of (plus : bool) (fixed : option (list Z)) (suf : suffix) : directive :=
  mkDir (match fixed with Some ds => dec_value ds 0 | None => 0 end)
        plus
        (match fixed with Some _ => true | None => false end)
        (match suf with SufE => true | _ => false end)
        (match suf with SufPct => true | _ => false end).
