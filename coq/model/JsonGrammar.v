(* JsonGrammar.v — the grammar of RFC 8259 (section 2 to 7) as inductive predicates over code point lists.
   Specification only: written from the ABNF, independent of the parser and the renderer of Json.v
   (shared with them: the character classes is_ws / hexval, and the record of a number token, whose
   well-formedness wf_num is literally   number = [ minus ] int [ frac ] [ exp ]). *)
From Coq Require Import List ZArith Bool.
Import ListNotations.
From Zn.model Require Import Json.
Open Scope Z_scope.

(* ws = *( %x20 / %x09 / %x0A / %x0D ) *)
Inductive g_ws : list Z -> Prop :=
| g_ws_nil : g_ws []
| g_ws_cons : forall c s, is_ws c = true -> g_ws s -> g_ws (c :: s).

(* unescaped = %x20-21 / %x23-5B / %x5D-10FFFF *)
Definition unescaped (c : Z) : bool :=
  ((0x20 <=? c) && (c <=? 0x21)) || ((0x23 <=? c) && (c <=? 0x5B)) || ((0x5D <=? c) && (c <=? 0x10FFFF)).
Definition is_hex (c : Z) : bool := match hexval c with Some _ => true | None => false end.
(* the characters that may follow a backslash, other than u *)
Definition escapable (e : Z) : bool :=
  (e =? 34) || (e =? 92) || (e =? 47) || (e =? 98) || (e =? 102) || (e =? 110) || (e =? 114) || (e =? 116).

(* char = unescaped / escape ( ... / %x75 4HEXDIG ) *)
Inductive g_char : list Z -> Prop :=
| g_unescaped : forall c, unescaped c = true -> g_char [c]
| g_escape : forall e, escapable e = true -> g_char [92; e]
| g_uescape : forall a b c d, is_hex a && is_hex b && is_hex c && is_hex d = true -> g_char [92; 117; a; b; c; d].

Inductive g_chars : list Z -> Prop :=
| g_chars_nil : g_chars []
| g_chars_app : forall x s, g_char x -> g_chars s -> g_chars (x ++ s).

(* string = quotation-mark *char quotation-mark *)
Inductive g_string : list Z -> Prop :=
| g_str : forall body, g_chars body -> g_string (34 :: body ++ [34]).

(* number = [ minus ] int [ frac ] [ exp ] *)
Inductive g_number : list Z -> Prop :=
| g_num : forall t, wf_num t = true -> g_number (render_num t).

(* value, array = begin-array [ value *( value-separator value ) ] end-array,
   object = begin-object [ member *( value-separator member ) ] end-object, member = string name-separator value;
   the six structural characters may be surrounded by ws *)
Inductive g_value : list Z -> Prop :=
| g_false : g_value lit_false
| g_null : g_value lit_null
| g_true : g_value lit_true
| g_val_num : forall s, g_number s -> g_value s
| g_val_str : forall s, g_string s -> g_value s
| g_arr_empty : forall w, g_ws w -> g_value (91 :: w ++ [93])
| g_arr : forall body, g_elems body -> g_value (91 :: body ++ [93])
| g_obj_empty : forall w, g_ws w -> g_value (123 :: w ++ [125])
| g_obj : forall body, g_members body -> g_value (123 :: body ++ [125])
with g_elems : list Z -> Prop :=
| g_elems_one : forall w1 v w2, g_ws w1 -> g_value v -> g_ws w2 -> g_elems (w1 ++ v ++ w2)
| g_elems_more : forall w1 v w2 rest, g_ws w1 -> g_value v -> g_ws w2 -> g_elems rest ->
    g_elems (w1 ++ v ++ w2 ++ 44 :: rest)
with g_members : list Z -> Prop :=
| g_members_one : forall w1 k w2 w3 v w4, g_ws w1 -> g_string k -> g_ws w2 -> g_ws w3 -> g_value v -> g_ws w4 ->
    g_members (w1 ++ k ++ w2 ++ 58 :: w3 ++ v ++ w4)
| g_members_more : forall w1 k w2 w3 v w4 rest, g_ws w1 -> g_string k -> g_ws w2 -> g_ws w3 -> g_value v -> g_ws w4 ->
    g_members rest -> g_members (w1 ++ k ++ w2 ++ 58 :: w3 ++ v ++ w4 ++ 44 :: rest).

(* JSON-text = ws value ws *)
Definition g_json (s : list Z) : Prop :=
  exists w1 v w2, g_ws w1 /\ g_value v /\ g_ws w2 /\ s = w1 ++ v ++ w2.
