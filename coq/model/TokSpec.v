(* C04 - specification side of the tokenisation: the documented keyword table (manual chapter 1, 34 words) and the
   declarative notions used by the theorems. Definitions only. *)
From Coq Require Import List ZArith Bool.
Import ListNotations.
From Zn.gen Require Import GenC04Tokens.
Open Scope Z_scope.

(* the manual's keyword table: 8 one-glyph, 21 two-glyph, 3 three-glyph, 2 four-glyph words, with the token each denotes *)
Definition doc_keywords : list (list Z * Z) := [
  ([20196], g_TypeDeclareW);  (* 令 *)
  ([20026], g_TypeLogicYesW);  (* 为 *)
  ([20197], g_TypeVarOneW);  (* 以 *)
  ([20854], g_TypeObjThisW);  (* 其 *)
  ([25110], g_TypeLogicOrW);  (* 或 *)
  ([19988], g_TypeLogicAndW);  (* 且 *)
  ([20043], g_TypeObjDotW);  (* 之 *)
  ([30340], g_TypeObjDotIIW);  (* 的 *)
  ([35774;20026], g_TypeAssignW);  (* 设为 *)
  ([24658;20026], g_TypeAssignConstW);  (* 恒为 *)
  ([26032;24314], g_TypeObjNewW);  (* 新建 *)
  ([20309;20026], g_TypeGetterW);  (* 何为 *)
  ([19981;20026], g_TypeLogicNoW);  (* 不为 *)
  ([22914;26524], g_TypeCondW);  (* 如果 *)
  ([20877;22914], g_TypeCondOtherW);  (* 再如 *)
  ([36755;20986], g_TypeReturnW);  (* 输出 *)
  ([22914;20309], g_TypeFuncW);  (* 如何 *)
  ([25318;25130], g_TypeCatchErrorW);  (* 拦截 *)
  ([23548;20837], g_TypeImportW);  (* 导入 *)
  ([23450;20041], g_TypeObjDefineW);  (* 定义 *)
  ([24471;21040], g_TypeGetResultW);  (* 得到 *)
  ([36755;20837], g_TypeInputW);  (* 输入 *)
  ([21542;21017], g_TypeCondElseW);  (* 否则 *)
  ([27599;24403], g_TypeWhileLoopW);  (* 每当 *)
  ([36941;21382], g_TypeIteratorW);  (* 遍历 *)
  ([31561;20110], g_TypeLogicEqualW);  (* 等于 *)
  ([22823;20110], g_TypeLogicGtW);  (* 大于 *)
  ([23567;20110], g_TypeLogicLtW);  (* 小于 *)
  ([25243;20986], g_TypeThrowErrorW);  (* 抛出 *)
  ([19981;31561;20110], g_TypeLogicNotEqW);  (* 不等于 *)
  ([19981;22823;20110], g_TypeLogicLteW);  (* 不大于 *)
  ([19981;23567;20110], g_TypeLogicGteW);  (* 不小于 *)
  ([32487;32493;24490;29615], g_TypeContinueW);  (* 继续循环 *)
  ([32467;26463;24490;29615], g_TypeBreakW)   (* 结束循环 *)
].

Fixpoint prefix_of (p w : list Z) : bool :=
  match p, w with
  | [], _ => true
  | a :: p', b :: w' => (a =? b) && prefix_of p' w'
  | _ :: _, [] => false
  end.

(* (n, ty) is the longest documented keyword at the head of s *)
Definition longest_keyword_at (kws : list (list Z * Z)) (s : list Z) (n ty : Z) : Prop :=
  exists w, In (w, ty) kws /\ prefix_of w s = true /\ n = Z.of_nat (length w) /\
            forall w' ty', In (w', ty') kws -> prefix_of w' s = true -> (length w' <= length w)%nat.

Definition no_keyword_at (kws : list (list Z * Z)) (s : list Z) : Prop :=
  forall w' ty', In (w', ty') kws -> prefix_of w' s = false.

(* executable version: the longest keyword of the table that is a prefix of s *)
Fixpoint longest_kw (kws : list (list Z * Z)) (s : list Z) : option (Z * Z) :=
  match kws with
  | [] => None
  | (w, ty) :: r =>
      let best := longest_kw r s in
      if prefix_of w s then
        match best with
        | Some (l, _) => if l <? Z.of_nat (length w) then Some (Z.of_nat (length w), ty) else best
        | None => Some (Z.of_nat (length w), ty)
        end
      else best
  end.
