(* TextOps.v — executable model of the text operations of pkg/value/string.go
   (strGetLength, strGetCharArray, strExecSlice [repaired, rune based; the pinned byte based
   version is kept as str_exec_slice_pinned], strExecSplit, strExecMatch*, strExecJoin) on Go
   strings, i.e. on BYTE lists, with Go's unicode/utf8 and strings functions restated.
   No proofs here.  UTF-8 tables are reused from Decode.v (C17). *)
From Coq Require Import List ZArith Bool Lia.
Import ListNotations.
From Zn.model Require Import Decode FormatNum.
Open Scope Z_scope.

(* ---------- Go conversions between string and []rune ---------------------- *)

(* string(rune): invalid runes (surrogates, out of range) become U+FFFD *)
Definition encode_rune (r : Z) : list Z := if scalarb r then encode_cp r else encode_cp RuneError.

(* string([]rune) *)
Definition string_of_runes (rs : list Z) : list Z := concat (map encode_rune rs).

(* []rune(s) / range over a string: DecodeRuneInString repeatedly; an invalid byte yields
   (RuneError, 1).  Fuel = length of the string (each pass drops >= 1 byte). *)
Fixpoint runes_loop (fuel : nat) (bs : list Z) : list Z :=
  match fuel with
  | O => []
  | S k =>
    match bs with
    | [] => []
    | _ => let '(ru, size) := decode_rune bs in ru :: runes_loop k (skipn size bs)
    end
  end.
Definition runes_of_string (bs : list Z) : list Z := runes_loop (length bs) bs.

(* utf8.RuneCountInString *)
Definition rune_count (bs : list Z) : Z := Z.of_nat (length (runes_of_string bs)).

(* ---------- results -------------------------------------------------------- *)

Inductive sres (A : Type) :=
| SOk (a : A)
| SExc            (* a Zn exception thrown by the method (ThrowException) *)
| SCrash          (* Go panic: slice bounds out of range *)
| SOutOfFuel.
Arguments SOk {A} a. Arguments SExc {A}. Arguments SCrash {A}. Arguments SOutOfFuel {A}.

(* Go slice expression x[lo:hi] on a list; panics unless 0 <= lo <= hi <= len *)
Definition go_slice {A} (l : list A) (lo hi : Z) : option (list A) :=
  if (0 <=? lo) && (lo <=? hi) && (hi <=? Z.of_nat (length l))
  then Some (firstn (Z.to_nat (hi - lo)) (skipn (Z.to_nat lo) l)) else None.

(* ---------- getters --------------------------------------------------------- *)

(* strGetLength: utf8.RuneCountInString(s.value) *)
Definition str_get_length (s : list Z) : Z := rune_count s.

(* strGetCharArray: for len(v) > 0 { r, size := DecodeRuneInString(v); append(string(r)); v = v[size:] } *)
Fixpoint char_array_loop (fuel : nat) (v : list Z) : list (list Z) :=
  match fuel with
  | O => []
  | S k =>
    match v with
    | [] => []
    | _ => let '(ru, size) := decode_rune v in encode_rune ru :: char_array_loop k (skipn size v)
    end
  end.
Definition str_get_char_array (s : list Z) : list (list Z) := char_array_loop (length s) s.

(* ---------- 取样 (strExecSlice) -------------------------------------------- *)

(* The common index arithmetic; n = len(ss) *)
Definition slice_indices (n startIdx endIdx : Z) : sres (option (Z * Z)) :=
  let startIdx := if startIdx <? 0 then n + startIdx + 1 else startIdx in
  if startIdx <? 1 then SExc
  else if endIdx >? n then SExc
  else
    let endIdx := if endIdx <? 0 then n + endIdx + 1 else endIdx in
    if startIdx >? endIdx then SOk None            (* NewString("") *)
    else SOk (Some (startIdx - 1, endIdx)).

(* repaired code (fixes/C14-1.patch): ss := []rune(s.GetValue()); ... string(ss[startIdx-1:endIdx]) *)
Definition str_exec_slice (s : list Z) (startIdx endIdx : Z) : sres (list Z) :=
  let ss := runes_of_string s in
  match slice_indices (Z.of_nat (length ss)) startIdx endIdx with
  | SOk None => SOk []
  | SOk (Some (lo, hi)) =>
    match go_slice ss lo hi with
    | Some sub => SOk (string_of_runes sub)
    | None => SCrash
    end
  | SExc => SExc | SCrash => SCrash | SOutOfFuel => SOutOfFuel
  end.

(* the method as called: both parameters are numbers, converted with int(float64) *)
Definition str_exec_slice_bits (s : list Z) (b1 b2 : Z) : sres (list Z) :=
  str_exec_slice s (go_int (decode_bits b1)) (go_int (decode_bits b2)).

(* pinned code: ss := s.GetValue() (a Go string: len and slicing count BYTES) *)
Definition str_exec_slice_pinned (s : list Z) (startIdx endIdx : Z) : sres (list Z) :=
  match slice_indices (Z.of_nat (length s)) startIdx endIdx with
  | SOk None => SOk []
  | SOk (Some (lo, hi)) =>
    match go_slice s lo hi with
    | Some sub => SOk sub
    | None => SCrash
    end
  | SExc => SExc | SCrash => SCrash | SOutOfFuel => SOutOfFuel
  end.

(* ---------- Go strings.HasPrefix / Index / Split restated ------------------ *)

Fixpoint has_prefix (s p : list Z) : bool :=
  match p, s with
  | [], _ => true
  | x :: p', y :: s' => (x =? y) && has_prefix s' p'
  | _ :: _, [] => false
  end.

(* first occurrence of sep in s: Some (before, after) with s = before ++ sep ++ after *)
Fixpoint cut (s sep : list Z) : option (list Z * list Z) :=
  if has_prefix s sep then Some ([], skipn (length sep) s)
  else match s with
       | [] => None
       | b :: tl => match cut tl sep with
                    | Some (pre, post) => Some (b :: pre, post)
                    | None => None
                    end
       end.

(* strings.Contains / HasSuffix *)
Definition contains (s sub : list Z) : bool := match cut s sub with Some _ => true | None => false end.
Definition has_suffix (s p : list Z) : bool := has_prefix (rev s) (rev p).

(* genSplit(s, sep, 0, -1) for sep <> "": fuel = length s + 1 *)
Fixpoint gen_split (fuel : nat) (s sep : list Z) : option (list (list Z)) :=
  match fuel with
  | O => None
  | S k =>
    match cut s sep with
    | None => Some [s]
    | Some (pre, post) =>
      match gen_split k post sep with
      | Some ps => Some (pre :: ps)
      | None => None
      end
    end
  end.

(* explode(s, -1): one string per UTF-8 sequence, the BYTES are kept (s[:size]) *)
Fixpoint explode_loop (fuel : nat) (s : list Z) : list (list Z) :=
  match fuel with
  | O => []
  | S k =>
    match s with
    | [] => []
    | _ => let '(_, size) := decode_rune s in firstn size s :: explode_loop k (skipn size s)
    end
  end.

(* strExecSplit: strings.Split(s.value, sep) *)
Definition str_exec_split (s sep : list Z) : sres (list (list Z)) :=
  match sep with
  | [] => SOk (explode_loop (length s) s)
  | _ => match gen_split (S (length s)) s sep with
         | Some ps => SOk ps
         | None => SOutOfFuel
         end
  end.

(* strExecJoin *)
Definition str_exec_join (s : list Z) (others : list (list Z)) : list Z := s ++ concat others.

(* ---------- the specification side (code points) --------------------------- *)

(* characters i..j (1-based, inclusive) of a character list *)
Definition sublist {A} (l : list A) (i j : Z) : list A :=
  firstn (Z.to_nat (j - i + 1)) (skipn (Z.to_nat (i - 1)) l).

(* the same splitting algorithm on an abstract alphabet (here: code points) *)
Definition split_cps (s sep : list Z) : sres (list (list Z)) :=
  match sep with
  | [] => SOk (map (fun c => [c]) s)
  | _ => match gen_split (S (length s)) s sep with
         | Some ps => SOk ps
         | None => SOutOfFuel
         end
  end.

(* join with a separator (strings.Join) *)
Fixpoint join_sep (sep : list Z) (ps : list (list Z)) : list Z :=
  match ps with
  | [] => []
  | [p] => p
  | p :: rest => p ++ sep ++ join_sep sep rest
  end.
