(* PM — event-level model of the prefork process manager (pkg/server/pm_server.go).

   Master: the single-goroutine event loop maintainChildState (:255-320) with its three
   cases (add / update / delete), StartMaster's initial spawn loop (:158-162) and the
   asynchronous spawn batches; spawnProcess (:179-222) = "start a process, then register
   it, then (only then) arrange for its exit to be reported".
   Worker: StartWorker's accept loop (:328-402) as a small state machine.

   Events are delivered in any order allowed by the code's synchronisation:
   - a batch goroutine spawns sequentially: its next process is started only after the
     registration of the previous one has been RECEIVED by the loop (unbuffered addChan);
   - a process is live from the moment it is started, i.e. before it is registered;
   - state reports travel through one named pipe (FIFO); stray frames may be inserted;
   - the exit of a process is delivered (delChan) only after its registration was received.

   Two variants of the master's bookkeeping are kept:
     pinned = false : the REPAIRED code (fixes/C20-1.patch): StartMaster reserves InitProcs,
                      a registration never lowers refCount;
     pinned = true  : the code as pinned (registration sets refCount := len(childs),
                      nothing reserved for the initial batch) — used for the refutation.
   This file contains definitions only. *)
From Coq Require Import List ZArith Bool Lia.
Import ListNotations.
Open Scope Z_scope.

(* ---- configuration: --init-procs, --max-procs, and the batch increment (10 in the code) *)
Record cfg := { c_init : Z; c_max : Z; c_inc : Z }.
Definition cfg_ok (c : cfg) : Prop := 0 <= c_init c /\ c_init c <= c_max c /\ 0 <= c_inc c.

(* state bytes of the pipe protocol *)
Definition ST_IDLE : Z := 1.
Definition ST_BUSY : Z := 2.
Definition ST_STOPPED : Z := 4.

(* ---- worker process (StartWorker loop) *)
Inductive wst := WAccepting | WServing (r : nat).

Inductive wev := WEAccept (r : nat) | WEFinish | WETimeout.

(* one step of the worker loop: new state (None = the process exits), the frame it writes
   to the pipe, the request it answered *)
Definition wstep (w : wst) (e : wev) : option (option wst * Z * option nat) :=
  match w, e with
  | WAccepting, WEAccept r => Some (Some (WServing r), ST_BUSY, None)
  | WServing r, WEFinish => Some (Some WAccepting, ST_IDLE, Some r)
  | WServing _, WETimeout => Some (None, ST_STOPPED, None)
  | _, _ => None
  end.

(* ---- a spawn batch: [b_rem] spawnProcess calls not yet begun, [b_fly] the process that
   has been started and whose registration the loop has not received yet *)
Record batch := { b_rem : nat; b_fly : option nat }.

Record state := {
  childs : list (nat * Z);      (* master: pid -> last reported state byte (Go map) *)
  refCount : Z;                 (* master: live + reserved *)
  batches : list batch;         (* spawn goroutines, in order of creation *)
  running : list (nat * wst);   (* OS: live worker processes *)
  exited : list nat;            (* OS: exited processes whose exit notice is not yet delivered *)
  npid : nat;                   (* next fresh pid *)
  pipe : list (nat * Z);        (* named pipe, FIFO *)
  nreq : nat;                   (* next fresh request token *)
  acc : list (nat * nat);       (* log: request r was accepted by worker p *)
  served : list (nat * nat)     (* log: request r was answered by worker p *)
}.

(* ---- association lists standing for the Go map (keys unique) *)
Fixpoint amem {A} (k : nat) (l : list (nat * A)) : bool :=
  match l with [] => false | (k', _) :: t => if Nat.eqb k k' then true else amem k t end.
Fixpoint aget {A} (k : nat) (l : list (nat * A)) : option A :=
  match l with [] => None | (k', v) :: t => if Nat.eqb k k' then Some v else aget k t end.
Fixpoint aset {A} (k : nat) (v : A) (l : list (nat * A)) : list (nat * A) :=
  match l with
  | [] => [(k, v)]
  | (k', v') :: t => if Nat.eqb k k' then (k, v) :: t else (k', v') :: aset k v t
  end.
Fixpoint adel {A} (k : nat) (l : list (nat * A)) : list (nat * A) :=
  match l with [] => [] | (k', v') :: t => if Nat.eqb k k' then adel k t else (k', v') :: adel k t end.
Definition keys {A} (l : list (nat * A)) : list nat := map fst l.

Fixpoint nmem (k : nat) (l : list nat) : bool :=
  match l with [] => false | h :: t => if Nat.eqb k h then true else nmem k t end.
Fixpoint nremove (k : nat) (l : list nat) : list nat :=
  match l with [] => [] | h :: t => if Nat.eqb k h then nremove k t else h :: nremove k t end.

Fixpoint set_nth {A} (n : nat) (x : A) (l : list A) : list A :=
  match l, n with
  | [], _ => []
  | _ :: t, O => x :: t
  | h :: t, S n' => h :: set_nth n' x t
  end.

Definition zlen {A} (l : list A) : Z := Z.of_nat (length l).

(* ---- derived quantities *)
Definition fly_count (b : batch) : nat := match b_fly b with Some _ => 1%nat | None => 0%nat end.
Definition flys (bs : list batch) : list nat :=
  flat_map (fun b => match b_fly b with Some p => [p] | None => [] end) bs.
Definition reserved_nat (bs : list batch) : nat :=
  fold_right (fun b a => (b_rem b + fly_count b + a)%nat) 0%nat bs.
Definition reserved (s : state) : Z := Z.of_nat (reserved_nat (batches s)).
Definition live (s : state) : Z := zlen (running s).
Definition has_idle (cs : list (nat * Z)) : bool := existsb (fun c => Z.eqb (snd c) ST_IDLE) cs.
Definition quiescent (s : state) : Prop := reserved s = 0 /\ exited s = [].

(* ---- the master's three cases *)
Definition new_batch (n : Z) (bs : list batch) : list batch :=
  if 0 <? n then bs ++ [{| b_rem := Z.to_nat n; b_fly := None |}] else bs.

(* case aw := <-addChan *)
Definition m_add (pinned : bool) (pid : nat) (cs : list (nat * Z)) (rc : Z) : list (nat * Z) * Z :=
  let cs' := aset pid ST_IDLE cs in
  (cs', if pinned then zlen cs' else rc).

(* case uw := <-updateChan : result = (childs, refCount, size of the batch launched) *)
Definition m_update (c : cfg) (pid : nat) (stv : Z) (cs : list (nat * Z)) (rc : Z) : list (nat * Z) * Z * Z :=
  let cs' := if amem pid cs then aset pid stv cs else cs in
  if has_idle cs' then (cs', rc, 0)
  else
    let fin := if c_max c <? rc + c_inc c then c_max c else rc + c_inc c in
    (cs', fin, fin - rc).

(* case pid := <-delChan *)
Definition m_del (c : cfg) (pid : nat) (cs : list (nat * Z)) (rc : Z) : list (nat * Z) * Z * Z :=
  let cs' := adel pid cs in
  let rc1 := rc - 1 in
  if rc1 <? c_init c then (cs', c_init c, c_init c - rc1) else (cs', rc1, 0).

(* ---- events *)
Inductive event :=
| SpawnOne (b : nat)        (* batch b starts its next process (cmd.Start succeeded) *)
| MasterAdd (b : nat)       (* the loop receives the registration of batch b's started process *)
| MasterUpdate              (* the loop receives the oldest frame of the pipe *)
| MasterDel (p : nat)       (* the loop receives the exit notice of p *)
| WAccept (p : nat)         (* worker p accepts the next connection *)
| WFinish (p : nat)         (* worker p's handler returns in time *)
| WTimeout (p : nat)        (* worker p's request outlives --timeout: STOPPED, exit *)
| WCrash (p : nat)          (* worker p dies (crash, kill), with or without a request *)
| Stray (p : nat) (stv : Z). (* an arbitrary frame appears in the pipe *)

Definition is_master (e : event) : bool :=
  match e with SpawnOne _ | MasterAdd _ | MasterUpdate | MasterDel _ | Stray _ _ => true | _ => false end.

Definition upd_batches (s : state) (bs : list batch) : state :=
  {| childs := childs s; refCount := refCount s; batches := bs; running := running s; exited := exited s;
     npid := npid s; pipe := pipe s; nreq := nreq s; acc := acc s; served := served s |}.

Definition step_gen (pinned : bool) (c : cfg) (s : state) (e : event) : option state :=
  match e with
  | SpawnOne b =>
      match nth_error (batches s) b with
      | Some {| b_rem := S r; b_fly := None |} =>
          Some {| childs := childs s; refCount := refCount s;
                  batches := set_nth b {| b_rem := r; b_fly := Some (npid s) |} (batches s);
                  running := running s ++ [(npid s, WAccepting)]; exited := exited s;
                  npid := S (npid s); pipe := pipe s; nreq := nreq s; acc := acc s; served := served s |}
      | _ => None
      end
  | MasterAdd b =>
      match nth_error (batches s) b with
      | Some {| b_rem := r; b_fly := Some p |} =>
          let '(cs, rc) := m_add pinned p (childs s) (refCount s) in
          Some {| childs := cs; refCount := rc;
                  batches := set_nth b {| b_rem := r; b_fly := None |} (batches s);
                  running := running s; exited := exited s;
                  npid := npid s; pipe := pipe s; nreq := nreq s; acc := acc s; served := served s |}
      | _ => None
      end
  | MasterUpdate =>
      match pipe s with
      | (p, stv) :: rest =>
          let '(cs, rc, n) := m_update c p stv (childs s) (refCount s) in
          Some {| childs := cs; refCount := rc; batches := new_batch n (batches s);
                  running := running s; exited := exited s;
                  npid := npid s; pipe := rest; nreq := nreq s; acc := acc s; served := served s |}
      | [] => None
      end
  | MasterDel p =>
      if nmem p (exited s) && amem p (childs s) then
        let '(cs, rc, n) := m_del c p (childs s) (refCount s) in
        Some {| childs := cs; refCount := rc; batches := new_batch n (batches s);
                running := running s; exited := nremove p (exited s);
                npid := npid s; pipe := pipe s; nreq := nreq s; acc := acc s; served := served s |}
      else None
  | WAccept p =>
      match aget p (running s) with
      | Some w =>
          match wstep w (WEAccept (nreq s)) with
          | Some (Some w', fr, _) =>
              Some {| childs := childs s; refCount := refCount s; batches := batches s;
                      running := aset p w' (running s); exited := exited s;
                      npid := npid s; pipe := pipe s ++ [(p, fr)]; nreq := S (nreq s);
                      acc := acc s ++ [(nreq s, p)]; served := served s |}
          | _ => None
          end
      | None => None
      end
  | WFinish p =>
      match aget p (running s) with
      | Some w =>
          match wstep w WEFinish with
          | Some (Some w', fr, Some r) =>
              Some {| childs := childs s; refCount := refCount s; batches := batches s;
                      running := aset p w' (running s); exited := exited s;
                      npid := npid s; pipe := pipe s ++ [(p, fr)]; nreq := nreq s;
                      acc := acc s; served := served s ++ [(r, p)] |}
          | _ => None
          end
      | None => None
      end
  | WTimeout p =>
      match aget p (running s) with
      | Some w =>
          match wstep w WETimeout with
          | Some (None, fr, _) =>
              Some {| childs := childs s; refCount := refCount s; batches := batches s;
                      running := adel p (running s); exited := exited s ++ [p];
                      npid := npid s; pipe := pipe s ++ [(p, fr)]; nreq := nreq s;
                      acc := acc s; served := served s |}
          | _ => None
          end
      | None => None
      end
  | WCrash p =>
      match aget p (running s) with
      | Some _ =>
          Some {| childs := childs s; refCount := refCount s; batches := batches s;
                  running := adel p (running s); exited := exited s ++ [p];
                  npid := npid s; pipe := pipe s; nreq := nreq s; acc := acc s; served := served s |}
      | None => None
      end
  | Stray p stv =>
      Some {| childs := childs s; refCount := refCount s; batches := batches s;
              running := running s; exited := exited s;
              npid := npid s; pipe := pipe s ++ [(p, stv)]; nreq := nreq s; acc := acc s; served := served s |}
  end.

Definition step := step_gen false.          (* repaired code *)
Definition step_pinned := step_gen true.    (* code as pinned *)

(* StartMaster: the initial loop is a batch of InitProcs spawns; the repaired code has
   reserved them in refCount before the event loop starts, the pinned code has not. *)
Definition init_gen (pinned : bool) (c : cfg) : state :=
  {| childs := []; refCount := if pinned then 0 else c_init c;
     batches := new_batch (c_init c) [];
     running := []; exited := []; npid := 1; pipe := []; nreq := 0; acc := []; served := [] |}.
Definition init_state := init_gen false.
Definition init_pinned := init_gen true.

Fixpoint run_gen (pinned : bool) (c : cfg) (s : state) (tr : list event) : option state :=
  match tr with
  | [] => Some s
  | e :: tr' => match step_gen pinned c s e with Some s' => run_gen pinned c s' tr' | None => None end
  end.
Definition run := run_gen false.
Definition run_pinned := run_gen true.

(* ---- observation of a run, for the correspondence check: after every event that the
   master's loop handles, [refCount; |childs|; size of the batch launched; live] followed by
   the child table; [-1] marks the first event that is not enabled *)
Definition batch_total (bs : list batch) : Z := Z.of_nat (length bs).
Definition obs_state (s : state) (nb_before : Z) : list Z :=
  [refCount s; zlen (childs s); batch_total (batches s) - nb_before; live s; reserved s]
  ++ flat_map (fun kv => [Z.of_nat (fst kv); snd kv]) (childs s).

Fixpoint observe_gen (pinned : bool) (c : cfg) (s : state) (tr : list event) : list (list Z) :=
  match tr with
  | [] => []
  | e :: tr' =>
      match step_gen pinned c s e with
      | Some s' => obs_state s' (batch_total (batches s)) :: observe_gen pinned c s' tr'
      | None => [[-1]]
      end
  end.

Definition observe (pinned : bool) (ci cm cinc : Z) (tr : list event) : list (list Z) :=
  let c := {| c_init := ci; c_max := cm; c_inc := cinc |} in
  obs_state (init_gen pinned c) 0 :: observe_gen pinned c (init_gen pinned c) tr.

(* ---- the refutation witness for the pinned bookkeeping: init 1, max 4 *)
Definition cfg14 : cfg := {| c_init := 1; c_max := 4; c_inc := 10 |}.
Definition overshoot_trace : list event :=
  [SpawnOne 0; MasterAdd 0;          (* the initial worker (pid 1) is up *)
   WAccept 1; MasterUpdate;          (* it reports BUSY: nobody idle, batch of 3 reserved (refCount 4) *)
   SpawnOne 1; MasterAdd 1;          (* pid 2 registers: the pinned code sets refCount := len(childs) = 2 *)
   WAccept 2; MasterUpdate;          (* pid 2 reports BUSY: nobody idle, a second batch of 2 is reserved *)
   SpawnOne 1; MasterAdd 1; SpawnOne 1; MasterAdd 1;    (* rest of the first batch *)
   SpawnOne 2; MasterAdd 2; SpawnOne 2; MasterAdd 2]%nat. (* the second batch *)

(* which worker an event belongs to (None: an event of the master / the environment) *)
Definition ev_worker (e : event) : option nat :=
  match e with WAccept p | WFinish p | WTimeout p | WCrash p => Some p | _ => None end.
