(* Sem.v — the integrated evaluator model (DESIGN.md section 4): a transliteration of
   pkg/exec/eval.go, eval_function.go, eval_class.go, pkg/value/{function,object,class_model,array,
   hashmap,iv}.go for one module.  Statement execution is written parametrically in the expression
   evaluator [ev] (Section Stmt); [eval_expr] then ties the knot by recursion on fuel.
   Executable definitions only; proofs live in proofs/Sem*.v. *)
From Coq Require Import List ZArith Bool Lia.
From Zn.lib Require Import Float64.
From Zn.model Require Import SemDefs.
Import ListNotations.
Open Scope Z_scope.

(* ------------------------------------------------------------------------------------------ *)
(* built-in members of lists, dictionaries, objects, exceptions (pkg/value)                      *)

Definition nth_val (l : list val) (i : Z) : option val := if i <? 0 then None else nth_error l (Z.to_nat i).

(* value.insertArrayValue; None = Go panic (slice bounds out of range) *)
Definition insert_array (items : list val) (idx : Z) (v : val) : option (list val) :=
  let n := Z.of_nat (length items) in
  if idx >=? n then Some (items ++ [v])
  else let idx' := if idx <? 0 then n + idx else idx in
       let idx'' := if idx' <? 0 then 0 else idx' in          (* a position before the first item: the front *)
       Some (firstn (Z.to_nat idx'') items ++ [v] ++ skipn (Z.to_nat idx'') items).

Definition is_num (v : val) : bool := match v with VNum _ | VNumberType => true | _ => false end.
Definition num_bits (v : val) : Z := match v with VNum b => b | _ => 0 end.

Fixpoint remove_key (key : str) (kvs : list (str * val)) : list (str * val) :=
  match kvs with
  | (k0, v) :: tl => if str_eqb k0 key then tl else (k0, v) :: remove_key key tl
  | [] => []
  end.

(* HashMap.AppendKVPair *)
Fixpoint set_key (key : str) (v : val) (kvs : list (str * val)) : list (str * val) :=
  match kvs with
  | (k0, v0) :: tl => if str_eqb k0 key then (k0, v) :: tl else (k0, v0) :: set_key key v tl
  | [] => [(key, v)]
  end.

(* value.NewHashMap: first occurrence fixes the position, last value wins *)
Definition new_hashmap (pairs : list (str * val)) : list (str * val) :=
  fold_left (fun acc kv => set_key (fst kv) (snd kv) acc) pairs [].

Fixpoint assoc_name (x : name) (l : list (name * val)) : option val :=
  match l with
  | (k0, v) :: tl => if k0 =? x then Some v else assoc_name x tl
  | [] => None
  end.
Fixpoint set_assoc_name (x : name) (v : val) (l : list (name * val)) : list (name * val) :=
  match l with
  | (k0, v0) :: tl => if k0 =? x then (k0, v) :: tl else (k0, v0) :: set_assoc_name x v tl
  | [] => []
  end.
Fixpoint assoc_nat (x : name) (l : list (name * nat)) : option nat :=
  match l with
  | (k0, v) :: tl => if k0 =? x then Some v else assoc_nat x tl
  | [] => None
  end.

Definition xeq_res (fuel : nat) (st : state) (a b : val) : res bool :=
  match xeq fuel (heap st) a b with
  | CTrue => Ok true st
  | CFalse => Ok false st
  | CErr c => if c =? UNMODELLED then Crash UNMODELLED else Er (ERun c) st
  | CFuel => Fuel
  end.

(* first index (0-based) of an element equal to v, as arrayExecFind / arrayExecContains scan *)
Fixpoint find_eq (fuel : nat) (st : state) (items : list val) (v : val) (i : Z) : res Z :=
  match items with
  | [] => Ok (-1) st
  | x :: tl =>
    match xeq fuel (heap st) x v with
    | CTrue => Ok i st
    | CFalse => find_eq fuel st tl v (i + 1)
    | CErr c => if c =? UNMODELLED then Crash UNMODELLED else Er (ERun c) st
    | CFuel => Fuel
    end
  end.

(* value.containsElement / detachFrom (repaired inserting members): an item that is, or holds, the
   container it is put into is stored as a copy, so that no list or dictionary ever contains itself *)
Definition same_container (a b : val) : bool :=
  match a, b with
  | VList x, VList y => (x =? y)%nat
  | VDict x, VDict y => (x =? y)%nat
  | _, _ => false
  end.

Fixpoint reaches (fuel : nat) (h : list cell) (v target : val) : bool :=
  match fuel with
  | O => false
  | S k =>
    if same_container v target then true else
    match v with
    | VList l => match nth_error h l with
                 | Some (CList items) => existsb (fun x => reaches k h x target) items
                 | _ => false
                 end
    | VDict l => match nth_error h l with
                 | Some (CDict kvs) => existsb (fun kv => reaches k h (snd kv) target) kvs
                 | _ => false
                 end
    | _ => false
    end
  end.

Definition detach (fuel : nat) (st : state) (container item : val) : res val :=
  if reaches fuel (heap st) item container then dup_res fuel st item else Ok item st.

Fixpoint detach_all (fuel : nat) (st : state) (container : val) (items : list val) : res (list val) :=
  match items with
  | [] => Ok [] st
  | x :: tl =>
    let! (x', s1) := detach fuel st container x in
    let! (tl', s2) := detach_all fuel s1 container tl in
    Ok (x' :: tl') s2
  end.

(* Number.ExecMethod, 自增 / 自减 only, and only for a receiver that is a value of its own (a literal, the result of an
   operator): the implementation updates the Number in place and hands it back, which for such a receiver is the same as
   handing back the sum.  (Numbers have no identity in this model: in-place updates of numbers that are held elsewhere
   are outside it, see DESIGN.md.) *)
Definition num_method (st : state) (b : Z) (m : name) (args : list val) : res val :=
  if (m =? M_INC) || (m =? M_DEC) then
    match args with
    | [VNum d] => Ok (VNum (if m =? M_INC then fadd b d else fsub b d)) st
    | [_] => Er (ERun E_PARAMTYPE) st
    | _ => Er (ERun E_EXACT) st
    end
  else Er (ERun E_NOMETHOD) st.

(* Array.ExecMethod *)
Definition list_method (fuel : nat) (st : state) (l : nat) (items : list val) (m : name) (args : list val) : res val :=
  if m =? M_APPEND then
    match args with
    | [v] => let! (v', s1) := detach fuel st (VList l) v in Ok (VList l) (hset s1 l (CList (items ++ [v'])))
    | _ => Er (ERun E_EXACT) st
    end
  else if m =? M_PREPEND then
    match args with
    | [v] => let! (v', s1) := detach fuel st (VList l) v in Ok (VList l) (hset s1 l (CList (v' :: items)))
    | _ => Er (ERun E_EXACT) st
    end
  else if (m =? M_INSERT) || (m =? M_INSERT2) then
    match args with
    | [v; i] =>
      if negb (is_num i) then Er (ERun E_PARAMTYPE) st else
      let! (v', s1) := detach fuel st (VList l) v in
      match insert_array items (to_int (num_bits i)) v' with
      | Some items' => Ok (VList l) (hset s1 l (CList items'))
      | None => Crash 1
      end
    | _ => Er (ERun E_EXACT) st
    end
  else if m =? M_SHIFT then
    match items with
    | [] => Ok VNull (hset st l (CList []))
    | x :: tl => Ok x (hset st l (CList tl))
    end
  else if m =? M_POP then
    match rev items with
    | [] => Ok VNull (hset st l (CList []))
    | x :: tl => Ok x (hset st l (CList (rev tl)))
    end
  else if m =? M_MERGE then
    let fix collect (args : list val) (acc : list val) : option (list val) :=
        match args with
        | [] => Some acc
        | VList la :: tl => match hget st la with
                            | Some (CList xs) => collect tl (acc ++ xs)
                            | _ => None
                            end
        | _ => None
        end in
    if negb (forallb (fun a => match a with VList _ => true | _ => false end) args) then Er (ERun E_PARAMTYPE) st else
    match collect args [] with
    | Some extra =>
      let! (extra', s0) := detach_all fuel st (VList l) extra in
      let result := items ++ extra' in
      let st1 := hset s0 l (CList result) in
      let (l', st2) := alloc st1 (CList result) in Ok (VList l') st2
    | None => Crash UNMODELLED
    end
  else if m =? M_SWAP then
    match args with
    | [a; b] =>
      if negb (is_num a) || negb (is_num b) then Er (ERun E_PARAMTYPE) st else
      let c0 := to_int (fsub (ffloor (num_bits a)) (of_int 1)) in
      let c1 := to_int (fsub (ffloor (num_bits b)) (of_int 1)) in
      let n := Z.of_nat (length items) in
      if (c0 <? 0) || (c0 >=? n) || (c1 <? 0) || (c1 >=? n) then Er (ERun E_INDEX) st else
      match nth_val items c0, nth_val items c1 with
      | Some x0, Some x1 =>
        Ok (VList l) (hset st l (CList (list_set (list_set items (Z.to_nat c0) x1) (Z.to_nat c1) x0)))
      | _, _ => Crash 2
      end
    | _ => Er (ERun E_EXACT) st
    end
  else if m =? M_CONTAINS then
    match args with
    | [v] => let! (i, s) := find_eq fuel st items v 0 in Ok (VBool (0 <=? i)) s
    | _ => Er (ERun E_EXACT) st
    end
  else if m =? M_FIND then
    match args with
    | [v] => let! (i, s) := find_eq fuel st items v 0 in Ok (VNum (of_int i)) s
    | _ => Er (ERun E_EXACT) st
    end
  else Er (ERun E_NOMETHOD) st.

(* HashMap.ExecMethod *)
Definition dict_method (fuel : nat) (st : state) (l : nat) (kvs : list (str * val)) (m : name) (args : list val) : res val :=
  if m =? M_SET then
    match args with
    | [VStr key; v] => let! (v', s1) := detach fuel st (VDict l) v in Ok v (hset s1 l (CDict (set_key key v' kvs)))
    | [_; _] => Er (ERun E_PARAMTYPE) st
    | _ => Er (ERun E_EXACT) st
    end
  else if m =? M_DELETE then
    match args with
    | [VStr key] =>
      match assoc_str key kvs with
      | Some v => Ok v (hset st l (CDict (remove_key key kvs)))
      | None => Ok VNull st
      end
    | [_] => Er (ERun E_PARAMTYPE) st
    | _ => Er (ERun E_EXACT) st
    end
  else if m =? M_GET then
    if negb (forallb (fun a => match a with VStr _ => true | _ => false end) args) then Er (ERun E_PARAMTYPE) st else
    (fix go (args : list val) (cur : val) : res val :=
       match args with
       | [] => Ok cur st
       | VStr key :: tl =>
         match cur with
         | VDict lc => match hget st lc with
                       | Some (CDict ckvs) => match assoc_str key ckvs with
                                              | Some v => go tl v
                                              | None => Ok VNull st
                                              end
                       | _ => Crash UNMODELLED
                       end
         | _ => Ok VNull st
         end
       | _ => Crash UNMODELLED
       end) args (VDict l)
  else Er (ERun E_NOMETHOD) st.

(* GetProperty of built-in values (IV member reduce, RHS) *)
Definition get_property (st : state) (root : val) (m : name) : res val :=
  match root with
  | VList l =>
    match hget st l with
    | Some (CList items) =>
      if (m =? M_LEN) || (m =? M_COUNT) then Ok (VNum (of_int (Z.of_nat (length items)))) st
      else if m =? M_FIRST then Ok (match items with x :: _ => x | [] => VNull end) st
      else if m =? M_LAST then Ok (match rev items with x :: _ => x | [] => VNull end) st
      else if m =? M_REV then let (l', st') := alloc st (CList (rev items)) in Ok (VList l') st'
      else if m =? M_TEXT then Crash UNMODELLED
      else Er (ERun E_NOPROP) st
    | _ => Crash UNMODELLED
    end
  | VDict l =>
    match hget st l with
    | Some (CDict kvs) =>
      if (m =? M_LEN) || (m =? M_COUNT) then Ok (VNum (of_int (Z.of_nat (length kvs)))) st
      else if m =? M_KEYS then let (l', st') := alloc st (CList (map (fun kv => VStr (fst kv)) kvs)) in Ok (VList l') st'
      else if m =? M_VALUES then let (l', st') := alloc st (CList (map snd kvs)) in Ok (VList l') st'
      else Er (ERun E_NOPROP) st
    | _ => Crash UNMODELLED
    end
  | VObj l =>
    match hget st l with
    | Some (CObj _ props) =>
      if m =? M_SELF then Ok root st
      else match assoc_name m props with
           | Some v => Ok v st
           | None => Er (ERun E_NOPROP) st
           end
    | _ => Crash UNMODELLED
    end
  | VExc mg =>
    if m =? M_CONTENT then
      match mg with MText s => Ok (VStr s) st | MRun c => Ok (VStr [-1; c]) st end
    else Er (ERun E_NOPROP) st
  | VStr s =>
    if m =? M_LEN then Ok (VNum (of_int (Z.of_nat (length s)))) st
    else if m =? M_TEXT then Ok (VStr s) st
    else Crash UNMODELLED
  | VFunc _ | VNative _ | VClass _ => Er (ERun E_NOPROP) st
  | _ => Crash UNMODELLED
  end.

(* SetProperty (IV member reduce, LHS) *)
Definition set_property (st : state) (root : val) (m : name) (v : val) : res unit :=
  match root with
  | VList l =>
    match hget st l with
    | Some (CList items) =>
      if m =? M_FIRST then
        Ok tt (hset st l (CList (match items with [] => [v] | _ :: tl => v :: tl end)))
      else if m =? M_LAST then
        Ok tt (hset st l (CList (match rev items with [] => [v] | _ :: tl => rev (v :: tl) end)))
      else Er (ERun E_NOPROP) st
    | _ => Crash UNMODELLED
    end
  | VObj l =>
    match hget st l with
    | Some (CObj c props) =>
      match assoc_name m props with
      | Some _ => Ok tt (hset st l (CObj c (set_assoc_name m v props)))
      | None => Er (ERun E_NOPROP) st
      end
    | _ => Crash UNMODELLED
    end
  | _ => Er (ERun E_NOPROP) st
  end.

(* value.IV: index read / write *)
Definition index_get (st : state) (root idx : val) : res val :=
  match root with
  | VList l =>
    if negb (is_num idx) then Er (ERun E_EXPRTYPE) st else
    match hget st l with
    | Some (CList items) =>
      let ri := to_int (num_bits idx) - 1 in
      match nth_val items ri with
      | Some v => Ok v st
      | None => Er (ERun E_INDEX) st
      end
    | _ => Crash UNMODELLED
    end
  | VDict l =>
    let key := match idx with
               | VNum b => num_text b
               | VStr s => Some s
               | _ => Some [] end in
    match idx with
    | VNum _ | VStr _ =>
      match key, hget st l with
      | Some k0, Some (CDict kvs) =>
        match assoc_str k0 kvs with
        | Some v => Ok v st
        | None => Er (ERun E_KEY) st
        end
      | _, _ => Crash UNMODELLED
      end
    | _ => Er (ERun E_EXPRTYPE) st
    end
  | _ => Er (ERun E_EXPRTYPE) st
  end.

Definition index_set (st : state) (root idx v : val) : res unit :=
  match root with
  | VList l =>
    if negb (is_num idx) then Er (ERun E_EXPRTYPE) st else
    match hget st l with
    | Some (CList items) =>
      let ri := to_int (num_bits idx) - 1 in
      if (ri <? 0) || (ri >=? Z.of_nat (length items)) then Er (ERun E_INDEX) st
      else Ok tt (hset st l (CList (list_set items (Z.to_nat ri) v)))
    | _ => Crash UNMODELLED
    end
  | VDict l =>
    let key := match idx with
               | VNum b => num_text b
               | VStr s => Some s
               | _ => Some [] end in
    match idx with
    | VNum _ | VStr _ =>
      match key, hget st l with
      | Some k0, Some (CDict kvs) => Ok tt (hset st l (CDict (set_key k0 v kvs)))
      | _, _ => Crash UNMODELLED
      end
    | _ => Er (ERun E_EXPRTYPE) st
    end
  | _ => Er (ERun E_EXPRTYPE) st
  end.

(* ------------------------------------------------------------------------------------------ *)
(* operators (pkg/exec/eval.go:768-1111)                                                        *)

Definition arith_op (st : state) (op : arith) (a b : val) : res val :=
  match op with
  | AMod =>
    match a, b with
    | VNum x, VNum y =>
      if fis_zero y then Er (ERun E_DIVZERO) st
      else Ok (VNum (fsub x (fmul (ffloor (fdiv x y)) y))) st
    | VStr _, VList _ => Crash UNMODELLED              (* text % list: formatting, property C14 *)
    | _, _ => Er (ERun E_EXPRTYPE) st
    end
  | _ =>
    match a with
    | VNum x =>
      match b with
      | VNum y =>
        match op with
        | AAdd => Ok (VNum (fadd x y)) st
        | ASub => Ok (VNum (fsub x y)) st
        | AMul => Ok (VNum (fmul x y)) st
        | ADiv => if fis_zero y then Er (ERun E_DIVZERO) st else Ok (VNum (fdiv x y)) st
        | _ => if fis_zero y then Er (ERun E_DIVZERO) st else Ok (VNum (ffloor (fdiv x y))) st
        end
      | _ => Er (ERun E_EXPRTYPE) st
      end
    | _ => Er (ERun E_EXPRTYPE) st
    end
  end.

Definition order_op (st : state) (op : logic) (a b : val) : res val :=
  match a with
  | VNum x =>
    match b with
    | VNum y =>
      Ok (VBool (match op with LGt => fgt x y | LGte => fge x y | LLt => flt x y | _ => fle x y end)) st
    | _ => Er (ERun E_CMPR) st
    end
  | _ => Er (ERun E_CMPL) st
  end.

Definition compare_op (fuel : nat) (st : state) (op : logic) (a b : val) : res val :=
  match op with
  | LEq | LXeq => let! (r, s) := xeq_res fuel st a b in Ok (VBool r) s
  | LNeq | LXneq =>
    (* the code negates the result before looking at the error; an error wins *)
    let! (r, s) := xeq_res fuel st a b in Ok (VBool (negb r)) s
  | _ => order_op st op a b
  end.

(* the arguments of 显示, rendered and joined by one space *)
Definition display_line (st : state) (args : list val) : list Z :=
  match sequence (map (val_text 64 (heap st)) args) with
  | Some parts => join [32] parts
  | None => [-1]
  end.

(* ------------------------------------------------------------------------------------------ *)
(* statements, blocks, calls — parametric in the expression evaluator                           *)

Section Stmt.
  Variable ev : state -> expr -> res val.

  Fixpoint evs (es : list expr) (st : state) : res (list val) :=
    match es with
    | [] => Ok [] st
    | e :: tl =>
      let! (v, s1) := ev st e in
      let! (vs, s2) := evs tl s1 in
      Ok (v :: vs) s2
    end.

  (* Function.Exec's conversion of errors (pkg/value/function.go:38-60) *)
  Definition convert_err {A} (r : res A) : res A :=
    match r with
    | Er (ERun c) s => Er (EGo (MRun c)) s
    | r => r
    end.

  Definition declare_params (st : state) (ps : list name) (args : list val) : res unit :=
    (fix go (ps : list name) (args : list val) (st : state) : res unit :=
       match ps, args with
       | p :: pt, a :: at_ => let! (_, s) := vm_declare st p a true in go pt at_ s
       | _, _ => Ok tt st
       end) ps args st.

  Definition is_loop_signal (e : err) : option bool :=      (* Some true = continue, Some false = break *)
    match e with EContinue => Some true | EBreak => Some false | _ => None end.

  (* exception class name used for handler matching; None = no handler can match *)
  Definition exc_class (st : state) (v : val) : option name :=
    match v with
    | VExc _ => Some ID_EXC
    | VObj l => match hget st l with
                | Some (CObj c _) => match nth_error (classes st) c with Some cd => Some (c_name cd) | None => None end
                | _ => None
                end
    | _ => None
    end.

  (* value.NewObject: every default property value is duplicated *)
  Definition new_object (fuel : nat) (st : state) (c : nat) (cd : classdef) : res val :=
    let fix go (ps : list (name * val)) (st : state) (acc : list (name * val)) : res (list (name * val)) :=
        match ps with
        | [] => Ok (rev acc) st
        | (p, v) :: tl => let! (v', s) := dup_res fuel st v in go tl s ((p, v') :: acc)
        end in
    let! (props, s1) := go (c_props cd) st [] in
    let (l, s2) := alloc s1 (CObj c props) in
    Ok (VObj l) s2.

  (* evalStmtBlock's first pass: type, method and constructor definitions of the block *)
  Fixpoint hoist (st : state) (b : block) : res unit :=
      match b with
      | [] => Ok tt st
      | (_, s) :: tl =>
        let! (_, s1) :=
           match s with
           | SFunc f params body cs =>
             let fid := length (funs st) in
             let st1 := set_funs st (funs st ++ [{| fd_params := params; fd_body := body; fd_catch := cs |}]) in
             vm_declare st1 f (VFunc fid) true
           | SClass cls props methods =>
             let! (pvals, sa) :=
                (fix props_go (ps : list (name * expr)) (st : state) (acc : list (name * val)) : res (list (name * val)) :=
                   match ps with
                   | [] => Ok acc st
                   | (p, e) :: pt =>
                     let! (v, s) := ev st e in
                     (* DefineProperty overwrites an earlier property of the same name *)
                     props_go pt s (match assoc_name p acc with
                                    | Some _ => set_assoc_name p v acc
                                    | None => acc ++ [(p, v)] end)
                   end) props st [] in
             let base := length (funs sa) in
             let fds := map (fun m => match m with (_, (ps, body, cs)) => {| fd_params := ps; fd_body := body; fd_catch := cs |} end) methods in
             let mtab := combine (map fst methods) (seq base (length methods)) in
             (* DefineMethod overwrites: the last definition of a name wins, so look names up from the end *)
             let sb := set_funs sa (funs sa ++ fds) in
             let cid := length (classes sb) in
             let sc := set_classes sb (classes sb ++ [{| c_name := cls; c_props := pvals; c_methods := rev mtab; c_ctor := CtorDefault |}]) in
             vm_declare sc cls (VClass cid) true
           | SCtor cls params body cs =>
             let! (cv, sa) := vm_find st cls in
             match cv with
             | VClass c =>
               match nth_error (classes sa) c with
               | Some cd =>
                 let fid := length (funs sa) in
                 let sb := set_funs sa (funs sa ++ [{| fd_params := params; fd_body := body; fd_catch := cs |}]) in
                 Ok tt (set_classes sb (list_set (classes sb) c
                          {| c_name := c_name cd; c_props := c_props cd; c_methods := c_methods cd; c_ctor := CtorUser fid |}))
               | None => Crash 5
               end
             | _ => Er (ERun E_CLASSTYPE) sa
             end
           | _ => Ok tt st
           end in
        hoist s1 tl
      end.


  (* ---- loop and block drivers, parametric in the sub-evaluators they run ---- *)

  (* evalVarDeclareStmt, inner loop: every name receives its own duplicate *)
  Fixpoint decl_names (fuel : nat) (c : bool) (names : list name) (obj : val) (st : state) : res unit :=
    match names with
    | [] => Ok tt st
    | x :: nt =>
      let! (obj', sa) := dup_res fuel st obj in
      let! (_, sb) := vm_declare sa x obj' c in
      decl_names fuel c nt obj' sb
    end.

  Fixpoint decl_pairs (fuel : nat) (pairs : list (bool * list name * expr)) (st : state) : res val :=
    match pairs with
    | [] => Ok VNull st
    | (c, names, e) :: tl =>
      let! (obj, s1) := ev st e in
      let! (_, s2) := decl_names fuel c names obj s1 in
      decl_pairs fuel tl s2
    end.

  (* what a loop does with the outcome of one pass: Some r = the loop ends with r, None = next pass *)
  Definition after_pass (r : res val) : option (res val) * option state :=
    match r with
    | Ok _ s2 =>
      match top_ret s2 with
      | Some _ => (Some (Ok VNull s2), None)                   (* 输出 inside the body ends the loop *)
      | None => (None, Some s2)
      end
    | Er e s2 =>
      match is_loop_signal e with
      | Some true => (None, Some s2)
      | Some false => (Some (Ok VNull s2), None)
      | None => (Some (Er e s2), None)
      end
    | Fuel => (Some Fuel, None)
    | Crash w => (Some (Crash w), None)
    end.

  (* evalWhileLoopStmt; [j] bounds the number of passes; [l] is the line of the 每当 statement: the condition is
     evaluated at that line on every pass (a fault in it is reported there, not at the last statement of the body) *)
  Fixpoint while_loop (body : state -> res val) (c : expr) (l : Z) (j : nat) (st : state) : res val :=
    match j with
    | O => Fuel
    | S j' =>
      let! (cv, s1) := ev (set_line st l) c in
      match cv with
      | VBool true =>
        match after_pass (body s1) with
        | (Some r, _) => r
        | (None, Some s2) => while_loop body c l j' s2
        | (None, None) => Crash 8
        end
      | VBool false => Ok VNull s1
      | _ => Er (ERun E_EXPRTYPE) s1
      end
    end.

  (* evalBranchStmt: the 再如 branches in order, then 否则 *)
  Fixpoint branch_others (blk : block -> state -> res val) (others : list (expr * block)) (els : option block)
           (st : state) : res val :=
    match others with
    | [] =>
      match els with
      | Some b => let! (_, s2) := blk b st in Ok VNull s2
      | None => Ok VNull st
      end
    | (ce, b) :: tl =>
      let! (cv, s1) := ev st ce in
      match cv with
      | VBool true => let! (_, s2) := blk b s1 in Ok VNull s2
      | VBool false => branch_others blk tl els s1
      | _ => Er (ERun E_EXPRTYPE) s1
      end
    end.

  (* evalIterateStmt: binding of the loop variables before a pass *)
  Definition bind_loop_vars (names : list name) (key item : val) (st : state) : res unit :=
    match names with
    | [v] => vm_set st v item
    | [kx; v] => let! (_, sx) := vm_set st kx key in vm_set sx v item
    | _ => Ok tt st
    end.

  Fixpoint iter_items (body : state -> res val) (names : list name) (items : list (val * val)) (st : state) : res val :=
    match items with
    | [] => Ok VNull st
    | (key, item) :: tl =>
      match after_pass (let! (_, sa) := bind_loop_vars names key item st in body sa) with
      | (Some r, _) => r
      | (None, Some sb) => iter_items body names tl sb
      | (None, None) => Crash 8
      end
    end.

  Definition declare_loop_vars (names : list name) (st : state) : res unit :=
    match names with
    | [] => Ok tt st
    | [v] => vm_declare st v VNull false
    | [kx; v] => let! (_, sa) := vm_declare st kx VNull false in vm_declare sa v VNull false
    | _ => Er (ERun E_MOST) st
    end.

  (* the (index, element) / (key, value) pairs a 遍历 visits, in order *)
  Definition iter_pairs (st : state) (target : val) : option (list (val * val)) :=
    match target with
    | VList l =>
      match hget st l with
      | Some (CList items) => Some (combine (map (fun i => VNum (of_int (Z.of_nat i))) (seq 1 (length items))) items)
      | _ => None
      end
    | VDict l =>
      match hget st l with
      | Some (CDict kvs) => Some (map (fun kv => (VStr (fst kv), snd kv)) kvs)
      | _ => None
      end
    | _ => None
    end.

  Definition is_collection (v : val) : bool := match v with VList _ | VDict _ => true | _ => false end.
  Definition is_def (s : stmt) : bool :=
    match s with SFunc _ _ _ _ | SCtor _ _ _ _ | SClass _ _ _ => true | _ => false end.

  (* the deferred EndScope of a block: runs whether the block ends normally or with an error *)
  Definition scoped (r : res val) : res val :=
    match r with
    | Ok v s => Ok v (end_scope s)
    | Er e s => Er e (end_scope s)
    | r => r
    end.

  (* evalPureStmtBlock's loop over the statements; [last] is the value of the last executed statement *)
  Fixpoint block_go (exec : state -> stmt -> res val) (b : block) (st : state) (last : val) : res val :=
    match b with
    | [] => Ok last st
    | (line, s) :: tl =>
      if is_def s then
        match top_ret st with
        | Some r => Ok r st
        | None => block_go exec tl st last
        end
      else
        let! (v, s1) := exec (set_line st line) s in
        match top_ret s1 with
        | Some r => Ok r s1
        | None => block_go exec tl s1 v
        end
    end.

  Fixpoint exec_stmt (k : nat) (st : state) (s : stmt) {struct k} : res val :=
    match k with
    | O => Fuel
    | S k' =>
      match s with
      | SDecl pairs => decl_pairs k' pairs st
      | SWhile c body => while_loop (fun s1 => exec_block k' s1 body) c (cur_line st) k' st
      | SBranch c t others els =>
        let! (cv, s1) := ev st c in
        match cv with
        | VBool true => let! (_, s2) := exec_block k' s1 t in Ok VNull s2
        | VBool false => branch_others (fun b s => exec_block k' s b) others els s1
        | _ => Er (ERun E_EXPRTYPE) s1
        end
      | SIter e names body =>
        scoped
          (let! (target, s1) := ev (begin_scope st) e in
           let! (_, s2) := declare_loop_vars names s1 in
           if is_collection target then
             match iter_pairs s2 target with
             | Some items => iter_items (fun sa => exec_block k' sa body) names items s2
             | None => Crash UNMODELLED
             end
           else Er (ERun E_EXPRTYPE) s2)
      | SReturn e =>
        let! (v, s1) := ev st e in
        Ok v (set_ret s1 (Some v))
      | SBreak => Er EBreak st
      | SContinue => Er EContinue st
      | SThrow cls args =>
        (* evalThrowExceptionStmt: the class must be a type (InvalidExceptionType otherwise); building the
           exception value is ClassModel.Construct on the evaluated arguments, i.e. what 新建 does *)
        let! (cv, s1) := vm_find st cls in
        match cv with
        | VClass _ => let! (obj, s2) := ev s1 (ENew cls args) in Er (EExc obj) s2
        | _ => Er (ERun E_EXCTYPE) s1
        end
      | SExpr e => ev st e
      | SEmpty => Ok VNull st
      | SFunc _ _ _ _ | SCtor _ _ _ _ | SClass _ _ _ => Ok VNull st   (* hoisted; skipped by evalPureStmtBlock *)
      end
    end

  (* evalPureStmtBlock *)
  with exec_block (k : nat) (st : state) (b : block) {struct k} : res val :=
    match k with
    | O => Fuel
    | S k' => scoped (block_go (exec_stmt k') b (begin_scope st) VNull)
    end.

  (* handleExceptionSignal (repaired): which exception value an error denotes, if any *)
  Definition exc_of_err (e : err) : option val :=
    match e with
    | EExc v => Some v
    | ERun c => Some (VExc (MRun c))
    | EGo m => Some (VExc m)
    | _ => None
    end.

  Fixpoint find_handler (cn : name) (hs : catches) : option block :=
    match hs with
    | [] => None
    | (hn, hb) :: tl => if hn =? cn then Some hb else find_handler cn tl
    end.

  (* the handler runs in an exception frame on top of the frames of the body that declared it;
     frames left by the failed calls are dropped first; its 输出 value (空 if none) is the body's value *)
  Definition run_handler (k' : nat) (s4 : state) (entry_depth : nat) (xv : val) (hb : block) : res val :=
    let s5 := push_frame (unwind s4 entry_depth) 3 (Some xv) in
    let! (_, s6) := exec_block k' s5 hb in
    Ok (match top_ret s6 with Some r => r | None => VNull end) (pop_frame s6).

  Definition handle_exception (k' : nat) (entry_depth : nat) (hs : catches) (e : err) (s4 : state) : res val :=
    match exc_of_err e with
    | None => Er e s4
    | Some xv =>
      match exc_class s4 xv with
      | None => Er e s4
      | Some cn =>
        match find_handler cn hs with
        | None => Er e s4
        | Some hb => run_handler k' s4 entry_depth xv hb
        end
      end
    end.

  (* 此 is declared for method calls (function frame with a receiver) *)
  Definition declare_this (st0 : state) : state :=
    match top_kind st0, top_this st0 with
    | 2, Some this => match vm_declare st0 ID_THIS this true with Ok _ s => s | _ => st0 end
    | _, _ => st0
    end.

  (* 结束循环 / 继续循环 outside any loop of the body: an error of the body, never a signal to the caller *)
  Definition E_UNEXPECTED := 70.
  Definition stray_signal (r : res val) : res val :=
    match r with
    | Er EBreak s | Er EContinue s => Er (ERun E_UNEXPECTED) s
    | r => r
    end.

  (* evalExecBlock + evalStmtBlock + handleExceptionSignal *)
  Definition exec_exec_block (k' : nat) (st : state) (fd : fundef) (args : list val) : res val :=
    let entry_depth := length (stack st) in
    scoped
      (let s1 := declare_this (begin_scope st) in
       if negb (length args =? length (fd_params fd))%nat then Er (ERun E_PARAMLEN) s1 else
       let! (_, s2) := declare_params s1 (fd_params fd) args in
       stray_signal
         (match (let! (_, s3) := hoist s2 (fd_body fd) in exec_block k' s3 (fd_body fd)) with
          | Er e s4 => handle_exception k' entry_depth (fd_catch fd) e s4
          | r => r
          end)).

  (* ClassModel.Construct *)
  Definition construct (k' : nat) (st : state) (c : nat) (args : list val) : res val :=
      match nth_error (classes st) c with
      | None => Crash 3
      | Some cd =>
        let! (inst, s1) := new_object k' st c cd in
        match c_ctor cd with
        | CtorDefault => Ok inst s1
        | CtorException =>
          match args with
          | [VStr s] => Ok (VExc (MText s)) s1
          | [_] => Er (ERun E_PARAMTYPE) s1
          | _ => Er (ERun E_EXACT) s1
          end
        | CtorUser f =>
          match nth_error (funs s1) f with
          | None => Crash 4
          | Some fd =>
            let s2 := push_frame s1 2 (Some inst) in
            let! (_, s3) := exec_exec_block k' s2 fd args in
            Ok inst (pop_frame s3)
          end
        end
      end.

  (* Function.Exec on a user function *)
  Definition call_fun (k : nat) (st : state) (f : nat) (args : list val) : res val :=
    match nth_error (funs st) f with
    | Some fd => convert_err (exec_exec_block k st fd args)
    | None => Crash 6
    end.

  (* execDirectFunction *)
  Definition exec_direct (k : nat) (st : state) (f : name) (args : list val) : res val :=
    let! (fv, s1) := vm_find st f in
    (* the frame belongs to the module the name was found in: the predefined names live in the native-code module
       (frame kind 4 = a function frame of that module; it has no source lines) *)
    let s2 := push_frame s1 (if is_global f then 4 else 2) None in
    match fv with
    | VFunc fid => let! (v, s3) := call_fun k s2 fid args in Ok v (pop_frame s3)
    | VNative nk =>
      if nk =? ID_DISPLAY then Ok VNull (pop_frame (set_out s2 (display_line s2 args :: out s2)))
      else Crash UNMODELLED
    | _ => Er (ERun E_FUNCVAR) s2
    end.

  (* execMethodFunction *)
  Definition exec_method (k : nat) (st : state) (root : val) (m : name) (args : list val) : res val :=
    match root with
    | VObj l =>
      match hget st l with
      | Some (CObj c _) =>
        match nth_error (classes st) c with
        | Some cd =>
          let! (_, s1) := vm_find st (c_name cd) in
          let s2 := push_frame s1 2 (Some root) in
          match assoc_nat m (c_methods cd) with
          | Some fid => let! (v, s3) := call_fun k s2 fid args in Ok v (pop_frame s3)
          | None => Er (ERun E_NOMETHOD) s2
          end
        | None => Crash 7
        end
      | _ => Crash UNMODELLED
      end
    | VList l =>
      let s2 := push_frame st 4 (Some root) in
      match hget s2 l with
      | Some (CList items) => let! (v, s3) := list_method k s2 l items m args in Ok v (pop_frame s3)
      | _ => Crash UNMODELLED
      end
    | VDict l =>
      let s2 := push_frame st 4 (Some root) in
      match hget s2 l with
      | Some (CDict kvs) => let! (v, s3) := dict_method k s2 l kvs m args in Ok v (pop_frame s3)
      | _ => Crash UNMODELLED
      end
    | VNum b =>
      let s2 := push_frame st 4 (Some root) in
      let! (v, s3) := num_method s2 b m args in Ok v (pop_frame s3)
    | VNull | VBool _ | VFunc _ | VClass _ | VExc _ | VNative _ => Er (ERun E_NOMETHOD) (push_frame st 4 (Some root))
    | _ => Crash UNMODELLED
    end.
End Stmt.

(* ------------------------------------------------------------------------------------------ *)
(* expressions (evalExpression) — recursion on fuel                                             *)

Fixpoint eval_expr (n : nat) (st : state) (e : expr) : res val :=
  match n with
  | O => Fuel
  | S n' =>
    let ev := eval_expr n' in
    match e with
    | ENum b => Ok (VNum b) st
    | EStr s => Ok (VStr s) st
    | EVar x => vm_find st x
    | EArr items =>
      let! (vs, s1) := evs ev items st in
      let (l, s2) := alloc s1 (CList vs) in Ok (VList l) s2
    | EMap items =>
      let! (vs, s1) := evs ev (map snd items) st in
      let (l, s2) := alloc s1 (CDict (new_hashmap (combine (map fst items) vs))) in Ok (VDict l) s2
    | EArith op l r =>
      let! (a, s1) := ev st l in
      match op with
      | AMod =>
        let! (b, s2) := ev s1 r in arith_op s2 op a b
      | _ =>
        if negb (is_num a) then Er (ERun E_EXPRTYPE) s1 else
        let! (b, s2) := ev s1 r in arith_op s2 op a b
      end
    | ELogic op l r =>
      match op with
      | LAnd | LOr =>
        let! (a, s1) := ev st l in
        match a with
        | VBool x =>
          match op, x with
          | LAnd, false => Ok (VBool false) s1
          | LOr, true => Ok (VBool true) s1
          | _, _ =>
            let! (b, s2) := ev s1 r in
            match b with
            | VBool y => Ok (VBool (match op with LAnd => x && y | _ => x || y end)) s2
            | _ => Er (ERun E_EXPRTYPE) s2
            end
          end
        | _ => Er (ERun E_EXPRTYPE) s1
        end
      | _ =>
        let! (a, s1) := ev st l in
        let! (b, s2) := ev s1 r in
        compare_op n' s2 op a b
      end
    | EAssignVar x e1 =>
      let! (v, s1) := ev st e1 in
      let! (v', s2) := dup_res n' s1 v in
      let! (_, s3) := vm_set s2 x v' in Ok v' s3
    | EAssignIndex root idx e1 =>
      let! (v, s1) := ev st e1 in
      let! (v', s2) := dup_res n' s1 v in
      let! (rv, s3) := ev s2 root in
      let! (iv, s4) := ev s3 idx in
      let! (_, s5) := index_set s4 rv iv v' in Ok v' s5
    | EAssignMember root m e1 =>
      let! (v, s1) := ev st e1 in
      let! (v', s2) := dup_res n' s1 v in
      let! (rv, s3) := ev s2 root in
      let! (_, s4) := set_property s3 rv m v' in Ok v' s4
    | EAssignThis m e1 =>
      let! (v, s1) := ev st e1 in
      let! (v', s2) := dup_res n' s1 v in
      match top_this s2 with
      | None => Er (ERun E_NOTHIS) s2
      | Some this => let! (_, s3) := set_property s2 this m v' in Ok v' s3
      end
    | EIndex root idx =>
      let! (rv, s1) := ev st root in
      let! (iv, s2) := ev s1 idx in
      index_get s2 rv iv
    | EMember root m =>
      let! (rv, s1) := ev st root in
      get_property s1 rv m
    | EThisProp m =>
      match top_this st with
      | None => Er (ERun E_NOTHIS) st
      | Some this => get_property st this m
      end
    | ECall f args yield =>
      let! (vs, s1) := evs ev args st in
      let! (v, s2) := exec_direct ev n' s1 f vs in
      match yield with
      | Some y => let! (_, s3) := vm_declare s2 y v true in Ok v s3
      | None => Ok v s2
      end
    | EMethod root chain yield =>
      let! (rv, s1) := ev st root in
      let! (v, s2) :=
         (fix chain_go (chain : list (name * list expr)) (cur : val) (st : state) : res val :=
            match chain with
            | [] => Ok cur st
            | (m, args) :: tl =>
              let! (vs, sa) := evs ev args st in
              let! (v, sb) := exec_method ev n' sa cur m vs in
              chain_go tl v sb
            end) chain rv s1 in
      match yield with
      | Some y => let! (_, s3) := vm_declare s2 y v true in Ok v s3
      | None => Ok v s2
      end
    | ENew cls args =>
      let! (cv, s1) := vm_find st cls in
      match cv with
      | VClass c =>
        let! (vs, s2) := evs ev args s1 in
        construct ev n' s2 c vs
      | VNumberType =>
        let! (vs, s2) := evs ev args s1 in
        match vs with
        | [VNum b] => Ok (VNum b) s2
        | [VNumberType] => Ok VNumberType s2
        | [_] => Er (ERun E_PARAMTYPE) s2
        | _ => Er (ERun E_EXACT) s2
        end
      | _ => Er (ERun E_PARAMTYPE) s1
      end
    end
  end.

(* ------------------------------------------------------------------------------------------ *)
(* whole programs: EvalMainModule + evalProgram for a program without imports                   *)

Definition exception_class : classdef := {| c_name := ID_EXC; c_props := []; c_methods := []; c_ctor := CtorException |}.

Definition init_state : state :=
  {| heap := []; syms := []; depth := 0; stack := []; funs := []; classes := [exception_class]; out := [] |}.

Record program := { p_inputs : list name; p_body : block; p_catch : catches }.

Definition run_program (n : nat) (p : program) (inputs : list val) : res val :=
  let st := push_frame init_state 1 None in
  let fd := {| fd_params := p_inputs p; fd_body := p_body p; fd_catch := p_catch p |} in
  match exec_exec_block (eval_expr n) n st fd inputs with
  | Ok v s => Ok v (pop_frame s)
  | r => r
  end.
