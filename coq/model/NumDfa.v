(* C04 - number recogniser of pkg/exec/id_match.go.
   Executable definitions only (no proofs):
     - [numtab]            the shape of the generated table (coq/gen/GenC04NumDfa.v, regenerated from Go)
     - [try_parse_number]  faithful model of tryParseNumber over such a table (loop + epilogue tests)
     - [machine], [run]    Moore machines; [tab_machine] the machine of a table
     - [closed_check], [explore], [equiv_check], [distinguish]   the equivalence checker
     - [ref_machine]       hand-written reference machine over character classes
     - [doc_number], [classify_doc]  the documented numeric form, as a recursive-descent recogniser
     - [rewrite_exp]       the two strings.Replace calls of parseIDNumberToFloat64 *)
From Coq Require Import List ZArith Bool.
Import ListNotations.
Open Scope Z_scope.

(* results of the three-way classification *)
Definition RName : Z := 0.
Definition RNumber : Z := 1.
Definition RRejected : Z := 2.

(* ------------------------------------------------------------------ generated table *)
Record numtab := {
  nt_init : Z;
  nt_end : list Z;
  nt_cases : list (list Z * list (list Z * Z));
  nt_epilogue : list (Z * Z * Z);
  nt_final : Z
}.

Definition memZ (x : Z) (l : list Z) : bool := existsb (Z.eqb x) l.

(* first clause whose label list contains x (Go: the clause of a switch) *)
Fixpoint find_case {A : Type} (x : Z) (cs : list (list Z * A)) : option A :=
  match cs with
  | [] => None
  | (ls, a) :: r => if memZ x ls then Some a else find_case x r
  end.

(* `switch ch { case ..: switch state { case ..: state = X; default: goto end } default: goto end }` *)
Definition nt_next (T : numtab) (st ch : Z) : option Z :=
  match find_case ch (nt_cases T) with
  | None => None
  | Some inner => find_case st inner
  end.

(* the for-range loop: returns (state, parsedChars) at label `end` *)
Fixpoint tp_loop (T : numtab) (w : list Z) (st parsed : Z) : Z * Z :=
  match w with
  | [] => (st, parsed)
  | ch :: r => match nt_next T st ch with
               | Some st' => tp_loop T r st' (parsed + 1)
               | None => (st, parsed)
               end
  end.

Definition epi_test (T : numtab) (st parsed len : Z) (kind arg : Z) : bool :=
  if kind =? 0 then parsed =? arg
  else if kind =? 1 then st =? arg
  else if kind =? 2 then negb (memZ st (nt_end T))
  else if kind =? 3 then parsed <? len
  else false.

Fixpoint epilogue (T : numtab) (tests : list (Z * Z * Z)) (st parsed len : Z) : Z :=
  match tests with
  | [] => nt_final T
  | (kind, arg, res) :: r => if epi_test T st parsed len kind arg then res else epilogue T r st parsed len
  end.

Definition try_parse_number (T : numtab) (w : list Z) : Z :=
  let '(st, parsed) := tp_loop T w (nt_init T) 0 in
  epilogue T (nt_epilogue T) st parsed (Z.of_nat (length w)).

(* ------------------------------------------------------------------ Moore machines *)
Record machine (S : Type) := {
  m_init : S;
  m_step : S -> Z -> S;
  m_out : S -> Z
}.
Arguments m_init {S}. Arguments m_step {S}. Arguments m_out {S}.

Definition run_from {S} (m : machine S) (q : S) (w : list Z) : Z := m_out m (fold_left (m_step m) w q).
Definition run {S} (m : machine S) (w : list Z) : Z := run_from m (m_init m) w.

(* configuration of tryParseNumber: (state, some character parsed, stopped early) *)
Definition cfg : Type := (Z * bool * bool)%type.
Definition cfg_eqb (a b : cfg) : bool :=
  let '(s1, a1, t1) := a in let '(s2, a2, t2) := b in (s1 =? s2) && Bool.eqb a1 a2 && Bool.eqb t1 t2.

Definition tab_step (T : numtab) (c : cfg) (ch : Z) : cfg :=
  let '(st, any, stopped) := c in
  if stopped then c else
  match nt_next T st ch with
  | Some st' => (st', true, false)
  | None => (st, any, true)
  end.

(* the epilogue only tests parsedChars == 0 (kind 0, arg 0) and parsedChars < len; on a configuration these
   are [negb any] and [stopped]. A kind-0 test with another argument is not representable: [tab_regular]. *)
Definition tab_out (T : numtab) (c : cfg) : Z :=
  let '(st, any, stopped) := c in
  epilogue T (nt_epilogue T) st (if any then 1 else 0) (if stopped then 2 else if any then 1 else 0).

Definition tab_regular (T : numtab) : bool :=
  forallb (fun t => let '(kind, arg, _) := t in negb (kind =? 0) || (arg =? 0)) (nt_epilogue T).

Definition tab_machine (T : numtab) : machine cfg :=
  {| m_init := (nt_init T, false, false); m_step := tab_step T; m_out := tab_out T |}.

Definition tab_chars (T : numtab) : list Z := flat_map fst (nt_cases T).

(* ------------------------------------------------------------------ equivalence checker *)
Section Checker.
  Context {A B : Type} (eqA : A -> A -> bool) (eqB : B -> B -> bool).
  Variables (ma : machine A) (mb : machine B).

  Definition pair_eqb (p q : A * B) : bool := eqA (fst p) (fst q) && eqB (snd p) (snd q).
  Definition memR (p : A * B) (R : list (A * B)) : bool := existsb (pair_eqb p) R.

  (* R contains the initial pair, agrees on outputs, and is closed under every representative character *)
  Definition closed_check (reps : list Z) (R : list (A * B)) : bool :=
    memR (m_init ma, m_init mb) R &&
    forallb (fun pq => (m_out ma (fst pq) =? m_out mb (snd pq)) &&
                       forallb (fun r => memR (m_step ma (fst pq) r, m_step mb (snd pq) r) R) reps) R.

  (* exploration of the reachable pairs (computes a candidate R; only [closed_check] is trusted) *)
  Fixpoint add_new (cands : list (A * B)) (R : list (A * B)) (fresh : list (A * B)) : list (A * B) * list (A * B) :=
    match cands with
    | [] => (R, fresh)
    | p :: r => if memR p R then add_new r R fresh else add_new r (p :: R) (p :: fresh)
    end.

  Fixpoint explore (fuel : nat) (reps : list Z) (frontier R : list (A * B)) : list (A * B) :=
    match fuel with
    | O => R
    | S f =>
        match frontier with
        | [] => R
        | _ =>
            let cands := flat_map (fun pq => map (fun r => (m_step ma (fst pq) r, m_step mb (snd pq) r)) reps) frontier in
            let '(R', fresh) := add_new cands R [] in
            explore f reps fresh R'
        end
    end.

  Definition reachable (fuel : nat) (reps : list Z) : list (A * B) :=
    let p0 := (m_init ma, m_init mb) in explore fuel reps [p0] [p0].

  Definition equiv_check (fuel : nat) (reps : list Z) : bool := closed_check reps (reachable fuel reps).

  (* shortest distinguishing word: breadth-first over pairs, carrying the (reversed) word *)
  Fixpoint first_diff (l : list (A * B * list Z)) : option (list Z) :=
    match l with
    | [] => None
    | (p, q, w) :: r => if m_out ma p =? m_out mb q then first_diff r else Some (rev w)
    end.

  Fixpoint add_new_w (cands : list (A * B * list Z)) (R : list (A * B)) (fresh : list (A * B * list Z))
    : list (A * B) * list (A * B * list Z) :=
    match cands with
    | [] => (R, rev fresh)
    | (p, q, w) :: r => if memR (p, q) R then add_new_w r R fresh else add_new_w r ((p, q) :: R) ((p, q, w) :: fresh)
    end.

  Fixpoint dist_loop (fuel : nat) (reps : list Z) (frontier : list (A * B * list Z)) (R : list (A * B)) : option (list Z) :=
    match fuel with
    | O => None
    | S f =>
        match first_diff frontier with
        | Some w => Some w
        | None =>
            match frontier with
            | [] => None
            | _ =>
                let cands := flat_map (fun t => let '(p, q, w) := t in
                                                map (fun r => (m_step ma p r, m_step mb q r, r :: w)) reps) frontier in
                let '(R', fresh) := add_new_w cands R [] in
                dist_loop f reps fresh R'
            end
        end
    end.

  Definition distinguish (fuel : nat) (reps : list Z) : option (list Z) :=
    let p0 := (m_init ma, m_init mb) in dist_loop fuel reps [(m_init ma, m_init mb, [])] [p0].
End Checker.

(* ------------------------------------------------------------------ character classes of the numeric alphabet *)
Inductive cc := C0 | C1 | Cd | Csign | Cdot | Ce | Cstar | Chat | Cother.

Definition classify (c : Z) : cc :=
  if c =? 48 then C0                                   (* '0' *)
  else if c =? 49 then C1                              (* '1' *)
  else if (50 <=? c) && (c <=? 57) then Cd             (* '2'..'9' *)
  else if (c =? 43) || (c =? 45) then Csign            (* '+' '-' *)
  else if c =? 46 then Cdot                            (* '.' *)
  else if (c =? 101) || (c =? 69) then Ce              (* 'e' 'E' *)
  else if c =? 42 then Cstar                           (* '*' *)
  else if c =? 94 then Chat                            (* '^' *)
  else Cother.

Definition num_chars : list Z := [48;49;50;51;52;53;54;55;56;57;43;45;46;101;69;42;94].

Definition is_digit (c : cc) : bool := match c with C0 | C1 | Cd => true | _ => false end.
Definition is_sign (c : cc) : bool := match c with Csign => true | _ => false end.

(* ------------------------------------------------------------------ the documented numeric form
   sign? digit+ ('.' digit+)? ( [eE] sign digit+ | '*' ('10')? '^' sign? digit+ )?
   (manual chapter 5; property C04), as a recursive-descent recogniser on character classes *)
Fixpoint all_digits (w : list cc) : bool :=
  match w with [] => true | c :: r => is_digit c && all_digits r end.
(* digit+ up to the end of the text *)
Definition digits1 (w : list cc) : bool :=
  match w with [] => false | c :: r => is_digit c && all_digits r end.
Definition opt_sign (w : list cc) : list cc :=
  match w with c :: r => if is_sign c then r else w | [] => [] end.
(* optional exponent part, up to the end *)
Definition doc_exponent (w : list cc) : bool :=
  match w with
  | [] => true
  | Ce :: s :: r => is_sign s && digits1 r
  | Cstar :: Chat :: r => digits1 (opt_sign r)
  | Cstar :: C1 :: C0 :: Chat :: r => digits1 (opt_sign r)
  | _ => false
  end.
(* digit* exponent?   (after the first fraction digit) *)
Fixpoint doc_frac_tail (w : list cc) : bool :=
  match w with
  | [] => true
  | c :: r => if is_digit c then doc_frac_tail r else doc_exponent w
  end.
(* digit+ exponent?   (after the decimal point) *)
Definition doc_frac (w : list cc) : bool :=
  match w with [] => false | c :: r => is_digit c && doc_frac_tail r end.
(* digit* ('.' digit+)? exponent?   (after the first integer digit) *)
Fixpoint doc_int_tail (w : list cc) : bool :=
  match w with
  | [] => true
  | c :: r => if is_digit c then doc_int_tail r
              else match c with Cdot => doc_frac r | _ => doc_exponent w end
  end.
Definition doc_unsigned (w : list cc) : bool :=
  match w with [] => false | c :: r => is_digit c && doc_int_tail r end.
Definition doc_number_cc (w : list cc) : bool := doc_unsigned (opt_sign w).
Definition doc_number (w : list Z) : bool := doc_number_cc (map classify w).

(* "starts like a number": a digit, or a sign followed by a digit *)
Definition starts_like_number_cc (w : list cc) : bool :=
  match w with
  | c :: r => if is_digit c then true
              else if is_sign c then match r with d :: _ => is_digit d | [] => false end
              else false
  | [] => false
  end.

Definition classify_doc_cc (w : list cc) : Z :=
  if doc_number_cc w then RNumber else if starts_like_number_cc w then RRejected else RName.
Definition classify_doc (w : list Z) : Z := classify_doc_cc (map classify w).

(* ------------------------------------------------------------------ reference machine (hand-written) *)
Inductive rstate :=
  | R0        (* nothing read *)
  | RSign     (* a sign *)
  | RInt      (* sign? digit+ *)
  | RDot      (* ... '.' *)
  | RFrac     (* ... '.' digit+ *)
  | RE        (* ... e|E *)
  | RStar     (* ... '*' *)
  | RStar1    (* ... '*1' *)
  | RStar10   (* ... '*10' *)
  | RHat      (* ... '^' *)
  | RExpSign  (* ... exponent sign *)
  | RExp      (* ... exponent digit+ *)
  | RNameSink (* cannot be a number, does not start like one *)
  | RRejSink. (* started like a number, is not one *)

Definition ref_step (q : rstate) (c : cc) : rstate :=
  match q with
  | R0 => if is_digit c then RInt else if is_sign c then RSign else RNameSink
  | RSign => if is_digit c then RInt else RNameSink
  | RInt => if is_digit c then RInt else match c with Cdot => RDot | Ce => RE | Cstar => RStar | _ => RRejSink end
  | RDot => if is_digit c then RFrac else RRejSink
  | RFrac => if is_digit c then RFrac else match c with Ce => RE | Cstar => RStar | _ => RRejSink end
  | RE => if is_sign c then RExpSign else RRejSink
  | RStar => match c with C1 => RStar1 | Chat => RHat | _ => RRejSink end
  | RStar1 => match c with C0 => RStar10 | _ => RRejSink end
  | RStar10 => match c with Chat => RHat | _ => RRejSink end
  | RHat => if is_digit c then RExp else if is_sign c then RExpSign else RRejSink
  | RExpSign => if is_digit c then RExp else RRejSink
  | RExp => if is_digit c then RExp else RRejSink
  | RNameSink => RNameSink
  | RRejSink => RRejSink
  end.

Definition ref_out (q : rstate) : Z :=
  match q with
  | R0 | RSign | RNameSink => RName
  | RInt | RFrac | RExp => RNumber
  | _ => RRejected
  end.

Definition rstate_code (q : rstate) : Z :=
  match q with
  | R0 => 0 | RSign => 1 | RInt => 2 | RDot => 3 | RFrac => 4 | RE => 5 | RStar => 6 | RStar1 => 7
  | RStar10 => 8 | RHat => 9 | RExpSign => 10 | RExp => 11 | RNameSink => 12 | RRejSink => 13
  end.
Definition rstate_eqb (a b : rstate) : bool := rstate_code a =? rstate_code b.

Definition ref_machine : machine rstate :=
  {| m_init := R0; m_step := fun q c => ref_step q (classify c); m_out := ref_out |}.

(* representatives: every character mentioned by either machine, and one mentioned by neither *)
Fixpoint fresh_above (l : list Z) (x : Z) : Z :=
  match l with [] => x | y :: r => fresh_above r (if x <=? y then y + 1 else x) end.
Definition reps_for (T : numtab) : list Z :=
  let ms := tab_chars T ++ num_chars in fresh_above ms 0 :: ms.

(* number of pairs of configurations is bounded by |states|*4*14; the bound is expressed with lengths *)
Definition check_fuel (T : numtab) : nat :=
  S (14 * 4 * S (length (nt_cases T) + length (flat_map (fun c => flat_map fst (snd c)) (nt_cases T))
                + length (flat_map (fun c => map snd (snd c)) (nt_cases T)))).

Definition num_equiv_check (T : numtab) : bool :=
  tab_regular T && equiv_check cfg_eqb rstate_eqb (tab_machine T) ref_machine (check_fuel T) (reps_for T).

Definition num_distinguish (T : numtab) : option (list Z) :=
  distinguish cfg_eqb rstate_eqb (tab_machine T) ref_machine (check_fuel T) (reps_for T).

(* ------------------------------------------------------------------ the value: parseIDNumberToFloat64
   strings.Replace(s, "*^", "e", 1) then strings.Replace(s, "*10^", "e", 1); then strconv.ParseFloat *)
Fixpoint is_prefix (p w : list Z) : bool :=
  match p, w with
  | [], _ => true
  | a :: p', b :: w' => (a =? b) && is_prefix p' w'
  | _ :: _, [] => false
  end.

(* replace the first occurrence of [old] by [new] *)
Fixpoint replace_first (old new w : list Z) : list Z :=
  if is_prefix old w then new ++ skipn (length old) w
  else match w with [] => [] | c :: r => c :: replace_first old new r end.

Definition rewrite_exp (w : list Z) : list Z :=
  replace_first [42;49;48;94] [101] (replace_first [42;94] [101] w).

(* documented reading of the spelling: mantissa text and exponent text.
   [split_number w] = (mantissa spelling, exponent spelling with optional sign) *)
Fixpoint split_number (w : list Z) : list Z * list Z :=
  match w with
  | [] => ([], [])
  | c :: r =>
      match classify c with
      | Ce => ([], r)
      | Cstar => ([], match r with
                      | h :: r' => if h =? 94 then r' else skipn 3 r   (* "*^" | "*10^" *)
                      | [] => [] end)
      | _ => let '(m, e) := split_number r in (c :: m, e)
      end
  end.
(* the Go-syntax decimal the documented spelling denotes: mantissa, then 'e' exponent when there is one *)
Definition doc_spelling (w : list Z) : list Z :=
  let '(m, e) := split_number w in match e with [] => m | _ => m ++ 101 :: e end.
