(* C10 — heap model of lists and dictionaries (containers are heap cells, scalars are inline), for the questions
   "can a container come to contain itself?" and "does display terminate?".
   Anchors: pkg/value/array.go (arrayExecInsert/Prepend/Append/Merge), pkg/value/hashmap.go (hmExecSet),
   pkg/value/value_util.go (DuplicateValue and, with fixes/C10-2.patch, containsElement/detachFrom).
   The model follows the REPAIRED code: an item that is (or holds) the receiving container is copied before it is stored.
   All recursive functions take fuel and return None when it runs out (never a normal-looking result). *)
From Coq Require Import List ZArith Bool Arith.
Import ListNotations.
Open Scope Z_scope.

Inductive item := INum (n: Z) | IRef (l: nat).
Inductive cell := CList (xs: list item) | CDict (kvs: list (Z * item)).
Definition heap := list cell.

Definition item_refs (i: item) : list nat := match i with IRef l => [l] | INum _ => [] end.
Definition cell_items (c: cell) : list item := match c with CList xs => xs | CDict kvs => map snd kvs end.
Definition cell_refs (c: cell) : list nat := flat_map item_refs (cell_items c).
Definition children (h: heap) (l: nat) : list nat := match nth_error h l with Some c => cell_refs c | None => [] end.

(* containsElement(root, target): is target root itself or held by it?  None = out of fuel *)
Fixpoint any_opt (rs: list (option bool)) : option bool :=
  match rs with
  | [] => Some false
  | Some true :: _ => Some true
  | Some false :: r => any_opt r
  | None :: r => match any_opt r with Some true => Some true | _ => None end
  end.

Fixpoint reachb (fuel: nat) (h: heap) (from target: nat) : option bool :=
  if Nat.eqb from target then Some true
  else match fuel with
       | O => None
       | S f => any_opt (map (fun c => reachb f h c target) (children h from))
       end.

Definition item_reachb (fuel: nat) (h: heap) (i: item) (target: nat) : option bool :=
  match i with INum _ => Some false | IRef l => reachb fuel h l target end.

(* a function threaded through a list, left to right, passing the growing heap along *)
Fixpoint map_thread (f: heap -> item -> option (heap * item)) (h: heap) (xs: list item) : option (heap * list item) :=
  match xs with
  | [] => Some (h, [])
  | x :: r => match f h x with
              | None => None
              | Some (h1, x') => match map_thread f h1 r with
                                 | None => None
                                 | Some (h2, r') => Some (h2, x' :: r')
                                 end
              end
  end.

(* DuplicateValue: fresh cells for lists and dictionaries, allocated after their items *)
Fixpoint dup (fuel: nat) (h: heap) (i: item) : option (heap * item) :=
  match fuel with
  | O => None
  | S f =>
      match i with
      | INum n => Some (h, INum n)
      | IRef l =>
          match nth_error h l with
          | None => None
          | Some (CList xs) =>
              match map_thread (dup f) h xs with
              | None => None
              | Some (h', xs') => Some (h' ++ [CList xs'], IRef (length h'))
              end
          | Some (CDict kvs) =>
              match map_thread (dup f) h (map snd kvs) with
              | None => None
              | Some (h', xs') => Some (h' ++ [CDict (combine (map fst kvs) xs')], IRef (length h'))
              end
          end
      end
  end.

(* detachFrom(container, item) *)
Definition detach (fuel: nat) (a: nat) (h: heap) (i: item) : option (heap * item) :=
  match item_reachb fuel h i a with
  | None => None
  | Some true => dup fuel h i
  | Some false => Some (h, i)
  end.

Fixpoint set_cell (h: heap) (a: nat) (c: cell) : heap :=
  match h, a with
  | [], _ => []
  | _ :: r, O => c :: r
  | x :: r, S a' => x :: set_cell r a' c
  end.

(* insertArrayValue (repaired): position >= length appends, negative counts from the end, below -length inserts first *)
Definition insert_pos (xs: list item) (idx: Z) (x: item) : list item :=
  let n := Z.of_nat (length xs) in
  if n <=? idx then xs ++ [x]
  else let i1 := if idx <? 0 then n + idx else idx in
       let i2 := if i1 <? 0 then 0 else i1 in
       firstn (Z.to_nat i2) xs ++ x :: skipn (Z.to_nat i2) xs.

Fixpoint dict_put (kvs: list (Z * item)) (k: Z) (x: item) : list (Z * item) :=
  match kvs with
  | [] => [(k, x)]
  | (k', x') :: r => if Z.eqb k k' then (k', x) :: r else (k', x') :: dict_put r k x
  end.

Inductive hop :=
| HAppend (a: nat) (x: item) | HPrepend (a: nat) (x: item) | HInsert (a: nat) (x: item) (pos: Z)
| HMerge (a: nat) (xs: list item)          (* 以A（合并：【xs】） *)
| HDictSet (d: nat) (k: Z) (x: item).

(* ill-typed applications (a list method on a dictionary ...) are Zn errors and leave the heap unchanged *)
Definition apply_op (fuel: nat) (h: heap) (op: hop) : option heap :=
  match op with
  | HAppend a x =>
      match nth_error h a with
      | Some (CList _) =>
          match detach fuel a h x with
          | None => None
          | Some (h1, x') => match nth_error h1 a with
                             | Some (CList xs) => Some (set_cell h1 a (CList (xs ++ [x'])))
                             | _ => Some h1
                             end
          end
      | _ => Some h
      end
  | HPrepend a x =>
      match nth_error h a with
      | Some (CList _) =>
          match detach fuel a h x with
          | None => None
          | Some (h1, x') => match nth_error h1 a with
                             | Some (CList xs) => Some (set_cell h1 a (CList (x' :: xs)))
                             | _ => Some h1
                             end
          end
      | _ => Some h
      end
  | HInsert a x pos =>
      match nth_error h a with
      | Some (CList _) =>
          match detach fuel a h x with
          | None => None
          | Some (h1, x') => match nth_error h1 a with
                             | Some (CList xs) => Some (set_cell h1 a (CList (insert_pos xs pos x')))
                             | _ => Some h1
                             end
          end
      | _ => Some h
      end
  | HMerge a items =>
      match nth_error h a with
      | Some (CList _) =>
          match map_thread (detach fuel a) h items with
          | None => None
          | Some (h1, items') => match nth_error h1 a with
                                 | Some (CList xs) => Some (set_cell h1 a (CList (xs ++ items')))
                                 | _ => Some h1
                                 end
          end
      | _ => Some h
      end
  | HDictSet d k x =>
      match nth_error h d with
      | Some (CDict _) =>
          match detach fuel d h x with
          | None => None
          | Some (h1, x') => match nth_error h1 d with
                             | Some (CDict kvs) => Some (set_cell h1 d (CDict (dict_put kvs k x')))
                             | _ => Some h1
                             end
          end
      | _ => Some h
      end
  end.

Fixpoint apply_ops (fuel: nat) (h: heap) (ops: list hop) : option heap :=
  match ops with
  | [] => Some h
  | op :: r => match apply_op fuel h op with None => None | Some h' => apply_ops fuel h' r end
  end.

(* display (String()) of an item: the tree it unfolds to, flattened; None = out of fuel (non-termination) *)
Fixpoint concat_opt (rs: list (option (list Z))) : option (list Z) :=
  match rs with
  | [] => Some []
  | None :: _ => None
  | Some a :: r => match concat_opt r with None => None | Some b => Some (a ++ b) end
  end.

Fixpoint display (fuel: nat) (h: heap) (i: item) : option (list Z) :=
  match fuel with
  | O => None
  | S f =>
      match i with
      | INum n => Some [0; n]
      | IRef l =>
          match nth_error h l with
          | None => Some [8]
          | Some (CList xs) =>
              match concat_opt (map (display f h) xs) with
              | None => None
              | Some body => Some (1 :: Z.of_nat (length xs) :: body)
              end
          | Some (CDict kvs) =>
              match concat_opt (map (fun kv => match display f h (snd kv) with None => None | Some b => Some (fst kv :: b) end) kvs) with
              | None => None
              | Some body => Some (2 :: Z.of_nat (length kvs) :: body)
              end
          end
      end
  end.

(* the correspondence entry point: initial cells (all empty), a script; the tree of every initial cell afterwards *)
Definition run_script (cells: list cell) (ops: list hop) : list (list Z) :=
  match apply_ops 64 cells ops with
  | None => [[-1]]
  | Some h => map (fun l => match display 64 h (IRef l) with Some t => t | None => [9] end) (seq 0 (length cells))
  end.
