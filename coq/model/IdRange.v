(* C04 - identifier alphabet: syntax.IdInRange (pkg/syntax/id_range.go:458-482) over a range table.
   Executable definitions only. The table itself is regenerated from the Go source (gen/GenC04IdRange.v). *)
From Coq Require Import List ZArith Bool.
Import ListNotations.
Open Scope Z_scope.

Inductive bres := BTrue | BFalse | BCrash | BOutOfFuel.

(* idRange[i]: a Go slice index; out of range = run-time panic *)
Definition pair_at (tbl : list (Z * Z)) (i : Z) : option (Z * Z) :=
  if i <? 0 then None else nth_error tbl (Z.to_nat i).

(* the `for { i = (e + s) / 2 ... }` loop *)
Fixpoint bsearch (fuel : nat) (tbl : list (Z * Z)) (num s e : Z) : bres :=
  match fuel with
  | O => BOutOfFuel
  | S f =>
      let i := (e + s) / 2 in
      match pair_at tbl i with
      | None => BCrash
      | Some (lo, hi) =>
          if num <? lo then (if i =? e then BFalse else bsearch f tbl num s i)
          else if hi <? num then (if i =? s then BFalse else bsearch f tbl num i e)
          else BTrue
      end
  end.

Definition id_in_range (guard : Z) (tbl : list (Z * Z)) (num : Z) : bres :=
  if (guard <? num) || (num <? 0) then BFalse
  else bsearch (S (length tbl)) tbl num 0 (Z.of_nat (length tbl)).

(* specification: plain membership in some range of the table *)
Definition in_pair (c : Z) (p : Z * Z) : bool := (fst p <=? c) && (c <=? snd p).
Definition linear (tbl : list (Z * Z)) (c : Z) : bool := existsb (in_pair c) tbl.

(* well-formedness of a table: ranges non-empty, strictly increasing, disjoint *)
Fixpoint sorted_tbl (prev : Z) (tbl : list (Z * Z)) : bool :=
  match tbl with
  | [] => true
  | (lo, hi) :: r => (prev <? lo) && (lo <=? hi) && sorted_tbl hi r
  end.

Definition table_ok (guard : Z) (tbl : list (Z * Z)) : bool :=
  sorted_tbl (-1) tbl && negb (Nat.eqb (length tbl) 0) && forallb (fun p => snd p <=? guard) tbl.

(* run-length encoding of the membership graph over [from, from+n): list of (first code point of a run of members, last) *)
Definition bool_of (r : bres) : bool := match r with BTrue => true | _ => false end.
