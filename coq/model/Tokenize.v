(* C04 - executable model of zh.NextToken (pkg/syntax/zh/tokens.go:190-525, keyword.go:156-357) for unspaced text.
   Definitions only. Tables (rune sets, token types, the parseKeyword decision tree) come from gen/GenC04Tokens.v,
   regenerated from the Go source on every check.

   Lexer state: the Go lexer is (Source, cursor); the model carries (pos, rest) with rest = skipn pos Source.
   getChar(cursor+k) is [nth k rest g_RuneEOF] (RuneEOF beyond the end), Next() drops one character, SetCursor(savepoint)
   restores a saved (pos, rest).
   Outside the model (result [TUnsupported]): string literals (a token starting with a quote), line breaks with their
   indentation bookkeeping, leading SP/TAB indentation of the first line, and the body of a `注…：` comment. *)
From Coq Require Import List ZArith Bool.
Import ListNotations.
From Zn.gen Require Import GenC04Tokens GenC04IdRange.
From Zn.model Require Import IdRange.
Open Scope Z_scope.

Definition mem (x : Z) (l : list Z) : bool := existsb (Z.eqb x) l.

Definition cur (rest : list Z) : Z := hd g_RuneEOF rest.               (* l.GetCurrentChar(): RuneEOF past the end *)
Definition peekn (k : Z) (rest : list Z) : Z := nth (Z.to_nat k) rest g_RuneEOF. (* l.Peek() = peekn 1, Peek2, Peek3 *)

Definition is_ws (c : Z) : bool := mem c g_whiteSpaces.                (* syntax.IsWhiteSpace *)
Definition is_id_char (c : Z) : bool := bool_of (id_in_range gen_id_guard_max gen_id_range c). (* isIdentifierChar *)
Definition is_id_body (c : Z) : bool := is_id_char c || mem c g_IDContinue.
Definition is_pure_number (c : Z) : bool := (48 <=? c) && (c <=? 57).

(* ------------------------------------------------------------------ parseKeyword *)
Definition kwtree : Type := list (Z * list (list (Z * Z) * Z * Z) * option (Z * Z)).

Definition conds_hold (conds : list (Z * Z)) (rest : list Z) : bool :=
  forallb (fun kc => peekn (fst kc) rest =? snd kc) conds.

Fixpoint eval_chain (brs : list (list (Z * Z) * Z * Z)) (els : option (Z * Z)) (rest : list Z) : option (Z * Z) :=
  match brs with
  | [] => els
  | (conds, wl, ty) :: r => if conds_hold conds rest then Some (wl, ty) else eval_chain r els rest
  end.

Fixpoint find_lead (ch : Z) (tree : kwtree) : option (list (list (Z * Z) * Z * Z) * option (Z * Z)) :=
  match tree with
  | [] => None
  | (lead, brs, els) :: r => if ch =? lead then Some (brs, els) else find_lead ch r
  end.

(* Some (wordLen, token type) when parseKeyword reports a keyword *)
Definition parse_keyword (tree : kwtree) (rest : list Z) : option (Z * Z) :=
  match find_lead (cur rest) tree with
  | None => None
  | Some (brs, els) =>
      match eval_chain brs els rest with
      | Some (wl, ty) => if ty =? 0 then None else Some (wl, ty)
      | None => None
      end
  end.

(* ------------------------------------------------------------------ results *)
Inductive tres :=
  | TTok (ty s e : Z) (lit : list Z) (rest' : list Z)   (* token; the cursor is left at e, rest' = source from e *)
  | TEof (pos : Z)
  | TErr (cursor : Z)                                    (* zerr.InvalidChar at cursor *)
  | TUnsupported
  | THang.

(* ------------------------------------------------------------------ PreNextToken (spaces inside a line) *)
Fixpoint skip_ws (rest : list Z) (pos : Z) : list Z * Z :=
  match rest with
  | c :: r => if is_ws c then skip_ws r (pos + 1) else (rest, pos)
  | [] => ([], pos)
  end.

(* ------------------------------------------------------------------ comments *)
Definition line_end (c : Z) : bool := (c =? g_RuneEOF) || (c =? g_RuneCR) || (c =? g_RuneLF).

(* `//`: up to the first EOF / CR / LF; pos = index of hd r *)
Fixpoint scan_line (r : list Z) (pos : Z) : Z * list Z :=
  match r with
  | [] => (pos, [])
  | c :: r' => if line_end c then (pos, r) else scan_line r' (pos + 1)
  end.

(* `/* ... */`: Some (end, rest) or None when a line break is met first (outside the model) *)
Fixpoint scan_block (r : list Z) (pos : Z) : option (Z * list Z) :=
  match r with
  | [] => Some (pos, [])
  | c :: r' =>
      if c =? g_RuneEOF then Some (pos, r)
      else if (c =? g_RuneCR) || (c =? g_RuneLF) then None
      else if (c =? g_MultiplyOp) && (cur r' =? g_SlashOp) then Some (pos + 2, tl r')
      else scan_block r' (pos + 1)
  end.

Fixpoint skip_digits (r : list Z) : list Z :=
  match r with
  | c :: r' => if is_pure_number c then skip_digits r' else r
  | [] => []
  end.

(* ------------------------------------------------------------------ parseVarQuote; pos = index of hd r *)
Fixpoint varquote_loop (start : Z) (r : list Z) (pos : Z) (lit_rev : list Z) : tres :=
  match r with
  | [] => if is_id_body g_RuneEOF then THang else TErr pos
  | c :: r' =>
      if is_id_body c then varquote_loop start r' (pos + 1) (c :: lit_rev)
      else if c =? g_BackTick then TTok g_TypeIdentifier start (pos + 1) (rev lit_rev) r'
      else TErr pos
  end.

(* ------------------------------------------------------------------ parsePunctuations *)
Fixpoint assoc (x : Z) (m : list (Z * Z)) : option Z :=
  match m with [] => None | (k, v) :: r => if x =? k then Some v else assoc x r end.

Definition parse_punct (rest : list Z) (pos : Z) : tres :=
  match assoc (cur rest) g_punctuationTypeMap with
  | Some ty => TTok ty pos (pos + 1) [] (tl rest)
  | None => TErr pos
  end.

(* ------------------------------------------------------------------ parseOperators; None = "not an operator", fall through *)
Definition is_delim (c : Z) : bool := is_ws c || mem c g_markPunctuations || mem c g_markQuotes.

Definition parse_operators (rest : list Z) (pos : Z) : option tres :=
  let ch := cur rest in
  let chn := peekn 1 rest in
  let single ty := Some (TTok ty pos (pos + 1) [] (tl rest)) in
  let double ty := Some (TTok ty pos (pos + 2) [] (tl (tl rest))) in
  if ch =? g_RefOp then single g_TypeObjRef
  else if ch =? g_AnnotationOp then single g_TypeAnnotationT
  else if ch =? g_HashOp then single g_TypeMapHash
  else if ch =? g_EqualOp then (if chn =? g_EqualOp then double g_TypeEqualMark else single g_TypeAssignMark)
  else if ch =? g_LessThanOp then (if chn =? g_EqualOp then double g_TypeLTEMark else single g_TypeLTMark)
  else if ch =? g_GreaterThanOp then (if chn =? g_EqualOp then double g_TypeGTEMark else single g_TypeGTMark)
  else if ch =? g_IntDivOp then single g_TypeIntDivMark
  else if ch =? g_RemainderOp then single g_TypeModuloMark
  else if (ch =? g_PlusOp) || (ch =? g_MinusOp) || (ch =? g_MultiplyOp) || (ch =? g_SlashOp) then
    if (ch =? g_SlashOp) && (chn =? g_EqualOp) then double g_TypeNEMark
    else
      let t := if ch =? g_PlusOp then g_TypePlus else if ch =? g_MinusOp then g_TypeMinus
               else if ch =? g_MultiplyOp then g_TypeMultiply else g_TypeDivision in
      if is_delim chn then single t else None
  else Some (TErr pos).

(* The functions below take the keyword recogniser [kw] as a parameter: the implementation model instantiates it with
   [parse_keyword g_kw_tree] (the regenerated decision tree), the documented lexer with [longest_kw doc_keywords]. *)
Section WithKeywordRecogniser.
Variable kw : list Z -> option (Z * Z).

(* ------------------------------------------------------------------ parseIdentifier *)
(* the loop after the first character; r = source after the last accepted character, pos = index of hd r *)
Definition comment_ahead (r : list Z) : bool :=
  (cur r =? g_SlashOp) && mem (peekn 1 r) [g_SlashOp; g_MultiplyOp; g_EqualOp].

Definition ident_stop (r : list Z) : bool :=
  is_ws (cur r)
  || (match kw r with Some _ => true | None => false end)
  || comment_ahead r
  || mem (cur r) g_terminateMarkers.

Definition ident_finish (start pos : Z) (lit_rev : list Z) (r : list Z) : tres :=
  if hd 0 lit_rev =? g_SlashOp then TErr (pos - 1)
  else TTok g_TypeIdentifier start pos (rev lit_rev) r.

Fixpoint ident_loop (start : Z) (r : list Z) (pos : Z) (lit_rev : list Z) : tres :=
  if ident_stop r then ident_finish start pos lit_rev r
  else match r with
       | [] => if is_id_body g_RuneEOF then THang else TErr pos
       | c :: r' => if is_id_body c then ident_loop start r' (pos + 1) (c :: lit_rev) else TErr pos
       end.

Definition parse_identifier (rest : list Z) (pos : Z) : tres :=
  let ch := cur rest in
  if negb (is_id_char ch) then TErr pos
  else ident_loop pos (tl rest) (pos + 1) [ch].

(* ------------------------------------------------------------------ NextToken *)
Definition left_quotes : list Z :=
  [g_LeftLibQuoteI; g_LeftDoubleQuoteI; g_LeftDoubleQuoteII; g_LeftSingleQuoteI; g_LeftSingleQuoteII].

(* the first `switch ch` of NextToken: Some result, or None = fall through to the generic part *)
Definition special_token (rest : list Z) (pos : Z) : option tres :=
  let ch := cur rest in
  if ch =? g_CharZHU then
    (if cur (skip_digits (tl rest)) =? g_Colon then Some TUnsupported else None)
  else if ch =? g_SlashOp then
    (if peekn 1 rest =? g_SlashOp then
       let '(e, r) := scan_line (tl (tl rest)) (pos + 2) in Some (TTok g_TypeComment pos e [] r)
     else if peekn 1 rest =? g_MultiplyOp then
       match scan_block (tl (tl rest)) (pos + 2) with
       | Some (e, r) => Some (TTok g_TypeComment pos e [] r)
       | None => Some TUnsupported
       end
     else None)
  else if mem ch left_quotes then Some TUnsupported
  else if ch =? g_BackTick then Some (varquote_loop pos (tl rest) (pos + 1) [])
  else None.

Definition generic_token (rest : list Z) (pos : Z) : tres :=
  let ch := cur rest in
  if mem ch g_markPunctuations then parse_punct rest pos
  else
    match (if mem ch g_markOperators then parse_operators rest pos else None) with
    | Some t => t
    | None =>
        match kw rest with
        | Some (wl, ty) => TTok ty pos (pos + wl) [] (skipn (Z.to_nat wl) rest)
        | None => parse_identifier rest pos
        end
    end.

Definition next_token (rest0 : list Z) (pos0 : Z) : tres :=
  let '(rest, pos) := skip_ws rest0 pos0 in
  let ch := cur rest in
  if (ch =? g_RuneCR) || (ch =? g_RuneLF) then TUnsupported
  else if ch =? g_RuneEOF then TEof pos
  else match special_token rest pos with
       | Some t => t
       | None => generic_token rest pos
       end.

(* ------------------------------------------------------------------ the token stream *)
Inductive tend := EEof | EErr (cursor : Z) | EUnsupported | EHang | EOutOfFuel.
Definition token : Type := (Z * Z * Z * list Z)%type.   (* type, start, end, literal *)

Fixpoint tokens (fuel : nat) (rest : list Z) (pos : Z) : list token * tend :=
  match fuel with
  | O => ([], EOutOfFuel)
  | S f =>
      match next_token rest pos with
      | TTok ty s e lit rest' => let '(l, t) := tokens f rest' e in ((ty, s, e, lit) :: l, t)
      | TEof p => ([(g_TypeEOF, p, p, [])], EEof)
      | TErr c => ([], EErr c)
      | TUnsupported => ([], EUnsupported)
      | THang => ([], EHang)
      end
  end.

Definition lex (src : list Z) : list token * tend :=
  if mem (cur src) [g_RuneTAB; g_RuneSP] then ([], EUnsupported)
  else tokens (S (length src)) src 0.

End WithKeywordRecogniser.

(* the lexer of the implementation: keywords by the regenerated parseKeyword decision tree *)
Definition gkw : list Z -> option (Z * Z) := parse_keyword g_kw_tree.
Definition lex_impl (src : list Z) : list token * tend := lex gkw src.

(* encoding for the correspondence check: [[end code; cursor]; [type; start; end; literal...]; ...] *)
Definition encode_end (t : tend) : list Z :=
  match t with
  | EEof => [0; 0] | EErr c => [1; c] | EUnsupported => [2; 0] | EHang => [3; 0] | EOutOfFuel => [4; 0]
  end.
Definition encode_lex (r : list token * tend) : list (list Z) :=
  encode_end (snd r) :: map (fun t => let '(ty, s, e, lit) := t in ty :: s :: e :: lit) (fst r).
