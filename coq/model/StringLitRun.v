(* C13 — evaluation helpers for the per-run correspondence check (no theorems depend on this file).
   The check evaluates the model of model/StringLit.v with vm_compute on the same inputs as the Go lexer:
   - run_lex_j: one source -> outcome encoded as a list of integers (same encoding as harness/cmd/c13);
   - digest_blocks: ALL strings of a given length over an alphabet, folded into one 63-bit digest per block
     (primitive integers; the Go side computes the same digest over the real lexer's outcomes; a block whose
     digests differ is then compared case by case with run_block_j). *)
From Coq Require Import List ZArith Bool Uint63.
Import ListNotations.
From Zn.model Require Import StringLit.
Open Scope Z_scope.

(* ok [1; type; end; |lit|; lit...; |lines|; lines...] (the recorded line starts are always compared: since repair 7640347 the escape machine stops before a line break)   error [0; code]   fuel [3] *)
Definition run_lex_j (src : list Z) : list Z :=
  match lex_string src with
  | LexOk ty lit e lines =>
      1 :: ty :: e :: Z.of_nat (length lit) :: lit ++
      (Z.of_nat (length lines) :: lines)
  | LexErr code _ => [0; code]
  | OutOfFuel => [3]
  end.

(* encoder stream: the literal written by the specification's encoder, and the model's reading of it *)
Definition run_encode (o : Z) (s tail : list Z) : list (list Z) :=
  let src := literal_of o s ++ tail in [src; run_lex_j src].

(* ---- digests *)
Definition hmul : int := 6364136223846793005%uint63.
Definition hstep (h : int) (x : Z) : int := (h * hmul + of_Z x + 1)%uint63.
Definition hlist (h : int) (l : list Z) : int := fold_left hstep l (hstep h (Z.of_nat (length l))).

(* all strings of length n over alpha in lexicographic order of positions (first position slowest) *)
Fixpoint fold_strings (alpha : list Z) (n : nat) (f : list Z -> int -> int) (pre_rev : list Z) (acc : int) : int :=
  match n with
  | O => f (rev' pre_rev) acc
  | S n' => fold_left (fun a x => fold_strings alpha n' f (x :: pre_rev) a) alpha acc
  end.

Definition digest_block (open prefix alpha tail : list Z) (n : nat) : Z :=
  to_Z (fold_strings alpha n (fun body acc => hlist acc (run_lex_j (open ++ prefix ++ body ++ tail))) [] 0%uint63).
Definition digest_blocks (open : list Z) (prefixes : list (list Z)) (alpha tail : list Z) (n : nat) : list Z :=
  map (fun p => digest_block open p alpha tail n) prefixes.

Definition run_block_j (open prefix alpha tail : list Z) (n : nat) : list (list Z) :=
  map (fun body => run_lex_j (open ++ prefix ++ body ++ tail)) (all_strings alpha n).
