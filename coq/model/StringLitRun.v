(* C13 — evaluation helpers for the per-run correspondence check (no theorems depend on this file).
   The check evaluates the model of model/StringLit.v with vm_compute on the same inputs as the Go lexer:
   - run_lex_j: one source -> outcome encoded as a list of integers (same encoding as harness/cmd/c13);
   - digest_blocks: ALL strings of a given length over an alphabet, folded into one 63-bit digest per block
     (primitive integers; the Go side computes the same digest over the real lexer's outcomes; a block whose
     digests differ is then compared case by case with run_block_j). *)
From Coq Require Import List ZArith Bool Uint63.
Import ListNotations.
From Zn.model Require Import StringLit.
Open Scope Z_scope.

(* Could a CR/LF be consumed by the escape machine in this source?  (a backtick, then only characters on which the
   machine continues, then CR or LF).  For such sources the recorded line starts are not compared: the pinned lexer
   keeps the break in the value but records no line, which is property C18's subject, not C13's. *)
Definition esc_continue (c : Z) : bool :=
  is_hex c || (c =? 76) || (c =? 84) || (c =? 83) || (c =? 85) || (c =? 82) || (c =? 80) || (c =? 75) || (c =? 43).
Fixpoint swallow_risk_from (in_run : bool) (l : list Z) : bool :=
  match l with
  | [] => false
  | x :: t => if x =? BT then swallow_risk_from true t
              else if (x =? CR) || (x =? LF) then (if in_run then true else swallow_risk_from false t)
              else if esc_continue x then swallow_risk_from in_run t
              else swallow_risk_from false t
  end.
Definition swallow_risk (src : list Z) : bool := swallow_risk_from false src.

(* ok [1; type; end; |lit|; lit...; |lines|; lines...] (lines omitted as [0] when not judged)   error [0; code]   fuel [3] *)
Definition run_lex_j (src : list Z) : list Z :=
  match lex_string src with
  | LexOk ty lit e lines =>
      1 :: ty :: e :: Z.of_nat (length lit) :: lit ++
      (if swallow_risk src then [0] else Z.of_nat (length lines) :: lines)
  | LexErr code _ => [0; code]
  | OutOfFuel => [3]
  end.

(* encoder stream: the literal written by the specification's encoder, and the model's reading of it *)
Definition run_encode (o : Z) (s tail : list Z) : list (list Z) :=
  let src := literal_of o s ++ tail in [src; run_lex_j src].

(* ---- digests *)
Definition hmul : int := 6364136223846793005%uint63.
Definition hstep (h : int) (x : Z) : int := (h * hmul + of_Z x + 1)%uint63.
Definition hlist (h : int) (l : list Z) : int := fold_left hstep l (hstep h (Z.of_nat (length l))).

(* all strings of length n over alpha in lexicographic order of positions (first position slowest) *)
Fixpoint fold_strings (alpha : list Z) (n : nat) (f : list Z -> int -> int) (pre_rev : list Z) (acc : int) : int :=
  match n with
  | O => f (rev' pre_rev) acc
  | S n' => fold_left (fun a x => fold_strings alpha n' f (x :: pre_rev) a) alpha acc
  end.

Definition digest_block (open prefix alpha tail : list Z) (n : nat) : Z :=
  to_Z (fold_strings alpha n (fun body acc => hlist acc (run_lex_j (open ++ prefix ++ body ++ tail))) [] 0%uint63).
Definition digest_blocks (open : list Z) (prefixes : list (list Z)) (alpha tail : list Z) (n : nat) : list Z :=
  map (fun p => digest_block open p alpha tail n) prefixes.

Definition run_block_j (open prefix alpha tail : list Z) (n : nat) : list (list Z) :=
  map (fun body => run_lex_j (open ++ prefix ++ body ++ tail)) (all_strings alpha n).
