(* C05 - executable model of the syntax-error printer: pkg/exec/error_printer.go
   (SyntaxErrorWrapper.Error: FindLineIdx for the head line; fmtErrorSourceLineWithParser; calcCursorOffset)
   as repaired by fixes/C05-2-error-printer.patch.  Definitions only.
   Go operations that can panic are explicit: source[i] / source[a:b] / runes[:col] out of range and
   strings.Repeat with a negative count give [DCrash]. *)
From Coq Require Import List ZArith Bool.
Import ListNotations.
From Zn.gen Require Import GenFrontTokens.
From Zn.model Require Import LexerTok Lexer Parser.
Open Scope Z_scope.

Inductive dres :=
| DOk (line_no : Z) (quoted : list Z) (mark_offset : Z)   (* "第 N 行", the quoted text, number of blanks before ^ *)
| DCrash.

(* source[i] *)
Definition idx (src : list Z) (i : Z) : option Z := if i <? 0 then None else nth_error src (Z.to_nat i).
(* source[a:b] *)
Definition slice (src : list Z) (a b : Z) : option (list Z) :=
  if (0 <=? a) && (a <=? b) && (b <=? Z.of_nat (length src)) then Some (firstn (Z.to_nat (b - a)) (skipn (Z.to_nat a) src))
  else None.

(* calcCursorOffset's tables *)
Definition width_borders : list Z :=
  [126; 159; 687; 710; 711; 727; 733; 879; 1154; 1161; 4347; 4447; 7467; 7521; 8369; 8426; 9000; 9002; 11021; 12350;
   12351; 12438; 12442; 19893; 19967; 55203; 63743; 64106; 65039; 65059; 65131; 65279; 65376; 65500; 65510; 120831;
   262141; 1114109].
Definition widths : list Z :=
  [1; 0; 1; 0; 1; 0; 1; 0; 1; 0; 1; 2; 1; 0; 1; 0; 1; 2; 1; 2; 1; 2; 0; 2; 1; 2; 1; 2; 1; 0; 2; 1; 2; 1; 2; 1; 2; 1].

Fixpoint width_lookup (t : Z) (bs ws : list Z) : Z :=
  match bs, ws with
  | b :: bs', w :: ws' => if t <=? b then w else width_lookup t bs' ws'
  | _, _ => 1
  end.
Definition get_offset (t : Z) : Z := if (t =? 14) || (t =? 15) then 0 else width_lookup t width_borders widths.

(* calcCursorOffset (repaired: col clamped into the line); runes[:col] *)
Definition calc_cursor_offset (text : list Z) (col : Z) : option Z :=
  let n := Z.of_nat (length text) in
  let col := if col <? 0 then 0 else if n <? col then n else col in
  match slice text 0 col with
  | Some pre => Some (fold_left (fun acc t => acc + get_offset t) pre 0)
  | None => None
  end.

(* `for startIdx < cursorIdx && (source[startIdx] == SP || TAB) { startIdx++ }` : seg = source from s on *)
Fixpoint skip_indent (seg : list Z) (s c : Z) : Z :=
  match seg with
  | ch :: seg' => if (s <? c) && is_indent_char ch then skip_indent seg' (s + 1) c else s
  | [] => s
  end.
(* `for endIdx < len(source) { if CR/LF break; endIdx++ }` *)
Fixpoint scan_to_break (seg : list Z) (e : Z) : Z :=
  match seg with
  | ch :: seg' => if is_break ch then e else scan_to_break seg' (e + 1)
  | [] => e
  end.

Definition display (src : list Z) (ls : list line) (cursor : Z) : dres :=
  let n := Z.of_nat (length src) in
  let line_idx := find_line_idx ls cursor 0 in            (* with the cursor of the error, as in Error() *)
  let c := if cursor <? 0 then 0 else if n <? cursor then n else cursor in
  let start0 :=
      match nth_error ls (Z.to_nat (find_line_idx ls c 0)) with
      | Some li => if l_start li <=? c then l_start li else 0
      | None => 0
      end in
  if start0 <? 0 then DCrash                              (* source[startIdx] with a negative index *)
  else
    let s := skip_indent (skipn (Z.to_nat start0) src) start0 c in
    let e := scan_to_break (skipn (Z.to_nat s) src) s in
    match slice src s e with
    | None => DCrash
    | Some text =>
        match calc_cursor_offset text (c - s) with
        | None => DCrash
        | Some off => if off <? 0 then DCrash else DOk (line_idx + 1) text off
        end
    end.

(* encoding for the correspondence check: [status; line number; offset; quoted...] *)
Definition display_encode (src : list Z) (flat_lines : list Z) (cursor : Z) : list Z :=
  let fix unflat (l : list Z) : list line :=
      match l with a :: b :: r => mkLine a b :: unflat r | _ => [] end in
  match display src (unflat flat_lines) cursor with
  | DOk n q off => 1 :: n :: off :: q
  | DCrash => [0]
  end.
