(* C04 - the documented lexer: the same NextToken dispatch, with keywords cut by the documented rule
   "longest keyword of the manual's table that is a prefix of the remaining text" (model/TokSpec.v) instead of the
   regenerated parseKeyword decision tree. The per-run check judges the implementation against THIS lexer. *)
From Coq Require Import List ZArith Bool.
Import ListNotations.
From Zn.model Require Import Tokenize TokSpec.
Open Scope Z_scope.

Definition lex_doc (src : list Z) : list token * tend := lex (longest_kw doc_keywords) src.
